(** Proofs about the row lock manager model (Model/Lock.v), used by Props/C16.v.
    Axiom-free; standard library only. *)
From Coq Require Import List NArith Bool PeanoNat.
From SDB Require Import Base.Assoc Model.Lock.
Import ListNotations.
Open Scope N_scope.

(* ------------------------------------------------------------------ *)
(** * Association-list facts *)

Section AssocFacts.
  Context {A : Type}.

  Lemma aget_aset_same : forall (m : list (N * A)) k v,
    aget (aset m k v) k = Some v.
  Proof.
    induction m as [|[k0 v0] m IH]; intros k v; cbn [aset aget].
    - rewrite N.eqb_refl. reflexivity.
    - destruct (N.eqb_spec k0 k) as [E|E]; cbn [aget].
      + rewrite N.eqb_refl. reflexivity.
      + destruct (N.eqb_spec k0 k) as [E'|E']; [contradiction|]. apply IH.
  Qed.

  Lemma aget_aset_other : forall (m : list (N * A)) k k' v,
    k <> k' -> aget (aset m k v) k' = aget m k'.
  Proof.
    induction m as [|[k0 v0] m IH]; intros k k' v Hne; cbn [aset aget].
    - destruct (N.eqb_spec k k') as [E|E]; [contradiction|reflexivity].
    - destruct (N.eqb_spec k0 k) as [E|E]; cbn [aget].
      + subst k0. destruct (N.eqb_spec k k') as [E'|E']; [contradiction|reflexivity].
      + destruct (N.eqb_spec k0 k') as [E'|E']; [reflexivity|]. apply IH; assumption.
  Qed.

  Lemma aget_adel_same : forall (m : list (N * A)) k,
    aget (adel m k) k = None.
  Proof.
    induction m as [|[k0 v0] m IH]; intros k; cbn [adel aget].
    - reflexivity.
    - destruct (N.eqb_spec k0 k) as [E|E]; cbn [aget].
      + apply IH.
      + destruct (N.eqb_spec k0 k) as [E'|E']; [contradiction|]. apply IH.
  Qed.

  Lemma aget_adel_other : forall (m : list (N * A)) k k',
    k <> k' -> aget (adel m k) k' = aget m k'.
  Proof.
    induction m as [|[k0 v0] m IH]; intros k k' Hne; cbn [adel aget].
    - reflexivity.
    - destruct (N.eqb_spec k0 k) as [E|E]; cbn [aget].
      + subst k0. destruct (N.eqb_spec k k') as [E'|E']; [contradiction|].
        apply IH; assumption.
      + destruct (N.eqb_spec k0 k') as [E'|E']; [reflexivity|]. apply IH; assumption.
  Qed.
End AssocFacts.

Lemma agetl_aset_same : forall {A} (m : list (N * list A)) k v,
  agetl (aset m k v) k = v.
Proof. intros A m k v. unfold agetl. rewrite aget_aset_same. reflexivity. Qed.

Lemma agetl_aset_other : forall {A} (m : list (N * list A)) k k' v,
  k <> k' -> agetl (aset m k v) k' = agetl m k'.
Proof.
  intros A m k k' v Hne. unfold agetl. rewrite aget_aset_other by assumption.
  reflexivity.
Qed.

Lemma agetl_adel_same : forall {A} (m : list (N * list A)) k,
  agetl (adel m k) k = [].
Proof. intros A m k. unfold agetl. rewrite aget_adel_same. reflexivity. Qed.

Lemma agetl_adel_other : forall {A} (m : list (N * list A)) k k',
  k <> k' -> agetl (adel m k) k' = agetl m k'.
Proof.
  intros A m k k' Hne. unfold agetl. rewrite aget_adel_other by assumption.
  reflexivity.
Qed.

(* ------------------------------------------------------------------ *)
(** * memN / remove1 / snoc facts *)

Lemma memN_In : forall x l, memN x l = true <-> In x l.
Proof.
  intros x l; induction l as [|y l IH]; cbn [memN In].
  - split; [discriminate|contradiction].
  - destruct (N.eqb_spec y x) as [E|E]; cbn [orb].
    + split; intros _; [left; assumption|reflexivity].
    + split.
      * intros H. right. apply IH. assumption.
      * intros [H|H]; [contradiction|]. apply IH. assumption.
Qed.

Lemma memN_false : forall x l, memN x l = false <-> ~ In x l.
Proof.
  intros x l. split.
  - intros H HI. apply memN_In in HI. rewrite HI in H. discriminate.
  - intros H. destruct (memN x l) eqn:E; [|reflexivity].
    apply memN_In in E. contradiction.
Qed.

Lemma In_remove1 : forall u t l, In u (remove1 t l) -> In u l.
Proof.
  intros u t l; induction l as [|y l IH]; cbn [remove1].
  - intros H; assumption.
  - destruct (N.eqb_spec y t) as [E|E]; intros H.
    + right; assumption.
    + destruct H as [H|H]; [left; assumption|right; apply IH; assumption].
Qed.

Lemma In_remove1_neq : forall u t l, u <> t -> In u l -> In u (remove1 t l).
Proof.
  intros u t l Hne; induction l as [|y l IH]; cbn [remove1].
  - intros H; assumption.
  - destruct (N.eqb_spec y t) as [E|E]; intros H.
    + destruct H as [H|H]; [congruence|assumption].
    + destruct H as [H|H]; [left; assumption|right; apply IH; assumption].
Qed.

Lemma remove1_notin : forall t l, ~ In t l -> remove1 t l = l.
Proof.
  intros t l; induction l as [|y l IH]; cbn [remove1]; intros H.
  - reflexivity.
  - destruct (N.eqb_spec y t) as [E|E].
    + exfalso. apply H. left. assumption.
    + f_equal. apply IH. intros HI. apply H. right. assumption.
Qed.

Lemma NoDup_remove1 : forall t (l : list N), NoDup l -> NoDup (remove1 t l).
Proof.
  intros t l; induction l as [|y l IH]; intros H; cbn [remove1].
  - assumption.
  - inversion H as [|y' l' Hnin Hnd]; subst.
    destruct (N.eqb_spec y t) as [E|E].
    + assumption.
    + constructor.
      * intros HI. apply Hnin. eapply In_remove1. eassumption.
      * apply IH. assumption.
Qed.

Lemma remove1_NoDup_notin : forall t (l : list N), NoDup l -> ~ In t (remove1 t l).
Proof.
  intros t l; induction l as [|y l IH]; intros H; cbn [remove1].
  - intros HI. exact HI.
  - inversion H as [|y' l' Hnin Hnd]; subst.
    destruct (N.eqb_spec y t) as [E|E].
    + rewrite <- E. assumption.
    + intros [HI|HI]; [contradiction|]. revert HI. apply IH. assumption.
Qed.

Lemma NoDup_snoc : forall (l : list N) t, NoDup l -> ~ In t l -> NoDup (l ++ [t]).
Proof.
  induction l as [|y l IH]; intros t Hnd Hnin; cbn [app].
  - constructor; [intros HI; exact HI|constructor].
  - inversion Hnd as [|y' l' Hy Hl]; subst. constructor.
    + intros HI. apply in_app_or in HI. destruct HI as [HI|HI]; [contradiction|].
      destruct HI as [HI|HI]; [|exact HI].
      apply Hnin. left. symmetry. assumption.
    + apply IH; [assumption|]. intros HI. apply Hnin. right. assumption.
Qed.

Lemma In_snoc_same : forall (t : N) l, In t (l ++ [t]).
Proof. intros t l. apply in_or_app. right. left. reflexivity. Qed.

Lemma In_snoc_neq : forall (u t : N) l, u <> t -> (In u (l ++ [t]) <-> In u l).
Proof.
  intros u t l Hne. split; intros H.
  - apply in_app_or in H. destruct H as [H|H]; [assumption|].
    destruct H as [H|H]; [|contradiction].
    exfalso. apply Hne. symmetry. assumption.
  - apply in_or_app. left. assumption.
Qed.

Lemma only_me_spec : forall l t, only_me l t = true -> forall u, In u l -> u = t.
Proof.
  intros l t H u Hu. destruct l as [|x [|y l]]; cbn [only_me] in H.
  - contradiction.
  - destruct Hu as [Hu|Hu]; [|contradiction].
    apply N.eqb_eq in H. congruence.
  - discriminate.
Qed.

Lemma two_distinct : forall (x y : N) l t,
  NoDup (x :: y :: l) -> exists o, o <> t /\ In o (x :: y :: l).
Proof.
  intros x y l t Hnd. destruct (N.eq_dec x t) as [E|E].
  - exists y. split; [|right; left; reflexivity].
    intros Ey. inversion Hnd as [|x' l' Hnin Hnd']. apply Hnin. left. congruence.
  - exists x. split; [assumption|left; reflexivity].
Qed.

Lemma only_me_false : forall l t, only_me l t = false -> NoDup l ->
  exists o, o <> t /\ In o l.
Proof.
  intros l t H Hnd. destruct l as [|x [|y l]]; cbn [only_me] in H.
  - discriminate.
  - exists x. split; [apply N.eqb_neq; assumption|left; reflexivity].
  - apply two_distinct. assumption.
Qed.

Lemma len1_all : forall (l : list N) a b,
  Nat.eqb (length l) 1%nat = true -> In a l -> In b l -> a = b.
Proof.
  intros l a b Hl Ha Hb. destruct l as [|x [|y l]]; cbn in Hl.
  - discriminate.
  - destruct Ha as [Ha|Ha]; [|contradiction].
    destruct Hb as [Hb|Hb]; [|contradiction]. congruence.
  - discriminate.
Qed.

Lemma lenN1_other : forall (l : list N) t,
  Nat.eqb (length l) 1%nat = false -> In t l -> NoDup l ->
  exists o, o <> t /\ In o l.
Proof.
  intros l t Hl Ht Hnd. destruct l as [|x [|y l]]; cbn in Hl.
  - contradiction.
  - discriminate.
  - apply two_distinct. assumption.
Qed.

(* ------------------------------------------------------------------ *)
(** * One unlock iteration and the fold over a list of rids *)

Lemma unlock1_sh : forall t tabs r0 r,
  agetl (fst (unlock1 t tabs r0)) r =
  if r0 =? r then remove1 t (agetl (fst tabs) r) else agetl (fst tabs) r.
Proof.
  intros t [shm exm] r0 r. unfold unlock1. cbn [fst].
  destruct (N.eqb_spec r0 r) as [E|E].
  - subst r0. destruct (aget shm r) as [l|] eqn:Hg.
    + assert (Hl : agetl shm r = l) by (unfold agetl; rewrite Hg; reflexivity).
      rewrite Hl. destruct (memN t l) eqn:Hm.
      * apply agetl_aset_same.
      * rewrite Hl. symmetry. apply remove1_notin. apply memN_false. assumption.
    + unfold agetl. rewrite Hg. reflexivity.
  - destruct (aget shm r0) as [l|] eqn:Hg; [|reflexivity].
    destruct (memN t l); [|reflexivity].
    apply agetl_aset_other. assumption.
Qed.

Lemma unlock1_ex : forall t tabs r0,
  snd (unlock1 t tabs r0) =
  match aget (snd tabs) r0 with
  | Some o => if o =? t then adel (snd tabs) r0 else snd tabs
  | None => snd tabs
  end.
Proof. intros t [shm exm] r0. reflexivity. Qed.

Lemma ex1_sub : forall t tabs r0 r u,
  aget (snd (unlock1 t tabs r0)) r = Some u -> aget (snd tabs) r = Some u.
Proof.
  intros t tabs r0 r u. rewrite unlock1_ex.
  destruct (aget (snd tabs) r0) as [o|] eqn:Hg; [|intros H; exact H].
  destruct (N.eqb_spec o t) as [E|E]; [|intros H; exact H].
  intros H. destruct (N.eq_dec r0 r) as [Er|Er].
  - subst r0. rewrite aget_adel_same in H. discriminate.
  - rewrite aget_adel_other in H by assumption. assumption.
Qed.

Lemma ex1_keep : forall t tabs r0 r u, u <> t ->
  aget (snd tabs) r = Some u -> aget (snd (unlock1 t tabs r0)) r = Some u.
Proof.
  intros t tabs r0 r u Hne H. rewrite unlock1_ex.
  destruct (aget (snd tabs) r0) as [o|] eqn:Hg; [|assumption].
  destruct (N.eqb_spec o t) as [E|E]; [|assumption].
  destruct (N.eq_dec r0 r) as [Er|Er].
  - subst r0. rewrite Hg in H. congruence.
  - rewrite aget_adel_other by assumption. assumption.
Qed.

Lemma ex1_gone : forall t tabs r0,
  aget (snd (unlock1 t tabs r0)) r0 <> Some t.
Proof.
  intros t tabs r0. rewrite unlock1_ex.
  destruct (aget (snd tabs) r0) as [o|] eqn:Hg.
  - destruct (N.eqb_spec o t) as [E|E].
    + rewrite aget_adel_same. discriminate.
    + rewrite Hg. congruence.
  - rewrite Hg. discriminate.
Qed.

Lemma sh1_sub : forall t tabs r0 r u,
  In u (agetl (fst (unlock1 t tabs r0)) r) -> In u (agetl (fst tabs) r).
Proof.
  intros t tabs r0 r u. rewrite unlock1_sh.
  destruct (N.eqb_spec r0 r) as [E|E]; [apply In_remove1|intros H; exact H].
Qed.

Lemma sh1_keep : forall t tabs r0 r u, u <> t ->
  In u (agetl (fst tabs) r) -> In u (agetl (fst (unlock1 t tabs r0)) r).
Proof.
  intros t tabs r0 r u Hne H. rewrite unlock1_sh.
  destruct (N.eqb_spec r0 r) as [E|E]; [apply In_remove1_neq; assumption|exact H].
Qed.

Lemma sh1_nodup : forall t tabs r0,
  (forall r, NoDup (agetl (fst tabs) r)) ->
  forall r, NoDup (agetl (fst (unlock1 t tabs r0)) r).
Proof.
  intros t tabs r0 H r. rewrite unlock1_sh.
  destruct (N.eqb_spec r0 r) as [E|E]; [apply NoDup_remove1|]; apply H.
Qed.

Lemma sh1_gone : forall t tabs r0,
  NoDup (agetl (fst tabs) r0) -> ~ In t (agetl (fst (unlock1 t tabs r0)) r0).
Proof.
  intros t tabs r0 H. rewrite unlock1_sh, N.eqb_refl.
  apply remove1_NoDup_notin. assumption.
Qed.

Lemma fold_ex_sub : forall t rids tabs r u,
  aget (snd (fold_left (unlock1 t) rids tabs)) r = Some u ->
  aget (snd tabs) r = Some u.
Proof.
  intros t rids; induction rids as [|r0 rids IH]; intros tabs r u H;
    cbn [fold_left] in H.
  - assumption.
  - apply IH in H. eapply ex1_sub. eassumption.
Qed.

Lemma fold_ex_keep : forall t rids tabs r u, u <> t ->
  aget (snd tabs) r = Some u ->
  aget (snd (fold_left (unlock1 t) rids tabs)) r = Some u.
Proof.
  intros t rids; induction rids as [|r0 rids IH]; intros tabs r u Hne H;
    cbn [fold_left].
  - assumption.
  - apply IH; [assumption|]. apply ex1_keep; assumption.
Qed.

Lemma fold_ex_gone : forall t rids tabs r, In r rids ->
  aget (snd (fold_left (unlock1 t) rids tabs)) r <> Some t.
Proof.
  intros t rids; induction rids as [|r0 rids IH]; intros tabs r HI;
    cbn [fold_left].
  - contradiction.
  - destruct HI as [E|HI].
    + subst r0. intros H. apply fold_ex_sub in H. revert H. apply ex1_gone.
    + apply IH. assumption.
Qed.

Lemma fold_sh_sub : forall t rids tabs r u,
  In u (agetl (fst (fold_left (unlock1 t) rids tabs)) r) ->
  In u (agetl (fst tabs) r).
Proof.
  intros t rids; induction rids as [|r0 rids IH]; intros tabs r u H;
    cbn [fold_left] in H.
  - assumption.
  - apply IH in H. eapply sh1_sub. eassumption.
Qed.

Lemma fold_sh_keep : forall t rids tabs r u, u <> t ->
  In u (agetl (fst tabs) r) ->
  In u (agetl (fst (fold_left (unlock1 t) rids tabs)) r).
Proof.
  intros t rids; induction rids as [|r0 rids IH]; intros tabs r u Hne H;
    cbn [fold_left].
  - assumption.
  - apply IH; [assumption|]. apply sh1_keep; assumption.
Qed.

Lemma fold_sh_nodup : forall t rids tabs,
  (forall r, NoDup (agetl (fst tabs) r)) ->
  forall r, NoDup (agetl (fst (fold_left (unlock1 t) rids tabs)) r).
Proof.
  intros t rids; induction rids as [|r0 rids IH]; intros tabs H; cbn [fold_left].
  - assumption.
  - apply IH. apply sh1_nodup. assumption.
Qed.

Lemma fold_sh_gone : forall t rids tabs r,
  (forall r', NoDup (agetl (fst tabs) r')) -> In r rids ->
  ~ In t (agetl (fst (fold_left (unlock1 t) rids tabs)) r).
Proof.
  intros t rids; induction rids as [|r0 rids IH]; intros tabs r Hnd HI;
    cbn [fold_left].
  - contradiction.
  - destruct HI as [E|HI].
    + subst r0. intros H. apply fold_sh_sub in H. revert H.
      apply sh1_gone. apply Hnd.
    + apply IH; [|assumption]. apply sh1_nodup. assumption.
Qed.

(** The tables after [unlock_all]. *)
Definition utabs (s : lstate) (t : N) :=
  fold_left (unlock1 t) (agetl (xset s) t ++ agetl (sset s) t) (sh s, ex s).

Lemma unlock_all_eq : forall s t,
  unlock_all s t =
  mkL (fst (utabs s t)) (snd (utabs s t)) (adel (sset s) t) (adel (xset s) t).
Proof.
  intros s t. unfold unlock_all, utabs.
  destruct (fold_left (unlock1 t) (agetl (xset s) t ++ agetl (sset s) t)
                      (sh s, ex s)) as [a b].
  reflexivity.
Qed.

Lemma ut_ex_sub : forall s t r u,
  aget (snd (utabs s t)) r = Some u -> aget (ex s) r = Some u.
Proof.
  intros s t r u H. unfold utabs in H. apply fold_ex_sub in H. exact H.
Qed.

Lemma ut_ex_keep : forall s t r u, u <> t ->
  aget (ex s) r = Some u -> aget (snd (utabs s t)) r = Some u.
Proof.
  intros s t r u Hne H. unfold utabs. apply fold_ex_keep; [assumption|exact H].
Qed.

Lemma ut_ex_gone : forall s t r, In r (agetl (xset s) t) ->
  aget (snd (utabs s t)) r <> Some t.
Proof.
  intros s t r HI. unfold utabs. apply fold_ex_gone.
  apply in_or_app. left. assumption.
Qed.

Lemma ut_sh_sub : forall s t r u,
  In u (agetl (fst (utabs s t)) r) -> In u (agetl (sh s) r).
Proof.
  intros s t r u H. unfold utabs in H. apply fold_sh_sub in H. exact H.
Qed.

Lemma ut_sh_keep : forall s t r u, u <> t ->
  In u (agetl (sh s) r) -> In u (agetl (fst (utabs s t)) r).
Proof.
  intros s t r u Hne H. unfold utabs. apply fold_sh_keep; [assumption|exact H].
Qed.

Lemma ut_sh_nodup : forall s t,
  (forall r, NoDup (agetl (sh s) r)) ->
  forall r, NoDup (agetl (fst (utabs s t)) r).
Proof.
  intros s t H. unfold utabs. apply fold_sh_nodup. exact H.
Qed.

Lemma ut_sh_gone : forall s t r,
  (forall r', NoDup (agetl (sh s) r')) -> In r (agetl (sset s) t) ->
  ~ In t (agetl (fst (utabs s t)) r).
Proof.
  intros s t r Hnd HI. unfold utabs. apply fold_sh_gone.
  - exact Hnd.
  - apply in_or_app. right. assumption.
Qed.

(* ------------------------------------------------------------------ *)
(** * The invariant *)

Definition LInv (s : lstate) : Prop :=
  (forall r t u, aget (ex s) r = Some t -> In u (agetl (sh s) r) -> u = t) /\
  (forall r, NoDup (agetl (sh s) r)) /\
  (forall t r, In t (agetl (sh s) r) <-> In r (agetl (sset s) t)) /\
  (forall t r, aget (ex s) r = Some t <-> In r (agetl (xset s) t)).

Lemma LInv_init : LInv linit.
Proof.
  unfold LInv, linit, agetl; cbn.
  split; [|split; [|split]].
  - intros r t u H. discriminate.
  - intros r. constructor.
  - intros t r. split; intros H; exact H.
  - intros t r. split; [discriminate|contradiction].
Qed.

Lemma LInv_grantS : forall s t r, LInv s ->
  aget (ex s) r = None -> ~ In t (agetl (sh s) r) -> LInv (grantS s t r).
Proof.
  intros s t r (I1 & I2 & I3 & I4) Hex Hnin.
  unfold LInv, grantS; cbn [sh ex sset xset].
  split; [|split; [|split]].
  - intros r0 t0 u He Hu. destruct (N.eq_dec r r0) as [E|E].
    + subst r0. rewrite Hex in He. discriminate.
    + rewrite (agetl_aset_other (sh s) r r0) in Hu by assumption.
      eapply I1; eassumption.
  - intros r0. destruct (N.eq_dec r r0) as [E|E].
    + subst r0. rewrite agetl_aset_same. apply NoDup_snoc; [apply I2|assumption].
    + rewrite (agetl_aset_other (sh s) r r0) by assumption. apply I2.
  - intros t0 r0.
    destruct (N.eq_dec r r0) as [Er|Er]; destruct (N.eq_dec t t0) as [Et|Et].
    + subst r0 t0. rewrite !agetl_aset_same.
      split; intros _; apply In_snoc_same.
    + subst r0. rewrite agetl_aset_same.
      rewrite (agetl_aset_other (sset s) t t0) by assumption.
      eapply iff_trans; [apply In_snoc_neq; congruence|apply I3].
    + subst t0. rewrite (agetl_aset_other (sh s) r r0) by assumption.
      rewrite agetl_aset_same.
      eapply iff_trans; [apply I3|]. apply iff_sym. apply In_snoc_neq. congruence.
    + rewrite (agetl_aset_other (sh s) r r0) by assumption.
      rewrite (agetl_aset_other (sset s) t t0) by assumption.
      apply I3.
  - exact I4.
Qed.

Lemma LInv_grantX : forall s t r, LInv s ->
  aget (ex s) r = None -> (forall u, In u (agetl (sh s) r) -> u = t) ->
  LInv (grantX s t r).
Proof.
  intros s t r (I1 & I2 & I3 & I4) Hex Hall.
  unfold LInv, grantX; cbn [sh ex sset xset].
  split; [|split; [|split]].
  - intros r0 t0 u He Hu. destruct (N.eq_dec r r0) as [E|E].
    + subst r0. rewrite aget_aset_same in He.
      assert (Et : t = t0) by congruence. subst t0. apply Hall. assumption.
    + rewrite (aget_aset_other (ex s) r r0) in He by assumption.
      eapply I1; eassumption.
  - exact I2.
  - exact I3.
  - intros t0 r0.
    destruct (N.eq_dec r r0) as [Er|Er]; destruct (N.eq_dec t t0) as [Et|Et].
    + subst r0 t0. rewrite aget_aset_same, agetl_aset_same.
      split; intros _; [apply In_snoc_same|reflexivity].
    + subst r0. rewrite aget_aset_same.
      rewrite (agetl_aset_other (xset s) t t0) by assumption.
      split; intros H.
      * congruence.
      * apply I4 in H. rewrite Hex in H. discriminate.
    + subst t0. rewrite (aget_aset_other (ex s) r r0) by assumption.
      rewrite agetl_aset_same.
      eapply iff_trans; [apply I4|]. apply iff_sym. apply In_snoc_neq. congruence.
    + rewrite (aget_aset_other (ex s) r r0) by assumption.
      rewrite (agetl_aset_other (xset s) t t0) by assumption.
      apply I4.
Qed.

Lemma LInv_unlock_all : forall s t, LInv s -> LInv (unlock_all s t).
Proof.
  intros s t (I1 & I2 & I3 & I4). rewrite unlock_all_eq.
  unfold LInv; cbn [sh ex sset xset].
  split; [|split; [|split]].
  - intros r t0 u He Hu. apply ut_ex_sub in He. apply ut_sh_sub in Hu.
    eapply I1; eassumption.
  - apply ut_sh_nodup. exact I2.
  - intros t0 r. destruct (N.eq_dec t t0) as [E|E].
    + subst t0. rewrite agetl_adel_same. split; [|intros H; contradiction].
      intros H.
      assert (Hin : In r (agetl (sset s) t))
        by (apply I3; eapply ut_sh_sub; exact H).
      exact (ut_sh_gone s t r I2 Hin H).
    + rewrite (agetl_adel_other (sset s) t t0) by assumption. split; intros H.
      * apply I3. eapply ut_sh_sub. exact H.
      * apply ut_sh_keep; [congruence|]. apply I3. assumption.
  - intros t0 r. destruct (N.eq_dec t t0) as [E|E].
    + subst t0. rewrite agetl_adel_same. split; [|intros H; contradiction].
      intros H.
      assert (Hin : In r (agetl (xset s) t))
        by (apply I4; eapply ut_ex_sub; exact H).
      exact (ut_ex_gone s t r Hin H).
    + rewrite (agetl_adel_other (xset s) t t0) by assumption. split; intros H.
      * apply I4. eapply ut_ex_sub. exact H.
      * apply ut_ex_keep; [congruence|]. apply I4. assumption.
Qed.

Lemma LInv_step : forall s o, LInv s -> LInv (fst (lstep s o)).
Proof.
  intros s o H. pose proof H as (I1 & I2 & I3 & I4).
  destruct o as [t r|t r|t r|t]; cbn [lstep].
  - unfold lock_shared. destruct (aget (ex s) r) as [o|] eqn:Hex.
    + destruct (o =? t); cbn [fst]; assumption.
    + destruct (memN t (agetl (sh s) r)) eqn:Hm; cbn [fst]; [assumption|].
      apply LInv_grantS; [assumption|assumption|].
      apply memN_false. assumption.
  - unfold lock_exclusive. destruct (aget (ex s) r) as [o|] eqn:Hex.
    + destruct (o =? t); cbn [fst]; assumption.
    + destruct (only_me (agetl (sh s) r) t) eqn:Ho; cbn [fst]; [|assumption].
      apply LInv_grantX; [assumption|assumption|].
      apply only_me_spec. assumption.
  - unfold lock_upgrade.
    destruct (memN r (agetl (sset s) t)) eqn:Hm; [|cbn [fst]; assumption].
    destruct (aget (ex s) r) as [o|] eqn:Hex.
    + destruct (o =? t); cbn [fst]; assumption.
    + destruct (Nat.eqb (length (agetl (sh s) r)) 1) eqn:Hl; cbn [fst];
        [|assumption].
      apply LInv_grantX; [assumption|assumption|].
      intros u Hu. eapply len1_all; [exact Hl|exact Hu|].
      apply I3. apply memN_In. assumption.
  - cbn [fst]. apply LInv_unlock_all. assumption.
Qed.

Lemma LInv_run : forall ops s, LInv s -> LInv (lrun ops s).
Proof.
  unfold lrun. induction ops as [|o ops IH]; intros s H; cbn [fold_left].
  - assumption.
  - apply IH. apply LInv_step. assumption.
Qed.

Lemma LInv_reach : forall s, (exists ops, s = lrun ops linit) -> LInv s.
Proof.
  intros s [ops Hs]. subst s. apply LInv_run. apply LInv_init.
Qed.

(* ------------------------------------------------------------------ *)
(** * The lemmas used by Props/C16.v *)

Lemma inv_x_excludes_s : forall s, (exists ops, s = lrun ops linit) ->
  forall r t u, holdsX s t r -> holdsS s u r -> u = t.
Proof.
  intros s Hr r t u HX HS. destruct (LInv_reach s Hr) as (I1 & _).
  unfold holdsX in HX. unfold holdsS in HS. eapply I1; eassumption.
Qed.

Lemma inv_nodup : forall s, (exists ops, s = lrun ops linit) ->
  forall r, NoDup (agetl (sh s) r).
Proof.
  intros s Hr. destruct (LInv_reach s Hr) as (_ & I2 & _). exact I2.
Qed.

Lemma inv_views : forall s, (exists ops, s = lrun ops linit) -> forall t r,
  (holdsS s t r <-> In r (agetl (sset s) t)) /\
  (holdsX s t r <-> In r (agetl (xset s) t)).
Proof.
  intros s Hr t r. destruct (LInv_reach s Hr) as (_ & _ & I3 & I4).
  unfold holdsS, holdsX. split; [apply I3|apply I4].
Qed.

Lemma lockS_granted_iff : forall s t r, (exists ops, s = lrun ops linit) ->
  (snd (lstep s (LockS t r)) = Granted <-> (forall o, o <> t -> ~ holdsX s o r)) /\
  (snd (lstep s (LockS t r)) = Granted \/ snd (lstep s (LockS t r)) = Denied).
Proof.
  intros s t r _. cbn [lstep]. unfold lock_shared, holdsX.
  destruct (aget (ex s) r) as [o|] eqn:Hex.
  - destruct (N.eqb_spec o t) as [E|E]; cbn [snd].
    + split; [|left; reflexivity]. split; [|reflexivity].
      intros _ o' Hne H. congruence.
    + split; [|right; reflexivity]. split; [discriminate|].
      intros H. exfalso. apply (H o E). reflexivity.
  - destruct (memN t (agetl (sh s) r)); cbn [snd];
      (split; [|left; reflexivity]); (split; [|reflexivity]);
      intros _ o' _ H; discriminate.
Qed.

Lemma lockX_granted_iff : forall s t r, (exists ops, s = lrun ops linit) ->
  (snd (lstep s (LockX t r)) = Granted <-> (forall o, o <> t -> ~ holds s o r)) /\
  (snd (lstep s (LockX t r)) = Granted \/ snd (lstep s (LockX t r)) = Denied).
Proof.
  intros s t r Hr. destruct (LInv_reach s Hr) as (I1 & I2 & I3 & I4).
  cbn [lstep]. unfold lock_exclusive, holds, holdsS, holdsX.
  destruct (aget (ex s) r) as [o|] eqn:Hex.
  - destruct (N.eqb_spec o t) as [E|E]; cbn [snd].
    + subst o. split; [|left; reflexivity]. split; [|reflexivity].
      intros _ o' Hne [H|H].
      * apply Hne. eapply I1; eassumption.
      * congruence.
    + split; [|right; reflexivity]. split; [discriminate|].
      intros H. exfalso. apply (H o E). right. reflexivity.
  - destruct (only_me (agetl (sh s) r) t) eqn:Ho; cbn [snd].
    + split; [|left; reflexivity]. split; [|reflexivity].
      intros _ o' Hne [H|H]; [|discriminate].
      apply Hne. eapply only_me_spec; eassumption.
    + split; [|right; reflexivity]. split; [discriminate|].
      intros H. exfalso.
      destruct (only_me_false _ _ Ho (I2 r)) as (o' & Hne & Hin).
      apply (H o' Hne). left. assumption.
Qed.

Lemma upgrade_granted_iff_lemma : forall s t r,
  (exists ops, s = lrun ops linit) -> holdsS s t r ->
  (snd (lstep s (Upgrade t r)) = Granted <-> (forall o, o <> t -> ~ holds s o r)) /\
  (snd (lstep s (Upgrade t r)) = Granted \/ snd (lstep s (Upgrade t r)) = Denied).
Proof.
  intros s t r Hr HS. destruct (LInv_reach s Hr) as (I1 & I2 & I3 & I4).
  unfold holdsS in HS.
  assert (Hm : memN r (agetl (sset s) t) = true)
    by (apply memN_In; apply I3; exact HS).
  cbn [lstep]. unfold lock_upgrade. rewrite Hm.
  unfold holds, holdsS, holdsX.
  destruct (aget (ex s) r) as [o|] eqn:Hex.
  - destruct (N.eqb_spec o t) as [E|E]; cbn [snd].
    + subst o. split; [|left; reflexivity]. split; [|reflexivity].
      intros _ o' Hne [H|H].
      * apply Hne. eapply I1; eassumption.
      * congruence.
    + split; [|right; reflexivity]. split; [discriminate|].
      intros H. exfalso. apply (H o E). right. reflexivity.
  - destruct (Nat.eqb (length (agetl (sh s) r)) 1) eqn:Hl; cbn [snd].
    + split; [|left; reflexivity]. split; [|reflexivity].
      intros _ o' Hne [H|H]; [|discriminate].
      apply Hne. eapply len1_all; [exact Hl|exact H|exact HS].
    + split; [|right; reflexivity]. split; [discriminate|].
      intros H. exfalso.
      destruct (lenN1_other _ t Hl HS (I2 r)) as (o' & Hne & Hin).
      apply (H o' Hne). left. assumption.
Qed.

Lemma granted_held : forall s t r, (exists ops, s = lrun ops linit) ->
  (snd (lstep s (LockS t r)) = Granted -> holds (fst (lstep s (LockS t r))) t r) /\
  (snd (lstep s (LockX t r)) = Granted -> holdsX (fst (lstep s (LockX t r))) t r) /\
  (snd (lstep s (Upgrade t r)) = Granted -> holdsX (fst (lstep s (Upgrade t r))) t r).
Proof.
  intros s t r _. cbn [lstep]. split; [|split].
  - unfold lock_shared, holds, holdsS, holdsX.
    destruct (aget (ex s) r) as [o|] eqn:Hex.
    + destruct (N.eqb_spec o t) as [E|E]; cbn [fst snd]; intros H;
        [|discriminate].
      right. rewrite Hex. congruence.
    + destruct (memN t (agetl (sh s) r)) eqn:Hm; cbn [fst snd]; intros _.
      * left. apply memN_In. assumption.
      * left. unfold grantS; cbn [sh]. rewrite agetl_aset_same.
        apply In_snoc_same.
  - unfold lock_exclusive, holdsX.
    destruct (aget (ex s) r) as [o|] eqn:Hex.
    + destruct (N.eqb_spec o t) as [E|E]; cbn [fst snd]; intros H;
        [|discriminate].
      rewrite Hex. congruence.
    + destruct (only_me (agetl (sh s) r) t); cbn [fst snd]; intros H;
        [|discriminate].
      unfold grantX; cbn [ex]. apply aget_aset_same.
  - unfold lock_upgrade, holdsX.
    destruct (memN r (agetl (sset s) t));
      [|cbn [fst snd]; intros H; discriminate].
    destruct (aget (ex s) r) as [o|] eqn:Hex.
    + destruct (N.eqb_spec o t) as [E|E]; cbn [fst snd]; intros H;
        [|discriminate].
      rewrite Hex. congruence.
    + destruct (Nat.eqb (length (agetl (sh s) r)) 1); cbn [fst snd]; intros H;
        [|discriminate].
      unfold grantX; cbn [ex]. apply aget_aset_same.
Qed.

Lemma reacquire : forall s t r, (exists ops, s = lrun ops linit) ->
  (holds s t r -> snd (lstep s (LockS t r)) = Granted) /\
  (holdsX s t r -> snd (lstep s (LockX t r)) = Granted) /\
  (holdsX s t r -> holdsS s t r -> snd (lstep s (Upgrade t r)) = Granted).
Proof.
  intros s t r Hr. destruct (LInv_reach s Hr) as (I1 & I2 & I3 & I4).
  cbn [lstep]. split; [|split].
  - unfold lock_shared, holds, holdsS, holdsX. intros [HS|HX].
    + destruct (aget (ex s) r) as [o|] eqn:Hex.
      * assert (Et : t = o) by (eapply I1; eassumption). subst o.
        rewrite N.eqb_refl. reflexivity.
      * destruct (memN t (agetl (sh s) r)); reflexivity.
    + rewrite HX, N.eqb_refl. reflexivity.
  - unfold lock_exclusive, holdsX. intros HX.
    rewrite HX, N.eqb_refl. reflexivity.
  - unfold lock_upgrade, holdsX, holdsS. intros HX HS.
    assert (Hm : memN r (agetl (sset s) t) = true)
      by (apply memN_In; apply I3; exact HS).
    rewrite Hm, HX, N.eqb_refl. reflexivity.
Qed.

Lemma denied_same : forall s o,
  snd (lstep s o) = Denied \/ snd (lstep s o) = LPanic -> fst (lstep s o) = s.
Proof.
  intros s o. destruct o as [t r|t r|t r|t]; cbn [lstep].
  - unfold lock_shared. destruct (aget (ex s) r) as [o|].
    + destruct (o =? t); cbn [fst snd]; intros _; reflexivity.
    + destruct (memN t (agetl (sh s) r)); cbn [fst snd].
      * intros _; reflexivity.
      * intros [H|H]; discriminate.
  - unfold lock_exclusive. destruct (aget (ex s) r) as [o|].
    + destruct (o =? t); cbn [fst snd]; intros _; reflexivity.
    + destruct (only_me (agetl (sh s) r) t); cbn [fst snd].
      * intros [H|H]; discriminate.
      * intros _; reflexivity.
  - unfold lock_upgrade.
    destruct (memN r (agetl (sset s) t)); [|cbn [fst snd]; intros _; reflexivity].
    destruct (aget (ex s) r) as [o|].
    + destruct (o =? t); cbn [fst snd]; intros _; reflexivity.
    + destruct (Nat.eqb (length (agetl (sh s) r)) 1); cbn [fst snd].
      * intros [H|H]; discriminate.
      * intros _; reflexivity.
  - cbn [fst snd]. intros [H|H]; discriminate.
Qed.

Lemma and_id : forall A B : Prop, (A -> A) /\ (B -> B).
Proof. intros A B. split; intros H; exact H. Qed.

Lemma iff_id2 : forall A B : Prop, (A <-> A) /\ (B <-> B).
Proof. intros A B. split; apply iff_refl. Qed.

Lemma grantX_persist : forall s t' r' t r, aget (ex s) r' = None ->
  (holdsS s t r -> holdsS (grantX s t' r') t r) /\
  (holdsX s t r -> holdsX (grantX s t' r') t r).
Proof.
  intros s t' r' t r Hex. unfold holdsS, holdsX, grantX; cbn [sh ex].
  split; intros H; [exact H|].
  destruct (N.eq_dec r' r) as [E|E].
  - subst r'. rewrite Hex in H. discriminate.
  - rewrite aget_aset_other by assumption. exact H.
Qed.

Lemma persist : forall s o t r, (exists ops, s = lrun ops linit) ->
  o <> UnlockAll t ->
  (holdsS s t r -> holdsS (fst (lstep s o)) t r) /\
  (holdsX s t r -> holdsX (fst (lstep s o)) t r).
Proof.
  intros s o t r _ Hne. destruct o as [t' r'|t' r'|t' r'|t']; cbn [lstep].
  - unfold lock_shared. destruct (aget (ex s) r') as [o|] eqn:Hex.
    + destruct (o =? t'); cbn [fst]; apply and_id.
    + destruct (memN t' (agetl (sh s) r')); cbn [fst]; [apply and_id|].
      unfold holdsS, holdsX, grantS; cbn [sh ex]. split; intros H; [|exact H].
      destruct (N.eq_dec r' r) as [E|E].
      * subst r'. rewrite agetl_aset_same. apply in_or_app. left. exact H.
      * rewrite agetl_aset_other by assumption. exact H.
  - unfold lock_exclusive. destruct (aget (ex s) r') as [o|] eqn:Hex.
    + destruct (o =? t'); cbn [fst]; apply and_id.
    + destruct (only_me (agetl (sh s) r') t'); cbn [fst]; [|apply and_id].
      apply grantX_persist. assumption.
  - unfold lock_upgrade.
    destruct (memN r' (agetl (sset s) t')); [|cbn [fst]; apply and_id].
    destruct (aget (ex s) r') as [o|] eqn:Hex.
    + destruct (o =? t'); cbn [fst]; apply and_id.
    + destruct (Nat.eqb (length (agetl (sh s) r')) 1); cbn [fst]; [|apply and_id].
      apply grantX_persist. assumption.
  - assert (Ht : t <> t') by congruence.
    cbn [fst]. rewrite unlock_all_eq. unfold holdsS, holdsX; cbn [sh ex].
    split; intros H.
    + apply ut_sh_keep; assumption.
    + apply ut_ex_keep; assumption.
Qed.

Lemma grantX_others : forall s t r' u r, aget (ex s) r' = None -> u <> t ->
  (holdsS (grantX s t r') u r <-> holdsS s u r) /\
  (holdsX (grantX s t r') u r <-> holdsX s u r).
Proof.
  intros s t r' u r Hex Hne. unfold holdsS, holdsX, grantX; cbn [sh ex].
  split; [apply iff_refl|].
  destruct (N.eq_dec r' r) as [E|E].
  - subst r'. rewrite aget_aset_same, Hex. split; intros H.
    + congruence.
    + discriminate.
  - rewrite aget_aset_other by assumption. apply iff_refl.
Qed.

Lemma others_same : forall s o t r u, (exists ops, s = lrun ops linit) ->
  match o with LockS t' _ | LockX t' _ | Upgrade t' _ | UnlockAll t' => t' = t end ->
  u <> t ->
  (holdsS (fst (lstep s o)) u r <-> holdsS s u r) /\
  (holdsX (fst (lstep s o)) u r <-> holdsX s u r).
Proof.
  intros s o t r u _ Ht Hne.
  destruct o as [t' r'|t' r'|t' r'|t']; cbn in Ht; subst t'; cbn [lstep].
  - unfold lock_shared. destruct (aget (ex s) r') as [o|] eqn:Hex.
    + destruct (o =? t); cbn [fst]; apply iff_id2.
    + destruct (memN t (agetl (sh s) r')); cbn [fst]; [apply iff_id2|].
      unfold holdsS, holdsX, grantS; cbn [sh ex]. split; [|apply iff_refl].
      destruct (N.eq_dec r' r) as [E|E].
      * subst r'. rewrite agetl_aset_same. apply In_snoc_neq. assumption.
      * rewrite agetl_aset_other by assumption. apply iff_refl.
  - unfold lock_exclusive. destruct (aget (ex s) r') as [o|] eqn:Hex.
    + destruct (o =? t); cbn [fst]; apply iff_id2.
    + destruct (only_me (agetl (sh s) r') t); cbn [fst]; [|apply iff_id2].
      apply grantX_others; assumption.
  - unfold lock_upgrade.
    destruct (memN r' (agetl (sset s) t)); [|cbn [fst]; apply iff_id2].
    destruct (aget (ex s) r') as [o|] eqn:Hex.
    + destruct (o =? t); cbn [fst]; apply iff_id2.
    + destruct (Nat.eqb (length (agetl (sh s) r')) 1); cbn [fst]; [|apply iff_id2].
      apply grantX_others; assumption.
  - cbn [fst]. rewrite unlock_all_eq. unfold holdsS, holdsX; cbn [sh ex].
    split; split; intros H.
    + eapply ut_sh_sub. exact H.
    + apply ut_sh_keep; assumption.
    + eapply ut_ex_sub. exact H.
    + apply ut_ex_keep; assumption.
Qed.

Lemma unlock_own : forall s t r, (exists ops, s = lrun ops linit) ->
  ~ holds (fst (lstep s (UnlockAll t))) t r.
Proof.
  intros s t r Hr. destruct (LInv_reach s Hr) as (I1 & I2 & I3 & I4).
  cbn [lstep fst]. rewrite unlock_all_eq.
  unfold holds, holdsS, holdsX; cbn [sh ex]. intros [H|H].
  - assert (Hin : In r (agetl (sset s) t))
      by (apply I3; eapply ut_sh_sub; exact H).
    exact (ut_sh_gone s t r I2 Hin H).
  - assert (Hin : In r (agetl (xset s) t))
      by (apply I4; eapply ut_ex_sub; exact H).
    exact (ut_ex_gone s t r Hin H).
Qed.
