(** Proofs about the strict-2PL / no-wait scheduling model (Model/Sched.v),
    used by Props/C05.v.  Axiom-free; standard library + LockProofs only. *)
From Coq Require Import List NArith Bool PeanoNat Lia ZifyBool ZifyN ZifyNat.
From SDB Require Import Base.Assoc Model.Lock Model.Sched Proofs.LockProofs.
Import ListNotations.
Open Scope N_scope.

(* ------------------------------------------------------------------ *)
(** * Stores, rollback *)

Definition keys (l : list (N * N)) : list N := map fst l.

Lemma sget_aset : forall st x v y,
  sget (aset st x v) y = if x =? y then v else sget st y.
Proof.
  intros st x v y. unfold sget. destruct (N.eqb_spec x y) as [E|E].
  - subst y. rewrite aget_aset_same. reflexivity.
  - rewrite aget_aset_other by assumption. reflexivity.
Qed.

Lemma sget_aset_same : forall st x v, sget (aset st x v) x = v.
Proof. intros st x v. rewrite sget_aset, N.eqb_refl. reflexivity. Qed.

Lemma sget_aset_other : forall st x v y, x <> y -> sget (aset st x v) y = sget st y.
Proof.
  intros st x v y H. rewrite sget_aset.
  destruct (N.eqb_spec x y) as [E|E]; [contradiction|reflexivity].
Qed.

Lemma rollback_cons : forall st y w l,
  rollback st ((y, w) :: l) = rollback (aset st y w) l.
Proof. intros st y w l. reflexivity. Qed.

Lemma rollback_frame : forall l st x, ~ In x (keys l) ->
  sget (rollback st l) x = sget st x.
Proof.
  induction l as [|[y w] l IH]; intros st x Hn.
  - reflexivity.
  - rewrite rollback_cons. rewrite IH.
    + apply sget_aset_other. intros E. apply Hn. left. exact E.
    + intros HI. apply Hn. right. exact HI.
Qed.

Lemma rollback_indep : forall l st st' x, In x (keys l) ->
  sget (rollback st l) x = sget (rollback st' l) x.
Proof.
  induction l as [|[y w] l IH]; intros st st' x HI.
  - contradiction.
  - rewrite !rollback_cons.
    destruct (in_dec N.eq_dec x (keys l)) as [Hk|Hk].
    + apply IH. exact Hk.
    + destruct HI as [E|HI]; [|contradiction]. cbn [fst] in E. subst y.
      rewrite !rollback_frame by assumption. rewrite !sget_aset_same. reflexivity.
Qed.

(* ------------------------------------------------------------------ *)
(** * Re-execution of recorded events *)

Definition wrote (p : list event) (x : N) : Prop := exists t v, In (EvWrite t x v) p.
Definition readsrow (p : list event) (x : N) : Prop := exists t v, In (EvRead t x v) p.

Lemma rstore_snoc : forall st p e, rstore st (p ++ [e]) = ev_apply (rstore st p) e.
Proof. intros st p e. unfold rstore. rewrite fold_left_app. reflexivity. Qed.

Lemma rout_snoc : forall p st e,
  rout st (p ++ [e]) = rout st p ++ [ev_see (rstore st p) e].
Proof.
  induction p as [|a p IH]; intros st e; cbn [app rout].
  - reflexivity.
  - rewrite IH. reflexivity.
Qed.

Lemma wrote_snoc : forall p e x,
  wrote (p ++ [e]) x <-> wrote p x \/ exists t v, e = EvWrite t x v.
Proof.
  intros p e x. unfold wrote. split.
  - intros (t & v & HI). apply in_app_or in HI. destruct HI as [HI|HI].
    + left. exists t, v. exact HI.
    + destruct HI as [HI|HI]; [|contradiction]. right. exists t, v. exact HI.
  - intros [(t & v & HI)|(t & v & HI)]; exists t, v; apply in_or_app.
    + left. exact HI.
    + right. left. exact HI.
Qed.

Lemma rstore_frame : forall p st x, ~ wrote p x -> sget (rstore st p) x = sget st x.
Proof.
  induction p as [|e p IH] using rev_ind; intros st x Hn.
  - reflexivity.
  - rewrite rstore_snoc.
    assert (Hp : ~ wrote p x).
    { intros H. apply Hn. apply wrote_snoc. left. exact H. }
    destruct e as [t y v|t y v|t|t]; cbn [ev_apply]; try (apply IH; exact Hp).
    rewrite sget_aset_other; [apply IH; exact Hp|].
    intros E. subst y. apply Hn. apply wrote_snoc. right. exists t, v. reflexivity.
Qed.

Lemma rstore_indep : forall p st st' x, wrote p x ->
  sget (rstore st p) x = sget (rstore st' p) x.
Proof.
  induction p as [|e p IH] using rev_ind; intros st st' x Hw.
  - destruct Hw as (t & v & HI). contradiction.
  - rewrite !rstore_snoc. apply wrote_snoc in Hw.
    destruct e as [t y v|t y v|t|t]; cbn [ev_apply].
    + destruct Hw as [Hw|(t' & v' & E)]; [apply IH; exact Hw|discriminate].
    + rewrite !sget_aset. destruct (N.eqb_spec y x) as [E|E]; [reflexivity|].
      destruct Hw as [Hw|(t' & v' & E')]; [apply IH; exact Hw|].
      exfalso. apply E. congruence.
    + destruct Hw as [Hw|(t' & v' & E)]; [apply IH; exact Hw|discriminate].
    + destruct Hw as [Hw|(t' & v' & E)]; [apply IH; exact Hw|discriminate].
Qed.

Lemma rstore_origin : forall p st x,
  sget (rstore st p) x = sget st x \/
  exists t, In (EvWrite t x (sget (rstore st p) x)) p.
Proof.
  induction p as [|e p IH] using rev_ind; intros st x.
  - left. reflexivity.
  - rewrite rstore_snoc.
    assert (Hk : sget (rstore st p) x = sget st x \/
                 exists t, In (EvWrite t x (sget (rstore st p) x)) (p ++ [e])).
    { destruct (IH st x) as [H|(t & H)]; [left; exact H|].
      right. exists t. apply in_or_app. left. exact H. }
    destruct e as [t y v|t y v|t|t]; cbn [ev_apply]; try exact Hk.
    rewrite sget_aset. destruct (N.eqb_spec y x) as [E|E]; [|exact Hk].
    subst y. right. exists t. apply in_or_app. right. left. reflexivity.
Qed.

Lemma rout_agree : forall p st st',
  (forall x, readsrow p x -> sget st x = sget st' x) -> rout st p = rout st' p.
Proof.
  induction p as [|e p IH]; intros st st' H; cbn [rout].
  - reflexivity.
  - f_equal.
    + destruct e as [t y v|t y v|t|t]; cbn [ev_see]; try reflexivity.
      rewrite (H y); [reflexivity|]. exists t, v. left. reflexivity.
    + apply IH. intros x (t & v & HI).
      assert (Hx : sget st x = sget st' x).
      { apply H. exists t, v. right. exact HI. }
      destruct e as [t' y w|t' y w|t'|t']; cbn [ev_apply]; try exact Hx.
      rewrite !sget_aset. destruct (y =? x); [reflexivity|exact Hx].
Qed.

Lemma sstore_snoc : forall st ps p, sstore st (ps ++ [p]) = rstore (sstore st ps) p.
Proof. intros st ps p. unfold sstore. rewrite fold_left_app. reflexivity. Qed.

Lemma sout_snoc : forall ps st p,
  sout st (ps ++ [p]) = sout st ps ++ rout (sstore st ps) p.
Proof.
  induction ps as [|a ps IH]; intros st p; cbn [app sout].
  - rewrite app_nil_r. reflexivity.
  - rewrite IH. rewrite app_assoc. reflexivity.
Qed.

(** A value in the serial store is the initial one or was written by one of
    the programs. *)
Lemma sstore_origin : forall ps st x,
  sget (sstore st ps) x = sget st x \/
  exists p t, In p ps /\ In (EvWrite t x (sget (sstore st ps) x)) p.
Proof.
  induction ps as [|p ps IH] using rev_ind; intros st x.
  - left. reflexivity.
  - rewrite sstore_snoc.
    destruct (rstore_origin p (sstore st ps) x) as [H|(t & H)].
    + rewrite H. destruct (IH st x) as [H'|(p' & t & Hp & Hw)]; [left; exact H'|].
      right. exists p', t. split; [apply in_or_app; left; exact Hp|exact Hw].
    + right. exists p, t. split; [apply in_or_app; right; left; reflexivity|exact H].
Qed.

(* ------------------------------------------------------------------ *)
(** * Projections and commit order *)

Lemma proj_app : forall t a b, proj t (a ++ b) = proj t a ++ proj t b.
Proof. intros t a b. unfold proj. apply filter_app. Qed.

Lemma proj_In : forall t tr e, In e (proj t tr) <-> In e tr /\ ev_txn e = t.
Proof.
  intros t tr e. unfold proj. rewrite filter_In.
  split; intros [H1 H2]; (split; [exact H1|]); apply N.eqb_eq; exact H2.
Qed.

Lemma proj_one_same : forall e, proj (ev_txn e) [e] = [e].
Proof. intros e. unfold proj. cbn [filter]. rewrite N.eqb_refl. reflexivity. Qed.

Lemma proj_one_other : forall t e, ev_txn e <> t -> proj t [e] = [].
Proof.
  intros t e H. unfold proj. cbn [filter].
  destruct (N.eqb_spec (ev_txn e) t) as [E|E]; [contradiction|reflexivity].
Qed.

Lemma proj_snoc_other : forall t tr e, ev_txn e <> t -> proj t (tr ++ [e]) = proj t tr.
Proof.
  intros t tr e H. rewrite proj_app, proj_one_other by assumption. apply app_nil_r.
Qed.

Lemma proj_snoc_same : forall tr e, proj (ev_txn e) (tr ++ [e]) = proj (ev_txn e) tr ++ [e].
Proof. intros tr e. rewrite proj_app, proj_one_same. reflexivity. Qed.

Lemma committed_app : forall a b, committed (a ++ b) = committed a ++ committed b.
Proof. intros a b. unfold committed. apply flat_map_app. Qed.

Lemma committed_In : forall tr t, In t (committed tr) <-> In (EvCommit t) tr.
Proof.
  intros tr t. unfold committed. rewrite in_flat_map. split.
  - intros (e & He & Ht). destruct e as [a b c|a b c|a|a]; cbn in Ht; try contradiction.
    destruct Ht as [Ht|Ht]; [|contradiction]. subst a. exact He.
  - intros H. exists (EvCommit t). split; [exact H|left; reflexivity].
Qed.

Definition is_commit (e : event) : bool :=
  match e with EvCommit _ => true | _ => false end.

Lemma progs_snoc_other : forall tr e, is_commit e = false ->
  ~ In (ev_txn e) (committed tr) -> progs (tr ++ [e]) = progs tr.
Proof.
  intros tr e Hc Hn. unfold progs. rewrite committed_app.
  assert (E : committed [e] = []) by (destruct e; [reflexivity|reflexivity|discriminate|reflexivity]).
  rewrite E, app_nil_r. apply map_ext_in. intros t Ht.
  apply proj_snoc_other. intros E'. apply Hn. rewrite E'. exact Ht.
Qed.

Lemma progs_snoc_commit : forall tr t, ~ In t (committed tr) ->
  progs (tr ++ [EvCommit t]) = progs tr ++ [proj t tr ++ [EvCommit t]].
Proof.
  intros tr t Hn. unfold progs. rewrite committed_app. cbn [committed flat_map app].
  rewrite map_app. cbn [map]. f_equal.
  - apply map_ext_in. intros u Hu. apply proj_snoc_other. cbn [ev_txn].
    intros E. apply Hn. rewrite E. exact Hu.
  - f_equal. apply (proj_snoc_same tr (EvCommit t)).
Qed.

(* ------------------------------------------------------------------ *)
(** * Lock manager facts in the form used here *)

Definition lreach (l : lstate) : Prop := exists ops, l = lrun ops linit.

Lemma lreach_init : lreach linit.
Proof. exists []. reflexivity. Qed.

Lemma lreach_step : forall l o, lreach l -> lreach (fst (lstep l o)).
Proof.
  intros l o [ops H]. exists (ops ++ [o]). unfold lrun. rewrite fold_left_app.
  cbn [fold_left]. subst l. reflexivity.
Qed.

Lemma holdsSb_true : forall l t x, holdsSb l t x = true <-> holdsS l t x.
Proof. intros l t x. unfold holdsSb, holdsS. apply memN_In. Qed.

Lemma holdsXb_true : forall l t x, holdsXb l t x = true <-> holdsX l t x.
Proof.
  intros l t x. unfold holdsXb, holdsX. destruct (aget (ex l) x) as [o|].
  - rewrite N.eqb_eq. split; intros H; congruence.
  - split; intros H; discriminate.
Qed.

Lemma lock_excl : forall l t u x, lreach l -> holdsX l u x -> holds l t x -> t = u.
Proof.
  intros l t u x R HX [HS|HX'].
  - eapply inv_x_excludes_s; eassumption.
  - unfold holdsX in *. congruence.
Qed.

(** What a lock request of [t] (or nothing) does to the lock state. *)
Definition lmove (l l' : lstate) (t : N) : Prop :=
  lreach l' /\
  (forall u r, (holdsS l u r -> holdsS l' u r) /\ (holdsX l u r -> holdsX l' u r)) /\
  (forall u r, u <> t ->
     (holdsS l' u r <-> holdsS l u r) /\ (holdsX l' u r <-> holdsX l u r)).

Lemma lmove_refl : forall l t, lreach l -> lmove l l t.
Proof.
  intros l t R. split; [exact R|]. split.
  - intros u r. apply and_id.
  - intros u r _. apply iff_id2.
Qed.

Lemma lmove_req : forall l t o, lreach l ->
  (exists r, o = LockS t r \/ o = LockX t r \/ o = Upgrade t r) ->
  lmove l (fst (lstep l o)) t.
Proof.
  intros l t o R (r0 & Ho). split; [apply lreach_step; exact R|]. split.
  - intros u r. apply persist; [exact R|].
    destruct Ho as [Ho|[Ho|Ho]]; subst o; discriminate.
  - intros u r Hne. apply (others_same l o t r u R); [|exact Hne].
    destruct Ho as [Ho|[Ho|Ho]]; subst o; reflexivity.
Qed.

Lemma lmove_holds : forall l l' t u r, lmove l l' t -> holds l u r -> holds l' u r.
Proof.
  intros l l' t u r (_ & Hp & _) [H|H]; [left|right]; apply Hp; exact H.
Qed.

Lemma lmove_other : forall l l' t u r, lmove l l' t -> u <> t ->
  (holds l' u r <-> holds l u r).
Proof.
  intros l l' t u r (_ & _ & Ho) Hne. destruct (Ho u r Hne) as [H1 H2].
  unfold holds. rewrite H1, H2. apply iff_refl.
Qed.

Lemma unlock_other : forall l t u r, lreach l -> u <> t ->
  (holdsS (fst (lstep l (UnlockAll t))) u r <-> holdsS l u r) /\
  (holdsX (fst (lstep l (UnlockAll t))) u r <-> holdsX l u r).
Proof.
  intros l t u r R Hne. apply (others_same l (UnlockAll t) t r u R); [reflexivity|exact Hne].
Qed.

Lemma unlock_other_holds : forall l t u r, lreach l -> u <> t ->
  (holds (fst (lstep l (UnlockAll t))) u r <-> holds l u r).
Proof.
  intros l t u r R Hne. destruct (unlock_other l t u r R Hne) as [H1 H2].
  unfold holds. rewrite H1, H2. apply iff_refl.
Qed.

(* ------------------------------------------------------------------ *)
(** * Shape of one step *)

Lemma with_locks_same : forall s, with_locks s (locks s) = s.
Proof. intros [l st u f]. reflexivity. Qed.

Lemma sstep_cases : forall s o, lreach (locks s) ->
  (In (op_txn o) (fin s) /\ sstep s o = (s, [])) \/
  (~ In (op_txn o) (fin s) /\
   ((exists x l', o = SRead (op_txn o) x /\ lmove (locks s) l' (op_txn o) /\
        holds l' (op_txn o) x /\
        sstep s o = do_read (with_locks s l') (op_txn o) x) \/
    (exists x v l', o = SWrite (op_txn o) x v /\ lmove (locks s) l' (op_txn o) /\
        holdsX l' (op_txn o) x /\
        sstep s o = do_write (with_locks s l') (op_txn o) x v) \/
    (o = SCommit (op_txn o) /\ sstep s o = commit_txn s (op_txn o)) \/
    sstep s o = abort_txn s (op_txn o))).
Proof.
  intros s o R. unfold sstep. destruct (memN (op_txn o) (fin s)) eqn:Hm.
  - left. split; [apply memN_In; exact Hm|reflexivity].
  - right. split; [apply memN_false; exact Hm|].
    destruct o as [t x|t x v|t|t]; cbn [op_txn].
    + destruct (holdsSb (locks s) t x || holdsXb (locks s) t x) eqn:Hh.
      * left. exists x, (locks s). split; [reflexivity|].
        split; [apply lmove_refl; exact R|]. split.
        -- apply orb_true_iff in Hh. destruct Hh as [Hh|Hh].
           ++ left. apply holdsSb_true. exact Hh.
           ++ right. apply holdsXb_true. exact Hh.
        -- rewrite with_locks_same. reflexivity.
      * unfold request. destruct (lstep (locks s) (LockS t x)) as [l' out] eqn:E.
        destruct out; try (right; right; right; reflexivity).
        left. exists x, l'.
        assert (El : l' = fst (lstep (locks s) (LockS t x))) by (rewrite E; reflexivity).
        split; [reflexivity|]. split.
        -- rewrite El. apply lmove_req; [exact R|]. exists x. left. reflexivity.
        -- split; [|reflexivity]. rewrite El.
           apply (granted_held (locks s) t x R). rewrite E. reflexivity.
    + destruct (holdsXb (locks s) t x) eqn:HX.
      * right. left. exists x, v, (locks s). split; [reflexivity|].
        split; [apply lmove_refl; exact R|]. split.
        -- apply holdsXb_true. exact HX.
        -- rewrite with_locks_same. reflexivity.
      * destruct (holdsSb (locks s) t x) eqn:HS.
        -- unfold request. destruct (lstep (locks s) (Upgrade t x)) as [l' out] eqn:E.
           destruct out; try (right; right; right; reflexivity).
           right. left. exists x, v, l'.
           assert (El : l' = fst (lstep (locks s) (Upgrade t x))) by (rewrite E; reflexivity).
           split; [reflexivity|]. split.
           ++ rewrite El. apply lmove_req; [exact R|]. exists x. right. right. reflexivity.
           ++ split; [|reflexivity]. rewrite El.
              apply (granted_held (locks s) t x R). rewrite E. reflexivity.
        -- unfold request. destruct (lstep (locks s) (LockX t x)) as [l' out] eqn:E.
           destruct out; try (right; right; right; reflexivity).
           right. left. exists x, v, l'.
           assert (El : l' = fst (lstep (locks s) (LockX t x))) by (rewrite E; reflexivity).
           split; [reflexivity|]. split.
           ++ rewrite El. apply lmove_req; [exact R|]. exists x. right. left. reflexivity.
           ++ split; [|reflexivity]. rewrite El.
              apply (granted_held (locks s) t x R). rewrite E. reflexivity.
    + right. right. left. split; reflexivity.
    + right. right. right. reflexivity.
Qed.

(* ------------------------------------------------------------------ *)
(** * The invariant *)

Definition finished (tr : list event) (t : N) : Prop :=
  In (EvCommit t) tr \/ In (EvAbort t) tr.

(** The serial ("committed") store: the committed transactions replayed in
    commit order on the initial store. *)
Definition cstore (st0 : list (N * N)) (tr : list event) : list (N * N) :=
  sstore st0 (progs tr).

Definition ulist (s : sstate) (t : N) : list (N * N) := agetl (undo s) t.

Definition locked_for (l : lstate) (e : event) : Prop :=
  match e with
  | EvRead t x _ => holds l t x
  | EvWrite t x _ => holdsX l t x
  | _ => True
  end.

Record Inv (st0 : list (N * N)) (s : sstate) (tr : list event) : Prop := mkInv {
  i_reach : lreach (locks s);
  i_fin : forall t, In t (fin s) <-> finished tr t;
  i_done : forall t, In t (fin s) ->
             ulist s t = [] /\ forall x, ~ holds (locks s) t x;
  i_lock : forall e, In e tr -> ~ In (ev_txn e) (fin s) -> locked_for (locks s) e;
  i_undo : forall t, ~ In t (fin s) ->
             forall x, In x (keys (ulist s t)) <-> wrote (proj t tr) x;
  i_view : forall t, ~ In t (fin s) ->
             rout (cstore st0 tr) (proj t tr) = proj t tr;
  i_own : forall t, ~ In t (fin s) -> forall x, In x (keys (ulist s t)) ->
             sget (store s) x = sget (rstore (cstore st0 tr) (proj t tr)) x;
  i_back : forall t, ~ In t (fin s) -> forall x, In x (keys (ulist s t)) ->
             sget (rollback (store s) (ulist s t)) x = sget (cstore st0 tr) x;
  i_clean : forall x, (forall t, ~ In x (keys (ulist s t))) ->
             sget (store s) x = sget (cstore st0 tr) x;
  i_serial : sout st0 (progs tr) = concat (progs tr)
}.

Lemma Inv_init : forall st0, Inv st0 (sinit st0) [].
Proof.
  intros st0. constructor; cbn.
  - apply lreach_init.
  - intros t. unfold finished. cbn. tauto.
  - intros t H. contradiction.
  - intros e H. contradiction.
  - intros t _ x. unfold ulist, wrote. cbn. split; [intros H; contradiction|].
    intros (a & b & H). exact H.
  - intros t _. reflexivity.
  - intros t _ x H. contradiction.
  - intros t _ x H. contradiction.
  - intros x _. reflexivity.
  - reflexivity.
Qed.

(** An undo entry belongs to an unfinished transaction that holds X. *)
Lemma inv_owner : forall st0 s tr u x, Inv st0 s tr ->
  In x (keys (ulist s u)) -> ~ In u (fin s) /\ holdsX (locks s) u x.
Proof.
  intros st0 s tr u x I HI.
  assert (Hu : ~ In u (fin s)).
  { intros Hf. destruct (i_done _ _ _ I u Hf) as [E _]. rewrite E in HI. exact HI. }
  split; [exact Hu|].
  apply (i_undo _ _ _ I u Hu) in HI. destruct HI as (t' & v & HI).
  apply proj_In in HI. destruct HI as [HI Ht]. cbn [ev_txn] in Ht. subst t'.
  apply (i_lock _ _ _ I _ HI). exact Hu.
Qed.

Lemma inv_excl : forall st0 s tr t u x, Inv st0 s tr ->
  In x (keys (ulist s u)) -> holds (locks s) t x -> t = u.
Proof.
  intros st0 s tr t u x I HI Hh. destruct (inv_owner _ _ _ _ _ I HI) as [_ HX].
  eapply lock_excl; [apply (i_reach _ _ _ I)|exact HX|exact Hh].
Qed.

Lemma inv_nocommit : forall st0 s tr t, Inv st0 s tr -> ~ In t (fin s) ->
  ~ In t (committed tr).
Proof.
  intros st0 s tr t I Hn Hc. apply Hn. apply (i_fin _ _ _ I). left.
  apply committed_In. exact Hc.
Qed.

Lemma finished_snoc : forall tr e t,
  finished (tr ++ [e]) t <-> finished tr t \/ e = EvCommit t \/ e = EvAbort t.
Proof.
  intros tr e t. unfold finished. rewrite !in_app_iff. cbn [In]. split.
  - intros [[H|[H|[]]]|[H|[H|[]]]]; auto.
  - intros [[H|H]|[H|H]]; auto.
Qed.

(** Only the lock state moves (a granted request of an unfinished [t]). *)
Lemma inv_lmove : forall st0 s tr t l', Inv st0 s tr -> ~ In t (fin s) ->
  lmove (locks s) l' t -> Inv st0 (with_locks s l') tr.
Proof.
  intros st0 s tr t l' I Ht M.
  constructor; cbn [with_locks locks store undo fin];
    try (exact (i_fin _ _ _ I) || exact (i_undo _ _ _ I) || exact (i_view _ _ _ I) ||
         exact (i_own _ _ _ I) || exact (i_back _ _ _ I) || exact (i_clean _ _ _ I) ||
         exact (i_serial _ _ _ I)).
  - destruct M as [R _]. exact R.
  - intros u Hu. destruct (i_done _ _ _ I u Hu) as [E Hl]. split; [exact E|].
    intros x Hh. apply (Hl x). apply (lmove_other _ _ _ u x M); [|exact Hh].
    intros Eu. subst u. contradiction.
  - intros e He Hn. pose proof (i_lock _ _ _ I e He Hn) as H.
    destruct e as [a b c|a b c|a|a]; cbn [locked_for] in *; try exact Logic.I.
    + eapply lmove_holds; [exact M|exact H].
    + destruct M as (_ & Hp & _). apply Hp. exact H.
Qed.

Lemma proj_snoc_eq : forall t tr e, ev_txn e = t -> proj t (tr ++ [e]) = proj t tr ++ [e].
Proof. intros t tr e H. subst t. apply proj_snoc_same. Qed.

Lemma cstore_snoc_other : forall st0 tr e, is_commit e = false ->
  ~ In (ev_txn e) (committed tr) -> cstore st0 (tr ++ [e]) = cstore st0 tr.
Proof.
  intros st0 tr e Hc Hn. unfold cstore. rewrite progs_snoc_other by assumption.
  reflexivity.
Qed.

(** A read by an unfinished [t] that holds a lock on [x]. *)
Lemma inv_read : forall st0 s tr t x, Inv st0 s tr -> ~ In t (fin s) ->
  holds (locks s) t x -> Inv st0 s (tr ++ [EvRead t x (sget (store s) x)]).
Proof.
  intros st0 s tr t x I Ht Hh.
  set (e := EvRead t x (sget (store s) x)).
  assert (Hnc : ~ In (ev_txn e) (committed tr)) by (apply (inv_nocommit _ _ _ _ I Ht)).
  assert (Hp : progs (tr ++ [e]) = progs tr) by (apply progs_snoc_other; [reflexivity|exact Hnc]).
  assert (Hc : cstore st0 (tr ++ [e]) = cstore st0 tr)
    by (apply cstore_snoc_other; [reflexivity|exact Hnc]).
  assert (Hpt : proj t (tr ++ [e]) = proj t tr ++ [e]) by (apply proj_snoc_eq; reflexivity).
  assert (Hpo : forall u, u <> t -> proj u (tr ++ [e]) = proj u tr).
  { intros u Hu. apply proj_snoc_other. cbn [ev_txn e]. congruence. }
  constructor.
  - apply (i_reach _ _ _ I).
  - intros u. rewrite finished_snoc. split.
    + intros H. left. apply (i_fin _ _ _ I). exact H.
    + intros [H|[H|H]]; [apply (i_fin _ _ _ I); exact H|discriminate|discriminate].
  - apply (i_done _ _ _ I).
  - intros e' He' Hn. apply in_app_or in He'. destruct He' as [He'|[He'|[]]].
    + apply (i_lock _ _ _ I e' He' Hn).
    + subst e'. cbn [locked_for e]. exact Hh.
  - intros u Hu y. destruct (N.eq_dec u t) as [E|E].
    + subst u. rewrite Hpt, wrote_snoc. split.
      * intros H. left. apply (i_undo _ _ _ I t Ht). exact H.
      * intros [H|(a & b & H)]; [apply (i_undo _ _ _ I t Ht); exact H|discriminate].
    + rewrite (Hpo u E). apply (i_undo _ _ _ I u Hu).
  - intros u Hu. rewrite Hc. destruct (N.eq_dec u t) as [E|E].
    + subst u. rewrite Hpt, rout_snoc, (i_view _ _ _ I t Ht). f_equal.
      unfold e. cbn [ev_see]. f_equal. f_equal.
      destruct (in_dec N.eq_dec x (keys (ulist s t))) as [Hk|Hk].
      * symmetry. apply (i_own _ _ _ I t Ht x Hk).
      * rewrite rstore_frame.
        -- symmetry. apply (i_clean _ _ _ I). intros u Hu'.
           destruct (N.eq_dec u t) as [Eu|Eu]; [subst u; contradiction|].
           apply Eu. symmetry. eapply inv_excl; eassumption.
        -- intros Hw. apply Hk. apply (i_undo _ _ _ I t Ht). exact Hw.
    + rewrite (Hpo u E). apply (i_view _ _ _ I u Hu).
  - intros u Hu y Hy. rewrite Hc. destruct (N.eq_dec u t) as [E|E].
    + subst u. rewrite Hpt, rstore_snoc. cbn [ev_apply e]. apply (i_own _ _ _ I t Ht y Hy).
    + rewrite (Hpo u E). apply (i_own _ _ _ I u Hu y Hy).
  - intros u Hu y Hy. rewrite Hc. apply (i_back _ _ _ I u Hu y Hy).
  - intros y Hy. rewrite Hc. apply (i_clean _ _ _ I y Hy).
  - rewrite Hp. apply (i_serial _ _ _ I).
Qed.

(** A write by an unfinished [t] that holds X on [x]. *)
Lemma inv_write : forall st0 s tr t x v, Inv st0 s tr -> ~ In t (fin s) ->
  holdsX (locks s) t x ->
  Inv st0 (fst (do_write s t x v)) (tr ++ [EvWrite t x v]).
Proof.
  intros st0 s tr t x v I Ht HX.
  set (e := EvWrite t x v).
  set (s' := fst (do_write s t x v)).
  assert (Hnc : ~ In (ev_txn e) (committed tr)) by (apply (inv_nocommit _ _ _ _ I Ht)).
  assert (Hp : progs (tr ++ [e]) = progs tr) by (apply progs_snoc_other; [reflexivity|exact Hnc]).
  assert (Hc : cstore st0 (tr ++ [e]) = cstore st0 tr)
    by (apply cstore_snoc_other; [reflexivity|exact Hnc]).
  assert (Hpt : proj t (tr ++ [e]) = proj t tr ++ [e]) by (apply proj_snoc_eq; reflexivity).
  assert (Hpo : forall u, u <> t -> proj u (tr ++ [e]) = proj u tr).
  { intros u Hu. apply proj_snoc_other. cbn [ev_txn e]. congruence. }
  assert (Hut : ulist s' t = (x, sget (store s) x) :: ulist s t).
  { unfold ulist, s', do_write. cbn [fst undo]. apply agetl_aset_same. }
  assert (Huo : forall u, u <> t -> ulist s' u = ulist s u).
  { intros u Hu. unfold ulist, s', do_write. cbn [fst undo].
    apply agetl_aset_other. congruence. }
  assert (Hst : store s' = aset (store s) x v) by reflexivity.
  assert (Hlk : locks s' = locks s) by reflexivity.
  assert (Hfi : fin s' = fin s) by reflexivity.
  assert (Hxo : forall u, u <> t -> ~ In x (keys (ulist s u))).
  { intros u Hu Hk. apply Hu. symmetry.
    eapply inv_excl; [exact I|exact Hk|right; exact HX]. }
  constructor; rewrite ?Hlk, ?Hfi, ?Hst.
  - apply (i_reach _ _ _ I).
  - intros u. rewrite finished_snoc. split.
    + intros H. left. apply (i_fin _ _ _ I). exact H.
    + intros [H|[H|H]]; [apply (i_fin _ _ _ I); exact H|discriminate|discriminate].
  - intros u Hu. assert (E : u <> t) by (intros E; subst u; contradiction).
    rewrite (Huo u E). apply (i_done _ _ _ I u Hu).
  - intros e' He' Hn. apply in_app_or in He'. destruct He' as [He'|[He'|[]]].
    + apply (i_lock _ _ _ I e' He' Hn).
    + subst e'. cbn [locked_for e]. exact HX.
  - intros u Hu y. destruct (N.eq_dec u t) as [E|E].
    + subst u. rewrite Hut, Hpt, wrote_snoc. cbn [keys map fst In]. split.
      * intros [H|H].
        -- right. exists t, v. subst y. reflexivity.
        -- left. apply (i_undo _ _ _ I t Ht). exact H.
      * intros [H|(a & b & H)].
        -- right. apply (i_undo _ _ _ I t Ht). exact H.
        -- left. unfold e in H. congruence.
    + rewrite (Huo u E), (Hpo u E). apply (i_undo _ _ _ I u Hu).
  - intros u Hu. rewrite Hc. destruct (N.eq_dec u t) as [E|E].
    + subst u. rewrite Hpt, rout_snoc, (i_view _ _ _ I t Ht). reflexivity.
    + rewrite (Hpo u E). apply (i_view _ _ _ I u Hu).
  - intros u Hu y Hy. rewrite Hc. destruct (N.eq_dec u t) as [E|E].
    + subst u. rewrite Hut in Hy. rewrite Hpt, rstore_snoc. unfold e. cbn [ev_apply].
      rewrite !sget_aset. destruct (N.eqb_spec x y) as [Exy|Exy]; [reflexivity|].
      apply (i_own _ _ _ I t Ht). destruct Hy as [Hy|Hy]; [contradiction|exact Hy].
    + rewrite (Huo u E) in Hy. rewrite (Hpo u E).
      rewrite sget_aset_other.
      * apply (i_own _ _ _ I u Hu y Hy).
      * intros Exy. subst y. apply (Hxo u E). exact Hy.
  - intros u Hu y Hy. rewrite Hc. destruct (N.eq_dec u t) as [E|E].
    + subst u. rewrite Hut in *. rewrite rollback_cons.
      destruct (in_dec N.eq_dec y (keys (ulist s t))) as [Hk|Hk].
      * rewrite (rollback_indep _ _ (store s) y Hk). apply (i_back _ _ _ I t Ht y Hk).
      * destruct Hy as [Hy|Hy]; [|contradiction]. cbn [fst] in Hy. subst y.
        rewrite rollback_frame by exact Hk. rewrite sget_aset_same.
        apply (i_clean _ _ _ I). intros u.
        destruct (N.eq_dec u t) as [Eu|Eu]; [subst u; exact Hk|apply Hxo; exact Eu].
    + rewrite (Huo u E) in *. rewrite (rollback_indep _ _ (store s) y Hy).
      apply (i_back _ _ _ I u Hu y Hy).
  - intros y Hy. rewrite Hc.
    assert (Exy : x <> y).
    { intros Exy. apply (Hy t). rewrite Hut. left. exact Exy. }
    rewrite sget_aset_other by exact Exy. apply (i_clean _ _ _ I). intros u.
    destruct (N.eq_dec u t) as [Eu|Eu].
    + subst u. intros Hk. apply (Hy t). rewrite Hut. right. exact Hk.
    + rewrite <- (Huo u Eu). apply Hy.
  - rewrite Hp. apply (i_serial _ _ _ I).
Qed.

(** Rows touched by another unfinished transaction were not written by [t]. *)
Lemma inv_disjoint : forall st0 s tr t u y, Inv st0 s tr -> ~ In t (fin s) ->
  ~ In u (fin s) -> u <> t ->
  In y (keys (ulist s u)) \/ readsrow (proj u tr) y -> ~ wrote (proj t tr) y.
Proof.
  intros st0 s tr t u y I Ht Hu Hne Hy Hw.
  apply (i_undo _ _ _ I t Ht) in Hw. apply Hne.
  eapply inv_excl; [exact I|exact Hw|].
  destruct Hy as [Hy|(a & b & Hy)].
  - right. apply (inv_owner _ _ _ _ _ I Hy).
  - apply proj_In in Hy. destruct Hy as [Hy Ea]. cbn [ev_txn] in Ea. subst a.
    apply (i_lock _ _ _ I _ Hy). exact Hu.
Qed.

(** Commit of an unfinished [t]. *)
Lemma inv_commit : forall st0 s tr t, Inv st0 s tr -> ~ In t (fin s) ->
  Inv st0 (fst (commit_txn s t)) (tr ++ [EvCommit t]).
Proof.
  intros st0 s tr t I Ht.
  set (e := EvCommit t).
  set (s' := fst (commit_txn s t)).
  pose proof (i_reach _ _ _ I) as R.
  assert (Hnc : ~ In t (committed tr)) by (apply (inv_nocommit _ _ _ _ I Ht)).
  assert (Hp : progs (tr ++ [e]) = progs tr ++ [proj t tr ++ [e]])
    by (apply progs_snoc_commit; exact Hnc).
  assert (Hc : cstore st0 (tr ++ [e]) = rstore (cstore st0 tr) (proj t tr)).
  { unfold cstore. rewrite Hp, sstore_snoc, rstore_snoc. reflexivity. }
  assert (Hpo : forall u, u <> t -> proj u (tr ++ [e]) = proj u tr).
  { intros u Hu. apply proj_snoc_other. cbn [ev_txn e]. congruence. }
  assert (Hut : ulist s' t = []).
  { unfold ulist, s', commit_txn. cbn [fst undo]. apply agetl_adel_same. }
  assert (Huo : forall u, u <> t -> ulist s' u = ulist s u).
  { intros u Hu. unfold ulist, s', commit_txn. cbn [fst undo].
    apply agetl_adel_other. congruence. }
  assert (Hst : store s' = store s) by reflexivity.
  assert (Hlk : locks s' = fst (lstep (locks s) (UnlockAll t))) by reflexivity.
  assert (Hfi : fin s' = t :: fin s) by reflexivity.
  assert (Hsplit : forall u, ~ In u (t :: fin s) -> u <> t /\ ~ In u (fin s)).
  { intros u Hu. split; intros H; apply Hu; [left; congruence|right; exact H]. }
  constructor; rewrite ?Hlk, ?Hfi, ?Hst.
  - apply lreach_step. exact R.
  - intros u. cbn [In]. rewrite finished_snoc. split.
    + intros [E|H]; [right; left; subst u; reflexivity|left; apply (i_fin _ _ _ I); exact H].
    + intros [H|[H|H]].
      * right. apply (i_fin _ _ _ I). exact H.
      * left. unfold e in H. congruence.
      * discriminate.
  - intros u Hu. destruct (N.eq_dec u t) as [E|E].
    + subst u. split; [exact Hut|]. intros x. apply unlock_own. exact R.
    + destruct Hu as [Hu|Hu]; [congruence|]. rewrite (Huo u E).
      destruct (i_done _ _ _ I u Hu) as [Eu Hl]. split; [exact Eu|].
      intros x Hh. apply (Hl x). apply (unlock_other_holds _ t u x R E). exact Hh.
  - intros e' He' Hn. apply Hsplit in Hn. destruct Hn as [Hne Hn].
    apply in_app_or in He'. destruct He' as [He'|[He'|[]]].
    + pose proof (i_lock _ _ _ I e' He' Hn) as H.
      destruct e' as [a b c|a b c|a|a]; cbn [locked_for ev_txn] in *; try exact Logic.I.
      * apply (unlock_other_holds _ t a b R Hne). exact H.
      * apply (unlock_other _ t a b R Hne). exact H.
    + subst e'. exfalso. apply Hne. reflexivity.
  - intros u Hu y. apply Hsplit in Hu. destruct Hu as [E Hu].
    rewrite (Huo u E), (Hpo u E). apply (i_undo _ _ _ I u Hu).
  - intros u Hu. apply Hsplit in Hu. destruct Hu as [E Hu].
    rewrite Hc, (Hpo u E). rewrite <- (i_view _ _ _ I u Hu) at 2.
    apply rout_agree. intros y Hy. apply rstore_frame.
    apply (inv_disjoint _ _ _ t u y I Ht Hu E). right. exact Hy.
  - intros u Hu y Hy. apply Hsplit in Hu. destruct Hu as [E Hu].
    rewrite (Huo u E) in Hy. rewrite Hc, (Hpo u E).
    rewrite (i_own _ _ _ I u Hu y Hy). apply rstore_indep.
    apply (i_undo _ _ _ I u Hu). exact Hy.
  - intros u Hu y Hy. apply Hsplit in Hu. destruct Hu as [E Hu].
    rewrite (Huo u E) in *. rewrite Hc, (i_back _ _ _ I u Hu y Hy).
    symmetry. apply rstore_frame.
    apply (inv_disjoint _ _ _ t u y I Ht Hu E). left. exact Hy.
  - intros y Hy. rewrite Hc.
    destruct (in_dec N.eq_dec y (keys (ulist s t))) as [Hk|Hk].
    + apply (i_own _ _ _ I t Ht y Hk).
    + rewrite rstore_frame.
      * apply (i_clean _ _ _ I). intros u.
        destruct (N.eq_dec u t) as [Eu|Eu]; [subst u; exact Hk|].
        rewrite <- (Huo u Eu). apply Hy.
      * intros Hw. apply Hk. apply (i_undo _ _ _ I t Ht). exact Hw.
  - rewrite Hp, sout_snoc, concat_app, (i_serial _ _ _ I). f_equal.
    cbn [concat]. rewrite app_nil_r. fold (cstore st0 tr).
    rewrite rout_snoc, (i_view _ _ _ I t Ht). reflexivity.
Qed.

(** Abort of an unfinished [t] (explicit, or after a denied request). *)
Lemma inv_abort : forall st0 s tr t, Inv st0 s tr -> ~ In t (fin s) ->
  Inv st0 (fst (abort_txn s t)) (tr ++ [EvAbort t]).
Proof.
  intros st0 s tr t I Ht.
  set (e := EvAbort t).
  set (s' := fst (abort_txn s t)).
  pose proof (i_reach _ _ _ I) as R.
  assert (Hnc : ~ In (ev_txn e) (committed tr)) by (apply (inv_nocommit _ _ _ _ I Ht)).
  assert (Hp : progs (tr ++ [e]) = progs tr) by (apply progs_snoc_other; [reflexivity|exact Hnc]).
  assert (Hc : cstore st0 (tr ++ [e]) = cstore st0 tr)
    by (apply cstore_snoc_other; [reflexivity|exact Hnc]).
  assert (Hpo : forall u, u <> t -> proj u (tr ++ [e]) = proj u tr).
  { intros u Hu. apply proj_snoc_other. cbn [ev_txn e]. congruence. }
  assert (Hut : ulist s' t = []).
  { unfold ulist, s', abort_txn. cbn [fst undo]. apply agetl_adel_same. }
  assert (Huo : forall u, u <> t -> ulist s' u = ulist s u).
  { intros u Hu. unfold ulist, s', abort_txn. cbn [fst undo].
    apply agetl_adel_other. congruence. }
  assert (Hst : store s' = rollback (store s) (ulist s t)) by reflexivity.
  assert (Hlk : locks s' = fst (lstep (locks s) (UnlockAll t))) by reflexivity.
  assert (Hfi : fin s' = t :: fin s) by reflexivity.
  assert (Hsplit : forall u, ~ In u (t :: fin s) -> u <> t /\ ~ In u (fin s)).
  { intros u Hu. split; intros H; apply Hu; [left; congruence|right; exact H]. }
  assert (Hdis : forall u y, u <> t -> In y (keys (ulist s u)) -> ~ In y (keys (ulist s t))).
  { intros u y Hne Hy Hk. apply Hne. eapply inv_excl; [exact I|exact Hk|].
    right. apply (inv_owner _ _ _ _ _ I Hy). }
  constructor; rewrite ?Hlk, ?Hfi, ?Hst.
  - apply lreach_step. exact R.
  - intros u. cbn [In]. rewrite finished_snoc. split.
    + intros [E|H]; [right; right; subst u; reflexivity|left; apply (i_fin _ _ _ I); exact H].
    + intros [H|[H|H]].
      * right. apply (i_fin _ _ _ I). exact H.
      * discriminate.
      * left. unfold e in H. congruence.
  - intros u Hu. destruct (N.eq_dec u t) as [E|E].
    + subst u. split; [exact Hut|]. intros x. apply unlock_own. exact R.
    + destruct Hu as [Hu|Hu]; [congruence|]. rewrite (Huo u E).
      destruct (i_done _ _ _ I u Hu) as [Eu Hl]. split; [exact Eu|].
      intros x Hh. apply (Hl x). apply (unlock_other_holds _ t u x R E). exact Hh.
  - intros e' He' Hn. apply Hsplit in Hn. destruct Hn as [Hne Hn].
    apply in_app_or in He'. destruct He' as [He'|[He'|[]]].
    + pose proof (i_lock _ _ _ I e' He' Hn) as H.
      destruct e' as [a b c|a b c|a|a]; cbn [locked_for ev_txn] in *; try exact Logic.I.
      * apply (unlock_other_holds _ t a b R Hne). exact H.
      * apply (unlock_other _ t a b R Hne). exact H.
    + subst e'. exfalso. apply Hne. reflexivity.
  - intros u Hu y. apply Hsplit in Hu. destruct Hu as [E Hu].
    rewrite (Huo u E), (Hpo u E). apply (i_undo _ _ _ I u Hu).
  - intros u Hu. apply Hsplit in Hu. destruct Hu as [E Hu].
    rewrite Hc, (Hpo u E). apply (i_view _ _ _ I u Hu).
  - intros u Hu y Hy. apply Hsplit in Hu. destruct Hu as [E Hu].
    rewrite (Huo u E) in Hy. rewrite Hc, (Hpo u E).
    rewrite rollback_frame by (apply (Hdis u y E Hy)).
    apply (i_own _ _ _ I u Hu y Hy).
  - intros u Hu y Hy. apply Hsplit in Hu. destruct Hu as [E Hu].
    rewrite (Huo u E) in *. rewrite Hc.
    rewrite (rollback_indep _ _ (store s) y Hy). apply (i_back _ _ _ I u Hu y Hy).
  - intros y Hy. rewrite Hc.
    destruct (in_dec N.eq_dec y (keys (ulist s t))) as [Hk|Hk].
    + apply (i_back _ _ _ I t Ht y Hk).
    + rewrite rollback_frame by exact Hk.
      apply (i_clean _ _ _ I). intros u.
      destruct (N.eq_dec u t) as [Eu|Eu]; [subst u; exact Hk|].
      rewrite <- (Huo u Eu). apply Hy.
  - rewrite Hp. apply (i_serial _ _ _ I).
Qed.

(* ------------------------------------------------------------------ *)
(** * The invariant holds along every run *)

Lemma inv_step : forall st0 s tr o, Inv st0 s tr ->
  Inv st0 (fst (sstep s o)) (tr ++ snd (sstep s o)).
Proof.
  intros st0 s tr o I.
  destruct (sstep_cases s o (i_reach _ _ _ I)) as [[_ E]|[Hn [H|[H|[H|H]]]]].
  - rewrite E. cbn [fst snd]. rewrite app_nil_r. exact I.
  - destruct H as (x & l' & _ & M & Hh & E). rewrite E. cbn [do_read fst snd].
    apply (inv_read st0 (with_locks s l')); [|exact Hn|exact Hh].
    eapply inv_lmove; [exact I|exact Hn|exact M].
  - destruct H as (x & v & l' & _ & M & Hh & E). rewrite E.
    apply (inv_write st0 (with_locks s l')); [|exact Hn|exact Hh].
    eapply inv_lmove; [exact I|exact Hn|exact M].
  - destruct H as [_ E]. rewrite E. apply inv_commit; assumption.
  - rewrite H. apply inv_abort; assumption.
Qed.

Lemma srun_from_snoc : forall s ops o,
  srun_from s (ops ++ [o]) =
  (fst (sstep (fst (srun_from s ops)) o),
   snd (srun_from s ops) ++ snd (sstep (fst (srun_from s ops)) o)).
Proof. intros s ops o. unfold srun_from. rewrite fold_left_app. reflexivity. Qed.

Lemma inv_run : forall st0 ops,
  Inv st0 (fst (srun st0 ops)) (snd (srun st0 ops)).
Proof.
  intros st0 ops. unfold srun. induction ops as [|o ops IH] using rev_ind.
  - apply Inv_init.
  - rewrite srun_from_snoc. cbn [fst snd]. apply inv_step. exact IH.
Qed.

(* ------------------------------------------------------------------ *)
(** * Trace positions *)

Definition trace (st0 : list (N * N)) (ops : list sop) : list event := snd (srun st0 ops).
Definition final (st0 : list (N * N)) (ops : list sop) : sstate := fst (srun st0 ops).

Lemma inv_at : forall st0 ops, Inv st0 (final st0 ops) (trace st0 ops).
Proof. intros st0 ops. apply inv_run. Qed.

Lemma trace_snoc : forall st0 ops o,
  trace st0 (ops ++ [o]) = trace st0 ops ++ snd (sstep (final st0 ops) o).
Proof. intros st0 ops o. unfold trace, final, srun. rewrite srun_from_snoc. reflexivity. Qed.

Lemma final_snoc : forall st0 ops o,
  final st0 (ops ++ [o]) = fst (sstep (final st0 ops) o).
Proof. intros st0 ops o. unfold trace, final, srun. rewrite srun_from_snoc. reflexivity. Qed.

Lemma trace_prefix : forall st0 ops1 ops2,
  exists tl, trace st0 (ops1 ++ ops2) = trace st0 ops1 ++ tl.
Proof.
  intros st0 ops1 ops2. induction ops2 as [|o ops2 IH] using rev_ind.
  - exists []. rewrite !app_nil_r. reflexivity.
  - destruct IH as [tl IH]. rewrite app_assoc, trace_snoc, IH.
    eexists. rewrite <- app_assoc. reflexivity.
Qed.

(** Every step emits at most one event, and only for an unfinished
    transaction — the one that issued the operation. *)
Lemma sstep_event : forall s o, lreach (locks s) ->
  snd (sstep s o) = [] \/
  exists e, snd (sstep s o) = [e] /\ ev_txn e = op_txn o /\ ~ In (op_txn o) (fin s).
Proof.
  intros s o R.
  destruct (sstep_cases s o R) as [[_ E]|[Hn [H|[H|[H|H]]]]].
  - left. rewrite E. reflexivity.
  - destruct H as (x & l' & _ & _ & _ & E). right. rewrite E.
    eexists. split; [reflexivity|]. split; [reflexivity|exact Hn].
  - destruct H as (x & v & l' & _ & _ & _ & E). right. rewrite E.
    eexists. split; [reflexivity|]. split; [reflexivity|exact Hn].
  - destruct H as [_ E]. right. rewrite E.
    eexists. split; [reflexivity|]. split; [reflexivity|exact Hn].
  - right. rewrite H. eexists. split; [reflexivity|]. split; [reflexivity|exact Hn].
Qed.

Lemma firstn_snoc_nth : forall (A : Type) (l : list A) j e,
  nth_error l j = Some e -> firstn (S j) l = firstn j l ++ [e].
Proof.
  intros A l. induction l as [|a l IH]; intros j e H.
  - destruct j; discriminate.
  - destruct j as [|j]; cbn in H.
    + injection H as H. subst a. reflexivity.
    + cbn [firstn app]. f_equal. change (firstn (S j) l = firstn j l ++ [e]).
      apply IH. exact H.
Qed.

Lemma In_firstn_nth : forall (A : Type) (l : list A) j e,
  In e (firstn j l) -> exists k, (k < j)%nat /\ nth_error l k = Some e.
Proof.
  intros A l. induction l as [|a l IH]; intros j e H.
  - rewrite firstn_nil in H. contradiction.
  - destruct j as [|j]; [contradiction|]. cbn [firstn] in H. destruct H as [H|H].
    + exists 0%nat. split; [lia|]. subst a. reflexivity.
    + destruct (IH j e H) as (k & Hk & Hn). exists (S k). split; [lia|exact Hn].
Qed.

Lemma nth_In_firstn : forall (A : Type) (l : list A) i j e,
  nth_error l i = Some e -> (i < j)%nat -> In e (firstn j l).
Proof.
  intros A l. induction l as [|a l IH]; intros i j e H Hlt.
  - destruct i; discriminate.
  - destruct j as [|j]; [lia|]. cbn [firstn]. destruct i as [|i]; cbn in H.
    + left. congruence.
    + right. apply (IH i j e H). lia.
Qed.

(** The step that emitted the event at position [j]. *)
Lemma run_split : forall st0 ops j e, nth_error (trace st0 ops) j = Some e ->
  exists ops1 o ops2, ops = ops1 ++ o :: ops2 /\
    trace st0 ops1 = firstn j (trace st0 ops) /\
    snd (sstep (final st0 ops1) o) = [e].
Proof.
  intros st0 ops. induction ops as [|o ops IH] using rev_ind; intros j e H.
  - destruct j; discriminate.
  - rewrite trace_snoc in *.
    set (tr := trace st0 ops) in *. set (ev := snd (sstep (final st0 ops) o)) in *.
    destruct (Nat.lt_ge_cases j (length tr)) as [Hlt|Hge].
    + rewrite nth_error_app1 in H by exact Hlt.
      destruct (IH j e H) as (ops1 & o1 & ops2 & E & Ht & Hs).
      exists ops1, o1, (ops2 ++ [o]). split; [|split].
      * rewrite E. rewrite <- app_assoc. reflexivity.
      * rewrite Ht. fold tr. rewrite firstn_app.
        replace (j - length tr)%nat with 0%nat by lia. rewrite firstn_O, app_nil_r.
        reflexivity.
      * exact Hs.
    + rewrite nth_error_app2 in H by exact Hge.
      destruct (sstep_event (final st0 ops) o (i_reach _ _ _ (inv_at st0 ops)))
        as [E|(e' & E & _)]; fold ev in E; rewrite E in H.
      * destruct (j - length tr)%nat; discriminate.
      * destruct (j - length tr)%nat as [|n] eqn:En; cbn in H.
        -- injection H as H. subst e'. exists ops, o, []. split; [reflexivity|].
           split; [|exact E].
           assert (Ej : j = length tr) by lia. subst j.
           rewrite firstn_app, Nat.sub_diag, firstn_O, app_nil_r, firstn_all. reflexivity.
        -- destruct n; discriminate.
Qed.

(** The state right after the event at position [j]. *)
Lemma run_at : forall st0 ops j e, nth_error (trace st0 ops) j = Some e ->
  exists ops1 o ops2, ops = ops1 ++ o :: ops2 /\
    trace st0 ops1 = firstn j (trace st0 ops) /\
    trace st0 (ops1 ++ [o]) = firstn j (trace st0 ops) ++ [e] /\
    op_txn o = ev_txn e /\ ~ In (ev_txn e) (fin (final st0 ops1)).
Proof.
  intros st0 ops j e H. destruct (run_split st0 ops j e H) as (ops1 & o & ops2 & E & Ht & Hs).
  exists ops1, o, ops2. split; [exact E|]. split; [exact Ht|].
  split; [rewrite trace_snoc, Ht, Hs; reflexivity|].
  destruct (sstep_event (final st0 ops1) o (i_reach _ _ _ (inv_at st0 ops1)))
    as [E'|(e' & E' & Ht' & Hn)]; rewrite E' in Hs; [discriminate|].
  injection Hs as Hs. subst e'. rewrite Ht'. split; [reflexivity|exact Hn].
Qed.

Definition is_finish (e : event) (t : N) : Prop := e = EvCommit t \/ e = EvAbort t.

(** A finished transaction emits nothing more. *)
Lemma no_event_after_finish : forall st0 ops k j f e,
  nth_error (trace st0 ops) k = Some f -> is_finish f (ev_txn e) ->
  nth_error (trace st0 ops) j = Some e -> (j <= k)%nat.
Proof.
  intros st0 ops k j f e Hk Hf Hj.
  destruct (Nat.le_gt_cases j k) as [Hle|Hgt]; [exact Hle|]. exfalso.
  destruct (run_at st0 ops j e Hj) as (ops1 & o & ops2 & _ & Ht & _ & _ & Hn).
  apply Hn. apply (i_fin _ _ _ (inv_at st0 ops1)). fold (trace st0 ops1). rewrite Ht.
  pose proof (nth_In_firstn _ _ _ _ _ Hk Hgt) as HI.
  destruct Hf as [Hf|Hf]; subst f; [left|right]; exact HI.
Qed.

Lemma finish_unique : forall st0 ops k k' f f' t,
  nth_error (trace st0 ops) k = Some f -> is_finish f t ->
  nth_error (trace st0 ops) k' = Some f' -> is_finish f' t -> k = k'.
Proof.
  intros st0 ops k k' f f' t Hk Hf Hk' Hf'.
  assert (Et : ev_txn f = t) by (destruct Hf as [Hf|Hf]; subst f; reflexivity).
  assert (Et' : ev_txn f' = t) by (destruct Hf' as [Hf'|Hf']; subst f'; reflexivity).
  assert (H1 : (k' <= k)%nat).
  { eapply no_event_after_finish; [exact Hk| |exact Hk']. rewrite Et'. exact Hf. }
  assert (H2 : (k <= k')%nat).
  { eapply no_event_after_finish; [exact Hk'| |exact Hk]. rewrite Et. exact Hf'. }
  lia.
Qed.

(* ------------------------------------------------------------------ *)
(** * (a) Accesses happen under lock; locks are held to the end *)

Lemma access_under_lock_state : forall st0 ops1 ops2 e, In e (trace st0 ops1) ->
  (exists tl, trace st0 (ops1 ++ ops2) = trace st0 ops1 ++ tl) /\
  (~ finished (trace st0 ops1) (ev_txn e) -> locked_for (locks (final st0 ops1)) e) /\
  (finished (trace st0 ops1) (ev_txn e) ->
     forall x, ~ holds (locks (final st0 ops1)) (ev_txn e) x).
Proof.
  intros st0 ops1 ops2 e He. pose proof (inv_at st0 ops1) as I.
  split; [apply trace_prefix|]. split.
  - intros Hn. apply (i_lock _ _ _ I e He). intros Hf. apply Hn.
    apply (i_fin _ _ _ I). exact Hf.
  - intros Hf. apply (i_done _ _ _ I). apply (i_fin _ _ _ I). exact Hf.
Qed.

Lemma access_under_lock_lemma : forall st0 ops i k e,
  nth_error (trace st0 ops) i = Some e -> (i < k <= length (trace st0 ops))%nat ->
  (forall m f, (m < k)%nat -> nth_error (trace st0 ops) m = Some f ->
               ~ is_finish f (ev_txn e)) ->
  (exists opsA opsB, ops = opsA ++ opsB /\ trace st0 opsA = firstn k (trace st0 ops)) /\
  (forall opsA opsB, ops = opsA ++ opsB -> trace st0 opsA = firstn k (trace st0 ops) ->
     locked_for (locks (final st0 opsA)) e).
Proof.
  intros st0 ops i k e Hi Hk Hnf. split.
  - destruct k as [|k]; [lia|].
    destruct (nth_error (trace st0 ops) k) as [e'|] eqn:Hk'.
    + destruct (run_at st0 ops k e' Hk') as (ops1 & o & ops2 & E & _ & Ht & _).
      exists (ops1 ++ [o]), ops2. split.
      * rewrite E, <- app_assoc. reflexivity.
      * rewrite Ht. symmetry. apply firstn_snoc_nth. exact Hk'.
    + apply nth_error_None in Hk'. lia.
  - intros opsA opsB E Ht.
    assert (He : In e (trace st0 opsA)).
    { rewrite Ht. eapply nth_In_firstn; [exact Hi|lia]. }
    apply (access_under_lock_state st0 opsA opsB e He).
    rewrite Ht. intros [Hf|Hf]; apply In_firstn_nth in Hf;
      destruct Hf as (m & Hm & Hf); apply (Hnf m _ Hm Hf); [left|right]; reflexivity.
Qed.

(* ------------------------------------------------------------------ *)
(** * (b) Conflicting accesses are separated by the first one's end *)

Definition ev_row (e : event) : option N :=
  match e with EvRead _ x _ | EvWrite _ x _ => Some x | _ => None end.

Definition is_write (e : event) : bool :=
  match e with EvWrite _ _ _ => true | _ => false end.

Definition conflict (e1 e2 : event) : Prop :=
  exists x, ev_row e1 = Some x /\ ev_row e2 = Some x /\
            (is_write e1 = true \/ is_write e2 = true).

Lemma row_not_finish : forall e x t, ev_row e = Some x -> ~ is_finish e t.
Proof. intros e x t H [E|E]; subst e; discriminate. Qed.

Lemma locked_conflict : forall l e1 e2, lreach l -> conflict e1 e2 ->
  locked_for l e1 -> locked_for l e2 -> ev_txn e1 = ev_txn e2.
Proof.
  intros l e1 e2 R (x & H1 & H2 & Hw) L1 L2.
  destruct e1 as [t1 x1 v1|t1 x1 v1|t1|t1]; try discriminate;
  destruct e2 as [t2 x2 v2|t2 x2 v2|t2|t2]; try discriminate;
  cbn in H1, H2, Hw, L1, L2 |- *;
  injection H1 as H1; injection H2 as H2; subst x1 x2.
  - destruct Hw as [Hw|Hw]; discriminate.
  - eapply lock_excl; [exact R|exact L2|exact L1].
  - symmetry. eapply lock_excl; [exact R|exact L1|exact L2].
  - eapply lock_excl; [exact R|exact L2|right; exact L1].
Qed.

(** The schedule point right after a read/write event. *)
Lemma state_after : forall st0 ops j e x,
  nth_error (trace st0 ops) j = Some e -> ev_row e = Some x ->
  exists opsA opsB, ops = opsA ++ opsB /\
    trace st0 opsA = firstn j (trace st0 ops) ++ [e] /\
    ~ In (ev_txn e) (fin (final st0 opsA)).
Proof.
  intros st0 ops j e x Hj Hr.
  destruct (run_at st0 ops j e Hj) as (ops1 & o & ops2 & E & Ht1 & Ht & _ & Hn).
  exists (ops1 ++ [o]), ops2. split; [rewrite E, <- app_assoc; reflexivity|].
  split; [exact Ht|]. intros Hf.
  apply (i_fin _ _ _ (inv_at st0 (ops1 ++ [o]))) in Hf. fold (trace st0 (ops1 ++ [o])) in Hf.
  rewrite Ht in Hf. apply finished_snoc in Hf. destruct Hf as [Hf|Hf].
  - apply Hn. apply (i_fin _ _ _ (inv_at st0 ops1)). fold (trace st0 ops1).
    rewrite Ht1. exact Hf.
  - apply (row_not_finish e x (ev_txn e) Hr). exact Hf.
Qed.

Lemma conflicts_lemma : forall st0 ops i j e1 e2,
  nth_error (trace st0 ops) i = Some e1 -> nth_error (trace st0 ops) j = Some e2 ->
  (i < j)%nat -> ev_txn e1 <> ev_txn e2 -> conflict e1 e2 ->
  exists k f, (i < k < j)%nat /\ nth_error (trace st0 ops) k = Some f /\
              is_finish f (ev_txn e1).
Proof.
  intros st0 ops i j e1 e2 Hi Hj Hlt Hne Hc.
  pose proof Hc as (x & Hr1 & Hr2 & _).
  destruct (state_after st0 ops j e2 x Hj Hr2) as (opsA & opsB & _ & Ht & Hn2).
  pose proof (inv_at st0 opsA) as I. rewrite Ht in I.
  assert (He1 : In e1 (firstn j (trace st0 ops) ++ [e2])).
  { apply in_or_app. left. eapply nth_In_firstn; eassumption. }
  assert (He2 : In e2 (firstn j (trace st0 ops) ++ [e2])).
  { apply in_or_app. right. left. reflexivity. }
  destruct (in_dec N.eq_dec (ev_txn e1) (fin (final st0 opsA))) as [Hf|Hf].
  - apply (i_fin _ _ _ I) in Hf. apply finished_snoc in Hf.
    destruct Hf as [Hf|Hf].
    + assert (Hk : exists k f, (k < j)%nat /\ nth_error (trace st0 ops) k = Some f /\
                               is_finish f (ev_txn e1)).
      { destruct Hf as [Hf|Hf]; apply In_firstn_nth in Hf; destruct Hf as (k & Hk & Hf);
          exists k; eexists; (split; [exact Hk|]); (split; [exact Hf|]); [left|right]; reflexivity. }
      destruct Hk as (k & f & Hk & Hf' & Hfin). exists k, f.
      split; [|split; [exact Hf'|exact Hfin]].
      assert (Hle : (i <= k)%nat) by (eapply no_event_after_finish; eassumption).
      assert (Hik : i <> k).
      { intros E. subst k. rewrite Hi in Hf'. injection Hf' as Hf'. subst f.
        apply (row_not_finish e1 x _ Hr1 Hfin). }
      lia.
    + exfalso. apply (row_not_finish e2 x (ev_txn e1) Hr2). exact Hf.
  - exfalso. apply Hne.
    apply (locked_conflict (locks (final st0 opsA)) e1 e2 (i_reach _ _ _ I) Hc).
    + apply (i_lock _ _ _ I e1 He1 Hf).
    + apply (i_lock _ _ _ I e2 He2 Hn2).
Qed.

(** Hence committed conflicting transactions commit in the order of their
    conflicting accesses. *)
Lemma commit_order_lemma : forall st0 ops i j c1 c2 e1 e2,
  nth_error (trace st0 ops) i = Some e1 -> nth_error (trace st0 ops) j = Some e2 ->
  (i < j)%nat -> ev_txn e1 <> ev_txn e2 -> conflict e1 e2 ->
  nth_error (trace st0 ops) c1 = Some (EvCommit (ev_txn e1)) ->
  nth_error (trace st0 ops) c2 = Some (EvCommit (ev_txn e2)) ->
  (i < c1 < j)%nat /\ (j < c2)%nat.
Proof.
  intros st0 ops i j c1 c2 e1 e2 Hi Hj Hlt Hne Hc Hc1 Hc2.
  destruct (conflicts_lemma st0 ops i j e1 e2 Hi Hj Hlt Hne Hc) as (k & f & Hk & Hf & Hfin).
  assert (E : k = c1).
  { eapply finish_unique; [exact Hf|exact Hfin|exact Hc1|left; reflexivity]. }
  subst k. split; [exact Hk|].
  assert (Hle : (j <= c2)%nat).
  { eapply no_event_after_finish; [exact Hc2|left; reflexivity|exact Hj]. }
  assert (Hjc : j <> c2).
  { intros E. subst c2. rewrite Hj in Hc2. injection Hc2 as Hc2.
    destruct Hc as (x & _ & Hr & _). rewrite Hc2 in Hr. discriminate. }
  lia.
Qed.

(* ------------------------------------------------------------------ *)
(** * (c) The execution is the serial one, in commit order *)

Lemma serial_lemma : forall st0 ops,
  sout st0 (progs (trace st0 ops)) = concat (progs (trace st0 ops)) /\
  (forall t x v, In (EvRead t x v) (trace st0 ops) -> In t (committed (trace st0 ops)) ->
     In (EvRead t x v) (sout st0 (progs (trace st0 ops)))) /\
  (forall x, (forall t v, In (EvWrite t x v) (trace st0 ops) -> finished (trace st0 ops) t) ->
     sget (store (final st0 ops)) x = sget (sstore st0 (progs (trace st0 ops))) x).
Proof.
  intros st0 ops. pose proof (inv_at st0 ops) as I. split; [|split].
  - apply (i_serial _ _ _ I).
  - intros t x v He Hc. rewrite (i_serial _ _ _ I). apply in_concat.
    exists (proj t (trace st0 ops)). split.
    + unfold progs. apply (in_map (fun u => proj u (trace st0 ops))). exact Hc.
    + apply proj_In. split; [exact He|reflexivity].
  - intros x Hx. apply (i_clean _ _ _ I). intros t Hk.
    destruct (inv_owner _ _ _ _ _ I Hk) as [Hn _]. apply Hn.
    apply (i_undo _ _ _ I t Hn) in Hk. destruct Hk as (t' & v & Hk).
    apply proj_In in Hk. destruct Hk as [Hk Et]. cbn [ev_txn] in Et. subst t'.
    apply (i_fin _ _ _ I). apply (Hx t v Hk).
Qed.

(** At every point, an unfinished transaction has seen exactly what it would
    see running alone on the serial store of the transactions committed so far. *)
Lemma own_view_lemma : forall st0 ops t, ~ finished (trace st0 ops) t ->
  rout (sstore st0 (progs (trace st0 ops))) (proj t (trace st0 ops)) =
  proj t (trace st0 ops).
Proof.
  intros st0 ops t Hn. pose proof (inv_at st0 ops) as I.
  apply (i_view _ _ _ I). intros Hf. apply Hn. apply (i_fin _ _ _ I). exact Hf.
Qed.

(* ------------------------------------------------------------------ *)
(** * (d) Corollaries *)

Lemma rstore_app : forall st a b, rstore st (a ++ b) = rstore (rstore st a) b.
Proof. intros st a b. unfold rstore. apply fold_left_app. Qed.

Lemma rout_read_value : forall a st t x v b,
  rout st (a ++ EvRead t x v :: b) = a ++ EvRead t x v :: b ->
  v = sget (rstore st a) x.
Proof.
  induction a as [|e a IH]; intros st t x v b H.
  - cbn in H. injection H as H _. symmetry. exact H.
  - cbn [app rout] in H. injection H as _ H. apply IH in H. exact H.
Qed.

Lemma nth_firstn : forall (A : Type) (l : list A) i j e,
  nth_error (firstn j l) i = Some e -> nth_error l i = Some e /\ (i < j)%nat.
Proof.
  intros A l. induction l as [|a l IH]; intros i j e H.
  - rewrite firstn_nil in H. destruct i; discriminate.
  - destruct j as [|j]; [destruct i; discriminate|]. cbn [firstn] in H.
    destruct i as [|i]; cbn in H |- *.
    + split; [exact H|lia].
    + destruct (IH i j e H) as [H1 H2]. split; [exact H1|lia].
Qed.

Lemma firstn_nth : forall (A : Type) (l : list A) i j e,
  nth_error l i = Some e -> (i < j)%nat -> nth_error (firstn j l) i = Some e.
Proof.
  intros A l. induction l as [|a l IH]; intros i j e H Hlt.
  - destruct i; discriminate.
  - destruct j as [|j]; [lia|]. cbn [firstn]. destruct i as [|i]; cbn in H |- *.
    + exact H.
    + apply IH; [exact H|lia].
Qed.

Lemma proj_cons_same : forall e l, proj (ev_txn e) (e :: l) = e :: proj (ev_txn e) l.
Proof. intros e l. unfold proj. cbn [filter]. rewrite N.eqb_refl. reflexivity. Qed.

Lemma repeatable_read_lemma : forall st0 ops i j t x v1 v2,
  nth_error (trace st0 ops) i = Some (EvRead t x v1) ->
  nth_error (trace st0 ops) j = Some (EvRead t x v2) -> (i < j)%nat ->
  (forall k w, (i < k < j)%nat -> nth_error (trace st0 ops) k <> Some (EvWrite t x w)) ->
  v1 = v2.
Proof.
  intros st0 ops i j t x v1 v2 Hi Hj Hlt Hnw.
  set (e1 := EvRead t x v1). set (e2 := EvRead t x v2).
  destruct (state_after st0 ops j e2 x Hj eq_refl) as (opsA & opsB & _ & Ht & Hn).
  pose proof (inv_at st0 opsA) as I. rewrite Ht in I.
  pose proof (i_view _ _ _ I t Hn) as Hv.
  set (p := firstn j (trace st0 ops)) in *.
  assert (Hp : nth_error p i = Some e1) by (apply firstn_nth; assumption).
  destruct (nth_error_split p i Hp) as (l1 & l2 & Ep & Hl1).
  set (cs := cstore st0 (p ++ [e2])) in *.
  assert (Eq : proj t (p ++ [e2]) = proj t l1 ++ e1 :: (proj t l2 ++ [e2])).
  { assert (Hcs : proj t (e1 :: l2) = e1 :: proj t l2) by (apply (proj_cons_same e1 l2)).
    rewrite (proj_snoc_eq t p e2 eq_refl), Ep, proj_app, Hcs.
    rewrite <- app_assoc. reflexivity. }
  rewrite Eq in Hv.
  assert (E1 : v1 = sget (rstore cs (proj t l1)) x).
  { eapply rout_read_value. exact Hv. }
  assert (E2 : v2 = sget (rstore cs (proj t l1 ++ e1 :: proj t l2)) x).
  { eapply (rout_read_value _ cs t x v2 []).
    change (e1 :: proj t l2 ++ [e2]) with ((e1 :: proj t l2) ++ [e2]) in Hv.
    rewrite app_assoc in Hv. exact Hv. }
  rewrite E1, E2.
  change (e1 :: proj t l2) with ([e1] ++ proj t l2).
  rewrite !rstore_app. cbn [rstore fold_left ev_apply e1].
  symmetry. apply rstore_frame. intros (t' & w & Hw).
  apply proj_In in Hw. destruct Hw as [Hw Et]. cbn [ev_txn] in Et. subst t'.
  apply In_nth_error in Hw. destruct Hw as (n & Hw).
  assert (Hpos : nth_error p (i + S n) = Some (EvWrite t x w)).
  { rewrite Ep, nth_error_app2 by lia.
    replace (i + S n - length l1)%nat with (S n) by lia. exact Hw. }
  apply nth_firstn in Hpos. destruct Hpos as [Hpos Hb].
  apply (Hnw (i + S n)%nat w); [lia|exact Hpos].
Qed.

Lemma no_dirty_read_lemma : forall st0 ops j t x v,
  nth_error (trace st0 ops) j = Some (EvRead t x v) ->
  v = sget st0 x \/
  (exists i, (i < j)%nat /\ nth_error (trace st0 ops) i = Some (EvWrite t x v)) \/
  (exists t' i c, (i < c < j)%nat /\
     nth_error (trace st0 ops) i = Some (EvWrite t' x v) /\
     nth_error (trace st0 ops) c = Some (EvCommit t')).
Proof.
  intros st0 ops j t x v Hj.
  set (e := EvRead t x v).
  destruct (state_after st0 ops j e x Hj eq_refl) as (opsA & opsB & _ & Ht & Hn).
  pose proof (inv_at st0 opsA) as I. rewrite Ht in I.
  pose proof (i_view _ _ _ I t Hn) as Hv.
  set (p := firstn j (trace st0 ops)) in *.
  assert (Hnc : ~ In (ev_txn e) (committed p)).
  { intros Hc. apply committed_In in Hc. apply Hn. apply (i_fin _ _ _ I).
    left. apply in_or_app. left. exact Hc. }
  rewrite (cstore_snoc_other st0 p e eq_refl Hnc) in Hv.
  rewrite (proj_snoc_eq t p e eq_refl) in Hv.
  assert (E : v = sget (rstore (cstore st0 p) (proj t p)) x).
  { eapply (rout_read_value _ _ t x v []). exact Hv. }
  destruct (rstore_origin (proj t p) (cstore st0 p) x) as [H|(t' & H)].
  - rewrite H in E. unfold cstore in E.
    destruct (sstore_origin (progs p) st0 x) as [H'|(q & t' & Hq & Hw)].
    + left. rewrite E. exact H'.
    + right. right. rewrite <- E in Hw. unfold progs in Hq. apply in_map_iff in Hq.
      destruct Hq as (u & Eq & Hu). subst q. apply proj_In in Hw.
      destruct Hw as [Hw Et]. cbn [ev_txn] in Et. subst t'.
      apply committed_In in Hu.
      apply In_firstn_nth in Hw. destruct Hw as (i & Hi & Hw).
      apply In_firstn_nth in Hu. destruct Hu as (c & Hc & Hu).
      exists u, i, c. split; [|split; [exact Hw|exact Hu]].
      assert (Hle : (i <= c)%nat).
      { apply (no_event_after_finish st0 ops c i (EvCommit u) (EvWrite u x v) Hu);
          [left; reflexivity|exact Hw]. }
      assert (Hic : i <> c).
      { intros Eic. subst c. rewrite Hw in Hu. discriminate. }
      lia.
  - right. left. rewrite <- E in H. apply proj_In in H. destruct H as [H Et].
    cbn [ev_txn] in Et. subst t'. apply In_firstn_nth in H.
    destruct H as (i & Hi & H). exists i. split; [exact Hi|exact H].
Qed.

Lemma conflict_sym : forall e1 e2, conflict e1 e2 -> conflict e2 e1.
Proof.
  intros e1 e2 (x & H1 & H2 & Hw). exists x. split; [exact H2|]. split; [exact H1|].
  destruct Hw as [Hw|Hw]; [right|left]; exact Hw.
Qed.

(** Two committed transactions with a pair of crossing conflicts
    ([a1] against [b2], and [a2] against [b1]) are serialized: the access [a]
    of one of them comes after the commit of the other. *)
Lemma crossing_conflicts : forall st0 ops a1 b1 a2 b2 p1 q1 p2 q2 c1 c2,
  ev_txn a1 <> ev_txn a2 -> ev_txn b1 = ev_txn a1 -> ev_txn b2 = ev_txn a2 ->
  nth_error (trace st0 ops) p1 = Some a1 -> nth_error (trace st0 ops) q1 = Some b1 ->
  nth_error (trace st0 ops) p2 = Some a2 -> nth_error (trace st0 ops) q2 = Some b2 ->
  conflict a1 b2 -> conflict a2 b1 ->
  nth_error (trace st0 ops) c1 = Some (EvCommit (ev_txn a1)) ->
  nth_error (trace st0 ops) c2 = Some (EvCommit (ev_txn a2)) ->
  (c2 < p1)%nat \/ (c1 < p2)%nat.
Proof.
  intros st0 ops a1 b1 a2 b2 p1 q1 p2 q2 c1 c2 Hne Eb1 Eb2 Hp1 Hq1 Hp2 Hq2 K12 K21 Hc1 Hc2.
  assert (Hne' : ev_txn a2 <> ev_txn a1) by congruence.
  assert (D1 : p1 <> q2).
  { intros E. subst q2. rewrite Hp1 in Hq2. injection Hq2 as Hq2. subst b2. congruence. }
  assert (D2 : p2 <> q1).
  { intros E. subst q1. rewrite Hp2 in Hq1. injection Hq1 as Hq1. subst b1. congruence. }
  destruct (Nat.lt_ge_cases p1 q2) as [L1|L1].
  - assert (O1 : (p1 < c1 < q2)%nat /\ (q2 < c2)%nat).
    { apply (commit_order_lemma st0 ops p1 q2 c1 c2 a1 b2); try assumption.
      - rewrite Eb2. exact Hne.
      - rewrite Eb2. exact Hc2. }
    destruct (Nat.lt_ge_cases p2 q1) as [L2|L2].
    + assert (O2 : (p2 < c2 < q1)%nat /\ (q1 < c1)%nat).
      { apply (commit_order_lemma st0 ops p2 q1 c2 c1 a2 b1); try assumption.
        - rewrite Eb1. exact Hne'.
        - rewrite Eb1. exact Hc1. }
      lia.
    + assert (O2 : (q1 < c1 < p2)%nat /\ (p2 < c2)%nat).
      { apply (commit_order_lemma st0 ops q1 p2 c1 c2 b1 a2); try assumption.
        - lia.
        - rewrite Eb1. exact Hne.
        - apply conflict_sym. exact K21.
        - rewrite Eb1. exact Hc1. }
      right. lia.
  - assert (O1 : (q2 < c2 < p1)%nat /\ (p1 < c1)%nat).
    { apply (commit_order_lemma st0 ops q2 p1 c2 c1 b2 a1); try assumption.
      - lia.
      - rewrite Eb2. exact Hne'.
      - apply conflict_sym. exact K12.
      - rewrite Eb2. exact Hc2. }
    left. lia.
Qed.

Lemma conflict_rw : forall t1 t2 x v w, conflict (EvRead t1 x v) (EvWrite t2 x w).
Proof.
  intros t1 t2 x v w. exists x. split; [reflexivity|]. split; [reflexivity|].
  right. reflexivity.
Qed.

(** No lost update: two committed read-modify-writes of the same row never
    both read the old version — the read of one of them comes after the
    commit of the other. *)
Lemma no_lost_update_lemma : forall st0 ops t1 t2 x a1 b1 a2 b2 r1 w1 r2 w2 c1 c2,
  t1 <> t2 ->
  nth_error (trace st0 ops) r1 = Some (EvRead t1 x a1) ->
  nth_error (trace st0 ops) w1 = Some (EvWrite t1 x b1) ->
  nth_error (trace st0 ops) r2 = Some (EvRead t2 x a2) ->
  nth_error (trace st0 ops) w2 = Some (EvWrite t2 x b2) ->
  nth_error (trace st0 ops) c1 = Some (EvCommit t1) ->
  nth_error (trace st0 ops) c2 = Some (EvCommit t2) ->
  (c2 < r1)%nat \/ (c1 < r2)%nat.
Proof.
  intros st0 ops t1 t2 x a1 b1 a2 b2 r1 w1 r2 w2 c1 c2 Hne H1 H2 H3 H4 H5 H6.
  apply (crossing_conflicts st0 ops (EvRead t1 x a1) (EvWrite t1 x b1)
           (EvRead t2 x a2) (EvWrite t2 x b2) r1 w1 r2 w2 c1 c2);
    try assumption; try reflexivity; apply conflict_rw.
Qed.

(** No write skew on rows that were read: [t1] reads [x] and writes [y],
    [t2] reads [y] and writes [x], both commit — then one of the reads comes
    after the other transaction's commit. *)
Lemma no_write_skew_lemma : forall st0 ops t1 t2 x y a1 b1 a2 b2 r1 w1 r2 w2 c1 c2,
  t1 <> t2 ->
  nth_error (trace st0 ops) r1 = Some (EvRead t1 x a1) ->
  nth_error (trace st0 ops) w1 = Some (EvWrite t1 y b1) ->
  nth_error (trace st0 ops) r2 = Some (EvRead t2 y a2) ->
  nth_error (trace st0 ops) w2 = Some (EvWrite t2 x b2) ->
  nth_error (trace st0 ops) c1 = Some (EvCommit t1) ->
  nth_error (trace st0 ops) c2 = Some (EvCommit t2) ->
  (c2 < r1)%nat \/ (c1 < r2)%nat.
Proof.
  intros st0 ops t1 t2 x y a1 b1 a2 b2 r1 w1 r2 w2 c1 c2 Hne H1 H2 H3 H4 H5 H6.
  apply (crossing_conflicts st0 ops (EvRead t1 x a1) (EvWrite t1 y b1)
           (EvRead t2 y a2) (EvWrite t2 x b2) r1 w1 r2 w2 c1 c2);
    try assumption; try reflexivity; apply conflict_rw.
Qed.

(* ------------------------------------------------------------------ *)
(** * The recorded events of a transaction are its program *)

Definition ev_op (e : event) : sop :=
  match e with
  | EvRead t x _ => SRead t x
  | EvWrite t x v => SWrite t x v
  | EvCommit t => SCommit t
  | EvAbort t => SAbort t
  end.

(** The operations of [t] in the schedule, in order ... *)
Definition oproj (t : N) (ops : list sop) : list sop :=
  filter (fun o => op_txn o =? t) ops.

Definition is_end (o : sop) : bool :=
  match o with SCommit _ | SAbort _ => true | _ => false end.

(** ... up to and including its first commit/abort request. *)
Fixpoint upto_end (p : list sop) : list sop :=
  match p with
  | [] => []
  | o :: r => if is_end o then [o] else o :: upto_end r
  end.

Definition has_end (p : list sop) : Prop := exists o, In o p /\ is_end o = true.

Lemma has_end_cons : forall o r, has_end (o :: r) <-> is_end o = true \/ has_end r.
Proof.
  intros o r. unfold has_end. split.
  - intros (o' & [E|H] & He); [left; subst o'; exact He|right; exists o'; split; assumption].
  - intros [H|(o' & H & He)].
    + exists o. split; [left; reflexivity|exact H].
    + exists o'. split; [right; exact H|exact He].
Qed.

Lemma upto_end_has : forall p l, has_end p -> upto_end (p ++ l) = upto_end p.
Proof.
  induction p as [|o r IH]; intros l H.
  - destruct H as (o & [] & _).
  - cbn [app upto_end]. destruct (is_end o) eqn:E; [reflexivity|].
    f_equal. apply IH. apply has_end_cons in H. destruct H as [H|H]; [congruence|exact H].
Qed.

Lemma upto_end_no : forall p l, ~ has_end p -> upto_end (p ++ l) = p ++ upto_end l.
Proof.
  induction p as [|o r IH]; intros l H.
  - reflexivity.
  - cbn [app upto_end]. destruct (is_end o) eqn:E.
    + exfalso. apply H. apply has_end_cons. left. exact E.
    + f_equal. apply IH. intros Hr. apply H. apply has_end_cons. right. exact Hr.
Qed.

Lemma has_end_upto : forall p, has_end (upto_end p) <-> has_end p.
Proof.
  induction p as [|o r IH].
  - apply iff_refl.
  - cbn [upto_end]. destruct (is_end o) eqn:E.
    + rewrite !has_end_cons. split; intros _; left; exact E.
    + rewrite !has_end_cons, IH. apply iff_refl.
Qed.

Lemma oproj_snoc : forall t ops o,
  oproj t (ops ++ [o]) = if op_txn o =? t then oproj t ops ++ [o] else oproj t ops.
Proof.
  intros t ops o. unfold oproj. rewrite filter_app. cbn [filter].
  destruct (op_txn o =? t); [reflexivity|apply app_nil_r].
Qed.

Lemma prog_end_finished : forall t tr,
  has_end (map ev_op (proj t tr)) <-> finished tr t.
Proof.
  intros t tr. split.
  - intros (o & Ho & He). apply in_map_iff in Ho. destruct Ho as (e & Eo & Hin).
    apply proj_In in Hin. destruct Hin as [Hin Et]. subst o.
    destruct e as [a b c|a b c|a|a]; try discriminate; cbn [ev_txn] in Et; subst a;
      [left|right]; exact Hin.
  - intros [H|H].
    + exists (SCommit t). split; [|reflexivity].
      apply (in_map ev_op _ (EvCommit t)). apply proj_In. split; [exact H|reflexivity].
    + exists (SAbort t). split; [|reflexivity].
      apply (in_map ev_op _ (EvAbort t)). apply proj_In. split; [exact H|reflexivity].
Qed.

Lemma program_lemma : forall st0 ops t, ~ In (EvAbort t) (trace st0 ops) ->
  map ev_op (proj t (trace st0 ops)) = upto_end (oproj t ops).
Proof.
  intros st0 ops t. induction ops as [|o ops IH] using rev_ind; intros Hna.
  - reflexivity.
  - rewrite trace_snoc in *. rewrite oproj_snoc.
    pose proof (inv_at st0 ops) as I.
    set (s := final st0 ops) in *. set (tr := trace st0 ops) in *.
    assert (Hna' : ~ In (EvAbort t) tr).
    { intros H. apply Hna. apply in_or_app. left. exact H. }
    specialize (IH Hna').
    destruct (N.eqb_spec (op_txn o) t) as [Eo|Eo].
    + destruct (sstep_cases s o (i_reach _ _ _ I)) as [[Hf E]|[Hn H]].
      * rewrite E. cbn [snd]. rewrite app_nil_r, IH. symmetry. apply upto_end_has.
        apply has_end_upto. rewrite <- IH. apply prog_end_finished.
        apply (i_fin _ _ _ I). rewrite <- Eo. exact Hf.
      * assert (Hne : ~ has_end (oproj t ops)).
        { intros He. apply has_end_upto in He. rewrite <- IH in He.
          apply prog_end_finished in He. apply Hn. rewrite Eo.
          apply (i_fin _ _ _ I). exact He. }
        assert (Hup : upto_end (oproj t ops) = oproj t ops).
        { pose proof (upto_end_no (oproj t ops) [] Hne) as H0.
          rewrite !app_nil_r in H0. exact H0. }
        assert (Hgoal : forall e, snd (sstep s o) = [e] -> ev_txn e = t -> ev_op e = o ->
                  map ev_op (proj t (tr ++ snd (sstep s o))) = upto_end (oproj t ops ++ [o])).
        { intros e Es Et Ee. rewrite Es, (proj_snoc_eq t tr e Et), map_app, IH.
          rewrite (upto_end_no _ [o] Hne), Hup. cbn [map upto_end]. rewrite Ee.
          destruct (is_end o); reflexivity. }
        destruct H as [H|[H|[H|H]]].
        -- destruct H as (x & l' & Eq & _ & _ & E). rewrite E in *. cbn [do_read snd] in *.
           eapply Hgoal; [reflexivity|exact Eo|]. cbn [ev_op]. symmetry. exact Eq.
        -- destruct H as (x & v & l' & Eq & _ & _ & E). rewrite E in *. cbn [do_write snd] in *.
           eapply Hgoal; [reflexivity|exact Eo|]. cbn [ev_op]. symmetry. exact Eq.
        -- destruct H as [Eq E]. rewrite E in *. cbn [commit_txn snd] in *.
           eapply Hgoal; [reflexivity|exact Eo|]. cbn [ev_op]. symmetry. exact Eq.
        -- exfalso. apply Hna. rewrite H. cbn [abort_txn snd]. apply in_or_app. right.
           left. rewrite Eo. reflexivity.
    + rewrite <- IH. f_equal.
      destruct (sstep_event s o (i_reach _ _ _ I)) as [E|(e & E & Et & _)]; rewrite E.
      * rewrite app_nil_r. reflexivity.
      * apply proj_snoc_other. congruence.
Qed.

(** For a committed transaction: its recorded events are exactly its
    operations in the schedule up to its commit request, in program order. *)
Lemma committed_program_lemma : forall st0 ops t, In t (committed (trace st0 ops)) ->
  map ev_op (proj t (trace st0 ops)) = upto_end (oproj t ops) /\
  ~ In (EvAbort t) (trace st0 ops).
Proof.
  intros st0 ops t Hc. apply committed_In in Hc.
  assert (Hna : ~ In (EvAbort t) (trace st0 ops)).
  { intros Ha. apply In_nth_error in Hc. destruct Hc as (c & Hc).
    apply In_nth_error in Ha. destruct Ha as (a & Ha).
    assert (E : c = a).
    { eapply finish_unique; [exact Hc|left; reflexivity|exact Ha|right; reflexivity]. }
    subst a. rewrite Hc in Ha. discriminate. }
  split; [apply program_lemma; exact Hna|exact Hna].
Qed.
