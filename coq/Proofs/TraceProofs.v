(** Proofs about lock / access traces (M19): the lockset discipline implies
    data-race freedom; the executable checkers are sound and complete with
    respect to the Prop-level definitions. *)
From Coq Require Import List NArith Bool Lia Arith.
From SDB Require Import Model.Trace.
Import ListNotations.
Open Scope N_scope.

(** * States along a trace *)

Lemma firstn_S_nth {A} (l : list A) i x :
  nth_error l i = Some x -> firstn (S i) l = firstn i l ++ [x].
Proof.
  revert i. induction l as [|a l IH]; intros [|i] H; cbn in *; try discriminate.
  - now inversion H.
  - f_equal. now apply IH.
Qed.

Lemma firstn_S_none {A} (l : list A) i :
  nth_error l i = None -> firstn (S i) l = firstn i l.
Proof.
  intros H. apply nth_error_None in H.
  rewrite !firstn_all2 by lia. reflexivity.
Qed.

Lemma state_at_0 tr : state_at tr 0 = [].
Proof. reflexivity. Qed.

Lemma state_at_S tr i e : nth_error tr i = Some e ->
  state_at tr (S i) = apply_ev (state_at tr i) e.
Proof.
  intros H. unfold state_at. rewrite (firstn_S_nth tr i e H), fold_left_app. reflexivity.
Qed.

Lemma state_at_S_none tr i : nth_error tr i = None -> state_at tr (S i) = state_at tr i.
Proof. intros H. unfold state_at. now rewrite firstn_S_none. Qed.

(** * Boolean predicates on lock states *)

Definition hold_eq_dec (a b : holding) : {a = b} + {a <> b}.
Proof. repeat decide equality. Defined.

Lemma holds_any_iff s g l : holds_any s g l = true <-> exists m, In (g, l, m) s.
Proof.
  unfold holds_any. rewrite existsb_exists. split.
  - intros [[[g' l'] m] [Hin Hb]]. unfold h_g, h_l in Hb; cbn in Hb.
    apply andb_true_iff in Hb as [Hg Hl]. apply N.eqb_eq in Hg, Hl. subst. now exists m.
  - intros [m Hin]. exists (g, l, m). split; [exact Hin|].
    unfold h_g, h_l; cbn. now rewrite !N.eqb_refl.
Qed.

Lemma holds_x_iff s g l : holds_x s g l = true <-> In (g, l, Exclusive) s.
Proof.
  unfold holds_x. rewrite existsb_exists. split.
  - intros [[[g' l'] m] [Hin Hb]]. unfold h_g, h_l, h_m in Hb; cbn in Hb.
    apply andb_true_iff in Hb as [Hb Hm]. apply andb_true_iff in Hb as [Hg Hl].
    apply N.eqb_eq in Hg, Hl. subst. destruct m; [discriminate|exact Hin].
  - intros Hin. exists (g, l, Exclusive). split; [exact Hin|].
    unfold h_g, h_l, h_m; cbn. now rewrite !N.eqb_refl.
Qed.

Lemma locked_any_false s l : locked_any s l = false -> forall g m, ~ In (g, l, m) s.
Proof.
  intros H g m Hin.
  assert (Ht : locked_any s l = true).
  { unfold locked_any. apply existsb_exists. exists (g, l, m). split; [exact Hin|].
    unfold h_l; cbn. apply N.eqb_refl. }
  congruence.
Qed.

Lemma locked_x_false s l : locked_x s l = false -> forall g, ~ In (g, l, Exclusive) s.
Proof.
  intros H g Hin.
  assert (Ht : locked_x s l = true).
  { unfold locked_x. apply existsb_exists. exists (g, l, Exclusive). split; [exact Hin|].
    unfold h_l, h_m; cbn. now rewrite N.eqb_refl. }
  congruence.
Qed.

Lemma release_subset s g l h : In h (release s g l) -> In h s.
Proof.
  induction s as [|a s IH]; cbn; [auto|].
  destruct ((h_g a =? g) && (h_l a =? l)); cbn; [auto|]. intros [H|H]; auto.
Qed.

(** A holding that disappears was released by its own goroutine on its lock. *)
Lemma release_keeps_other s g l h :
  In h s -> (h_g h <> g \/ h_l h <> l) -> In h (release s g l).
Proof.
  intros Hin Hne. induction s as [|a s IH]; cbn in *; [contradiction|].
  destruct ((h_g a =? g) && (h_l a =? l)) eqn:E.
  - destruct Hin as [->|Hin]; [|exact Hin].
    apply andb_true_iff in E as [Hg Hl]. apply N.eqb_eq in Hg, Hl.
    destruct Hne; contradiction.
  - destruct Hin as [->|Hin]; [left; reflexivity | right; now apply IH].
Qed.

Lemma apply_ev_new s e h : In h (apply_ev s e) -> ~ In h s ->
  e = Acq (h_g h) (h_l h) (h_m h).
Proof.
  destruct e as [g l m|g l|g loc a]; cbn; intros Hin Hni.
  - destruct Hin as [<-|Hin]; [reflexivity|contradiction].
  - exfalso. apply Hni. eapply release_subset; eassumption.
  - contradiction.
Qed.

Lemma apply_ev_gone s e h : In h s -> ~ In h (apply_ev s e) -> e = Rel (h_g h) (h_l h).
Proof.
  destruct e as [g l m|g l|g loc a]; cbn; intros Hin Hni.
  - exfalso. apply Hni. now right.
  - destruct (N.eq_dec (h_g h) g) as [Eg|Eg]; [destruct (N.eq_dec (h_l h) l) as [El|El]|].
    + now subst.
    + exfalso. apply Hni. apply release_keeps_other; auto.
    + exfalso. apply Hni. apply release_keeps_other; auto.
  - contradiction.
Qed.

(** * The exclusive holder excludes every other holder *)

Definition x_excl (s : hstate) : Prop :=
  forall g1 g2 l m, In (g1, l, Exclusive) s -> In (g2, l, m) s -> g1 = g2.

Lemma x_excl_step s e : x_excl s -> ev_ok s e = true -> x_excl (apply_ev s e).
Proof.
  intros Hx Hok. destruct e as [g l m|g l|g loc a]; cbn in *.
  - intros g1 g2 l' m' [H1|H1] [H2|H2].
    + congruence.
    + inversion H1; subst. apply negb_true_iff in Hok.
      exfalso. exact (locked_any_false s l' Hok g2 m' H2).
    + inversion H2; subst. destruct m'.
      * apply negb_true_iff in Hok. exfalso. exact (locked_x_false s l' Hok g1 H1).
      * apply negb_true_iff in Hok. exfalso. exact (locked_any_false s l' Hok g1 Exclusive H1).
    + eapply Hx; eassumption.
  - intros g1 g2 l' m' H1 H2. apply release_subset in H1, H2. eapply Hx; eassumption.
  - exact Hx.
Qed.

Lemma x_excl_at tr : well_formedP tr -> forall k, x_excl (state_at tr k).
Proof.
  intros Hwf k. induction k as [|k IH].
  - intros g1 g2 l m [].
  - destruct (nth_error tr k) as [e|] eqn:E.
    + rewrite (state_at_S tr k e E). apply x_excl_step; [exact IH | now apply Hwf].
    + now rewrite (state_at_S_none tr k E).
Qed.

(** * Finding the release between two positions *)

Lemma find_release tr h i : forall k, (i <= k)%nat ->
  In h (state_at tr i) -> ~ In h (state_at tr k) ->
  exists r, (i <= r < k)%nat /\ nth_error tr r = Some (Rel (h_g h) (h_l h)) /\
            In h (state_at tr r).
Proof.
  induction k as [|k IH]; intros Hik Hi Hk.
  - assert (i = 0)%nat by lia. subst i. contradiction.
  - destruct (Nat.eq_dec i (S k)) as [->|Hne]; [contradiction|].
    destruct (in_dec hold_eq_dec h (state_at tr k)) as [Hin|Hni].
    + destruct (nth_error tr k) as [e|] eqn:E.
      * rewrite (state_at_S tr k e E) in Hk.
        exists k. split; [lia|]. split; [|exact Hin].
        rewrite E. f_equal. now apply (apply_ev_gone (state_at tr k)).
      * rewrite (state_at_S_none tr k E) in Hk. contradiction.
    + destruct (IH ltac:(lia) Hi Hni) as [r [Hr Hrest]]. exists r. split; [lia|exact Hrest].
Qed.

(** The first holder holds exclusively. *)
Lemma sync_after_x tr g1 g2 l m2 i : well_formedP tr -> g1 <> g2 -> forall j, (i <= j)%nat ->
  In (g1, l, Exclusive) (state_at tr i) -> In (g2, l, m2) (state_at tr j) ->
  exists r k, (i <= r)%nat /\ (r < k)%nat /\ (k < j)%nat /\
    nth_error tr r = Some (Rel g1 l) /\ In (g1, l, Exclusive) (state_at tr r) /\
    nth_error tr k = Some (Acq g2 l m2).
Proof.
  intros Hwf Hne. induction j as [|j IH]; intros Hij H1 H2.
  - rewrite state_at_0 in H2. contradiction.
  - destruct (Nat.eq_dec i (S j)) as [->|Hneq].
    { exfalso. apply Hne. exact (x_excl_at tr Hwf (S j) g1 g2 l m2 H1 H2). }
    destruct (in_dec hold_eq_dec (g2, l, m2) (state_at tr j)) as [Hin|Hni].
    + destruct (IH ltac:(lia) H1 Hin) as (r & k & Hr & Hrk & Hk & Rest).
      exists r, k. repeat split; try lia; apply Rest.
    + destruct (nth_error tr j) as [e|] eqn:E;
        [|rewrite (state_at_S_none tr j E) in H2; contradiction].
      rewrite (state_at_S tr j e E) in H2.
      pose proof (apply_ev_new _ _ _ H2 Hni) as He. unfold h_g, h_l, h_m in He; cbn in He.
      subst e.
      assert (Hgone : ~ In (g1, l, Exclusive) (state_at tr j)).
      { pose proof (Hwf j _ E) as Hok. cbn in Hok. destruct m2.
        - apply negb_true_iff in Hok. exact (locked_x_false _ l Hok g1).
        - apply negb_true_iff in Hok. exact (locked_any_false _ l Hok g1 Exclusive). }
      destruct (find_release tr (g1, l, Exclusive) i j ltac:(lia) H1 Hgone) as (r & Hr & Hrel & Hinr).
      exists r, j. repeat split; try lia; assumption.
Qed.

(** The second holder holds exclusively. *)
Lemma sync_before_x tr g1 g2 l m1 i : well_formedP tr -> g1 <> g2 -> forall j, (i <= j)%nat ->
  In (g1, l, m1) (state_at tr i) -> In (g2, l, Exclusive) (state_at tr j) ->
  exists r k, (i <= r)%nat /\ (r < k)%nat /\ (k < j)%nat /\
    nth_error tr r = Some (Rel g1 l) /\ nth_error tr k = Some (Acq g2 l Exclusive).
Proof.
  intros Hwf Hne. induction j as [|j IH]; intros Hij H1 H2.
  - rewrite state_at_0 in H2. contradiction.
  - destruct (Nat.eq_dec i (S j)) as [->|Hneq].
    { exfalso. apply Hne. symmetry. exact (x_excl_at tr Hwf (S j) g2 g1 l m1 H2 H1). }
    destruct (in_dec hold_eq_dec (g2, l, Exclusive) (state_at tr j)) as [Hin|Hni].
    + destruct (IH ltac:(lia) H1 Hin) as (r & k & Hr & Hrk & Hk & Rest).
      exists r, k. repeat split; try lia; apply Rest.
    + destruct (nth_error tr j) as [e|] eqn:E;
        [|rewrite (state_at_S_none tr j E) in H2; contradiction].
      rewrite (state_at_S tr j e E) in H2.
      pose proof (apply_ev_new _ _ _ H2 Hni) as He. unfold h_g, h_l, h_m in He; cbn in He.
      subst e.
      assert (Hgone : ~ In (g1, l, m1) (state_at tr j)).
      { pose proof (Hwf j _ E) as Hok. cbn in Hok.
        apply negb_true_iff in Hok. exact (locked_any_false _ l Hok g1 m1). }
      destruct (find_release tr (g1, l, m1) i j ltac:(lia) H1 Hgone) as (r & Hr & Hrel & Hinr).
      exists r, j. repeat split; try lia; assumption.
Qed.

(** * Happens-before *)

Lemma hb_lt tr i j : hb tr i j -> (i < j)%nat.
Proof. induction 1; lia. Qed.

Lemma hb_irrefl tr i : ~ hb tr i i.
Proof. intros H. apply hb_lt in H. lia. Qed.

(** * The main theorem *)

Theorem discipline_drf_ordered guard tr i j g1 g2 loc a1 a2 :
  well_formedP tr -> disciplinedP guard tr ->
  nth_error tr i = Some (Acc g1 loc a1) -> nth_error tr j = Some (Acc g2 loc a2) ->
  (i < j)%nat -> g1 <> g2 -> (a1 = Write \/ a2 = Write) ->
  hb tr i j.
Proof.
  intros Hwf Hd Hi Hj Hij Hne Hw.
  pose proof (Hd i g1 loc a1 Hi) as D1. pose proof (Hd j g2 loc a2 Hj) as D2.
  set (l := guard loc) in *.
  assert (Hchain : forall r k g m, (i <= r)%nat -> (r < k)%nat -> (k < j)%nat ->
            nth_error tr r = Some (Rel g1 l) -> nth_error tr k = Some (Acq g2 l m) ->
            (m = Exclusive \/ In (g1, l, Exclusive) (state_at tr r)) -> g = g1 -> hb tr i j).
  { intros r k g m Hr Hrk Hk Hrel Hacq Hel _.
    assert (Hir : (i < r)%nat).
    { destruct (Nat.eq_dec i r) as [->|]; [|lia]. rewrite Hi in Hrel. discriminate. }
    apply (hb_trans tr i r j).
    - apply (hb_po tr i r _ _ Hir Hi Hrel). reflexivity.
    - apply (hb_trans tr r k j).
      + exact (hb_sync tr r k g1 g2 l m Hrk Hrel Hacq Hel).
      + apply (hb_po tr k j _ _ Hk Hacq Hj). reflexivity. }
  destruct a1.
  - (* first access is a read, so the second is a write *)
    destruct Hw as [Hw|Hw]; [discriminate|]. subst a2.
    destruct D1 as [m1 D1].
    destruct (sync_before_x tr g1 g2 l m1 i Hwf Hne j ltac:(lia) D1 D2)
      as (r & k & Hr & Hrk & Hk & Hrel & Hacq).
    apply (Hchain r k g1 Exclusive); auto.
  - (* first access is a write *)
    assert (D2' : exists m2, In (g2, l, m2) (state_at tr j)).
    { destruct a2; [exact D2 | now exists Exclusive]. }
    destruct D2' as [m2 D2'].
    destruct (sync_after_x tr g1 g2 l m2 i Hwf Hne j ltac:(lia) D1 D2')
      as (r & k & Hr & Hrk & Hk & Hrel & Hinr & Hacq).
    apply (Hchain r k g1 m2); auto.
Qed.

Theorem discipline_no_race guard tr i j :
  well_formedP tr -> disciplinedP guard tr -> ~ data_race tr i j.
Proof.
  intros Hwf Hd [(g1 & g2 & loc & a1 & a2 & Hi & Hj & Hne & Hw) [Hn1 Hn2]].
  destruct (lt_eq_lt_dec i j) as [[Hlt|Heq]|Hgt].
  - apply Hn1. eapply discipline_drf_ordered; eauto.
  - subst j. rewrite Hi in Hj. inversion Hj; subst. now apply Hne.
  - apply Hn2. eapply (discipline_drf_ordered guard tr j i g2 g1 loc a2 a1); eauto.
    tauto.
Qed.

(** * The executable checkers *)

Lemma nth_error_state_cons e tr i s :
  fold_left apply_ev (firstn (S i) (e :: tr)) s = fold_left apply_ev (firstn i tr) (apply_ev s e).
Proof. reflexivity. Qed.

Lemma wf_from_spec tr : forall s,
  wf_from s tr = true <->
  (forall i e, nth_error tr i = Some e -> ev_ok (fold_left apply_ev (firstn i tr) s) e = true).
Proof.
  induction tr as [|a tr IH]; intros s; cbn [wf_from].
  - split; [|reflexivity]. intros _ [|i] e H; discriminate.
  - rewrite andb_true_iff, IH. split.
    + intros [Ha Hr] [|i] e H; cbn in H.
      * inversion H; subst. exact Ha.
      * rewrite nth_error_state_cons. now apply Hr.
    + intros H. split.
      * exact (H 0%nat a eq_refl).
      * intros i e Hi. specialize (H (S i) e Hi). now rewrite nth_error_state_cons in H.
Qed.

Theorem well_formed_iff tr : well_formed tr = true <-> well_formedP tr.
Proof. unfold well_formed, well_formedP, state_at. apply wf_from_spec. Qed.

Lemma disc_from_spec guard tr : forall s,
  disc_from guard s tr = true <->
  (forall i e, nth_error tr i = Some e -> acc_ok guard (fold_left apply_ev (firstn i tr) s) e = true).
Proof.
  induction tr as [|a tr IH]; intros s; cbn [disc_from].
  - split; [|reflexivity]. intros _ [|i] e H; discriminate.
  - rewrite andb_true_iff, IH. split.
    + intros [Ha Hr] [|i] e H; cbn in H.
      * inversion H; subst. exact Ha.
      * rewrite nth_error_state_cons. now apply Hr.
    + intros H. split.
      * exact (H 0%nat a eq_refl).
      * intros i e Hi. specialize (H (S i) e Hi). now rewrite nth_error_state_cons in H.
Qed.

Theorem disciplined_iff guard tr : disciplined guard tr = true <-> disciplinedP guard tr.
Proof.
  unfold disciplined, disciplinedP. rewrite disc_from_spec. fold (state_at tr). split.
  - intros H i g loc a Hi. specialize (H i _ Hi). cbn in H. destruct a.
    + now apply holds_any_iff.
    + now apply holds_x_iff.
  - intros H i e Hi. destruct e as [g l m|g l|g loc a]; try reflexivity.
    specialize (H i g loc a Hi). cbn. destruct a.
    + now apply holds_any_iff.
    + now apply holds_x_iff.
Qed.
