(** Proofs about Model/LogRead.v: the chunked reader of Redo delivers exactly the records
    the codec defines ([parse_all]), with their byte offsets, for every buffer at least as
    large as the largest record; Undo's read by offset returns the record.

    Hypothesis [fits bufsize file]: every record of [fst (parse_all file)] has its size
    field <= bufsize.  The engine satisfies it: common.LogBufferSize = 528384 (129 pages),
    and a record is at most two tuple images of < 4096 bytes each plus a 20-44 byte header
    (UPDATE: 20 + 8 + 4 + |old| + 4 + |new|).

    The files are arbitrary lists of numbers (not even bytes): the proofs do not go through
    [ser_rec] but through the bytes each accepted record occupies ([rec_bytes]). *)
From Coq Require Import List NArith ZArith Bool Arith Lia ZifyN ZifyNat ZifyBool.
From SDB Require Import Base.Bytes Params Model.Wal Model.LogCodec Model.LogRead
  Proofs.LogCodecProofs.
Import ListNotations.
Local Open Scope nat_scope.

Definition fits (bufsize : nat) (file : list N) : Prop :=
  Forall (fun r => lr_rec_len r <= bufsize) (fst (parse_all file)).

(** * The bytes of one accepted record *)

(** [pre] is the byte string of record [r]: as long as the size field says, at least a
    header, and the reader returns [r] from it whatever follows *)
Definition rec_bytes (pre : list N) (r : lrec_full) : Prop :=
  length pre = lr_rec_len r /\ 20 <= length pre /\ forall y, parse_rec (pre ++ y) = Some (r, y).

Lemma get32_exact w t : lenN w = 4%N -> get32 (w ++ t) = Some (le_dec w, t).
Proof. intros H. unfold get32. rewrite split_at_app_exact by exact H. reflexivity. Qed.

Lemma parse_rec_decomp inp r rest : parse_rec inp = Some (r, rest) ->
  exists pre, inp = pre ++ rest /\ rec_bytes pre r.
Proof.
  unfold parse_rec.
  destruct (get32 inp) as [[size i1]|] eqn:E1; [|discriminate].
  destruct (get32 i1) as [[lsn i2]|] eqn:E2; [|discriminate].
  destruct (get32 i2) as [[txn i3]|] eqn:E3; [|discriminate].
  destruct (get32 i3) as [[prev i4]|] eqn:E4; [|discriminate].
  destruct (get32 i4) as [[ty i5]|] eqn:E5; [|discriminate].
  destruct (N.ltb_spec size log_header_size) as [|Hsz]; [discriminate|].
  destruct (split_at i5 (size - log_header_size) []) as [[bodyb rest']|] eqn:E6; [|discriminate].
  destruct (parse_body ty bodyb) as [[b pad]|] eqn:E7; [|discriminate].
  intros H. inversion H; subst; clear H.
  apply get32_inv in E1, E2, E3, E4, E5.
  destruct E1 as (w1 & -> & L1 & ->). destruct E2 as (w2 & -> & L2 & ->).
  destruct E3 as (w3 & -> & L3 & ->). destruct E4 as (w4 & -> & L4 & ->).
  destruct E5 as (w5 & -> & L5 & ->).
  apply split_at_inv in E6. destruct E6 as [-> L6].
  exists (w1 ++ w2 ++ w3 ++ w4 ++ w5 ++ bodyb). split.
  - rewrite <- !app_assoc. reflexivity.
  - unfold rec_bytes, lr_rec_len. cbn [f_size]. unfold log_header_size, lenN in *.
    split; [rewrite !app_length; lia|]. split; [rewrite !app_length; lia|].
    intros y. unfold parse_rec. rewrite <- !app_assoc.
    rewrite get32_exact by (unfold lenN; exact L1).
    rewrite get32_exact by (unfold lenN; exact L2).
    rewrite get32_exact by (unfold lenN; exact L3).
    rewrite get32_exact by (unfold lenN; exact L4).
    rewrite get32_exact by (unfold lenN; exact L5).
    unfold log_header_size.
    destruct (N.ltb_spec (le_dec w1) 20); [lia|].
    rewrite split_at_app_exact by (unfold lenN; exact L6).
    rewrite E7. reflexivity.
Qed.

Lemma rec_bytes_total pres rs : Forall2 rec_bytes pres rs -> length (concat pres) = lr_total rs.
Proof.
  induction 1 as [|pre r pres rs (L & _ & _) _ IH]; [reflexivity|].
  cbn [concat lr_total fold_right]. rewrite app_length. fold (lr_total rs). lia.
Qed.

(** * Every file is records + leftover *)

Lemma file_decomp n : forall inp, length inp < n ->
  exists pres, Forall2 rec_bytes pres (fst (parse_all inp)) /\
               inp = concat pres ++ snd (parse_all inp) /\
               parse_rec (snd (parse_all inp)) = None.
Proof.
  induction n as [|n IH]; intros inp Hn; [lia|].
  rewrite parse_all_step. destruct (parse_rec inp) as [[r rest]|] eqn:E.
  - destruct (parse_rec_decomp _ _ _ E) as (pre & -> & Hb).
    pose proof Hb as (L & L20 & _).
    destruct (IH rest) as (pres & F & Eq & Hn0); [rewrite app_length in Hn; lia|].
    exists (pre :: pres). cbn [fst snd concat]. split; [constructor; assumption|].
    split; [|exact Hn0]. rewrite <- app_assoc. f_equal. exact Eq.
  - exists []. cbn [fst snd concat app]. auto.
Qed.

Lemma parse_all_recs pres rs : Forall2 rec_bytes pres rs -> forall y,
  parse_all (concat pres ++ y) = (rs ++ fst (parse_all y), snd (parse_all y)).
Proof.
  induction 1 as [|pre r pres rs (_ & _ & P) _ IH]; intros y.
  - cbn [concat app]. destruct (parse_all y); reflexivity.
  - cbn [concat]. rewrite <- app_assoc. rewrite parse_all_step, P, IH. reflexivity.
Qed.

(** * One chunk *)

(** the records of [rs] that fit, whole, in [b] bytes *)
Fixpoint take_fit (b : nat) (rs : list lrec_full) : list lrec_full :=
  match rs with
  | [] => []
  | r :: rs' => if lr_rec_len r <=? b then r :: take_fit (b - lr_rec_len r) rs' else []
  end.

Lemma take_fit_split b rs : forall b', b' = b -> exists rs2, rs = take_fit b' rs ++ rs2.
Proof.
  revert b. induction rs as [|r rs IH]; intros b b' ->; cbn [take_fit].
  - exists []. reflexivity.
  - destruct (lr_rec_len r <=? b).
    + destruct (IH (b - lr_rec_len r) _ eq_refl) as (rs2 & E). exists rs2.
      cbn [app]. f_equal. exact E.
    + exists (r :: rs). reflexivity.
Qed.

Lemma parse_firstn_none b l : parse_rec l = None -> parse_rec (firstn b l) = None.
Proof.
  intros H. destruct (parse_rec (firstn b l)) as [[r rest]|] eqn:E; [|reflexivity].
  apply (parse_rec_app _ (skipn b l)) in E. rewrite firstn_skipn in E. congruence.
Qed.

Lemma chunk_parse pres rs left : Forall2 rec_bytes pres rs -> parse_rec left = None ->
  forall b, fst (parse_all (firstn b (concat pres ++ left))) = take_fit b rs.
Proof.
  intros F Hl. induction F as [|pre r pres rs (L & L20 & P) _ IH]; intros b.
  - cbn [concat app take_fit]. rewrite parse_all_step, parse_firstn_none by exact Hl. reflexivity.
  - cbn [concat take_fit]. rewrite <- app_assoc. rewrite firstn_app.
    destruct (Nat.leb_spec (lr_rec_len r) b) as [Hb|Hb].
    + rewrite firstn_all2 by lia. rewrite parse_all_step, P. cbn [fst].
      rewrite L. rewrite IH. reflexivity.
    + replace (b - length pre) with 0 by lia. cbn [firstn]. rewrite app_nil_r.
      rewrite parse_all_step.
      destruct (parse_rec (firstn b pre)) as [[r2 rest2]|] eqn:E; [|reflexivity].
      exfalso. apply (parse_rec_app _ (skipn b pre ++ concat pres ++ left)) in E.
      rewrite app_assoc, firstn_skipn in E. rewrite P in E. inversion E as [[E1 E2]].
      apply (f_equal (@length N)) in E2. rewrite !app_length, skipn_length in E2. lia.
Qed.

Lemma chunk_fuel_spec f : forall data,
  lr_chunk_fuel f data = (fst (parse_fuel f data), lr_total (fst (parse_fuel f data))).
Proof.
  induction f as [|f IH]; intros data; cbn [lr_chunk_fuel parse_fuel]; [reflexivity|].
  destruct (parse_rec data) as [[r rest]|]; [|reflexivity].
  rewrite IH. destruct (parse_fuel f rest) as [rs left]. reflexivity.
Qed.

Lemma chunk_records_spec chunk :
  lr_chunk_records chunk = (fst (parse_all chunk), lr_total (fst (parse_all chunk))).
Proof. apply chunk_fuel_spec. Qed.

(** * Offsets *)

Lemma with_offsets_app rs1 : forall base rs2,
  lr_with_offsets base (rs1 ++ rs2) =
  lr_with_offsets base rs1 ++ lr_with_offsets (base + lr_total rs1) rs2.
Proof.
  induction rs1 as [|r rs1 IH]; intros base rs2; cbn [app lr_with_offsets lr_total fold_right].
  - rewrite Nat.add_0_r. reflexivity.
  - fold (lr_total rs1). rewrite IH. rewrite Nat.add_assoc. reflexivity.
Qed.

Lemma with_offsets_snd rs : forall base, map snd (lr_with_offsets base rs) = rs.
Proof.
  induction rs as [|r rs IH]; intros base; cbn [lr_with_offsets map snd]; [reflexivity|].
  rewrite IH. reflexivity.
Qed.

(** the offset of record [i] is the total size of the records before it *)
Lemma with_offsets_nth rs : forall base i,
  nth_error (lr_with_offsets base rs) i =
  option_map (fun r => (base + lr_total (firstn i rs), r)) (nth_error rs i).
Proof.
  induction rs as [|r rs IH]; intros base i.
  - destruct i; reflexivity.
  - destruct i as [|i]; cbn [lr_with_offsets nth_error firstn lr_total fold_right option_map].
    + rewrite Nat.add_0_r. reflexivity.
    + fold (lr_total (firstn i rs)). rewrite IH. rewrite Nat.add_assoc. reflexivity.
Qed.

Lemma with_offsets_in rs : forall base o r, In (o, r) (lr_with_offsets base rs) ->
  exists rs1 rs2, rs = rs1 ++ r :: rs2 /\ o = base + lr_total rs1.
Proof.
  induction rs as [|r0 rs IH]; intros base o r H; cbn [lr_with_offsets] in H; [contradiction|].
  destruct H as [H|H].
  - inversion H; subst. exists [], rs. cbn. split; [reflexivity|lia].
  - destruct (IH _ _ _ H) as (rs1 & rs2 & -> & ->). exists (r0 :: rs1), rs2.
    cbn [app lr_total fold_right]. fold (lr_total rs1). split; [reflexivity|lia].
Qed.

(** * The chunk loop *)

Lemma read_log_at done rem b : rem <> [] ->
  lr_read_log (done ++ rem) (length done) b = Some (firstn b rem).
Proof.
  intros H. unfold lr_read_log. rewrite app_length.
  destruct (Nat.leb_spec (length done + length rem) (length done)) as [Hl|Hl].
  - destruct rem; [congruence|cbn [length] in Hl; lia].
  - rewrite skipn_app, skipn_all, Nat.sub_diag. reflexivity.
Qed.

Lemma read_log_end file : lr_read_log file (length file) = fun _ => None.
Proof. unfold lr_read_log. rewrite Nat.leb_refl. reflexivity. Qed.

Lemma scan_from_spec bufsize fuel : forall done pres rs left,
  Forall2 rec_bytes pres rs -> parse_rec left = None ->
  Forall (fun r => lr_rec_len r <= bufsize) rs ->
  length (concat pres ++ left) < fuel ->
  lr_redo_scan_from bufsize fuel (done ++ concat pres ++ left) (length done) =
  lr_with_offsets (length done) rs.
Proof.
  induction fuel as [|fuel IH]; intros done pres rs left F Hl Hfit Hfuel; [lia|].
  cbn [lr_redo_scan_from].
  destruct (concat pres ++ left) as [|x0 rem0] eqn:Erem.
  - (* nothing left: ReadLog reports the end *)
    rewrite app_nil_r, read_log_end.
    destruct F as [|pre r pres rs (_ & L20 & _) _]; [reflexivity|].
    cbn [concat] in Erem. apply (f_equal (@length N)) in Erem.
    rewrite !app_length in Erem. cbn [length] in Erem. lia.
  - rewrite <- Erem. rewrite read_log_at by (rewrite Erem; discriminate).
    rewrite chunk_records_spec, (chunk_parse _ _ _ F Hl).
    destruct rs as [|r rs].
    + reflexivity.
    + inversion Hfit as [|? ? Hr Hfit']; subst.
      destruct (take_fit_split bufsize (r :: rs) _ eq_refl) as (rs2 & Esplit).
      remember (take_fit bufsize (r :: rs)) as rs1 eqn:E1.
      assert (Hpos : 20 <= lr_total rs1).
      { subst rs1. cbn [take_fit]. destruct (Nat.leb_spec (lr_rec_len r) bufsize); [|lia].
        cbn [lr_total fold_right]. inversion F as [|? ? ? ? (L & L20 & _)]; subst. lia. }
      destruct (Nat.eqb_spec (lr_total rs1) 0); [lia|].
      rewrite Esplit in F. apply Forall2_app_inv_r in F.
      destruct F as (pres1 & pres2 & F1 & F2 & ->).
      rewrite Esplit, with_offsets_app. f_equal.
      rewrite concat_app, <- app_assoc.
      pose proof (rec_bytes_total _ _ F1) as Lt.
      replace (length done + lr_total rs1) with (length (done ++ concat pres1))
        by (rewrite app_length; lia).
      rewrite (app_assoc done). apply IH; try assumption.
      * rewrite Esplit in Hfit. apply Forall_app in Hfit. apply Hfit.
      * apply (f_equal (@length N)) in Erem.
        rewrite concat_app, <- app_assoc, app_length in Erem.
        cbn [length] in Hfuel, Erem. lia.
Qed.

(** Redo's scan = the parsed records of the codec with their byte offsets *)
Lemma scan_spec bufsize file fuel : fits bufsize file -> length file < fuel ->
  lr_redo_scan bufsize fuel file = lr_with_offsets 0 (fst (parse_all file)).
Proof.
  intros Hfit Hfuel.
  destruct (file_decomp (S (length file)) file) as (pres & F & E & Hn); [lia|].
  unfold lr_redo_scan. rewrite E at 1.
  apply (scan_from_spec bufsize fuel [] pres _ _ F Hn Hfit). rewrite <- E. exact Hfuel.
Qed.

(** * The theorems *)

(** (a) chunking is invisible *)
Theorem redo_scan_is_parse_all bufsize file : fits bufsize file ->
  map snd (lr_redo_scan bufsize (S (length file)) file) = fst (parse_all file).
Proof. intros H. rewrite scan_spec by (auto; lia). apply with_offsets_snd. Qed.

(** (b) the offsets are the byte offsets of the records *)
Theorem redo_scan_offsets bufsize file : fits bufsize file ->
  lr_redo_scan bufsize (S (length file)) file = lr_with_offsets 0 (fst (parse_all file)).
Proof. intros H. apply scan_spec; auto. Qed.

Theorem redo_scan_nth bufsize file i : fits bufsize file ->
  nth_error (lr_redo_scan bufsize (S (length file)) file) i =
  option_map (fun r => (lr_total (firstn i (fst (parse_all file))), r))
             (nth_error (fst (parse_all file)) i).
Proof. intros H. rewrite scan_spec by (auto; lia). apply with_offsets_nth. Qed.

(** (c) the fuel is never used up: more fuel reads nothing more *)
Theorem redo_scan_fuel_enough bufsize file fuel : fits bufsize file -> S (length file) <= fuel ->
  lr_redo_scan bufsize fuel file = lr_redo_scan bufsize (S (length file)) file.
Proof. intros H Hf. rewrite !scan_spec by (auto; lia). reflexivity. Qed.

Lemma strip_leftover_parse file :
  parse_all (lr_strip_leftover file) = (fst (parse_all file), []) /\
  file = lr_strip_leftover file ++ snd (parse_all file).
Proof.
  destruct (file_decomp (S (length file)) file) as (pres & F & E & Hn); [lia|].
  assert (Es : lr_strip_leftover file = concat pres).
  { unfold lr_strip_leftover. rewrite E at 1 3. rewrite app_length.
    replace (length (concat pres) + length (snd (parse_all file)) - length (snd (parse_all file)))
      with (length (concat pres)) by lia.
    rewrite firstn_app, Nat.sub_diag, firstn_all. cbn [firstn]. apply app_nil_r. }
  rewrite Es. split; [|exact E].
  pose proof (parse_all_recs _ _ F []) as P. rewrite !app_nil_r in P.
  change (parse_all []) with (@nil lrec_full, @nil N) in P. cbn [fst snd] in P.
  try rewrite app_nil_r in P. exact P.
Qed.

(** (c) the bytes after the last complete record are ignored *)
Theorem redo_scan_ignores_torn_tail bufsize file : fits bufsize file ->
  lr_redo_scan bufsize (S (length file)) file =
  lr_redo_scan bufsize (S (length (lr_strip_leftover file))) (lr_strip_leftover file).
Proof.
  intros H. destruct (strip_leftover_parse file) as [P _].
  rewrite !scan_spec; auto.
  - rewrite P. reflexivity.
  - unfold fits. rewrite P. exact H.
Qed.

(** (d) Undo reads, at an offset recorded by Redo, the record Redo saw there *)
Theorem undo_read_at_offset bufsize file o r : fits bufsize file ->
  In (o, r) (lr_redo_scan bufsize (S (length file)) file) ->
  lr_undo_read bufsize file o = Some r.
Proof.
  intros H Hin. rewrite scan_spec in Hin by (auto; lia).
  apply with_offsets_in in Hin. destruct Hin as (rs1 & rs2 & Ers & ->).
  destruct (file_decomp (S (length file)) file) as (pres & F & E & Hn); [lia|].
  unfold fits in H. rewrite Ers in F, H.
  apply Forall2_app_inv_r in F. destruct F as (pres1 & pres2' & F1 & F2 & ->).
  inversion F2 as [|pre ? pres2 ? (L & L20 & P) F2']; subst.
  apply Forall_app in H. destruct H as [_ H]. inversion H as [|? ? Hr _]; subst.
  rewrite E. rewrite concat_app. cbn [concat]. rewrite <- !app_assoc.
  rewrite Nat.add_0_l, <- (rec_bytes_total _ _ F1).
  unfold lr_undo_read. rewrite read_log_at by (destruct pre; [cbn in L20; lia|discriminate]).
  rewrite firstn_app, firstn_all2 by lia. rewrite P. reflexivity.
Qed.

(** * (e) a buffer smaller than a record (the seeded regression: Undo read 4096 bytes) *)

Definition ex_begin (lsn txn : Z) : lrec_full := mkF 20 lsn txn (-1) lr_begin FNone [].
Definition ex_commit (lsn txn prev : Z) : lrec_full := mkF 20 lsn txn prev lr_commit FNone [].
Definition ex_update (lsn txn prev : Z) (pid slot : N) (o n : list N) : lrec_full :=
  mkF (36 + lenN o + lenN n) lsn txn prev lr_update (FUpdate pid slot o n) [].
Definition ex_big : lrec_full := ex_update 1 7 0 3 0 (repeat 1%N 2500) (repeat 2%N 2500).
Definition ex_big_log : list N := concat (map ser_rec [ex_begin 0 7; ex_big; ex_commit 2 7 1]).

Lemma small_buffer_refuted :
  fst (parse_all ex_big_log) = [ex_begin 0 7; ex_big; ex_commit 2 7 1] /\
  lr_rec_len ex_big = 5036 /\
  (* a buffer of 5036 bytes: everything is read *)
  lr_redo_scan 5036 (S (length ex_big_log)) ex_big_log =
    [(0, ex_begin 0 7); (20, ex_big); (5056, ex_commit 2 7 1)] /\
  lr_undo_read 5036 ex_big_log 20 = Some ex_big /\
  (* a buffer of 4096 bytes: Undo gets no record at offset 20, Redo stops after BEGIN *)
  lr_undo_read 4096 ex_big_log 20 = None /\
  lr_redo_scan 4096 (S (length ex_big_log)) ex_big_log = [(0, ex_begin 0 7)].
Proof. vm_compute. repeat split; reflexivity. Qed.
