(** Proofs about the trace checker of Model/WalTrace.v: what [wal_ok] implies, and the
    buffer swap of the log manager. *)
From Coq Require Import List NArith ZArith Lia Bool.
From Coq Require Import ZifyBool ZifyN ZifyNat.
From SDB Require Import Base.Bytes Base.Assoc Params Model.Wal Model.LogCodec Model.WalTrace
                        Proofs.BytesProofs Proofs.LogCodecProofs.
Import ListNotations.
Open Scope N_scope.

Ltac Zify.zify_post_hook ::= Z.div_mod_to_equations.

(** * Small facts *)

Lemma wt_memN_In x l : memN x l = true <-> In x l.
Proof.
  induction l as [|y l IH]; cbn; [split; [discriminate|tauto]|].
  rewrite orb_true_iff, IH. rewrite N.eqb_eq. tauto.
Qed.

Lemma wt_aget_aset {A} (m : list (N * A)) k v k' :
  aget (aset m k v) k' = if k =? k' then Some v else aget m k'.
Proof.
  induction m as [|[k0 v0] m IH]; cbn [aset aget].
  - reflexivity.
  - destruct (N.eqb_spec k0 k) as [->|Hne]; cbn [aget].
    + destruct (k =? k'); reflexivity.
    + rewrite IH. destruct (N.eqb_spec k0 k'); destruct (N.eqb_spec k k'); try reflexivity. lia.
Qed.

Lemma tracked_app a b : tracked (a ++ b) = tracked a ++ tracked b.
Proof. unfold tracked. apply flat_map_app. Qed.

Lemma commits_of_app a b : commits_of (a ++ b) = commits_of a ++ commits_of b.
Proof. unfold commits_of. apply flat_map_app. Qed.

Lemma commits_of_In t l : In t (commits_of l) <-> exists r, In r l /\ l_txn r = t /\ l_kind r = KCommit.
Proof.
  unfold commits_of. rewrite in_flat_map. split.
  - intros (r & Hin & H). exists r. destruct (l_kind r); cbn in H; try contradiction.
    destruct H as [H|[]]. auto.
  - intros (r & Hin & Ht & Hk). exists r. split; [exact Hin|]. rewrite Hk. cbn. auto.
Qed.

(** * LSN order *)

Definition optval (o : option N) : N := match o with Some n => n | None => 0 end.

Lemma last_after_app last a b : last_after last (a ++ b) = last_after (last_after last a) b.
Proof. unfold last_after. apply fold_left_app. Qed.

Lemma lsns_ok_from_app a : forall last b,
  lsns_ok_from last (a ++ b) = lsns_ok_from last a && lsns_ok_from (last_after last a) b.
Proof.
  induction a as [|r a IH]; intros last b; cbn [app lsns_ok_from].
  - reflexivity.
  - unfold last_after. cbn [fold_left]. fold (last_after (if has_lsn (l_kind r) then Some (l_lsn r) else last) a).
    destruct (has_lsn (l_kind r)).
    + rewrite IH. rewrite andb_assoc. reflexivity.
    + apply IH.
Qed.

Lemma lsns_ok_lower l : forall n, lsns_ok_from (Some n) l = true ->
  forall r, In r l -> has_lsn (l_kind r) = true -> n < l_lsn r.
Proof.
  induction l as [|x l IH]; intros n H r Hin Hl; [destruct Hin|].
  cbn [lsns_ok_from] in H. destruct Hin as [->|Hin].
  - rewrite Hl in H. apply andb_prop in H. destruct H as [H _]. lia.
  - destruct (has_lsn (l_kind x)).
    + apply andb_prop in H. destruct H as [H1 H2].
      specialize (IH _ H2 r Hin Hl). lia.
    + exact (IH _ H r Hin Hl).
Qed.

Lemma lsns_ok_incr l : forall last, lsns_ok_from last l = true -> lsns_increasing l.
Proof.
  induction l as [|x l IH]; intros last H i j ri rj Hij Hi Hj Li Lj.
  - destruct i; discriminate.
  - destruct j as [|j]; [lia|]. cbn [nth_error] in Hj.
    cbn [lsns_ok_from] in H.
    destruct i as [|i].
    + cbn in Hi. inversion Hi; subst x. rewrite Li in H.
      apply andb_prop in H. destruct H as [_ H].
      apply (lsns_ok_lower _ _ H). { eapply nth_error_In; eauto. } exact Lj.
    + cbn [nth_error] in Hi.
      destruct (has_lsn (l_kind x)).
      * apply andb_prop in H. destruct H as [_ H].
        apply (IH _ H i j ri rj); auto. lia.
      * apply (IH _ H i j ri rj); auto. lia.
Qed.

Lemma max_lsn_sorted l : forall last m, m = optval last -> lsns_ok_from last l = true ->
  fold_left (fun m r => if has_lsn (l_kind r) then N.max m (l_lsn r) else m) l m = optval (last_after last l).
Proof.
  induction l as [|x l IH]; intros last m Hm H.
  - exact Hm.
  - cbn [lsns_ok_from] in H. unfold last_after. cbn [fold_left].
    fold (last_after (if has_lsn (l_kind x) then Some (l_lsn x) else last) l).
    destruct (has_lsn (l_kind x)).
    + apply andb_prop in H. destruct H as [H1 H2]. apply IH; [|exact H2].
      cbn [optval]. destruct last as [n|]; cbn [optval] in Hm; lia.
    + apply IH; assumption.
Qed.

Lemma max_lsn_last l : lsns_ok_from None l = true -> max_lsn l = optval (last_after None l).
Proof. intros H. unfold max_lsn. apply max_lsn_sorted; [reflexivity|exact H]. Qed.

(** * Chains *)

Lemma lastof_after_app a b lo : lastof_after (a ++ b) lo = lastof_after b (lastof_after a lo).
Proof. unfold lastof_after. apply fold_left_app. Qed.

Lemma chains_ok_from_app a : forall lo b,
  chains_ok_from (a ++ b) lo = chains_ok_from a lo && chains_ok_from b (lastof_after a lo).
Proof.
  induction a as [|r a IH]; intros lo b; cbn [app chains_ok_from].
  - reflexivity.
  - unfold lastof_after. cbn [fold_left].
    fold (lastof_after a (if has_lsn (l_kind r) then aset lo (l_txn r) (l_lsn r) else lo)).
    destruct (has_lsn (l_kind r)).
    + rewrite IH. rewrite andb_assoc. reflexivity.
    + apply IH.
Qed.

Definition prev_from (o : option N) (l : list lrec) (t : N) : option N :=
  fold_left (fun o r => if has_lsn (l_kind r) && (l_txn r =? t) then Some (l_lsn r) else o) l o.

Lemma aget_lastof_after a : forall lo t, aget (lastof_after a lo) t = prev_from (aget lo t) a t.
Proof.
  induction a as [|r a IH]; intros lo t.
  - reflexivity.
  - unfold lastof_after, prev_from. cbn [fold_left].
    fold (lastof_after a (if has_lsn (l_kind r) then aset lo (l_txn r) (l_lsn r) else lo)).
    rewrite IH. unfold prev_from. f_equal.
    destruct (has_lsn (l_kind r)); cbn [andb]; [|reflexivity].
    apply wt_aget_aset.
Qed.

Lemma chains_ok_intact l : chains_ok l = true -> chains_intact l.
Proof.
  unfold chains_ok. intros H a r b -> Hl.
  rewrite chains_ok_from_app in H. apply andb_prop in H. destruct H as [_ H].
  cbn [chains_ok_from] in H. rewrite Hl in H. apply andb_prop in H. destruct H as [H _].
  rewrite aget_lastof_after in H. cbn [aget] in H.
  change (prev_from None a (l_txn r)) with (prev_of a (l_txn r)) in H.
  destruct (l_prev r) as [p|]; destruct (prev_of a (l_txn r)) as [q|]; try discriminate; try reflexivity.
  f_equal. lia.
Qed.

(** * The durable log along a trace *)

Lemma durable_bytes_snoc pre e :
  durable_bytes (pre ++ [e]) =
  match e with TLog b => durable_bytes pre ++ b | TTrunc => [] | _ => durable_bytes pre end.
Proof. unfold durable_bytes. rewrite fold_left_app. cbn [fold_left]. destruct e; reflexivity. Qed.

Lemma durable_log_same pre e : durable_bytes (pre ++ [e]) = durable_bytes pre ->
  durable_log (pre ++ [e]) = durable_log pre /\ durable_left (pre ++ [e]) = durable_left pre.
Proof. unfold durable_log, durable_recs, durable_left. intros ->. auto. Qed.

Lemma durable_log_tlog pre b : durable_left pre = [] ->
  durable_log (pre ++ [TLog b]) = durable_log pre ++ map to_lrec (fst (parse_all b)) /\
  durable_left (pre ++ [TLog b]) = snd (parse_all b).
Proof.
  unfold durable_log, durable_recs, durable_left. intros H.
  rewrite durable_bytes_snoc.
  assert (E : parse_all (durable_bytes pre) = (fst (parse_all (durable_bytes pre)), []))
    by (rewrite <- H; apply surjective_pairing).
  rewrite (parse_all_app _ b _ E). cbn [fst snd]. rewrite map_app. auto.
Qed.

Lemma durable_log_trunc pre : durable_log (pre ++ [TTrunc]) = [] /\ durable_left (pre ++ [TTrunc]) = [].
Proof. unfold durable_log, durable_recs, durable_left. rewrite durable_bytes_snoc. split; reflexivity. Qed.

(** * The invariant of the walk *)

Definition winv (pre : list tev) (s : wst) : Prop :=
  durable_left pre = [] /\
  lsns_ok_from None (durable_log pre) = true /\
  chains_ok (durable_log pre) = true /\
  w_last s = last_after None (durable_log pre) /\
  w_lastof s = lastof_after (durable_log pre) [] /\
  w_tracked s = tracked (durable_log pre) /\
  w_commits s = commits_of (durable_log pre).

Lemma winv_init : winv [] w0.
Proof. unfold winv. repeat split. Qed.

Lemma winv_wf pre s : winv pre s -> log_wellformed pre.
Proof.
  intros (H1 & H2 & H3 & _). split; [exact H1|]. split.
  - eapply lsns_ok_incr; eauto.
  - apply chains_ok_intact; assumption.
Qed.

Lemma wstep_sound pre s e s' : winv pre s -> wstep s e = inl s' ->
  event_ok pre e /\ winv (pre ++ [e]) s'.
Proof.
  intros (I1 & I2 & I3 & I4 & I5 & I6 & I7) H. destruct e as [b|pid plsn| |t]; cbn [wstep event_ok] in *.
  - (* TLog *)
    split; [exact I|].
    destruct (durable_log_tlog pre b I1) as [EL ER].
    destruct (parse_all b) as [rs left] eqn:EP. cbn [fst snd] in *.
    destruct left; [|discriminate].
    destruct (lsns_ok_from (w_last s) (map to_lrec rs)) eqn:C1; cbn [negb] in H; [|discriminate].
    destruct (chains_ok_from (map to_lrec rs) (w_lastof s)) eqn:C2; cbn [negb] in H; [|discriminate].
    inversion H; subst s'; clear H. unfold winv. cbn [w_last w_lastof w_tracked w_commits].
    rewrite EL, ER. repeat split.
    + rewrite lsns_ok_from_app, I2, <- I4. exact C1.
    + unfold chains_ok. rewrite chains_ok_from_app. fold (chains_ok (durable_log pre)).
      rewrite I3, <- I5. exact C2.
    + rewrite last_after_app, <- I4. reflexivity.
    + rewrite lastof_after_app, <- I5. reflexivity.
    + rewrite tracked_app, <- I6. reflexivity.
    + rewrite commits_of_app, <- I7. reflexivity.
  - (* TPage *)
    destruct (memN pid (w_tracked s) && negb (plsn <=? w_max s)) eqn:C; [discriminate|].
    inversion H; subst s'; clear H.
    destruct (durable_log_same pre (TPage pid plsn)) as [EL ER]; [rewrite durable_bytes_snoc; reflexivity|].
    split.
    + intros Hin. rewrite <- I6 in Hin. apply wt_memN_In in Hin. rewrite Hin in C. cbn [andb] in C.
      rewrite max_lsn_last by exact I2. rewrite <- I4. unfold w_max in C. unfold optval.
      destruct (w_last s); lia.
    + unfold winv. rewrite EL, ER. repeat split; assumption.
  - (* TTrunc *)
    inversion H; subst s'; clear H. split; [exact I|].
    destruct (durable_log_trunc pre) as [EL ER].
    unfold winv. rewrite EL, ER. repeat split.
  - (* TCommitRet *)
    destruct (memN t (w_commits s)) eqn:C; [|discriminate].
    inversion H; subst s'; clear H.
    destruct (durable_log_same pre (TCommitRet t)) as [EL ER]; [rewrite durable_bytes_snoc; reflexivity|].
    split.
    + apply wt_memN_In in C. rewrite I7 in C. apply commits_of_In in C. exact C.
    + unfold winv. rewrite EL, ER. repeat split; assumption.
Qed.

Lemma wrun_sound tr : forall pre s idx, winv pre s -> wrun s tr idx = None ->
  forall p q, tr = p ++ q ->
    log_wellformed (pre ++ p) /\
    (forall e q', q = e :: q' -> event_ok (pre ++ p) e).
Proof.
  induction tr as [|e tr IH]; intros pre s idx I H p q E.
  - destruct p; [|discriminate]. cbn in E. subst q. rewrite app_nil_r. split.
    + eapply winv_wf; eauto.
    + intros; discriminate.
  - cbn [wrun] in H. destruct (wstep s e) as [s'|v] eqn:ES; [|discriminate].
    destruct (wstep_sound _ _ _ _ I ES) as [Hev I'].
    destruct p as [|e' p].
    + cbn in E. subst q. rewrite app_nil_r. split.
      * eapply winv_wf; eauto.
      * intros e0 q' E0. inversion E0; subst. exact Hev.
    + cbn in E. inversion E; subst e' tr.
      replace (pre ++ e :: p) with ((pre ++ [e]) ++ p) by (rewrite <- app_assoc; reflexivity).
      eapply IH; eauto.
Qed.

Lemma wal_ok_all tr : wal_ok tr = true ->
  forall p q, tr = p ++ q ->
    log_wellformed p /\ (forall e q', q = e :: q' -> event_ok p e).
Proof.
  unfold wal_ok, wal_violation. destruct (wrun w0 tr 0) eqn:E; [discriminate|]. intros _ p q Ht.
  exact (wrun_sound tr [] w0 0 winv_init E p q Ht).
Qed.

Lemma wal_ok_sound_lemma tr : wal_ok tr = true ->
  (forall pre post, tr = pre ++ post -> log_wellformed pre) /\
  (forall pre pid plsn post, tr = pre ++ TPage pid plsn :: post ->
     In pid (tracked (durable_log pre)) -> plsn <= max_lsn (durable_log pre)) /\
  (forall pre t post, tr = pre ++ TCommitRet t :: post ->
     exists r, In r (durable_log pre) /\ l_txn r = t /\ l_kind r = KCommit).
Proof.
  intros H. split; [|split].
  - intros pre post E. exact (proj1 (wal_ok_all tr H pre post E)).
  - intros pre pid plsn post E.
    exact (proj2 (wal_ok_all tr H pre _ E) _ _ eq_refl).
  - intros pre t post E.
    exact (proj2 (wal_ok_all tr H pre _ E) _ _ eq_refl).
Qed.

(** * The buffer swap *)

Lemma payloads_app a b : payloads (a ++ b) = payloads a ++ payloads b.
Proof. unfold payloads. apply flat_map_app. Qed.

Lemma lm_flush_if_spec c buf : payloads (snd (lm_flush_if c buf)) ++ fst (lm_flush_if c buf) = buf.
Proof. unfold lm_flush_if. destruct c; cbn; rewrite ?app_nil_r; reflexivity. Qed.

Lemma lm_step_spec buf s :
  payloads (snd (lm_step buf s)) ++ fst (lm_step buf s) =
  buf ++ match s with LAppend r => ser_rec r | LFlush => [] end.
Proof.
  destruct s as [r|]; cbn [lm_step].
  - pose proof (lm_flush_if_spec (log_buffer_size - lenN buf <? log_header_size) buf) as H1.
    destruct (lm_flush_if (log_buffer_size - lenN buf <? log_header_size) buf) as [b1 e1].
    pose proof (lm_flush_if_spec (log_buffer_size - lenN b1 <? f_size r) b1) as H2.
    destruct (lm_flush_if (log_buffer_size - lenN b1 <? f_size r) b1) as [b2 e2].
    cbn [fst snd] in *. rewrite payloads_app. rewrite <- H1, <- H2.
    rewrite <- !app_assoc. reflexivity.
  - cbn. rewrite !app_nil_r. reflexivity.
Qed.

Lemma lm_run_spec ss : forall buf,
  payloads (snd (lm_run buf ss)) ++ fst (lm_run buf ss) = buf ++ concat (map ser_rec (appended ss)).
Proof.
  induction ss as [|s ss IH]; intros buf; cbn [lm_run].
  - cbn. rewrite app_nil_r. reflexivity.
  - pose proof (lm_step_spec buf s) as H1.
    destruct (lm_step buf s) as [b1 e1]. specialize (IH b1).
    destruct (lm_run b1 ss) as [b2 e2]. cbn [fst snd] in *.
    rewrite payloads_app, <- app_assoc, IH, app_assoc, H1.
    unfold appended. cbn [flat_map]. fold (appended ss).
    destruct s; cbn [app map concat]; rewrite <- ?app_assoc, ?app_nil_r; reflexivity.
Qed.

Lemma flush_contiguous ss :
  payloads (snd (lm_run [] ss)) ++ fst (lm_run [] ss) = concat (map ser_rec (appended ss)).
Proof. exact (lm_run_spec ss []). Qed.

(** every WriteLog call ends at a record boundary: what has been written so far is the
    serialisation of a prefix of the appended records, the buffer holds the rest *)
Definition whole (bytes : list N) (rs : list lrec_full) : Prop := bytes = concat (map ser_rec rs).

Lemma concat_map_app (a b : list lrec_full) :
  concat (map ser_rec (a ++ b)) = concat (map ser_rec a) ++ concat (map ser_rec b).
Proof. rewrite map_app, concat_app. reflexivity. Qed.

(** invariant: written = ser(done), buffer = ser(pend) *)
Lemma lm_step_whole buf s done pend w :
  whole w done -> whole buf pend ->
  exists done' pend',
    done' ++ pend' = done ++ pend ++ match s with LAppend r => [r] | LFlush => [] end /\
    whole (w ++ payloads (snd (lm_step buf s))) done' /\
    whole (fst (lm_step buf s)) pend'.
Proof.
  unfold whole. intros Hw Hb. destruct s as [r|]; cbn [lm_step].
  - set (c1 := log_buffer_size - lenN buf <? log_header_size).
    destruct c1; cbn [lm_flush_if].
    + (* flushed once: buffer empty *)
      set (c2 := log_buffer_size - lenN [] <? f_size r).
      destruct c2; cbn [lm_flush_if fst snd].
      * exists (done ++ pend), [r]. rewrite <- app_assoc. split; [reflexivity|].
        cbn. rewrite !app_nil_r. rewrite concat_map_app. subst. auto.
      * exists (done ++ pend), [r]. rewrite <- app_assoc. split; [reflexivity|].
        cbn. rewrite !app_nil_r. rewrite concat_map_app. subst. auto.
    + set (c2 := log_buffer_size - lenN buf <? f_size r).
      destruct c2; cbn [lm_flush_if fst snd].
      * exists (done ++ pend), [r]. rewrite <- app_assoc. split; [reflexivity|].
        cbn. rewrite !app_nil_r. rewrite concat_map_app. subst. auto.
      * exists done, (pend ++ [r]). split; [reflexivity|].
        cbn. rewrite !app_nil_r. rewrite concat_map_app. cbn. rewrite app_nil_r. subst. auto.
  - exists (done ++ pend), []. cbn [fst snd]. rewrite !app_nil_r. split; [reflexivity|].
    cbn. rewrite app_nil_r. rewrite concat_map_app. subst. auto.
Qed.

Lemma lm_run_whole ss : forall buf done pend w,
  whole w done -> whole buf pend ->
  exists done' pend',
    done' ++ pend' = done ++ pend ++ appended ss /\
    whole (w ++ payloads (snd (lm_run buf ss))) done' /\
    whole (fst (lm_run buf ss)) pend'.
Proof.
  induction ss as [|s ss IH]; intros buf done pend w Hw Hb; cbn [lm_run].
  - exists done, pend. cbn. rewrite !app_nil_r. auto.
  - destruct (lm_step_whole buf s done pend w Hw Hb) as (d1 & p1 & E1 & W1 & B1).
    destruct (lm_step buf s) as [b1 e1]. cbn [fst snd] in *.
    destruct (IH b1 d1 p1 _ W1 B1) as (d2 & p2 & E2 & W2 & B2).
    destruct (lm_run b1 ss) as [b2 e2]. cbn [fst snd] in *.
    exists d2, p2. split; [|split].
    + rewrite E2. rewrite app_assoc, E1. unfold appended. cbn [flat_map]. fold (appended ss).
      destruct s; rewrite <- !app_assoc; reflexivity.
    + rewrite payloads_app, app_assoc. exact W2.
    + exact B2.
Qed.

Lemma flush_whole_records ss :
  exists done pend, appended ss = done ++ pend /\
    payloads (snd (lm_run [] ss)) = concat (map ser_rec done) /\
    fst (lm_run [] ss) = concat (map ser_rec pend).
Proof.
  destruct (lm_run_whole ss [] [] [] [] eq_refl eq_refl) as (d & p & E & W & B).
  exists d, p. cbn in E, W. auto.
Qed.

(** so, for well-formed records, the log file parses completely after every flush *)
Lemma flush_log_parses ss : Forall wf_rec (appended ss) ->
  exists done pend, appended ss = done ++ pend /\
    parse_all (payloads (snd (lm_run [] ss))) = (done, []).
Proof.
  intros H. destruct (flush_whole_records ss) as (d & p & E & W & _).
  exists d, p. split; [exact E|]. rewrite W. apply roundtrip.
  rewrite E in H. apply Forall_app in H. tauto.
Qed.

(** * Completeness: the checker rejects only traces that violate the declarative discipline *)

Lemma lsns_incr_tail x l : lsns_increasing (x :: l) -> lsns_increasing l.
Proof.
  intros H i j ri rj Hij Hi Hj Li Lj.
  apply (H (S i) (S j) ri rj); auto. lia.
Qed.

Lemma lsns_incr_ok l : forall last,
  (forall n r, last = Some n -> In r l -> has_lsn (l_kind r) = true -> n < l_lsn r) ->
  lsns_increasing l -> lsns_ok_from last l = true.
Proof.
  induction l as [|x l IH]; intros last Hlow Hinc; [reflexivity|].
  cbn [lsns_ok_from]. destruct (has_lsn (l_kind x)) eqn:Lx.
  - apply andb_true_intro. split.
    + destruct last as [n|]; [|reflexivity].
      specialize (Hlow n x eq_refl (or_introl eq_refl) Lx). lia.
    + apply IH; [|eapply lsns_incr_tail; eauto].
      intros n r E Hin Lr. inversion E; subst n.
      destruct (In_nth_error _ _ Hin) as [j Hj].
      apply (Hinc O (S j) x r); auto. lia.
  - apply IH; [|eapply lsns_incr_tail; eauto].
    intros n r E Hin Lr. apply (Hlow n r E); auto. right; exact Hin.
Qed.

Lemma chains_intact_ok l : chains_intact l -> chains_ok l = true.
Proof.
  induction l as [|r l IH] using rev_ind; intros H; [reflexivity|].
  unfold chains_ok in *. rewrite chains_ok_from_app. apply andb_true_intro. split.
  - apply IH. intros a r0 b E L. apply (H a r0 (b ++ [r])); [|exact L].
    rewrite E. rewrite <- app_assoc. reflexivity.
  - cbn [chains_ok_from]. destruct (has_lsn (l_kind r)) eqn:L; [|reflexivity].
    rewrite andb_true_r. rewrite aget_lastof_after. cbn [aget].
    change (prev_from None l (l_txn r)) with (prev_of l (l_txn r)).
    rewrite (H l r [] eq_refl L).
    destruct (prev_of l (l_txn r)); [apply N.eqb_refl | reflexivity].
Qed.

Lemma wf_winv_parts pre : log_wellformed pre ->
  durable_left pre = [] /\ lsns_ok_from None (durable_log pre) = true /\ chains_ok (durable_log pre) = true.
Proof.
  intros (H1 & H2 & H3). split; [exact H1|]. split.
  - apply lsns_incr_ok; [intros; discriminate | exact H2].
  - apply chains_intact_ok; exact H3.
Qed.

Lemma wstep_complete pre s e : winv pre s -> log_wellformed (pre ++ [e]) -> event_ok pre e ->
  exists s', wstep s e = inl s'.
Proof.
  intros (I1 & I2 & I3 & I4 & I5 & I6 & I7) Hwf Hev.
  destruct (wf_winv_parts _ Hwf) as (W1 & W2 & W3).
  destruct e as [b|pid plsn| |t]; cbn [wstep event_ok] in *.
  - destruct (durable_log_tlog pre b I1) as [EL ER]. rewrite EL in W2, W3. rewrite ER in W1.
    destruct (parse_all b) as [rs left]. cbn [fst snd] in *. subst left.
    rewrite lsns_ok_from_app in W2. apply andb_prop in W2. destruct W2 as [_ W2].
    unfold chains_ok in W3. rewrite chains_ok_from_app in W3. apply andb_prop in W3. destruct W3 as [_ W3].
    rewrite <- I4 in W2. rewrite <- I5 in W3. rewrite W2, W3. cbn [negb]. eauto.
  - destruct (memN pid (w_tracked s)) eqn:C; cbn [andb]; [|eauto].
    apply wt_memN_In in C. rewrite I6 in C. specialize (Hev C).
    rewrite max_lsn_last in Hev by exact I2. rewrite <- I4 in Hev.
    unfold w_max. unfold optval in Hev.
    destruct (N.leb_spec plsn match w_last s with Some n => n | None => 0 end); cbn [negb]; [eauto|lia].
  - eauto.
  - destruct Hev as (r & Hin & Ht & Hk).
    assert (C : memN t (w_commits s) = true).
    { apply wt_memN_In. rewrite I7. apply commits_of_In. eauto. }
    rewrite C. eauto.
Qed.

Lemma wrun_complete tr : forall pre s idx, winv pre s ->
  (forall p q, tr = p ++ q -> log_wellformed (pre ++ p) /\ (forall e q', q = e :: q' -> event_ok (pre ++ p) e)) ->
  wrun s tr idx = None.
Proof.
  induction tr as [|e tr IH]; intros pre s idx I H; [reflexivity|].
  cbn [wrun].
  destruct (H [] (e :: tr) eq_refl) as [_ Hev]. rewrite app_nil_r in Hev. specialize (Hev e tr eq_refl).
  destruct (H [e] tr eq_refl) as [Hwf _].
  destruct (wstep_complete pre s e I Hwf Hev) as [s' ES]. rewrite ES.
  destruct (wstep_sound _ _ _ _ I ES) as [_ I'].
  apply (IH (pre ++ [e]) s' (idx + 1) I').
  intros p q E. subst tr. rewrite <- app_assoc. apply (H (e :: p) q). reflexivity.
Qed.

Lemma wal_ok_complete_lemma tr :
  (forall p q, tr = p ++ q -> log_wellformed p /\ (forall e q', q = e :: q' -> event_ok p e)) ->
  wal_ok tr = true.
Proof.
  intros H. unfold wal_ok, wal_violation.
  rewrite (wrun_complete tr [] w0 0 winv_init); [reflexivity|]. exact H.
Qed.

Lemma wal_ok_iff_lemma tr :
  wal_ok tr = true <->
  (forall p q, tr = p ++ q -> log_wellformed p /\ (forall e q', q = e :: q' -> event_ok p e)).
Proof. split; [apply wal_ok_all | apply wal_ok_complete_lemma]. Qed.
