(** Proofs about the temporary tuple page of the hash join (Model/TmpPage.v):
    records once inserted are never damaged by later inserts, the free-space
    pointer always decodes to the true boundary, the room check is exact, the
    executor's spill loop stores every tuple that fits an empty page (and what
    exactly it does with one that does not), and the "+4" of the room check is
    necessary. *)
From Coq Require Import List NArith ZArith Bool Lia PeanoNat.
From Coq Require Import ZifyBool ZifyN ZifyNat.
From SDB Require Import Params Base.Bytes Proofs.BytesProofs Model.TmpPage.
Import ListNotations.
Open Scope N_scope.

Ltac Zify.zify_post_hook ::= Z.div_mod_to_equations.

(** * Lists by positions *)

Lemma tp_nth_ext {A} (l1 l2 : list A) :
  (forall i, nth_error l1 i = nth_error l2 i) -> l1 = l2.
Proof.
  revert l2; induction l1 as [|x l1 IH]; intros [|y l2] H; try reflexivity.
  - specialize (H 0%nat); discriminate.
  - specialize (H 0%nat); discriminate.
  - f_equal.
    + specialize (H 0%nat); cbn in H; congruence.
    + apply IH; intro i; apply (H (S i)).
Qed.

Lemma tp_nth_nil {A} i : nth_error (@nil A) i = None.
Proof. destruct i; reflexivity. Qed.

Lemma tp_nth_firstn {A} (l : list A) n i :
  nth_error (firstn n l) i = if (i <? n)%nat then nth_error l i else None.
Proof.
  revert l i; induction n as [|n IH]; intros l i.
  - cbn. apply tp_nth_nil.
  - destruct l as [|x l]; [cbn [firstn]; rewrite tp_nth_nil; destruct (i <? S n)%nat; reflexivity|].
    destruct i as [|i]; [reflexivity|].
    cbn [firstn nth_error]. rewrite IH. reflexivity.
Qed.

Lemma tp_nth_skipn {A} (l : list A) a i : nth_error (skipn a l) i = nth_error l (a + i).
Proof.
  revert l; induction a as [|a IH]; intros l; [reflexivity|].
  destruct l as [|x l]; [cbn; now rewrite tp_nth_nil|]. cbn. apply IH.
Qed.

Lemma tp_nth_app {A} (l1 l2 : list A) i :
  nth_error (l1 ++ l2) i =
  if (i <? length l1)%nat then nth_error l1 i else nth_error l2 (i - length l1).
Proof.
  destruct (Nat.ltb_spec i (length l1)).
  - now apply nth_error_app1.
  - now apply nth_error_app2.
Qed.

Lemma tp_nth_beyond {A} (l : list A) i : (length l <= i)%nat -> nth_error l i = None.
Proof. apply nth_error_None. Qed.

Lemma tp_nth_slice p a n i :
  nth_error (tp_slice p a n) i = if (i <? n)%nat then nth_error p (a + i) else None.
Proof. unfold tp_slice. rewrite tp_nth_firstn, tp_nth_skipn. reflexivity. Qed.

Lemma tp_write_length p off bs : (off <= length p)%nat -> length (tp_write p off bs) = length p.
Proof.
  intros H. unfold tp_write.
  rewrite firstn_length, !app_length, firstn_length, skipn_length. lia.
Qed.

Lemma tp_nth_write p off bs i : (off <= length p)%nat ->
  nth_error (tp_write p off bs) i =
  if (i <? length p)%nat then
    if (i <? off)%nat then nth_error p i
    else if (i <? off + length bs)%nat then nth_error bs (i - off)
    else nth_error p i
  else None.
Proof.
  intros H. unfold tp_write.
  rewrite tp_nth_firstn.
  destruct (Nat.ltb_spec i (length p)) as [Hi|Hi]; [|reflexivity].
  rewrite tp_nth_app, firstn_length, tp_nth_firstn.
  replace (Nat.min off (length p)) with off by lia.
  destruct (Nat.ltb_spec i off) as [Ho|Ho]; [reflexivity|].
  rewrite tp_nth_app.
  destruct (Nat.ltb_spec (i - off) (length bs)) as [Hb|Hb];
    destruct (Nat.ltb_spec i (off + length bs)) as [Hb'|Hb']; try lia; [reflexivity|].
  rewrite tp_nth_skipn. f_equal. lia.
Qed.

(** a write does not touch what lies outside the written range *)
Lemma tp_slice_write_disjoint p off bs a n : (off <= length p)%nat ->
  (a + n <= off \/ off + length bs <= a)%nat ->
  tp_slice (tp_write p off bs) a n = tp_slice p a n.
Proof.
  intros H Hd. apply tp_nth_ext; intro i.
  rewrite !tp_nth_slice.
  destruct (Nat.ltb_spec i n) as [Hi|Hi]; [|reflexivity].
  rewrite tp_nth_write by assumption.
  destruct (Nat.ltb_spec (a + i) (length p)) as [Hp|Hp].
  - destruct (Nat.ltb_spec (a + i) off); [reflexivity|].
    destruct (Nat.ltb_spec (a + i) (off + length bs)); [lia|reflexivity].
  - symmetry. now apply tp_nth_beyond.
Qed.

(** ... and what it wrote can be read back, as far as the page reaches *)
Lemma tp_slice_write_prefix p off bs n : (off + n <= length p)%nat -> (n <= length bs)%nat ->
  tp_slice (tp_write p off bs) off n = firstn n bs.
Proof.
  intros H Hn. apply tp_nth_ext; intro i.
  rewrite tp_nth_slice, tp_nth_firstn.
  destruct (Nat.ltb_spec i n) as [Hi|Hi]; [|reflexivity].
  rewrite tp_nth_write by lia.
  destruct (Nat.ltb_spec (off + i) (length p)); [|lia].
  destruct (Nat.ltb_spec (off + i) off); [lia|].
  destruct (Nat.ltb_spec (off + i) (off + length bs)); [|lia].
  f_equal. lia.
Qed.

Lemma tp_slice_write_same p off bs : (off + length bs <= length p)%nat ->
  tp_slice (tp_write p off bs) off (length bs) = bs.
Proof. intros H. rewrite tp_slice_write_prefix by lia. apply firstn_all. Qed.

Lemma tp_slice_app_split p a n1 n2 l1 l2 : length l1 = n1 -> length l2 = n2 ->
  tp_slice p a (n1 + n2) = l1 ++ l2 ->
  tp_slice p a n1 = l1 /\ tp_slice p (a + n1) n2 = l2.
Proof.
  intros H1 H2 H.
  assert (Hn : forall i, nth_error (tp_slice p a (n1 + n2)) i = nth_error (l1 ++ l2) i)
    by (intro i; now rewrite H).
  split; apply tp_nth_ext; intro i; rewrite tp_nth_slice.
  - specialize (Hn i). rewrite tp_nth_slice, tp_nth_app in Hn.
    destruct (Nat.ltb_spec i n1) as [Hi|Hi].
    + destruct (Nat.ltb_spec i (n1 + n2)); [|lia].
      destruct (Nat.ltb_spec i (length l1)); [|lia]. exact Hn.
    + symmetry. apply tp_nth_beyond. lia.
  - specialize (Hn (n1 + i)%nat). rewrite tp_nth_slice, tp_nth_app in Hn.
    destruct (Nat.ltb_spec i n2) as [Hi|Hi].
    + destruct (Nat.ltb_spec (n1 + i) (n1 + n2)); [|lia].
      destruct (Nat.ltb_spec (n1 + i) (length l1)); [lia|].
      replace (n1 + i - length l1)%nat with i in Hn by lia.
      rewrite <- Hn. f_equal. lia.
    + symmetry. apply tp_nth_beyond. lia.
Qed.

Lemma tp_pow256_4 : pow256 4 = tp_w32.
Proof. reflexivity. Qed.

(** * The free-space pointer field *)

Lemma tp_free_set_free p f : (20 <= length p)%nat -> f < tp_w32 ->
  tp_slice (tp_set_free p f) tp_off_free 4 = le 4 f /\ tp_free (tp_set_free p f) = f.
Proof.
  intros Hl Hf. unfold tp_free, tp_set_free.
  assert (E : tp_slice (tp_write p tp_off_free (le 4 f)) tp_off_free 4 = le 4 f).
  { pose proof (tp_slice_write_same p tp_off_free (le 4 f)) as H.
    rewrite le_length in H. apply H. unfold tp_off_free. lia. }
  rewrite E. split; [reflexivity|]. apply le_dec_le. now rewrite tp_pow256_4.
Qed.

Lemma tp_set_free_length p f : (20 <= length p)%nat -> length (tp_set_free p f) = length p.
Proof. intros H. unfold tp_set_free. apply tp_write_length. unfold tp_off_free. lia. Qed.

Lemma tp_set_free_other p f a n : (20 <= length p)%nat -> (a + n <= 16 \/ 20 <= a)%nat ->
  tp_slice (tp_set_free p f) a n = tp_slice p a n.
Proof.
  intros H Hd. unfold tp_set_free. apply tp_slice_write_disjoint.
  - unfold tp_off_free; lia.
  - rewrite le_length. unfold tp_off_free. lia.
Qed.

(** * Well-formed pages and the records they hold *)

(** [tp_wf]: 4096 bytes, the pointer field holds the encoding of a value in
    [20, 4096]. *)
Definition tp_wf (p : list N) : Prop :=
  length p = 4096%nat /\ 20 <= tp_free p <= 4096 /\ tp_slice p tp_off_free 4 = le 4 (tp_free p).

(** [tp_has p o d]: the record (size field, then [d]) stands at offset [o],
    inside the used area [free, 4096). *)
Definition tp_has (p : list N) (o : N) (d : list N) : Prop :=
  tp_free p <= o /\ o + 4 + N.of_nat (length d) <= 4096 /\
  tp_slice p (N.to_nat o) (4 + length d) = le 4 (N.of_nat (length d)) ++ d.

Lemma tp_init_page_facts p pid : length p = 4096%nat ->
  tp_wf (tp_init_page p pid) /\ tp_free (tp_init_page p pid) = 4096 /\
  tp_slice (tp_init_page p pid) 0 4 = le 4 pid /\
  (forall a n, (4 <= a)%nat -> (a + n <= 16 \/ 20 <= a)%nat ->
     tp_slice (tp_init_page p pid) a n = tp_slice p a n).
Proof.
  intros Hl. unfold tp_init_page, tp_size, page_size.
  set (p0 := tp_write p 0 (le 4 pid)).
  assert (Hl0 : length p0 = 4096%nat) by (unfold p0; rewrite tp_write_length; lia).
  destruct (tp_free_set_free p0 4096) as [E1 E2]; [lia|unfold tp_w32; lia|].
  repeat split.
  - rewrite tp_set_free_length; lia.
  - rewrite E2; lia.
  - rewrite E2; lia.
  - rewrite E2. exact E1.
  - exact E2.
  - rewrite tp_set_free_other by lia. unfold p0.
    pose proof (tp_slice_write_same p 0 (le 4 pid)) as H. rewrite le_length in H.
    apply H. lia.
  - intros a n Ha Hd. rewrite tp_set_free_other by lia. unfold p0.
    apply tp_slice_write_disjoint; [lia|]. rewrite le_length. lia.
Qed.

Lemma tp_zeros_length n : length (zeros n) = n.
Proof. apply zeros_length. Qed.

Lemma tp_init_wf pid : tp_wf (tp_init pid) /\ tp_free (tp_init pid) = 4096.
Proof.
  unfold tp_init. pose proof (tp_init_page_facts (zeros (N.to_nat tp_size)) pid) as H.
  rewrite zeros_length in H. specialize (H eq_refl). tauto.
Qed.

Lemma tp_sub32 f need : need <= f -> f < tp_w32 -> (f + tp_w32 - need) mod tp_w32 = f - need.
Proof.
  intros H1 H2. replace (f + tp_w32 - need) with ((f - need) + 1 * tp_w32) by lia.
  rewrite N.mod_add by (unfold tp_w32; lia). apply N.mod_small. lia.
Qed.

(** * Insert, in closed form *)

(** On a well-formed page, for a tuple whose size arithmetic does not wrap,
    Insert is: refuse iff [free < 4 + len + 20]; otherwise move the pointer
    down by [4 + len] and write the record there.  No panic. *)
Lemma tp_insert_go_eq p d : tp_wf p -> tp_nowrap d ->
  tp_insert_go p d =
    if tp_free p <? 4 + N.of_nat (length d) + 20 then TpFull
    else TpOk (tp_write (tp_set_free p (tp_free p - (4 + N.of_nat (length d))))
                        (N.to_nat (tp_free p - (4 + N.of_nat (length d))))
                        (le 4 (N.of_nat (length d)) ++ d))
              (tp_free p - (4 + N.of_nat (length d))).
Proof.
  intros (Hl & Hf & Henc) Hnw. unfold tp_nowrap, tp_w32 in Hnw.
  cbv beta zeta delta [tp_insert_go tp_insert_gen].
  set (n := N.of_nat (length d)) in *.
  set (f := tp_free p) in *.
  assert (E1 : n mod tp_w32 = n) by (apply N.mod_small; unfold tp_w32; lia).
  rewrite !E1.
  assert (E2 : (4 + n) mod tp_w32 = 4 + n) by (apply N.mod_small; unfold tp_w32; lia).
  rewrite !E2.
  assert (E3 : (4 + n + tp_hdr) mod tp_w32 = 4 + n + 20)
    by (unfold tp_hdr; apply N.mod_small; unfold tp_w32; lia).
  rewrite E3. clear E1 E2 E3.
  destruct (N.ltb_spec f (4 + n + 20)) as [Hc|Hc]; [reflexivity|].
  assert (E4 : (f + tp_w32 - (4 + n)) mod tp_w32 = f - (4 + n))
    by (apply tp_sub32; unfold tp_w32; lia).
  rewrite !E4. clear E4.
  set (f' := f - (4 + n)).
  assert (E5 : tp_size <? f' = false) by (unfold tp_size, page_size, f'; lia).
  assert (E6 : tp_size - f' <? 4 = false) by (unfold tp_size, page_size, f'; lia).
  rewrite E5, E6.
  assert (E7 : firstn (N.to_nat n) d = d) by (unfold n; rewrite Nat2N.id; apply firstn_all).
  rewrite E7.
  f_equal.
  (* the offset read back from the page is f' *)
  unfold tp_free at 1.
  rewrite tp_slice_write_disjoint.
  - destruct (tp_free_set_free p f') as [Ea _]; [lia|unfold tp_w32, f'; lia|].
    rewrite Ea. apply le_dec_le. rewrite tp_pow256_4. unfold tp_w32, f'; lia.
  - rewrite tp_set_free_length by lia. unfold f'. lia.
  - left. unfold tp_off_free, f'. lia.
Qed.

Lemma tp_insert_ok p d p' o : tp_wf p -> tp_nowrap d -> tp_insert_go p d = TpOk p' o ->
  tp_wf p' /\ tp_free p' = o /\ o + 4 + N.of_nat (length d) = tp_free p /\
  tp_has p' o d /\
  (forall o0 d0, tp_has p o0 d0 -> tp_has p' o0 d0) /\
  tp_slice p' 0 16 = tp_slice p 0 16.
Proof.
  intros Hwf Hnw H. rewrite tp_insert_go_eq in H by assumption.
  destruct Hwf as (Hl & Hf & Henc).
  set (n := N.of_nat (length d)) in *.
  set (f := tp_free p) in *.
  destruct (N.ltb_spec f (4 + n + 20)) as [Hc|Hc]; [discriminate|].
  set (f' := f - (4 + n)) in *.
  set (p1 := tp_set_free p f') in *.
  set (rec := le 4 n ++ d) in *.
  injection H as Hp Ho.
  assert (Hl1 : length p1 = 4096%nat) by (unfold p1; rewrite tp_set_free_length; lia).
  assert (Hrec : length rec = (4 + length d)%nat)
    by (unfold rec; rewrite app_length, le_length; reflexivity).
  assert (Hw32 : f' < tp_w32) by (unfold tp_w32, f'; lia).
  destruct (tp_free_set_free p f') as [Ea Eb]; [lia|exact Hw32|]. fold p1 in Ea, Eb.
  assert (Hoff : (N.to_nat f' <= length p1)%nat) by (unfold f'; lia).
  assert (Hend : (N.to_nat f' + length rec = N.to_nat f)%nat) by (rewrite Hrec; unfold f', n; lia).
  (* the pointer field of p' *)
  assert (Efld : tp_slice p' tp_off_free 4 = le 4 f').
  { rewrite <- Hp, tp_slice_write_disjoint; [exact Ea|exact Hoff|].
    left. unfold tp_off_free, f'. lia. }
  assert (Efree : tp_free p' = f').
  { unfold tp_free. rewrite Efld. apply le_dec_le. now rewrite tp_pow256_4. }
  assert (Hl' : length p' = 4096%nat) by (rewrite <- Hp, tp_write_length; lia).
  repeat split.
  - exact Hl'.
  - rewrite Efree. unfold f'. lia.
  - rewrite Efree. unfold f'. lia.
  - rewrite Efree. exact Efld.
  - rewrite Efree. exact Ho.
  - rewrite <- Ho. unfold f'. lia.
  - rewrite Efree, <- Ho. lia.
  - rewrite <- Ho. unfold f'. fold n. lia.
  - rewrite <- Ho, <- Hp, <- Hrec. fold n. apply tp_slice_write_same. fold rec. lia.
  - destruct H as (Hlo & _). rewrite Efree. fold f in Hlo. unfold f'. lia.
  - apply H.
  - destruct H as (Hlo & Hhi & Hs). fold f in Hlo.
    rewrite <- Hp, tp_slice_write_disjoint; [|exact Hoff|right; lia].
    unfold p1. rewrite tp_set_free_other; [exact Hs|lia|right; lia].
  - rewrite <- Hp, tp_slice_write_disjoint; [|exact Hoff|left; unfold f'; lia].
    unfold p1. apply tp_set_free_other; [lia|left; lia].
Qed.

(** reading a record back: Get never panics on it and returns the data *)
Lemma tp_get_has p o d : length p = 4096%nat -> N.of_nat (length d) < tp_w32 ->
  tp_has p o d -> tp_get p o = d /\ tp_get_go p o = Some d.
Proof.
  intros Hl Hlen (Hlo & Hhi & Hs).
  destruct (tp_slice_app_split p (N.to_nat o) 4 (length d) (le 4 (N.of_nat (length d))) d)
    as [Ha Hb]; [apply le_length|reflexivity|exact Hs|].
  assert (Esz : le_dec (tp_slice p (N.to_nat o) 4) = N.of_nat (length d)).
  { rewrite Ha. apply le_dec_le. now rewrite tp_pow256_4. }
  assert (Eg : tp_get p o = d).
  { unfold tp_get. rewrite Esz, Nat2N.id. exact Hb. }
  split; [exact Eg|].
  unfold tp_get_go. rewrite Esz, Eg.
  assert (E1 : tp_size <? o + 4 = false) by (unfold tp_size, page_size; lia).
  assert (E2 : tp_size <? o + 4 + N.of_nat (length d) = false) by (unfold tp_size, page_size; lia).
  now rewrite E1, E2.
Qed.

(** * The room check is exact; no panic *)

Theorem tp_insert_none_iff_proved : forall p d, tp_wf p -> tp_nowrap d ->
  (tp_insert p d = None <-> tp_free p < 4 + N.of_nat (length d) + 20).
Proof.
  intros p d Hwf Hnw. unfold tp_insert. rewrite tp_insert_go_eq by assumption.
  destruct (N.ltb_spec (tp_free p) (4 + N.of_nat (length d) + 20)); cbn [tp_view]; split;
    intro; try assumption; try reflexivity; try discriminate; lia.
Qed.

Theorem tp_insert_no_panic_proved : forall p d, tp_wf p -> tp_nowrap d -> tp_insert_go p d <> TpPanic.
Proof.
  intros p d Hwf Hnw. rewrite tp_insert_go_eq by assumption.
  destruct (tp_free p <? _); discriminate.
Qed.

Lemma tp_insert_some p d p' o : tp_insert p d = Some (p', o) -> tp_insert_go p d = TpOk p' o.
Proof. unfold tp_insert. destruct (tp_insert_go p d); cbn; congruence. Qed.

(** * The invariant, with the list of records *)

Definition tp_rec_end (r : N * list N) : N := fst r + 4 + N.of_nat (length (snd r)).
Definition tp_disjoint (r1 r2 : N * list N) : Prop :=
  tp_rec_end r1 <= fst r2 \/ tp_rec_end r2 <= fst r1.

(** page length 4096; 20 <= free <= 4096; header bytes 0..15 = [hdr]; bytes
    16..19 = le 4 free; every record of [recs] lies inside [free, 4096) with its
    size field and data intact; records pairwise disjoint. *)
Definition tp_inv (hdr : list N) (p : list N) (recs : list (N * list N)) : Prop :=
  length p = 4096%nat /\
  20 <= tp_free p <= 4096 /\
  tp_slice p 0 16 = hdr /\
  tp_slice p tp_off_free 4 = le 4 (tp_free p) /\
  Forall (fun r => tp_has p (fst r) (snd r)) recs /\
  ForallOrdPairs tp_disjoint recs.

Lemma tp_inv_wf hdr p recs : tp_inv hdr p recs -> tp_wf p.
Proof. unfold tp_inv, tp_wf. tauto. Qed.

Theorem tp_inv_init_proved : forall pid,
  tp_inv (le 4 pid ++ zeros 12) (tp_init pid) [] /\ tp_free (tp_init pid) = 4096.
Proof.
  intro pid. unfold tp_init.
  destruct (tp_init_page_facts (zeros (N.to_nat tp_size)) pid) as ((Hl & Hf & He) & Hfree & Hid & Hoth);
    [apply zeros_length|].
  split; [|exact Hfree].
  repeat split; try assumption; try apply Hf; try constructor.
  (* the header equation [bytes 0..15 = le 4 pid ++ zeros 12] holds by computation *)
Qed.

Theorem tp_inv_insert_proved : forall hdr p recs d p' o,
  tp_inv hdr p recs -> tp_nowrap d -> tp_insert p d = Some (p', o) ->
  tp_inv hdr p' ((o, d) :: recs) /\ tp_free p' = o /\ o + 4 + N.of_nat (length d) = tp_free p.
Proof.
  intros hdr p recs d p' o Hinv Hnw H. apply tp_insert_some in H.
  pose proof (tp_inv_wf _ _ _ Hinv) as Hwf.
  destruct (tp_insert_ok p d p' o Hwf Hnw H) as ((Hl' & Hf' & He') & Hfree & Hsum & Hhas & Hkeep & Hhdr).
  destruct Hinv as (Hl & Hf & Hh & He & Hrecs & Hdis).
  split; [|split; assumption].
  repeat split; try assumption; try apply Hf'.
  - now rewrite Hhdr.
  - constructor; [exact Hhas|]. eapply Forall_impl; [|exact Hrecs]. intros r Hr. now apply Hkeep.
  - constructor; [|exact Hdis].
    eapply Forall_impl; [|exact Hrecs]. intros r (Hlo & _).
    left. unfold tp_rec_end. cbn [fst snd]. lia.
Qed.

(** * Any sequence of inserts on one page *)

Lemma tp_inserts_general : forall ds p pf os, tp_wf p -> Forall tp_nowrap ds ->
  tp_inserts p ds = (pf, os) ->
  tp_wf pf /\ length os = length ds /\ tp_free pf <= tp_free p /\
  tp_slice pf 0 16 = tp_slice p 0 16 /\
  (forall o d, tp_has p o d -> tp_has pf o d) /\
  (forall i d o, nth_error ds i = Some d -> nth_error os i = Some (Some o) -> tp_has pf o d).
Proof.
  induction ds as [|d ds IH]; intros p pf os Hwf Hnw H.
  - cbn in H. injection H as <- <-.
    split; [exact Hwf|]. split; [reflexivity|]. split; [lia|]. split; [reflexivity|].
    split; [auto|]. intros [|i] d o Hd; discriminate.
  - inversion Hnw as [|? ? Hnd Hnds]; subst.
    unfold tp_inserts in H. cbn [tp_inserts_with] in H. fold tp_inserts in H.
    destruct (tp_insert p d) as [[p1 o1]|] eqn:Hi.
    + destruct (tp_inserts p1 ds) as [pf1 os1] eqn:Hr. injection H as <- <-.
      apply tp_insert_some in Hi.
      destruct (tp_insert_ok p d p1 o1 Hwf Hnd Hi) as (Hwf1 & Hfree1 & Hsum & Hhas & Hkeep & Hhdr).
      destruct (IH p1 pf1 os1 Hwf1 Hnds Hr) as (Hwff & Hlen & Hle & Hh & Hk & Hidx).
      split; [exact Hwff|]. split; [|split; [|split; [|split]]].
      * cbn. now rewrite Hlen.
      * lia.
      * now rewrite Hh.
      * intros o d0 H0. apply Hk, Hkeep, H0.
      * intros [|i] d0 o Hd Ho; cbn in Hd, Ho.
        -- injection Hd as <-. injection Ho as <-. apply Hk, Hhas.
        -- eapply Hidx; eassumption.
    + destruct (tp_inserts p ds) as [pf1 os1] eqn:Hr. injection H as <- <-.
      destruct (IH p pf1 os1 Hwf Hnds Hr) as (Hwff & Hlen & Hle & Hh & Hk & Hidx).
      split; [exact Hwff|]. split; [|split; [assumption|split; [assumption|split; [assumption|]]]].
      * cbn. now rewrite Hlen.
      * intros [|i] d0 o Hd Ho; cbn in Hd, Ho; [discriminate|].
        eapply Hidx; eassumption.
Qed.

Lemma tp_nowrap_lt d : tp_nowrap d -> N.of_nat (length d) < tp_w32.
Proof. unfold tp_nowrap. lia. Qed.

(** Main theorem: after any sequence of inserts (of any sizes below the 4 GB
    wrap-around, any number of them, refused ones included) on a well-formed
    page, every insert that succeeded with offset [o] and data [d] is read back
    as [d] by Get at [o] (and Get does not panic). *)
Theorem tp_get_after_inserts_proved : forall p ds pf os, tp_wf p -> Forall tp_nowrap ds ->
  tp_inserts p ds = (pf, os) ->
  forall i d o, nth_error ds i = Some d -> nth_error os i = Some (Some o) ->
    tp_get pf o = d /\ tp_get_go pf o = Some d.
Proof.
  intros p ds pf os Hwf Hnw H i d o Hd Ho.
  destruct (tp_inserts_general ds p pf os Hwf Hnw H) as ((Hl & _) & _ & _ & _ & _ & Hidx).
  apply tp_get_has; [exact Hl| |eapply Hidx; eassumption].
  apply tp_nowrap_lt. eapply Forall_forall; [exact Hnw|]. eapply nth_error_In; eassumption.
Qed.

(** records that were on the page before the run are kept as well, and the
    header bytes 0..15 *)
Theorem tp_inserts_keep_proved : forall p ds pf os, tp_wf p -> Forall tp_nowrap ds ->
  tp_inserts p ds = (pf, os) ->
  tp_wf pf /\ tp_slice pf 0 16 = tp_slice p 0 16 /\
  forall o d, tp_has p o d -> N.of_nat (length d) < tp_w32 -> tp_get pf o = d.
Proof.
  intros p ds pf os Hwf Hnw H.
  destruct (tp_inserts_general ds p pf os Hwf Hnw H) as (Hwff & _ & _ & Hh & Hk & _).
  repeat split; try apply Hwff; try assumption.
  intros o d Hhas Hlen. apply tp_get_has; [apply Hwff|exact Hlen|now apply Hk].
Qed.

(** the invariant along a run, with the run's own record list *)
Lemma tp_inv_inserts_general : forall ds hdr p recs pf os,
  tp_inv hdr p recs -> Forall tp_nowrap ds -> tp_inserts p ds = (pf, os) ->
  tp_inv hdr pf (tp_recs ds os recs).
Proof.
  induction ds as [|d ds IH]; intros hdr p recs pf os Hinv Hnw H.
  - cbn in H. injection H as <- <-. exact Hinv.
  - inversion Hnw as [|? ? Hnd Hnds]; subst.
    unfold tp_inserts in H. cbn [tp_inserts_with] in H. fold tp_inserts in H.
    destruct (tp_insert p d) as [[p1 o1]|] eqn:Hi.
    + destruct (tp_inserts p1 ds) as [pf1 os1] eqn:Hr. injection H as <- <-.
      cbn [tp_recs]. eapply IH; [|exact Hnds|exact Hr].
      eapply tp_inv_insert_proved; eassumption.
    + destruct (tp_inserts p ds) as [pf1 os1] eqn:Hr. injection H as <- <-.
      cbn [tp_recs]. eapply IH; eassumption.
Qed.

Theorem tp_inv_inserts_proved : forall pid ds pf os, Forall tp_nowrap ds ->
  tp_inserts (tp_init pid) ds = (pf, os) ->
  tp_inv (le 4 pid ++ zeros 12) pf (tp_recs ds os []).
Proof.
  intros pid ds pf os Hnw H.
  eapply tp_inv_inserts_general; [apply tp_inv_init_proved|exact Hnw|exact H].
Qed.

(** * The executor's spill loop *)

Lemma tp_last_loc_cons init x l :
  tp_last_loc init (x :: l) =
  tp_last_loc (match x with TpLoc k o => Some (k, o) | _ => init end) l.
Proof. reflexivity. Qed.

Definition tp_cur_wf (cur : option (list N)) : Prop := forall c, cur = Some c -> tp_wf c.

Lemma tp_all_general : forall ds done cur last pgs locs,
  tp_cur_wf cur -> Forall tp_nowrap ds -> tp_all ds done cur last = (pgs, locs) ->
  length locs = length ds /\
  (exists rest, pgs = done ++ rest /\
     forall c, cur = Some c -> exists c' rest', rest = c' :: rest' /\ tp_wf c' /\
        forall o d, tp_has c o d -> tp_has c' o d) /\
  forall i d, nth_error ds i = Some d ->
    (tp_fits d -> exists k o pg, nth_error locs i = Some (TpLoc k o) /\
        nth_error pgs k = Some pg /\ tp_wf pg /\ tp_has pg o d) /\
    (~ tp_fits d -> nth_error locs i = Some (TpStale (tp_last_loc last (firstn i locs)))).
Proof.
  induction ds as [|d ds IH]; intros done cur last pgs locs Hcur Hnw H.
  - cbn in H. injection H as <- <-. split; [reflexivity|]. split.
    + exists (tp_opt_list cur). split; [reflexivity|].
      intros c ->. exists c, []. split; [reflexivity|]. split; [apply (Hcur c eq_refl)|auto].
    + intros [|i] d Hd; discriminate.
  - inversion Hnw as [|? ? Hnd Hnds]; subst.
    cbn [tp_all] in H.
    set (n := N.of_nat (length d)) in *.
    (* what the attempt on the current page can be *)
    remember (match cur with Some c => tp_insert_go c d | None => TpFull end) as r eqn:Hr.
    assert (Hrfacts : match r with
                      | TpOk c' o => exists c, cur = Some c /\ tp_insert_go c d = TpOk c' o
                      | TpFull => True
                      | TpPanic => False
                      end).
    { destruct cur as [c|]; [|subst r; exact I].
      pose proof (tp_insert_no_panic_proved c d (Hcur c eq_refl) Hnd) as Hnp.
      destruct r; [exact I|congruence|]. exists c. split; [reflexivity|now symmetry]. }
    destruct r as [| |c' o].
    + (* refused (or no page yet): new page *)
      set (done' := done ++ tp_opt_list cur) in *.
      set (k := length done') in *.
      set (c0 := tp_init (N.of_nat k)) in *.
      destruct (tp_init_wf (N.of_nat k)) as [Hwf0 Hfree0]. fold c0 in Hwf0, Hfree0.
      rewrite (tp_insert_go_eq c0 d Hwf0 Hnd) in H. rewrite Hfree0 in H. fold n in H.
      assert (Hdone : forall rest1 pgs1, pgs1 = done' ++ rest1 ->
                exists rest, pgs1 = done ++ rest /\
                  forall c, cur = Some c -> exists c'' rest', rest = c'' :: rest' /\ tp_wf c'' /\
                    forall o d0, tp_has c o d0 -> tp_has c'' o d0).
      { intros rest1 pgs1 ->. exists (tp_opt_list cur ++ rest1). split.
        - unfold done'. now rewrite app_assoc.
        - intros c ->. exists c, rest1. split; [reflexivity|]. split; [apply (Hcur c eq_refl)|auto]. }
      destruct (N.ltb_spec 4096 (4 + n + 20)) as [Hbig|Hfit].
      * (* does not fit an empty page: stale location *)
        destruct (tp_all ds done' (Some c0) last) as [pgs1 locs1] eqn:Hrec.
        injection H as <- <-.
        destruct (IH done' (Some c0) last pgs1 locs1) as (Hlen & (rest1 & Hpg & Hc0) & Hidx);
          [intros c Hc; injection Hc as <-; exact Hwf0|exact Hnds|exact Hrec|].
        split; [cbn; now rewrite Hlen|]. split; [eapply Hdone; exact Hpg|].
        intros [|i] d0 Hd; cbn [nth_error] in Hd.
        -- injection Hd as <-. split.
           ++ intros Hf. unfold tp_fits, tp_size, page_size in Hf. fold n in Hf. lia.
           ++ intros _. reflexivity.
        -- destruct (Hidx i d0 Hd) as [Hfit Hnofit]. split; [exact Hfit|].
           intros Hnf. cbn [nth_error firstn]. rewrite tp_last_loc_cons. now apply Hnofit.
      * (* stored in the fresh page *)
        set (o := 4096 - (4 + n)) in *.
        set (c1 := tp_write (tp_set_free c0 o) (N.to_nat o) (le 4 n ++ d)) in *.
        assert (Hins : tp_insert_go c0 d = TpOk c1 o).
        { rewrite (tp_insert_go_eq c0 d Hwf0 Hnd), Hfree0. fold n.
          destruct (N.ltb_spec 4096 (4 + n + 20)); [lia|reflexivity]. }
        destruct (tp_insert_ok c0 d c1 o Hwf0 Hnd Hins) as (Hwf1 & _ & _ & Hhas1 & _ & _).
        destruct (tp_all ds done' (Some c1) (Some (k, o))) as [pgs1 locs1] eqn:Hrec.
        injection H as <- <-.
        destruct (IH done' (Some c1) (Some (k, o)) pgs1 locs1) as (Hlen & (rest1 & Hpg & Hc1) & Hidx);
          [intros c Hc; injection Hc as <-; exact Hwf1|exact Hnds|exact Hrec|].
        split; [cbn; now rewrite Hlen|]. split; [eapply Hdone; exact Hpg|].
        intros [|i] d0 Hd; cbn [nth_error] in Hd.
        -- injection Hd as <-. split.
           ++ intros _. destruct (Hc1 c1 eq_refl) as (c'' & rest' & -> & Hwf'' & Hkeep).
              exists k, o, c''. split; [reflexivity|]. split; [|split; [exact Hwf''|now apply Hkeep]].
              rewrite Hpg. rewrite nth_error_app2 by (unfold k; lia).
              unfold k. now rewrite Nat.sub_diag.
           ++ intros Hnf. exfalso. apply Hnf. unfold tp_fits, tp_size, page_size. fold n. lia.
        -- destruct (Hidx i d0 Hd) as [Hfit' Hnofit]. split; [exact Hfit'|].
           intros Hnf. cbn [nth_error firstn]. rewrite tp_last_loc_cons. now apply Hnofit.
    + contradiction.
    + (* stored in the current page *)
      destruct Hrfacts as (c & -> & Hins).
      pose proof (Hcur c eq_refl) as Hwfc.
      destruct (tp_insert_ok c d c' o Hwfc Hnd Hins) as (Hwf1 & Hfree1 & Hsum & Hhas1 & Hkeep1 & _).
      destruct (tp_all ds done (Some c') (Some (length done, o))) as [pgs1 locs1] eqn:Hrec.
      injection H as <- <-.
      destruct (IH done (Some c') (Some (length done, o)) pgs1 locs1) as (Hlen & (rest1 & Hpg & Hc1) & Hidx);
        [intros c2 Hc; injection Hc as <-; exact Hwf1|exact Hnds|exact Hrec|].
      destruct (Hc1 c' eq_refl) as (c'' & rest' & -> & Hwf'' & Hkeep).
      split; [cbn; now rewrite Hlen|]. split.
      * exists (c'' :: rest'). split; [exact Hpg|].
        intros c2 Hc. injection Hc as <-. exists c'', rest'. split; [reflexivity|]. split; [exact Hwf''|].
        intros o0 d0 H0. apply Hkeep, Hkeep1, H0.
      * intros [|i] d0 Hd; cbn [nth_error] in Hd.
        -- injection Hd as <-. split.
           ++ intros _. exists (length done), o, c''. split; [reflexivity|].
              split; [|split; [exact Hwf''|now apply Hkeep]].
              rewrite Hpg, nth_error_app2 by lia. now rewrite Nat.sub_diag.
           ++ intros Hnf. exfalso. apply Hnf. destruct Hwfc as (_ & Hf & _).
              destruct Hwf1 as (_ & Hf1 & _). rewrite Hfree1 in Hf1. fold n in Hsum.
              unfold tp_fits, tp_size, page_size. fold n. lia.
        -- destruct (Hidx i d0 Hd) as [Hfit' Hnofit]. split; [exact Hfit'|].
           intros Hnf. cbn [nth_error firstn]. rewrite tp_last_loc_cons. now apply Hnofit.
Qed.

Lemma tp_fits_nowrap d : tp_fits d -> tp_nowrap d.
Proof. unfold tp_fits, tp_nowrap, tp_size, page_size, tp_w32. lia. Qed.

(** Every build-side tuple that fits an empty page (4 + len + 20 <= 4096, i.e.
    len <= 4072) is stored and read back from its (page, offset) after the whole
    loop; a tuple that does not fit (and is below the 4 GB wrap) is NOT stored:
    its location is the stale one — the previous stored tuple's, or none. *)
Theorem tp_insert_all_exact_proved : forall ds pgs locs, Forall tp_nowrap ds ->
  tp_insert_all ds = (pgs, locs) ->
  length locs = length ds /\
  forall i d, nth_error ds i = Some d ->
    (tp_fits d -> exists k o pg, nth_error locs i = Some (TpLoc k o) /\
        nth_error pgs k = Some pg /\ tp_get pg o = d /\ tp_get_go pg o = Some d) /\
    (~ tp_fits d -> nth_error locs i = Some (TpStale (tp_last_loc None (firstn i locs)))).
Proof.
  intros ds pgs locs Hnw H. unfold tp_insert_all in H.
  destruct (tp_all_general ds [] None None pgs locs) as (Hlen & _ & Hidx);
    [intros c Hc; discriminate|exact Hnw|exact H|].
  split; [exact Hlen|].
  intros i d Hd. destruct (Hidx i d Hd) as [Hfit Hnofit]. split; [|exact Hnofit].
  intros Hf. destruct (Hfit Hf) as (k & o & pg & Hl & Hp & Hwf & Hhas).
  exists k, o, pg. split; [exact Hl|]. split; [exact Hp|].
  apply tp_get_has; [apply Hwf| |exact Hhas].
  apply tp_nowrap_lt, tp_fits_nowrap, Hf.
Qed.

Theorem tp_insert_all_retrievable_proved : forall ds pgs locs, Forall tp_fits ds ->
  tp_insert_all ds = (pgs, locs) ->
  length locs = length ds /\
  forall i d, nth_error ds i = Some d ->
    exists k o pg, nth_error locs i = Some (TpLoc k o) /\
      nth_error pgs k = Some pg /\ tp_get pg o = d /\ tp_get_go pg o = Some d.
Proof.
  intros ds pgs locs Hfits H.
  assert (Hnw : Forall tp_nowrap ds) by (eapply Forall_impl; [|exact Hfits]; apply tp_fits_nowrap).
  destruct (tp_insert_all_exact_proved ds pgs locs Hnw H) as [Hlen Hidx].
  split; [exact Hlen|]. intros i d Hd. apply (Hidx i d Hd).
  eapply Forall_forall; [exact Hfits|]. eapply nth_error_In; exact Hd.
Qed.

(** * Beyond the wrap: a tuple size of 2^32 - 4 makes [needSize] zero

    Not reachable through SQL (a 4 GB row), stated to make the side condition
    [tp_nowrap] of the theorems above exact rather than convenient: with
    [uint32(len d) = 2^32 - 4] the room check passes on any page that already
    holds a record, the pointer does not move, and the size field of the NEWEST
    record is overwritten. *)
Theorem tp_wrap_damages_proved : forall p d, tp_wf p -> tp_free p + 4 <= 4096 ->
  N.of_nat (length d) = tp_w32 - 4 ->
  exists p', tp_insert_go p d = TpOk p' (tp_free p) /\
    tp_slice p' (N.to_nat (tp_free p)) 4 = le 4 (tp_w32 - 4).
Proof.
  intros p d (Hl & Hf & Henc) Hroom Hlen.
  cbv beta zeta delta [tp_insert_go tp_insert_gen]. rewrite Hlen.
  set (f := tp_free p) in *.
  assert (E1 : (tp_w32 - 4) mod tp_w32 = tp_w32 - 4) by (unfold tp_w32; reflexivity).
  rewrite !E1.
  assert (E2 : (4 + (tp_w32 - 4)) mod tp_w32 = 0) by (unfold tp_w32; reflexivity).
  rewrite !E2.
  assert (E3 : (0 + tp_hdr) mod tp_w32 = 20) by reflexivity.
  rewrite E3. clear E1 E2 E3.
  destruct (N.ltb_spec f 20) as [Hc|Hc]; [lia|].
  assert (E4 : (f + tp_w32 - 0) mod tp_w32 = f)
    by (rewrite tp_sub32; unfold tp_w32; lia).
  rewrite !E4. clear E4.
  assert (E5 : tp_size <? f = false) by (unfold tp_size, page_size; lia).
  assert (E6 : tp_size - f <? 4 = false) by (unfold tp_size, page_size; lia).
  rewrite E5, E6.
  set (p1 := tp_set_free p f).
  assert (Hl1 : length p1 = 4096%nat) by (unfold p1; rewrite tp_set_free_length; lia).
  destruct (tp_free_set_free p f) as [Ea _]; [lia|unfold tp_w32; lia|]. fold p1 in Ea.
  set (bs := le 4 (tp_w32 - 4) ++ firstn (N.to_nat (tp_w32 - 4)) d).
  eexists. split.
  - f_equal. unfold tp_free at 1.
    rewrite tp_slice_write_disjoint; [|lia|left; unfold tp_off_free; lia].
    rewrite Ea. apply le_dec_le. rewrite tp_pow256_4. unfold tp_w32; lia.
  - rewrite tp_slice_write_prefix.
    + unfold bs. apply firstn_app_exact. now rewrite le_length.
    + lia.
    + unfold bs. rewrite app_length, le_length. lia.
Qed.

(** * The "+4" of the room check is necessary

    With the check [freeOffset < needSize + 16] a record may start at byte 17:
    its size field then lands on bytes 17..20, i.e. on the upper three bytes of
    the free-space pointer. Witness: tuples of 4056, 15 and 10 bytes; all three
    inserts are accepted; the pointer reads 3857 after the second (its true
    value is 17), so the third lands inside the first record. *)
Definition tp_weak_witness : list (list N) := [repeat 1 4056; repeat 2 15; repeat 7 10].

Theorem tp_weak_check_refuted_proved :
  exists ds pf os i d o,
    Forall tp_fits ds /\
    tp_inserts_with tp_insert_weak (tp_init 0) ds = (pf, os) /\
    nth_error ds i = Some d /\ nth_error os i = Some (Some o) /\
    tp_get pf o <> d.
Proof.
  exists tp_weak_witness.
  exists (fst (tp_inserts_with tp_insert_weak (tp_init 0) tp_weak_witness)).
  exists (snd (tp_inserts_with tp_insert_weak (tp_init 0) tp_weak_witness)).
  exists 0%nat, (repeat 1 4056%nat), 36.
  split; [|split; [|split; [|split]]].
  - unfold tp_weak_witness, tp_fits, tp_size, page_size.
    repeat constructor; rewrite repeat_length; lia.
  - apply surjective_pairing.
  - reflexivity.
  - vm_compute. reflexivity.
  - intro H. apply (f_equal (fun l => nth_error l 3807)) in H. vm_compute in H. discriminate.
Qed.

(** the same run with the real check: the second tuple is refused (36 < 19 + 20)
    and everything stored is read back *)
Lemma tp_strong_on_witness :
  snd (tp_inserts (tp_init 0) tp_weak_witness) = [Some 36; None; Some 22].
Proof. vm_compute. reflexivity. Qed.
