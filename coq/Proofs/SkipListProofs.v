(** Proofs about the block skip list model (Model/SkipList.v): the structural
    invariant [sl_inv] holds of the empty list and is preserved by insert (for
    every level input and every split policy) and remove; the level-0 walk
    equals the sorted association list [omap] updated by [om_insert] /
    [om_remove]; [sl_get] and [sl_range] agree with lookups / range filters of
    that list; searches never run out of fuel. *)
From Coq Require Import List NArith ZArith Lia Bool Arith Sorted.
From Coq Require Import ZifyBool ZifyN ZifyNat.
From SDB Require Import Base.Bytes Base.Assoc Model.IndexWrap Model.SkipList
  Proofs.BytesProofs Proofs.IndexWrapProofs.
Import ListNotations.
Local Open Scope nat_scope.

(** * Association lists *)

Section AssocFacts.
  Context {A : Type}.

  Lemma aget_aset (m : list (N * A)) k v k' :
    aget (aset m k v) k' = if (k =? k')%N then Some v else aget m k'.
  Proof.
    induction m as [|[a x] m IH]; cbn [aset aget].
    - destruct (k =? k')%N; reflexivity.
    - destruct (a =? k)%N eqn:E1; cbn [aget].
      + apply N.eqb_eq in E1. subst a. destruct (k =? k')%N; reflexivity.
      + rewrite IH. destruct (a =? k')%N eqn:E2; [|reflexivity].
        apply N.eqb_eq in E2. subst a. rewrite N.eqb_sym, E1. reflexivity.
  Qed.

  Lemma aget_adel (m : list (N * A)) k k' :
    aget (adel m k) k' = if (k =? k')%N then None else aget m k'.
  Proof.
    induction m as [|[a x] m IH]; cbn [adel aget].
    - destruct (k =? k')%N; reflexivity.
    - destruct (a =? k)%N eqn:E1.
      + apply N.eqb_eq in E1. subst a. rewrite IH. destruct (k =? k')%N; reflexivity.
      + cbn [aget]. rewrite IH. destruct (a =? k')%N eqn:E2; [|reflexivity].
        apply N.eqb_eq in E2. subst a. rewrite N.eqb_sym, E1. reflexivity.
  Qed.

  Lemma aget_in_keys (m : list (N * A)) k x : aget m k = Some x -> In k (map fst m).
  Proof.
    induction m as [|[a y] m IH]; cbn [aget map fst]; [discriminate|].
    destruct (a =? k)%N eqn:E; [apply N.eqb_eq in E; left; exact E|].
    intros H. right. exact (IH H).
  Qed.

  Lemma aset_length_ge (m : list (N * A)) k v : length m <= length (aset m k v).
  Proof.
    induction m as [|[a y] m IH]; cbn [aset length]; [lia|].
    destruct (a =? k)%N; cbn [length]; lia.
  Qed.
End AssocFacts.

(** * Forward-pointer arrays *)

Lemma lset_length l i x : length (lset l i x) = length l.
Proof.
  revert i. induction l as [|y l IH]; intros [|i]; cbn [lset length]; auto.
Qed.

Lemma nth_error_lset l i x j :
  nth_error (lset l i x) j =
  if (i =? j) && (i <? length l) then Some x else nth_error l j.
Proof.
  revert i j. induction l as [|y l IH]; intros i j.
  - cbn [lset length]. replace (i <? 0) with false by (symmetry; apply Nat.ltb_ge; lia).
    rewrite andb_false_r. destruct i; reflexivity.
  - destruct i as [|i], j as [|j]; cbn [lset nth_error length]; try reflexivity.
    rewrite IH. replace (S i =? S j) with (i =? j) by reflexivity.
    replace (S i <? S (length l)) with (i <? length l) by reflexivity. reflexivity.
Qed.

(** * Accessors after the three kinds of update *)

Lemma ent_set_fwd ns c l x id : ent (set_fwd ns c l x) id = ent ns id.
Proof.
  unfold set_fwd, ent. destruct (aget ns c) as [n|] eqn:E; [|reflexivity].
  rewrite aget_aset. destruct (c =? id)%N eqn:E1; [|reflexivity].
  apply N.eqb_eq in E1. subst id. rewrite E. reflexivity.
Qed.

Lemma lev_set_fwd ns c l x id : lev (set_fwd ns c l x) id = lev ns id.
Proof.
  unfold set_fwd, lev. destruct (aget ns c) as [n|] eqn:E; [|reflexivity].
  rewrite aget_aset. destruct (c =? id)%N eqn:E1; [|reflexivity].
  apply N.eqb_eq in E1. subst id. rewrite E. reflexivity.
Qed.

Definition fwlen (ns : list (N * node)) (id : N) : nat :=
  match aget ns id with Some n => length (n_fwd n) | None => 0 end.

Lemma fwlen_set_fwd ns c l x id : fwlen (set_fwd ns c l x) id = fwlen ns id.
Proof.
  unfold set_fwd, fwlen. destruct (aget ns c) as [n|] eqn:E; [|reflexivity].
  rewrite aget_aset. destruct (c =? id)%N eqn:E1; [|reflexivity].
  apply N.eqb_eq in E1. subst id. rewrite E. cbn. apply lset_length.
Qed.

Lemma fw_set_fwd ns c l x id j :
  fw (set_fwd ns c l x) id j =
  if (c =? id)%N && (l =? j) && (l <? fwlen ns c) then Some x else fw ns id j.
Proof.
  unfold set_fwd, fw, fwlen. destruct (aget ns c) as [n|] eqn:E.
  - rewrite aget_aset. destruct (c =? id)%N eqn:E1; cbn [andb].
    + apply N.eqb_eq in E1. subst id. rewrite E. cbn [n_fwd]. apply nth_error_lset.
    + reflexivity.
  - replace (l <? 0) with false by (symmetry; apply Nat.ltb_ge; lia).
    rewrite andb_false_r. reflexivity.
Qed.

Lemma dom_set_fwd ns c l x id : aget (set_fwd ns c l x) id = None <-> aget ns id = None.
Proof.
  unfold set_fwd. destruct (aget ns c) as [n|] eqn:E; [|tauto].
  rewrite aget_aset. destruct (c =? id)%N eqn:E1; [|tauto].
  apply N.eqb_eq in E1. subst id. rewrite E. split; discriminate.
Qed.

Lemma ent_set_ent ns c es id :
  ent (set_ent ns c es) id =
  if (c =? id)%N then (match aget ns c with Some _ => es | None => [] end) else ent ns id.
Proof.
  unfold set_ent, ent. destruct (aget ns c) as [n|] eqn:E.
  - rewrite aget_aset. destruct (c =? id)%N; reflexivity.
  - destruct (c =? id)%N eqn:E1; [|reflexivity].
    apply N.eqb_eq in E1. subst id. rewrite E. reflexivity.
Qed.

Lemma lev_set_ent ns c es id : lev (set_ent ns c es) id = lev ns id.
Proof.
  unfold set_ent, lev. destruct (aget ns c) as [n|] eqn:E; [|reflexivity].
  rewrite aget_aset. destruct (c =? id)%N eqn:E1; [|reflexivity].
  apply N.eqb_eq in E1. subst id. rewrite E. reflexivity.
Qed.

Lemma fw_set_ent ns c es id j : fw (set_ent ns c es) id j = fw ns id j.
Proof.
  unfold set_ent, fw. destruct (aget ns c) as [n|] eqn:E; [|reflexivity].
  rewrite aget_aset. destruct (c =? id)%N eqn:E1; [|reflexivity].
  apply N.eqb_eq in E1. subst id. rewrite E. reflexivity.
Qed.

Lemma fwlen_set_ent ns c es id : fwlen (set_ent ns c es) id = fwlen ns id.
Proof.
  unfold set_ent, fwlen. destruct (aget ns c) as [n|] eqn:E; [|reflexivity].
  rewrite aget_aset. destruct (c =? id)%N eqn:E1; [|reflexivity].
  apply N.eqb_eq in E1. subst id. rewrite E. reflexivity.
Qed.

Lemma dom_set_ent ns c es id : aget (set_ent ns c es) id = None <-> aget ns id = None.
Proof.
  unfold set_ent. destruct (aget ns c) as [n|] eqn:E; [|tauto].
  rewrite aget_aset. destruct (c =? id)%N eqn:E1; [|tauto].
  apply N.eqb_eq in E1. subst id. rewrite E. split; discriminate.
Qed.

Lemma set_fwd_length ns c l x : length ns <= length (set_fwd ns c l x).
Proof. unfold set_fwd. destruct (aget ns c); [apply aset_length_ge|lia]. Qed.

Lemma set_ent_length ns c es : length ns <= length (set_ent ns c es).
Proof. unfold set_ent. destruct (aget ns c); [apply aset_length_ge|lia]. Qed.

(** * The sorted association list, piecewise *)

Definition kbelow (k : skey) (e : sentry) : Prop := lex_cmp k (fst e) = Gt.
Definition kabove (k : skey) (e : sentry) : Prop := lex_cmp k (fst e) = Lt.

Lemma om_insert_app_l k v A M :
  Forall (kbelow k) A -> om_insert k v (A ++ M) = A ++ om_insert k v M.
Proof.
  induction 1 as [|[k' v'] A Hx _ IH]; [reflexivity|].
  cbn [app om_insert]. unfold kbelow in Hx; cbn [fst] in Hx. rewrite Hx, IH. reflexivity.
Qed.

Lemma om_insert_app_r k v E B :
  Forall (kabove k) B -> om_insert k v (E ++ B) = om_insert k v E ++ B.
Proof.
  intros HB. induction E as [|[k' v'] E IH]; cbn [app om_insert].
  - destruct B as [|[kb vb] B]; [reflexivity|].
    inversion HB as [|? ? Hb _]; subst. unfold kabove in Hb; cbn [fst] in Hb.
    cbn [om_insert]. rewrite Hb. reflexivity.
  - destruct (lex_cmp k k'); cbn [app]; try reflexivity. rewrite IH. reflexivity.
Qed.

Lemma om_remove_app_l k A M :
  Forall (kbelow k) A -> om_remove k (A ++ M) = A ++ om_remove k M.
Proof.
  induction 1 as [|[k' v'] A Hx _ IH]; [reflexivity|].
  cbn [app om_remove]. unfold kbelow in Hx; cbn [fst] in Hx. rewrite Hx, IH. reflexivity.
Qed.

Lemma om_remove_app_r k E B :
  Forall (kabove k) B -> om_remove k (E ++ B) = om_remove k E ++ B.
Proof.
  intros HB. induction E as [|[k' v'] E IH]; cbn [app om_remove].
  - destruct B as [|[kb vb] B]; [reflexivity|].
    inversion HB as [|? ? Hb _]; subst. unfold kabove in Hb; cbn [fst] in Hb.
    cbn [om_remove]. rewrite Hb. reflexivity.
  - destruct (lex_cmp k k'); cbn [app]; try reflexivity. rewrite IH. reflexivity.
Qed.

Lemma om_find_app_l k A M : Forall (kbelow k) A -> om_find k (A ++ M) = om_find k M.
Proof.
  unfold om_find. induction 1 as [|[k' v'] A Hx _ IH]; [reflexivity|].
  cbn [app find fst]. unfold kbelow in Hx; cbn [fst] in Hx. rewrite Hx. exact IH.
Qed.

Lemma om_find_none_above k B : Forall (kabove k) B -> om_find k B = None.
Proof.
  unfold om_find. induction 1 as [|[k' v'] B Hx _ IH]; [reflexivity|].
  cbn [find fst]. unfold kabove in Hx; cbn [fst] in Hx. rewrite Hx. exact IH.
Qed.

Lemma om_find_app_r k E B : Forall (kabove k) B -> om_find k (E ++ B) = om_find k E.
Proof.
  intros HB. induction E as [|[k' v'] E IH].
  - cbn [app]. rewrite om_find_none_above by exact HB. reflexivity.
  - unfold om_find in *. cbn [app find fst]. destruct (lex_cmp k k'); try reflexivity; exact IH.
Qed.

Lemma ss_app_inv {A} (R : A -> A -> Prop) l1 l2 :
  StronglySorted R (l1 ++ l2) ->
  StronglySorted R l1 /\ StronglySorted R l2 /\
  Forall (fun a => Forall (R a) l2) l1.
Proof.
  induction l1 as [|a l1 IH]; cbn [app]; intros H.
  - repeat split; [constructor|exact H|constructor].
  - inversion H as [|? ? Hs Hf]; subst. destruct (IH Hs) as [H1 [H2 H3]].
    apply Forall_app in Hf as [Hf1 Hf2].
    repeat split; [constructor; assumption|exact H2|constructor; assumption].
Qed.

Lemma ss_app {A} (R : A -> A -> Prop) l1 l2 :
  StronglySorted R l1 -> StronglySorted R l2 ->
  Forall (fun a => Forall (R a) l2) l1 -> StronglySorted R (l1 ++ l2).
Proof.
  induction 1 as [|a l1 Hs IH Hf]; cbn [app]; intros H2 H3; [exact H2|].
  inversion H3 as [|? ? Ha H3']; subst.
  constructor; [apply IH; assumption|]. apply Forall_app. split; assumption.
Qed.

(** Order facts. *)
Lemma lex_leb_lt_trans a b c : lex_leb a b = true -> lex_cmp b c = Lt -> lex_cmp a c = Lt.
Proof.
  unfold lex_leb. destruct (lex_cmp a b) eqn:E; try discriminate; intros _ H.
  - apply lex_cmp_eq in E. subst b. exact H.
  - eapply lex_cmp_trans; eassumption.
Qed.

Lemma lex_lt_leb_trans a b c : lex_cmp a b = Lt -> lex_leb b c = true -> lex_cmp a c = Lt.
Proof.
  unfold lex_leb. destruct (lex_cmp b c) eqn:E; try discriminate; intros H _.
  - apply lex_cmp_eq in E. subst b. exact H.
  - eapply lex_cmp_trans; eassumption.
Qed.

Lemma lex_leb_false a b : lex_leb a b = false -> lex_cmp b a = Lt.
Proof.
  unfold lex_leb. destruct (lex_cmp a b) eqn:E; try discriminate. intros _.
  now apply lex_cmp_gt_lt.
Qed.

Lemma lex_lt_gt a b : lex_cmp a b = Lt -> lex_cmp b a = Gt.
Proof. intros H. rewrite (lex_cmp_antisym a b), H. reflexivity. Qed.

Lemma lex_lt_leb_false a b : lex_cmp a b = Lt -> lex_leb b a = false.
Proof. intros H. unfold lex_leb. rewrite (lex_lt_gt _ _ H). reflexivity. Qed.

(** Range filter of a sorted list = skip the small ones, take until too big. *)
Definition lo_drop (lo : option skey) (e : sentry) : bool :=
  match lo with None => false | Some l => negb (lex_leb l (fst e)) end.
Definition hi_take (hi : option skey) (e : sentry) : bool :=
  match hi with None => true | Some h => lex_leb (fst e) h end.

Lemma in_bounds_split lo hi (e : sentry) :
  in_bounds lo hi (fst e) = negb (lo_drop lo e) && hi_take hi e.
Proof.
  unfold in_bounds, lo_drop, hi_take. destruct lo, hi; rewrite ?negb_involutive; reflexivity.
Qed.

Lemma range_filter lo hi m :
  om_range lo hi m = filter (fun e => negb (lo_drop lo e) && hi_take hi e) m.
Proof. unfold om_range. apply filter_ext. intros e. apply in_bounds_split. Qed.

Lemma range_take lo hi m : om_sorted m -> Forall (fun e => lo_drop lo e = false) m ->
  om_range lo hi m = take_while (hi_take hi) m.
Proof.
  rewrite range_filter. induction 1 as [|x r Hs IH Hf]; intros Hlo; [reflexivity|].
  inversion Hlo as [|? ? Hx Hr]; subst. cbn [filter take_while].
  rewrite Hx. cbn [negb andb]. destruct (hi_take hi x) eqn:E2.
  - rewrite (IH Hr). reflexivity.
  - unfold hi_take in E2. destruct hi as [h|]; [|discriminate].
    assert (Hnone : forall l, Forall (key_lt x) l ->
              filter (fun e => negb (lo_drop lo e) && hi_take (Some h) e) l = []).
    { induction 1 as [|y l Hy _ IHl]; [reflexivity|]. cbn [filter].
      unfold key_lt in Hy.
      assert (Ey : hi_take (Some h) y = false).
      { unfold hi_take. apply lex_lt_leb_false.
        eapply lex_cmp_trans; [apply lex_leb_false; exact E2|exact Hy]. }
      rewrite Ey, andb_false_r. exact IHl. }
    apply Hnone. exact Hf.
Qed.

Lemma range_drop_take lo hi m : om_sorted m ->
  om_range lo hi m = take_while (hi_take hi) (drop_while (lo_drop lo) m).
Proof.
  induction 1 as [|x r Hs IH Hf]; [reflexivity|].
  cbn [drop_while]. destruct (lo_drop lo x) eqn:E.
  - rewrite <- IH. rewrite !range_filter. cbn [filter]. rewrite E. reflexivity.
  - apply range_take; [constructor; assumption|].
    constructor; [exact E|].
    rewrite Forall_forall in *. intros y Hy. specialize (Hf y Hy). unfold key_lt in Hf.
    unfold lo_drop in *. destruct lo as [l|]; [|reflexivity].
    apply negb_false_iff in E. apply negb_false_iff.
    pose proof (lex_leb_lt_trans _ _ _ E Hf) as Hlt.
    unfold lex_leb. rewrite Hlt. reflexivity.
Qed.

Lemma drop_while_app_all {A} (f : A -> bool) l1 l2 :
  Forall (fun x => f x = true) l1 -> drop_while f (l1 ++ l2) = drop_while f l2.
Proof.
  induction 1 as [|x l1 Hx _ IH]; [reflexivity|]. cbn [app drop_while]. rewrite Hx. exact IH.
Qed.

(** * List facts *)

Lemma last_cons {A} (a : A) l d : last (a :: l) d = last l a.
Proof.
  revert a d. induction l as [|b l IH]; intros a d; [reflexivity|].
  change (last (a :: b :: l) d) with (last (b :: l) d). rewrite (IH b d), (IH b a). reflexivity.
Qed.

Lemma last_app_cons {A} (X : list A) p T d : last (X ++ p :: T) d = last T p.
Proof.
  revert d. induction X as [|x X IH]; intros d; cbn [app]; [apply last_cons|].
  rewrite last_cons. apply IH.
Qed.

Lemma last_in_cons {A} (a : A) l : In (last l a) (a :: l).
Proof.
  revert a. induction l as [|b l IH]; intros a; [left; reflexivity|].
  rewrite last_cons. right. apply IH.
Qed.

Lemma filter_len_le {A} (f : A -> bool) l : length (filter f l) <= length l.
Proof. induction l as [|x l IH]; cbn [filter length]; [lia|]. destruct (f x); cbn [length]; lia. Qed.

Lemma take_drop_while {A} (f : A -> bool) l : take_while f l ++ drop_while f l = l.
Proof.
  induction l as [|x l IH]; [reflexivity|]. cbn [take_while drop_while].
  destruct (f x); [cbn [app]; now rewrite IH|reflexivity].
Qed.

Lemma take_while_all {A} (f : A -> bool) l : Forall (fun x => f x = true) (take_while f l).
Proof.
  induction l as [|x l IH]; cbn [take_while]; [constructor|].
  destruct (f x) eqn:E; constructor; assumption.
Qed.

Lemma NoDup_app_inv {A} (l1 l2 : list A) :
  NoDup (l1 ++ l2) -> NoDup l1 /\ NoDup l2 /\ forall x, In x l1 -> In x l2 -> False.
Proof.
  induction l1 as [|a l1 IH]; cbn [app]; intros H.
  - repeat split; [constructor|exact H|intros x []].
  - inversion H as [|? ? Hn Hd]; subst. destruct (IH Hd) as [H1 [H2 H3]].
    repeat split; [constructor; [|exact H1]|exact H2|].
    + intros Hin. apply Hn. apply in_or_app. left; exact Hin.
    + intros x [<-|Hx] Hx2; [apply Hn; apply in_or_app; right; exact Hx2|eauto].
Qed.

(** * Level chains *)

Fixpoint path (ns : list (N * node)) (l : nat) (a : N) (xs : list N) (e : N) : Prop :=
  match xs with
  | [] => fw ns a l = Some e
  | b :: r => fw ns a l = Some b /\ path ns l b r e
  end.

Lemma path_app ns l a xs b ys e :
  path ns l a (xs ++ b :: ys) e <-> path ns l a xs b /\ path ns l b ys e.
Proof.
  revert a. induction xs as [|x xs IH]; intros a; cbn [app path]; [tauto|].
  rewrite IH. tauto.
Qed.

Lemma path_ext ns ns' l a xs e :
  (forall x, In x (a :: xs) -> fw ns' x l = fw ns x l) ->
  path ns l a xs e -> path ns' l a xs e.
Proof.
  revert a. induction xs as [|b xs IH]; intros a Hx; cbn [path].
  - rewrite Hx by (left; reflexivity). auto.
  - intros [H1 H2]. split; [rewrite Hx by (left; reflexivity); exact H1|].
    apply IH; [|exact H2]. intros x Hin. apply Hx. right; exact Hin.
Qed.

(** The nodes of level > l, in level-0 order. *)
Definition lvf (ns : list (N * node)) (l : nat) (xs : list N) : list N :=
  filter (fun id => l <? lev ns id) xs.

Definition linked (ns : list (N * node)) (l : nat) (xs : list N) : Prop :=
  match xs with [] => False | a :: r => path ns l a r sl_sentinel end.

Lemma linked_suffix ns l X p Y : linked ns l (X ++ p :: Y) -> path ns l p Y sl_sentinel.
Proof.
  destruct X as [|x X]; cbn [app linked]; [auto|]. intros H. apply path_app in H. tauto.
Qed.

Lemma lvf_app ns l xs ys : lvf ns l (xs ++ ys) = lvf ns l xs ++ lvf ns l ys.
Proof. apply filter_app. Qed.

Lemma lvf_in ns l xs x : In x (lvf ns l xs) <-> In x xs /\ l < lev ns x.
Proof. unfold lvf. rewrite filter_In, Nat.ltb_lt. tauto. Qed.

Lemma lvf_ext ns ns' l xs :
  (forall x, In x xs -> lev ns' x = lev ns x) -> lvf ns' l xs = lvf ns l xs.
Proof. intros H. apply filter_ext_in. intros x Hx. now rewrite H. Qed.

Lemma lvf_all ns l xs : (forall x, In x xs -> l < lev ns x) -> lvf ns l xs = xs.
Proof.
  induction xs as [|x xs IH]; intros H; [reflexivity|]. cbn [lvf filter].
  replace (l <? lev ns x) with true by (symmetry; apply Nat.ltb_lt; apply H; left; reflexivity).
  f_equal. apply IH. intros y Hy. apply H. right; exact Hy.
Qed.

Lemma lvf_none ns l xs : (forall x, In x xs -> lev ns x <= l) -> lvf ns l xs = [].
Proof.
  induction xs as [|x xs IH]; intros H; [reflexivity|]. cbn [lvf filter].
  replace (l <? lev ns x) with false
    by (symmetry; apply Nat.ltb_ge; apply H; left; reflexivity).
  apply IH. intros y Hy. apply H. right; exact Hy.
Qed.

(** * The invariant *)

Record wf (s : slist) (chain : list N) : Prop := {
  wf_cap : 2 <= sl_cap s;
  wf_maxl : 1 <= sl_maxl s;
  wf_nodup : NoDup (sl_start :: chain);
  wf_nosent : ~ In sl_sentinel (sl_start :: chain);
  wf_dom : forall id, aget (sl_nodes s) id <> None <-> In id (sl_start :: chain);
  wf_fresh : forall id, In id (sl_start :: chain) -> (id < sl_next s)%N;
  wf_next : (1 < sl_next s)%N;
  wf_lev : forall id, In id (sl_start :: chain) ->
      1 <= lev (sl_nodes s) id <= sl_maxl s /\ fwlen (sl_nodes s) id = lev (sl_nodes s) id;
  wf_start_lev : lev (sl_nodes s) sl_start = sl_maxl s;
  wf_linked : forall l, l < sl_maxl s ->
      linked (sl_nodes s) l (lvf (sl_nodes s) l (sl_start :: chain));
  wf_sorted : om_sorted (concat (map (ent (sl_nodes s)) (sl_start :: chain)));
  wf_nonempty : forall id, In id chain -> ent (sl_nodes s) id <> [];
  wf_cnt : forall id, In id (sl_start :: chain) ->
      node_cnt id (ent (sl_nodes s) id) <= sl_cap s
}.

(** The level-0 chain from the start node visits every node exactly once and
    ends at the sentinel; for every level l the level-l chain is the
    sub-sequence of the nodes of level > l; entries strictly sorted across the
    whole chain (hence inside a node and between successive nodes); no empty
    node except possibly the start node; capacity respected. *)
Definition sl_inv (s : slist) : Prop := exists chain, wf s chain.

(** The abstraction: the entries along the level-0 chain. *)
Definition flat (ns : list (N * node)) (xs : list N) : list (list N * rid) :=
  concat (map (ent ns) xs).

Lemma flat_app ns xs ys : flat ns (xs ++ ys) = flat ns xs ++ flat ns ys.
Proof. unfold flat. now rewrite map_app, concat_app. Qed.

Lemma flat_cons ns x xs : flat ns (x :: xs) = ent ns x ++ flat ns xs.
Proof. reflexivity. Qed.

Lemma flat_ext ns ns' xs :
  (forall x, In x xs -> ent ns' x = ent ns x) -> flat ns' xs = flat ns xs.
Proof. intros H. unfold flat. f_equal. apply map_ext_in. exact H. Qed.

Lemma in_flat ns xs e : In e (flat ns xs) <-> exists x, In x xs /\ In e (ent ns x).
Proof.
  unfold flat. rewrite in_concat. split.
  - intros [l [Hl He]]. apply in_map_iff in Hl as [x [<- Hx]]. eauto.
  - intros [x [Hx He]]. exists (ent ns x). split; [apply in_map; exact Hx|exact He].
Qed.

(** Number of chain nodes <= number of map entries (the fuel bound). *)
Lemma wf_length s chain : wf s chain -> length (sl_start :: chain) <= length (sl_nodes s).
Proof.
  intros W. rewrite <- (map_length fst (sl_nodes s)).
  apply NoDup_incl_length; [exact (wf_nodup _ _ W)|].
  intros x Hx. apply (wf_dom _ _ W) in Hx.
  destruct (aget (sl_nodes s) x) as [n|] eqn:E; [|congruence].
  eapply aget_in_keys; exact E.
Qed.

(** * First keys along the chain *)

Lemma first_key_in ns x k0 : first_key ns x = Some k0 -> exists v, In (k0, v) (ent ns x).
Proof.
  unfold first_key. destruct (ent ns x) as [|[k1 v1] r]; [discriminate|].
  intros H. injection H as <-. exists v1. left; reflexivity.
Qed.

Lemma first_key_hd ns x k0 :
  first_key ns x = Some k0 -> exists v r, ent ns x = (k0, v) :: r.
Proof.
  unfold first_key. destruct (ent ns x) as [|[k1 v1] r]; [discriminate|].
  intros H. injection H as <-. eauto.
Qed.

Lemma first_key_mono ns x rest y k0 ky :
  om_sorted (flat ns (x :: rest)) -> first_key ns x = Some k0 -> In y rest ->
  first_key ns y = Some ky -> lex_cmp k0 ky = Lt.
Proof.
  intros Hs Hx Hy Hky. rewrite flat_cons in Hs.
  apply ss_app_inv in Hs as [_ [_ Hall]].
  destruct (first_key_in _ _ _ Hx) as [v Hv]. destruct (first_key_in _ _ _ Hky) as [vy Hvy].
  rewrite Forall_forall in Hall. specialize (Hall _ Hv).
  rewrite Forall_forall in Hall.
  assert (Hin : In (ky, vy) (flat ns rest)) by (apply in_flat; eauto).
  exact (Hall _ Hin).
Qed.

Lemma sorted_flat_tail ns x xs : om_sorted (flat ns (x :: xs)) -> om_sorted (flat ns xs).
Proof. rewrite flat_cons. intros H. apply ss_app_inv in H. tauto. Qed.

Lemma sorted_flat_app ns xs ys :
  om_sorted (flat ns (xs ++ ys)) -> om_sorted (flat ns xs) /\ om_sorted (flat ns ys).
Proof. rewrite flat_app. intros H. apply ss_app_inv in H. tauto. Qed.

(** Distinct chain nodes have distinct first keys. *)
Lemma first_key_inj ns xs x y k0 :
  om_sorted (flat ns xs) -> In x xs -> In y xs ->
  first_key ns x = Some k0 -> first_key ns y = Some k0 -> x = y.
Proof.
  induction xs as [|a xs IH]; intros Hs Hx Hy Kx Ky; [destruct Hx|].
  destruct Hx as [->|Hx], Hy as [->|Hy]; try reflexivity.
  - pose proof (first_key_mono _ _ _ _ _ _ Hs Kx Hy Ky) as H.
    rewrite lex_cmp_refl in H. discriminate.
  - pose proof (first_key_mono _ _ _ _ _ _ Hs Ky Hx Kx) as H.
    rewrite lex_cmp_refl in H. discriminate.
  - apply IH; auto. eapply sorted_flat_tail; exact Hs.
Qed.

(** Classification of the chain by a search key. *)
Definition nle (ns : list (N * node)) (k : list N) (id : N) : bool :=
  match first_key ns id with Some k0 => lex_leb k0 k | None => false end.

Definition ngt (ns : list (N * node)) (k : list N) (id : N) : Prop :=
  exists k0, first_key ns id = Some k0 /\ lex_leb k0 k = false.

Lemma drop_while_ngt ns k xs :
  om_sorted (flat ns xs) -> (forall x, In x xs -> ent ns x <> []) ->
  Forall (ngt ns k) (drop_while (nle ns k) xs).
Proof.
  induction xs as [|x xs IH]; intros Hs Hne; cbn [drop_while]; [constructor|].
  destruct (nle ns k x) eqn:E.
  - apply IH; [eapply sorted_flat_tail; exact Hs|]. intros y Hy. apply Hne. right; exact Hy.
  - assert (Hx : exists k0, first_key ns x = Some k0).
    { unfold first_key. specialize (Hne x (or_introl eq_refl)).
      destruct (ent ns x) as [|[k1 v1] r]; [congruence|eauto]. }
    destruct Hx as [k0 Hk0].
    assert (Hx0 : lex_leb k0 k = false) by (unfold nle in E; rewrite Hk0 in E; exact E).
    constructor; [exists k0; auto|].
    rewrite Forall_forall. intros y Hy.
    assert (Hyk : exists ky, first_key ns y = Some ky).
    { unfold first_key. specialize (Hne y (or_intror Hy)).
      destruct (ent ns y) as [|[k1 v1] r]; [congruence|eauto]. }
    destruct Hyk as [ky Hky]. exists ky. split; [exact Hky|].
    apply lex_lt_leb_false. eapply lex_cmp_trans; [apply lex_leb_false; exact Hx0|].
    eapply first_key_mono; eauto.
Qed.

(** * FindNode *)

Lemma walk_spec ns k l : forall T p pp F fuel,
  path ns l p (T ++ F) sl_sentinel ->
  ~ In sl_sentinel (T ++ F) ->
  Forall (fun x => nle ns k x = true) T ->
  match F with [] => True | f :: _ => ngt ns k f end ->
  length T < fuel ->
  exists q, sl_walk fuel ns k l p pp = Ok (last T p, q) /\
    (T = [] -> q = pp) /\
    (T <> [] -> exists Q c, p :: T = Q ++ [c; last T p] /\ q = Some c).
Proof.
  induction T as [|t T IH]; intros p pp F fuel Hp Hns HT HF Hfuel.
  - destruct fuel as [|fuel]; [cbn [length] in Hfuel; lia|]. cbn [sl_walk last].
    cbn [app] in Hp, Hns. destruct F as [|f F]; cbn [path] in Hp.
    + rewrite Hp, N.eqb_refl. exists pp. repeat split; auto. intros H; congruence.
    + destruct Hp as [Hp _]. rewrite Hp.
      assert (Hf : (f =? sl_sentinel)%N = false).
      { apply N.eqb_neq. intros ->. apply Hns. left; reflexivity. }
      rewrite Hf. destruct HF as [k0 [Hk0 Hle]]. rewrite Hk0, Hle.
      exists pp. repeat split; auto. intros H; congruence.
  - destruct fuel as [|fuel]; [cbn [length] in Hfuel; lia|]. cbn [sl_walk].
    cbn [app path] in Hp. destruct Hp as [Hp Hp'].
    rewrite Hp.
    assert (Ht : (t =? sl_sentinel)%N = false).
    { apply N.eqb_neq. intros ->. apply Hns. left; reflexivity. }
    rewrite Ht. inversion HT as [|? ? Hnle HT']; subst.
    unfold nle in Hnle. destruct (first_key ns t) as [k0|] eqn:Ek; [|discriminate].
    rewrite Hnle.
    destruct (IH t (Some p) F fuel Hp') as [q [Hq [Hq1 Hq2]]]; auto.
    { intros Hin. apply Hns. right; exact Hin. }
    { cbn [length] in Hfuel. lia. }
    exists q. rewrite last_cons. split; [exact Hq|]. split; [intros H; discriminate|].
    intros _. destruct T as [|t' T'].
    + exists [], p. cbn [last app]. split; [reflexivity|]. apply Hq1. reflexivity.
    + destruct Hq2 as [Q [c [HQ Hc]]]; [discriminate|].
      exists (p :: Q), c. cbn [app]. rewrite <- HQ. split; [reflexivity|exact Hc].
Qed.

Section Search.
  Variable s : slist.
  Variable chain : list N.
  Hypothesis W : wf s chain.
  Variable k : list N.

  Local Notation ns := (sl_nodes s).
  Local Notation T0 := (take_while (nle (sl_nodes s) k) chain).
  Local Notation F0 := (drop_while (nle (sl_nodes s) k) chain).
  Local Notation PL l := (lvf (sl_nodes s) l (sl_start :: T0)).
  Local Notation FL l := (lvf (sl_nodes s) l F0).

  Lemma chain_split : sl_start :: chain = (sl_start :: T0) ++ F0.
  Proof. cbn [app]. now rewrite take_drop_while. Qed.

  Lemma in_T0_chain x : In x (sl_start :: T0) -> In x (sl_start :: chain).
  Proof. rewrite chain_split. intros H. apply in_or_app. left; exact H. Qed.

  Lemma F0_ngt : Forall (ngt ns k) F0.
  Proof.
    apply drop_while_ngt.
    - pose proof (wf_sorted _ _ W) as Hs. change (om_sorted (flat ns (sl_start :: chain))) in Hs.
      eapply sorted_flat_tail; exact Hs.
    - apply (wf_nonempty _ _ W).
  Qed.

  Lemma lvf_split l : lvf ns l (sl_start :: chain) = PL l ++ FL l.
  Proof. rewrite chain_split at 1. apply lvf_app. Qed.

  Lemma PL_start l : l < sl_maxl s -> exists r, PL l = sl_start :: r.
  Proof.
    intros Hl. cbn [lvf filter]. rewrite (wf_start_lev _ _ W).
    replace (l <? sl_maxl s) with true by (symmetry; now apply Nat.ltb_lt). eauto.
  Qed.

  Lemma PL0 : PL 0 = sl_start :: T0.
  Proof.
    apply lvf_all. intros x Hx. apply in_T0_chain in Hx.
    destruct (wf_lev _ _ W x Hx) as [H _]. lia.
  Qed.

  Lemma PL_nodup l : NoDup (PL l).
  Proof.
    apply NoDup_filter. pose proof (wf_nodup _ _ W) as H. rewrite chain_split in H.
    apply NoDup_app_inv in H. tauto.
  Qed.

  Lemma PL_length l : length (PL l) <= length ns.
  Proof.
    etransitivity; [apply filter_len_le|].
    etransitivity; [|apply (wf_length _ _ W)].
    rewrite chain_split, app_length. lia.
  Qed.

  (** One level of the search from a node of the "<= key" part. *)
  Lemma walk_level l pred pp : l < sl_maxl s -> In pred (PL l) ->
    exists q, sl_walk (sl_fuel s) ns k l pred pp = Ok (last (PL l) sl_start, q) /\
      (pred = last (PL l) sl_start -> q = pp) /\
      (pred <> last (PL l) sl_start ->
         exists Q c, PL l = Q ++ [c; last (PL l) sl_start] /\ q = Some c).
  Proof.
    intros Hl Hin. apply in_split in Hin as [X [Tl HX]].
    pose proof (wf_linked _ _ W l Hl) as Hlk. rewrite lvf_split, HX in Hlk.
    rewrite <- app_assoc in Hlk. cbn [app] in Hlk. apply linked_suffix in Hlk.
    assert (Hns : ~ In sl_sentinel (Tl ++ FL l)).
    { intros Hs. apply (wf_nosent _ _ W). rewrite chain_split.
      apply in_app_or in Hs as [Hs|Hs].
      - apply in_or_app. left.
        assert (Hs' : In sl_sentinel (PL l)) by (rewrite HX; apply in_or_app; right; right; exact Hs).
        apply lvf_in in Hs'. tauto.
      - apply in_or_app. right. apply lvf_in in Hs. tauto. }
    assert (HT : Forall (fun x => nle ns k x = true) Tl).
    { rewrite Forall_forall. intros x Hx.
      assert (Hx' : In x (PL l)) by (rewrite HX; apply in_or_app; right; right; exact Hx).
      apply lvf_in in Hx' as [Hx' _]. destruct Hx' as [<-|Hx'].
      - exfalso. pose proof (PL_nodup l) as Hnd. destruct (PL_start l Hl) as [r Hr].
        rewrite HX in Hr. destruct X as [|x0 X]; cbn [app] in Hr.
        + injection Hr as E1 E2. subst pred. rewrite HX in Hnd. cbn [app] in Hnd.
          inversion Hnd as [|? ? Hn _]; subst. contradiction.
        + injection Hr as E1 E2. subst x0. rewrite HX in Hnd. cbn [app] in Hnd.
          inversion Hnd as [|? ? Hn _]; subst.
          apply Hn. apply in_or_app. right; right; exact Hx.
      - pose proof (take_while_all (nle ns k) chain) as Hall. rewrite Forall_forall in Hall.
        now apply Hall. }
    assert (HF : match FL l with [] => True | f :: _ => ngt ns k f end).
    { destruct (FL l) as [|f r] eqn:E; [exact I|].
      assert (Hf : In f (FL l)) by (rewrite E; left; reflexivity).
      apply lvf_in in Hf as [Hf _]. pose proof F0_ngt as Hall. rewrite Forall_forall in Hall.
      now apply Hall. }
    assert (Hfuel : length Tl < sl_fuel s).
    { unfold sl_fuel. pose proof (PL_length l) as Hlen. rewrite HX, app_length in Hlen.
      cbn [length] in Hlen. lia. }
    destruct (walk_spec ns k l Tl pred pp (FL l) (sl_fuel s) Hlk Hns HT HF Hfuel)
      as [q [Hq [Hq1 Hq2]]].
    rewrite HX, last_app_cons. exists q. split; [exact Hq|]. split.
    - intros Hp. apply Hq1. destruct Tl as [|t Tl]; [reflexivity|]. exfalso.
      pose proof (PL_nodup l) as Hnd. rewrite HX in Hnd. apply NoDup_app_inv in Hnd as [_ [Hnd _]].
      inversion Hnd as [|? ? Hn _]; subst. apply Hn.
      assert (Hl' : In (last (t :: Tl) pred) (t :: Tl)) by (rewrite last_cons; apply last_in_cons).
      rewrite <- Hp in Hl'. exact Hl'.
    - intros Hp. destruct Hq2 as [Q [c [HQ Hc]]].
      { intros ->. apply Hp. reflexivity. }
      exists (X ++ Q), c. rewrite <- app_assoc, <- HQ. split; [reflexivity|exact Hc].
  Qed.

  Lemma is_target_spec x : is_target ns k x = true ->
    x <> sl_start /\ first_key ns x = Some k /\ exists v, ent ns x = [(k, v)].
  Proof.
    unfold is_target, first_key. intros H. apply andb_true_iff in H as [H1 H2].
    apply negb_true_iff, N.eqb_neq in H1. split; [exact H1|].
    destruct (ent ns x) as [|[k0 v0] [|e r]]; try discriminate.
    destruct (lex_cmp k k0) eqn:E; try discriminate.
    apply lex_cmp_eq in E. subst k0. split; [reflexivity|eauto].
  Qed.

  Lemma pred_not_target l Q c w :
    PL l = Q ++ [c; w] -> is_target ns k w = true -> is_target ns k c = false.
  Proof.
    intros HP Hw. destruct (is_target ns k c) eqn:Hc; [exfalso|reflexivity].
    apply is_target_spec in Hw as [Hw0 [Hwk _]]. apply is_target_spec in Hc as [Hc0 [Hck _]].
    assert (Hcin : In c (PL l)) by (rewrite HP; apply in_or_app; right; left; reflexivity).
    assert (Hwin : In w (PL l)) by (rewrite HP; apply in_or_app; right; right; left; reflexivity).
    apply lvf_in in Hcin as [Hcin _]. apply lvf_in in Hwin as [Hwin _].
    apply in_T0_chain in Hcin. apply in_T0_chain in Hwin.
    destruct Hcin as [Hcin|Hcin]; [congruence|]. destruct Hwin as [Hwin|Hwin]; [congruence|].
    assert (E : c = w).
    { eapply (first_key_inj ns chain); eauto.
      pose proof (wf_sorted _ _ W) as Hs. eapply sorted_flat_tail. exact Hs. }
    subst w. pose proof (PL_nodup l) as Hnd. rewrite HP in Hnd.
    apply NoDup_app_inv in Hnd as [_ [Hnd _]]. inversion Hnd as [|? ? Hn _]; subst.
    apply Hn. left; reflexivity.
  Qed.

  (** What FindNode records for level [l]. *)
  Definition corner_ok (rm : bool) (l : nat) (c : N) : Prop :=
    if rm && negb (l =? 0) && is_target ns k (last (PL l) sl_start)
    then exists Q, PL l = Q ++ [c; last (PL l) sl_start]
    else c = last (PL l) sl_start.

  Lemma levels_spec rm : forall nl pred pp acc pacc,
    nl <= sl_maxl s -> In pred (sl_start :: T0) -> nl <= lev ns pred ->
    (0 < nl -> rm = true -> is_target ns k pred = false) ->
    exists n cs ps,
      sl_levels (sl_fuel s) ns k rm nl pred pp acc pacc = Ok (n, cs ++ acc, ps ++ pacc) /\
      length cs = nl /\ length ps = nl /\
      (0 < nl -> n = last T0 sl_start) /\
      (forall l, l < nl -> corner_ok rm l (nth l cs sl_start)) /\
      (0 < nl -> rm = true -> is_target ns k n = true ->
         exists Q p0, sl_start :: T0 = Q ++ [p0; n] /\ hd_error ps = Some (Some p0)).
  Proof.
    induction nl as [|l IH]; intros pred pp acc pacc Hnl Hin Hlev Hnt.
    - exists pred, [], []. cbn [sl_levels app length]. repeat split; try lia.
    - cbn [sl_levels].
      assert (HinP : In pred (PL l)) by (apply lvf_in; split; [exact Hin|lia]).
      destruct (walk_level l pred pp ltac:(lia) HinP) as [q [Hq [Hq1 Hq2]]].
      rewrite Hq. set (w := last (PL l) sl_start) in *.
      assert (HwP : In w (PL l)).
      { unfold w. destruct (PL_start l ltac:(lia)) as [r Hr]. rewrite Hr, last_cons.
        apply last_in_cons. }
      assert (Hw : In w (sl_start :: T0) /\ l < lev ns w) by (apply lvf_in; exact HwP).
      destruct Hw as [HwT Hwl].
      assert (Hne : rm = true -> is_target ns k w = true -> pred <> w).
      { intros Hrm Htw E. rewrite E in Hnt. rewrite Hnt in Htw; [discriminate|lia|exact Hrm]. }
      destruct (rm && negb (l =? 0) && is_target ns k w) eqn:Esp.
      + (* the node to remove is reached at a level > 0 *)
        apply andb_true_iff in Esp as [Esp Etw]. apply andb_true_iff in Esp as [Erm El].
        apply negb_true_iff, Nat.eqb_neq in El.
        destruct (Hq2 (Hne Erm Etw)) as [Q [c [HQ Hc]]]. subst q.
        assert (HcP : In c (PL l)) by (rewrite HQ; apply in_or_app; right; left; reflexivity).
        apply lvf_in in HcP as [HcT Hcl].
        destruct (IH c (Some c) (c :: acc) (None :: pacc)) as [n [cs [ps [Hr [Hlc [Hlp [Hn [Hco Hpo]]]]]]]];
          [lia|exact HcT|lia| |].
        { intros _ _. eapply pred_not_target; [exact HQ|exact Etw]. }
        exists n, (cs ++ [c]), (ps ++ [None]). rewrite <- !app_assoc. cbn [app].
        split; [exact Hr|]. rewrite !app_length. cbn [length].
        split; [lia|]. split; [lia|]. split; [intros _; apply Hn; lia|]. split.
        * intros l' Hl'. destruct (Nat.eq_dec l' l) as [->|Hneq].
          -- rewrite app_nth2 by lia. rewrite Hlc, Nat.sub_diag. cbn [nth].
             unfold corner_ok. fold w. rewrite Erm, Etw.
             replace (negb (l =? 0)) with true by (symmetry; apply negb_true_iff, Nat.eqb_neq; exact El).
             cbn [andb]. exists Q. exact HQ.
          -- rewrite app_nth1 by lia. apply Hco. lia.
        * intros _ Hrm Htn. destruct (Hpo ltac:(lia) Hrm Htn) as [Q' [p0 [HQ' Hp0]]].
          exists Q', p0. split; [exact HQ'|].
          destruct ps as [|p ps]; [cbn [length] in Hlp; lia|]. exact Hp0.
      + destruct (IH w q (w :: acc) (q :: pacc)) as [n [cs [ps [Hr [Hlc [Hlp [Hn [Hco Hpo]]]]]]]];
          [lia|exact HwT|lia| |].
        { intros Hl0 Hrm. rewrite Hrm in Esp.
          replace (negb (l =? 0)) with true in Esp
            by (symmetry; apply negb_true_iff, Nat.eqb_neq; lia).
          exact Esp. }
        exists (if l =? 0 then w else n), (cs ++ [w]), (ps ++ [q]). rewrite <- !app_assoc. cbn [app].
        assert (Hcok : corner_ok rm l w).
        { unfold corner_ok. fold w. rewrite Esp. reflexivity. }
        destruct l as [|l'].
        * (* level 0: the loop ends here *)
          cbn [sl_levels] in Hr. injection Hr as Hn0 Hcs Hps.
          destruct cs; [|cbn [length] in Hlc; lia]. destruct ps; [|cbn [length] in Hlp; lia].
          cbn [app Nat.eqb sl_levels]. split; [reflexivity|]. cbn [length].
          split; [reflexivity|]. split; [reflexivity|]. split.
          { intros _. unfold w. rewrite PL0. apply last_cons. }
          split.
          { intros l0 Hl0. replace l0 with 0 by lia. exact Hcok. }
          intros _ Hrm Htn. destruct (Hq2 (Hne Hrm Htn)) as [Q [c [HQ Hc]]].
          exists Q, c. rewrite <- PL0. split; [exact HQ|]. cbn [hd_error]. now rewrite Hc.
        * cbn [Nat.eqb]. split; [exact Hr|]. rewrite !app_length. cbn [length].
          split; [lia|]. split; [lia|]. split; [intros _; apply Hn; lia|]. split.
          { intros l0 Hl0. destruct (Nat.eq_dec l0 (S l')) as [->|Hneq].
            - rewrite app_nth2 by lia. rewrite Hlc, Nat.sub_diag. exact Hcok.
            - rewrite app_nth1 by lia. apply Hco. lia. }
          intros _ Hrm Htn. destruct (Hpo ltac:(lia) Hrm Htn) as [Q' [p0 [HQ' Hp0]]].
          exists Q', p0. split; [exact HQ'|].
          destruct ps as [|p ps]; [cbn [length] in Hlp; lia|]. exact Hp0.
  Qed.

  (** FindNode as a whole. *)
  Lemma find_spec rm :
    exists cs ps,
      sl_find rm k s = Ok (last T0 sl_start, cs, ps) /\
      length cs = sl_maxl s /\
      (forall l, l < sl_maxl s -> corner_ok rm l (nth l cs sl_start)) /\
      (rm = true -> is_target ns k (last T0 sl_start) = true ->
         exists Q p0, sl_start :: T0 = Q ++ [p0; last T0 sl_start] /\ hd_error ps = Some (Some p0)).
  Proof.
    pose proof (wf_maxl _ _ W) as Hm.
    destruct (levels_spec rm (sl_maxl s) sl_start None [] []) as
      [n [cs [ps [Hr [Hlc [Hlp [Hn [Hco Hpo]]]]]]]].
    - lia.
    - left; reflexivity.
    - rewrite (wf_start_lev _ _ W). lia.
    - intros _ _. reflexivity.
    - rewrite !app_nil_r in Hr. assert (En : n = last T0 sl_start) by (apply Hn; lia).
      subst n. exists cs, ps. unfold sl_find. split; [exact Hr|]. split; [exact Hlc|].
      split; [exact Hco|]. intros Hrm Ht. apply Hpo; [lia|exact Hrm|exact Ht].
  Qed.

  (** The found node splits the entries into those below and those above [k]. *)
  Lemma found_split :
    exists A, sl_start :: T0 = A ++ [last T0 sl_start] /\
      sl_start :: chain = A ++ last T0 sl_start :: F0 /\
      Forall (kbelow k) (flat ns A) /\ Forall (kabove k) (flat ns F0).
  Proof.
    set (n := last T0 sl_start).
    assert (HA : sl_start :: T0 = removelast (sl_start :: T0) ++ [n]).
    { rewrite (app_removelast_last sl_start) at 1 by discriminate.
      rewrite last_cons. reflexivity. }
    exists (removelast (sl_start :: T0)). split; [exact HA|].
    assert (HL : sl_start :: chain = removelast (sl_start :: T0) ++ n :: F0).
    { rewrite chain_split, HA at 1. rewrite <- app_assoc. reflexivity. }
    split; [exact HL|].
    pose proof (wf_sorted _ _ W) as Hs. change (om_sorted (flat ns (sl_start :: chain))) in Hs.
    split.
    - assert (Hn : T0 = [] \/ In n T0).
      { unfold n. destruct T0 as [|t T0']; [left; reflexivity|].
        right. rewrite last_cons. apply last_in_cons. }
      destruct Hn as [E|Hn]; [rewrite E; cbn [removelast]; constructor|].
      pose proof (take_while_all (nle ns k) chain) as Hall. rewrite Forall_forall in Hall.
      specialize (Hall n Hn). unfold nle in Hall.
      destruct (first_key ns n) as [kn|] eqn:Ekn; [|discriminate].
      destruct (first_key_hd _ _ _ Ekn) as [vn [rn Hen]].
      rewrite HL, flat_app, flat_cons, Hen in Hs.
      apply ss_app_inv in Hs as [_ [_ Hs]].
      rewrite Forall_forall in *. intros e He. specialize (Hs e He).
      inversion Hs as [|? ? Hlt _]; subst. unfold key_lt in Hlt; cbn [fst] in Hlt.
      unfold kbelow. apply lex_lt_gt. eapply lex_lt_leb_trans; eassumption.
    - pose proof F0_ngt as HF. destruct F0 as [|f F0'] eqn:EF; [constructor|].
      inversion HF as [|? ? [kf [Hkf Hlf]] _]; subst.
      destruct (first_key_hd _ _ _ Hkf) as [vf [rf Hef]].
      rewrite HL, flat_app in Hs. apply ss_app_inv in Hs as [_ [Hs _]].
      rewrite flat_cons in Hs. apply ss_app_inv in Hs as [_ [Hs _]].
      rewrite flat_cons, Hef in Hs. cbn [app] in Hs. rewrite flat_cons, Hef. cbn [app].
      inversion Hs as [|? ? _ Hall]; subst.
      apply lex_leb_false in Hlf.
      constructor; [exact Hlf|].
      rewrite Forall_forall in *. intros e He. specialize (Hall e He).
      unfold key_lt in Hall; cbn [fst] in Hall. unfold kabove.
      eapply lex_cmp_trans; eassumption.
  Qed.
End Search.

(** * The level-0 walk *)

Lemma collect_spec ns : forall xs a fuel,
  path ns 0 a xs sl_sentinel -> ~ In sl_sentinel (a :: xs) -> length (a :: xs) < fuel ->
  sl_collect fuel ns a = Ok (flat ns (a :: xs)).
Proof.
  induction xs as [|b xs IH]; intros a fuel Hp Hns Hf;
    (destruct fuel as [|fuel]; [cbn [length] in Hf; lia|]); cbn [sl_collect].
  - assert (Ha : (a =? sl_sentinel)%N = false).
    { apply N.eqb_neq. intros ->. apply Hns. left; reflexivity. }
    rewrite Ha. cbn [path] in Hp. unfold fw in Hp.
    rewrite flat_cons. unfold ent at 1.
    destruct (aget ns a) as [n|]; [|discriminate]. rewrite Hp.
    destruct fuel as [|fuel]; [cbn [length] in Hf; lia|]. cbn [sl_collect].
    rewrite N.eqb_refl. reflexivity.
  - assert (Ha : (a =? sl_sentinel)%N = false).
    { apply N.eqb_neq. intros ->. apply Hns. left; reflexivity. }
    rewrite Ha. cbn [path] in Hp. destruct Hp as [Hp Hp']. unfold fw in Hp.
    rewrite flat_cons. unfold ent at 1.
    destruct (aget ns a) as [n|]; [|discriminate]. rewrite Hp.
    rewrite (IH b fuel Hp'); [reflexivity| |cbn [length] in *; lia].
    intros Hin. apply Hns. right; exact Hin.
Qed.

Lemma lvf0 s chain : wf s chain ->
  lvf (sl_nodes s) 0 (sl_start :: chain) = sl_start :: chain.
Proof.
  intros W. apply lvf_all. intros x Hx. destruct (wf_lev _ _ W x Hx) as [H _]. lia.
Qed.

Lemma collect_suffix s chain X a Y : wf s chain -> sl_start :: chain = X ++ a :: Y ->
  sl_collect (sl_fuel s) (sl_nodes s) a = Ok (flat (sl_nodes s) (a :: Y)).
Proof.
  intros W HL. apply collect_spec.
  - pose proof (wf_linked _ _ W 0 ltac:(pose proof (wf_maxl _ _ W); lia)) as Hlk.
    rewrite (lvf0 _ _ W), HL in Hlk. eapply linked_suffix; exact Hlk.
  - intros Hin. apply (wf_nosent _ _ W). rewrite HL. apply in_or_app. right; exact Hin.
  - pose proof (wf_length _ _ W) as Hlen. rewrite HL, app_length in Hlen.
    unfold sl_fuel. lia.
Qed.

Theorem to_list_spec s chain : wf s chain ->
  sl_to_list s = Ok (flat (sl_nodes s) (sl_start :: chain)).
Proof. intros W. unfold sl_to_list. apply (collect_suffix s chain [] sl_start chain W). reflexivity. Qed.

Theorem get_spec s chain k : wf s chain ->
  sl_get k s = Ok (om_find k (flat (sl_nodes s) (sl_start :: chain))).
Proof.
  intros W. unfold sl_get. destruct (find_spec s chain W k false) as [cs [ps [Hf _]]].
  rewrite Hf. cbn [rbind].
  destruct (found_split s chain W k) as [A [_ [HL [HA HB]]]].
  rewrite HL, flat_app, flat_cons.
  rewrite (om_find_app_l _ _ _ HA), (om_find_app_r _ _ _ HB). reflexivity.
Qed.

Theorem range_spec s chain lo hi : wf s chain ->
  sl_range lo hi s = Ok (om_range lo hi (flat (sl_nodes s) (sl_start :: chain))).
Proof.
  intros W. unfold sl_range.
  pose proof (wf_sorted _ _ W) as Hs. change (om_sorted (flat (sl_nodes s) (sl_start :: chain))) in Hs.
  rewrite (range_drop_take lo hi _ Hs).
  destruct lo as [l|].
  - destruct (find_spec s chain W l false) as [cs [ps [Hf _]]]. rewrite Hf. cbn [rbind].
    destruct (found_split s chain W l) as [A [_ [HL [HA _]]]].
    rewrite (collect_suffix s chain _ _ _ W HL). cbn [rbind].
    rewrite HL at 1. rewrite flat_app.
    rewrite drop_while_app_all; [reflexivity|].
    rewrite Forall_forall in *. intros e He. specialize (HA e He). unfold kbelow in HA.
    unfold lo_drop. unfold lex_leb. rewrite HA. reflexivity.
  - cbn [rbind]. rewrite (collect_suffix s chain [] sl_start chain W eq_refl). reflexivity.
Qed.

(** * Relinking *)

Lemma fw_some_lt ns id l x : fw ns id l = Some x -> l < fwlen ns id.
Proof.
  unfold fw, fwlen. destruct (aget ns id); [|discriminate].
  intros H. apply nth_error_Some. congruence.
Qed.

Lemma fw_lt_some ns id l : l < fwlen ns id -> exists x, fw ns id l = Some x.
Proof.
  unfold fw, fwlen. destruct (aget ns id) as [n|]; [|lia].
  intros H. apply nth_error_Some in H. destruct (nth_error (n_fwd n) l); [eauto|congruence].
Qed.

Lemma fw_set_fwd_same ns c l x : l < fwlen ns c -> fw (set_fwd ns c l x) c l = Some x.
Proof.
  intros H. rewrite fw_set_fwd, N.eqb_refl, Nat.eqb_refl.
  replace (l <? fwlen ns c) with true by (symmetry; now apply Nat.ltb_lt). reflexivity.
Qed.

Lemma fw_set_fwd_other ns c l x id j : id <> c \/ j <> l -> fw (set_fwd ns c l x) id j = fw ns id j.
Proof.
  intros H. rewrite fw_set_fwd.
  destruct (c =? id)%N eqn:E1; [|reflexivity]. destruct (l =? j) eqn:E2; [|reflexivity].
  apply N.eqb_eq in E1. apply Nat.eqb_eq in E2. exfalso. destruct H; congruence.
Qed.

(** Everything except forward pointers is untouched. *)
Definition same_frame (ns ns' : list (N * node)) : Prop :=
  (forall id, ent ns' id = ent ns id) /\ (forall id, lev ns' id = lev ns id) /\
  (forall id, fwlen ns' id = fwlen ns id) /\
  (forall id, aget ns' id = None <-> aget ns id = None) /\ length ns <= length ns'.

Lemma same_frame_refl ns : same_frame ns ns.
Proof. repeat split; auto. Qed.

Lemma same_frame_set_fwd ns ns' c l x : same_frame ns ns' -> same_frame ns (set_fwd ns' c l x).
Proof.
  intros [H1 [H2 [H3 [H4 H5]]]]. split; [|split; [|split; [|split]]].
  - intros id. rewrite ent_set_fwd. apply H1.
  - intros id. rewrite lev_set_fwd. apply H2.
  - intros id. rewrite fwlen_set_fwd. apply H3.
  - intros id. rewrite dom_set_fwd. apply H4.
  - pose proof (set_fwd_length ns' c l x). lia.
Qed.

Lemma relink_spec nid : forall cs ns l,
  (forall i, i < length cs -> l + i < fwlen ns (nth i cs sl_start)) ->
  exists ns' fws, sl_relink ns nid cs l = Ok (ns', fws) /\ length fws = length cs /\
    (forall i, i < length cs -> nth_error fws i = fw ns (nth i cs sl_start) (l + i)) /\
    same_frame ns ns' /\
    (forall id j, j < l \/ l + length cs <= j -> fw ns' id j = fw ns id j) /\
    (forall i, i < length cs -> fw ns' (nth i cs sl_start) (l + i) = Some nid) /\
    (forall id i, i < length cs -> id <> nth i cs sl_start -> fw ns' id (l + i) = fw ns id (l + i)).
Proof.
  induction cs as [|c cs IH]; intros ns l Hpre.
  - exists ns, []. cbn [sl_relink length]. repeat split; auto; intros; lia.
  - cbn [sl_relink].
    assert (Hc : l < fwlen ns c).
    { specialize (Hpre 0 ltac:(cbn [length]; lia)). cbn [nth] in Hpre. lia. }
    destruct (fw_lt_some _ _ _ Hc) as [nx Hnx]. rewrite Hnx.
    destruct (IH (set_fwd ns c l nid) (S l)) as [ns' [fws [Hr [Hlen [Hf [Hsf [R1 [R2 R3]]]]]]]].
    { intros i Hi. rewrite fwlen_set_fwd.
      specialize (Hpre (S i) ltac:(cbn [length]; lia)). cbn [nth] in Hpre. lia. }
    rewrite Hr. exists ns', (nx :: fws). split; [reflexivity|]. cbn [length].
    split; [lia|]. split; [|split; [|split; [|split]]].
    + intros [|i] Hi; cbn [nth nth_error].
      * now rewrite Nat.add_0_r.
      * rewrite Hf by lia. rewrite fw_set_fwd_other by (right; lia). f_equal. lia.
    + destruct Hsf as [H1 [H2 [H3 [H4 H5]]]]. split; [|split; [|split; [|split]]].
      * intros id. rewrite H1. apply ent_set_fwd.
      * intros id. rewrite H2. apply lev_set_fwd.
      * intros id. rewrite H3. apply fwlen_set_fwd.
      * intros id. rewrite H4. apply dom_set_fwd.
      * pose proof (set_fwd_length ns c l nid). lia.
    + intros id j Hj. rewrite R1 by lia. apply fw_set_fwd_other. right. lia.
    + intros [|i] Hi; cbn [nth].
      * rewrite Nat.add_0_r. rewrite R1 by lia. now apply fw_set_fwd_same.
      * replace (l + S i) with (S l + i) by lia. apply R2. lia.
    + intros id [|i] Hi Hne; cbn [nth] in Hne.
      * rewrite Nat.add_0_r. rewrite R1 by lia. apply fw_set_fwd_other. left. exact Hne.
      * replace (l + S i) with (S l + i) by lia. rewrite R3 by (auto; lia).
        apply fw_set_fwd_other. right. lia.
Qed.

Lemma unlink_spec n : forall cs ns l,
  (forall i, i < length cs -> l + i < fwlen ns (nth i cs sl_start) /\ l + i < fwlen ns n) ->
  exists ns', sl_unlink ns n cs l = Ok ns' /\
    same_frame ns ns' /\
    (forall id j, j < l \/ l + length cs <= j -> fw ns' id j = fw ns id j) /\
    (forall i, i < length cs -> fw ns' (nth i cs sl_start) (l + i) = fw ns n (l + i)) /\
    (forall id i, i < length cs -> id <> nth i cs sl_start -> fw ns' id (l + i) = fw ns id (l + i)).
Proof.
  induction cs as [|c cs IH]; intros ns l Hpre.
  - exists ns. cbn [sl_unlink length]. repeat split; auto; intros; lia.
  - cbn [sl_unlink].
    destruct (Hpre 0 ltac:(cbn [length]; lia)) as [Hc Hn]. cbn [nth] in Hc.
    rewrite Nat.add_0_r in Hc, Hn.
    destruct (fw_lt_some _ _ _ Hn) as [nx Hnx]. rewrite Hnx.
    destruct (IH (set_fwd ns c l nx) (S l)) as [ns' [Hr [Hsf [R1 [R2 R3]]]]].
    { intros i Hi. rewrite !fwlen_set_fwd.
      specialize (Hpre (S i) ltac:(cbn [length]; lia)). cbn [nth] in Hpre. split; lia. }
    rewrite Hr. exists ns'. split; [reflexivity|]. cbn [length]. split; [|split; [|split]].
    + destruct Hsf as [H1 [H2 [H3 [H4 H5]]]]. split; [|split; [|split; [|split]]].
      * intros id. rewrite H1. apply ent_set_fwd.
      * intros id. rewrite H2. apply lev_set_fwd.
      * intros id. rewrite H3. apply fwlen_set_fwd.
      * intros id. rewrite H4. apply dom_set_fwd.
      * pose proof (set_fwd_length ns c l nx). lia.
    + intros id j Hj. rewrite R1 by lia. apply fw_set_fwd_other. right. lia.
    + intros [|i] Hi; cbn [nth].
      * rewrite Nat.add_0_r. rewrite R1 by lia. rewrite Hnx. now apply fw_set_fwd_same.
      * replace (l + S i) with (S l + i) by lia. rewrite R2 by lia.
        apply fw_set_fwd_other. right. lia.
    + intros id [|i] Hi Hne; cbn [nth] in Hne.
      * rewrite Nat.add_0_r. rewrite R1 by lia. apply fw_set_fwd_other. left. exact Hne.
      * replace (l + S i) with (S l + i) by lia. rewrite R3 by (auto; lia).
        apply fw_set_fwd_other. right. lia.
Qed.

(** * Chain surgery *)

Lemma path_from_new ns ns' l c nid Y e :
  path ns l c Y e -> fw ns' nid l = fw ns c l ->
  (forall x, In x Y -> fw ns' x l = fw ns x l) -> path ns' l nid Y e.
Proof.
  destruct Y as [|y Y]; cbn [path]; intros Hp Hn Hx; [congruence|].
  destruct Hp as [Hp Hp']. split; [congruence|].
  eapply path_ext; [|exact Hp']. exact Hx.
Qed.

(** Insert [nid] right after [c] in a level chain. *)
Lemma linked_insert ns ns' l X c nid Y :
  linked ns l (X ++ c :: Y) ->
  (forall x, In x (X ++ Y) -> fw ns' x l = fw ns x l) ->
  fw ns' c l = Some nid -> fw ns' nid l = fw ns c l ->
  linked ns' l (X ++ c :: nid :: Y).
Proof.
  intros Hlk Hx Hc Hn.
  assert (HY : path ns l c Y sl_sentinel -> path ns' l c (nid :: Y) sl_sentinel).
  { intros Hp. cbn [path]. split; [exact Hc|].
    eapply path_from_new; [exact Hp|exact Hn|].
    intros x Hin. apply Hx. apply in_or_app. right; exact Hin. }
  destruct X as [|x0 X]; cbn [app linked] in *; [auto|].
  apply path_app in Hlk as [H1 H2]. apply path_app. split; [|auto].
  eapply path_ext; [|exact H1]. intros x Hin. apply Hx.
  destruct Hin as [<-|Hin]; [left; reflexivity|]. right. apply in_or_app. left; exact Hin.
Qed.

(** Remove [t] (right after [c]) from a level chain. *)
Lemma linked_remove ns ns' l X c t Y :
  linked ns l (X ++ c :: t :: Y) ->
  (forall x, In x (X ++ Y) -> fw ns' x l = fw ns x l) ->
  fw ns' c l = fw ns t l ->
  linked ns' l (X ++ c :: Y).
Proof.
  intros Hlk Hx Hc.
  assert (HY : path ns l c (t :: Y) sl_sentinel -> path ns' l c Y sl_sentinel).
  { cbn [path]. intros [_ Hp]. eapply path_from_new; [exact Hp|exact Hc|].
    intros x Hin. apply Hx. apply in_or_app. right; exact Hin. }
  destruct X as [|x0 X]; cbn [app linked] in *; [auto|].
  apply path_app in Hlk as [H1 H2]. apply path_app. split; [|auto].
  eapply path_ext; [|exact H1]. intros x Hin. apply Hx.
  destruct Hin as [<-|Hin]; [left; reflexivity|]. right. apply in_or_app. left; exact Hin.
Qed.

Lemma linked_ext ns ns' l xs :
  (forall x, In x xs -> fw ns' x l = fw ns x l) -> linked ns l xs -> linked ns' l xs.
Proof. destruct xs as [|a r]; cbn [linked]; [auto|]. apply path_ext. Qed.

(** * Entry-list facts *)

Lemma om_insert_length k v m : length (om_insert k v m) <= S (length m).
Proof.
  induction m as [|[k' v'] m IH]; cbn [om_insert length]; [lia|].
  destruct (lex_cmp k k'); cbn [length]; lia.
Qed.

Lemma om_mem_above k m : Forall (kabove k) m -> om_mem k m = false.
Proof.
  unfold om_mem. induction 1 as [|[k' v'] m Hx _ IH]; [reflexivity|].
  cbn [existsb fst]. unfold kabove in Hx; cbn [fst] in Hx. rewrite Hx. exact IH.
Qed.

Lemma sorted_above k k' v' m :
  om_sorted ((k', v') :: m) -> lex_cmp k k' = Lt -> Forall (kabove k) ((k', v') :: m).
Proof.
  intros Hs Hlt. inversion Hs as [|? ? _ Hall]; subst. constructor; [exact Hlt|].
  rewrite Forall_forall in *. intros e He. specialize (Hall e He).
  unfold key_lt in Hall; cbn [fst] in Hall. unfold kabove. eapply lex_cmp_trans; eassumption.
Qed.

Lemma om_insert_length_mem k v m :
  om_sorted m -> om_mem k m = true -> length (om_insert k v m) = length m.
Proof.
  induction m as [|[k' v'] m IH]; intros Hs Hm; [discriminate|].
  cbn [om_insert]. destruct (lex_cmp k k') eqn:E.
  - reflexivity.
  - rewrite (om_mem_above k _ (sorted_above _ _ _ _ Hs E)) in Hm. discriminate.
  - cbn [length]. f_equal. apply IH.
    + inversion Hs; assumption.
    + unfold om_mem in *. cbn [existsb fst] in Hm. rewrite E in Hm. exact Hm.
Qed.

Lemma om_insert_nonempty k v m : om_insert k v m <> [].
Proof. destruct m as [|[k' v'] m]; cbn [om_insert]; [discriminate|]. destruct (lex_cmp k k'); discriminate. Qed.

Lemma om_remove_length k m : length (om_remove k m) <= length m /\ length m <= S (length (om_remove k m)).
Proof.
  induction m as [|[k' v'] m IH]; cbn [om_remove length]; [lia|].
  destruct (lex_cmp k k'); cbn [length]; lia.
Qed.

(** Splitting a full node and inserting into the proper half. *)
Lemma split_insert k v lo hi :
  om_sorted (lo ++ hi) -> om_mem k (lo ++ hi) = false ->
  let to_new := match hi with
                | (k0, _) :: _ => match lex_cmp k0 k with Lt => true | _ => false end
                | [] => false
                end in
  (if to_new then lo else om_insert k v lo) ++ (if to_new then om_insert k v hi else hi)
  = om_insert k v (lo ++ hi).
Proof.
  intros Hs Hm. destruct hi as [|[k0 v0] hi]; cbn zeta.
  - now rewrite !app_nil_r.
  - destruct (lex_cmp k0 k) eqn:E.
    + exfalso. apply lex_cmp_eq in E. subst k0. unfold om_mem in Hm.
      rewrite existsb_app in Hm. cbn [existsb fst] in Hm. rewrite lex_cmp_refl in Hm.
      rewrite orb_true_r in Hm. discriminate.
    + symmetry. apply om_insert_app_l.
      apply ss_app_inv in Hs as [_ [_ Hall]]. rewrite Forall_forall in *.
      intros e He. specialize (Hall e He). inversion Hall as [|? ? Hlt _]; subst.
      unfold key_lt in Hlt; cbn [fst] in Hlt. unfold kbelow. apply lex_lt_gt.
      eapply lex_cmp_trans; eassumption.
    + symmetry. apply om_insert_app_r.
      apply ss_app_inv in Hs as [_ [Hs _]]. apply sorted_above; [exact Hs|].
      now apply lex_cmp_gt_lt.
Qed.

(** * The empty list *)

Lemma nth_error_repeat {A} (x : A) n i : i < n -> nth_error (repeat x n) i = Some x.
Proof.
  revert i. induction n as [|n IH]; intros i Hi; [lia|].
  destruct i as [|i]; cbn [repeat nth_error]; [reflexivity|]. apply IH. lia.
Qed.

Theorem wf_empty cap maxl : 2 <= cap -> 1 <= maxl -> wf (sl_empty cap maxl) [].
Proof.
  intros Hc Hm. unfold sl_empty.
  constructor; cbn [sl_cap sl_maxl sl_nodes sl_next]; try assumption.
  - constructor; [intros []|constructor].
  - intros [H|[]]. discriminate.
  - intros id. cbn [aget]. unfold sl_start. destruct (0 =? id)%N eqn:E.
    + apply N.eqb_eq in E. subst id. split; [left; reflexivity|discriminate].
    + apply N.eqb_neq in E. split; [congruence|]. intros [H|[]]. congruence.
  - intros id [<-|[]]. unfold sl_start. lia.
  - lia.
  - intros id [<-|[]]. unfold lev, fwlen. cbn [aget sl_start N.eqb n_level n_fwd].
    rewrite repeat_length. lia.
  - reflexivity.
  - intros l Hl. cbn [lvf filter]. unfold lev at 1. cbn [aget sl_start N.eqb n_level].
    replace (l <? maxl) with true by (symmetry; now apply Nat.ltb_lt).
    cbn [linked path]. unfold fw. cbn [aget sl_start N.eqb n_fwd]. now apply nth_error_repeat.
  - cbn. constructor.
  - intros id [].
  - intros id [<-|[]]. unfold node_cnt, ent. cbn. lia.
Qed.

(** * Accessors after adding / deleting a node *)

Lemma ent_aset ns a x id : ent (aset ns a x) id = if (a =? id)%N then n_entries x else ent ns id.
Proof. unfold ent. rewrite aget_aset. destruct (a =? id)%N; reflexivity. Qed.

Lemma lev_aset ns a x id : lev (aset ns a x) id = if (a =? id)%N then n_level x else lev ns id.
Proof. unfold lev. rewrite aget_aset. destruct (a =? id)%N; reflexivity. Qed.

Lemma fwlen_aset ns a x id :
  fwlen (aset ns a x) id = if (a =? id)%N then length (n_fwd x) else fwlen ns id.
Proof. unfold fwlen. rewrite aget_aset. destruct (a =? id)%N; reflexivity. Qed.

Lemma fw_aset ns a x id j :
  fw (aset ns a x) id j = if (a =? id)%N then nth_error (n_fwd x) j else fw ns id j.
Proof. unfold fw. rewrite aget_aset. destruct (a =? id)%N; reflexivity. Qed.

Lemma ent_adel ns a id : ent (adel ns a) id = if (a =? id)%N then [] else ent ns id.
Proof. unfold ent. rewrite aget_adel. destruct (a =? id)%N; reflexivity. Qed.

Lemma lev_adel ns a id : lev (adel ns a) id = if (a =? id)%N then 0 else lev ns id.
Proof. unfold lev. rewrite aget_adel. destruct (a =? id)%N; reflexivity. Qed.

Lemma fwlen_adel ns a id : fwlen (adel ns a) id = if (a =? id)%N then 0 else fwlen ns id.
Proof. unfold fwlen. rewrite aget_adel. destruct (a =? id)%N; reflexivity. Qed.

Lemma fw_adel ns a id j : fw (adel ns a) id j = if (a =? id)%N then None else fw ns id j.
Proof. unfold fw. rewrite aget_adel. destruct (a =? id)%N; reflexivity. Qed.

Lemma nth_firstn {A} (l : list A) n i d : i < n -> nth i (firstn n l) d = nth i l d.
Proof.
  revert n i. induction l as [|x l IH]; intros [|n] [|i] H; cbn [firstn nth]; try reflexivity; try lia.
  apply IH. lia.
Qed.

(** * In-place update of the entries of one node *)

Lemma flat_set_ent ns A n B es' : ~ In n A -> ~ In n B -> aget ns n <> None ->
  flat (set_ent ns n es') (A ++ n :: B) = flat ns A ++ es' ++ flat ns B.
Proof.
  intros HA HB Hn. rewrite flat_app, flat_cons.
  assert (Hoth : forall xs, ~ In n xs -> flat (set_ent ns n es') xs = flat ns xs).
  { intros xs Hxs. apply flat_ext. intros x Hx. rewrite ent_set_ent.
    destruct (n =? x)%N eqn:E; [|reflexivity]. apply N.eqb_eq in E. subst x. contradiction. }
  rewrite (Hoth A HA), (Hoth B HB). rewrite ent_set_ent, N.eqb_refl.
  destruct (aget ns n); [reflexivity|congruence].
Qed.

Lemma wf_set_ent s chain n es' : wf s chain -> In n (sl_start :: chain) ->
  om_sorted (flat (set_ent (sl_nodes s) n es') (sl_start :: chain)) ->
  (n <> sl_start -> es' <> []) -> node_cnt n es' <= sl_cap s ->
  wf (mkSl (set_ent (sl_nodes s) n es') (sl_next s) (sl_cap s) (sl_maxl s)) chain.
Proof.
  intros W Hn Hs Hne Hcnt.
  assert (Hdn : aget (sl_nodes s) n <> None) by (apply (wf_dom _ _ W); exact Hn).
  assert (Hent : forall id, ent (set_ent (sl_nodes s) n es') id =
                   if (n =? id)%N then es' else ent (sl_nodes s) id).
  { intros id. rewrite ent_set_ent. destruct (aget (sl_nodes s) n); [reflexivity|congruence]. }
  constructor; cbn [sl_cap sl_maxl sl_nodes sl_next].
  - apply (wf_cap _ _ W).
  - apply (wf_maxl _ _ W).
  - apply (wf_nodup _ _ W).
  - apply (wf_nosent _ _ W).
  - intros id. rewrite dom_set_ent. apply (wf_dom _ _ W).
  - apply (wf_fresh _ _ W).
  - apply (wf_next _ _ W).
  - intros id Hid. rewrite lev_set_ent, fwlen_set_ent. apply (wf_lev _ _ W id Hid).
  - rewrite lev_set_ent. apply (wf_start_lev _ _ W).
  - intros l Hl. rewrite (lvf_ext (sl_nodes s)) by (intros; apply lev_set_ent).
    eapply linked_ext; [|apply (wf_linked _ _ W l Hl)]. intros; apply fw_set_ent.
  - exact Hs.
  - intros id Hid. rewrite Hent. destruct (n =? id)%N eqn:E.
    + apply N.eqb_eq in E. subst id. apply Hne. intros ->.
      pose proof (wf_nodup _ _ W) as Hnd. inversion Hnd; contradiction.
    + apply (wf_nonempty _ _ W id Hid).
  - intros id Hid. rewrite Hent. destruct (n =? id)%N eqn:E.
    + apply N.eqb_eq in E. subst id. exact Hcnt.
    + apply (wf_cnt _ _ W id Hid).
Qed.

Lemma NoDup_mid_notin {A} (X : list A) a Y : NoDup (X ++ a :: Y) -> ~ In a X /\ ~ In a Y.
Proof.
  intros H. apply NoDup_app_inv in H as [_ [H2 H3]]. inversion H2 as [|? ? Hn _]; subst.
  split; [|exact Hn]. intros Hin. apply (H3 a Hin). left; reflexivity.
Qed.

(** * Insert *)

Section Insert.
  Variable spf : split_policy.
  Variable s : slist.
  Variable chain : list N.
  Hypothesis W : wf s chain.
  Variable k : list N.
  Variable v : rid.
  Variable lvl : nat.

  Local Notation ns := (sl_nodes s).
  Local Notation T0 := (take_while (nle (sl_nodes s) k) chain).
  Local Notation F0 := (drop_while (nle (sl_nodes s) k) chain).
  Local Notation PL l := (lvf (sl_nodes s) l (sl_start :: T0)).
  Local Notation FL l := (lvf (sl_nodes s) l F0).
  Local Notation L := (sl_start :: chain).
  Local Notation n := (last T0 sl_start).

  Lemma last_PL_in l : l < sl_maxl s -> In (last (PL l) sl_start) (PL l).
  Proof.
    intros Hl. destruct (PL_start s chain W k l Hl) as [r Hr]. rewrite Hr, last_cons.
    apply last_in_cons.
  Qed.

  Lemma insert_flat (A : list N) es :
    L = A ++ n :: F0 -> ent ns n = es ->
    Forall (kbelow k) (flat ns A) -> Forall (kabove k) (flat ns F0) ->
    om_insert k v (flat ns L) = flat ns A ++ om_insert k v es ++ flat ns F0.
  Proof.
    intros HL Hes Hb Ha. rewrite HL, flat_app, flat_cons, Hes.
    rewrite (om_insert_app_l _ _ _ _ Hb), (om_insert_app_r _ _ _ _ Ha). reflexivity.
  Qed.

  Lemma insert_split cs nd (A : list N) :
    sl_start :: T0 = A ++ [n] -> L = A ++ n :: F0 ->
    Forall (kbelow k) (flat ns A) -> Forall (kabove k) (flat ns F0) ->
    length cs = sl_maxl s ->
    (forall l, l < sl_maxl s -> nth l cs sl_start = last (PL l) sl_start) ->
    aget ns n = Some nd -> om_mem k (n_entries nd) = false ->
    node_cnt n (n_entries nd) = sl_cap s ->
    exists s' chain', sl_split_insert spf k v lvl s n cs (n_entries nd) = Ok s' /\
      wf s' chain' /\
      flat (sl_nodes s') (sl_start :: chain') = om_insert k v (flat ns L).
  Proof.
    intros HA HL Hbel Habv Hlcs Hco End Hnm Hfull.
    set (es := n_entries nd) in *.
    assert (Hes : ent ns n = es) by (unfold ent; rewrite End; reflexivity).
    pose proof (wf_maxl _ _ W) as Hmaxl. pose proof (wf_cap _ _ W) as Hcap.
    unfold sl_split_insert.
    set (lv := clamp_level (sl_maxl s) lvl).
    assert (Hlv : 1 <= lv <= sl_maxl s) by (unfold lv, clamp_level; lia).
    set (nid := sl_next s).
    assert (Hcs : n :: tl cs = cs).
    { destruct cs as [|c0 cs']; [cbn [length] in Hlcs; lia|]. cbn [tl]. f_equal.
      specialize (Hco 0 ltac:(lia)). cbn [nth] in Hco. rewrite Hco.
      rewrite (PL0 s chain W k). symmetry. apply last_cons. }
    rewrite Hcs. set (CS := firstn lv cs).
    assert (HlCS : length CS = lv) by (unfold CS; rewrite firstn_length; lia).
    assert (HnCS : forall i, i < lv -> nth i CS sl_start = last (PL i) sl_start).
    { intros i Hi. unfold CS. rewrite nth_firstn by exact Hi. apply Hco. lia. }
    assert (HnL : In n L) by (rewrite HL; apply in_or_app; right; left; reflexivity).
    assert (Hpre : forall i, i < length CS -> 0 + i < fwlen ns (nth i CS sl_start)).
    { intros i Hi. rewrite HlCS in Hi. rewrite (HnCS i Hi). cbn [Nat.add].
      pose proof (last_PL_in i ltac:(lia)) as Hin. apply lvf_in in Hin as [Hin Hlt].
      apply (in_T0_chain s chain k) in Hin. destruct (wf_lev _ _ W _ Hin) as [_ E]. lia. }
    destruct (relink_spec nid CS ns 0 Hpre) as [ns1 [fws [Hr [Hlf [Hfws [Hsf [R1 [R2 R3]]]]]]]].
    rewrite Hr. cbn [Nat.add] in *. rewrite HlCS in *.
    destruct Hsf as [S1 [S2 [S3 [S4 S5]]]].
    set (keep := split_keep spf (n =? sl_start)%N es).
    set (lo := firstn keep es). set (hi := skipn keep es).
    assert (Hlohi : lo ++ hi = es) by apply firstn_skipn.
    assert (Hkeep : keep < length es /\ (n <> sl_start -> 1 <= keep) /\
                    keep + (if (n =? sl_start)%N then 1 else 0) + 1 <= sl_cap s /\
                    length es - keep + 1 <= sl_cap s).
    { unfold keep, split_keep. unfold node_cnt in Hfull. fold es in Hfull.
      destruct (n =? sl_start)%N eqn:E0.
      - split; [lia|]. split; [|lia]. intros H. apply N.eqb_eq in E0. contradiction.
      - split; [lia|]. split; lia. }
    destruct Hkeep as [Hk1 [Hk2 [Hk3 Hk4]]].
    assert (Hllo : length lo = keep) by (unfold lo; rewrite firstn_length; lia).
    assert (Hlhi : length hi = length es - keep) by (unfold hi; apply skipn_length).
    (* sortedness of the entries of n *)
    pose proof (wf_sorted _ _ W) as Hs. change (om_sorted (flat ns L)) in Hs.
    assert (Hses : om_sorted es).
    { rewrite HL, flat_app, flat_cons, Hes in Hs.
      apply ss_app_inv in Hs as [_ [Hs _]]. apply ss_app_inv in Hs. tauto. }
    set (to_new := match hi with
                   | (k0, _) :: _ => match lex_cmp k0 k with Lt => true | _ => false end
                   | [] => false
                   end).
    set (lo' := if to_new then lo else om_insert k v lo).
    set (hi' := if to_new then om_insert k v hi else hi).
    assert (Hsplit : lo' ++ hi' = om_insert k v es).
    { rewrite <- Hlohi. apply split_insert; rewrite Hlohi; assumption. }
    assert (Hlo'ne : n <> sl_start -> lo' <> []).
    { intros Hn0. specialize (Hk2 Hn0). unfold lo'. destruct to_new.
      - intros E. rewrite E in Hllo. cbn [length] in Hllo. lia.
      - apply om_insert_nonempty. }
    assert (Hhi'ne : hi' <> []).
    { unfold hi'. destruct to_new; [apply om_insert_nonempty|].
      intros E. rewrite E in Hlhi. cbn [length] in Hlhi. lia. }
    assert (Hlo'len : length lo' <= keep + 1).
    { unfold lo'. destruct to_new; [lia|]. pose proof (om_insert_length k v lo). lia. }
    assert (Hhi'len : length hi' <= length es - keep + 1).
    { unfold hi'. destruct to_new; [|lia]. pose proof (om_insert_length k v hi). lia. }
    set (ns2 := aset (set_ent ns1 n lo') nid (mkNode hi' lv fws)).
    (* freshness *)
    assert (Hfresh : forall x, In x L -> (nid =? x)%N = false).
    { intros x Hx. apply N.eqb_neq. pose proof (wf_fresh _ _ W x Hx). unfold nid. lia. }
    assert (Hn1 : aget ns1 n <> None).
    { rewrite S4. apply (wf_dom _ _ W). exact HnL. }
    assert (Eent : forall id, ent ns2 id =
              if (nid =? id)%N then hi' else if (n =? id)%N then lo' else ent ns id).
    { intros id. unfold ns2. rewrite ent_aset. cbn [n_entries].
      destruct (nid =? id)%N; [reflexivity|]. rewrite ent_set_ent.
      destruct (n =? id)%N; [destruct (aget ns1 n); [reflexivity|congruence]|apply S1]. }
    assert (Elev : forall id, lev ns2 id = if (nid =? id)%N then lv else lev ns id).
    { intros id. unfold ns2. rewrite lev_aset. cbn [n_level].
      destruct (nid =? id)%N; [reflexivity|]. rewrite lev_set_ent. apply S2. }
    assert (Efwl : forall id, fwlen ns2 id = if (nid =? id)%N then lv else fwlen ns id).
    { intros id. unfold ns2. rewrite fwlen_aset. cbn [n_fwd].
      destruct (nid =? id)%N; [exact Hlf|]. rewrite fwlen_set_ent. apply S3. }
    assert (Efw : forall id j, fw ns2 id j =
              if (nid =? id)%N then nth_error fws j else fw ns1 id j).
    { intros id j. unfold ns2. rewrite fw_aset. cbn [n_fwd].
      destruct (nid =? id)%N; [reflexivity|]. apply fw_set_ent. }
    assert (HL' : sl_start :: (T0 ++ nid :: F0) = (A ++ [n]) ++ nid :: F0).
    { rewrite <- HA. reflexivity. }
    pose proof (wf_nodup _ _ W) as Hnd.
    assert (HndL := Hnd). rewrite HL in HndL. destruct (NoDup_mid_notin _ _ _ HndL) as [HnA HnF].
    assert (HinA : forall x, In x A -> In x L).
    { intros x Hx. rewrite HL. apply in_or_app. left; exact Hx. }
    assert (HinF : forall x, In x F0 -> In x L).
    { intros x Hx. rewrite HL. apply in_or_app. right; right; exact Hx. }
    assert (Eold : forall xs, (forall x, In x xs -> In x L) -> ~ In n xs ->
                     flat ns2 xs = flat ns xs).
    { intros xs Hxs Hnx. apply flat_ext. intros x Hx. rewrite Eent, (Hfresh x (Hxs x Hx)).
      destruct (n =? x)%N eqn:E; [|reflexivity]. apply N.eqb_eq in E. subst x. contradiction. }
    assert (Hflat : flat ns2 (sl_start :: (T0 ++ nid :: F0)) = om_insert k v (flat ns L)).
    { rewrite (insert_flat A es HL Hes Hbel Habv), <- Hsplit.
      rewrite HL', !flat_app, !flat_cons.
      change (flat ns2 []) with (@nil (list N * rid)). rewrite app_nil_r.
      rewrite (Eold A HinA HnA), (Eold F0 HinF HnF).
      rewrite !Eent, N.eqb_refl, (Hfresh n HnL), N.eqb_refl.
      rewrite <- !app_assoc. reflexivity. }
    exists (mkSl ns2 (nid + 1)%N (sl_cap s) (sl_maxl s)), (T0 ++ nid :: F0).
    split; [reflexivity|]. split; [|exact Hflat].
    assert (HinL' : forall x, In x (sl_start :: (T0 ++ nid :: F0)) <-> x = nid \/ In x L).
    { intros x. rewrite (chain_split s chain k). cbn [app In]. rewrite !in_app_iff. cbn [In].
      split; intros H.
      - destruct H as [H|[H|[H|H]]]; auto.
      - destruct H as [H|[H|[H|H]]]; auto. }
    constructor; cbn [sl_cap sl_maxl sl_nodes sl_next].
    - exact Hcap.
    - exact Hmaxl.
    - (* NoDup *)
      change (NoDup ((sl_start :: T0) ++ nid :: F0)).
      apply NoDup_Add with (a := nid) (l := (sl_start :: T0) ++ F0).
      + apply Add_app.
      + rewrite <- (chain_split s chain k). split; [exact Hnd|].
        intros Hin. pose proof (wf_fresh _ _ W _ Hin). unfold nid in *. lia.
    - rewrite HinL'. intros [E|Hin]; [|apply (wf_nosent _ _ W); exact Hin].
      pose proof (wf_next _ _ W). unfold nid, sl_sentinel in *. lia.
    - intros id. rewrite HinL'. unfold ns2. rewrite aget_aset.
      destruct (nid =? id)%N eqn:E.
      + apply N.eqb_eq in E. split; [auto|discriminate].
      + apply N.eqb_neq in E. rewrite <- (wf_dom _ _ W id).
        pose proof (dom_set_ent ns1 n lo' id) as D1. pose proof (S4 id) as D2.
        split; [intros H; right; tauto|intros [H|H]; [congruence|tauto]].
    - intros id. rewrite HinL'. intros [->|Hin]; [lia|].
      pose proof (wf_fresh _ _ W _ Hin). unfold nid. lia.
    - pose proof (wf_next _ _ W). unfold nid. lia.
    - intros id. rewrite HinL'. rewrite Elev, Efwl. intros [->|Hin].
      + rewrite N.eqb_refl. lia.
      + rewrite (Hfresh id Hin). apply (wf_lev _ _ W id Hin).
    - rewrite Elev, (Hfresh sl_start (or_introl eq_refl)). apply (wf_start_lev _ _ W).
    - (* level chains *)
      intros l Hl.
      assert (Hold : forall xs, (forall x, In x xs -> In x L) -> lvf ns2 l xs = lvf ns l xs).
      { intros xs Hxs. apply lvf_ext. intros x Hx. rewrite Elev, (Hfresh x (Hxs x Hx)). reflexivity. }
      change (sl_start :: T0 ++ nid :: F0) with ((sl_start :: T0) ++ nid :: F0).
      rewrite lvf_app. change (nid :: F0) with ([nid] ++ F0). rewrite lvf_app.
      rewrite (Hold (sl_start :: T0) (in_T0_chain s chain k)), (Hold F0 HinF).
      pose proof (wf_linked _ _ W l Hl) as Hlk. rewrite (lvf_split s chain k) in Hlk.
      assert (HndP : NoDup (PL l ++ FL l)).
      { rewrite <- (lvf_split s chain k). apply NoDup_filter. exact Hnd. }
      assert (HinPF : forall x, In x (PL l ++ FL l) -> In x L).
      { intros x Hx. rewrite <- (lvf_split s chain k) in Hx. apply lvf_in in Hx. tauto. }
      destruct (Nat.lt_ge_cases l lv) as [Hlt|Hge].
      + (* the new node is linked at this level, after the corner *)
        replace (lvf ns2 l [nid]) with [nid].
        2:{ cbn [lvf filter]. rewrite Elev, N.eqb_refl.
            replace (l <? lv) with true by (symmetry; now apply Nat.ltb_lt). reflexivity. }
        set (c := last (PL l) sl_start).
        assert (HcP : PL l = removelast (PL l) ++ [c]).
        { apply app_removelast_last. destruct (PL_start s chain W k l Hl) as [r0 Hr0].
          rewrite Hr0. discriminate. }
        set (Q := removelast (PL l)) in *.
        rewrite HcP in Hlk, HndP, HinPF |- *. rewrite <- !app_assoc in *. cbn [app] in *.
        destruct (NoDup_mid_notin _ _ _ HndP) as [HcQ HcF].
        assert (HcL : In c L) by (apply HinPF; apply in_or_app; right; left; reflexivity).
        apply linked_insert with (ns := ns).
        * exact Hlk.
        * intros x Hx.
          assert (HxL : In x L).
          { apply HinPF. apply in_app_or in Hx as [Hx|Hx]; apply in_or_app; [left|right; right]; exact Hx. }
          rewrite Efw, (Hfresh x HxL). apply (R3 x l Hlt). rewrite (HnCS l Hlt). fold c.
          intros ->. apply in_app_or in Hx as [Hx|Hx]; contradiction.
        * rewrite Efw, (Hfresh c HcL).
          replace c with (nth l CS sl_start) by (apply HnCS; exact Hlt). apply R2. exact Hlt.
        * rewrite Efw, N.eqb_refl. rewrite (Hfws l Hlt), (HnCS l Hlt). reflexivity.
      + (* level above the new node: nothing changes *)
        replace (lvf ns2 l [nid]) with (@nil N).
        2:{ cbn [lvf filter]. rewrite Elev, N.eqb_refl.
            replace (l <? lv) with false by (symmetry; now apply Nat.ltb_ge). reflexivity. }
        cbn [app]. eapply linked_ext; [|exact Hlk].
        intros x Hx. rewrite Efw, (Hfresh x (HinPF x Hx)). apply R1. right. lia.
    - change (om_sorted (flat ns2 (sl_start :: (T0 ++ nid :: F0)))). rewrite Hflat.
      apply om_insert_sorted. exact Hs.
    - intros id Hid. assert (Hid' : In id (sl_start :: (T0 ++ nid :: F0))) by (right; exact Hid).
      apply HinL' in Hid'. rewrite Eent. destruct Hid' as [->|Hin].
      + rewrite N.eqb_refl. exact Hhi'ne.
      + rewrite (Hfresh id Hin). destruct (n =? id)%N eqn:E.
        * apply N.eqb_eq in E. apply Hlo'ne. rewrite E. intros ->.
          assert (Hnd' : NoDup (sl_start :: (T0 ++ nid :: F0))).
          { change (NoDup ((sl_start :: T0) ++ nid :: F0)).
            apply NoDup_Add with (a := nid) (l := (sl_start :: T0) ++ F0); [apply Add_app|].
            rewrite <- (chain_split s chain k). split; [exact Hnd|].
            intros Hin'. pose proof (wf_fresh _ _ W _ Hin'). unfold nid in *. lia. }
          inversion Hnd'; contradiction.
        * apply (wf_nonempty _ _ W). destruct Hin as [<-|Hin]; [|exact Hin].
          exfalso. apply in_app_or in Hid as [Hid|[Hid|Hid]].
          -- pose proof (in_T0_chain s chain k sl_start (or_intror Hid)) as H0.
             inversion Hnd as [|? ? Hn0 _]; subst. apply Hn0.
             destruct H0 as [_|H0]; [|exact H0].
             rewrite <- (take_drop_while (nle ns k) chain). apply in_or_app. left; exact Hid.
          -- pose proof (Hfresh sl_start (or_introl eq_refl)) as Hf0. apply N.eqb_neq in Hf0. congruence.
          -- inversion Hnd as [|? ? Hn0 _]; subst. apply Hn0.
             rewrite <- (take_drop_while (nle ns k) chain). apply in_or_app. right; exact Hid.
    - intros id. rewrite HinL', Eent. intros [->|Hin].
      + rewrite N.eqb_refl. unfold node_cnt.
        replace (nid =? sl_start)%N with false
          by (symmetry; apply (Hfresh sl_start); left; reflexivity). lia.
      + rewrite (Hfresh id Hin). destruct (n =? id)%N eqn:E.
        * apply N.eqb_eq in E. subst id. unfold node_cnt. lia.
        * apply (wf_cnt _ _ W id Hin).
  Qed.
End Insert.

Theorem insert_spec spf s chain k v lvl : wf s chain ->
  exists s' chain', sl_insert_with spf k v lvl s = Ok s' /\ wf s' chain' /\
    flat (sl_nodes s') (sl_start :: chain') =
    om_insert k v (flat (sl_nodes s) (sl_start :: chain)).
Proof.
  intros W.
  destruct (find_spec s chain W k false) as [cs [ps [Hf [Hlcs [Hco _]]]]].
  destruct (found_split s chain W k) as [A [HA [HL [Hbel Habv]]]].
  unfold sl_insert_with. rewrite Hf. cbn [rbind].
  set (n := last (take_while (nle (sl_nodes s) k) chain) sl_start) in *.
  set (F0 := drop_while (nle (sl_nodes s) k) chain) in *.
  assert (HnL : In n (sl_start :: chain)) by (rewrite HL; apply in_or_app; right; left; reflexivity).
  destruct (aget (sl_nodes s) n) as [nd|] eqn:End;
    [|exfalso; apply (wf_dom _ _ W) in HnL; congruence].
  assert (Hes : ent (sl_nodes s) n = n_entries nd) by (unfold ent; rewrite End; reflexivity).
  destruct (om_mem k (n_entries nd) || (node_cnt n (n_entries nd) <? sl_cap s)) eqn:Ecase.
  - (* in place *)
    pose proof (wf_nodup _ _ W) as Hnd. rewrite HL in Hnd.
    destruct (NoDup_mid_notin _ _ _ Hnd) as [HnA HnF].
    assert (Hdn : aget (sl_nodes s) n <> None) by congruence.
    assert (Hflat : flat (set_ent (sl_nodes s) n (om_insert k v (n_entries nd))) (sl_start :: chain)
                    = om_insert k v (flat (sl_nodes s) (sl_start :: chain))).
    { rewrite (insert_flat s chain k v A (n_entries nd) HL Hes Hbel Habv).
      rewrite HL at 1. apply flat_set_ent; assumption. }
    eexists. exists chain. split; [reflexivity|]. cbn [sl_nodes]. split; [|exact Hflat].
    pose proof (wf_sorted _ _ W) as Hs.
    apply wf_set_ent; [exact W|exact HnL| | |].
    + rewrite Hflat. apply om_insert_sorted. exact Hs.
    + intros _. apply om_insert_nonempty.
    + pose proof (wf_cnt _ _ W n HnL) as Hc. rewrite Hes in Hc. unfold node_cnt in *.
      apply orb_true_iff in Ecase as [Em|Elt].
      * rewrite om_insert_length_mem; [exact Hc| |exact Em].
        change (om_sorted (flat (sl_nodes s) (sl_start :: chain))) in Hs.
        rewrite HL, flat_app, flat_cons, Hes in Hs.
        apply ss_app_inv in Hs as [_ [Hs _]]. apply ss_app_inv in Hs. tauto.
      * apply Nat.ltb_lt in Elt. pose proof (om_insert_length k v (n_entries nd)). lia.
  - apply orb_false_iff in Ecase as [Em Elt]. apply Nat.ltb_ge in Elt.
    apply (insert_split spf s chain W k v lvl cs nd A); auto.
    pose proof (wf_cnt _ _ W n HnL) as Hc. rewrite Hes in Hc. fold n. lia.
Qed.

(** * Remove *)

Lemma om_remove_not_mem k m : om_mem k m = false -> om_remove k m = m.
Proof.
  unfold om_mem. induction m as [|[k' v'] m IH]; [reflexivity|].
  cbn [existsb fst om_remove]. destruct (lex_cmp k k'); cbn [orb]; intros H;
    [discriminate|reflexivity|]. now rewrite IH.
Qed.

Lemma om_mem_single k es : om_mem k es = true -> length es = 1 -> exists v', es = [(k, v')].
Proof.
  destruct es as [|[k' v'] [|e r]]; cbn [length]; try discriminate; try lia.
  unfold om_mem. cbn [existsb fst]. destruct (lex_cmp k k') eqn:E; try discriminate.
  apply lex_cmp_eq in E. subst k'. eauto.
Qed.

Lemma remove_flat s chain k (A : list N) es :
  let ns := sl_nodes s in
  let n := last (take_while (nle ns k) chain) sl_start in
  let F0 := drop_while (nle ns k) chain in
  sl_start :: chain = A ++ n :: F0 -> ent ns n = es ->
  Forall (kbelow k) (flat ns A) -> Forall (kabove k) (flat ns F0) ->
  om_remove k (flat ns (sl_start :: chain)) = flat ns A ++ om_remove k es ++ flat ns F0.
Proof.
  intros ns n F0 HL Hes Hb Ha. rewrite HL, flat_app, flat_cons, Hes.
  rewrite (om_remove_app_l _ _ _ Hb), (om_remove_app_r _ _ _ Ha). reflexivity.
Qed.

Section Remove.
  Variable s : slist.
  Variable chain : list N.
  Hypothesis W : wf s chain.
  Variable k : list N.

  Local Notation ns := (sl_nodes s).
  Local Notation T0 := (take_while (nle (sl_nodes s) k) chain).
  Local Notation F0 := (drop_while (nle (sl_nodes s) k) chain).
  Local Notation PL l := (lvf (sl_nodes s) l (sl_start :: T0)).
  Local Notation FL l := (lvf (sl_nodes s) l F0).
  Local Notation L := (sl_start :: chain).
  Local Notation n := (last T0 sl_start).

  (** The emptied node is unlinked at every level. *)
  Lemma remove_unlink cs p0 Q nd (A : list N) v' :
    sl_start :: T0 = A ++ [n] -> L = A ++ n :: F0 ->
    Forall (kbelow k) (flat ns A) -> Forall (kabove k) (flat ns F0) ->
    length cs = sl_maxl s ->
    (forall l, l < sl_maxl s -> corner_ok s chain k true l (nth l cs sl_start)) ->
    sl_start :: T0 = Q ++ [p0; n] ->
    aget ns n = Some nd -> n <> sl_start -> n_entries nd = [(k, v')] ->
    exists ns1 chain', sl_unlink ns n (p0 :: tl (firstn (n_level nd) cs)) 0 = Ok ns1 /\
      wf (mkSl (adel ns1 n) (sl_next s) (sl_cap s) (sl_maxl s)) chain' /\
      flat (adel ns1 n) (sl_start :: chain') = om_remove k (flat ns L).
  Proof.
    intros HA HL Hbel Habv Hlcs Hco HQ End Hn0 Hent.
    pose proof (wf_maxl _ _ W) as Hmaxl.
    assert (Hes : ent ns n = [(k, v')]) by (unfold ent; rewrite End; exact Hent).
    assert (Hln : lev ns n = n_level nd) by (unfold lev; rewrite End; reflexivity).
    assert (HnL : In n L) by (rewrite HL; apply in_or_app; right; left; reflexivity).
    destruct (wf_lev _ _ W n HnL) as [Hlev Hfwl]. rewrite Hln in *.
    set (ln := n_level nd) in *.
    assert (Htn : is_target ns k n = true).
    { unfold is_target. rewrite Hes, lex_cmp_refl.
      replace (n =? sl_start)%N with false by (symmetry; now apply N.eqb_neq). reflexivity. }
    (* A = Q ++ [p0] *)
    assert (HAQ : A = Q ++ [p0]).
    { rewrite HA in HQ. change (Q ++ [p0; n]) with (Q ++ [p0] ++ [n]) in HQ.
      rewrite app_assoc in HQ. apply app_inj_tail in HQ. tauto. }
    set (UL := p0 :: tl (firstn ln cs)).
    assert (HlUL : length UL = ln).
    { unfold UL. cbn [length]. destruct (firstn ln cs) as [|c0 r] eqn:E.
      - assert (Hl0 : length (firstn ln cs) = ln) by (rewrite firstn_length; lia).
        rewrite E in Hl0. cbn [length] in Hl0. lia.
      - cbn [tl]. assert (Hl0 : length (firstn ln cs) = ln) by (rewrite firstn_length; lia).
        rewrite E in Hl0. cbn [length] in Hl0. lia. }
    assert (HnUL : forall i, 0 < i -> i < ln -> nth i UL sl_start = nth i cs sl_start).
    { intros i Hi0 Hi. unfold UL. destruct i as [|i]; [lia|]. cbn [nth].
      rewrite <- (nth_firstn cs ln (S i) sl_start Hi).
      destruct (firstn ln cs); [destruct i; reflexivity|reflexivity]. }
    (* the node is the last one of PL l below its level, absent above *)
    assert (HPLn : forall l, l < ln -> PL l = lvf ns l A ++ [n]).
    { intros l Hl. rewrite HA, lvf_app. f_equal. cbn [lvf filter]. rewrite Hln.
      replace (l <? ln) with true by (symmetry; now apply Nat.ltb_lt). reflexivity. }
    assert (HPLn' : forall l, ln <= l -> PL l = lvf ns l A).
    { intros l Hl. rewrite HA, lvf_app. cbn [lvf filter]. rewrite Hln.
      replace (l <? ln) with false by (symmetry; now apply Nat.ltb_ge). apply app_nil_r. }
    assert (Hlast : forall l, l < ln -> last (PL l) sl_start = n).
    { intros l Hl. rewrite (HPLn l Hl). rewrite (last_app_cons (lvf ns l A) n [] sl_start). reflexivity. }
    (* the pointers to redirect *)
    assert (HU : forall i, i < ln -> exists Qi, lvf ns i A = Qi ++ [nth i UL sl_start]).
    { intros i Hi. destruct i as [|i].
      - exists Q. cbn [nth UL]. rewrite lvf_all; [exact HAQ|].
        intros x Hx. assert (HxL : In x L) by (rewrite HL; apply in_or_app; left; exact Hx).
        destruct (wf_lev _ _ W x HxL). lia.
      - rewrite (HnUL (S i)) by lia. specialize (Hco (S i) ltac:(lia)).
        unfold corner_ok in Hco. rewrite (Hlast (S i) Hi), Htn in Hco. cbn [andb Nat.eqb negb] in Hco.
        destruct Hco as [Qi HQi]. exists Qi. rewrite (HPLn (S i) Hi) in HQi.
        change (Qi ++ [nth (S i) cs sl_start; n]) with (Qi ++ [nth (S i) cs sl_start] ++ [n]) in HQi.
        rewrite app_assoc in HQi. apply app_inj_tail in HQi. tauto. }
    assert (HinA : forall x, In x A -> In x L).
    { intros x Hx. rewrite HL. apply in_or_app. left; exact Hx. }
    assert (HinF : forall x, In x F0 -> In x L).
    { intros x Hx. rewrite HL. apply in_or_app. right; right; exact Hx. }
    assert (Hpre : forall i, i < length UL ->
              0 + i < fwlen ns (nth i UL sl_start) /\ 0 + i < fwlen ns n).
    { intros i Hi. rewrite HlUL in Hi. cbn [Nat.add]. split; [|lia].
      destruct (HU i Hi) as [Qi HQi].
      assert (Hin : In (nth i UL sl_start) (lvf ns i A)) by (rewrite HQi; apply in_or_app; right; left; reflexivity).
      apply lvf_in in Hin as [Hin Hlt]. destruct (wf_lev _ _ W _ (HinA _ Hin)) as [_ E]. lia. }
    destruct (unlink_spec n UL ns 0 Hpre) as [ns1 [Hr [Hsf [U1 [U2 U3]]]]].
    cbn [Nat.add] in *. rewrite HlUL in *.
    destruct Hsf as [S1 [S2 [S3 [S4 S5]]]].
    pose proof (wf_nodup _ _ W) as Hnd.
    assert (HndL := Hnd). rewrite HL in HndL. destruct (NoDup_mid_notin _ _ _ HndL) as [HnA HnF].
    assert (HA0 : exists A1, A = sl_start :: A1).
    { destruct A as [|a A1]; [destruct Q; discriminate|]. cbn [app] in HA.
      injection HA as <- _. eauto. }
    destruct HA0 as [A1 HA1].
    set (ns2 := adel ns1 n).
    assert (Hnx : forall x, In x (A ++ F0) -> (n =? x)%N = false).
    { intros x Hx. apply N.eqb_neq. intros <-. apply in_app_or in Hx as [Hx|Hx]; contradiction. }
    assert (HinL' : forall x, In x (A ++ F0) -> In x L).
    { intros x Hx. apply in_app_or in Hx as [Hx|Hx]; auto. }
    assert (Eent : forall x, In x (A ++ F0) -> ent ns2 x = ent ns x).
    { intros x Hx. unfold ns2. rewrite ent_adel, (Hnx x Hx). apply S1. }
    assert (Elev : forall x, In x (A ++ F0) -> lev ns2 x = lev ns x).
    { intros x Hx. unfold ns2. rewrite lev_adel, (Hnx x Hx). apply S2. }
    assert (Efwl : forall x, In x (A ++ F0) -> fwlen ns2 x = fwlen ns x).
    { intros x Hx. unfold ns2. rewrite fwlen_adel, (Hnx x Hx). apply S3. }
    assert (Efw : forall x j, In x (A ++ F0) -> fw ns2 x j = fw ns1 x j).
    { intros x j Hx. unfold ns2. rewrite fw_adel, (Hnx x Hx). reflexivity. }
    assert (Hflat : flat ns2 (A ++ F0) = om_remove k (flat ns L)).
    { rewrite (remove_flat s chain k A [(k, v')] HL Hes Hbel Habv).
      cbn [om_remove]. rewrite lex_cmp_refl. cbn [app].
      rewrite <- flat_app. apply flat_ext. exact Eent. }
    exists ns1, (A1 ++ F0). split; [exact Hr|].
    change (sl_start :: A1 ++ F0) with ((sl_start :: A1) ++ F0). rewrite <- HA1.
    split; [|exact Hflat].
    constructor; cbn [sl_cap sl_maxl sl_nodes sl_next];
      change (sl_start :: A1 ++ F0) with ((sl_start :: A1) ++ F0); rewrite <- ?HA1.
    - apply (wf_cap _ _ W).
    - exact Hmaxl.
    - eapply NoDup_remove_1. exact HndL.
    - intros Hin. apply (wf_nosent _ _ W). auto.
    - intros id. fold ns2. unfold ns2. rewrite aget_adel. destruct (n =? id)%N eqn:E.
      + apply N.eqb_eq in E. subst id. split; [congruence|].
        intros Hin. apply in_app_or in Hin as [Hin|Hin]; contradiction.
      + apply N.eqb_neq in E. pose proof (S4 id) as D. pose proof (wf_dom _ _ W id) as D2.
        split.
        * intros H. assert (HidL : In id L) by (apply D2; tauto).
          rewrite HL in HidL. apply in_app_or in HidL as [H1|[H1|H1]]; [|congruence|];
            apply in_or_app; auto.
        * intros H. apply HinL' in H. apply D2 in H. tauto.
    - intros id Hid. apply (wf_fresh _ _ W). auto.
    - apply (wf_next _ _ W).
    - intros id Hid. fold ns2. rewrite (Elev id Hid), (Efwl id Hid). apply (wf_lev _ _ W). auto.
    - fold ns2. rewrite Elev by (rewrite HA1; left; reflexivity). apply (wf_start_lev _ _ W).
    - (* level chains *)
      intros l Hl. fold ns2.
      rewrite (lvf_ext ns ns2) by exact Elev. rewrite lvf_app.
      pose proof (wf_linked _ _ W l Hl) as Hlk. rewrite (lvf_split s chain k) in Hlk.
      assert (HndP : NoDup (PL l ++ FL l)).
      { rewrite <- (lvf_split s chain k). apply NoDup_filter. exact Hnd. }
      destruct (Nat.lt_ge_cases l ln) as [Hlt|Hge].
      + destruct (HU l Hlt) as [Ql HQl]. set (u := nth l UL sl_start) in *.
        rewrite (HPLn l Hlt), HQl in Hlk, HndP. rewrite <- !app_assoc in Hlk, HndP.
        cbn [app] in Hlk, HndP. rewrite HQl, <- app_assoc. cbn [app].
        destruct (NoDup_mid_notin _ _ _ HndP) as [HuQ HuF].
        assert (HQA : forall x, In x Ql -> In x (A ++ F0)).
        { intros x Hx. apply in_or_app. left.
          assert (Hx' : In x (lvf ns l A)) by (rewrite HQl; apply in_or_app; left; exact Hx).
          apply lvf_in in Hx'. tauto. }
        assert (HFA : forall x, In x (FL l) -> In x (A ++ F0)).
        { intros x Hx. apply in_or_app. right. apply lvf_in in Hx. tauto. }
        assert (HuA : In u (A ++ F0)).
        { apply in_or_app. left.
          assert (Hx' : In u (lvf ns l A)) by (rewrite HQl; apply in_or_app; right; left; reflexivity).
          apply lvf_in in Hx'. tauto. }
        apply linked_remove with (ns := ns) (t := n).
        * exact Hlk.
        * intros x Hx.
          assert (HxA : In x (A ++ F0)) by (apply in_app_or in Hx as [Hx|Hx]; auto).
          rewrite (Efw x l HxA). apply (U3 x l Hlt). fold u. intros ->.
          apply in_app_or in Hx as [Hx|Hx]; [contradiction|].
          apply HuF. right; exact Hx.
        * rewrite (Efw u l HuA). apply (U2 l Hlt).
      + rewrite <- (HPLn' l Hge). eapply linked_ext; [|exact Hlk].
        intros x Hx.
        assert (HxA : In x (A ++ F0)).
        { rewrite (HPLn' l Hge) in Hx. apply in_app_or in Hx as [Hx|Hx]; apply lvf_in in Hx;
            apply in_or_app; tauto. }
        rewrite (Efw x l HxA). apply U1. right. lia.
    - fold ns2. change (om_sorted (flat ns2 (A ++ F0))). rewrite Hflat.
      apply om_remove_sorted. apply (wf_sorted _ _ W).
    - intros id Hid. fold ns2.
      assert (HidA : In id (A ++ F0)) by (rewrite HA1; right; exact Hid).
      rewrite (Eent id HidA). apply (wf_nonempty _ _ W).
      pose proof (HinL' id HidA) as HidL. destruct HidL as [<-|HidL]; [|exact HidL].
      exfalso. rewrite HA1 in HndL. cbn [app] in HndL. inversion HndL as [|? ? Hn0' _]; subst.
      apply Hn0'. apply in_app_or in Hid as [Hid|Hid]; apply in_or_app; [left|right; right]; exact Hid.
    - intros id Hid. fold ns2. rewrite (Eent id Hid). apply (wf_cnt _ _ W). auto.
  Qed.
End Remove.

Theorem remove_spec s chain k : wf s chain ->
  exists s' chain', sl_remove k s = Ok s' /\ wf s' chain' /\
    flat (sl_nodes s') (sl_start :: chain') =
    om_remove k (flat (sl_nodes s) (sl_start :: chain)).
Proof.
  intros W.
  destruct (find_spec s chain W k true) as [cs [ps [Hf [Hlcs [Hco Hpo]]]]].
  destruct (found_split s chain W k) as [A [HA [HL [Hbel Habv]]]].
  unfold sl_remove. rewrite Hf. cbn [rbind].
  set (n := last (take_while (nle (sl_nodes s) k) chain) sl_start) in *.
  assert (HnL : In n (sl_start :: chain)) by (rewrite HL; apply in_or_app; right; left; reflexivity).
  destruct (aget (sl_nodes s) n) as [nd|] eqn:End;
    [|exfalso; apply (wf_dom _ _ W) in HnL; congruence].
  assert (Hes : ent (sl_nodes s) n = n_entries nd) by (unfold ent; rewrite End; reflexivity).
  pose proof (remove_flat s chain k A (n_entries nd) HL Hes Hbel Habv) as Hrf.
  destruct (om_mem k (n_entries nd)) eqn:Em.
  - destruct (negb (n =? sl_start)%N && (length (n_entries nd) =? 1)) eqn:Eun.
    + (* the node becomes empty *)
      apply andb_true_iff in Eun as [En0 Elen].
      apply negb_true_iff, N.eqb_neq in En0. apply Nat.eqb_eq in Elen.
      destruct (om_mem_single _ _ Em Elen) as [v' Hent].
      assert (Htn : is_target (sl_nodes s) k n = true).
      { unfold is_target. rewrite Hes, Hent, lex_cmp_refl.
        replace (n =? sl_start)%N with false by (symmetry; now apply N.eqb_neq). reflexivity. }
      destruct (Hpo eq_refl Htn) as [Q [p0 [HQ Hp0]]].
      destruct ps as [|[p|] ps]; try discriminate. cbn [hd_error] in Hp0.
      injection Hp0 as ->. cbv beta iota.
      destruct (remove_unlink s chain W k cs p0 Q nd A v' HA HL Hbel Habv Hlcs Hco HQ End En0 Hent)
        as [ns1 [chain' [Hr [W' Hflat]]]].
      fold n in Hr. rewrite Hr. eexists. exists chain'. split; [reflexivity|]. cbn [sl_nodes]. split; assumption.
    + (* an entry of a node that stays *)
      pose proof (wf_nodup _ _ W) as Hnd. rewrite HL in Hnd.
      destruct (NoDup_mid_notin _ _ _ Hnd) as [HnA HnF].
      assert (Hdn : aget (sl_nodes s) n <> None) by congruence.
      assert (Hflat : flat (set_ent (sl_nodes s) n (om_remove k (n_entries nd))) (sl_start :: chain)
                      = om_remove k (flat (sl_nodes s) (sl_start :: chain))).
      { rewrite Hrf. rewrite HL at 1. apply flat_set_ent; assumption. }
      eexists. exists chain. split; [reflexivity|]. cbn [sl_nodes]. split; [|exact Hflat].
      apply wf_set_ent; [exact W|exact HnL| | |].
      * rewrite Hflat. apply om_remove_sorted. apply (wf_sorted _ _ W).
      * intros Hn0. apply andb_false_iff in Eun as [E|E].
        { apply negb_false_iff, N.eqb_eq in E. contradiction. }
        apply Nat.eqb_neq in E.
        assert (Hne : ent (sl_nodes s) n <> []).
        { apply (wf_nonempty _ _ W). destruct HnL as [E0|HnL]; [congruence|exact HnL]. }
        rewrite Hes in Hne. pose proof (om_remove_length k (n_entries nd)) as [_ Hl].
        intros E'. rewrite E' in Hl. cbn [length] in Hl.
        destruct (n_entries nd) as [|e [|e' r]]; cbn [length] in *; try congruence; lia.
      * pose proof (wf_cnt _ _ W n HnL) as Hc. rewrite Hes in Hc. unfold node_cnt in *.
        pose proof (om_remove_length k (n_entries nd)) as [Hl _]. lia.
  - (* absent key *)
    exists s, chain. split; [reflexivity|]. split; [exact W|].
    rewrite Hrf, (om_remove_not_mem _ _ Em), <- Hes, HL, flat_app, flat_cons. reflexivity.
Qed.

(** * Operation sequences *)

Theorem inv_empty cap maxl : 2 <= cap -> 1 <= maxl -> sl_inv (sl_empty cap maxl).
Proof. intros Hc Hm. exists []. now apply wf_empty. Qed.

Theorem to_list_empty cap maxl : 2 <= cap -> 1 <= maxl ->
  sl_to_list (sl_empty cap maxl) = Ok om_empty.
Proof.
  intros Hc Hm. rewrite (to_list_spec _ [] (wf_empty cap maxl Hc Hm)). reflexivity.
Qed.

(** The abstraction relation: the invariant holds and the level-0 walk yields [m]. *)
Definition sl_abs (s : slist) (m : omap) : Prop :=
  exists chain, wf s chain /\ flat (sl_nodes s) (sl_start :: chain) = m.

Lemma sl_abs_inv s m : sl_abs s m -> sl_inv s.
Proof. intros [chain [W _]]. exists chain. exact W. Qed.

Lemma sl_abs_of_inv s : sl_inv s -> exists m, sl_abs s m.
Proof. intros [chain W]. eexists. exists chain. split; [exact W|reflexivity]. Qed.

Lemma sl_abs_sorted s m : sl_abs s m -> om_sorted m.
Proof. intros [chain [W <-]]. apply (wf_sorted _ _ W). Qed.

Lemma sl_abs_to_list s m : sl_abs s m -> sl_to_list s = Ok m.
Proof. intros [chain [W <-]]. now apply to_list_spec. Qed.

Lemma sl_abs_get s m k : sl_abs s m -> sl_get k s = Ok (om_find k m).
Proof. intros [chain [W <-]]. now apply get_spec. Qed.

Lemma sl_abs_range s m lo hi : sl_abs s m -> sl_range lo hi s = Ok (om_range lo hi m).
Proof. intros [chain [W <-]]. now apply range_spec. Qed.

Lemma sl_abs_find s m rm k : sl_abs s m -> exists r, sl_find rm k s = Ok r.
Proof. intros [chain [W _]]. destruct (find_spec s chain W k rm) as [cs [ps [H _]]]. eauto. Qed.

Lemma sl_abs_insert spf s m k v lvl : sl_abs s m ->
  exists s', sl_insert_with spf k v lvl s = Ok s' /\ sl_abs s' (om_insert k v m).
Proof.
  intros [chain [W <-]]. destruct (insert_spec spf s chain k v lvl W) as [s' [chain' [H1 [H2 H3]]]].
  exists s'. split; [exact H1|]. exists chain'. split; assumption.
Qed.

Lemma sl_abs_remove s m k : sl_abs s m ->
  exists s', sl_remove k s = Ok s' /\ sl_abs s' (om_remove k m).
Proof.
  intros [chain [W <-]]. destruct (remove_spec s chain k W) as [s' [chain' [H1 [H2 H3]]]].
  exists s'. split; [exact H1|]. exists chain'. split; assumption.
Qed.

Lemma sl_abs_apply spf s m o : sl_abs s m ->
  exists s', sl_apply spf s o = Ok s' /\ sl_abs s' (om_apply m o).
Proof. destruct o as [k v lvl|k]; cbn [sl_apply om_apply]; [apply sl_abs_insert|apply sl_abs_remove]. Qed.

Lemma sl_abs_run_from spf ops : forall s m, sl_abs s m ->
  exists s', sl_run_from spf s ops = Ok s' /\ sl_abs s' (fold_left om_apply ops m).
Proof.
  induction ops as [|o ops IH]; intros s m Habs; cbn [sl_run_from fold_left].
  - exists s. split; [reflexivity|exact Habs].
  - destruct (sl_abs_apply spf s m o Habs) as [s1 [H1 H2]]. rewrite H1. cbn [rbind].
    apply IH. exact H2.
Qed.

Lemma sl_abs_empty cap maxl : 2 <= cap -> 1 <= maxl -> sl_abs (sl_empty cap maxl) om_empty.
Proof. intros Hc Hm. exists []. split; [now apply wf_empty|reflexivity]. Qed.

(** Every run from the empty list succeeds and ends in a state that abstracts
    to the specification's result. *)
Theorem run_abs spf cap maxl ops : 2 <= cap -> 1 <= maxl ->
  exists s, sl_run spf cap maxl ops = Ok s /\ sl_abs s (om_run ops).
Proof.
  intros Hc Hm. unfold sl_run, om_run. apply sl_abs_run_from. now apply sl_abs_empty.
Qed.

(** The property-level statements. *)
Theorem skiplist_refines spf cap maxl ops : 2 <= cap -> 1 <= maxl ->
  exists s, sl_run spf cap maxl ops = Ok s /\
    sl_to_list s = Ok (om_run ops) /\
    (forall k, sl_get k s = Ok (om_find k (om_run ops))) /\
    (forall lo hi, sl_range lo hi s = Ok (om_range lo hi (om_run ops))) /\
    (forall o, exists s', sl_apply spf s o = Ok s' /\
               sl_to_list s' = Ok (om_apply (om_run ops) o)).
Proof.
  intros Hc Hm. destruct (run_abs spf cap maxl ops Hc Hm) as [s [Hr Ha]].
  exists s. split; [exact Hr|]. split; [now apply sl_abs_to_list|].
  split; [intros k; now apply sl_abs_get|]. split; [intros lo hi; now apply sl_abs_range|].
  intros o. destruct (sl_abs_apply spf s _ o Ha) as [s' [H1 H2]].
  exists s'. split; [exact H1|now apply sl_abs_to_list].
Qed.

Theorem skiplist_inv_reachable spf cap maxl ops : 2 <= cap -> 1 <= maxl ->
  exists s, sl_run spf cap maxl ops = Ok s /\ sl_inv s.
Proof.
  intros Hc Hm. destruct (run_abs spf cap maxl ops Hc Hm) as [s [Hr Ha]].
  exists s. split; [exact Hr|]. eapply sl_abs_inv; exact Ha.
Qed.

Theorem skiplist_no_fuel_error spf cap maxl ops : 2 <= cap -> 1 <= maxl ->
  exists s, sl_run spf cap maxl ops = Ok s /\
    (forall rm k, exists r, sl_find rm k s = Ok r) /\
    (exists l, sl_to_list s = Ok l) /\
    (forall lo hi, exists l, sl_range lo hi s = Ok l).
Proof.
  intros Hc Hm. destruct (run_abs spf cap maxl ops Hc Hm) as [s [Hr Ha]].
  exists s. split; [exact Hr|]. split; [intros rm k; eapply sl_abs_find; exact Ha|].
  split; [eexists; eapply sl_abs_to_list; exact Ha|].
  intros lo hi. eexists. eapply sl_abs_range; exact Ha.
Qed.

Theorem skiplist_scan_sorted_run spf cap maxl ops : 2 <= cap -> 1 <= maxl ->
  exists s l, sl_run spf cap maxl ops = Ok s /\ sl_to_list s = Ok l /\
    om_sorted l /\ om_sortedb l = true /\ NoDup (map fst l) /\
    forall lo hi, exists r, sl_range lo hi s = Ok r /\ om_sorted r /\
      forall e, In e r <-> In e l /\ in_bounds lo hi (fst e) = true.
Proof.
  intros Hc Hm. destruct (run_abs spf cap maxl ops Hc Hm) as [s [Hr Ha]].
  pose proof (sl_abs_sorted _ _ Ha) as Hs.
  exists s, (om_run ops). split; [exact Hr|]. split; [now apply sl_abs_to_list|].
  split; [exact Hs|]. split; [now apply om_sortedb_complete|].
  split; [now apply om_sorted_nodup_keys|].
  intros lo hi. exists (om_range lo hi (om_run ops)). split; [now apply sl_abs_range|].
  split; [now apply om_range_sorted|]. intros e. unfold om_range. apply filter_In.
Qed.

(** Single steps from ANY state satisfying the invariant (not only reachable
    ones): the operation succeeds, preserves the invariant and commutes with
    the specification through [sl_to_list]. *)
Theorem insert_refines spf s k v lvl : sl_inv s ->
  exists m s', sl_to_list s = Ok m /\ sl_insert_with spf k v lvl s = Ok s' /\
    sl_inv s' /\ sl_to_list s' = Ok (om_insert k v m).
Proof.
  intros Hi. destruct (sl_abs_of_inv s Hi) as [m Ha].
  destruct (sl_abs_insert spf s m k v lvl Ha) as [s' [H1 H2]].
  exists m, s'. split; [now apply sl_abs_to_list|]. split; [exact H1|].
  split; [eapply sl_abs_inv; exact H2|now apply sl_abs_to_list].
Qed.

Theorem remove_refines s k : sl_inv s ->
  exists m s', sl_to_list s = Ok m /\ sl_remove k s = Ok s' /\
    sl_inv s' /\ sl_to_list s' = Ok (om_remove k m).
Proof.
  intros Hi. destruct (sl_abs_of_inv s Hi) as [m Ha].
  destruct (sl_abs_remove s m k Ha) as [s' [H1 H2]].
  exists m, s'. split; [now apply sl_abs_to_list|]. split; [exact H1|].
  split; [eapply sl_abs_inv; exact H2|now apply sl_abs_to_list].
Qed.

Theorem observe_refines s : sl_inv s ->
  exists m, sl_to_list s = Ok m /\ om_sorted m /\
    (forall k, sl_get k s = Ok (om_find k m)) /\
    (forall lo hi, sl_range lo hi s = Ok (om_range lo hi m)) /\
    (forall rm k, exists r, sl_find rm k s = Ok r).
Proof.
  intros Hi. destruct (sl_abs_of_inv s Hi) as [m Ha]. exists m.
  split; [now apply sl_abs_to_list|]. split; [eapply sl_abs_sorted; exact Ha|].
  split; [intros k; now apply sl_abs_get|]. split; [intros lo hi; now apply sl_abs_range|].
  intros rm k. eapply sl_abs_find; exact Ha.
Qed.
