From Coq Require Import List NArith Bool.
From SDB Require Import Base.Assoc Model.Page Model.Wal Proofs.WalProofs.
Import ListNotations.
Open Scope N_scope.

Lemma clean_restart : forall l disk,
  log_ok l = true -> fresh_pages_ok l [] = true -> disk_ok l disk = true ->
  losers l = [] ->
  (forall p, get_page disk p = get_page (replay l []) p) ->
  forall p, get_page (recover l (losers l) disk) p = get_page disk p.
Proof.
  intros l disk Hlog Hfresh Hdisk Hlos Hall p.
  rewrite Hlos. unfold recover, undo_all. cbn [fold_left].
  rewrite (redo_repeats l disk Hlog Hfresh Hdisk p). symmetry. apply Hall.
Qed.
