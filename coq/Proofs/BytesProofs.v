(** Lemmas about byte strings, endian encodings and the lexicographic order. *)
From Coq Require Import List NArith ZArith Lia Bool.
From Coq Require Import ZifyBool ZifyN ZifyNat.
From SDB Require Import Base.Bytes.
Import ListNotations.
Open Scope N_scope.

Ltac Zify.zify_post_hook ::= Z.div_mod_to_equations.

Lemma lex_cmp_refl a : lex_cmp a a = Eq.
Proof. induction a as [|x a IH]; cbn; [reflexivity|]. now rewrite N.compare_refl. Qed.

Lemma lex_cmp_eq a b : lex_cmp a b = Eq -> a = b.
Proof.
  revert b; induction a as [|x a IH]; intros [|y b]; cbn; try discriminate; auto.
  destruct (x ?= y) eqn:E; try discriminate.
  apply N.compare_eq in E; intros H; f_equal; auto.
Qed.

Lemma lex_cmp_antisym a b : lex_cmp b a = CompOpp (lex_cmp a b).
Proof.
  revert b; induction a as [|x a IH]; intros [|y b]; cbn; auto.
  rewrite (N.compare_antisym x y). destruct (x ?= y); cbn; auto.
Qed.

(** Equal-length prefixes decide. *)
Lemma lex_cmp_app a b c d :
  length a = length b ->
  lex_cmp (a ++ c) (b ++ d) =
  match lex_cmp a b with Eq => lex_cmp c d | r => r end.
Proof.
  revert b; induction a as [|x a IH]; intros [|y b] Hl; cbn in *; try discriminate; auto.
  destruct (x ?= y); auto.
Qed.

Lemma lex_cmp_app_same p c d : lex_cmp (p ++ c) (p ++ d) = lex_cmp c d.
Proof. rewrite lex_cmp_app by reflexivity. now rewrite lex_cmp_refl. Qed.

Lemma be_length n a : length (be n a) = n.
Proof. revert a; induction n as [|n IH]; intros a; cbn; [reflexivity|]. rewrite app_length, IH; cbn; lia. Qed.

Lemma le_length n a : length (le n a) = n.
Proof. revert a; induction n as [|n IH]; intros a; cbn; [reflexivity|]. now rewrite IH. Qed.

Lemma zeros_length n : length (zeros n) = n.
Proof. induction n; cbn; auto. Qed.

Lemma be_bytes_ok n a : bytes_ok (be n a) = true.
Proof.
  revert a; induction n as [|n IH]; intros a; cbn; [reflexivity|].
  unfold bytes_ok in *. rewrite forallb_app, IH; cbn. unfold is_byte.
  assert (a mod 256 < 256) by (apply N.mod_lt; lia). lia.
Qed.

Lemma le_bytes_ok n a : bytes_ok (le n a) = true.
Proof.
  revert a; induction n as [|n IH]; intros a; cbn; [reflexivity|].
  unfold bytes_ok in *. rewrite IH. unfold is_byte.
  assert (a mod 256 < 256) by (apply N.mod_lt; lia). lia.
Qed.

Lemma lex_cmp_single x y : lex_cmp [x] [y] = (x ?= y).
Proof. cbn. destruct (x ?= y); reflexivity. Qed.

Definition pow256 (n : nat) : N := 256 ^ N.of_nat n.

Lemma pow256_S n : pow256 (S n) = 256 * pow256 n.
Proof. unfold pow256. rewrite Nat2N.inj_succ, N.pow_succ_r'; reflexivity. Qed.

Lemma pow256_pos n : 0 < pow256 n.
Proof. unfold pow256. apply N.neq_0_lt_0, N.pow_nonzero; lia. Qed.

(** Big-endian encoding of a fixed width preserves the numeric order. *)
Lemma be_cmp n : forall a b, a < pow256 n -> b < pow256 n ->
  lex_cmp (be n a) (be n b) = (a ?= b).
Proof.
  induction n as [|n IH]; intros a b Ha Hb.
  - change (pow256 0) with 1 in *. assert (a = 0) by lia. assert (b = 0) by lia. subst; reflexivity.
  - rewrite pow256_S in Ha, Hb. cbn [be].
    rewrite lex_cmp_app by now rewrite !be_length.
    assert (Hq : a / 256 < pow256 n) by (apply N.div_lt_upper_bound; lia).
    assert (Hq' : b / 256 < pow256 n) by (apply N.div_lt_upper_bound; lia).
    rewrite IH by assumption.
    pose proof (N.div_mod a 256 ltac:(lia)) as Ea.
    pose proof (N.div_mod b 256 ltac:(lia)) as Eb.
    assert (a mod 256 < 256) by (apply N.mod_lt; lia).
    assert (b mod 256 < 256) by (apply N.mod_lt; lia).
    destruct (N.compare_spec (a / 256) (b / 256)) as [E|E|E].
    + rewrite lex_cmp_single.
      destruct (N.compare_spec (a mod 256) (b mod 256)) as [E2|E2|E2];
        destruct (N.compare_spec a b); try reflexivity; lia.
    + destruct (N.compare_spec a b); try reflexivity; lia.
    + destruct (N.compare_spec a b); try reflexivity; lia.
Qed.

Lemma be_dec_app l1 l2 acc : be_dec (l1 ++ l2) acc = be_dec l2 (be_dec l1 acc).
Proof. revert acc; induction l1 as [|x l1 IH]; intros acc; cbn; auto. Qed.

Lemma be_dec_be n : forall a acc, a < pow256 n ->
  be_dec (be n a) acc = acc * pow256 n + a.
Proof.
  induction n as [|n IH]; intros a acc Ha.
  - change (pow256 0) with 1 in *. cbn. lia.
  - rewrite pow256_S in *. cbn [be]. rewrite be_dec_app. cbn [be_dec].
    rewrite IH by (apply N.div_lt_upper_bound; lia).
    pose proof (N.div_mod a 256 ltac:(lia)). lia.
Qed.

Lemma le_dec_le n : forall a, a < pow256 n -> le_dec (le n a) = a.
Proof.
  induction n as [|n IH]; intros a Ha.
  - change (pow256 0) with 1 in *. cbn. lia.
  - rewrite pow256_S in *. cbn [le le_dec].
    rewrite IH by (apply N.div_lt_upper_bound; lia).
    pose proof (N.div_mod a 256 ltac:(lia)). lia.
Qed.

Lemma be_mod n : forall a, be n (a mod pow256 n) = be n a.
Proof.
  induction n as [|n IH]; intros a; [reflexivity|].
  cbn [be]. rewrite pow256_S.
  pose proof (pow256_pos n) as Hp.
  rewrite N.mod_mul_r by lia.
  assert (Hx : a mod 256 < 256) by (apply N.mod_lt; lia).
  f_equal.
  - rewrite (N.mul_comm 256), N.div_add by lia.
    rewrite (N.div_small (a mod 256)) by assumption.
    rewrite N.add_0_l. apply IH.
  - f_equal. rewrite (N.mul_comm 256), N.mod_add by lia. now rewrite N.mod_mod by lia.
Qed.

Lemma firstn_app_exact {A} (l1 l2 : list A) n : n = length l1 -> firstn n (l1 ++ l2) = l1.
Proof. intros ->. rewrite firstn_app, Nat.sub_diag, firstn_all; cbn. now rewrite app_nil_r. Qed.

Lemma skipn_app_exact {A} (l1 l2 : list A) n : n = length l1 -> skipn n (l1 ++ l2) = l2.
Proof. intros ->. rewrite skipn_app, Nat.sub_diag, skipn_all; reflexivity. Qed.
