(** Proofs about the row (tuple) codec model (Model/TupleCodec.v). *)
From Coq Require Import List NArith ZArith Lia Bool.
From Coq Require Import ZifyBool ZifyN ZifyNat.
From SDB Require Import Base.Bytes Model.Codec Model.TupleCodec Proofs.BytesProofs Proofs.CodecProofs.
Import ListNotations.
Open Scope N_scope.

Ltac Zify.zify_post_hook ::= Z.div_mod_to_equations.

(** * Lengths, words *)

Lemma tc_len_nil : tc_len [] = 0.
Proof. reflexivity. Qed.

Lemma tc_len_app a b : tc_len (a ++ b) = tc_len a + tc_len b.
Proof. unfold tc_len. rewrite app_length. lia. Qed.

Lemma tc_len_cons x l : tc_len (x :: l) = 1 + tc_len l.
Proof. unfold tc_len. cbn [length]. lia. Qed.

Lemma tc_len_to_nat l : N.to_nat (tc_len l) = length l.
Proof. unfold tc_len. lia. Qed.

Lemma tc_len_le n a : tc_len (le n a) = N.of_nat n.
Proof. unfold tc_len. now rewrite le_length. Qed.

Lemma tc_len_zeros n : tc_len (zeros n) = N.of_nat n.
Proof. unfold tc_len. now rewrite zeros_length. Qed.

Lemma zeros_app a b : zeros (a + b) = zeros a ++ zeros b.
Proof. induction a; cbn; [reflexivity|]. now rewrite IHa. Qed.

Lemma tc_u32_small x : x < 4294967296 -> tc_u32 x = x.
Proof. intros H. unfold tc_u32. now apply N.mod_small. Qed.

Lemma tc_u16_small x : x < 65536 -> tc_u16 x = x.
Proof. intros H. unfold tc_u16. now apply N.mod_small. Qed.

Lemma le_dec_le_mod n : forall a, le_dec (le n a) = a mod pow256 n.
Proof.
  induction n as [|n IH]; intros a.
  - change (pow256 0) with 1. cbn. now rewrite N.mod_1_r.
  - rewrite pow256_S. cbn [le le_dec]. rewrite IH.
    pose proof (pow256_pos n) as Hp.
    rewrite N.mod_mul_r by lia. lia.
Qed.

Lemma pow256_2 : pow256 2 = 65536.
Proof. reflexivity. Qed.

Lemma firstn_app_le {A} n (a b : list A) : (n <= length a)%nat -> firstn n (a ++ b) = firstn n a.
Proof.
  intros H. rewrite firstn_app. replace (n - length a)%nat with 0%nat by lia.
  cbn. now rewrite app_nil_r.
Qed.

(** * Slices *)

Lemma tc_from_mid pre x : tc_from (pre ++ x) (tc_len pre) = Some x.
Proof.
  unfold tc_from. rewrite tc_len_app.
  destruct (N.ltb_spec (tc_len pre + tc_len x) (tc_len pre)); [lia|].
  rewrite tc_len_to_nat. now rewrite skipn_app_exact.
Qed.

Lemma tc_slice_mid pre x rest lo hi :
  lo = tc_len pre -> hi = tc_len pre + tc_len x ->
  tc_slice (pre ++ x ++ rest) lo hi = Some x.
Proof.
  intros -> ->. unfold tc_slice. rewrite !tc_len_app.
  destruct (N.ltb_spec (tc_len pre + tc_len x) (tc_len pre)); [lia|].
  destruct (N.ltb_spec (tc_len pre + (tc_len x + tc_len rest)) (tc_len pre + tc_len x)); [lia|].
  cbn [orb]. rewrite tc_len_to_nat, skipn_app_exact by reflexivity.
  replace (tc_len pre + tc_len x - tc_len pre) with (tc_len x) by lia.
  rewrite tc_len_to_nat. now rewrite firstn_app_exact.
Qed.

(** Copy into a region of the same length *)
Lemma tc_copy_mid buf off A X C D :
  buf = A ++ X ++ C -> off = tc_len A -> length X = length D ->
  tc_copy buf off D = Some (A ++ D ++ C).
Proof.
  intros -> -> HX. unfold tc_copy. cbv zeta. rewrite tc_len_to_nat, !app_length.
  destruct (Nat.ltb_spec (length A + (length X + length C)) (length A)); [lia|].
  rewrite firstn_app_exact by reflexivity.
  rewrite firstn_all2 by lia.
  rewrite (app_assoc A X C), skipn_app_exact by (rewrite app_length; lia).
  reflexivity.
Qed.

(** * Values *)

Lemma tc_ser_len v : tc_len (tc_ser_val v) = tc_val_size_nowrap v.
Proof.
  destruct v as [z|u|b|s|[]]; cbn [tc_ser_val tc_val_size_nowrap tc_val_type tc_type_size];
    rewrite ?tc_len_cons, ?tc_len_app, ?tc_len_le, ?tc_len_nil; lia.
Qed.

Lemma tc_compat_inlined_size c v :
  tc_compat c v = true -> tc_inlined c = true -> tc_val_size_nowrap v = tc_fixed_len c.
Proof. destruct c, v as [z|u|b|s|[]]; cbn; intros; try discriminate; reflexivity. Qed.

Lemma tc_val_size_small v :
  tc_val_size_nowrap v < 4294967296 -> tc_val_size v = tc_val_size_nowrap v.
Proof.
  destruct v as [z|u|b|s|[]]; cbn [tc_val_size tc_val_size_nowrap]; try reflexivity.
  intros H. rewrite (tc_u32_small (tc_len s)) by lia. now apply tc_u32_small.
Qed.

Lemma tc_word_le n u rest : tc_word n (le n u ++ rest) = u mod pow256 n.
Proof.
  unfold tc_word. rewrite app_length, le_length.
  destruct (Nat.ltb_spec (n + length rest) n); [lia|].
  rewrite firstn_app_exact by now rewrite le_length.
  apply le_dec_le_mod.
Qed.

(** NewValueFromBytes on a Varchar image: flag, uint16 length field [n], then [body] *)
Lemma tc_dec_str f n body rest :
  tc_dec_val TcStr (f :: le 2 n ++ body ++ rest) =
  let hi := tc_u16 (tc_u16 n + 3) in
  if hi <? 3 then None
  else if tc_len body <? hi - 3 then tc_dec_val TcStr (f :: le 2 n ++ body ++ rest)
  else Some (if negb (f =? 0) then TvNull TcStr else TvStr (firstn (N.to_nat (hi - 3)) body)).
Proof.
  cbv zeta.
  destruct (N.ltb_spec (tc_u16 (tc_u16 n + 3)) 3) as [Hlo|Hlo].
  - unfold tc_dec_val. cbn [tl]. rewrite tc_word_le, pow256_2. fold (tc_u16 n).
    unfold tc_slice. destruct (N.ltb_spec (tc_u16 (tc_u16 n + 3)) 3); [reflexivity|lia].
  - destruct (N.ltb_spec (tc_len body) (tc_u16 (tc_u16 n + 3) - 3)) as [Hb|Hb]; [reflexivity|].
    unfold tc_dec_val. cbn [tl tc_flag]. rewrite tc_word_le, pow256_2. fold (tc_u16 n).
    set (hi := tc_u16 (tc_u16 n + 3)) in *.
    rewrite <- (firstn_skipn (N.to_nat (hi - 3)) body) at 1.
    rewrite <- app_assoc, app_comm_cons.
    rewrite (tc_slice_mid (f :: le 2 n) (firstn (N.to_nat (hi - 3)) body)); [reflexivity| |].
    + rewrite tc_len_cons, tc_len_le. reflexivity.
    + rewrite tc_len_cons, tc_len_le. unfold tc_len. rewrite firstn_length_le.
      * lia.
      * rewrite <- tc_len_to_nat. lia.
Qed.

Lemma tc_readback_fits v : tc_str_fits v = true -> tc_readback v = Some v.
Proof.
  destruct v as [z|u|b|s|ty]; try reflexivity.
  cbn [tc_str_fits tc_readback]. intros H. apply N.leb_le in H.
  rewrite (tc_u16_small (tc_len s)) by lia.
  rewrite tc_u16_small by lia.
  destruct (N.ltb_spec (tc_len s + 3) 3); [lia|].
  replace (tc_len s + 3 - 3) with (tc_len s) by lia.
  rewrite tc_len_to_nat, firstn_all. reflexivity.
Qed.

Lemma tc_readback_id v : tc_readback v = Some v -> tc_str_fits v = true.
Proof.
  destruct v as [z|u|b|s|ty]; try reflexivity.
  cbn [tc_str_fits tc_readback].
  destruct (N.ltb_spec (tc_u16 (tc_u16 (tc_len s) + 3)) 3) as [|Hlo]; [discriminate|].
  intros H. injection H as H.
  apply (f_equal (@length N)) in H.
  assert (Hhi : tc_u16 (tc_u16 (tc_len s) + 3) < 65536) by (unfold tc_u16; lia).
  rewrite firstn_length in H. apply N.leb_le.
  unfold tc_len in *. lia.
Qed.

(** NewValueFromBytes(Serialize(v) ++ anything, column type) *)
Lemma tc_dec_ser c v rest :
  tc_compat c v = true -> tc_val_ok v = true ->
  tc_dec_val c (tc_ser_val v ++ rest) = tc_readback (tc_as_col c v).
Proof.
  intros Hc Hok.
  destruct v as [z|u|b|s|ty].
  - destruct c; try discriminate Hc.
    cbn [tc_ser_val app tc_dec_val tc_flag tl tc_as_col tc_readback].
    rewrite tc_word_le, pow256_4. change (0 =? 0) with true. cbn [negb].
    rewrite N.mod_small by apply u32_of_z_lt.
    rewrite z_of_u32_of_z; [reflexivity|].
    cbn [tc_val_ok] in Hok. unfold int_ok. lia.
  - destruct c; try discriminate Hc.
    cbn [tc_ser_val app tc_dec_val tc_flag tl tc_as_col tc_readback].
    rewrite tc_word_le, pow256_4. change (0 =? 0) with true. cbn [negb].
    cbn [tc_val_ok] in Hok. unfold two32. rewrite N.mod_small by lia. reflexivity.
  - destruct c; try discriminate Hc. destruct b; reflexivity.
  - destruct c; try discriminate Hc.
    cbn [tc_ser_val tc_as_col]. rewrite <- app_comm_cons, <- app_assoc.
    rewrite tc_dec_str. cbv zeta. cbn [tc_readback].
    destruct (N.ltb_spec (tc_u16 (tc_u16 (tc_len s) + 3)) 3) as [|Hlo]; [reflexivity|].
    assert (Hhi : tc_u16 (tc_len s) <= tc_len s) by (unfold tc_u16; lia).
    assert (Hhi2 : tc_u16 (tc_u16 (tc_len s) + 3) <= tc_u16 (tc_len s) + 3) by (unfold tc_u16; lia).
    destruct (N.ltb_spec (tc_len s) (tc_u16 (tc_u16 (tc_len s) + 3) - 3)); [lia|].
    reflexivity.
  - assert (Hs : forall r, tc_dec_val TcStr (1 :: 0 :: 0 :: r) = Some (TvNull TcStr)).
    { intros r. change (1 :: 0 :: 0 :: r) with (1 :: le 2 0 ++ [] ++ r).
      rewrite tc_dec_str. reflexivity. }
    destruct c, ty; try discriminate Hc; try reflexivity; cbn [tc_ser_val app]; apply Hs.
Qed.

(** * Sizes without wrap-around *)

Lemma tc_fixed_len_bound c : 1 <= tc_fixed_len c <= 5.
Proof. destruct c; cbn; lia. Qed.

Lemma tc_schema_len_from_small cols : forall acc,
  acc + tc_fixed_total cols < 4294967296 ->
  tc_schema_len_from cols acc = acc + tc_fixed_total cols.
Proof.
  induction cols as [|c cs IH]; intros acc H; cbn [tc_schema_len_from tc_fixed_total] in *; [lia|].
  rewrite tc_u32_small by lia. rewrite IH by lia. lia.
Qed.

Lemma tc_typed_gen_length cols : forall vals, tc_typed_gen cols vals = true -> length vals = length cols.
Proof.
  induction cols as [|c cs IH]; intros [|v vs] H; cbn [tc_typed_gen] in H; try discriminate; [reflexivity|].
  apply andb_true_iff in H as [_ H]. cbn [length]. now rewrite (IH vs).
Qed.

Lemma tc_typed_is_gen cols : forall vals, tc_typed cols vals = true -> tc_typed_gen cols vals = true.
Proof.
  induction cols as [|c cs IH]; intros [|v vs] H; cbn [tc_typed tc_typed_gen] in *; try discriminate; [reflexivity|].
  apply andb_true_iff in H as [H1 H]. apply andb_true_iff in H1 as [Hc Hok].
  rewrite (IH vs H), Hok. unfold tc_compat. rewrite Hc. reflexivity.
Qed.

Lemma tc_typed_as_cols cols : forall vals, tc_typed cols vals = true -> tc_as_cols cols vals = vals.
Proof.
  induction cols as [|c cs IH]; intros [|v vs] H; cbn [tc_typed tc_as_cols] in *; try discriminate; [reflexivity|].
  apply andb_true_iff in H as [H1 H]. apply andb_true_iff in H1 as [Hc Hok].
  rewrite (IH vs H). f_equal.
  destruct v as [z|u|b|s|ty]; try reflexivity. cbn [tc_as_col tc_val_type] in *.
  destruct ty, c; try discriminate; reflexivity.
Qed.

Lemma tc_size_from_small cols : forall vals acc,
  acc + tc_var_total cols vals < 4294967296 ->
  tc_size_from cols vals acc = acc + tc_var_total cols vals.
Proof.
  induction cols as [|c cs IH]; intros [|v vs] acc H; cbn [tc_size_from tc_var_total] in *; try lia.
  destruct (tc_inlined c).
  - rewrite IH by lia. lia.
  - rewrite tc_val_size_small by lia. rewrite tc_u32_small by lia. rewrite IH by lia. lia.
Qed.

Lemma tc_fix_bytes_len cols : forall vals e, tc_typed_gen cols vals = true ->
  tc_len (tc_fix_bytes cols vals e) = tc_fixed_total cols.
Proof.
  induction cols as [|c cs IH]; intros [|v vs] e H; cbn [tc_typed_gen tc_fix_bytes tc_fixed_total] in *;
    try discriminate; [reflexivity|].
  apply andb_true_iff in H as [H1 H]. apply andb_true_iff in H1 as [Hc Hok].
  destruct (tc_inlined c) eqn:Hin; rewrite tc_len_app, IH by assumption.
  - rewrite tc_ser_len, (tc_compat_inlined_size c v Hc Hin). reflexivity.
  - rewrite tc_len_le. destruct c; try discriminate Hin. reflexivity.
Qed.

Lemma tc_var_bytes_len cols : forall vals, tc_len (tc_var_bytes cols vals) = tc_var_total cols vals.
Proof.
  induction cols as [|c cs IH]; intros [|v vs]; cbn [tc_var_bytes tc_var_total]; try reflexivity.
  destruct (tc_inlined c); [rewrite IH; lia|].
  rewrite tc_len_app, IH, tc_ser_len. reflexivity.
Qed.

(** * The serialising loop produces the closed-form layout *)

Lemma tc_enc_cols_flat cols : forall vals P M e,
  tc_typed_gen cols vals = true ->
  e = tc_len P + tc_fixed_total cols + tc_len M ->
  e + tc_var_total cols vals < 4294967296 ->
  tc_enc_cols cols vals (tc_len P) e
    (P ++ zeros (N.to_nat (tc_fixed_total cols)) ++ M ++ zeros (N.to_nat (tc_var_total cols vals)))
  = Some (P ++ tc_fix_bytes cols vals e ++ M ++ tc_var_bytes cols vals).
Proof.
  induction cols as [|c cs IH]; intros [|v vs] P M e Ht He Hs; cbn [tc_typed_gen] in Ht; try discriminate.
  - reflexivity.
  - apply andb_true_iff in Ht as [Ht1 Ht]. apply andb_true_iff in Ht1 as [Hc Hok].
    cbn [tc_enc_cols tc_fix_bytes tc_var_bytes tc_fixed_total tc_var_total] in *.
    pose proof (tc_fixed_len_bound c) as Hfl.
    destruct (tc_inlined c) eqn:Hin.
    + pose proof (tc_compat_inlined_size c v Hc Hin) as Hsz.
      rewrite N2Nat.inj_add, zeros_app, <- app_assoc.
      rewrite (tc_copy_mid _ _ P (zeros (N.to_nat (tc_fixed_len c)))
                 (zeros (N.to_nat (tc_fixed_total cs)) ++ M ++ zeros (N.to_nat (0 + tc_var_total cs vs)))
                 (tc_ser_val v)); [|reflexivity|reflexivity|].
      2:{ rewrite zeros_length, <- tc_len_to_nat, tc_ser_len, Hsz. reflexivity. }
      rewrite tc_u32_small by lia.
      specialize (IH vs (P ++ tc_ser_val v) M e Ht).
      rewrite tc_len_app, tc_ser_len, Hsz in IH.
      rewrite <- !app_assoc in IH. rewrite <- !app_assoc.
      rewrite N.add_0_l. apply IH; lia.
    + assert (Hc4 : tc_fixed_len c = 4) by (destruct c; try discriminate Hin; reflexivity).
      rewrite Hc4 in *.
      rewrite !N2Nat.inj_add, !zeros_app, <- !app_assoc.
      rewrite (tc_copy_mid _ _ P (zeros (N.to_nat 4))
                 (zeros (N.to_nat (tc_fixed_total cs)) ++ M ++
                  zeros (N.to_nat (tc_val_size_nowrap v)) ++ zeros (N.to_nat (tc_var_total cs vs)))
                 (le 4 e)); [|reflexivity|reflexivity|now rewrite zeros_length, le_length].
      rewrite (tc_copy_mid _ _ (P ++ le 4 e ++ zeros (N.to_nat (tc_fixed_total cs)) ++ M)
                 (zeros (N.to_nat (tc_val_size_nowrap v)))
                 (zeros (N.to_nat (tc_var_total cs vs)))
                 (tc_ser_val v)).
      2:{ rewrite <- !app_assoc. reflexivity. }
      2:{ rewrite !tc_len_app, tc_len_le, tc_len_zeros. lia. }
      2:{ rewrite zeros_length, <- tc_len_to_nat, tc_ser_len. reflexivity. }
      rewrite tc_val_size_small by lia.
      rewrite !tc_u32_small by lia.
      specialize (IH vs (P ++ le 4 e) (M ++ tc_ser_val v) (e + tc_val_size_nowrap v) Ht).
      rewrite !tc_len_app, tc_ser_len, tc_len_le in IH.
      rewrite <- !app_assoc in IH. rewrite <- !app_assoc.
      change (N.of_nat 4) with 4 in IH.
      apply IH; lia.
Qed.

Lemma tc_encode_row_flat sch vals :
  tc_row_wf_gen sch vals = true ->
  tc_tuple_size sch vals = Some (tc_size_nowrap sch vals) /\
  tc_encode_row sch vals = Some (tc_flat sch vals).
Proof.
  unfold tc_row_wf_gen. intros H. apply andb_true_iff in H as [Ht Hs]. apply N.ltb_lt in Hs.
  unfold tc_size_nowrap in *.
  assert (Hsz : tc_tuple_size sch vals = Some (tc_fixed_total sch + tc_var_total sch vals)).
  { unfold tc_tuple_size. rewrite (tc_typed_gen_length _ _ Ht), Nat.ltb_irrefl.
    unfold tc_schema_len. rewrite tc_schema_len_from_small by lia.
    rewrite tc_size_from_small by lia. reflexivity. }
  split; [exact Hsz|].
  unfold tc_encode_row. rewrite Hsz.
  unfold tc_schema_len. rewrite tc_schema_len_from_small by lia. rewrite N.add_0_l.
  rewrite N2Nat.inj_add, zeros_app.
  pose proof (tc_enc_cols_flat sch vals [] [] (tc_fixed_total sch) Ht) as H.
  cbn [app] in H. rewrite tc_len_nil in H. unfold tc_flat. apply H; lia.
Qed.

(** * Where a column's value sits in the layout *)

Lemma tc_locate cols : forall vals P M e i v data,
  tc_typed_gen cols vals = true ->
  e = tc_len P + tc_fixed_total cols + tc_len M ->
  e + tc_var_total cols vals < 4294967296 ->
  data = P ++ tc_fix_bytes cols vals e ++ M ++ tc_var_bytes cols vals ->
  nth_error vals i = Some v ->
  exists c off0 off pre rest,
    nth_error cols i = Some c /\ tc_compat c v = true /\ tc_val_ok v = true /\
    tc_column_from cols i (tc_len P) = Some (c, off0) /\
    tc_value_offset_at data (c, off0) = Some (c, off) /\
    data = pre ++ tc_ser_val v ++ rest /\ tc_len pre = off.
Proof.
  induction cols as [|c cs IH]; intros [|v0 vs] P M e i v data Ht He Hs Hd Hn;
    cbn [tc_typed_gen] in Ht; try discriminate.
  - destruct i; discriminate Hn.
  - apply andb_true_iff in Ht as [Ht1 Ht]. apply andb_true_iff in Ht1 as [Hc Hok].
    cbn [tc_fix_bytes tc_var_bytes tc_fixed_total tc_var_total] in *.
    pose proof (tc_fixed_len_bound c) as Hfl.
    pose proof (tc_fix_bytes_len cs vs) as Hfb.
    destruct i as [|i].
    + cbn [nth_error] in Hn. injection Hn as <-.
      destruct (tc_inlined c) eqn:Hin.
      * exists c, (tc_len P), (tc_len P), P, (tc_fix_bytes cs vs e ++ M ++ tc_var_bytes cs vs).
        repeat split; try assumption; try reflexivity.
        -- unfold tc_value_offset_at. now rewrite Hin.
        -- rewrite Hd, <- !app_assoc. reflexivity.
      * assert (Hc4 : tc_fixed_len c = 4) by (destruct c; try discriminate Hin; reflexivity).
        rewrite Hc4 in *.
        exists c, (tc_len P), e,
          (P ++ le 4 e ++ tc_fix_bytes cs vs (e + tc_val_size_nowrap v0) ++ M), (tc_var_bytes cs vs).
        repeat split; try assumption; try reflexivity.
        -- unfold tc_value_offset_at. rewrite Hin.
           rewrite tc_u32_small by lia.
           rewrite Hd, <- !app_assoc.
           rewrite (tc_slice_mid P (le 4 e)); [|reflexivity|now rewrite tc_len_le].
           rewrite le_dec_le; [reflexivity|]. rewrite pow256_4. unfold two32. lia.
        -- rewrite Hd, <- !app_assoc. reflexivity.
        -- rewrite !tc_len_app, tc_len_le, Hfb by assumption. lia.
    + cbn [nth_error] in Hn. cbn [tc_column_from nth_error].
      rewrite tc_u32_small by lia.
      destruct (tc_inlined c) eqn:Hin.
      * pose proof (tc_compat_inlined_size c v0 Hc Hin) as Hsz.
        destruct (IH vs (P ++ tc_ser_val v0) M e i v data Ht) as (c' & off0 & off & pre & rest & H);
          try assumption; try lia.
        -- rewrite tc_len_app, tc_ser_len, Hsz. lia.
        -- rewrite Hd, <- !app_assoc. reflexivity.
        -- rewrite tc_len_app, tc_ser_len, Hsz in H.
           exists c', off0, off, pre, rest. exact H.
      * assert (Hc4 : tc_fixed_len c = 4) by (destruct c; try discriminate Hin; reflexivity).
        rewrite Hc4 in *.
        destruct (IH vs (P ++ le 4 e) (M ++ tc_ser_val v0) (e + tc_val_size_nowrap v0) i v data Ht)
          as (c' & off0 & off & pre & rest & H); try assumption; try lia.
        -- rewrite !tc_len_app, tc_ser_len, tc_len_le. lia.
        -- rewrite Hd, <- !app_assoc. reflexivity.
        -- rewrite tc_len_app, tc_len_le in H.
           exists c', off0, off, pre, rest. exact H.
Qed.

(** the same for a whole encoded row *)
Lemma tc_locate_row sch vals i v :
  tc_row_wf_gen sch vals = true -> nth_error vals i = Some v ->
  exists c off pre rest,
    nth_error sch i = Some c /\ tc_compat c v = true /\ tc_val_ok v = true /\
    tc_value_offset sch (tc_flat sch vals) i = Some (c, off) /\
    tc_flat sch vals = pre ++ tc_ser_val v ++ rest /\ tc_len pre = off.
Proof.
  unfold tc_row_wf_gen. intros H Hn. apply andb_true_iff in H as [Ht Hs]. apply N.ltb_lt in Hs.
  unfold tc_size_nowrap in Hs.
  destruct (tc_locate sch vals [] [] (tc_fixed_total sch) i v (tc_flat sch vals) Ht)
    as (c & off0 & off & pre & rest & H1 & H2 & H3 & H4 & H5 & H6 & H7); try assumption.
  - rewrite tc_len_nil. lia.
  - reflexivity.
  - exists c, off, pre, rest. repeat split; try assumption.
    unfold tc_value_offset, tc_column. rewrite tc_len_nil in H4. rewrite H4. exact H5.
Qed.

(** * GetValue on an encoded row *)

Lemma tc_decode_col_flat sch vals i v c :
  tc_row_wf_gen sch vals = true -> nth_error vals i = Some v -> nth_error sch i = Some c ->
  tc_decode_col sch (tc_flat sch vals) i = tc_readback (tc_as_col c v).
Proof.
  intros Hwf Hn Hc.
  destruct (tc_locate_row sch vals i v Hwf Hn) as (c' & off & pre & rest & H1 & H2 & H3 & H4 & H5 & H6).
  rewrite Hc in H1. injection H1 as <-.
  unfold tc_decode_col. rewrite H4, H5, <- H6, tc_from_mid.
  now apply tc_dec_ser.
Qed.

(** * Main statements *)

Lemma tc_flat_len sch vals :
  tc_typed_gen sch vals = true -> tc_len (tc_flat sch vals) = tc_size_nowrap sch vals.
Proof.
  intros Ht. unfold tc_flat, tc_size_nowrap.
  now rewrite tc_len_app, tc_fix_bytes_len, tc_var_bytes_len.
Qed.

(** (layout, size) the bytes are the closed-form layout and Size() is their number *)
Theorem tc_encode_layout sch row :
  tc_row_wf_gen sch row = true ->
  tc_encode_row sch row = Some (tc_flat sch row) /\
  tc_tuple_size sch row = Some (tc_size_nowrap sch row) /\
  tc_len (tc_flat sch row) = tc_size_nowrap sch row.
Proof.
  intros H. destruct (tc_encode_row_flat sch row H) as [H1 H2].
  repeat split; try assumption.
  apply tc_flat_len. unfold tc_row_wf_gen in H. now apply andb_true_iff in H as [H _].
Qed.

Lemma tc_row_wf_is_gen sch row : tc_row_wf sch row = true -> tc_row_wf_gen sch row = true.
Proof.
  unfold tc_row_wf, tc_row_wf_gen. intros H. apply andb_true_iff in H as [H1 H2].
  now rewrite (tc_typed_is_gen _ _ H1), H2.
Qed.

Lemma tc_typed_gen_nth cols : forall vals i v, tc_typed_gen cols vals = true ->
  nth_error vals i = Some v -> exists c, nth_error cols i = Some c.
Proof.
  intros vals i v Ht Hn. destruct (nth_error cols i) eqn:E; [eauto|].
  apply nth_error_None in E. rewrite <- (tc_typed_gen_length _ _ Ht) in E.
  apply nth_error_None in E. congruence.
Qed.

Lemma tc_typed_nth cols : forall vals i v c, tc_typed cols vals = true ->
  nth_error vals i = Some v -> nth_error cols i = Some c -> tc_as_col c v = v.
Proof.
  induction cols as [|c0 cs IH]; intros [|v0 vs] i v c H Hv Hc; cbn [tc_typed] in H; try discriminate.
  - destruct i; discriminate.
  - apply andb_true_iff in H as [H1 H]. apply andb_true_iff in H1 as [Hty _].
    destruct i as [|i]; cbn [nth_error] in *.
    + injection Hv as <-. injection Hc as <-.
      destruct v0 as [z|u|b|s|ty]; try reflexivity. cbn [tc_as_col tc_val_type] in *.
      destruct ty, c0; try discriminate; reflexivity.
    + eapply IH; eassumption.
Qed.

(** (exact read-back) GetValue of column [i] of the tuple built from [row] *)
Theorem tc_getvalue_exact sch row data i v c :
  tc_row_wf_gen sch row = true -> tc_encode_row sch row = Some data ->
  nth_error row i = Some v -> nth_error sch i = Some c ->
  tc_decode_col sch data i = tc_readback (tc_as_col c v).
Proof.
  intros Hwf He Hv Hc. destruct (tc_encode_row_flat sch row Hwf) as [_ Hf].
  rewrite Hf in He. injection He as <-. now apply tc_decode_col_flat.
Qed.

(** (column round trip) a value of the column's type that fits reads back identical,
    whatever the other columns hold *)
Theorem tc_col_roundtrip sch row data i v :
  tc_row_wf sch row = true -> tc_encode_row sch row = Some data ->
  nth_error row i = Some v -> tc_str_fits v = true ->
  tc_decode_col sch data i = Some v.
Proof.
  intros Hwf He Hv Hfit.
  pose proof (tc_row_wf_is_gen _ _ Hwf) as Hg.
  assert (Ht : tc_typed sch row = true) by (unfold tc_row_wf in Hwf; now apply andb_true_iff in Hwf as [H _]).
  destruct (tc_typed_gen_nth sch row i v (tc_typed_is_gen _ _ Ht) Hv) as [c Hc].
  rewrite (tc_getvalue_exact sch row data i v c Hg He Hv Hc).
  rewrite (tc_typed_nth sch row i v c Ht Hv Hc). now apply tc_readback_fits.
Qed.

Lemma tc_sequence_map_nth {A} (f : nat -> option A) (l : list A) : forall k,
  (forall i v, nth_error l i = Some v -> f (k + i)%nat = Some v) ->
  tc_sequence (map f (seq k (length l))) = Some l.
Proof.
  induction l as [|x l IH]; intros k H; [reflexivity|].
  cbn [length seq map tc_sequence].
  rewrite <- (Nat.add_0_r k) at 1. rewrite (H 0%nat x eq_refl).
  rewrite (IH (S k)); [reflexivity|].
  intros i v Hn. rewrite Nat.add_succ_comm. apply H. exact Hn.
Qed.

Lemma tc_sequence_map_inv {A} (f : nat -> option A) : forall n k l,
  tc_sequence (map f (seq k n)) = Some l ->
  length l = n /\ forall i, (i < n)%nat -> f (k + i)%nat = nth_error l i.
Proof.
  induction n as [|n IH]; intros k l H; cbn [seq map tc_sequence] in H.
  - injection H as <-. split; [reflexivity|]. intros i Hi. lia.
  - destruct (f k) as [x|] eqn:Ek; [|discriminate].
    destruct (tc_sequence (map f (seq (S k) n))) as [xs|] eqn:Er; [|discriminate].
    injection H as <-. destruct (IH (S k) xs Er) as [Hl Hi].
    split; [cbn; lia|].
    intros [|i] Hlt; cbn [nth_error].
    + now rewrite Nat.add_0_r.
    + rewrite Nat.add_succ_r. rewrite <- (Hi i) by lia. reflexivity.
Qed.

(** (row round trip) *)
Theorem tc_row_roundtrip sch row :
  tc_row_ok sch row = true ->
  exists data, tc_encode_row sch row = Some data /\
               tc_len data = tc_size_nowrap sch row /\
               tc_tuple_size sch row = Some (tc_len data) /\
               tc_decode_row sch data = Some row.
Proof.
  unfold tc_row_ok. intros H. apply andb_true_iff in H as [Hwf Hfit].
  pose proof (tc_row_wf_is_gen _ _ Hwf) as Hg.
  destruct (tc_encode_layout sch row Hg) as (He & Hs & Hl).
  exists (tc_flat sch row). repeat split; try assumption.
  - now rewrite Hl.
  - unfold tc_decode_row.
    assert (Ht : tc_typed sch row = true) by (unfold tc_row_wf in Hwf; now apply andb_true_iff in Hwf as [H _]).
    rewrite <- (tc_typed_gen_length sch row (tc_typed_is_gen _ _ Ht)).
    apply tc_sequence_map_nth. intros i v Hn. cbn [Nat.add].
    apply (tc_col_roundtrip sch row _ i v Hwf He Hn).
    rewrite forallb_forall in Hfit. apply Hfit. eapply nth_error_In; eassumption.
Qed.

(** the guard is exact: a well-formed row reads back identical iff every string fits *)
Theorem tc_row_roundtrip_iff sch row data :
  tc_row_wf sch row = true -> tc_encode_row sch row = Some data ->
  (tc_decode_row sch data = Some row <-> forallb tc_str_fits row = true).
Proof.
  intros Hwf He. split.
  - intros Hd. unfold tc_decode_row in Hd.
    destruct (tc_sequence_map_inv _ _ _ _ Hd) as [Hlen Hall].
    pose proof (tc_row_wf_is_gen _ _ Hwf) as Hg.
    assert (Ht : tc_typed sch row = true) by (unfold tc_row_wf in Hwf; now apply andb_true_iff in Hwf as [H _]).
    apply forallb_forall. intros v Hin.
    destruct (In_nth_error _ _ Hin) as [i Hi].
    assert (Hlt : (i < length sch)%nat).
    { rewrite <- Hlen. apply nth_error_Some. congruence. }
    specialize (Hall i Hlt). cbn [Nat.add] in Hall. rewrite Hi in Hall.
    destruct (tc_typed_gen_nth sch row i v (tc_typed_is_gen _ _ Ht) Hi) as [c Hc].
    rewrite (tc_getvalue_exact sch row data i v c Hg He Hi Hc) in Hall.
    rewrite (tc_typed_nth sch row i v c Ht Hi Hc) in Hall.
    now apply tc_readback_id.
  - intros Hfit.
    assert (Hok : tc_row_ok sch row = true) by (unfold tc_row_ok; now rewrite Hwf, Hfit).
    destruct (tc_row_roundtrip sch row Hok) as (d & Hd & _ & _ & Hr).
    rewrite He in Hd. injection Hd as <-. exact Hr.
Qed.

(** the full statement (every well-formed row reads back identical) is false: a Varchar of
    65533 bytes is stored but GetValue panics; one of 65536 bytes reads back empty *)
Definition tc_a_string (n : N) : list N := N.iter n (cons 97) [].

Lemma tc_option_map_inv {A B} (f : A -> B) x y :
  option_map f x = Some y -> exists d, x = Some d /\ f d = y.
Proof. destruct x as [d|]; cbn; [|discriminate]. intros H. injection H as <-. eauto. Qed.

Theorem tc_row_roundtrip_refuted :
  (exists sch row data, tc_row_wf sch row = true /\ tc_encode_row sch row = Some data /\
                        tc_decode_row sch data = None) /\
  (exists sch row data row', tc_row_wf sch row = true /\ tc_encode_row sch row = Some data /\
                        tc_decode_row sch data = Some row' /\ row' <> row).
Proof.
  split.
  - exists [TcInt; TcStr], [TvInt 7; TvStr (tc_a_string 65533)].
    assert (H : option_map (tc_decode_row [TcInt; TcStr])
                  (tc_encode_row [TcInt; TcStr] [TvInt 7; TvStr (tc_a_string 65533)]) = Some None)
      by (vm_compute; reflexivity).
    destruct (tc_option_map_inv _ _ _ H) as (d & Hd & Hr).
    exists d. split; [vm_compute; reflexivity|]. split; assumption.
  - exists [TcInt; TcStr], [TvInt 7; TvStr (tc_a_string 65536)].
    assert (H : option_map (tc_decode_row [TcInt; TcStr])
                  (tc_encode_row [TcInt; TcStr] [TvInt 7; TvStr (tc_a_string 65536)])
                = Some (Some [TvInt 7; TvStr []]))
      by (vm_compute; reflexivity).
    destruct (tc_option_map_inv _ _ _ H) as (d & Hd & Hr).
    exists d, [TvInt 7; TvStr []]. split; [vm_compute; reflexivity|].
    split; [assumption|]. split; [assumption|].
    intros E.
    apply (f_equal (fun r => match r with [_; TvStr s] => tc_len s | _ => 0 end)) in E.
    vm_compute in E. discriminate E.
Qed.

(** hence the unguarded statement is false *)
Theorem tc_row_roundtrip_full_false :
  ~ (forall sch row data, tc_row_wf sch row = true -> tc_encode_row sch row = Some data ->
                          tc_decode_row sch data = Some row).
Proof.
  intros H. destruct tc_row_roundtrip_refuted as [(sch & row & data & Hwf & He & Hd) _].
  rewrite (H sch row data Hwf He) in Hd. discriminate.
Qed.

(** (non-interference) what column [i] reads back depends only on the value stored in column [i] *)
Theorem tc_columns_independent sch row row' data data' i :
  tc_row_wf_gen sch row = true -> tc_row_wf_gen sch row' = true ->
  tc_encode_row sch row = Some data -> tc_encode_row sch row' = Some data' ->
  nth_error row i = nth_error row' i ->
  tc_decode_col sch data i = tc_decode_col sch data' i.
Proof.
  intros Hw Hw' He He' Hn.
  destruct (nth_error row i) as [v|] eqn:Ev.
  - assert (Ht : tc_typed_gen sch row = true) by (unfold tc_row_wf_gen in Hw; now apply andb_true_iff in Hw as [H _]).
    destruct (tc_typed_gen_nth sch row i v Ht Ev) as [c Hc].
    rewrite (tc_getvalue_exact sch row data i v c Hw He Ev Hc).
    symmetry in Hn.
    now rewrite (tc_getvalue_exact sch row' data' i v c Hw' He' Hn Hc).
  - (* no such column: both GetValue calls panic (index out of range) *)
    assert (Hnone : nth_error sch i = None).
    { apply nth_error_None. apply nth_error_None in Ev.
      assert (Ht : tc_typed_gen sch row = true) by (unfold tc_row_wf_gen in Hw; now apply andb_true_iff in Hw as [H _]).
      rewrite <- (tc_typed_gen_length _ _ Ht). exact Ev. }
    assert (Hcol : forall cols k acc, nth_error cols k = None -> tc_column_from cols k acc = None).
    { induction cols as [|c cs IH]; intros [|k] acc Hk; cbn in *; try reflexivity; try discriminate.
      now apply IH. }
    unfold tc_decode_col, tc_value_offset, tc_column. now rewrite (Hcol sch i 0 Hnone).
Qed.

(** * NULLs, floats: what reads back *)

(** a NULL of the column's type reads back as a NULL of that type (for a Varchar: NULL, not
    the empty string), wherever it is in the row *)
Corollary tc_null_roundtrip sch row data i ty :
  tc_row_wf sch row = true -> tc_encode_row sch row = Some data ->
  nth_error row i = Some (TvNull ty) ->
  tc_decode_col sch data i = Some (TvNull ty).
Proof. intros Hwf He Hn. now apply (tc_col_roundtrip sch row data i (TvNull ty)). Qed.

(** every float32 bit pattern (-0.0, NaNs with any payload, denormals, infinities) is preserved *)
Corollary tc_float_bits_roundtrip sch row data i bits :
  tc_row_wf sch row = true -> tc_encode_row sch row = Some data ->
  nth_error row i = Some (TvFloat bits) ->
  tc_decode_col sch data i = Some (TvFloat bits).
Proof. intros Hwf He Hn. now apply (tc_col_roundtrip sch row data i (TvFloat bits)). Qed.

(** the Integer-typed NULL of types.NewNull() in an Integer, Float or Varchar column reads back
    as a NULL of the column's type *)
Corollary tc_generic_null_roundtrip sch row data i c :
  tc_row_wf_gen sch row = true -> tc_encode_row sch row = Some data ->
  nth_error row i = Some (TvNull TcInt) -> nth_error sch i = Some c ->
  tc_decode_col sch data i = Some (TvNull c).
Proof. intros Hwf He Hn Hc. now rewrite (tc_getvalue_exact sch row data i _ c Hwf He Hn Hc). Qed.

Lemma tc_as_cols_nth cols : forall vals i w, nth_error (tc_as_cols cols vals) i = Some w ->
  exists c v, nth_error cols i = Some c /\ nth_error vals i = Some v /\ w = tc_as_col c v.
Proof.
  induction cols as [|c cs IH]; intros [|v vs] i w H; cbn [tc_as_cols] in H;
    try (destruct i; discriminate H).
  destruct i as [|i]; cbn [nth_error] in *.
  - injection H as <-. eauto.
  - now apply IH.
Qed.

Lemma tc_as_cols_length cols : forall vals, length vals = length cols ->
  length (tc_as_cols cols vals) = length cols.
Proof.
  induction cols as [|c cs IH]; intros [|v vs] H; cbn in *; try discriminate; [reflexivity|].
  f_equal. apply IH. lia.
Qed.

Theorem tc_row_roundtrip_gen sch row :
  tc_row_wf_gen sch row = true -> forallb tc_str_fits row = true ->
  exists data, tc_encode_row sch row = Some data /\
               tc_decode_row sch data = Some (tc_as_cols sch row).
Proof.
  intros Hwf Hfit. destruct (tc_encode_layout sch row Hwf) as (He & _ & _).
  exists (tc_flat sch row). split; [assumption|].
  assert (Ht : tc_typed_gen sch row = true) by (unfold tc_row_wf_gen in Hwf; now apply andb_true_iff in Hwf as [H _]).
  unfold tc_decode_row.
  rewrite <- (tc_as_cols_length sch row (tc_typed_gen_length _ _ Ht)).
  apply tc_sequence_map_nth. intros i w Hn. cbn [Nat.add].
  destruct (tc_as_cols_nth sch row i w Hn) as (c & v & Hc & Hv & ->).
  rewrite (tc_getvalue_exact sch row _ i v c Hwf He Hv Hc).
  apply tc_readback_fits.
  rewrite forallb_forall in Hfit. specialize (Hfit v (nth_error_In _ _ Hv)).
  destruct v; assumption || reflexivity.
Qed.

(** * GetValueInBytes *)

Definition tc_gvb_fits (v : tval) : bool :=
  match v with TvStr s => tc_len s <? 32768 | _ => true end.

Theorem tc_get_value_in_bytes_ser sch row data i v :
  tc_row_wf sch row = true -> tc_encode_row sch row = Some data ->
  nth_error row i = Some v -> tc_gvb_fits v = true ->
  tc_get_value_in_bytes sch data i = Some (tc_ser_val v).
Proof.
  intros Hwf He Hv Hfit.
  pose proof (tc_row_wf_is_gen _ _ Hwf) as Hg.
  assert (Ht : tc_typed sch row = true) by (unfold tc_row_wf in Hwf; now apply andb_true_iff in Hwf as [H _]).
  destruct (tc_encode_layout sch row Hg) as (Hf & _ & Hl).
  rewrite Hf in He. injection He as <-.
  assert (Hsz : tc_len (tc_flat sch row) < 4294967296).
  { rewrite Hl. unfold tc_row_wf in Hwf. apply andb_true_iff in Hwf as [_ H]. now apply N.ltb_lt in H. }
  destruct (tc_locate_row sch row i v Hg Hv) as (c & off & pre & rest & H1 & H2 & H3 & H4 & H5 & H6).
  pose proof (tc_typed_nth sch row i v c Ht Hv H1) as Has.
  unfold tc_get_value_in_bytes. rewrite H4. rewrite H5 at 1. rewrite <- H6, tc_from_mid.
  rewrite H5 in Hsz. rewrite !tc_len_app in Hsz.
  destruct v as [z|u|b|s|ty].
  - destruct c; try discriminate H2.
    cbn [tc_ser_val app tc_flag tl]. rewrite tc_word_le, pow256_4.
    rewrite N.mod_small by apply u32_of_z_lt. reflexivity.
  - destruct c; try discriminate H2.
    cbn [tc_ser_val app tc_flag tl]. rewrite tc_word_le, pow256_4.
    cbn [tc_val_ok] in H3. unfold two32. rewrite N.mod_small by lia. reflexivity.
  - destruct c; try discriminate H2. destruct b; reflexivity.
  - destruct c; try discriminate H2.
    cbn [tc_gvb_fits] in Hfit. apply N.ltb_lt in Hfit.
    cbn [tc_ser_val] in *. rewrite <- app_comm_cons, <- app_assoc.
    cbn [tc_flag tl]. rewrite tc_word_le, pow256_2.
    rewrite N.mod_small by lia.
    destruct (N.ltb_spec (tc_len s) 32768); [|lia].
    rewrite tc_len_cons, tc_len_app, tc_len_le in Hsz. change (N.of_nat 2) with 2 in Hsz.
    rewrite (tc_u32_small (tc_len s + 3)) by lia.
    rewrite !tc_u32_small by lia.
    rewrite H5. cbn [tc_ser_val].
    replace (pre ++ (0 :: le 2 (tc_len s) ++ s) ++ rest)
      with ((pre ++ 0 :: le 2 (tc_len s)) ++ s ++ rest)
      by (rewrite <- ?app_assoc; cbn [app]; rewrite <- ?app_assoc; reflexivity).
    rewrite (tc_slice_mid (pre ++ 0 :: le 2 (tc_len s)) s rest); [reflexivity| |];
      rewrite tc_len_app, tc_len_cons, tc_len_le; change (N.of_nat 2) with 2; lia.
  - cbn [tc_as_col] in Has. injection Has as <-.
    destruct c; try reflexivity.
    cbn [tc_ser_val] in *. cbn [app tc_flag tl].
    change (tc_word 2 (0 :: 0 :: rest)) with 0.
    cbn [N.ltb N.compare]. change (0 + 3) with 3.
    rewrite (tc_u32_small 3) by lia.
    rewrite tc_len_cons, tc_len_cons, tc_len_cons, tc_len_nil in Hsz.
    rewrite !tc_u32_small by lia.
    rewrite H5. cbn [tc_ser_val].
    replace (pre ++ [1; 0; 0] ++ rest) with ((pre ++ [1; 0; 0]) ++ [] ++ rest)
      by (rewrite <- !app_assoc; reflexivity).
    rewrite (tc_slice_mid (pre ++ [1; 0; 0]) [] rest); [reflexivity| |];
      rewrite tc_len_app, !tc_len_cons, tc_len_nil; lia.
Qed.

(** a Varchar of 32768 bytes reads back through GetValue but GetValueInBytes panics *)
Theorem tc_get_value_in_bytes_refuted :
  exists sch row data v, tc_row_ok sch row = true /\ tc_encode_row sch row = Some data /\
    nth_error row 0 = Some v /\ tc_decode_col sch data 0 = Some v /\
    tc_get_value_in_bytes sch data 0 = None.
Proof.
  exists [TcStr], [TvStr (tc_a_string 32768)].
  assert (H : option_map (fun d => tc_get_value_in_bytes [TcStr] d 0)
                (tc_encode_row [TcStr] [TvStr (tc_a_string 32768)]) = Some None)
    by (vm_compute; reflexivity).
  destruct (tc_option_map_inv _ _ _ H) as (d & Hd & Hr).
  assert (Hok : tc_row_ok [TcStr] [TvStr (tc_a_string 32768)] = true) by (vm_compute; reflexivity).
  assert (Hwf : tc_row_wf [TcStr] [TvStr (tc_a_string 32768)] = true) by (vm_compute; reflexivity).
  assert (Hfit : tc_str_fits (TvStr (tc_a_string 32768)) = true) by (vm_compute; reflexivity).
  exists d, (TvStr (tc_a_string 32768)).
  split; [exact Hok|]. split; [exact Hd|]. split; [reflexivity|]. split; [|exact Hr].
  exact (tc_col_roundtrip [TcStr] _ d 0%nat _ Hwf Hd eq_refl Hfit).
Qed.

(** * Examples (non-vacuity, and what happens outside the domain) *)

(** the bytes `verifharness tuplecodec` prints for  E ifbs i:-1 f:2147483648 b:1 s:616263 *)
Example tc_example_bytes :
  tc_encode_row [TcInt; TcFloat; TcBool; TcStr]
                [TvInt (-1); TvFloat 2147483648; TvBool true; TvStr [97; 98; 99]]
  = Some [0; 255; 255; 255; 255;  0; 0; 0; 0; 128;  0; 1;  16; 0; 0; 0;  0; 3; 0; 97; 98; 99].
Proof. vm_compute. reflexivity. Qed.

Example tc_example_ok :
  let sch := [TcStr; TcInt; TcFloat; TcBool; TcStr; TcStr; TcFloat; TcInt; TcBool] in
  let row := [TvStr [0; 255; 10]; TvInt (-2147483648); TvFloat 2147483648 (* -0.0 *); TvNull TcBool;
              TvNull TcStr; TvStr []; TvFloat 2139095041 (* signalling NaN *); TvNull TcInt; TvBool false] in
  tc_row_ok sch row = true /\
  option_map (tc_decode_row sch) (tc_encode_row sch row) = Some (Some row) /\
  option_map tc_len (tc_encode_row sch row) = Some 48 /\
  tc_tuple_size sch row = Some 48.
Proof. vm_compute. repeat split; reflexivity. Qed.

(** a NULL Varchar is 01 00 00 and reads back as NULL, not as the empty string; the empty string
    is 00 00 00 *)
Example tc_example_null_varchar :
  tc_encode_row [TcStr; TcStr] [TvNull TcStr; TvStr []] = Some [8;0;0;0; 11;0;0;0; 1;0;0; 0;0;0] /\
  tc_decode_row [TcStr; TcStr] [8;0;0;0; 11;0;0;0; 1;0;0; 0;0;0] = Some [TvNull TcStr; TvStr []].
Proof. vm_compute. split; reflexivity. Qed.

(** outside the domain: the Integer-typed NULL of types.NewNull() stored in a BOOLEAN column
    writes 5 bytes into a 2-byte field; here it overwrites the header of the Varchar payload that
    was written before, and the string silently reads back empty *)
Example tc_example_generic_null_in_bool :
  option_map (tc_decode_row [TcStr; TcBool]) (tc_encode_row [TcStr; TcBool] [TvStr [97; 98; 99]; TvNull TcInt])
  = Some (Some [TvStr []; TvNull TcBool]).
Proof. vm_compute. reflexivity. Qed.

(** outside the domain: a value of another type than its column is stored without any check *)
Example tc_example_mistyped :
  option_map (tc_decode_row [TcInt]) (tc_encode_row [TcInt] [TvStr [97; 98; 99; 100; 101; 102; 103; 104]])
  = Some (Some [TvInt 1650524168]) /\
  option_map (tc_decode_row [TcStr]) (tc_encode_row [TcStr] [TvInt 7]) = Some None.
Proof. vm_compute. split; reflexivity. Qed.

(** fewer values than columns: index out of range *)
Example tc_example_short_row : tc_encode_row [TcInt; TcStr] [TvInt 5] = None.
Proof. reflexivity. Qed.
