(** Proofs about the slotted-page model (M2) for C15.

    Invariant: the tuple area [data s] is, at all times, the concatenation of
    the stored rows (live or delete-marked) in a ghost *layout list* [L] of
    (slot number, row bytes), ordered from low to high address; each slot in
    [L] points at [fsp + total length of the earlier rows]. *)
From Coq Require Import List NArith ZArith Bool Lia Arith.
From Coq Require Import ZifyBool ZifyN ZifyNat.
From SDB Require Import Params Model.Page.
From SDB Require Export Proofs.PageLemmas.
Import ListNotations.
Open Scope N_scope.

Ltac Zify.zify_post_hook ::= Z.div_mod_to_equations.

(** * Layout lists *)

Definition layout := list (nat * list N).
Definition cat (L : layout) : list N := concat (map snd L).
Definition tot (L : layout) : N := blen (cat L).

Lemma blen_app (a b : list N) : blen (a ++ b) = blen a + blen b.
Proof. unfold blen. rewrite app_length. lia. Qed.

Lemma cat_cons i b (L : layout) : cat ((i, b) :: L) = b ++ cat L.
Proof. reflexivity. Qed.

Lemma cat_app (L1 L2 : layout) : cat (L1 ++ L2) = cat L1 ++ cat L2.
Proof. unfold cat. rewrite map_app, concat_app. reflexivity. Qed.

Lemma tot_nil : tot [] = 0.
Proof. reflexivity. Qed.

Lemma tot_cons i b (L : layout) : tot ((i, b) :: L) = blen b + tot L.
Proof. unfold tot. rewrite cat_cons, blen_app. reflexivity. Qed.

Lemma tot_app (L1 L2 : layout) : tot (L1 ++ L2) = tot L1 + tot L2.
Proof. unfold tot. rewrite cat_app, blen_app. reflexivity. Qed.

Lemma tot_mid (pre post : layout) i b : tot (pre ++ (i, b) :: post) = tot pre + blen b + tot post.
Proof. rewrite tot_app, tot_cons. lia. Qed.

Lemma tot_to_nat (L : layout) : N.to_nat (tot L) = length (cat L).
Proof. unfold tot. apply blen_to_nat. Qed.

Fixpoint lay (sl : list (N * N)) (base : N) (L : layout) : Prop :=
  match L with
  | [] => True
  | (i, b) :: L' =>
      (exists m, nth_error sl i = Some (base, szf_of b m)) /\ lay sl (base + blen b) L'
  end.

Definition row_ok (e : nat * list N) : Prop := 0 < blen (snd e) /\ blen (snd e) < delete_mask.
Definition rows_ok (L : layout) : Prop := Forall row_ok L.

Record R (s : pstate) (L : layout) : Prop := mkR {
  R_data : data s = cat L;
  R_nodup : NoDup (map fst L);
  R_rows : rows_ok L;
  R_lay : lay (slots s) (fsp s) L;
  R_empty : forall i, (i < length (slots s))%nat -> ~ In i (map fst L) ->
            nth_error (slots s) i = Some (0, 0);
  R_fsp : fsp s + tot L = page_size;
  R_hdr : size_table_page_header + size_tuple * count s <= fsp s
}.

Lemma lay_app sl : forall L1 L2 base,
  lay sl base (L1 ++ L2) <-> lay sl base L1 /\ lay sl (base + tot L1) L2.
Proof.
  induction L1 as [|[i b] L1 IH]; intros L2 base; cbn [app lay].
  - rewrite tot_nil, N.add_0_r. tauto.
  - rewrite IH, tot_cons, N.add_assoc. tauto.
Qed.

Lemma lay_shift sl sl' : forall L base base',
  lay sl base L ->
  (forall i b o m, In (i, b) L -> nth_error sl i = Some (o, szf_of b m) ->
     base <= o -> o + blen b <= base + tot L ->
     exists o' m', nth_error sl' i = Some (o', szf_of b m') /\ o' + base = o + base') ->
  lay sl' base' L.
Proof.
  induction L as [|[i b] L IH]; intros base base' Hl H; cbn [lay] in *; [exact I|].
  destruct Hl as [[m Hm] Hl]. split.
  - destruct (H i b base m (or_introl eq_refl) Hm) as (o' & m' & E & Eo);
      [lia | rewrite tot_cons; lia|].
    exists m'. replace base' with o' by lia. exact E.
  - apply (IH (base + blen b)); [exact Hl|].
    intros j bj o mj Hin Hj H1 H2.
    destruct (H j bj o mj (or_intror Hin) Hj) as (o' & m' & E & Eo);
      [lia | rewrite tot_cons; lia|].
    exists o', m'. split; [exact E | lia].
Qed.

Lemma lay_in sl L base i b : lay sl base L -> In (i, b) L ->
  exists pre post m, L = pre ++ (i, b) :: post /\
                     nth_error sl i = Some (base + tot pre, szf_of b m).
Proof.
  intros Hl Hin. apply in_split in Hin. destruct Hin as (pre & post & ->).
  apply lay_app in Hl. destruct Hl as [_ Hl]. cbn [lay] in Hl. destruct Hl as [[m Hm] _].
  exists pre, post, m. split; [reflexivity | exact Hm].
Qed.

Lemma nodup_fst_inj (L : layout) : NoDup (map fst L) ->
  forall i b b', In (i, b) L -> In (i, b') L -> b = b'.
Proof.
  induction L as [|[j c] L IH]; intros Hnd i b b' H1 H2; [contradiction|].
  cbn [map fst] in Hnd. inversion Hnd as [|? ? Hnot Hnd']; subst.
  destruct H1 as [H1|H1], H2 as [H2|H2].
  - congruence.
  - inversion H1; subst. exfalso. apply Hnot. apply (in_map fst) in H2. exact H2.
  - inversion H2; subst. exfalso. apply Hnot. apply (in_map fst) in H1. exact H1.
  - eapply IH; eassumption.
Qed.

Lemma nodup_mid (pre post : layout) i b : NoDup (map fst (pre ++ (i, b) :: post)) ->
  ~ In i (map fst pre) /\ ~ In i (map fst post) /\ NoDup (map fst (pre ++ post)).
Proof.
  rewrite !map_app. cbn [map fst]. intros H. apply NoDup_remove in H. destruct H as [H1 H2].
  rewrite in_app_iff in H2. tauto.
Qed.

Lemma in_fst (L : layout) i b : In (i, b) L -> In i (map fst L).
Proof. intros H. apply (in_map fst) in H. exact H. Qed.

Lemma rows_in (L : layout) i b : rows_ok L -> In (i, b) L -> 0 < blen b /\ blen b < delete_mask.
Proof. intros H Hin. unfold rows_ok in H. rewrite Forall_forall in H. exact (H _ Hin). Qed.

Lemma szf_of_false b : szf_of b false = blen b.
Proof. unfold szf_of. apply N.add_0_r. Qed.

(** * Reading the invariant *)

Lemma R_bounds s L : R s L -> fsp s <= page_size /\ tot L <= page_size /\
  size_tuple * count s <= page_size.
Proof. intros [_ _ _ _ _ H1 H2]. unf. lia. Qed.

Lemma slot_view s L i o szf : R s L -> nth_error (slots s) i = Some (o, szf) ->
  (szf = 0 /\ o = 0 /\ ~ In i (map fst L)) \/
  (exists pre b post m, L = pre ++ (i, b) :: post /\ o = fsp s + tot pre /\
      szf = szf_of b m /\ 0 < blen b /\ blen b < delete_mask).
Proof.
  intros HR H. destruct (in_dec Nat.eq_dec i (map fst L)) as [Hin|Hnin].
  - right. apply in_map_iff in Hin. destruct Hin as ([i' b] & Ei & Hin). cbn in Ei. subst i'.
    destruct (lay_in _ _ _ _ _ (R_lay _ _ HR) Hin) as (pre & post & m & EL & Hs).
    rewrite H in Hs. inversion Hs; subst o szf.
    destruct (rows_in _ _ _ (R_rows _ _ HR) Hin).
    exists pre, b, post, m. auto.
  - left. pose proof (R_empty _ _ HR i (nth_error_lt _ _ _ H) Hnin) as E.
    rewrite H in E. inversion E. auto.
Qed.

Lemma sub_data_row s pre i b post : R s (pre ++ (i, b) :: post) ->
  sub_data s (fsp s + tot pre) (blen b) = b.
Proof.
  intros HR. unfold sub_data. rewrite (R_data _ _ HR), cat_app, cat_cons.
  replace (N.to_nat (fsp s + tot pre - fsp s)) with (length (cat pre))
    by (rewrite <- tot_to_nat; lia).
  rewrite skipn_app_exact, blen_to_nat. apply firstn_app_exact.
Qed.

Lemma abs_entry_row s pre i b post m : R s (pre ++ (i, b) :: post) ->
  0 < blen b -> blen b < delete_mask ->
  abs_entry s (fsp s + tot pre, szf_of b m) = Some (b, m).
Proof.
  intros HR H1 H2. unfold abs_entry.
  rewrite szf_nz, szf_marked, szf_unset by assumption.
  rewrite (sub_data_row _ _ _ _ _ HR). reflexivity.
Qed.

Lemma abs_entry_zero s o : abs_entry s (o, 0) = None.
Proof. reflexivity. Qed.

Lemma abs_entry_slot s L i o b : R s L -> nth_error (slots s) i = Some (o, blen b) ->
  In (i, b) L -> abs_entry s (o, blen b) = Some (b, false).
Proof.
  intros HR H Hin.
  destruct (slot_view _ _ _ _ _ HR H) as [(_ & _ & Hn) | (pre & b' & post & m & EL & -> & Esz & B1 & B2)].
  - exfalso. apply Hn. eapply in_fst; eassumption.
  - assert (b' = b).
    { apply (nodup_fst_inj _ (R_nodup _ _ HR) i); [rewrite EL; apply in_elt | exact Hin]. }
    subst b'. assert (m = false).
    { apply (szf_inj b). rewrite <- Esz. symmetry. apply szf_of_false. }
    subst m. rewrite <- (szf_of_false b). subst L.
    apply (abs_entry_row _ _ _ _ _ false HR B1 B2).
Qed.

Lemma nth_error_abs s i : nth_error (abs s) i = option_map (abs_entry s) (nth_error (slots s) i).
Proof. unfold abs. apply nth_error_map. Qed.

Lemma free_eq s L : R s L ->
  free_remaining s = fsp s - size_table_page_header - size_tuple * count s.
Proof.
  intros HR. pose proof (R_bounds _ _ HR) as (B1 & B2 & B3). pose proof (R_hdr _ _ HR) as B4.
  unfold free_remaining.
  rewrite mul32_small by (unf; lia).
  rewrite (sub32_small (fsp s)) by (unf; lia).
  rewrite sub32_small by (unf; lia). reflexivity.
Qed.

(** * [a_used] of the abstraction is the total length of the layout *)

Lemma a_used_layout : forall (L : layout) (a : astate),
  NoDup (map fst L) ->
  (forall i b, In (i, b) L -> exists m, nth_error a i = Some (Some (b, m))) ->
  (forall i, ~ In i (map fst L) -> nth_error a i = None \/ nth_error a i = Some None) ->
  a_used a = tot L.
Proof.
  induction L as [|[i b] L IH]; intros a Hnd H1 H2.
  - rewrite tot_nil. apply a_used_empty. intros i. apply H2. intros [].
  - cbn [map fst] in Hnd. inversion Hnd as [|? ? Hnot Hnd']; subst.
    destruct (H1 i b (or_introl eq_refl)) as [m Hm].
    pose proof (a_used_set_nth a i _ None Hm) as E. cbn [aweight] in E.
    pose proof (nth_error_lt _ _ _ Hm) as Hlt.
    assert (Hle : (i <= length a)%nat) by (apply Nat.lt_le_incl; exact Hlt).
    rewrite tot_cons, <- (IH (set_nth a i None)); [lia | exact Hnd' | |].
    + intros j bj Hin.
      assert (j <> i) by (intros ->; apply Hnot; eapply in_fst; eassumption).
      rewrite nth_error_set_nth_neq by assumption. apply H1. right. exact Hin.
    + intros j Hj. destruct (Nat.eq_dec j i) as [->|Hne].
      * right. apply nth_error_set_nth_eq. exact Hle.
      * rewrite nth_error_set_nth_neq by assumption. apply H2.
        cbn [map fst]. intros [?|?]; [congruence | contradiction].
Qed.

Lemma abs_used s L : R s L -> a_used (abs s) = tot L.
Proof.
  intros HR. apply a_used_layout.
  - exact (R_nodup _ _ HR).
  - intros i b Hin.
    destruct (lay_in _ _ _ _ _ (R_lay _ _ HR) Hin) as (pre & post & m & EL & Hs).
    destruct (rows_in _ _ _ (R_rows _ _ HR) Hin).
    exists m. rewrite nth_error_abs, Hs. cbn [option_map]. f_equal.
    subst L. eapply abs_entry_row; eassumption.
  - intros i Hnin. rewrite nth_error_abs.
    destruct (nth_error (slots s) i) as [[o szf]|] eqn:E; [right | left; reflexivity].
    destruct (slot_view _ _ _ _ _ HR E) as [(-> & -> & _) | (pre & b & post & m & -> & _)].
    + reflexivity.
    + exfalso. apply Hnin. rewrite map_app, in_app_iff. right. left. reflexivity.
Qed.

Lemma a_free_eq s L : R s L -> a_free (abs s) = free_remaining s.
Proof.
  intros HR. rewrite (free_eq _ _ HR). unfold a_free.
  rewrite (abs_used _ _ HR). unfold abs. rewrite map_length. fold (count s).
  pose proof (R_fsp _ _ HR). pose proof (R_hdr _ _ HR). unf. lia.
Qed.

(** * What a slot says, in both views *)

Lemma slot_full s L i o szf : R s L -> slot_at s i = Some (o, szf) ->
  (szf = 0 /\ o = 0 /\ ~ In (N.to_nat i) (map fst L) /\ a_at (abs s) i = Some None) \/
  (exists pre b post m, L = pre ++ (N.to_nat i, b) :: post /\ o = fsp s + tot pre /\
      szf = szf_of b m /\ 0 < blen b /\ blen b < delete_mask /\
      a_at (abs s) i = Some (Some (b, m)) /\ sub_data s o (blen b) = b).
Proof.
  intros HR H. unfold slot_at in H. unfold a_at. rewrite nth_error_abs, H. cbn [option_map].
  destruct (slot_view _ _ _ _ _ HR H) as [(-> & -> & Hn) | (pre & b & post & m & EL & -> & -> & B1 & B2)].
  - left. auto.
  - right. exists pre, b, post, m. subst L.
    rewrite (abs_entry_row _ _ _ _ _ m HR B1 B2), (sub_data_row _ _ _ _ _ HR). auto 10.
Qed.

Lemma slot_none s i : slot_at s i = None -> a_at (abs s) i = None.
Proof. unfold slot_at, a_at. intros H. rewrite nth_error_abs, H. reflexivity. Qed.

(** * The abstraction after a step that rewrites one slot and shifts others *)

Lemma nth_map_set {A B} (g : A -> B) sl i e j x : (i <= length sl)%nat -> j <> i ->
  nth_error sl j = Some x -> nth_error (map g (set_nth sl i e)) j = Some (g x).
Proof.
  intros. rewrite nth_error_map, nth_error_set_nth_neq by assumption.
  rewrite H1. reflexivity.
Qed.

Lemma nth_map_set_eq {A B} (g : A -> B) sl i e : (i <= length sl)%nat ->
  nth_error (map g (set_nth sl i e)) i = Some (g e).
Proof. intros. rewrite nth_error_map, nth_error_set_nth_eq by assumption. reflexivity. Qed.

Lemma abs_step s L s' L' i e g :
  R s L -> R s' L' ->
  slots s' = map g (set_nth (slots s) i e) ->
  (i <= length (slots s))%nat ->
  (forall o szf, snd (g (o, szf)) = szf) ->
  (forall o, g (o, 0) = (o, 0)) ->
  (forall j b, j <> i -> In (j, b) L -> In (j, b) L') ->
  abs s' = set_nth (abs s) i (abs_entry s' (g e)).
Proof.
  intros HR HR' Hs Hi Hsnd Hz Hin. unfold abs at 1. rewrite Hs, map_map, map_set_nth.
  unfold abs. apply set_nth_map_ext; [|reflexivity].
  intros j [o szf] Hj He.
  destruct (slot_view _ _ _ _ _ HR He) as [(-> & -> & _) | (pre & b & post & m & EL & Eo & Esz & B1 & B2)].
  - rewrite Hz. reflexivity.
  - assert (HinL : In (j, b) L) by (subst L; apply in_elt).
    pose proof (Hin j b Hj HinL) as HinL'.
    assert (He' : nth_error (slots s') j = Some (g (o, szf)))
      by (rewrite Hs; apply nth_map_set; assumption).
    pose proof (Hsnd o szf) as Es. destruct (g (o, szf)) as [o' szf']. cbn [snd] in Es. subst szf'.
    destruct (slot_view _ _ _ _ _ HR' He') as [(E0 & _) | (pre' & b' & post' & m' & EL' & Eo' & Esz' & B1' & B2')].
    + exfalso. subst szf. pose proof (szf_nz b m B1). lia.
    + assert (b' = b).
      { apply (nodup_fst_inj _ (R_nodup _ _ HR') j); [subst L'; apply in_elt | exact HinL']. }
      subst b'. assert (m' = m) by (apply (szf_inj b); congruence). subst m'.
      subst o o'. rewrite Esz. subst L L'.
      rewrite (abs_entry_row _ _ _ _ _ m HR B1 B2), (abs_entry_row _ _ _ _ _ m HR' B1 B2).
      reflexivity.
Qed.

(** * The initial state *)

Lemma R_init : R pinit [].
Proof.
  constructor; cbn.
  - reflexivity.
  - constructor.
  - constructor.
  - exact I.
  - intros i H. lia.
  - reflexivity.
  - unf. unfold count. cbn. lia.
Qed.

(** * Get *)

Lemma p_get_fst s i : fst (p_get s i) = s.
Proof.
  unfold p_get. destruct (slot_at s i) as [[o szf]|]; [destruct (is_deleted szf)|]; reflexivity.
Qed.

Lemma a_get_fst a i : fst (astep a (PGet i)) = a.
Proof. cbn [astep]. destruct (a_at a i) as [[[b [|]]|]|]; reflexivity. Qed.

Lemma sim_get s L i : R s L -> snd (p_get s i) = snd (astep (abs s) (PGet i)).
Proof.
  intros HR. unfold p_get. cbn [astep].
  destruct (slot_at s i) as [[o szf]|] eqn:E.
  - destruct (slot_full _ _ _ _ _ HR E)
      as [(-> & -> & _ & Ha) | (pre & b & post & m & EL & -> & -> & B1 & B2 & Ha & Hd)]; rewrite Ha.
    + reflexivity.
    + rewrite szf_is_deleted by assumption. destruct m; [reflexivity|].
      rewrite szf_of_false, Hd. reflexivity.
  - rewrite (slot_none _ _ E). reflexivity.
Qed.

(** * Mark / rollback: only the mark of one slot changes *)

Lemma R_set_flag s pre i b post m m' :
  R s (pre ++ (i, b) :: post) ->
  nth_error (slots s) i = Some (fsp s + tot pre, szf_of b m) ->
  R (mkP (fsp s) (set_nth (slots s) i (fsp s + tot pre, szf_of b m')) (data s))
    (pre ++ (i, b) :: post).
Proof.
  intros HR H. pose proof (nth_error_lt _ _ _ H) as Hlt.
  assert (Hle : (i <= length (slots s))%nat) by lia.
  constructor; cbn [fsp slots data].
  - exact (R_data _ _ HR).
  - exact (R_nodup _ _ HR).
  - exact (R_rows _ _ HR).
  - apply (lay_shift (slots s) _ _ (fsp s) (fsp s) (R_lay _ _ HR)).
    intros j bj o mj Hin Hj _ _. destruct (Nat.eq_dec j i) as [->|Hne].
    + assert (bj = b).
      { apply (nodup_fst_inj _ (R_nodup _ _ HR) i); [exact Hin | apply in_elt]. }
      subst bj. rewrite H in Hj. inversion Hj; subst.
      eexists _, m'. split; [apply nth_error_set_nth_eq; exact Hle | reflexivity].
    + exists o, mj. split; [|reflexivity].
      rewrite nth_error_set_nth_neq by assumption. exact Hj.
  - rewrite set_nth_length by exact Hlt. intros j Hj Hnin.
    assert (j <> i).
    { intros ->. apply Hnin. rewrite map_app, in_app_iff. right. left. reflexivity. }
    rewrite nth_error_set_nth_neq by assumption. apply (R_empty _ _ HR); assumption.
  - exact (R_fsp _ _ HR).
  - unfold count; cbn [slots]. rewrite set_nth_length by exact Hlt. exact (R_hdr _ _ HR).
Qed.

Lemma abs_set_flag s pre i b post m m' :
  R s (pre ++ (i, b) :: post) ->
  nth_error (slots s) i = Some (fsp s + tot pre, szf_of b m) ->
  0 < blen b -> blen b < delete_mask ->
  abs (mkP (fsp s) (set_nth (slots s) i (fsp s + tot pre, szf_of b m')) (data s))
  = set_nth (abs s) i (Some (b, m')).
Proof.
  intros HR H B1 B2. pose proof (R_set_flag _ _ _ _ _ _ m' HR H) as HR'.
  pose proof (nth_error_lt _ _ _ H) as Hlt.
  rewrite (abs_step s _ _ _ i (fsp s + tot pre, szf_of b m') (fun x => x) HR HR').
  - f_equal. apply (abs_entry_row _ _ _ _ _ m' HR' B1 B2).
  - cbn [slots]. symmetry. apply map_id.
  - lia.
  - reflexivity.
  - reflexivity.
  - auto.
Qed.

Definition sim_goal (s : pstate) (o : pop) : Prop :=
  (exists L', R (fst (pstep s o)) L') /\
  abs (fst (pstep s o)) = fst (astep (abs s) o) /\
  snd (pstep s o) = snd (astep (abs s) o).

Lemma sim_mark s L i : R s L -> sim_goal s (PMark i).
Proof.
  intros HR. unfold sim_goal. cbn [pstep astep]. unfold p_mark.
  destruct (slot_at s i) as [[o szf]|] eqn:E.
  - destruct (slot_full _ _ _ _ _ HR E)
      as [(-> & -> & _ & Ha) | (pre & b & post & m & EL & -> & -> & B1 & B2 & Ha & Hd)]; rewrite Ha.
    + change (is_deleted 0) with true. cbn [fst snd]. eauto.
    + rewrite szf_is_deleted by assumption. destruct m; cbn [fst snd]; [eauto|].
      rewrite szf_set_deleted by assumption. subst L. unfold slot_at in E.
      split; [|split].
      * eexists. eapply R_set_flag; eassumption.
      * eapply abs_set_flag; eassumption.
      * rewrite szf_of_false, Hd. reflexivity.
  - rewrite (slot_none _ _ E). cbn [fst snd]. eauto.
Qed.

Lemma sim_rollback s L i : R s L -> sim_goal s (PRollback i).
Proof.
  intros HR. unfold sim_goal. cbn [pstep astep]. unfold p_rollback.
  destruct (slot_at s i) as [[o szf]|] eqn:E.
  - destruct (slot_full _ _ _ _ _ HR E)
      as [(-> & -> & _ & Ha) | (pre & b & post & m & EL & -> & -> & B1 & B2 & Ha & Hd)]; rewrite Ha.
    + change (0 =? 0) with true. cbn [fst snd]. eauto.
    + rewrite szf_nz, szf_is_deleted by assumption. destruct m; cbn [fst snd].
      * rewrite szf_unset by assumption. rewrite <- szf_of_false.
        subst L. unfold slot_at in E.
        split; [|split].
        -- eexists. eapply R_set_flag; eassumption.
        -- eapply abs_set_flag; eassumption.
        -- reflexivity.
      * split; [eauto|]. split; [|reflexivity].
        symmetry. apply set_nth_same. exact Ha.
  - rewrite (slot_none _ _ E). cbn [fst snd]. eauto.
Qed.

(** * Insert *)

Lemma insert_gen s L b n :
  R s L -> blen b < delete_mask -> (blen b =? 0) = false ->
  (free_remaining s <? blen b + size_tuple) = false ->
  (n <= length (slots s))%nat ->
  (forall o szf, nth_error (slots s) n = Some (o, szf) -> szf = 0) ->
  R (mkP (fsp s - blen b) (set_nth (slots s) n (fsp s - blen b, blen b)) (b ++ data s))
    ((n, b) :: L) /\
  abs (mkP (fsp s - blen b) (set_nth (slots s) n (fsp s - blen b, blen b)) (b ++ data s))
  = set_nth (abs s) n (Some (b, false)).
Proof.
  intros HR Hb E0 E1 Hle Hz.
  pose proof (free_eq _ _ HR) as Hfree.
  pose proof (R_bounds _ _ HR) as (B1 & B2 & B3). pose proof (R_hdr _ _ HR) as B4.
  pose proof (R_fsp _ _ HR) as B5.
  assert (Hnin : ~ In n (map fst L)).
  { intros Hin. apply in_map_iff in Hin. destruct Hin as ([n' bn] & En & Hin). cbn in En. subst n'.
    destruct (lay_in _ _ _ _ _ (R_lay _ _ HR) Hin) as (pre & post & m & EL & Hs).
    pose proof (Hz _ _ Hs) as Ez. destruct (rows_in _ _ _ (R_rows _ _ HR) Hin) as [P1 P2].
    pose proof (szf_nz bn m P1). lia. }
  assert (HR' : R (mkP (fsp s - blen b) (set_nth (slots s) n (fsp s - blen b, blen b)) (b ++ data s))
                  ((n, b) :: L)).
  { constructor; cbn [fsp slots data].
    - rewrite cat_cons, (R_data _ _ HR). reflexivity.
    - cbn [map fst]. constructor; [exact Hnin | exact (R_nodup _ _ HR)].
    - constructor; [|exact (R_rows _ _ HR)]. unfold row_ok. cbn [snd]. lia.
    - cbn [lay]. split.
      + exists false. rewrite szf_of_false. apply nth_error_set_nth_eq. exact Hle.
      + replace (fsp s - blen b + blen b) with (fsp s) by (unf; lia).
        apply (lay_shift (slots s) _ _ (fsp s) (fsp s) (R_lay _ _ HR)).
        intros j bj o mj Hin Hj _ _. exists o, mj. split; [|reflexivity].
        rewrite nth_error_set_nth_neq; [exact Hj | exact Hle |].
        intros ->. apply Hnin. eapply in_fst; eassumption.
    - intros j Hj Hjn. cbn [map fst] in Hjn.
      assert (j <> n) by (intros ->; apply Hjn; left; reflexivity).
      rewrite nth_error_set_nth_neq by assumption.
      apply (R_empty _ _ HR); [|intros ?; apply Hjn; right; assumption].
      destruct (Nat.lt_ge_cases n (length (slots s))) as [Hlt|Hge].
      + rewrite set_nth_length in Hj by exact Hlt. exact Hj.
      + assert (n = length (slots s)) by lia.
        pose proof (set_nth_length_le (slots s) n (fsp s - blen b, blen b)).
        destruct (Nat.lt_ge_cases j (length (slots s))) as [?|Hge']; [assumption|].
        exfalso.
        assert (Hnone : nth_error (slots s) j = None) by (apply nth_error_None; exact Hge').
        assert (Hsome : nth_error (set_nth (slots s) n (fsp s - blen b, blen b)) j <> None)
          by (apply nth_error_Some; exact Hj).
        rewrite nth_error_set_nth_neq in Hsome by assumption. contradiction.
    - rewrite tot_cons. unf. lia.
    - unfold count in *. cbn [slots].
      pose proof (set_nth_length_le (slots s) n (fsp s - blen b, blen b)). unf. lia. }
  split; [exact HR'|].
  rewrite (abs_step s _ _ _ n (fsp s - blen b, blen b) (fun x => x) HR HR').
  - f_equal. apply (abs_entry_slot _ _ n _ _ HR').
    + cbn [slots]. apply nth_error_set_nth_eq. exact Hle.
    + left. reflexivity.
  - cbn [slots]. symmetry. apply map_id.
  - exact Hle.
  - reflexivity.
  - reflexivity.
  - intros j bj _ Hin. right. exact Hin.
Qed.


Lemma slot_available_abs s i : slot_available (slots s) i = a_available (abs s) i.
Proof.
  unfold slot_available, a_available. rewrite nth_error_abs. unfold abs. rewrite map_length.
  f_equal. destruct (nth_error (slots s) (N.to_nat i)) as [[o szf]|]; [|reflexivity].
  cbn [option_map abs_entry]. destruct (szf =? 0); reflexivity.
Qed.

Lemma slot_available_spec l i : slot_available l i = true ->
  (N.to_nat i <= length l)%nat /\
  (forall o szf, nth_error l (N.to_nat i) = Some (o, szf) -> szf = 0).
Proof.
  unfold slot_available. intros H. apply orb_true_iff in H. destruct H as [H|H].
  - assert (E : N.to_nat i = length l) by lia. split; [lia|].
    intros o szf Hs. apply nth_error_lt in Hs. lia.
  - destruct (nth_error l (N.to_nat i)) as [[o szf]|] eqn:E; [|discriminate].
    split; [apply nth_error_lt in E; lia|]. intros o' szf' Hs. inversion Hs; subst. lia.
Qed.

Lemma sim_insert_common s L b (t : N) :
  R s L -> (blen b <? delete_mask) = true ->
  (N.to_nat t <= length (slots s))%nat ->
  (forall o szf, nth_error (slots s) (N.to_nat t) = Some (o, szf) -> szf = 0) ->
  let r := if blen b =? 0 then (s, OPanic)
           else if free_remaining s <? add32 (blen b) size_tuple then (s, ONoSpace)
           else (mkP (sub32 (fsp s) (blen b))
                     (set_nth (slots s) (N.to_nat t) (sub32 (fsp s) (blen b), blen b))
                     (b ++ data s), OInserted t) in
  let ra := if blen b =? 0 then (abs s, OPanic)
            else if a_free (abs s) <? blen b + size_tuple then (abs s, ONoSpace)
            else (set_nth (abs s) (N.to_nat t) (Some (b, false)), OInserted t) in
  (exists L', R (fst r) L') /\ abs (fst r) = fst ra /\ snd r = snd ra.
Proof.
  intros HR Hb Hle Hz. cbv zeta.
  destruct (blen b =? 0) eqn:E0; [cbn [fst snd]; eauto|].
  rewrite (a_free_eq _ _ HR).
  pose proof (free_eq _ _ HR) as Hfree.
  pose proof (R_bounds _ _ HR) as (B1 & B2 & B3). pose proof (R_hdr _ _ HR) as B4.
  rewrite add32_small by (unf; lia).
  destruct (free_remaining s <? blen b + size_tuple) eqn:E1; [cbn [fst snd]; eauto|].
  rewrite sub32_small by (unf; lia).
  cbn [fst snd].
  destruct (insert_gen s L b (N.to_nat t) HR ltac:(lia) E0 E1 Hle Hz) as [HR' Ea].
  split; [eauto|]. split; [exact Ea | reflexivity].
Qed.

Lemma sim_insert s L b : R s L -> op_ok (PInsert b) = true -> sim_goal s (PInsert b).
Proof.
  intros HR Hok. unfold sim_goal. cbn [pstep astep]. unfold p_insert.
  cbn [op_ok] in Hok. apply andb_true_iff in Hok. destruct Hok as [Hb _].
  cbv zeta.
  replace (a_first_free (abs s) 0) with (first_free (slots s) 0)
    by (unfold abs; apply first_free_abs).
  destruct (first_free_spec (slots s) 0) as (n & Hn & Hle & Hz).
  apply (sim_insert_common s L b (first_free (slots s) 0) HR Hb).
  - rewrite Hn. lia.
  - rewrite Hn. replace (N.to_nat (0 + N.of_nat n)) with n by lia. exact Hz.
Qed.

Lemma sim_insert_at s L i b : R s L -> op_ok (PInsertAt i b) = true -> sim_goal s (PInsertAt i b).
Proof.
  intros HR Hok. unfold sim_goal. cbn [pstep astep]. unfold p_insert_at.
  cbn [op_ok] in Hok. apply andb_true_iff in Hok. destruct Hok as [Hb _].
  cbv zeta.
  rewrite <- slot_available_abs.
  replace (a_first_free (abs s) 0) with (first_free (slots s) 0)
    by (unfold abs; apply first_free_abs).
  destruct (slot_available (slots s) i) eqn:Eav.
  - destruct (slot_available_spec _ _ Eav) as [Hle Hz].
    apply (sim_insert_common s L b i HR Hb Hle Hz).
  - destruct (first_free_spec (slots s) 0) as (n & Hn & Hle & Hz).
    apply (sim_insert_common s L b (first_free (slots s) 0) HR Hb).
    + rewrite Hn. lia.
    + rewrite Hn. replace (N.to_nat (0 + N.of_nat n)) with n by lia. exact Hz.
Qed.

(** * Apply delete *)

Lemma fix_delete_lt off sz o szf : (szf =? 0) = false -> o < off -> o + sz < w32 ->
  fix_delete off sz (o, szf) = (o + sz, szf).
Proof.
  intros H1 H2 H3. unfold fix_delete. rewrite H1.
  replace (o <? off) with true by lia. cbn [negb andb]. rewrite add32_small by assumption.
  reflexivity.
Qed.

Lemma fix_delete_ge off sz o szf : off <= o -> fix_delete off sz (o, szf) = (o, szf).
Proof.
  intros H. unfold fix_delete. replace (o <? off) with false by lia.
  rewrite andb_false_r. reflexivity.
Qed.

Lemma fix_delete_zero off sz o : fix_delete off sz (o, 0) = (o, 0).
Proof. reflexivity. Qed.

Lemma fix_delete_snd off sz o szf : snd (fix_delete off sz (o, szf)) = szf.
Proof. unfold fix_delete. destruct (negb (szf =? 0) && (o <? off)); reflexivity. Qed.

Lemma data_split s pre i b post : R s (pre ++ (i, b) :: post) ->
  data s = cat pre ++ b ++ cat post /\
  N.to_nat (fsp s + tot pre - fsp s) = length (cat pre).
Proof.
  intros HR. split.
  - rewrite (R_data _ _ HR), cat_app, cat_cons. reflexivity.
  - rewrite <- tot_to_nat. lia.
Qed.

Lemma skipn_mid {A} (p b q : list A) : skipn (length p + length b) (p ++ b ++ q) = q.
Proof.
  rewrite app_assoc, <- app_length. apply skipn_app_exact.
Qed.

Lemma R_apply s pre i b post m :
  R s (pre ++ (i, b) :: post) ->
  nth_error (slots s) i = Some (fsp s + tot pre, szf_of b m) ->
  0 < blen b -> blen b < delete_mask ->
  R (mkP (add32 (fsp s) (blen b))
         (map (fix_delete (fsp s + tot pre) (blen b)) (set_nth (slots s) i (0, 0)))
         (firstn (N.to_nat (fsp s + tot pre - fsp s)) (data s) ++
          skipn (N.to_nat (fsp s + tot pre - fsp s) + N.to_nat (blen b)) (data s)))
    (pre ++ post).
Proof.
  intros HR H P1 P2. pose proof (nth_error_lt _ _ _ H) as Hlt.
  assert (Hle : (i <= length (slots s))%nat) by lia.
  pose proof (R_bounds _ _ HR) as (B1 & B2 & B3). pose proof (R_hdr _ _ HR) as B4.
  pose proof (R_fsp _ _ HR) as B5. rewrite tot_mid in B5, B2.
  destruct (nodup_mid _ _ _ _ (R_nodup _ _ HR)) as (N1 & N2 & N3).
  pose proof (R_lay _ _ HR) as Hl. apply lay_app in Hl. destruct Hl as [Hl1 Hl2].
  cbn [lay] in Hl2. destruct Hl2 as [_ Hl2].
  pose proof (R_rows _ _ HR) as Hrows.
  rewrite add32_small by (unf; lia).
  destruct (data_split _ _ _ _ _ HR) as [Ed Ek].
  constructor; cbn [fsp slots data].
  - rewrite Ek, Ed, blen_to_nat, firstn_app_exact, skipn_mid, cat_app. reflexivity.
  - exact N3.
  - unfold rows_ok in *. rewrite Forall_app in *. destruct Hrows as [Hr1 Hr2].
    inversion Hr2; subst. split; assumption.
  - apply lay_app. split.
    + apply (lay_shift (slots s) _ _ (fsp s) _ Hl1).
      intros j bj o mj Hin Hj Ho1 Ho2.
      assert (j <> i) by (intros ->; apply N1; eapply in_fst; eassumption).
      destruct (rows_in _ j bj Hrows) as [Q1 Q2]; [apply in_or_app; left; exact Hin|].
      exists (o + blen b), mj. split; [|lia].
      rewrite (nth_map_set _ _ _ _ _ _ Hle H0 Hj).
      rewrite fix_delete_lt; [reflexivity | apply szf_nz; assumption | lia | unf; lia].
    + apply (lay_shift (slots s) _ _ (fsp s + tot pre + blen b) _ Hl2).
      intros j bj o mj Hin Hj Ho1 Ho2.
      assert (j <> i) by (intros ->; apply N2; eapply in_fst; eassumption).
      exists o, mj. split; [|lia].
      rewrite (nth_map_set _ _ _ _ _ _ Hle H0 Hj).
      rewrite fix_delete_ge by lia. reflexivity.
  - rewrite map_length, set_nth_length by exact Hlt. intros j Hj Hnin.
    destruct (Nat.eq_dec j i) as [->|Hne].
    + rewrite nth_map_set_eq by exact Hle. reflexivity.
    + assert (E : nth_error (slots s) j = Some (0, 0)).
      { apply (R_empty _ _ HR); [exact Hj|]. rewrite map_app, in_app_iff in *. cbn [map fst].
        intros [?|[?|?]]; [tauto | congruence | tauto]. }
      rewrite (nth_map_set _ _ _ _ _ _ Hle Hne E). reflexivity.
  - rewrite tot_app. lia.
  - unfold count in *. cbn [slots]. rewrite map_length, set_nth_length by exact Hlt. lia.
Qed.

Lemma sim_apply s L i : R s L -> sim_goal s (PApply i).
Proof.
  intros HR. unfold sim_goal. cbn [pstep astep]. unfold p_apply.
  destruct (slot_at s i) as [[o szf]|] eqn:E.
  - destruct (slot_full _ _ _ _ _ HR E)
      as [(-> & -> & _ & Ha) | (pre & b & post & m & EL & -> & -> & B1 & B2 & Ha & Hd)]; rewrite Ha.
    + cbv zeta. replace (0 <? fsp s) with true
        by (pose proof (R_hdr _ _ HR); unf; lia).
      cbn [fst snd]. eauto.
    + cbv zeta.
      assert (Esz : (if is_deleted (szf_of b m) then unset_deleted (szf_of b m) else szf_of b m)
                    = blen b).
      { rewrite szf_is_deleted, szf_unset by assumption. destruct m; [reflexivity | apply szf_of_false]. }
      rewrite Esz. replace (fsp s + tot pre <? fsp s) with false by lia.
      cbn [fst snd]. subst L. unfold slot_at in E.
      pose proof (R_apply _ _ _ _ _ _ HR E B1 B2) as HR'.
      split; [eauto|]. split; [|reflexivity].
      rewrite (abs_step s _ _ _ (N.to_nat i) (0, 0)
                 (fix_delete (fsp s + tot pre) (blen b)) HR HR').
      * reflexivity.
      * reflexivity.
      * apply nth_error_lt in E. lia.
      * apply fix_delete_snd.
      * apply fix_delete_zero.
      * intros j bj Hne Hin. apply in_app_or in Hin. apply in_or_app.
        destruct Hin as [?|[Heq|?]]; [left; assumption | inversion Heq; congruence | right; assumption].
  - rewrite (slot_none _ _ E). cbn [fst snd]. eauto.
Qed.

(** * Update *)

Lemma fix_update_lt off sz ns o szf : 0 < szf -> o < off + sz -> off + sz < w32 -> ns <= o + sz ->
  o + sz < w32 ->
  fix_update off sz ns (o, szf) = (o + sz - ns, szf).
Proof.
  intros H1 H2 H3 H4 H5. unfold fix_update. rewrite add32_small by assumption.
  replace (0 <? szf) with true by lia. replace (o <? off + sz) with true by lia.
  cbn [andb]. rewrite add32_small by lia. rewrite sub32_small by lia. reflexivity.
Qed.

Lemma fix_update_ge off sz ns o szf : off + sz <= o -> off + sz < w32 ->
  fix_update off sz ns (o, szf) = (o, szf).
Proof.
  intros H1 H2. unfold fix_update. rewrite add32_small by assumption.
  replace (o <? off + sz) with false by lia. rewrite andb_false_r. reflexivity.
Qed.

Lemma fix_update_zero off sz ns o : fix_update off sz ns (o, 0) = (o, 0).
Proof. reflexivity. Qed.

Lemma fix_update_snd off sz ns o szf : snd (fix_update off sz ns (o, szf)) = szf.
Proof. unfold fix_update. destruct ((0 <? szf) && (o <? add32 off sz)); reflexivity. Qed.

Lemma R_update s pre i bo post b :
  R s (pre ++ (i, bo) :: post) ->
  nth_error (slots s) i = Some (fsp s + tot pre, blen bo) ->
  0 < blen bo -> blen bo < delete_mask ->
  0 < blen b -> blen b < delete_mask ->
  blen b <= fsp s - size_table_page_header - size_tuple * count s + blen bo ->
  R (mkP (sub32 (add32 (fsp s) (blen bo)) (blen b))
         (map (fix_update (fsp s + tot pre) (blen bo) (blen b))
              (set_nth (slots s) i (fsp s + tot pre, blen b)))
         (firstn (N.to_nat (fsp s + tot pre - fsp s)) (data s) ++ b ++
          skipn (N.to_nat (fsp s + tot pre - fsp s) + N.to_nat (blen bo)) (data s)))
    (pre ++ (i, b) :: post).
Proof.
  intros HR H P1 P2 Q1 Q2 Hfit. pose proof (nth_error_lt _ _ _ H) as Hlt.
  assert (Hle : (i <= length (slots s))%nat) by lia.
  pose proof (R_bounds _ _ HR) as (B1 & B2 & B3). pose proof (R_hdr _ _ HR) as B4.
  pose proof (R_fsp _ _ HR) as B5. rewrite tot_mid in B5, B2.
  destruct (nodup_mid _ _ _ _ (R_nodup _ _ HR)) as (N1 & N2 & N3).
  pose proof (R_lay _ _ HR) as Hl. apply lay_app in Hl. destruct Hl as [Hl1 Hl2].
  cbn [lay] in Hl2. destruct Hl2 as [_ Hl2].
  pose proof (R_rows _ _ HR) as Hrows.
  rewrite add32_small by (unf; lia). rewrite sub32_small by (unf; lia).
  destruct (data_split _ _ _ _ _ HR) as [Ed Ek].
  constructor; cbn [fsp slots data].
  - rewrite Ek, Ed, blen_to_nat, firstn_app_exact, skipn_mid, cat_app, cat_cons. reflexivity.
  - pose proof (R_nodup _ _ HR) as Hnd. rewrite map_app in Hnd |- *. exact Hnd.
  - unfold rows_ok in *. rewrite Forall_app in *. destruct Hrows as [Hr1 Hr2].
    inversion Hr2; subst. split; [assumption|]. constructor; [|assumption].
    unfold row_ok. cbn [snd]. lia.
  - apply lay_app. split; [|cbn [lay]; split].
    + apply (lay_shift (slots s) _ _ (fsp s) _ Hl1).
      intros j bj o mj Hin Hj Ho1 Ho2.
      assert (j <> i) by (intros ->; apply N1; eapply in_fst; eassumption).
      destruct (rows_in _ j bj Hrows) as [T1 T2]; [apply in_or_app; left; exact Hin|].
      exists (o + blen bo - blen b), mj. split; [|unf; lia].
      rewrite (nth_map_set _ _ _ _ _ _ Hle H0 Hj).
      rewrite fix_update_lt; [reflexivity | | lia | unf; lia | unf; lia | unf; lia].
      pose proof (szf_pos bj mj T1). lia.
    + exists false. rewrite szf_of_false, nth_map_set_eq by exact Hle.
      rewrite fix_update_lt; [f_equal; f_equal; unf; lia | lia | lia | unf; lia | unf; lia | unf; lia].
    + replace (fsp s + blen bo - blen b + tot pre + blen b) with (fsp s + tot pre + blen bo)
        by (unf; lia).
      apply (lay_shift (slots s) _ _ (fsp s + tot pre + blen bo) _ Hl2).
      intros j bj o mj Hin Hj Ho1 Ho2.
      assert (j <> i) by (intros ->; apply N2; eapply in_fst; eassumption).
      exists o, mj. split; [|lia].
      rewrite (nth_map_set _ _ _ _ _ _ Hle H0 Hj).
      rewrite fix_update_ge; [reflexivity | lia | unf; lia].
  - rewrite map_length, set_nth_length by exact Hlt. intros j Hj Hnin.
    assert (Hne : j <> i).
    { intros ->. apply Hnin. rewrite map_app, in_app_iff. right. left. reflexivity. }
    assert (E : nth_error (slots s) j = Some (0, 0)).
    { apply (R_empty _ _ HR); [exact Hj|]. rewrite map_app in *. exact Hnin. }
    rewrite (nth_map_set _ _ _ _ _ _ Hle Hne E). reflexivity.
  - rewrite tot_mid. unf. lia.
  - unfold count in *. cbn [slots]. rewrite map_length, set_nth_length by exact Hlt. unf. lia.
Qed.

Lemma sim_update s L i b r : R s L -> op_ok (PUpdate i b r) = true -> sim_goal s (PUpdate i b r).
Proof.
  intros HR Hok. unfold sim_goal. cbn [pstep astep]. unfold p_update.
  cbn [op_ok] in Hok. apply andb_true_iff in Hok. destruct Hok as [Hb _].
  destruct (blen b =? 0) eqn:E0; [cbn [fst snd]; eauto|].
  destruct (slot_at s i) as [[o szf]|] eqn:E.
  - destruct (slot_full _ _ _ _ _ HR E)
      as [(-> & -> & _ & Ha) | (pre & bo & post & m & EL & -> & -> & B1 & B2 & Ha & Hd)]; rewrite Ha.
    + change (is_deleted 0) with true. cbn [fst snd]. eauto.
    + rewrite szf_is_deleted by assumption. destruct m; [cbn [fst snd]; eauto|].
      rewrite szf_of_false. cbv zeta.
      rewrite (a_free_eq _ _ HR).
      pose proof (free_eq _ _ HR) as Hfree.
      pose proof (R_bounds _ _ HR) as (C1 & C2 & C3). pose proof (R_hdr _ _ HR) as C4.
      rewrite add32_small by (unf; lia).
      destruct (free_remaining s + blen bo <? blen b) eqn:E1; [cbn [fst snd]; eauto|].
      destruct ((blen b <? blen bo) && negb r) eqn:E2; [cbn [fst snd]; eauto|].
      replace (fsp s + tot pre <? fsp s) with false by lia.
      cbn [fst snd]. subst L. unfold slot_at in E. rewrite szf_of_false in E.
      assert (HR' := R_update _ _ _ _ _ b HR E B1 B2).
      specialize (HR' ltac:(lia) ltac:(lia) ltac:(lia)).
      split; [eauto|]. split; [|rewrite Hd; reflexivity].
      rewrite (abs_step s _ _ _ (N.to_nat i) (fsp s + tot pre, blen b)
                 (fix_update (fsp s + tot pre) (blen bo) (blen b)) HR HR').
      * f_equal.
        assert (Hi : nth_error (map (fix_update (fsp s + tot pre) (blen bo) (blen b))
                      (set_nth (slots s) (N.to_nat i) (fsp s + tot pre, blen b))) (N.to_nat i)
                     = Some (fix_update (fsp s + tot pre) (blen bo) (blen b) (fsp s + tot pre, blen b))).
        { apply nth_map_set_eq. apply nth_error_lt in E. lia. }
        pose proof (fix_update_snd (fsp s + tot pre) (blen bo) (blen b) (fsp s + tot pre) (blen b)) as Es.
        destruct (fix_update (fsp s + tot pre) (blen bo) (blen b) (fsp s + tot pre, blen b)) as [o' z'].
        cbn [snd] in Es. subst z'.
        apply (abs_entry_slot _ _ (N.to_nat i) _ _ HR' Hi). apply in_elt.
      * reflexivity.
      * apply nth_error_lt in E. lia.
      * apply fix_update_snd.
      * apply fix_update_zero.
      * intros j bj Hne Hin. apply in_app_or in Hin. apply in_or_app.
        destruct Hin as [?|[Heq|?]]; [left; assumption | inversion Heq; congruence | right; right; assumption].
  - rewrite (slot_none _ _ E). cbn [fst snd]. eauto.
Qed.

(** * One step, then many *)

Lemma step_sim s L o : R s L -> op_ok o = true -> sim_goal s o.
Proof.
  intros HR Hok. destruct o as [b|i b|i b r|i|i|i|i].
  - eapply sim_insert; eassumption.
  - eapply sim_insert_at; eassumption.
  - eapply sim_update; eassumption.
  - eapply sim_mark; eassumption.
  - eapply sim_apply; eassumption.
  - eapply sim_rollback; eassumption.
  - unfold sim_goal. cbn [pstep]. rewrite p_get_fst, a_get_fst.
    split; [eauto|]. split; [reflexivity|]. eapply sim_get; eassumption.
Qed.

Lemma run_sim : forall ops s L, R s L -> forallb op_ok ops = true ->
  (exists L', R (prun ops s) L') /\ abs (prun ops s) = arun ops (abs s).
Proof.
  induction ops as [|o ops IH]; intros s L HR Hok.
  - cbn. eauto.
  - cbn [forallb] in Hok. apply andb_true_iff in Hok. destruct Hok as [Ho Hops].
    destruct (step_sim _ _ _ HR Ho) as ([L1 HR1] & Ea & _).
    unfold prun, arun. cbn [fold_left]. fold (prun ops (fst (pstep s o))).
    rewrite <- Ea. fold (arun ops (abs (fst (pstep s o)))).
    eapply IH; eassumption.
Qed.

Lemma reach_R ops : forallb op_ok ops = true ->
  (exists L, R (prun ops pinit) L) /\ abs (prun ops pinit) = arun ops [].
Proof. intros H. exact (run_sim ops pinit [] R_init H). Qed.

(** * The theorems of C15 *)

Lemma refinement : forall ops, forallb op_ok ops = true ->
  abs (prun ops pinit) = arun ops [] /\
  forall o, op_ok o = true ->
    snd (pstep (prun ops pinit) o) = snd (astep (arun ops []) o).
Proof.
  intros ops H. destruct (reach_R ops H) as [[L HR] Ea]. split; [exact Ea|].
  intros o Ho. rewrite <- Ea. destruct (step_sim _ _ _ HR Ho) as (_ & _ & E). exact E.
Qed.

Lemma geometry_R s L : R s L ->
  size_table_page_header + size_tuple * count s <= fsp s /\ fsp s <= page_size /\
  N.of_nat (length (data s)) = page_size - fsp s /\
  (forall i off szf, slot_at s i = Some (off, szf) -> szf <> 0 ->
     fsp s <= off /\ off + unset_deleted szf <= page_size /\ 0 < unset_deleted szf) /\
  (forall i j oi si oj sj, i <> j ->
     slot_at s i = Some (oi, si) -> slot_at s j = Some (oj, sj) -> si <> 0 -> sj <> 0 ->
     oi + unset_deleted si <= oj \/ oj + unset_deleted sj <= oi) /\
  (forall i off szf, slot_at s i = Some (off, szf) -> szf = 0 -> off = 0).
Proof.
  intros HR. pose proof (R_bounds _ _ HR) as (B1 & B2 & B3). pose proof (R_fsp _ _ HR) as B5.
  split; [exact (R_hdr _ _ HR)|]. split; [exact B1|]. split; [|split; [|split]].
  - rewrite (R_data _ _ HR). fold (blen (cat L)). fold (tot L). lia.
  - intros i off szf H Hnz. unfold slot_at in H.
    destruct (slot_view _ _ _ _ _ HR H) as [(? & _) | (pre & b & post & m & EL & -> & -> & P1 & P2)];
      [contradiction|].
    rewrite szf_unset by assumption. subst L. rewrite tot_mid in B5. lia.
  - intros i j oi si oj sj Hij Hi Hj Hnzi Hnzj. unfold slot_at in Hi, Hj.
    destruct (slot_view _ _ _ _ _ HR Hi) as [(? & _) | (pre & b & post & m & EL & -> & -> & P1 & P2)];
      [contradiction|].
    destruct (slot_view _ _ _ _ _ HR Hj) as [(? & _) | (pre' & b' & post' & m' & EL' & -> & -> & Q1 & Q2)];
      [contradiction|].
    rewrite !szf_unset by assumption.
    assert (Hin : In (N.to_nat j, b') L) by (rewrite EL'; apply in_elt).
    rewrite EL in Hin. apply in_app_or in Hin.
    pose proof (R_lay _ _ HR) as Hl. rewrite EL in Hl. apply lay_app in Hl. destruct Hl as [Hl1 Hl2].
    cbn [lay] in Hl2. destruct Hl2 as [_ Hl2].
    destruct Hin as [Hin|[Hin|Hin]].
    + right. destruct (lay_in _ _ _ _ _ Hl1 Hin) as (p1 & p2 & m1 & Ep & Hs).
      rewrite Hj in Hs. inversion Hs as [[Eo Em]].
      rewrite Ep, tot_mid. rewrite Eo. lia.
    + inversion Hin. lia.
    + left. destruct (lay_in _ _ _ _ _ Hl2 Hin) as (p1 & p2 & m1 & Ep & Hs).
      rewrite Hj in Hs. inversion Hs as [[Eo Em]]. rewrite Eo. lia.
  - intros i off szf H Hz. unfold slot_at in H.
    destruct (slot_view _ _ _ _ _ HR H) as [(_ & ? & _) | (pre & b & post & m & EL & _ & -> & P1 & P2)];
      [assumption|].
    pose proof (szf_nz b m P1). lia.
Qed.

Lemma geometry : forall s,
  (exists ops, forallb op_ok ops = true /\ s = prun ops pinit) ->
  size_table_page_header + size_tuple * count s <= fsp s /\ fsp s <= page_size /\
  N.of_nat (length (data s)) = page_size - fsp s /\
  (forall i off szf, slot_at s i = Some (off, szf) -> szf <> 0 ->
     fsp s <= off /\ off + unset_deleted szf <= page_size /\ 0 < unset_deleted szf) /\
  (forall i j oi si oj sj, i <> j ->
     slot_at s i = Some (oi, si) -> slot_at s j = Some (oj, sj) -> si <> 0 -> sj <> 0 ->
     oi + unset_deleted si <= oj \/ oj + unset_deleted sj <= oi) /\
  (forall i off szf, slot_at s i = Some (off, szf) -> szf = 0 -> off = 0).
Proof.
  intros s (ops & Hok & ->). destruct (reach_R ops Hok) as [[L HR] _].
  exact (geometry_R _ _ HR).
Qed.

Lemma free_exact : forall s,
  (exists ops, forallb op_ok ops = true /\ s = prun ops pinit) ->
  free_remaining s = page_size - size_table_page_header - size_tuple * count s - a_used (abs s) /\
  size_table_page_header + size_tuple * count s + a_used (abs s) <= page_size.
Proof.
  intros s (ops & Hok & ->). destruct (reach_R ops Hok) as [[L HR] _].
  rewrite (abs_used _ _ HR), (free_eq _ _ HR).
  pose proof (R_fsp _ _ HR). pose proof (R_hdr _ _ HR). unf. lia.
Qed.
