(** Proofs about the composed model Model/ReqSched.v (request manager x
    strict-2PL scheduler), used by Props/C12Atomic.v.  Axiom-free.
    The two projection lemmas come first; everything else is obtained from the
    theorems of Proofs/ReqMgrProofs.v and Proofs/SchedProofs.v through one
    glue invariant ([rs_inv]). *)
From Coq Require Import List NArith Bool PeanoNat Lia ZifyBool ZifyN ZifyNat.
From SDB Require Import Params Base.Assoc Model.Lock Model.Sched Model.ReqMgr Model.ReqSched.
From SDB Require Import Proofs.LockProofs Proofs.SchedProofs.
From SDB Require Proofs.ReqMgrProofs.
Import ListNotations.
Open Scope N_scope.

(* ------------------------------------------------------------------ *)
(** * Lists *)

Lemma rs_app_eq_len : forall (A : Type) (a a' b b' : list A),
  length a = length a' -> a ++ b = a' ++ b' -> a = a' /\ b = b'.
Proof.
  intros A a. induction a as [|x a IH]; intros a' b b' Hl H.
  - destruct a'; [split; [reflexivity|exact H]|discriminate].
  - destruct a' as [|y a']; [discriminate|]. cbn [app] in H. injection H as Hx H.
    cbn [length] in Hl. injection Hl as Hl. destruct (IH a' b b' Hl H) as [E1 E2].
    split; [congruence|exact E2].
Qed.

Lemma rs_nodup_map : forall (A B : Type) (f : A -> B) (l : list A),
  NoDup l -> (forall x y, In x l -> In y l -> f x = f y -> x = y) -> NoDup (map f l).
Proof.
  intros A B f l Hnd. induction Hnd as [|x l Hx Hnd IH]; intros Hinj; cbn [map].
  - constructor.
  - constructor.
    + intros Hin. apply in_map_iff in Hin. destruct Hin as (y & Ey & Hy).
      assert (E : y = x).
      { apply Hinj; [right; exact Hy|left; reflexivity|exact Ey]. }
      subst y. contradiction.
    + apply IH. intros a b Ha Hb. apply Hinj; right; assumption.
Qed.

Lemma rs_occ_in : forall (l : list N) (id : N), In id l -> (1 <= occ id l)%nat.
Proof.
  intros l id. unfold occ. induction l as [|x r IH]; cbn [count In]; intros H; [contradiction|].
  destruct H as [H|H].
  - subst x. rewrite N.eqb_refl. lia.
  - specialize (IH H). lia.
Qed.

Lemma rs_aget_in : forall (A : Type) (m : list (N * A)) (k : N) (v : A),
  aget m k = Some v -> In (k, v) m.
Proof.
  intros A m k v. induction m as [|[k0 v0] m IH]; cbn [aget]; intros H; [discriminate|].
  destruct (N.eqb_spec k0 k) as [E|E].
  - injection H as H. subst. left. reflexivity.
  - right. apply IH. exact H.
Qed.

Lemma rs_in_aget : forall (A : Type) (m : list (N * A)) (k : N) (v : A),
  NoDup (map fst m) -> In (k, v) m -> aget m k = Some v.
Proof.
  intros A m k v. induction m as [|[k0 v0] m IH]; cbn [aget map fst]; intros Hnd Hin; [contradiction|].
  inversion Hnd as [|a l Hn Hnd']; subst. destruct Hin as [E|Hin].
  - injection E as E1 E2. subst. rewrite N.eqb_refl. reflexivity.
  - destruct (N.eqb_spec k0 k) as [E|E].
    + subst k0. exfalso. apply Hn. apply (in_map fst) in Hin. exact Hin.
    + apply IH; assumption.
Qed.

Lemma rs_aget_aset_mono : forall (A : Type) (m : list (N * A)) (k k' : N) (v : A),
  aget m k' <> None -> aget (aset m k v) k' <> None.
Proof.
  intros A m k k' v H. destruct (N.eq_dec k k') as [E|E].
  - subst k'. rewrite aget_aset_same. discriminate.
  - rewrite aget_aset_other by exact E. exact H.
Qed.

(* ------------------------------------------------------------------ *)
(** * Events and traces *)

Lemma rs_reads_of_app : forall a b, rs_reads_of (a ++ b) = rs_reads_of a ++ rs_reads_of b.
Proof. intros a b. unfold rs_reads_of. apply flat_map_app. Qed.

Lemma rs_proj_none : forall t tr, (forall e, In e tr -> ev_txn e <> t) -> proj t tr = [].
Proof.
  intros t tr. induction tr as [|e tr IH]; intros H; [reflexivity|].
  unfold proj. cbn [filter]. destruct (N.eqb_spec (ev_txn e) t) as [E|E].
  - exfalso. apply (H e); [left; reflexivity|exact E].
  - apply IH. intros e' He'. apply H. right. exact He'.
Qed.

Lemma rs_commit_abort_excl : forall st0 ops t,
  In (EvCommit t) (trace st0 ops) -> ~ In (EvAbort t) (trace st0 ops).
Proof.
  intros st0 ops t H. apply (committed_program_lemma st0 ops t). apply committed_In. exact H.
Qed.

(** Each transaction commits at most once. *)
Lemma rs_committed_nodup : forall st0 ops, NoDup (committed (trace st0 ops)).
Proof.
  intros st0 ops. induction ops as [|o ops IH] using rev_ind.
  - constructor.
  - rewrite trace_snoc. pose proof (inv_at st0 ops) as I.
    destruct (sstep_event (final st0 ops) o (i_reach _ _ _ I)) as [E|(e & E & Et & Hn)];
      rewrite E.
    + rewrite app_nil_r. exact IH.
    + rewrite committed_app. destruct e as [a b c|a b c|a|a]; cbn [committed flat_map app];
        try (rewrite app_nil_r; exact IH).
      apply NoDup_snoc; [exact IH|]. cbn [ev_txn] in Et.
      apply (inv_nocommit _ _ _ _ I). rewrite Et. exact Hn.
Qed.

(** One operation of a transaction that has not ended. *)
Lemma rs_sstep_commit : forall s t, ~ In t (fin s) -> sstep s (SCommit t) = commit_txn s t.
Proof.
  intros s t H. unfold sstep. cbn [op_txn]. apply memN_false in H. rewrite H. reflexivity.
Qed.

Lemma rs_sstep_read : forall s t x, ~ In t (fin s) ->
  (exists s' v, sstep s (SRead t x) = (s', [EvRead t x v])) \/
  sstep s (SRead t x) = abort_txn s t.
Proof.
  intros s t x H. unfold sstep. cbn [op_txn]. apply memN_false in H. rewrite H.
  destruct (holdsSb (locks s) t x || holdsXb (locks s) t x).
  - left. eexists. eexists. reflexivity.
  - unfold request. destruct (lstep (locks s) (LockS t x)) as [l' out].
    destruct out; try (right; reflexivity).
    left. eexists. eexists. reflexivity.
Qed.

Lemma rs_sstep_write : forall s t x v, ~ In t (fin s) ->
  (exists s', sstep s (SWrite t x v) = (s', [EvWrite t x v])) \/
  sstep s (SWrite t x v) = abort_txn s t.
Proof.
  intros s t x v H. unfold sstep. cbn [op_txn]. apply memN_false in H. rewrite H.
  destruct (holdsXb (locks s) t x).
  - left. eexists. reflexivity.
  - destruct (holdsSb (locks s) t x); unfold request.
    + destruct (lstep (locks s) (Upgrade t x)) as [l' out].
      destruct out; try (right; reflexivity). left. eexists. reflexivity.
    + destruct (lstep (locks s) (LockX t x)) as [l' out].
      destruct out; try (right; reflexivity). left. eexists. reflexivity.
Qed.

Lemma rs_after_tid : forall w evs, rq_tid (rs_after w evs) = rq_tid w.
Proof.
  intros w evs. unfold rs_after. destruct (rq_rem w) as [|[x|x v] rest]; [reflexivity| |].
  - destruct evs as [|[a b c|a b c|a|a] [|e2 evs]]; reflexivity.
  - destruct evs as [|[a b c|a b c|a|a] [|e2 evs]]; reflexivity.
Qed.

(** What the next operation of a running worker whose transaction has not
    ended emits, and what the worker becomes. *)
Lemma rs_exec_event : forall db w, ~ In (rq_tid w) (fin db) ->
  exists e, snd (sstep db (rs_next_op w)) = [e] /\ ev_txn e = rq_tid w /\
    ((rq_rem w = [] /\ e = EvCommit (rq_tid w) /\
      rs_after w [e] = mkRqW (rq_tid w) [] (rq_reads w) RqCommitted) \/
     (exists x v rest, rq_rem w = RqRead x :: rest /\ e = EvRead (rq_tid w) x v /\
      rs_after w [e] = mkRqW (rq_tid w) rest (rq_reads w ++ [v]) RqRunning) \/
     (exists x v rest, rq_rem w = RqWrite x v :: rest /\ e = EvWrite (rq_tid w) x v /\
      rs_after w [e] = mkRqW (rq_tid w) rest (rq_reads w) RqRunning) \/
     (e = EvAbort (rq_tid w) /\
      rs_after w [e] = mkRqW (rq_tid w) (rq_rem w) (rq_reads w) RqDenied)).
Proof.
  intros db w Hn. unfold rs_next_op, rs_after.
  destruct (rq_rem w) as [|[x|x v] rest] eqn:Er.
  - rewrite (rs_sstep_commit db _ Hn). cbn [commit_txn snd]. eexists.
    split; [reflexivity|]. split; [reflexivity|]. left. repeat split.
  - cbn [rs_op]. destruct (rs_sstep_read db (rq_tid w) x Hn) as [(s' & v & E)|E]; rewrite E.
    + cbn [snd]. eexists. split; [reflexivity|]. split; [reflexivity|].
      right. left. exists x, v, rest. repeat split.
    + cbn [abort_txn snd]. eexists. split; [reflexivity|]. split; [reflexivity|].
      right. right. right. split; reflexivity.
  - cbn [rs_op]. destruct (rs_sstep_write db (rq_tid w) x v Hn) as [(s' & E)|E]; rewrite E.
    + cbn [snd]. eexists. split; [reflexivity|]. split; [reflexivity|].
      right. right. left. exists x, v, rest. repeat split.
    + cbn [abort_txn snd]. eexists. split; [reflexivity|]. split; [reflexivity|].
      right. right. right. split; reflexivity.
Qed.

(* ------------------------------------------------------------------ *)
(** * The four kinds of composed steps *)

Definition rs_plain (s : rs_state) (l : rs_label) (s' : rs_state) : Prop :=
  exists l' r', l = RsReq l' /\ rstep (rs_req s) l' = Some r' /\
    s' = rs_with_req s r' /\
    (forall id o, l' <> WorkerFinish id o) /\
    (l' = Dispatch -> rs_dispatched (rs_req s) = None).

Definition rs_disp (s : rs_state) (l : rs_label) (s' : rs_state) : Prop :=
  exists h r', l = RsReq Dispatch /\ rstep (rs_req s) Dispatch = Some r' /\
    rs_dispatched (rs_req s) = Some h /\
    s' = mkRS r' (rs_db s) (rs_stmts s) (rs_next s + 1)
              ((rs_next s, h) :: rs_atts s)
              (aset (rs_wk s) h (mkRqW (rs_next s) (rs_stmt s h) [] RqRunning))
              (rs_results s) (rs_st0 s) (rs_ops s) (rs_trace s).

Definition rs_fini (s : rs_state) (l : rs_label) (s' : rs_state) : Prop :=
  exists id o w r', l = RsReq (WorkerFinish id o) /\ aget (rs_wk s) id = Some w /\
    rs_may_finish (rq_st w) o = true /\
    rstep (rs_req s) (WorkerFinish id o) = Some r' /\
    s' = mkRS r' (rs_db s) (rs_stmts s) (rs_next s) (rs_atts s)
              (adel (rs_wk s) id)
              (match o with
               | Ok => aset (rs_results s) id (rq_reads w)
               | Aborted => rs_results s
               end)
              (rs_st0 s) (rs_ops s) (rs_trace s).

Definition rs_exe (s : rs_state) (l : rs_label) (s' : rs_state) : Prop :=
  exists id w, l = RsExec id /\ aget (rs_wk s) id = Some w /\ rq_st w = RqRunning /\
    s' = mkRS (rs_req s) (fst (sstep (rs_db s) (rs_next_op w))) (rs_stmts s) (rs_next s)
              (rs_atts s)
              (aset (rs_wk s) id (rs_after w (snd (sstep (rs_db s) (rs_next_op w)))))
              (rs_results s) (rs_st0 s) (rs_ops s ++ [rs_next_op w])
              (rs_trace s ++ snd (sstep (rs_db s) (rs_next_op w))).

Lemma rs_step_kinds : forall s l s', rs_step s l = Some s' ->
  rs_plain s l s' \/ rs_disp s l s' \/ rs_fini s l s' \/ rs_exe s l s'.
Proof.
  intros s l s' H. destruct l as [l'|id].
  - assert (Hplain : forall r', rstep (rs_req s) l' = Some r' -> s' = rs_with_req s r' ->
              (forall id o, l' <> WorkerFinish id o) ->
              (l' = Dispatch -> rs_dispatched (rs_req s) = None) -> rs_plain s (RsReq l') s').
    { intros r' Hr Es Hw Hd. exists l', r'. repeat split; assumption. }
    destruct l' as [id|id| |id| |id o]; cbn [rs_step] in H.
    + destruct (rstep (rs_req s) (Enqueue id)) as [r'|] eqn:Er; [|discriminate].
      injection H as H. left. apply (Hplain r' eq_refl); [symmetry; exact H| |]; intros; discriminate.
    + destruct (rstep (rs_req s) (SendToken id)) as [r'|] eqn:Er; [|discriminate].
      injection H as H. left. apply (Hplain r' eq_refl); [symmetry; exact H| |]; intros; discriminate.
    + destruct (rstep (rs_req s) LoopRecv) as [r'|] eqn:Er; [|discriminate].
      injection H as H. left. apply (Hplain r' eq_refl); [symmetry; exact H| |]; intros; discriminate.
    + destruct (rstep (rs_req s) (Deliver id)) as [r'|] eqn:Er; [|discriminate].
      injection H as H. left. apply (Hplain r' eq_refl); [symmetry; exact H| |]; intros; discriminate.
    + destruct (rstep (rs_req s) Dispatch) as [r'|] eqn:Er; [|discriminate].
      destruct (rs_dispatched (rs_req s)) as [h|] eqn:Ed; injection H as H.
      * right. left. exists h, r'. subst s'. repeat split; assumption.
      * left. apply (Hplain r' eq_refl); [symmetry; exact H| |]; intros; try discriminate.
        reflexivity.
    + destruct (aget (rs_wk s) id) as [w|] eqn:Ew; [|discriminate].
      destruct (rs_may_finish (rq_st w) o) eqn:Em; [|discriminate].
      destruct (rstep (rs_req s) (WorkerFinish id o)) as [r'|] eqn:Er; [|discriminate].
      injection H as H. right. right. left. exists id, o, w, r'. subst s'.
      repeat split; assumption.
  - cbn [rs_step] in H. unfold rs_exec in H.
    destruct (aget (rs_wk s) id) as [w|] eqn:Ew; [|discriminate].
    destruct (rq_st w) eqn:Est; try discriminate. injection H as H.
    right. right. right. exists id, w. subst s'. repeat split; assumption.
Qed.

(* ------------------------------------------------------------------ *)
(** * Projection onto the request manager *)

Lemma rs_step_req : forall s l s', rs_step s l = Some s' ->
  match l with
  | RsReq l' => rstep (rs_req s) l' = Some (rs_req s')
  | RsExec _ => rs_req s' = rs_req s
  end.
Proof.
  intros s l s' H.
  destruct (rs_step_kinds s l s' H) as [(l' & r' & El & Hr & Es & _)|[(h & r' & El & Hr & _ & Es)|
    [(id & o & w & r' & El & _ & _ & Hr & Es)|(id & w & El & _ & _ & Es)]]]; subst l s'.
  - exact Hr.
  - exact Hr.
  - exact Hr.
  - reflexivity.
Qed.

Lemma rs_run_req : forall ls s s', rs_run ls s = Some s' ->
  rrun (rs_rlabels ls) (rs_req s) = Some (rs_req s').
Proof.
  induction ls as [|l ls IH]; intros s s' H; cbn [rs_run] in H.
  - injection H as H. subst s'. reflexivity.
  - destruct (rs_step s l) as [s1|] eqn:E; [|discriminate].
    pose proof (rs_step_req s l s1 E) as Hr. specialize (IH s1 s' H).
    destruct l as [l'|id]; cbn [rs_rlabels flat_map app] in *.
    + fold (rs_rlabels ls). cbn [rrun]. rewrite Hr. exact IH.
    + fold (rs_rlabels ls). rewrite <- Hr. exact IH.
Qed.

Lemma projection_reqmgr_l : forall c m rc st0 stmts ls s,
  rs_run ls (rs_init c m rc st0 stmts) = Some s ->
  rrun (rs_rlabels ls) (rinit c m rc) = Some (rs_req s).
Proof. intros c m rc st0 stmts ls s H. exact (rs_run_req ls _ s H). Qed.

(* ------------------------------------------------------------------ *)
(** * Projection onto the scheduler *)

Lemma rs_step_db : forall s l s', rs_step s l = Some s' ->
  rs_ops s' = rs_ops s ++ rs_label_ops s l /\
  rs_db s' = fst (srun_from (rs_db s) (rs_label_ops s l)) /\
  rs_trace s' = rs_trace s ++ snd (srun_from (rs_db s) (rs_label_ops s l)) /\
  rs_st0 s' = rs_st0 s /\ rs_stmts s' = rs_stmts s.
Proof.
  intros s l s' H.
  destruct (rs_step_kinds s l s' H) as [(l' & r' & El & _ & Es & _)|[(h & r' & El & _ & _ & Es)|
    [(id & o & w & r' & El & _ & _ & _ & Es)|(id & w & El & Ew & Est & Es)]]]; subst l s';
    cbn [rs_label_ops rs_ops rs_db rs_trace rs_st0 rs_stmts rs_with_req srun_from fold_left fst snd];
    rewrite ?app_nil_r; try (repeat split; reflexivity).
  rewrite Ew, Est. cbn [srun_from fold_left fst snd app]. repeat split; reflexivity.
Qed.

Lemma rs_srun_from_app : forall s a b,
  srun_from s (a ++ b) =
  (fst (srun_from (fst (srun_from s a)) b),
   snd (srun_from s a) ++ snd (srun_from (fst (srun_from s a)) b)).
Proof.
  intros s a b. induction b as [|o b IH] using rev_ind.
  - rewrite app_nil_r. cbn [srun_from fold_left fst snd]. rewrite app_nil_r.
    destruct (srun_from s a); reflexivity.
  - rewrite app_assoc, !srun_from_snoc, IH. cbn [fst snd]. rewrite app_assoc. reflexivity.
Qed.

Lemma rs_run_db : forall ls s s', rs_run ls s = Some s' ->
  rs_ops s' = rs_ops s ++ rs_sops ls s /\
  rs_db s' = fst (srun_from (rs_db s) (rs_sops ls s)) /\
  rs_trace s' = rs_trace s ++ snd (srun_from (rs_db s) (rs_sops ls s)) /\
  rs_st0 s' = rs_st0 s /\ rs_stmts s' = rs_stmts s.
Proof.
  induction ls as [|l ls IH]; intros s s' H; cbn [rs_run rs_sops] in *.
  - injection H as H. subst s'. cbn [srun_from fold_left fst snd]. rewrite !app_nil_r.
    repeat split; reflexivity.
  - destruct (rs_step s l) as [s1|] eqn:E; [|discriminate].
    destruct (rs_step_db s l s1 E) as (H1 & H2 & H3 & H4 & H5).
    destruct (IH s1 s' H) as (K1 & K2 & K3 & K4 & K5).
    rewrite rs_srun_from_app. cbn [fst snd]. rewrite <- H2.
    rewrite K1, K2, K3, K4, K5, H1, H3, H4, H5, <- !app_assoc. repeat split; reflexivity.
Qed.

(** The scheduler component and the recorded events of a composed run are the
    state and the trace of [srun] on the run's scheduler operations. *)
Lemma projection_sched_l : forall c m rc st0 stmts ls s,
  rs_run ls (rs_init c m rc st0 stmts) = Some s ->
  rs_ops s = rs_sops ls (rs_init c m rc st0 stmts) /\
  srun st0 (rs_ops s) = (rs_db s, rs_trace s).
Proof.
  intros c m rc st0 stmts ls s H.
  destruct (rs_run_db ls _ s H) as (H1 & H2 & H3 & _ & _).
  cbn [rs_init rs_ops rs_db rs_trace app] in H1, H2, H3.
  split; [exact H1|]. unfold srun. rewrite H1, H2, H3.
  destruct (srun_from (sinit st0) (rs_sops ls (rs_init c m rc st0 stmts))); reflexivity.
Qed.

(** Every [RsExec] performs exactly one scheduler operation, every other
    label none. *)
Lemma rs_label_ops_count : forall s l s', rs_step s l = Some s' ->
  length (rs_label_ops s l) = match l with RsExec _ => 1%nat | RsReq _ => 0%nat end.
Proof.
  intros s l s' H. destruct l as [l'|id]; [reflexivity|].
  cbn [rs_step] in H. unfold rs_exec in H. cbn [rs_label_ops].
  destruct (aget (rs_wk s) id) as [w|]; [|discriminate].
  destruct (rq_st w); try discriminate. reflexivity.
Qed.

(* ------------------------------------------------------------------ *)
(** * Request-manager facts in the form used here *)

Lemma rs_callers_mono : forall r l r' id, rstep r l = Some r' ->
  aget (callers r) id <> None -> aget (callers r') id <> None.
Proof.
  intros r l r' id H Hk.
  destruct r as [cap maxw rcap queue inflight chan callers loop workers replied effects];
    cbn [ReqMgr.callers] in *.
  destruct l as [i|i| |i| |i o]; cbn [rstep ReqMgr.callers ReqMgr.loop ReqMgr.chan ReqMgr.queue
    ReqMgr.workers ReqMgr.rcap ReqMgr.inflight ReqMgr.maxw] in H.
  - destruct (aget callers i) eqn:Eg; [discriminate|]. injection H as H. subst r'.
    cbn [ReqMgr.callers aget]. destruct (N.eqb_spec i id) as [E|E]; [discriminate|exact Hk].
  - destruct (aget callers i) as [[| |r0 o0|r0 o0]|] eqn:Eg; try discriminate;
      (destruct (chan_full _); [discriminate|]); injection H as H; subst r';
      cbn [ReqMgr.callers]; apply rs_aget_aset_mono; exact Hk.
  - destruct loop; try discriminate. destruct chan as [|[|i [|]] rest]; try discriminate;
      injection H as H; subst r'; exact Hk.
  - destruct loop as [|i' o'|]; try discriminate. destruct (i' =? i); [|discriminate].
    destruct (aget callers i) as [[| |r0 o0|r0 o0]|] eqn:Eg; try discriminate.
    + destruct (rcap =? 0); [discriminate|]. injection H as H. subst r'.
      cbn [ReqMgr.callers]. apply rs_aget_aset_mono. exact Hk.
    + injection H as H. subst r'. cbn [ReqMgr.callers]. apply rs_aget_aset_mono. exact Hk.
  - destruct loop; try discriminate. destruct queue as [|h t]; [|destruct (inflight <? maxw)];
      injection H as H; subst r'; exact Hk.
  - destruct (memN i workers); [|discriminate]. destruct (chan_full _); [discriminate|].
    injection H as H. subst r'. exact Hk.
Qed.

Lemma rs_plain_fields : forall r l r', rstep r l = Some r' ->
  (forall id o, l <> WorkerFinish id o) ->
  (l = Dispatch -> rs_dispatched r = None) ->
  workers r' = workers r /\ effects r' = effects r.
Proof.
  intros r l r' H Hw Hd.
  destruct r as [cap maxw rcap queue inflight chan callers loop workers replied effects].
  destruct l as [i|i| |i| |i o]; cbn [rstep ReqMgr.callers ReqMgr.loop ReqMgr.chan ReqMgr.queue
    ReqMgr.workers ReqMgr.rcap ReqMgr.inflight ReqMgr.maxw] in H.
  - destruct (aget callers i); [discriminate|]. injection H as H. subst r'. split; reflexivity.
  - destruct (aget callers i) as [[| |r0 o0|r0 o0]|]; try discriminate;
      (destruct (chan_full _); [discriminate|]); injection H as H; subst r'; split; reflexivity.
  - destruct loop; try discriminate. destruct chan as [|[|i [|]] rest]; try discriminate;
      injection H as H; subst r'; split; reflexivity.
  - destruct loop as [|i' o'|]; try discriminate. destruct (i' =? i); [|discriminate].
    destruct (aget callers i) as [[| |r0 o0|r0 o0]|]; try discriminate.
    + destruct (rcap =? 0); [discriminate|]. injection H as H. subst r'. split; reflexivity.
    + injection H as H. subst r'. split; reflexivity.
  - specialize (Hd eq_refl). unfold rs_dispatched in Hd.
    cbn [ReqMgr.loop ReqMgr.queue ReqMgr.inflight ReqMgr.maxw] in Hd.
    destruct loop; try discriminate. destruct queue as [|h t].
    + injection H as H. subst r'. split; reflexivity.
    + destruct (inflight <? maxw); [discriminate|]. injection H as H. subst r'. split; reflexivity.
  - exfalso. apply (Hw i o). reflexivity.
Qed.

Lemma rs_dispatch_fields : forall r r' h, rstep r Dispatch = Some r' ->
  rs_dispatched r = Some h ->
  workers r' = h :: workers r /\ effects r' = effects r /\ callers r' = callers r /\
  In h (queue r).
Proof.
  intros r r' h H Hd.
  destruct r as [cap maxw rcap queue inflight chan callers loop workers replied effects].
  unfold rs_dispatched in Hd.
  cbn [rstep ReqMgr.loop ReqMgr.queue ReqMgr.inflight ReqMgr.maxw] in H, Hd.
  destruct loop; try discriminate. destruct queue as [|h' t]; [discriminate|].
  destruct (inflight <? maxw); [|discriminate]. injection Hd as Hd. subst h'.
  injection H as H. subst r'. cbn. repeat split. left. reflexivity.
Qed.

Lemma rs_finish_fields : forall r r' id o, rstep r (WorkerFinish id o) = Some r' ->
  workers r' = remove1 id (workers r) /\
  effects r' = (match o with Ok => id :: effects r | Aborted => effects r end) /\
  callers r' = callers r /\ In id (workers r).
Proof.
  intros r r' id o H.
  destruct r as [cap maxw rcap queue inflight chan callers loop workers replied effects].
  cbn [rstep ReqMgr.workers] in H. destruct (memN id workers) eqn:Em; [|discriminate].
  destruct (chan_full _); [discriminate|]. injection H as H. subst r'. cbn.
  repeat split. apply memN_In. exact Em.
Qed.

Lemma rs_queued_facts : forall c m rc r h, ReqMgrProofs.reach c m rc r -> In h (queue r) ->
  ~ In h (workers r) /\ occ h (effects r) = 0%nat /\ aget (callers r) h <> None.
Proof.
  intros c m rc r h R Hq. pose proof (rs_occ_in _ _ Hq) as Hoq.
  destruct (ReqMgrProofs.one_place_l c m rc r R) as [Hp _]. specialize (Hp h).
  pose proof (ReqMgrProofs.known_le_1 (callers r) h) as Hk.
  destruct (ReqMgrProofs.effect_at_most_once_l c m rc r R h) as [He1 He2].
  unfold places in Hp. split; [|split].
  - intros Hw. apply rs_occ_in in Hw. lia.
  - destruct (occ h (effects r)) as [|[|n]] eqn:Eo; [reflexivity| |lia].
    destruct (He2 eq_refl) as [Hz _]. lia.
  - apply (ReqMgrProofs.one_place_cases_l c m rc r R h). left. exact Hq.
Qed.

Lemma rs_effect_not_worker : forall c m rc r id, ReqMgrProofs.reach c m rc r ->
  (1 <= occ id (effects r))%nat -> ~ In id (workers r).
Proof.
  intros c m rc r id R He Hw. apply rs_occ_in in Hw.
  destruct (ReqMgrProofs.effect_at_most_once_l c m rc r R id) as [He1 He2].
  assert (E : occ id (effects r) = 1%nat) by lia. destruct (He2 E) as [_ Hz]. lia.
Qed.

Lemma rs_reach_step : forall c m rc r l r', ReqMgrProofs.reach c m rc r ->
  rstep r l = Some r' -> ReqMgrProofs.reach c m rc r'.
Proof.
  intros c m rc r l r' R H. apply (ReqMgrProofs.reach_run c m rc r [l] r' R).
  cbn [rrun]. rewrite H. reflexivity.
Qed.

(* ------------------------------------------------------------------ *)
(** * The glue invariant *)

(** The events of attempt [t] of request [id] are the request's whole
    statement followed by the commit. *)
Definition rs_prog_ok (stmts : list (N * list rwop)) (tr : list event) (t id : N) : Prop :=
  map ev_op (proj t tr) = map (rs_op t) (agetl stmts id) ++ [SCommit t].

(** What the status of a worker says about the trace. *)
Definition rs_st_ok (stmts : list (N * list rwop)) (tr : list event) (id : N)
    (w : rq_worker) : Prop :=
  match rq_st w with
  | RqRunning =>
      ~ finished tr (rq_tid w) /\
      map (rs_op (rq_tid w)) (agetl stmts id) =
        map ev_op (proj (rq_tid w) tr) ++ map (rs_op (rq_tid w)) (rq_rem w) /\
      rq_reads w = rs_reads_of (proj (rq_tid w) tr)
  | RqDenied => In (EvAbort (rq_tid w)) tr
  | RqCommitted =>
      In (EvCommit (rq_tid w)) tr /\ rs_prog_ok stmts tr (rq_tid w) id /\
      rq_reads w = rs_reads_of (proj (rq_tid w) tr)
  end.

Lemma rs_st_ok_ext : forall stmts tr id w e, rs_st_ok stmts tr id w ->
  ev_txn e <> rq_tid w -> rs_st_ok stmts (tr ++ [e]) id w.
Proof.
  intros stmts tr id w e H Hne. unfold rs_st_ok, rs_prog_ok in *.
  rewrite (proj_snoc_other (rq_tid w) tr e Hne).
  destruct (rq_st w).
  - destruct H as (H1 & H2 & H3). split; [|split; assumption].
    intros Hf. apply finished_snoc in Hf. destruct Hf as [Hf|[Hf|Hf]]; [exact (H1 Hf)| |];
      subst e; apply Hne; reflexivity.
  - apply in_or_app. left. exact H.
  - destruct H as (H1 & H2 & H3). split; [apply in_or_app; left; exact H1|split; assumption].
Qed.

Section Glue.
Variables (c m rc : N) (st0 : list (N * N)) (stmts : list (N * list rwop)).

Record rs_inv (s : rs_state) : Prop := mkRsInv {
  v_reach : ReqMgrProofs.reach c m rc (rs_req s);
  v_db : rs_db s = final st0 (rs_ops s);
  v_tr : rs_trace s = trace st0 (rs_ops s);
  v_st0 : rs_st0 s = st0;
  v_stmts : rs_stmts s = stmts;
  v_fresh : forall t id, In (t, id) (rs_atts s) -> t < rs_next s;
  v_nodup : NoDup (map fst (rs_atts s));
  v_known : forall t id, In (t, id) (rs_atts s) -> aget (callers (rs_req s)) id <> None;
  v_evs : forall e, In e (rs_trace s) -> In (ev_txn e) (map fst (rs_atts s));
  v_wkdom : forall id, aget (rs_wk s) id <> None -> In id (workers (rs_req s));
  v_wk : forall id w, aget (rs_wk s) id = Some w ->
           In (rq_tid w, id) (rs_atts s) /\
           (forall t', In (t', id) (rs_atts s) -> t' <= rq_tid w) /\
           rs_st_ok stmts (rs_trace s) id w;
  v_att : forall t id, In (t, id) (rs_atts s) ->
           (exists w, aget (rs_wk s) id = Some w /\ rq_tid w = t) \/
           In (EvAbort t) (rs_trace s) \/
           (In (EvCommit t) (rs_trace s) /\ (1 <= occ id (effects (rs_req s)))%nat);
  v_newest : forall t id, In (t, id) (rs_atts s) -> In (EvCommit t) (rs_trace s) ->
           forall t', In (t', id) (rs_atts s) -> t' <= t;
  v_eff : forall id, (1 <= occ id (effects (rs_req s)))%nat ->
           exists t, In (t, id) (rs_atts s) /\ In (EvCommit t) (rs_trace s) /\
             rs_prog_ok stmts (rs_trace s) t id /\
             aget (rs_results s) id = Some (rs_reads_of (proj t (rs_trace s)));
  v_res : forall id vals, aget (rs_results s) id = Some vals ->
           (1 <= occ id (effects (rs_req s)))%nat
}.

Lemma rs_inv_init : rs_inv (rs_init c m rc st0 stmts).
Proof.
  constructor; cbn [rs_init rs_req rs_db rs_ops rs_trace rs_st0 rs_stmts rs_atts rs_next
                    rs_wk rs_results]; try reflexivity.
  - exists []. reflexivity.
  - intros t id H. contradiction.
  - constructor.
  - intros t id H. contradiction.
  - intros e H. contradiction.
  - intros id H. exfalso. apply H. reflexivity.
  - intros id w H. discriminate.
  - intros t id H. contradiction.
  - intros t id H. contradiction.
  - intros id H. cbn in H. lia.
  - intros id vals H. discriminate.
Qed.

(** Two attempts with the same transaction id belong to the same request. *)
Lemma rs_att_fun : forall s t id id', rs_inv s ->
  In (t, id) (rs_atts s) -> In (t, id') (rs_atts s) -> id = id'.
Proof.
  intros s t id id' I H1 H2. pose proof (v_nodup s I) as Hnd.
  apply (rs_in_aget _ _ _ _ Hnd) in H1. apply (rs_in_aget _ _ _ _ Hnd) in H2. congruence.
Qed.

(** No event carries a transaction id that has not been handed out. *)
Lemma rs_no_event_next : forall s e, rs_inv s -> In e (rs_trace s) -> ev_txn e <> rs_next s.
Proof.
  intros s e I He E. apply (v_evs s I) in He. apply in_map_iff in He.
  destruct He as ([t id] & Et & Hin). cbn [fst] in Et. apply (v_fresh s I) in Hin. lia.
Qed.

Lemma rs_inv_plain : forall s l s', rs_inv s -> rs_plain s l s' -> rs_inv s'.
Proof.
  intros s l s' I (l' & r' & El & Hr & Es & Hw & Hd). subst s'.
  destruct (rs_plain_fields _ _ _ Hr Hw Hd) as [Ewk Eef].
  destruct I as [i1 i2 i3 i4 i5 i6 i7 i8 i9 i10 i11 i12 i13 i14 i15].
  constructor; cbn [rs_with_req rs_req rs_db rs_ops rs_trace rs_st0 rs_stmts rs_atts rs_next
                    rs_wk rs_results]; try assumption.
  - eapply rs_reach_step; eassumption.
  - intros t id H. eapply rs_callers_mono; [exact Hr|]. eapply i8; exact H.
  - intros id H. rewrite Ewk. apply i10. exact H.
  - rewrite Eef. exact i12.
  - rewrite Eef. exact i14.
  - rewrite Eef. exact i15.
Qed.

Lemma rs_inv_disp : forall s l s', rs_inv s -> rs_disp s l s' -> rs_inv s'.
Proof.
  intros s l s' I (h & r' & El & Hr & Hdsp & Es). subst s'.
  destruct (rs_dispatch_fields _ _ _ Hr Hdsp) as (Ewk & Eef & Eca & Hq).
  destruct (rs_queued_facts c m rc _ h (v_reach s I) Hq) as (Hnw & Hne & Hkn).
  pose proof (rs_no_event_next s) as Hnext.
  assert (Hnowk : aget (rs_wk s) h = None).
  { destruct (aget (rs_wk s) h) eqn:E; [|reflexivity]. exfalso. apply Hnw.
    apply (v_wkdom s I). rewrite E. discriminate. }
  assert (Hnocommit : forall t, In (t, h) (rs_atts s) -> ~ In (EvCommit t) (rs_trace s)).
  { intros t Hin Hc. destruct (v_att s I t h Hin) as [(w & Ew & _)|[Ha|[_ He]]].
    - rewrite Hnowk in Ew. discriminate.
    - rewrite (v_tr s I) in Hc, Ha. exact (rs_commit_abort_excl _ _ _ Hc Ha).
    - lia. }
  destruct I as [i1 i2 i3 i4 i5 i6 i7 i8 i9 i10 i11 i12 i13 i14 i15].
  constructor; cbn [rs_req rs_db rs_ops rs_trace rs_st0 rs_stmts rs_atts rs_next
                    rs_wk rs_results]; try assumption.
  - eapply rs_reach_step; eassumption.
  - intros t id [E|H].
    + injection E as E1 E2. lia.
    + apply i6 in H. lia.
  - cbn [map fst]. constructor; [|exact i7]. intros Hin. apply in_map_iff in Hin.
    destruct Hin as ([t id] & Et & Hin). cbn [fst] in Et. apply i6 in Hin. lia.
  - rewrite Eca. intros t id [E|H].
    + injection E as E1 E2. subst id. exact Hkn.
    + eapply i8. exact H.
  - intros e He. cbn [map fst]. right. apply i9. exact He.
  - intros id H. rewrite Ewk. destruct (N.eq_dec h id) as [E|E]; [left; exact E|].
    right. apply i10. rewrite aget_aset_other in H by exact E. exact H.
  - intros id w H. destruct (N.eq_dec h id) as [E|E].
    + subst id. rewrite aget_aset_same in H. injection H as H. subst w. cbn [rq_tid].
      split; [left; reflexivity|]. split.
      * intros t' [E|Hin]; [inversion E; lia|]. apply i6 in Hin. lia.
      * unfold rs_st_ok. cbn [rq_st rq_tid rq_rem rq_reads].
        assert (Hp : proj (rs_next s) (rs_trace s) = []).
        { apply rs_proj_none. intros e He. apply Hnext; [|exact He].
          constructor; assumption. }
        rewrite Hp. cbn [map app rs_reads_of flat_map]. unfold rs_stmt. rewrite i5.
        split; [|split; reflexivity].
        intros [Hf|Hf]; (eapply Hnext; [|exact Hf|reflexivity]); constructor; assumption.
    + rewrite aget_aset_other in H by exact E. destruct (i11 id w H) as (H1 & H2 & H3).
      split; [right; exact H1|]. split; [|exact H3].
      intros t' [E'|Hin]; [injection E' as _ E'; congruence|]. apply H2. exact Hin.
  - rewrite Eef. intros t id [E|Hin].
    + injection E as E1 E2. subst t id. left. eexists. rewrite aget_aset_same.
      split; reflexivity.
    + destruct (i12 t id Hin) as [(w & Ew & Et)|[Ha|Hc]].
      * left. exists w. split; [|exact Et]. destruct (N.eq_dec h id) as [E|E].
        -- subst id. rewrite Hnowk in Ew. discriminate.
        -- rewrite aget_aset_other by exact E. exact Ew.
      * right. left. exact Ha.
      * right. right. exact Hc.
  - intros t id [E|Hin] Hc t' Hin'.
    + injection E as E1 E2. subst t. exfalso. eapply Hnext; [|exact Hc|reflexivity].
      constructor; assumption.
    + destruct Hin' as [E'|Hin'].
      * injection E' as E1 E2. subst t' id. exfalso. exact (Hnocommit t Hin Hc).
      * eapply i13; eassumption.
  - rewrite Eef. intros id He. destruct (i14 id He) as (t & H1 & H2 & H3 & H4).
    exists t. split; [right; exact H1|]. split; [exact H2|]. split; [exact H3|exact H4].
  - rewrite Eef. exact i15.
Qed.

Lemma rs_occ_cons : forall id x l,
  occ id (x :: l) = ((if N.eqb x id then 1 else 0) + occ id l)%nat.
Proof. intros id x l. reflexivity. Qed.

Lemma rs_inv_fini : forall s l s', rs_inv s -> rs_fini s l s' -> rs_inv s'.
Proof.
  intros s l s' I (id & o & w & r' & El & Ew & Hm & Hr & Es). subst s'.
  destruct (rs_finish_fields _ _ _ _ Hr) as (Ewk & Eef & Eca & Hinw).
  assert (Hmono : forall id', (occ id' (effects (rs_req s)) <= occ id' (effects r'))%nat).
  { intros id'. rewrite Eef. destruct o; [rewrite rs_occ_cons|]; lia. }
  destruct I as [i1 i2 i3 i4 i5 i6 i7 i8 i9 i10 i11 i12 i13 i14 i15].
  destruct (i11 id w Ew) as (Hat & Hnew & Hst).
  constructor; cbn [rs_req rs_db rs_ops rs_trace rs_st0 rs_stmts rs_atts rs_next
                    rs_wk rs_results]; try assumption.
  - eapply rs_reach_step; eassumption.
  - rewrite Eca. exact i8.
  - intros id' H. rewrite Ewk. destruct (N.eq_dec id id') as [E|E].
    + subst id'. rewrite aget_adel_same in H. exfalso. apply H. reflexivity.
    + rewrite aget_adel_other in H by exact E. apply In_remove1_neq; [congruence|].
      apply i10. exact H.
  - intros id' w' H. destruct (N.eq_dec id id') as [E|E].
    + subst id'. rewrite aget_adel_same in H. discriminate.
    + rewrite aget_adel_other in H by exact E. apply i11. exact H.
  - intros t id' Hin. destruct (i12 t id' Hin) as [(w' & Ew' & Et)|[Ha|[Hc He]]].
    + destruct (N.eq_dec id id') as [E|E].
      * subst id'. rewrite Ew in Ew'. injection Ew' as Ew'. subst w' t.
        unfold rs_st_ok in Hst. destruct (rq_st w); destruct o; try discriminate.
        -- right. left. exact Hst.
        -- right. right. split; [apply Hst|]. rewrite Eef, rs_occ_cons, N.eqb_refl. lia.
      * left. exists w'. split; [|exact Et]. rewrite aget_adel_other by exact E. exact Ew'.
    + right. left. exact Ha.
    + right. right. split; [exact Hc|]. specialize (Hmono id'). lia.
  - intros id' He. destruct (N.eq_dec id id') as [E|E].
    + subst id'. destruct o.
      * unfold rs_st_ok in Hst. destruct (rq_st w); try discriminate.
        destruct Hst as (H1 & H2 & H3). exists (rq_tid w).
        split; [exact Hat|]. split; [exact H1|]. split; [exact H2|].
        rewrite aget_aset_same, H3. reflexivity.
      * rewrite Eef in He. exact (i14 id He).
    + assert (He' : (1 <= occ id' (effects (rs_req s)))%nat).
      { rewrite Eef in He. destruct o; [|exact He]. rewrite rs_occ_cons in He.
        destruct (N.eqb_spec id id') as [E'|E']; [contradiction|]. lia. }
      destruct (i14 id' He') as (t & H1 & H2 & H3 & H4). exists t.
      split; [exact H1|]. split; [exact H2|]. split; [exact H3|].
      destruct o; [rewrite aget_aset_other by exact E|]; exact H4.
  - intros id' vals H. destruct o.
    + destruct (N.eq_dec id id') as [E|E].
      * subst id'. rewrite Eef, rs_occ_cons, N.eqb_refl. lia.
      * rewrite aget_aset_other in H by exact E. apply i15 in H. specialize (Hmono id'). lia.
    + apply i15 in H. specialize (Hmono id'). lia.
Qed.

Lemma rs_inv_exe : forall s l s', rs_inv s -> rs_exe s l s' -> rs_inv s'.
Proof.
  intros s l s' I (id & w & El & Ew & Est & Es).
  destruct (v_wk s I id w Ew) as (Hat & Hnew & Hst).
  unfold rs_st_ok in Hst. rewrite Est in Hst. destruct Hst as (Hnf & Hprog & Hreads).
  assert (Hfin : ~ In (rq_tid w) (fin (rs_db s))).
  { rewrite (v_db s I). intros Hf. apply Hnf. rewrite (v_tr s I).
    apply (i_fin _ _ _ (inv_at st0 (rs_ops s))). exact Hf. }
  destruct (rs_exec_event (rs_db s) w Hfin) as (e & Ee & Et & Hcases).
  rewrite Ee in Es. subst s'.
  set (t := rq_tid w) in *.
  assert (Hother : forall id' w', id <> id' -> aget (rs_wk s) id' = Some w' ->
            ev_txn e <> rq_tid w').
  { intros id' w' Hne Ew' E. destruct (v_wk s I id' w' Ew') as (Hat' & _ & _).
    rewrite <- E, Et in Hat'. apply Hne. exact (rs_att_fun s t id id' I Hat Hat'). }
  assert (Hnotfin : forall t', finished (rs_trace s) t' -> ev_txn e <> t').
  { intros t' Hf E. apply Hnf. rewrite <- Et, E. exact Hf. }
  destruct I as [i1 i2 i3 i4 i5 i6 i7 i8 i9 i10 i11 i12 i13 i14 i15].
  constructor; cbn [rs_req rs_db rs_ops rs_trace rs_st0 rs_stmts rs_atts rs_next
                    rs_wk rs_results]; try assumption.
  - rewrite final_snoc, <- i2. reflexivity.
  - rewrite trace_snoc, <- i2, <- i3, Ee. reflexivity.
  - intros e' He'. apply in_app_or in He'. destruct He' as [He'|[He'|[]]].
    + apply i9. exact He'.
    + subst e'. rewrite Et. apply (in_map fst) in Hat. exact Hat.
  - intros id' H. destruct (N.eq_dec id id') as [E|E].
    + subst id'. apply i10. rewrite Ew. discriminate.
    + rewrite aget_aset_other in H by exact E. apply i10. exact H.
  - intros id' w' H. destruct (N.eq_dec id id') as [E|E].
    + subst id'. rewrite aget_aset_same in H. injection H as H. subst w'.
      rewrite rs_after_tid. fold t. split; [exact Hat|]. split; [exact Hnew|].
      assert (Hpj : proj t (rs_trace s ++ [e]) = proj t (rs_trace s) ++ [e])
        by (apply proj_snoc_eq; exact Et).
      destruct Hcases as [(Hr & Ev & Ea)|[(x & v & rest & Hr & Ev & Ea)|
        [(x & v & rest & Hr & Ev & Ea)|(Ev & Ea)]]]; rewrite Ea; unfold rs_st_ok, rs_prog_ok;
        cbn [rq_st rq_tid rq_rem rq_reads]; rewrite ?Hpj, ?map_app, ?rs_reads_of_app; subst e;
        cbn [map ev_op rs_reads_of flat_map app]; rewrite ?app_nil_r.
      * split; [apply in_or_app; right; left; reflexivity|]. split; [|exact Hreads].
        rewrite Hprog, Hr. cbn [map]. rewrite app_nil_r. reflexivity.
      * split; [|split].
        -- intros Hf. apply finished_snoc in Hf.
           destruct Hf as [Hf|[Hf|Hf]]; [exact (Hnf Hf)|discriminate|discriminate].
        -- rewrite Hprog, Hr. cbn [map rs_op]. rewrite <- app_assoc. reflexivity.
        -- rewrite Hreads. reflexivity.
      * split; [|split].
        -- intros Hf. apply finished_snoc in Hf.
           destruct Hf as [Hf|[Hf|Hf]]; [exact (Hnf Hf)|discriminate|discriminate].
        -- rewrite Hprog, Hr. cbn [map rs_op]. rewrite <- app_assoc. reflexivity.
        -- exact Hreads.
      * apply in_or_app. right. left. reflexivity.
    + rewrite aget_aset_other in H by exact E. destruct (i11 id' w' H) as (H1 & H2 & H3).
      split; [exact H1|]. split; [exact H2|]. apply rs_st_ok_ext; [exact H3|].
      apply (Hother id' w' E H).
  - intros t' id' Hin. destruct (i12 t' id' Hin) as [(w' & Ew' & Et')|[Ha|[Hc He]]].
    + left. destruct (N.eq_dec id id') as [E|E].
      * subst id'. rewrite Ew in Ew'. injection Ew' as Ew'. subst w'.
        eexists. rewrite aget_aset_same. split; [reflexivity|]. rewrite rs_after_tid. exact Et'.
      * exists w'. split; [|exact Et']. rewrite aget_aset_other by exact E. exact Ew'.
    + right. left. apply in_or_app. left. exact Ha.
    + right. right. split; [apply in_or_app; left; exact Hc|exact He].
  - intros t' id' Hin Hc t'' Hin''. apply in_app_or in Hc. destruct Hc as [Hc|[Hc|[]]].
    + eapply i13; eassumption.
    + subst e. cbn [ev_txn] in Et. subst t'.
      assert (E : id = id').
      { apply (rs_att_fun s t id id'); [constructor; assumption|exact Hat|exact Hin]. }
      subst id'. apply Hnew. exact Hin''.
  - intros id' He. destruct (i14 id' He) as (t' & H1 & H2 & H3 & H4).
    assert (Hne : ev_txn e <> t') by (apply Hnotfin; left; exact H2).
    exists t'. split; [exact H1|]. split; [apply in_or_app; left; exact H2|].
    unfold rs_prog_ok in *. rewrite (proj_snoc_other t' (rs_trace s) e Hne).
    split; [exact H3|exact H4].
Qed.

Lemma rs_inv_step : forall s l s', rs_inv s -> rs_step s l = Some s' -> rs_inv s'.
Proof.
  intros s l s' I H. destruct (rs_step_kinds s l s' H) as [K|[K|[K|K]]].
  - exact (rs_inv_plain s l s' I K).
  - exact (rs_inv_disp s l s' I K).
  - exact (rs_inv_fini s l s' I K).
  - exact (rs_inv_exe s l s' I K).
Qed.

Lemma rs_inv_run : forall ls s s', rs_inv s -> rs_run ls s = Some s' -> rs_inv s'.
Proof.
  induction ls as [|l ls IH]; intros s s' I H; cbn [rs_run] in H.
  - injection H as H. subst s'. exact I.
  - destruct (rs_step s l) as [s1|] eqn:E; [|discriminate].
    exact (IH s1 s' (rs_inv_step s l s1 I E) H).
Qed.

Definition rs_reach (s : rs_state) : Prop :=
  exists ls, rs_run ls (rs_init c m rc st0 stmts) = Some s.

Lemma rs_reach_inv : forall s, rs_reach s -> rs_inv s.
Proof. intros s [ls H]. exact (rs_inv_run ls _ s rs_inv_init H). Qed.

(* ------------------------------------------------------------------ *)
(** * Attempts and their owners *)

Lemma rs_own_in : forall s t id, rs_inv s -> In (t, id) (rs_atts s) -> rs_own s t = id.
Proof.
  intros s t id I H. unfold rs_own. rewrite (rs_in_aget _ _ _ _ (v_nodup s I) H). reflexivity.
Qed.

Lemma rs_own_evs : forall s e, rs_inv s -> In e (rs_trace s) ->
  In (ev_txn e, rs_own s (ev_txn e)) (rs_atts s).
Proof.
  intros s e I He. apply (v_evs s I) in He. apply in_map_iff in He.
  destruct He as ([t id] & Et & Hin). cbn [fst] in Et. subst t.
  rewrite (rs_own_in s _ id I Hin). exact Hin.
Qed.

Lemma rs_committed_att : forall s t, rs_inv s -> In t (committed (rs_trace s)) ->
  In (t, rs_own s t) (rs_atts s).
Proof.
  intros s t I H. apply committed_In in H. exact (rs_own_evs s (EvCommit t) I H).
Qed.

Lemma rs_commit_unique : forall s id t1 t2, rs_inv s ->
  In (t1, id) (rs_atts s) -> In (t2, id) (rs_atts s) ->
  In t1 (committed (rs_trace s)) -> In t2 (committed (rs_trace s)) -> t1 = t2.
Proof.
  intros s id t1 t2 I H1 H2 C1 C2. apply committed_In in C1. apply committed_In in C2.
  pose proof (v_newest s I t1 id H1 C1 t2 H2). pose proof (v_newest s I t2 id H2 C2 t1 H1). lia.
Qed.

Lemma rs_own_inj : forall s t1 t2, rs_inv s ->
  In t1 (committed (rs_trace s)) -> In t2 (committed (rs_trace s)) ->
  rs_own s t1 = rs_own s t2 -> t1 = t2.
Proof.
  intros s t1 t2 I C1 C2 E. pose proof (rs_committed_att s t1 I C1) as H1.
  pose proof (rs_committed_att s t2 I C2) as H2. rewrite E in H1.
  exact (rs_commit_unique s _ t1 t2 I H1 H2 C1 C2).
Qed.

Lemma rs_excl : forall s t, rs_inv s -> In (EvCommit t) (rs_trace s) ->
  ~ In (EvAbort t) (rs_trace s).
Proof. intros s t I. rewrite (v_tr s I). apply rs_commit_abort_excl. Qed.

(** A committed attempt executed the whole statement of its request. *)
Lemma rs_committed_prog : forall s t, rs_inv s -> In t (committed (rs_trace s)) ->
  rs_prog_ok stmts (rs_trace s) t (rs_own s t).
Proof.
  intros s t I C. pose proof (rs_committed_att s t I C) as Hat.
  pose proof C as Hc. apply committed_In in Hc.
  destruct (v_att s I t _ Hat) as [(w & Ew & Et)|[Ha|[_ He]]].
  - destruct (v_wk s I _ w Ew) as (_ & _ & Hst). unfold rs_st_ok in Hst. subst t.
    destruct (rq_st w).
    + exfalso. apply Hst. left. exact Hc.
    + exfalso. exact (rs_excl s _ I Hc Hst).
    + apply Hst.
  - exfalso. exact (rs_excl s t I Hc Ha).
  - destruct (v_eff s I _ He) as (t0 & H1 & H2 & H3 & _).
    assert (E : t0 = t).
    { apply (rs_commit_unique s (rs_own s t) t0 t I H1 Hat); [apply committed_In; exact H2|exact C]. }
    subst t0. exact H3.
Qed.

(* ------------------------------------------------------------------ *)
(** * Each request commits at most once *)

Lemma each_request_commits_at_most_once_l : forall s, rs_reach s ->
  NoDup (committed (rs_trace s)) /\
  (forall id t1 t2, In (t1, id) (rs_atts s) -> In (t2, id) (rs_atts s) ->
     In t1 (committed (rs_trace s)) -> In t2 (committed (rs_trace s)) -> t1 = t2) /\
  NoDup (rs_order s).
Proof.
  intros s R. pose proof (rs_reach_inv s R) as I.
  assert (Hnd : NoDup (committed (rs_trace s))).
  { rewrite (v_tr s I). apply rs_committed_nodup. }
  split; [exact Hnd|]. split.
  - intros id t1 t2. apply rs_commit_unique. exact I.
  - unfold rs_order. apply rs_nodup_map; [exact Hnd|].
    intros x y Hx Hy. apply rs_own_inj; assumption.
Qed.

(** A request whose worker has reported [Ok]: exactly one of its attempts
    committed, that attempt executed the whole statement, the recorded result
    is what it read, and every other attempt was aborted. *)
Lemma rs_finished_request : forall s id, rs_reach s ->
  (1 <= occ id (effects (rs_req s)))%nat ->
  exists t, In (t, id) (rs_atts s) /\ In t (committed (rs_trace s)) /\
    (forall t', In (t', id) (rs_atts s) -> In t' (committed (rs_trace s)) -> t' = t) /\
    (forall t', In (t', id) (rs_atts s) -> t' <> t ->
       In (EvAbort t') (rs_trace s) /\ ~ In t' (committed (rs_trace s))) /\
    map ev_op (proj t (rs_trace s)) = map (rs_op t) (agetl stmts id) ++ [SCommit t] /\
    aget (rs_results s) id = Some (rs_reads_of (proj t (rs_trace s))).
Proof.
  intros s id R He. pose proof (rs_reach_inv s R) as I.
  destruct (v_eff s I id He) as (t & H1 & H2 & H3 & H4). exists t.
  assert (C : In t (committed (rs_trace s))) by (apply committed_In; exact H2).
  split; [exact H1|]. split; [exact C|]. split; [|split; [|split; [exact H3|exact H4]]].
  - intros t' Hin C'. exact (rs_commit_unique s id t' t I Hin H1 C' C).
  - intros t' Hin Hne. destruct (v_att s I t' id Hin) as [(w & Ew & _)|[Ha|[Hc _]]].
    + exfalso. apply (rs_effect_not_worker c m rc _ id (v_reach s I) He).
      apply (v_wkdom s I). rewrite Ew. discriminate.
    + split; [exact Ha|]. intros C'. apply committed_In in C'. exact (rs_excl s t' I C' Ha).
    + exfalso. apply Hne. apply (rs_commit_unique s id t' t I Hin H1); [|exact C].
      apply committed_In. exact Hc.
Qed.

Lemma answered_request_committed_exactly_once_l : forall s id r o, rs_reach s ->
  aget (callers (rs_req s)) id = Some (CDone r o) ->
  r = id /\ o = Ok /\
  exists t vals, In (t, id) (rs_atts s) /\ In t (committed (rs_trace s)) /\
    (forall t', In (t', id) (rs_atts s) -> In t' (committed (rs_trace s)) -> t' = t) /\
    (forall t', In (t', id) (rs_atts s) -> t' <> t ->
       In (EvAbort t') (rs_trace s) /\ ~ In t' (committed (rs_trace s))) /\
    map ev_op (proj t (rs_trace s)) = map (rs_op t) (agetl stmts id) ++ [SCommit t] /\
    vals = rs_reads_of (proj t (rs_trace s)) /\
    rs_answer s id = Some vals.
Proof.
  intros s id r o R Hd. pose proof (rs_reach_inv s R) as I.
  destruct (ReqMgrProofs.reply_is_own_result_l c m rc _ (v_reach s I) id r o
              (rs_aget_in _ _ _ _ Hd)) as (Er & Eo & He & _).
  subst r o. split; [reflexivity|]. split; [reflexivity|].
  assert (He' : (1 <= occ id (effects (rs_req s)))%nat) by lia.
  destruct (rs_finished_request s id R He') as (t & H1 & H2 & H3 & H4 & H5 & H6).
  exists t, (rs_reads_of (proj t (rs_trace s))).
  repeat (split; [assumption|]). split; [reflexivity|].
  unfold rs_answer. rewrite Hd. exact H6.
Qed.

(** The same for a reply that still waits in the caller's reply channel. *)
Lemma pending_answer_committed_exactly_once_l : forall s id r o, rs_reach s ->
  aget (callers (rs_req s)) id = Some (Replied_not_signalled r o) ->
  r = id /\ o = Ok /\
  exists t, In (t, id) (rs_atts s) /\ In t (committed (rs_trace s)) /\
    (forall t', In (t', id) (rs_atts s) -> In t' (committed (rs_trace s)) -> t' = t) /\
    aget (rs_results s) id = Some (rs_reads_of (proj t (rs_trace s))).
Proof.
  intros s id r o R Hd. pose proof (rs_reach_inv s R) as I.
  destruct (ReqMgrProofs.pending_reply_is_own_result_l c m rc _ (v_reach s I) id r o
              (rs_aget_in _ _ _ _ Hd)) as (Er & Eo & He & _).
  subst r o. split; [reflexivity|]. split; [reflexivity|].
  assert (He' : (1 <= occ id (effects (rs_req s)))%nat) by lia.
  destruct (rs_finished_request s id R He') as (t & H1 & H2 & H3 & _ & _ & H6).
  exists t. repeat (split; [assumption|]). exact H6.
Qed.

(* ------------------------------------------------------------------ *)
(** * Aborted attempts leave no trace *)

(** A worker can report [Aborted] only for an attempt that the scheduler has
    aborted and rolled back; reporting changes neither store nor trace. *)
Lemma aborted_finish_rolled_back_l : forall s id s', rs_reach s ->
  rs_step s (RsReq (WorkerFinish id Aborted)) = Some s' ->
  exists t, In (t, id) (rs_atts s) /\ (forall t', In (t', id) (rs_atts s) -> t' <= t) /\
    In (EvAbort t) (rs_trace s) /\ ~ In t (committed (rs_trace s)) /\
    (forall x, ~ holds (locks (rs_db s)) t x) /\ agetl (undo (rs_db s)) t = [] /\
    rs_db s' = rs_db s /\ rs_trace s' = rs_trace s /\ rs_results s' = rs_results s.
Proof.
  intros s id s' R H. pose proof (rs_reach_inv s R) as I.
  destruct (rs_step_kinds s _ s' H) as [(l' & r' & El & _ & _ & Hw & _)|[(h & r' & El & _)|
    [(id0 & o & w & r' & El & Ew & Hm & _ & Es)|(id0 & w & El & _)]]]; try discriminate.
  - injection El as El. exfalso. apply (Hw id Aborted). symmetry. exact El.
  - injection El as E1 E2. subst id0 o.
    destruct (v_wk s I id w Ew) as (Hat & Hnew & Hst). unfold rs_st_ok in Hst.
    destruct (rq_st w); try discriminate. exists (rq_tid w).
    split; [exact Hat|]. split; [exact Hnew|]. split; [exact Hst|].
    assert (Hf : In (rq_tid w) (fin (rs_db s))).
    { rewrite (v_db s I). apply (i_fin _ _ _ (inv_at st0 (rs_ops s))).
      right. rewrite <- (v_tr s I). exact Hst. }
    rewrite (v_db s I) in Hf.
    destruct (i_done _ _ _ (inv_at st0 (rs_ops s)) _ Hf) as [Hu Hl].
    split; [|split; [|split]].
    + intros C. apply committed_In in C. exact (rs_excl s _ I C Hst).
    + rewrite (v_db s I). exact Hl.
    + rewrite (v_db s I). exact Hu.
    + subst s'. repeat split.
Qed.

(** Rows that only aborted attempts have written hold their initial value. *)
Lemma aborted_attempts_leave_no_trace_l : forall s x, rs_reach s ->
  (forall t v, In (EvWrite t x v) (rs_trace s) -> In (EvAbort t) (rs_trace s)) ->
  sget (store (rs_db s)) x = sget st0 x.
Proof.
  intros s x R Hx. pose proof (rs_reach_inv s R) as I.
  rewrite (v_db s I). rewrite (v_tr s I) in Hx.
  destruct (serial_lemma st0 (rs_ops s)) as (_ & _ & Hs). rewrite Hs.
  - destruct (sstore_origin (progs (trace st0 (rs_ops s))) st0 x) as [E|(p & t & Hp & Hw)];
      [exact E|]. exfalso. unfold progs in Hp. apply in_map_iff in Hp.
    destruct Hp as (u & Ep & Hu). subst p. apply proj_In in Hw. destruct Hw as [Hw Et].
    cbn [ev_txn] in Et. subst t.
    apply (rs_commit_abort_excl st0 (rs_ops s) u); [apply committed_In; exact Hu|].
    eapply Hx. exact Hw.
  - intros t v Hw. right. eapply Hx. exact Hw.
Qed.

(* ------------------------------------------------------------------ *)
(** * Serial execution of statements vs. replay of recorded programs *)

Lemma rs_rout_len : forall p st, length (rout st p) = length p.
Proof.
  induction p as [|e p IH]; intros st; cbn [rout length]; [reflexivity|].
  rewrite IH. reflexivity.
Qed.

Lemma rs_rstore_cons : forall st e p, rstore st (e :: p) = rstore (ev_apply st e) p.
Proof. intros st e p. reflexivity. Qed.

(** A recorded program that is "statement, then commit" replays like the
    statement: same final store, and — when the replay reproduces the recorded
    values — the recorded reads are the statement's result. *)
Lemma rs_exec_stmt_events : forall stmt p st t,
  map ev_op p = map (rs_op t) stmt ++ [SCommit t] ->
  rstore st p = fst (rs_exec_stmt st stmt) /\
  (rout st p = p -> rs_reads_of p = snd (rs_exec_stmt st stmt)).
Proof.
  induction stmt as [|o stmt IH]; intros p st t H.
  - cbn [map app] in H. destruct p as [|e [|e' p]]; try discriminate.
    cbn [map] in H. injection H as H.
    destruct e as [a b d|a b d|a|a]; try discriminate. cbn. split; [reflexivity|].
    intros _. reflexivity.
  - destruct p as [|e p]; [discriminate|]. cbn [map app] in H. injection H as He H.
    destruct (IH p (ev_apply st e) t H) as [IH1 IH2].
    destruct o as [x|x v]; cbn [rs_op] in He; destruct e as [a b d|a b d|a|a]; try discriminate;
      cbn [ev_op] in He.
    + injection He as E1 E2. subst a b. cbn [ev_apply] in IH1, IH2. rewrite rs_rstore_cons. cbn [ev_apply rs_exec_stmt fst snd].
      split; [exact IH1|]. cbn [rout ev_see ev_apply]. intros Hr. injection Hr as Hv Hr.
      unfold rs_reads_of in *. cbn [flat_map app]. rewrite (IH2 Hr), Hv. reflexivity.
    + injection He as E1 E2 E3. subst a b d. cbn [ev_apply] in IH1, IH2. rewrite rs_rstore_cons.
      cbn [ev_apply rs_exec_stmt]. split; [exact IH1|].
      cbn [rout ev_see ev_apply]. intros Hr. injection Hr as Hr.
      unfold rs_reads_of in *. cbn [flat_map app]. exact (IH2 Hr).
Qed.

Lemma rs_serial_replay : forall (own : N -> N) tr cs st,
  (forall t, In t cs -> rs_prog_ok stmts tr t (own t)) ->
  sout st (map (fun t => proj t tr) cs) = concat (map (fun t => proj t tr) cs) ->
  rs_serial stmts st (map own cs) =
    (sstore st (map (fun t => proj t tr) cs),
     map (fun t => (own t, rs_reads_of (proj t tr))) cs).
Proof.
  intros own tr cs. induction cs as [|t cs IH]; intros st Hp Hs.
  - reflexivity.
  - cbn [map sout concat] in Hs.
    apply rs_app_eq_len in Hs; [|apply rs_rout_len]. destruct Hs as [Hr Hs].
    assert (Ht : rs_prog_ok stmts tr t (own t)) by (apply Hp; left; reflexivity).
    destruct (rs_exec_stmt_events _ _ st t Ht) as [E1 E2]. specialize (E2 Hr).
    cbn [map rs_serial]. rewrite <- E1, <- E2.
    rewrite (IH (rstore st (proj t tr))); [reflexivity| |exact Hs].
    intros u Hu. apply Hp. right. exact Hu.
Qed.

Lemma rs_aget_map : forall (own : N -> N) (f : N -> list N) cs t,
  (forall x y, In x cs -> In y cs -> own x = own y -> x = y) -> In t cs ->
  aget (map (fun t => (own t, f t)) cs) (own t) = Some (f t).
Proof.
  intros own f cs t. induction cs as [|u cs IH]; intros Hinj Hin; [contradiction|].
  cbn [map aget]. destruct (N.eqb_spec (own u) (own t)) as [E|E].
  - assert (Eu : u = t) by (apply Hinj; [left; reflexivity|exact Hin|exact E]).
    subst u. reflexivity.
  - destruct Hin as [Hin|Hin]; [subst u; contradiction|]. apply IH; [|exact Hin].
    intros x y Hx Hy. apply Hinj; right; assumption.
Qed.

(** Every write event belongs to an attempt that has ended, unless a worker
    that is still running made it. *)
Lemma rs_writer_finished : forall s x, rs_inv s ->
  (forall id w, aget (rs_wk s) id = Some w -> rq_st w = RqRunning ->
     ~ wrote (proj (rq_tid w) (rs_trace s)) x) ->
  forall t v, In (EvWrite t x v) (rs_trace s) -> finished (rs_trace s) t.
Proof.
  intros s x I Hx t v Hw. pose proof (rs_own_evs s _ I Hw) as Hat. cbn [ev_txn] in Hat.
  destruct (v_att s I t _ Hat) as [(w & Ew & Et)|[Ha|[Hc _]]].
  - destruct (v_wk s I _ w Ew) as (_ & _ & Hst). unfold rs_st_ok in Hst.
    destruct (rq_st w) eqn:Est.
    + exfalso. apply (Hx _ w Ew Est). exists t, v. apply proj_In. split; [exact Hw|].
      cbn [ev_txn]. symmetry. exact Et.
    + right. rewrite <- Et. exact Hst.
    + left. rewrite <- Et. apply Hst.
  - right. exact Ha.
  - left. exact Hc.
Qed.

(** The committed attempts, replayed statement by statement in commit order
    on the initial store: same reads, same final store. *)
Lemma statements_serializable_in_commit_order_l : forall s, rs_reach s ->
  rs_serial stmts st0 (rs_order s) =
    (sstore st0 (progs (rs_trace s)),
     map (fun t => (rs_own s t, rs_reads_of (proj t (rs_trace s)))) (committed (rs_trace s))) /\
  (forall t, In t (committed (rs_trace s)) ->
     aget (snd (rs_serial stmts st0 (rs_order s))) (rs_own s t) =
       Some (rs_reads_of (proj t (rs_trace s)))) /\
  (forall id vals, aget (rs_results s) id = Some vals ->
     aget (snd (rs_serial stmts st0 (rs_order s))) id = Some vals) /\
  (forall x,
     (forall id w, aget (rs_wk s) id = Some w -> rq_st w = RqRunning ->
        ~ wrote (proj (rq_tid w) (rs_trace s)) x) ->
     sget (store (rs_db s)) x = sget (fst (rs_serial stmts st0 (rs_order s))) x).
Proof.
  intros s R. pose proof (rs_reach_inv s R) as I.
  assert (E : rs_serial stmts st0 (rs_order s) =
    (sstore st0 (progs (rs_trace s)),
     map (fun t => (rs_own s t, rs_reads_of (proj t (rs_trace s)))) (committed (rs_trace s)))).
  { unfold rs_order, progs. apply rs_serial_replay.
    - intros t Ht. apply rs_committed_prog; assumption.
    - fold (progs (rs_trace s)). rewrite (v_tr s I).
      apply (i_serial _ _ _ (inv_at st0 (rs_ops s))). }
  assert (Hget : forall t, In t (committed (rs_trace s)) ->
     aget (snd (rs_serial stmts st0 (rs_order s))) (rs_own s t) =
       Some (rs_reads_of (proj t (rs_trace s)))).
  { intros t Ht. rewrite E. cbn [snd].
    apply (rs_aget_map (rs_own s) (fun t => rs_reads_of (proj t (rs_trace s)))); [|exact Ht].
    intros x y Hx Hy. apply rs_own_inj; assumption. }
  split; [exact E|]. split; [exact Hget|]. split.
  - intros id vals Hr. pose proof (v_res s I id vals Hr) as He.
    destruct (v_eff s I id He) as (t & H1 & H2 & _ & H4).
    rewrite Hr in H4. injection H4 as H4. subst vals.
    rewrite <- (rs_own_in s t id I H1). apply Hget. apply committed_In. exact H2.
  - intros x Hx. rewrite E. cbn [fst]. rewrite (v_db s I), (v_tr s I).
    apply (serial_lemma st0 (rs_ops s)). rewrite <- (v_tr s I).
    apply (rs_writer_finished s x I Hx).
Qed.

(* ------------------------------------------------------------------ *)
(** * Real time *)

Lemma rs_run_split : forall a b s s', rs_run (a ++ b) s = Some s' ->
  exists s1, rs_run a s = Some s1 /\ rs_run b s1 = Some s'.
Proof.
  induction a as [|l a IH]; intros b s s' H; cbn [app rs_run] in *.
  - exists s. split; [reflexivity|exact H].
  - destruct (rs_step s l) as [s1|]; [|discriminate]. exact (IH b s1 s' H).
Qed.

Lemma rs_step_mono : forall s l s', rs_step s l = Some s' ->
  (forall t id, In (t, id) (rs_atts s) -> In (t, id) (rs_atts s')) /\
  (exists tl, rs_trace s' = rs_trace s ++ tl) /\
  (forall id, aget (callers (rs_req s)) id <> None -> aget (callers (rs_req s')) id <> None).
Proof.
  intros s l s' H. split; [|split].
  - destruct (rs_step_kinds s l s' H) as [(l' & r' & _ & _ & Es & _)|[(h & r' & _ & _ & _ & Es)|
      [(id & o & w & r' & _ & _ & _ & _ & Es)|(id & w & _ & _ & _ & Es)]]]; subst s';
      cbn [rs_with_req rs_atts]; intros t i Hin; try exact Hin. right. exact Hin.
  - destruct (rs_step_db s l s' H) as (_ & _ & Ht & _). eexists. exact Ht.
  - intros id Hk. pose proof (rs_step_req s l s' H) as Hr. destruct l as [l'|i].
    + exact (rs_callers_mono _ _ _ id Hr Hk).
    + rewrite Hr. exact Hk.
Qed.

Lemma rs_run_mono : forall ls s s', rs_run ls s = Some s' ->
  (forall t id, In (t, id) (rs_atts s) -> In (t, id) (rs_atts s')) /\
  (exists tl, rs_trace s' = rs_trace s ++ tl) /\
  (forall id, aget (callers (rs_req s)) id <> None -> aget (callers (rs_req s')) id <> None).
Proof.
  induction ls as [|l ls IH]; intros s s' H; cbn [rs_run] in H.
  - injection H as H. subst s'. split; [intros; assumption|]. split; [|intros; assumption].
    exists []. rewrite app_nil_r. reflexivity.
  - destruct (rs_step s l) as [s1|] eqn:E; [|discriminate].
    destruct (rs_step_mono s l s1 E) as (A1 & (tl1 & B1) & C1).
    destruct (IH s1 s' H) as (A2 & (tl2 & B2) & C2). split; [|split].
    + intros t id Hin. apply A2. apply A1. exact Hin.
    + exists (tl1 ++ tl2). rewrite B2, B1, app_assoc. reflexivity.
    + intros id Hk. apply C2. apply C1. exact Hk.
Qed.

(** The general form: request [a] has reported its commit in [s1], request
    [b] has not started any attempt in [s1]; then in every later state [a]
    precedes [b] in the commit order. *)
Lemma rs_real_time : forall s1 ls s a b, rs_inv s1 -> rs_run ls s1 = Some s ->
  (1 <= occ a (effects (rs_req s1)))%nat ->
  (forall t, ~ In (t, b) (rs_atts s1)) ->
  In b (rs_order s) -> rs_before (rs_order s) a b.
Proof.
  intros s1 ls s a b I1 Hrun Ha Hb Hin.
  pose proof (rs_inv_run ls s1 s I1 Hrun) as I.
  destruct (rs_run_mono ls s1 s Hrun) as (Hatt & (tl & Htr) & _).
  destruct (v_eff s1 I1 a Ha) as (ta & A1 & A2 & _).
  unfold rs_order in Hin. apply in_map_iff in Hin. destruct Hin as (tb & Eb & Cb).
  pose proof (rs_committed_att s tb I Cb) as Hatb. rewrite Eb in Hatb.
  assert (Hnb : ~ In tb (committed (rs_trace s1))).
  { intros C. apply committed_In in C. pose proof (rs_own_evs s1 _ I1 C) as H1.
    cbn [ev_txn] in H1. apply Hatt in H1.
    rewrite (rs_att_fun s tb _ b I H1 Hatb) in H1.
    pose proof (rs_own_evs s1 _ I1 C) as H2. cbn [ev_txn] in H2.
    assert (E : rs_own s1 tb = b) by (apply (rs_att_fun s tb _ b I (Hatt _ _ H2) Hatb)).
    rewrite E in H2. exact (Hb tb H2). }
  unfold rs_order. rewrite Htr, committed_app in *.
  apply in_app_or in Cb. destruct Cb as [Cb|Cb]; [contradiction|].
  apply committed_In in A2. apply in_split in A2. destruct A2 as (x1 & x2 & Ex).
  apply in_split in Cb. destruct Cb as (y1 & y2 & Ey).
  exists (map (rs_own s) x1), (map (rs_own s) x2 ++ map (rs_own s) y1), (map (rs_own s) y2).
  rewrite Ex, Ey, !map_app. cbn [map].
  rewrite (rs_own_in s ta a I (Hatt _ _ A1)), Eb, <- !app_assoc. cbn [app]. reflexivity.
Qed.

Lemma rs_deliver_answered : forall r a r', rstep r (Deliver a) = Some r' ->
  exists r0 o, aget (callers r') a = Some (CDone r0 o) \/
               aget (callers r') a = Some (Replied_not_signalled r0 o).
Proof.
  intros r a r' H.
  destruct r as [cap maxw rcap queue inflight chan callers loop workers replied effects].
  cbn [rstep ReqMgr.loop ReqMgr.callers ReqMgr.rcap] in H.
  destruct loop as [|i o|]; try discriminate. destruct (i =? a); [|discriminate].
  destruct (aget callers a) as [[| |r0 o0|r0 o0]|]; try discriminate.
  - destruct (rcap =? 0); [discriminate|]. injection H as H. subst r'. cbn [ReqMgr.callers].
    exists i, o. right. apply aget_aset_same.
  - injection H as H. subst r'. cbn [ReqMgr.callers]. exists i, o. left. apply aget_aset_same.
Qed.

Lemma rs_enqueue_fresh : forall r b r', rstep r (Enqueue b) = Some r' ->
  aget (callers r) b = None.
Proof.
  intros r b r' H. cbn [rstep] in H. destruct (aget (callers r) b); [discriminate|reflexivity].
Qed.

(** If caller [a] was handed its answer before caller [b] issued its call,
    then [a]'s statement precedes [b]'s in the commit order. *)
Lemma commit_order_respects_real_time_l : forall ls1 a ls2 b ls3 s,
  rs_run (ls1 ++ RsReq (Deliver a) :: ls2 ++ RsReq (Enqueue b) :: ls3)
         (rs_init c m rc st0 stmts) = Some s ->
  In b (rs_order s) -> rs_before (rs_order s) a b.
Proof.
  intros ls1 a ls2 b ls3 s H Hin.
  replace (ls1 ++ RsReq (Deliver a) :: ls2 ++ RsReq (Enqueue b) :: ls3)
    with ((ls1 ++ [RsReq (Deliver a)]) ++ ls2 ++ RsReq (Enqueue b) :: ls3) in H
    by (rewrite <- app_assoc; reflexivity).
  apply rs_run_split in H. destruct H as (sA & HA & H).
  pose proof (rs_inv_run _ _ sA rs_inv_init HA) as IA.
  pose proof H as Hrest.
  apply rs_run_split in H. destruct H as (sB & HB & H).
  cbn [rs_run] in H. destruct (rs_step sB (RsReq (Enqueue b))) as [sB'|] eqn:EB; [|discriminate].
  apply (rs_real_time sA _ s a b IA Hrest).
  - apply rs_run_split in HA. destruct HA as (s0 & H0 & HA). cbn [rs_run] in HA.
    destruct (rs_step s0 (RsReq (Deliver a))) as [s0'|] eqn:E0; [|discriminate].
    injection HA as HA. subst s0'. pose proof (rs_step_req _ _ _ E0) as Hr. cbn in Hr.
    destruct (rs_deliver_answered _ _ _ Hr) as (r0 & o & [Hd|Hd]).
    + destruct (ReqMgrProofs.reply_is_own_result_l c m rc _ (v_reach sA IA) a r0 o
                  (rs_aget_in _ _ _ _ Hd)) as (_ & _ & He & _). lia.
    + destruct (ReqMgrProofs.pending_reply_is_own_result_l c m rc _ (v_reach sA IA) a r0 o
                  (rs_aget_in _ _ _ _ Hd)) as (_ & _ & He & _). lia.
  - intros t Hat. pose proof (rs_step_req _ _ _ EB) as Hr. cbn in Hr.
    apply rs_enqueue_fresh in Hr.
    destruct (rs_run_mono _ _ _ HB) as (_ & _ & Hk). apply (Hk b); [|exact Hr].
    apply (v_known sA IA t b Hat).
  - exact Hin.
Qed.

(* ------------------------------------------------------------------ *)
(** * [rs_before] on a duplicate-free list is a strict total order *)

Lemma rs_split_unique : forall (l1 l2 m1 m2 : list N) a,
  NoDup (l1 ++ a :: l2) -> l1 ++ a :: l2 = m1 ++ a :: m2 -> l1 = m1 /\ l2 = m2.
Proof.
  induction l1 as [|x l1 IH]; intros l2 m1 m2 a Hnd E.
  - destruct m1 as [|y m1]; cbn [app] in E.
    + injection E as E. split; [reflexivity|exact E].
    + injection E as E1 E2. exfalso. cbn [app] in Hnd. apply NoDup_cons_iff in Hnd.
      destruct Hnd as [Hn _]. apply Hn. rewrite E2. apply in_or_app. right. left. reflexivity.
  - destruct m1 as [|y m1]; cbn [app] in E.
    + injection E as E1 E2. exfalso. cbn [app] in Hnd. apply NoDup_cons_iff in Hnd.
      destruct Hnd as [Hn _]. apply Hn. rewrite E1. apply in_or_app. right. left. reflexivity.
    + injection E as E1 E2. cbn [app] in Hnd. apply NoDup_cons_iff in Hnd.
      destruct Hnd as [_ Hnd']. destruct (IH l2 m1 m2 a Hnd' E2) as [A B].
      split; [congruence|exact B].
Qed.

Lemma rs_before_asym : forall l a b, NoDup l -> rs_before l a b -> ~ rs_before l b a.
Proof.
  intros l a b Hnd (l1 & l2 & l3 & E1) (m1 & m2 & m3 & E2).
  assert (E : l1 ++ a :: (l2 ++ b :: l3) = (m1 ++ b :: m2) ++ a :: m3).
  { rewrite <- E1, E2, <- app_assoc. reflexivity. }
  rewrite E1 in Hnd. destruct (rs_split_unique _ _ _ _ _ Hnd E) as [A _].
  subst l1. rewrite <- app_assoc in Hnd. cbn [app] in Hnd.
  apply NoDup_remove_2 in Hnd. apply Hnd. apply in_or_app. right.
  apply in_or_app. right. right. apply in_or_app. right. left. reflexivity.
Qed.

Lemma rs_before_total : forall l a b, In a l -> In b l -> a <> b ->
  rs_before l a b \/ rs_before l b a.
Proof.
  intros l a b Ha Hb Hne. apply in_split in Ha. destruct Ha as (l1 & l2 & E). subst l.
  apply in_app_or in Hb. destruct Hb as [Hb|[Hb|Hb]]; [|contradiction|].
  - right. apply in_split in Hb. destruct Hb as (x1 & x2 & E). subst l1.
    exists x1, x2, l2. rewrite <- app_assoc. reflexivity.
  - left. apply in_split in Hb. destruct Hb as (x1 & x2 & E). subst l2.
    exists l1, x1, x2. reflexivity.
Qed.

Lemma rs_before_in : forall l a b, rs_before l a b -> In a l /\ In b l.
Proof.
  intros l a b (l1 & l2 & l3 & E). subst l. split.
  - apply in_or_app. right. left. reflexivity.
  - apply in_or_app. right. right. apply in_or_app. right. left. reflexivity.
Qed.

(* ------------------------------------------------------------------ *)
(** * Linearizability *)

(** [order] is a linearization of the schedule [ls] that ended in [s]. *)
Definition rs_linearization (ls : list rs_label) (s : rs_state) (order : list N) : Prop :=
  NoDup order /\
  (forall id, In id order -> aget (callers (rs_req s)) id <> None) /\
  (forall id r o, aget (callers (rs_req s)) id = Some (CDone r o) -> In id order) /\
  (forall l1 a l2 b l3,
     ls = l1 ++ RsReq (Deliver a) :: l2 ++ RsReq (Enqueue b) :: l3 ->
     In b order -> rs_before order a b) /\
  (forall id r o, aget (callers (rs_req s)) id = Some (CDone r o) ->
     r = id /\ o = Ok /\
     exists vals, rs_answer s id = Some vals /\
                  aget (snd (rs_serial stmts st0 order)) id = Some vals) /\
  (forall x,
     (forall id w, aget (rs_wk s) id = Some w -> rq_st w = RqRunning ->
        ~ wrote (proj (rq_tid w) (rs_trace s)) x) ->
     sget (store (rs_db s)) x = sget (fst (rs_serial stmts st0 order)) x).

Lemma statements_linearizable_l : forall ls s,
  rs_run ls (rs_init c m rc st0 stmts) = Some s -> rs_linearization ls s (rs_order s).
Proof.
  intros ls s H. assert (R : rs_reach s) by (exists ls; exact H).
  pose proof (rs_reach_inv s R) as I.
  destruct (each_request_commits_at_most_once_l s R) as (_ & _ & Hnd).
  destruct (statements_serializable_in_commit_order_l s R) as (_ & Hget & _ & Hst).
  split; [exact Hnd|]. split; [|split; [|split; [|split; [|exact Hst]]]].
  - intros id Hin. unfold rs_order in Hin. apply in_map_iff in Hin.
    destruct Hin as (t & Et & Ct). pose proof (rs_committed_att s t I Ct) as Hat.
    rewrite Et in Hat. exact (v_known s I t id Hat).
  - intros id r o Hd.
    destruct (answered_request_committed_exactly_once_l s id r o R Hd)
      as (_ & _ & t & vals & H1 & H2 & _).
    unfold rs_order. rewrite <- (rs_own_in s t id I H1). apply in_map. exact H2.
  - intros l1 a l2 b l3 E Hin. subst ls.
    exact (commit_order_respects_real_time_l l1 a l2 b l3 s H Hin).
  - intros id r o Hd.
    destruct (answered_request_committed_exactly_once_l s id r o R Hd)
      as (Er & Eo & t & vals & H1 & H2 & _ & _ & _ & Ev & Ha).
    split; [exact Er|]. split; [exact Eo|]. exists vals. split; [exact Ha|].
    rewrite <- (rs_own_in s t id I H1), Ev. apply Hget. exact H2.
Qed.

(** When no worker is running, the whole store is the serial one. *)
Lemma quiescent_store_is_serial_l : forall s, rs_reach s -> workers (rs_req s) = [] ->
  forall x, sget (store (rs_db s)) x = sget (fst (rs_serial stmts st0 (rs_order s))) x.
Proof.
  intros s R Hw x. pose proof (rs_reach_inv s R) as I.
  destruct (statements_serializable_in_commit_order_l s R) as (_ & _ & _ & Hst).
  apply Hst. intros id w Ew _. exfalso.
  assert (Hin : In id (workers (rs_req s))) by (apply (v_wkdom s I); rewrite Ew; discriminate).
  rewrite Hw in Hin. exact Hin.
Qed.

End Glue.

(* ------------------------------------------------------------------ *)
(** * Statements that hold only under a side condition: the unconditional
      forms and their refutations *)

(** (1) "The store is the serial store on EVERY row at EVERY moment."  False:
    updates are made in place before the commit (table_heap.go UpdateTuple /
    InsertTuple under the X lock; the before-image goes to the write set), so
    a row written by an attempt that is still running holds the dirty value.
    Other statements cannot see it (they are denied the lock), which is why
    [statements_serializable_in_commit_order_l] excludes exactly the rows with
    a running writer and [quiescent_store_is_serial_l] needs no exclusion. *)
Definition rs_store_serial_everywhere : Prop :=
  forall c m rc st0 stmts ls s x, rs_run ls (rs_init c m rc st0 stmts) = Some s ->
    sget (store (rs_db s)) x = sget (fst (rs_serial stmts st0 (rs_order s))) x.

Lemma rs_dirty_facts : exists s,
  rs_run rs_dirty_schedule (rs_init_real rs_demo_st0 rs_dirty_stmts) = Some s /\
  rs_order s = [] /\ sget (store (rs_db s)) 10 = 5 /\
  sget (fst (rs_serial rs_dirty_stmts rs_demo_st0 (rs_order s))) 10 = 1 /\
  rs_trace s = [EvWrite 1 10 5] /\ rs_enabled s = [RsExec 1].
Proof. eexists. split; [vm_compute; reflexivity|]. vm_compute. repeat split. Qed.

Lemma store_serial_everywhere_refuted_l : ~ rs_store_serial_everywhere.
Proof.
  intros H. destruct rs_dirty_facts as (s & Hr & _ & H1 & H2 & _).
  specialize (H _ _ _ _ _ _ s 10 Hr). rewrite H1, H2 in H. discriminate.
Qed.

(** (2) "The ANSWERED calls alone, in commit order, explain every answer."
    False in the middle of a run: between [TransactionManager.Commit] in
    ExecuteSQLRetValues and the moment the run loop hands the reqResult to the
    caller ([*recvVal.callerCh <- recvVal] in RequestManager.Run) the
    statement's effects are already visible to every other statement, so a
    later statement can be answered first.  The linearization therefore
    contains the committed-but-not-yet-answered requests too (as usual for
    linearizability: a pending call may have taken effect);
    [statements_linearizable_l] is stated for [rs_order], and
    [quiescent_order_is_answered_l] shows that the difference disappears when
    every caller has its answer. *)
Definition rs_linearizable_among_answered : Prop :=
  forall c m rc st0 stmts ls s, rs_run ls (rs_init c m rc st0 stmts) = Some s ->
    exists order,
      (forall id, In id order -> exists r o, aget (callers (rs_req s)) id = Some (CDone r o)) /\
      (forall id r o, aget (callers (rs_req s)) id = Some (CDone r o) ->
         exists vals, rs_answer s id = Some vals /\
                      aget (snd (rs_serial stmts st0 order)) id = Some vals).

Lemma rs_pending_facts : exists s,
  rs_run rs_pending_schedule (rs_init_real rs_demo_st0 rs_pending_stmts) = Some s /\
  callers (rs_req s) = [(2, CDone 2 Ok); (1, Waiting)] /\
  rs_answer s 2 = Some [5] /\ rs_order s = [1; 2] /\ rs_order_answered s = [2] /\
  snd (rs_serial rs_pending_stmts rs_demo_st0 (rs_order s)) = [(1, []); (2, [5])] /\
  snd (rs_serial rs_pending_stmts rs_demo_st0 (rs_order_answered s)) = [(2, [1])] /\
  workers (rs_req s) = [1] /\ rs_enabled s = [RsReq Dispatch; RsReq (WorkerFinish 1 Ok)].
Proof. eexists. split; [vm_compute; reflexivity|]. vm_compute. repeat split. Qed.

Lemma linearizable_among_answered_refuted_l : ~ rs_linearizable_among_answered.
Proof.
  intros H. destruct rs_pending_facts as (s & Hr & Hc & Ha & _).
  destruct (H _ _ _ _ _ _ s Hr) as (order & Hall & Hres).
  assert (Hd : aget (callers (rs_req s)) 2 = Some (CDone 2 Ok)) by (rewrite Hc; reflexivity).
  destruct (Hres 2 2 Ok Hd) as (vals & Hv & Hs). rewrite Ha in Hv. injection Hv as Hv. subst vals.
  destruct order as [|a rest].
  - discriminate.
  - assert (Ea : a = 2).
    { destruct (Hall a (or_introl eq_refl)) as (r & o & Hg). rewrite Hc in Hg.
      cbn [aget] in Hg. destruct (N.eqb_spec 2 a) as [E|E]; [symmetry; exact E|].
      destruct (N.eqb_spec 1 a); discriminate. }
    subst a. cbn in Hs. discriminate.
Qed.

(** In a state where every caller has its answer the commit order consists
    exactly of the answered calls. *)
Lemma quiescent_order_is_answered_l : forall c m rc st0 stmts ls s,
  rs_run ls (rs_init c m rc st0 stmts) = Some s ->
  (forall id st, aget (callers (rs_req s)) id = Some st -> exists r o, st = CDone r o) ->
  forall id, In id (rs_order s) <-> exists r o, aget (callers (rs_req s)) id = Some (CDone r o).
Proof.
  intros c m rc st0 stmts ls s H Hall id.
  destruct (statements_linearizable_l c m rc st0 stmts ls s H) as (_ & H2 & H3 & _).
  split.
  - intros Hin. specialize (H2 id Hin).
    destruct (aget (callers (rs_req s)) id) as [st|] eqn:E; [|congruence].
    destruct (Hall id st E) as (r & o & Est). subst st. exists r, o. reflexivity.
  - intros (r & o & Hd). exact (H3 id r o Hd).
Qed.

(** The general form of the real-time statement, from any reachable state. *)
Lemma commit_reported_before_first_attempt_l : forall c m rc st0 stmts s1 ls s a b,
  rs_reach c m rc st0 stmts s1 -> rs_run ls s1 = Some s ->
  (1 <= occ a (effects (rs_req s1)))%nat ->
  (forall t, ~ In (t, b) (rs_atts s1)) ->
  In b (rs_order s) -> rs_before (rs_order s) a b.
Proof.
  intros c m rc st0 stmts s1 ls s a b R. apply (rs_real_time c m rc st0 stmts).
  apply rs_reach_inv. exact R.
Qed.

(** The glue invariant, for users of this file. *)
Lemma rs_reachable_inv : forall c m rc st0 stmts s,
  rs_reach c m rc st0 stmts s -> rs_inv c m rc st0 stmts s.
Proof. intros c m rc st0 stmts s R. apply rs_reach_inv. exact R. Qed.
