(** Proofs about Model/DiskFile.v (the file layer, lib/storage/disk/disk_manager_impl.go); statements: Props/C13Disk.v.
    All statements are over arbitrary operation sequences ([dm_run]) from arbitrary start states. *)
From Coq Require Import List NArith Arith Bool Lia ZifyN ZifyNat ZifyBool.
From SDB Require Import Model.DiskFile.
Import ListNotations.

Lemma dm_set_page_length : forall pages p data,
  length (dm_set_page pages p data) = Nat.max (length pages) (S p).
Proof.
  intros. unfold dm_set_page. destruct (p <? length pages) eqn:E.
  - apply Nat.ltb_lt in E. rewrite app_length. cbn [length]. rewrite firstn_length, skipn_length. lia.
  - apply Nat.ltb_ge in E. rewrite !app_length, repeat_length. cbn [length]. lia.
Qed.

Lemma dm_set_page_nth_same : forall pages p data, nth p (dm_set_page pages p data) [] = data.
Proof.
  intros. unfold dm_set_page. destruct (p <? length pages) eqn:E.
  - apply Nat.ltb_lt in E. rewrite app_nth2; rewrite firstn_length; [|lia].
    replace (p - Nat.min p (length pages)) with 0 by lia. reflexivity.
  - apply Nat.ltb_ge in E. rewrite app_nth2 by lia. rewrite app_nth2; rewrite repeat_length; [|lia].
    replace (p - length pages - (p - length pages)) with 0 by lia. reflexivity.
Qed.

Lemma dm_nth_replace_other : forall (l : list (list N)) p x q, q <> p -> q < length l ->
  nth q (firstn p l ++ x :: skipn (S p) l) [] = nth q l [].
Proof.
  induction l as [|a l IH]; intros p x q H HL; cbn [length] in HL; [lia|].
  destruct p as [|p]; destruct q as [|q]; try lia; cbn [firstn skipn app nth]; try reflexivity.
  apply IH; lia.
Qed.

Lemma dm_set_page_nth_other : forall pages p data q, q <> p -> q < length pages ->
  nth q (dm_set_page pages p data) [] = nth q pages [].
Proof.
  intros. unfold dm_set_page. destruct (p <? length pages) eqn:E.
  - apply dm_nth_replace_other; assumption.
  - apply app_nth1. assumption.
Qed.

Lemma dm_set_page_nth_hole : forall pages p data q, q <> p -> length pages <= q ->
  q < length (dm_set_page pages p data) -> nth q (dm_set_page pages p data) [] = dm_zero_page.
Proof.
  intros pages p data q H H1 H2. rewrite dm_set_page_length in H2. unfold dm_set_page.
  destruct (p <? length pages) eqn:E.
  - apply Nat.ltb_lt in E. lia.
  - apply Nat.ltb_ge in E. rewrite app_nth2 by lia. rewrite app_nth1 by (rewrite repeat_length; lia).
    rewrite (nth_indep _ [] dm_zero_page) by (rewrite repeat_length; lia). apply nth_repeat.
Qed.

(* ---------- WritePage ---------- *)
Definition dm_base (d : dm) : list (list N) :=
  match dm_tail d with [] => dm_pages d | t => dm_pages d ++ [dm_pad t] end.

Lemma dm_write_page_pages : forall d p data,
  dm_pages (dm_write_page d p data) =
  dm_set_page (if p <? length (dm_pages d) then dm_pages d else dm_base d) p data.
Proof. intros. unfold dm_write_page, dm_base. destruct (p <? length (dm_pages d)); reflexivity. Qed.

Lemma dm_base_length : forall d, length (dm_pages d) <= length (dm_base d).
Proof. intros. unfold dm_base. destruct (dm_tail d); [lia|]. rewrite app_length. lia. Qed.

Lemma dm_base_notail : forall d, dm_tail d = [] -> dm_base d = dm_pages d.
Proof. intros d H. unfold dm_base. rewrite H. reflexivity. Qed.

Lemma dm_write_page_length_ge : forall d p data,
  length (dm_pages d) <= length (dm_pages (dm_write_page d p data)) /\ p < length (dm_pages (dm_write_page d p data)).
Proof.
  intros. rewrite dm_write_page_pages, dm_set_page_length. pose proof (dm_base_length d).
  destruct (p <? length (dm_pages d)); lia.
Qed.

Lemma dm_write_page_length : forall d p data, dm_tail d = [] ->
  length (dm_pages (dm_write_page d p data)) = Nat.max (length (dm_pages d)) (S p).
Proof.
  intros d p data H. rewrite dm_write_page_pages, dm_set_page_length, (dm_base_notail d H).
  destruct (p <? length (dm_pages d)); reflexivity.
Qed.

Lemma dm_write_page_same : forall d p data, nth p (dm_pages (dm_write_page d p data)) [] = data.
Proof. intros. rewrite dm_write_page_pages. apply dm_set_page_nth_same. Qed.

Lemma dm_write_page_other : forall d p data q, q <> p -> q < length (dm_pages d) ->
  nth q (dm_pages (dm_write_page d p data)) [] = nth q (dm_pages d) [].
Proof.
  intros d p data q H HL. rewrite dm_write_page_pages. destruct (p <? length (dm_pages d)).
  - apply dm_set_page_nth_other; assumption.
  - rewrite dm_set_page_nth_other; [|assumption|pose proof (dm_base_length d); lia].
    unfold dm_base. destruct (dm_tail d); [reflexivity|]. apply app_nth1. assumption.
Qed.

Lemma dm_write_page_hole : forall d p data q, dm_tail d = [] -> q <> p -> length (dm_pages d) <= q ->
  q < length (dm_pages (dm_write_page d p data)) -> nth q (dm_pages (dm_write_page d p data)) [] = dm_zero_page.
Proof.
  intros d p data q HT H H1. rewrite dm_write_page_pages, (dm_base_notail d HT).
  replace (if p <? length (dm_pages d) then dm_pages d else dm_pages d) with (dm_pages d) by (destruct (p <? _); reflexivity).
  apply dm_set_page_nth_hole; assumption.
Qed.

Lemma dm_write_page_tail : forall d p data, dm_tail d = [] -> dm_tail (dm_write_page d p data) = [].
Proof. intros d p data H. unfold dm_write_page. destruct (p <? _); [exact H|reflexivity]. Qed.

(* ---------- steps: what they do to the db file ---------- *)
Definition dm_writes_to (o : dm_op) (p : nat) : option (list N) :=
  match o with DmWrite q data => if q =? p then Some data else None | _ => None end.

Lemma dm_step_not_write : forall d o, (forall p data, o <> DmWrite p data) ->
  dm_pages (fst (dm_step d o)) = dm_pages d /\ dm_tail (fst (dm_step d o)) = dm_tail d.
Proof.
  intros d o H. destruct o; cbn [dm_step fst]; try (split; reflexivity).
  - exfalso. eapply H. reflexivity.
  - unfold dm_read_log. destruct (_ <=? _); split; reflexivity.
Qed.

Lemma dm_step_cases : forall d o,
  (exists p data, o = DmWrite p data /\ fst (dm_step d o) = dm_write_page d p data) \/
  ((forall p, dm_writes_to o p = None) /\ dm_pages (fst (dm_step d o)) = dm_pages d /\ dm_tail (fst (dm_step d o)) = dm_tail d).
Proof.
  intros d o. destruct o as [p data| | | | | | | |]; [left; exists p, data; split; reflexivity|..];
  right; (split; [intro; reflexivity|]); apply dm_step_not_write; intros; discriminate.
Qed.

Lemma dm_step_tail : forall d o, dm_tail d = [] -> dm_tail (fst (dm_step d o)) = [].
Proof.
  intros d o H. destruct (dm_step_cases d o) as [(p & data & -> & E)|(_ & _ & E)].
  - rewrite E. apply dm_write_page_tail. exact H.
  - rewrite E. exact H.
Qed.

Lemma dm_step_length_ge : forall d o, length (dm_pages d) <= length (dm_pages (fst (dm_step d o))).
Proof.
  intros d o. destruct (dm_step_cases d o) as [(p & data & -> & E)|(_ & E & _)]; rewrite E; [|lia].
  apply dm_write_page_length_ge.
Qed.

Lemma dm_step_other : forall d o q, dm_writes_to o q = None -> q < length (dm_pages d) ->
  nth q (dm_pages (fst (dm_step d o))) [] = nth q (dm_pages d) [].
Proof.
  intros d o q H HL. destruct (dm_step_cases d o) as [(p & data & -> & E)|(_ & E & _)]; rewrite E; [|reflexivity].
  cbn [dm_writes_to] in H. destruct (p =? q) eqn:Q; [discriminate|]. apply Nat.eqb_neq in Q.
  apply dm_write_page_other; [lia|assumption].
Qed.

Lemma dm_run_cons : forall d o r, dm_run d (o :: r) =
  (fst (dm_run (fst (dm_step d o)) r), snd (dm_step d o) :: snd (dm_run (fst (dm_step d o)) r)).
Proof. intros. cbn [dm_run]. destruct (dm_step d o) as [d1 a]. cbn [fst snd]. destruct (dm_run d1 r). reflexivity. Qed.

Lemma dm_run_fst_cons : forall d o r, fst (dm_run d (o :: r)) = fst (dm_run (fst (dm_step d o)) r).
Proof. intros. rewrite dm_run_cons. reflexivity. Qed.

(** the last write to page p in an op sequence *)
Fixpoint dm_last_write (ops : list dm_op) (p : nat) : option (list N) :=
  match ops with
  | [] => None
  | o :: r => match dm_last_write r p with Some x => Some x | None => dm_writes_to o p end
  end.

Lemma dm_run_length_ge : forall ops d, length (dm_pages d) <= length (dm_pages (fst (dm_run d ops))).
Proof.
  induction ops as [|o r IH]; intro d; [cbn; lia|]. rewrite dm_run_fst_cons.
  pose proof (dm_step_length_ge d o). pose proof (IH (fst (dm_step d o))). lia.
Qed.

Lemma dm_run_unwritten : forall ops d q, dm_last_write ops q = None -> q < length (dm_pages d) ->
  nth q (dm_pages (fst (dm_run d ops))) [] = nth q (dm_pages d) [].
Proof.
  induction ops as [|o r IH]; intros d q H HL; [reflexivity|]. rewrite dm_run_fst_cons.
  cbn [dm_last_write] in H. destruct (dm_last_write r q) eqn:E; [discriminate|].
  rewrite IH; [apply dm_step_other; assumption|assumption|]. pose proof (dm_step_length_ge d o). lia.
Qed.

Lemma dm_read_page_in : forall d p, p < length (dm_pages d) -> dm_read_page d p = DmABytes (nth p (dm_pages d) []).
Proof. intros d p H. unfold dm_read_page. apply Nat.ltb_lt in H. rewrite H. reflexivity. Qed.

(** (a) *)
Lemma dm_read_after_write_lemma : forall ops d p data, dm_last_write ops p = Some data ->
  dm_read_page (fst (dm_run d ops)) p = DmABytes data.
Proof.
  induction ops as [|o r IH]; intros d p data H; [discriminate|]. rewrite dm_run_fst_cons.
  cbn [dm_last_write] in H. destruct (dm_last_write r p) eqn:E.
  - apply IH. rewrite E. exact H.
  - destruct o as [q dat| | | | | | | |]; try discriminate. cbn [dm_writes_to] in H.
    destruct (q =? p) eqn:Q; [|discriminate]. apply Nat.eqb_eq in Q. subst q. injection H as ->.
    cbn [dm_step fst]. pose proof (dm_write_page_length_ge d p data) as [_ HL].
    pose proof (dm_run_length_ge r (dm_write_page d p data)).
    rewrite dm_read_page_in by lia. rewrite dm_run_unwritten by assumption.
    rewrite dm_write_page_same. reflexivity.
Qed.

(** (b) holes *)
Lemma dm_run_tail : forall ops d, dm_tail d = [] -> dm_tail (fst (dm_run d ops)) = [].
Proof.
  induction ops as [|o r IH]; intros d H; [exact H|]. rewrite dm_run_fst_cons. apply IH. apply dm_step_tail. exact H.
Qed.

Lemma dm_step_hole : forall d o q, dm_tail d = [] -> dm_writes_to o q = None -> length (dm_pages d) <= q ->
  q < length (dm_pages (fst (dm_step d o))) -> nth q (dm_pages (fst (dm_step d o))) [] = dm_zero_page.
Proof.
  intros d o q HT H H1. destruct (dm_step_cases d o) as [(p & data & -> & E)|(_ & E & _)]; rewrite E; [|lia].
  cbn [dm_writes_to] in H. destruct (p =? q) eqn:Q; [discriminate|]. apply Nat.eqb_neq in Q.
  apply dm_write_page_hole; [assumption|lia|assumption].
Qed.

Lemma dm_holes_read_zero_lemma : forall ops d p, dm_tail d = [] -> dm_last_write ops p = None ->
  length (dm_pages d) <= p -> p < length (dm_pages (fst (dm_run d ops))) ->
  dm_read_page (fst (dm_run d ops)) p = DmABytes dm_zero_page.
Proof.
  induction ops as [|o r IH]; intros d p HT H H1 H2; [cbn [dm_run fst] in H2; lia|].
  rewrite dm_run_fst_cons in *. cbn [dm_last_write] in H. destruct (dm_last_write r p) eqn:E; [discriminate|].
  destruct (Nat.lt_ge_cases p (length (dm_pages (fst (dm_step d o))))) as [L|L].
  - rewrite dm_read_page_in by assumption. rewrite dm_run_unwritten by assumption.
    rewrite dm_step_hole by assumption. reflexivity.
  - apply IH; [apply dm_step_tail; assumption|assumption|assumption|assumption].
Qed.

Lemma dm_unwritten_kept_lemma : forall ops d p, dm_last_write ops p = None -> p < length (dm_pages d) ->
  dm_read_page (fst (dm_run d ops)) p = dm_read_page d p.
Proof.
  intros. pose proof (dm_run_length_ge ops d). rewrite !dm_read_page_in by lia. rewrite dm_run_unwritten by assumption.
  reflexivity.
Qed.

Lemma dm_read_at_end_lemma : forall d, dm_tail d = [] -> dm_read_page d (length (dm_pages d)) = DmAErrRead.
Proof. intros d H. unfold dm_read_page. rewrite Nat.ltb_irrefl, Nat.eqb_refl, H. reflexivity. Qed.

Lemma dm_read_past_end_lemma : forall d p, length (dm_pages d) < p -> dm_read_page d p = DmAErrPast.
Proof.
  intros d p H. unfold dm_read_page. destruct (p <? _) eqn:A; [apply Nat.ltb_lt in A; lia|].
  destruct (p =? _) eqn:B; [apply Nat.eqb_eq in B; lia|]. reflexivity.
Qed.

(* ---------- (c) Size ---------- *)
Definition dm_wf (d : dm) : Prop := dm_tail d = [] /\ dm_sz d = (dm_psN * N.of_nat (length (dm_pages d)))%N.

Lemma dm_wf_size_lemma : forall d, dm_wf d -> dm_size d = dm_file_size d.
Proof. intros d [HT HS]. unfold dm_size, dm_file_size. rewrite HS, HT. cbn [length]. lia. Qed.

Lemma dm_open_wf : forall d, dm_tail d = [] -> dm_wf (dm_open d).
Proof. intros d H. split; [exact H|]. cbn [dm_open dm_sz dm_pages]. unfold dm_file_size. rewrite H. cbn [length]. lia. Qed.

Lemma dm_write_page_sz : forall d p data, dm_sz (dm_write_page d p data) =
  (if (dm_sz d <=? dm_psN * N.of_nat p)%N then (dm_psN * N.of_nat p + dm_psN)%N else dm_sz d).
Proof. intros. unfold dm_write_page. destruct (p <? _); reflexivity. Qed.

Lemma dm_write_page_wf : forall d p data, dm_wf d -> dm_wf (dm_write_page d p data).
Proof.
  intros d p data [HT HS]. split; [apply dm_write_page_tail; exact HT|].
  rewrite dm_write_page_sz, dm_write_page_length by exact HT. rewrite HS. unfold dm_psN.
  destruct (_ <=? _)%N eqn:E; lia.
Qed.

Lemma dm_step_wf : forall d o, dm_wf d -> dm_wf (fst (dm_step d o)).
Proof.
  intros d o H. destruct o; cbn [dm_step fst]; try exact H.
  - apply dm_write_page_wf. exact H.
  - apply dm_open_wf. apply H.
  - unfold dm_read_log. destruct (_ <=? _); exact H.
Qed.

Lemma dm_run_wf : forall ops d, dm_wf d -> dm_wf (fst (dm_run d ops)).
Proof. induction ops as [|o r IH]; intros d H; [exact H|]. rewrite dm_run_fst_cons. apply IH, dm_step_wf, H. Qed.

(** one past the largest page id written by the sequence (0: no write) *)
Fixpoint dm_extent (ops : list dm_op) : nat :=
  match ops with
  | [] => 0
  | DmWrite p _ :: r => Nat.max (S p) (dm_extent r)
  | _ :: r => dm_extent r
  end.

Lemma dm_run_pages_length : forall ops d, dm_tail d = [] ->
  length (dm_pages (fst (dm_run d ops))) = Nat.max (length (dm_pages d)) (dm_extent ops).
Proof.
  induction ops as [|o r IH]; intros d H; [cbn [dm_run fst dm_extent]; lia|].
  rewrite dm_run_fst_cons, IH by (apply dm_step_tail; exact H).
  destruct (dm_step_cases d o) as [(p & data & -> & E)|(N & E & _)]; rewrite E.
  - rewrite dm_write_page_length by exact H. cbn [dm_extent]. lia.
  - destruct o; try reflexivity. discriminate (N p) || (specialize (N p); cbn in N; rewrite Nat.eqb_refl in N; discriminate).
Qed.

Lemma dm_size_is_max_written_lemma : forall ops d, dm_wf d ->
  dm_size (fst (dm_run d ops)) = (dm_psN * N.of_nat (Nat.max (length (dm_pages d)) (dm_extent ops)))%N.
Proof.
  intros ops d H. pose proof (dm_run_wf ops d H) as [_ HS]. unfold dm_size. rewrite HS.
  rewrite dm_run_pages_length by apply H. reflexivity.
Qed.

Lemma dm_size_monotone_lemma : forall d o, dm_wf d -> (dm_size d <= dm_size (fst (dm_step d o)))%N.
Proof.
  intros d o H. pose proof (dm_step_wf d o H) as [_ HS]. destruct H as [_ HS0]. unfold dm_size. rewrite HS, HS0.
  pose proof (dm_step_length_ge d o). unfold dm_psN. lia.
Qed.

(** the structural case split of [dm_read_page] is the comparison of offsets of the Go code *)
Lemma dm_read_page_offsets_lemma : forall d p, length (dm_tail d) < dm_ps ->
  ((dm_file_size d <? dm_psN * N.of_nat p)%N = (length (dm_pages d) <? p)) /\
  ((dm_file_size d =? dm_psN * N.of_nat p)%N = ((p =? length (dm_pages d)) && (length (dm_tail d) =? 0))).
Proof. intros d p H. unfold dm_file_size, dm_psN, dm_ps in *. split; lia. Qed.

(* ---------- (d) AllocatePage ---------- *)
Definition dm_alloc_ids (outs : list dm_ans) : list nat :=
  flat_map (fun a => match a with DmAId i => [i] | _ => [] end) outs.
Definition dm_is_reopen (o : dm_op) : bool := match o with DmReopen => true | _ => false end.
Definition dm_no_reopen (ops : list dm_op) : Prop := forallb (fun o => negb (dm_is_reopen o)) ops = true.

Lemma dm_step_alloc : forall d o, dm_is_reopen o = false ->
  (o = DmAlloc /\ dm_alloc_ids [snd (dm_step d o)] = [dm_next d] /\ dm_next (fst (dm_step d o)) = S (dm_next d)) \/
  (dm_alloc_ids [snd (dm_step d o)] = [] /\ dm_next (fst (dm_step d o)) = dm_next d).
Proof.
  intros d o H. destruct o; try discriminate; [right|right|right|left|right|right|right|right];
    cbn [dm_step fst snd]; try (split; reflexivity).
  - unfold dm_write_page. destruct (p <? _); split; reflexivity.
  - unfold dm_read_page. destruct (p <? _); [|destruct (p =? _); [destruct (dm_tail d)|]]; split; reflexivity.
  - split; [reflexivity|split; reflexivity].
  - unfold dm_read_log. destruct (_ <=? _); split; reflexivity.
Qed.

Lemma dm_alloc_ids_cons : forall a l, dm_alloc_ids (a :: l) = dm_alloc_ids [a] ++ dm_alloc_ids l.
Proof. intros. unfold dm_alloc_ids. cbn [flat_map]. rewrite app_nil_r. reflexivity. Qed.

Lemma dm_alloc_consecutive_lemma : forall ops d, dm_no_reopen ops ->
  dm_alloc_ids (snd (dm_run d ops)) = seq (dm_next d) (length (dm_alloc_ids (snd (dm_run d ops)))) /\
  dm_next (fst (dm_run d ops)) = dm_next d + length (dm_alloc_ids (snd (dm_run d ops))).
Proof.
  induction ops as [|o r IH]; intros d H; [cbn; split; [reflexivity|lia]|].
  unfold dm_no_reopen in H. cbn [forallb] in H. apply andb_true_iff in H as [H0 H]. rewrite dm_run_cons. cbn [fst snd].
  specialize (IH (fst (dm_step d o)) H) as [I1 I2]. rewrite dm_alloc_ids_cons.
  apply negb_true_iff in H0. destruct (dm_step_alloc d o H0) as [(_ & E1 & E2)|(E1 & E2)]; rewrite E1; rewrite E2 in *.
  - cbn [app length seq]. split; [f_equal; exact I1|lia].
  - cbn [app]. split; [exact I1|exact I2].
Qed.

Lemma dm_open_next : forall d, dm_next (dm_open d) = match length (dm_pages d) with O => O | S n => S (S n) end.
Proof. intros. cbn [dm_open dm_next]. destruct (length (dm_pages d)); reflexivity. Qed.

Lemma dm_allocate_fresh_lemma : forall d ops id, dm_no_reopen ops ->
  In id (dm_alloc_ids (snd (dm_run (dm_open d) ops))) ->
  (forall p, p < length (dm_pages d) -> p < id) /\ (0 < length (dm_pages d) -> id <> length (dm_pages d)).
Proof.
  intros d ops id H HI. destruct (dm_alloc_consecutive_lemma ops (dm_open d) H) as [E _].
  rewrite E in HI. apply in_seq in HI. rewrite dm_open_next in HI. destruct (length (dm_pages d)); split; intros; lia.
Qed.

Lemma dm_allocate_increasing_lemma : forall d ops i j a b, dm_no_reopen ops -> i < j ->
  nth_error (dm_alloc_ids (snd (dm_run d ops))) i = Some a ->
  nth_error (dm_alloc_ids (snd (dm_run d ops))) j = Some b -> a < b.
Proof.
  intros d ops i j a b H L A B. destruct (dm_alloc_consecutive_lemma ops d H) as [E _]. rewrite E in A, B.
  pose proof (nth_error_Some (seq (dm_next d) (length (dm_alloc_ids (snd (dm_run d ops))))) j) as [HS _].
  rewrite B in HS. specialize (HS ltac:(discriminate)). rewrite seq_length in HS.
  apply (nth_error_nth _ _ 0) in A. apply (nth_error_nth _ _ 0) in B. rewrite seq_nth in A, B by lia. lia.
Qed.

(* ---------- (e) log file ---------- *)
Fixpoint dm_log_spec (acc : list N) (ops : list dm_op) : list N :=
  match ops with
  | [] => acc
  | DmWriteLog data :: r => dm_log_spec (acc ++ data) r
  | DmGc :: r => dm_log_spec [] r
  | _ :: r => dm_log_spec acc r
  end.
Definition dm_is_log_read (o : dm_op) : bool := match o with DmReadLog _ _ => true | _ => false end.
Definition dm_no_log_read (ops : list dm_op) : Prop := forallb (fun o => negb (dm_is_log_read o)) ops = true.

Lemma dm_splice_end : forall l data, dm_splice l (length l) data = l ++ data.
Proof. intros. unfold dm_splice. rewrite firstn_all, skipn_all2 by lia. rewrite app_nil_r. reflexivity. Qed.

Lemma dm_step_log : forall d o, dm_is_log_read o = false -> dm_lpos d = length (dm_log d) ->
  dm_log (fst (dm_step d o)) = dm_log_spec (dm_log d) [o] /\
  dm_lpos (fst (dm_step d o)) = length (dm_log (fst (dm_step d o))).
Proof.
  intros d o H HP. destruct o; try discriminate; cbn [dm_step fst dm_log_spec].
  - unfold dm_write_page. destruct (p <? _); split; (reflexivity || exact HP).
  - split; [reflexivity|exact HP].
  - split; [reflexivity|exact HP].
  - split; [reflexivity|exact HP].
  - split; reflexivity.
  - cbn [dm_write_log dm_log dm_lpos]. rewrite HP, dm_splice_end, app_length. split; reflexivity.
  - split; [reflexivity|exact HP].
  - split; reflexivity.
Qed.

Lemma dm_log_spec_cons : forall acc o r, dm_log_spec acc (o :: r) = dm_log_spec (dm_log_spec acc [o]) r.
Proof. intros. destruct o; reflexivity. Qed.

Lemma dm_log_is_concat_lemma : forall ops d, dm_no_log_read ops -> dm_lpos d = length (dm_log d) ->
  dm_log (fst (dm_run d ops)) = dm_log_spec (dm_log d) ops /\
  dm_lpos (fst (dm_run d ops)) = length (dm_log (fst (dm_run d ops))).
Proof.
  induction ops as [|o r IH]; intros d H HP; [split; [reflexivity|exact HP]|].
  unfold dm_no_log_read in H. cbn [forallb] in H. apply andb_true_iff in H as [H0 H]. rewrite dm_run_fst_cons.
  apply negb_true_iff in H0. destruct (dm_step_log d o H0 HP) as [E1 E2].
  rewrite dm_log_spec_cons, <- E1. apply IH; assumption.
Qed.

Lemma dm_read_log_whole_lemma : forall d len, dm_log d <> [] -> length (dm_log d) <= len ->
  snd (dm_read_log d 0 len) = DmALog true (dm_log d).
Proof.
  intros d len H HL. unfold dm_read_log. destruct (dm_log d) as [|x l] eqn:E; [contradiction|].
  cbn [length Nat.leb snd skipn]. rewrite firstn_all2 by exact HL. reflexivity.
Qed.

Lemma dm_read_log_past_end_lemma : forall d off len, length (dm_log d) <= off ->
  dm_read_log d off len = (d, DmALog false []).
Proof. intros d off len H. unfold dm_read_log. apply Nat.leb_le in H. rewrite H. reflexivity. Qed.

Lemma dm_read_log_inside_lemma : forall d off len, off < length (dm_log d) ->
  snd (dm_read_log d off len) = DmALog true (firstn len (skipn off (dm_log d))) /\
  dm_lpos (fst (dm_read_log d off len)) = off + Nat.min len (length (dm_log d) - off).
Proof.
  intros d off len H. unfold dm_read_log. destruct (_ <=? _) eqn:E; [apply Nat.leb_le in E; lia|].
  cbn [fst snd dm_lpos]. rewrite firstn_length, skipn_length. split; reflexivity.
Qed.

(* ---------- (f) refuted / partial ---------- *)
Definition dm_pg (b : N) : list N := repeat b dm_ps.

(** ids are NOT fresh across close + reopen: an allocated page that was never written is handed out again *)
Lemma dm_allocate_increasing_refuted_lemma :
  ~ (forall d ops i j a b, i < j ->
       nth_error (dm_alloc_ids (snd (dm_run d ops))) i = Some a ->
       nth_error (dm_alloc_ids (snd (dm_run d ops))) j = Some b -> a < b).
Proof.
  intro H. specialize (H (dm_open dm_empty) [DmAlloc; DmAlloc; DmReopen; DmAlloc] 0 2 0 0 ltac:(lia)).
  vm_compute in H. specialize (H eq_refl eq_refl). lia.
Qed.

(** Size() is the field d.size, not the file size: stale on a file that did not start at a page multiple *)
Lemma dm_size_is_file_size_refuted_lemma :
  ~ (forall d ops, dm_size (fst (dm_run (dm_open d) ops)) = dm_file_size (fst (dm_run (dm_open d) ops))).
Proof.
  intro H. specialize (H (dm_mk [dm_pg 1%N] [7%N] []) [DmWrite 1 (dm_pg 2%N)]). vm_compute in H. discriminate.
Qed.

Lemma dm_size_is_file_size_partial_lemma : forall d ops, dm_tail d = [] ->
  dm_size (fst (dm_run (dm_open d) ops)) = dm_file_size (fst (dm_run (dm_open d) ops)).
Proof. intros d ops H. apply dm_wf_size_lemma, dm_run_wf, dm_open_wf, H. Qed.

(** the log file is NOT the concatenation of the payloads when a ReadLog came between: the next WriteLog goes to the
    position the read left *)
Lemma dm_log_is_concat_refuted_lemma :
  ~ (forall ops d, dm_lpos d = length (dm_log d) -> dm_log (fst (dm_run d ops)) = dm_log_spec (dm_log d) ops).
Proof.
  intro H. specialize (H [DmWriteLog [1;2;3]%N; DmReadLog 0 1; DmWriteLog [9%N]] (dm_open dm_empty) eq_refl).
  vm_compute in H. discriminate.
Qed.
