(** Proofs about page-id allocation and reuse (Model/PageAlloc.v), for ALL operation sequences. *)
From Coq Require Import List NArith Bool Arith Lia ZifyN ZifyNat ZifyBool.
From SDB Require Import Base.Assoc Model.PageAlloc Model.Catalog Proofs.LockProofs Proofs.CatalogProofs.
Import ListNotations.
Open Scope N_scope.

(** * Lists *)

Definition disj (a b : list N) : Prop := forall p, In p a -> ~ In p b.
Definition below (n : N) (l : list N) : Prop := forall p, In p l -> p < n.
Definition heap_rec (r : pa_rec) : Prop := match r with RNewHeap _ => True | _ => False end.

Lemma In_del : forall q p l, In q (pa_del p l) <-> In q l /\ q <> p.
Proof.
  intros q p l. unfold pa_del. rewrite filter_In. split; intros [H1 H2]; split; auto.
  - intro E. subst. rewrite N.eqb_refl in H2. discriminate.
  - destruct (N.eqb_spec q p); [contradiction|reflexivity].
Qed.

Lemma NoDup_del : forall p l, NoDup l -> NoDup (pa_del p l).
Proof. intros. unfold pa_del. apply NoDup_filter. assumption. Qed.

Lemma In_add : forall q p l, In q (pa_add p l) <-> q = p \/ In q l.
Proof.
  intros q p l. unfold pa_add. destruct (memN p l) eqn:E.
  - apply memN_In in E. split; [auto|]. intros [->|H]; assumption.
  - rewrite in_app_iff. cbn [In]. split; [intros [H|[H|[]]]; auto|intros [H|H]; auto].
Qed.

Lemma NoDup_snoc : forall (p : N) l, NoDup l -> ~ In p l -> NoDup (l ++ [p]).
Proof.
  intros p l H Hn. induction H as [|x l Hx H IH]; cbn [app].
  - constructor; [intros []|constructor].
  - constructor.
    + rewrite in_app_iff. cbn [In]. intros [A|[A|[]]]; [contradiction|]. subst. apply Hn. left. reflexivity.
    + apply IH. intro A. apply Hn. right. assumption.
Qed.

Lemma NoDup_add : forall p l, NoDup l -> NoDup (pa_add p l).
Proof.
  intros p l H. unfold pa_add. destruct (memN p l) eqn:E; [assumption|].
  apply memN_false in E. apply NoDup_snoc; assumption.
Qed.

Lemma nodup_b_spec : forall l, pa_nodup_b l = true <-> NoDup l.
Proof.
  induction l as [|x l IH]; cbn [pa_nodup_b].
  - split; [constructor|reflexivity].
  - rewrite andb_true_iff, negb_true_iff, IH, memN_false. split.
    + intros [A B]. constructor; assumption.
    + intro H. inversion H. split; assumption.
Qed.

Lemma forallb_memN : forall l m, forallb (fun x => memN x m) l = true <-> incl l m.
Proof.
  intros l m. rewrite forallb_forall. unfold incl. split; intros H x Hx.
  - apply memN_In. apply H. assumption.
  - apply memN_In. apply H. assumption.
Qed.

(** a legal order is a duplicate-free list with exactly the elements of the set *)
Lemma perm_b_spec : forall order set, NoDup set -> pa_perm_b order set = true ->
  NoDup order /\ forall p, In p order <-> In p set.
Proof.
  intros order set Hs H. unfold pa_perm_b in H. apply andb_true_iff in H. destruct H as [H H3].
  apply andb_true_iff in H. destruct H as [H1 H2].
  apply Nat.eqb_eq in H1. apply nodup_b_spec in H2. apply forallb_memN in H3.
  split; [assumption|]. intro p. split.
  - apply (NoDup_length_incl Hs); [lia|assumption].
  - apply H3.
Qed.

Lemma filter_self : forall l : list N, filter (fun x => memN x l) l = l.
Proof.
  intro l. assert (G : forall m, incl m l -> filter (fun x => memN x l) m = m).
  { induction m as [|x m IH]; intro Hi; cbn [filter]; [reflexivity|].
    assert (E : memN x l = true) by (apply memN_In; apply Hi; left; reflexivity).
    rewrite E. f_equal. apply IH. intros y Hy. apply Hi. right. assumption. }
  apply G. apply incl_refl.
Qed.

Lemma In_skipn_all : forall (A : Type) (x : A) m l, In x (skipn m l) -> In x l.
Proof.
  intros A x m. induction m as [|m IH]; intros l H; [assumption|].
  destruct l as [|y l]; [destruct H|]. right. apply IH. exact H.
Qed.

Lemma In_skipn_le : forall (A : Type) (x : A) n m l, (n <= m)%nat -> In x (skipn m l) -> In x (skipn n l).
Proof.
  intros A x n. induction n as [|n IH]; intros m l Hle H.
  - cbn [skipn]. apply (In_skipn_all _ x m l H).
  - destruct m as [|m]; [lia|]. destruct l as [|y l]; [destruct H|].
    cbn [skipn] in *. apply (IH m l); [lia|assumption].
Qed.

(** * The set Redo computes *)

Lemma lset_app : forall l r, pa_lset (l ++ [r]) = pa_lstep (pa_lset l) r.
Proof. intros. unfold pa_lset. rewrite fold_left_app. reflexivity. Qed.

Lemma lstep_NoDup : forall s r, NoDup s -> NoDup (pa_lstep s r).
Proof. intros s [p|p|p] H; cbn [pa_lstep]; [apply NoDup_add|apply NoDup_del|]; assumption. Qed.

Lemma fold_lstep_NoDup : forall l s, NoDup s -> NoDup (fold_left pa_lstep l s).
Proof. induction l as [|r l IH]; intros s H; cbn [fold_left]; [assumption|]. apply IH. apply lstep_NoDup. assumption. Qed.

Lemma lset_NoDup : forall l, NoDup (pa_lset l).
Proof. intro l. apply fold_lstep_NoDup. constructor. Qed.

Lemma fold_lstep_heap : forall t s, (forall r, In r t -> heap_rec r) -> fold_left pa_lstep t s = s.
Proof.
  induction t as [|r t IH]; intros s H; cbn [fold_left]; [reflexivity|].
  assert (Hr : heap_rec r) by (apply H; left; reflexivity).
  destruct r; cbn in Hr; try contradiction. cbn [pa_lstep]. apply IH. intros r Hin. apply H. right. assumption.
Qed.

Lemma lset_firstn : forall l d k, (d <= k)%nat -> (forall r, In r (skipn d l) -> heap_rec r) ->
  pa_lset (firstn k l) = pa_lset l.
Proof.
  intros l d k Hle Ht. rewrite <- (firstn_skipn k l) at 2. unfold pa_lset. rewrite fold_left_app.
  symmetry. apply fold_lstep_heap. intros r Hr. apply Ht. apply (In_skipn_le _ r d k l Hle Hr).
Qed.

Lemma fold_lstep_dealloc : forall l s p, In p (fold_left pa_lstep (map RDealloc l) s) <-> In p s \/ In p l.
Proof.
  induction l as [|x l IH]; intros s p; cbn [map fold_left In].
  - tauto.
  - rewrite IH. cbn [pa_lstep]. rewrite In_add. split; intros [H|H]; auto.
    + destruct H; auto.
    + destruct H; auto.
Qed.

Lemma lset_dealloc : forall l p, In p (pa_lset (map RDealloc l)) <-> In p l.
Proof. intros l p. unfold pa_lset. rewrite fold_lstep_dealloc. cbn [In]. tauto. Qed.

(** * The allocator's restart point *)

Lemma top_gt : forall l p, In p l -> p < pa_top l.
Proof.
  induction l as [|x l IH]; intros p H; [destruct H|].
  destruct H as [H|H]; cbn [pa_top fold_right].
  - subst. lia.
  - specialize (IH p H). unfold pa_top in IH. lia.
Qed.

Lemma bstep_ok : forall a r, snd a <= fst a -> snd (pa_bstep a r) <= fst (pa_bstep a r) /\ fst a <= fst (pa_bstep a r)
  /\ snd a <= snd (pa_bstep a r).
Proof.
  intros [n f] r H. cbn [fst snd] in H. destruct r as [p|p|p]; cbn [pa_bstep fst snd]; try lia.
  destruct (f <=? p) eqn:E; cbn [fst snd]; lia.
Qed.

Lemma bfold_ok : forall l a, snd a <= fst a ->
  snd (fold_left pa_bstep l a) <= fst (fold_left pa_bstep l a) /\ fst a <= fst (fold_left pa_bstep l a)
  /\ snd a <= snd (fold_left pa_bstep l a).
Proof.
  induction l as [|r l IH]; intros a H; cbn [fold_left]; [lia|].
  destruct (bstep_ok a r H) as (A & B & C). destruct (IH _ A) as (D & E & F). lia.
Qed.

Lemma next_of_fsize_ok : forall fs, fs <= pa_next_of_fsize fs.
Proof. intro fs. unfold pa_next_of_fsize. destruct (fs =? 0) eqn:E; lia. Qed.

(** a page that is in the db file lies below the restart point *)
Lemma written_below : forall l fs p, p < fs -> p < fst (pa_bump l fs).
Proof.
  intros l fs p H. unfold pa_bump.
  assert (A : snd (pa_next_of_fsize fs, fs) <= fst (pa_next_of_fsize fs, fs)) by (cbn [fst snd]; apply next_of_fsize_ok).
  destruct (bfold_ok l _ A) as (_ & B & _). cbn [fst snd] in B.
  revert B. unfold pa_next_of_fsize. destruct (N.eqb_spec fs 0); lia.
Qed.

(** so does a page whose NewTablePage record is in the durable part of the log *)
Lemma heap_rec_below : forall l a p, snd a <= fst a -> In (RNewHeap p) l -> p < fst (fold_left pa_bstep l a).
Proof.
  induction l as [|r l IH]; intros a p Ha H; [destruct H|].
  destruct H as [H|H]; cbn [fold_left].
  - subst r. destruct (bstep_ok a (RNewHeap p) Ha) as (A & _ & _).
    destruct (bfold_ok l _ A) as (_ & B & _).
    assert (p < fst (pa_bstep a (RNewHeap p))).
    { destruct a as [n f]. cbn [pa_bstep fst snd] in *. destruct (f <=? p) eqn:E; cbn [fst snd] in *; lia. }
    lia.
  - apply IH; [|assumption]. apply bstep_ok. assumption.
Qed.

Lemma bump_ok : forall l fs, snd (pa_bump l fs) <= fst (pa_bump l fs).
Proof.
  intros. unfold pa_bump. apply bfold_ok. cbn [fst snd]. apply next_of_fsize_ok.
Qed.

(** the repaired start-up (d99b876): every id of the rebuilt list ends below the allocator's next id *)
Lemma now_next_ok : forall reus nx fs p, fs <= nx -> In p reus ->
  p < (if pa_topb reus fs =? 0 then nx else N.max (nx + 1) (pa_topb reus fs))
  /\ nx <= (if pa_topb reus fs =? 0 then nx else N.max (nx + 1) (pa_topb reus fs)).
Proof.
  intros reus nx fs p Hf A. unfold pa_topb.
  destruct (N.leb_spec fs p) as [Hp|Hp].
  - assert (B : In p (filter (fun q => fs <=? q) reus)) by (apply filter_In; split; [assumption|apply N.leb_le; assumption]).
    pose proof (top_gt _ p B) as C. destruct (N.eqb_spec (pa_top (filter (fun q => fs <=? q) reus)) 0); lia.
  - destruct (N.eqb_spec (pa_top (filter (fun q => fs <=? q) reus)) 0); lia.
Qed.

Lemma now_next_ge : forall reus nx fs,
  nx <= (if pa_topb reus fs =? 0 then nx else N.max (nx + 1) (pa_topb reus fs)).
Proof. intros. destruct (N.eqb_spec (pa_topb reus fs) 0); lia. Qed.

Lemma heap_below : forall l fs p, In (RNewHeap p) l -> p < fst (pa_bump l fs).
Proof.
  intros. unfold pa_bump. apply heap_rec_below; [|assumption]. cbn [fst snd]. apply next_of_fsize_ok.
Qed.

(** * The invariant *)

Record PInv (st : pa_state) : Prop := mkPInv {
  i_nd_iu : NoDup (pa_inuse st);
  i_nd_re : NoDup (pa_reusable st);
  i_nd_fl : NoDup (pa_flagged st);
  i_nd_pe : NoDup (pa_pending st);
  i_iu_re : disj (pa_inuse st) (pa_reusable st);
  i_iu_fl : disj (pa_inuse st) (pa_flagged st);
  i_re_fl : disj (pa_reusable st) (pa_flagged st);
  i_pe_iu : disj (pa_pending st) (pa_inuse st);
  i_ls_iu : disj (pa_lset (pa_log st)) (pa_inuse st);
  i_b_iu : below (pa_next st) (pa_inuse st);
  i_b_re : below (pa_next st) (pa_reusable st);
  i_b_fl : below (pa_next st) (pa_flagged st);
  i_b_pe : below (pa_next st) (pa_pending st);
  i_b_ls : below (pa_next st) (pa_lset (pa_log st));
  i_dur : (pa_durable st <= length (pa_log st))%nat;
  i_tail : forall r, In r (skipn (pa_durable st) (pa_log st)) -> heap_rec r;
  i_re_src : forall p, In p (pa_reusable st) -> In p (pa_pending st) \/ In p (pa_lset (pa_log st));
  i_fl_src : forall p, In p (pa_flagged st) -> In p (pa_pending st) \/ In p (pa_lset (pa_log st))
}.

Ltac projs := cbn [pa_next pa_reusable pa_inuse pa_flagged pa_pending pa_log pa_durable pa_fsize] in *.

Lemma PInv_init : PInv pa_init.
Proof.
  constructor; unfold pa_init; projs; try constructor; try (intros p []); try (intros r []).
  all: match goal with H : In _ [] |- _ => destruct H end.
Qed.

Lemma skipn_all_nil : forall (A : Type) (l : list A), skipn (length l) l = [].
Proof. induction l as [|x l IH]; cbn [length skipn]; auto. Qed.

(** NewPage *)
Lemma new_inv : forall st, PInv st -> pa_client_ok st ONew = true ->
  PInv (pa_own (snd (pa_alloc st)) (fst (pa_alloc st)) (pa_log (snd (pa_alloc st))) (pa_durable (snd (pa_alloc st))))
  /\ ~ In (fst (pa_alloc st)) (pa_inuse st) /\ ~ In (fst (pa_alloc st)) (pa_flagged st)
  /\ ~ In (fst (pa_alloc st)) (pa_pending st).
Proof.
  intros [nx re iu fl pe lg du fs] [] G. projs. unfold pa_alloc, pa_own, pa_client_ok in *. projs.
  destruct re as [|p rest]; cbn [fst snd]; projs.
  - (* from the disk manager *)
    assert (Hiu : ~ In nx iu) by (intro A; apply i_b_iu0 in A; lia).
    assert (Hfl : ~ In nx fl) by (intro A; apply i_b_fl0 in A; lia).
    assert (Hpe : ~ In nx pe) by (intro A; apply i_b_pe0 in A; lia).
    split; [|auto]. constructor; projs.
    + constructor; assumption.
    + constructor.
    + assumption.
    + assumption.
    + intros q _ [].
    + intros q [<-|A]; [assumption|auto].
    + intros q [].
    + intros q A [<-|B]; [contradiction|]. apply (i_pe_iu0 q A B).
    + intros q A [<-|B]; [apply i_b_ls0 in A; lia|]. apply (i_ls_iu0 q A B).
    + intros q [<-|A]; [lia|]. apply i_b_iu0 in A. lia.
    + intros q [].
    + intros q A. apply i_b_fl0 in A. lia.
    + intros q A. apply i_b_pe0 in A. lia.
    + intros q A. apply i_b_ls0 in A. lia.
    + assumption.
    + assumption.
    + intros q [].
    + assumption.
  - (* the head of the reusable list *)
    apply negb_true_iff, memN_false in G. inversion i_nd_re0 as [|? ? Hp Hrest]; subst.
    assert (Hiu : ~ In p iu) by (intro A; apply (i_iu_re0 p A); left; reflexivity).
    assert (Hfl : ~ In p fl) by (apply i_re_fl0; left; reflexivity).
    split; [|auto]. constructor; projs; rewrite ?lset_app; cbn [pa_lstep].
    + constructor; assumption.
    + assumption.
    + assumption.
    + assumption.
    + intros q [<-|A]; [assumption|]. intro B. apply (i_iu_re0 q A). right. assumption.
    + intros q [<-|A]; [assumption|auto].
    + intros q A. apply i_re_fl0. right. assumption.
    + intros q A [<-|B]; [contradiction|]. apply (i_pe_iu0 q A B).
    + intros q A B. apply In_del in A. destruct A as [A1 A2]. destruct B as [<-|B]; [congruence|]. apply (i_ls_iu0 q A1 B).
    + intros q [<-|A]; [apply i_b_re0; left; reflexivity|auto].
    + intros q A. apply i_b_re0. right. assumption.
    + assumption.
    + assumption.
    + intros q A. apply In_del in A. apply i_b_ls0. tauto.
    + lia.
    + rewrite skipn_all_nil. intros r [].
    + intros q A. assert (q <> p) by (intro; subst; contradiction).
      destruct (i_re_src0 q (or_intror A)) as [B|B]; [auto|]. right. apply In_del. auto.
    + intros q A. assert (q <> p) by (intro; subst; contradiction).
      destruct (i_fl_src0 q A) as [B|B]; [auto|]. right. apply In_del. auto.
Qed.

(** TablePage.Init: a NewTablePage record is appended, nothing is flushed *)
Lemma heap_append_inv : forall st p, PInv st ->
  PInv (mkPA (pa_next st) (pa_reusable st) (pa_inuse st) (pa_flagged st) (pa_pending st)
             (pa_log st ++ [RNewHeap p]) (pa_durable st) (pa_fsize st)).
Proof.
  intros [nx re iu fl pe lg du fs] p []. projs.
  constructor; projs; rewrite ?lset_app; cbn [pa_lstep]; try assumption.
  - rewrite app_length. cbn [length]. lia.
  - intros r A. rewrite skipn_app in A. apply in_app_iff in A. destruct A as [A|A]; [auto|].
    replace (du - length lg)%nat with 0%nat in A by lia. cbn [skipn] in A.
    destruct A as [<-|[]]. exact I.
Qed.

(** memory half of a deallocation *)
Lemma release_inv : forall fx st p m, PInv st -> pa_client_ok st (ORelease p m) = true ->
  PInv (fst (pa_step fx st (ORelease p m))).
Proof.
  intros fx [nx re iu fl pe lg du fs] p m [] G. projs. cbn [pa_client_ok] in G. projs.
  apply memN_In in G. cbn [pa_step fst]. projs.
  assert (Hre : ~ In p re) by (apply i_iu_re0; assumption).
  assert (Hfl : ~ In p fl) by (apply i_iu_fl0; assumption).
  assert (Hpe : ~ In p pe) by (intro A; apply (i_pe_iu0 p A G)).
  assert (Hnx : p < nx) by (apply i_b_iu0; assumption).
  constructor; projs.
  - apply NoDup_del. assumption.
  - destruct m; try assumption. apply NoDup_snoc; assumption.
  - destruct m; [apply NoDup_del|apply NoDup_add|]; assumption.
  - constructor; assumption.
  - intros q A B. apply In_del in A. destruct A as [A1 A2].
    destruct m; try (apply (i_iu_re0 q A1 B)).
    apply in_app_iff in B. destruct B as [B|[B|[]]]; [apply (i_iu_re0 q A1 B)|congruence].
  - intros q A B. apply In_del in A. destruct A as [A1 A2]. destruct m.
    + apply In_del in B. apply (i_iu_fl0 q A1). tauto.
    + apply In_add in B. destruct B as [B|B]; [congruence|apply (i_iu_fl0 q A1 B)].
    + apply (i_iu_fl0 q A1 B).
  - intros q A B. destruct m.
    + apply In_del in B. destruct B as [B1 B2]. apply in_app_iff in A.
      destruct A as [A|[A|[]]]; [apply (i_re_fl0 q A B1)|congruence].
    + apply In_add in B. destruct B as [B|B]; [subst; contradiction|apply (i_re_fl0 q A B)].
    + apply (i_re_fl0 q A B).
  - intros q A B. apply In_del in B. destruct B as [B1 B2]. destruct A as [A|A]; [congruence|apply (i_pe_iu0 q A B1)].
  - intros q A B. apply In_del in B. apply (i_ls_iu0 q A). tauto.
  - intros q A. apply In_del in A. apply i_b_iu0. tauto.
  - intros q A. destruct m; try (apply i_b_re0; assumption).
    apply in_app_iff in A. destruct A as [A|[A|[]]]; [apply i_b_re0; assumption|subst; assumption].
  - intros q A. destruct m.
    + apply In_del in A. apply i_b_fl0. tauto.
    + apply In_add in A. destruct A as [A|A]; [subst; assumption|apply i_b_fl0; assumption].
    + apply i_b_fl0; assumption.
  - intros q [<-|A]; [assumption|apply i_b_pe0; assumption].
  - assumption.
  - assumption.
  - assumption.
  - intros q A. destruct m.
    + apply in_app_iff in A. destruct A as [A|[A|[]]].
      * destruct (i_re_src0 q A); [left; right; assumption|right; assumption].
      * left. left. assumption.
    + destruct (i_re_src0 q A); [left; right; assumption|right; assumption].
    + destruct (i_re_src0 q A); [left; right; assumption|right; assumption].
  - intros q A. destruct m.
    + apply In_del in A. destruct A as [A _]. destruct (i_fl_src0 q A); [left; right; assumption|right; assumption].
    + apply In_add in A. destruct A as [A|A]; [left; left; congruence|].
      destruct (i_fl_src0 q A); [left; right; assumption|right; assumption].
    + destruct (i_fl_src0 q A); [left; right; assumption|right; assumption].
Qed.

(** log half of a deallocation *)
Lemma logdealloc_inv : forall fx st p, PInv st -> pa_client_ok st (OLogDealloc p) = true ->
  PInv (fst (pa_step fx st (OLogDealloc p))).
Proof.
  intros fx [nx re iu fl pe lg du fs] p [] G. projs. cbn [pa_client_ok] in G. projs.
  apply memN_In in G. cbn [pa_step fst]. projs.
  constructor; projs; rewrite ?lset_app; cbn [pa_lstep]; try assumption.
  - apply NoDup_remove1. assumption.
  - intros q A. apply In_remove1 in A. apply (i_pe_iu0 q A).
  - intros q A B. apply In_add in A. destruct A as [->|A]; [apply (i_pe_iu0 p G B)|apply (i_ls_iu0 q A B)].
  - intros q A. apply In_remove1 in A. apply i_b_pe0. assumption.
  - intros q A. apply In_add in A. destruct A as [->|A]; [apply i_b_pe0|apply i_b_ls0]; assumption.
  - lia.
  - rewrite skipn_all_nil. intros r [].
  - intros q A. destruct (N.eq_dec q p) as [->|Hn]; [right; apply In_add; auto|].
    destruct (i_re_src0 q A) as [B|B]; [left; apply In_remove1_neq; assumption|right; apply In_add; auto].
  - intros q A. destruct (N.eq_dec q p) as [->|Hn]; [right; apply In_add; auto|].
    destruct (i_fl_src0 q A) as [B|B]; [left; apply In_remove1_neq; assumption|right; apply In_add; auto].
Qed.

(** a flagged page is cached out *)
Lemma evict_inv : forall fx st p, PInv st -> pa_client_ok st (OEvict p) = true ->
  PInv (fst (pa_step fx st (OEvict p))).
Proof.
  intros fx [nx re iu fl pe lg du fs] p [] G. projs. cbn [pa_client_ok] in G. projs.
  cbn [pa_step]. projs. rewrite G. cbn [fst]. apply memN_In in G.
  assert (Hre : ~ In p re) by (intro A; apply (i_re_fl0 p A G)).
  assert (Hiu : ~ In p iu) by (intro A; apply (i_iu_fl0 p A G)).
  constructor; projs; try assumption.
  - apply NoDup_snoc; assumption.
  - apply NoDup_del; assumption.
  - intros q A B. apply in_app_iff in B. destruct B as [B|[B|[]]]; [apply (i_iu_re0 q A B)|subst; contradiction].
  - intros q A B. apply In_del in B. apply (i_iu_fl0 q A). tauto.
  - intros q A B. apply In_del in B. destruct B as [B1 B2].
    apply in_app_iff in A. destruct A as [A|[A|[]]]; [apply (i_re_fl0 q A B1)|congruence].
  - intros q A. apply in_app_iff in A. destruct A as [A|[A|[]]]; [apply i_b_re0|subst; apply i_b_fl0]; assumption.
  - intros q A. apply In_del in A. apply i_b_fl0. tauto.
  - intros q A. apply in_app_iff in A. destruct A as [A|[A|[]]]; [apply i_re_src0; assumption|subst; apply i_fl_src0; assumption].
  - intros q A. apply In_del in A. apply i_fl_src0. tauto.
Qed.

(** the log is flushed; a page is written; the disk manager hands out an id directly *)
Lemma flush_inv : forall st fs', PInv st ->
  PInv (mkPA (pa_next st) (pa_reusable st) (pa_inuse st) (pa_flagged st) (pa_pending st)
             (pa_log st) (length (pa_log st)) fs').
Proof.
  intros [nx re iu fl pe lg du fs] fs' []. projs. constructor; projs; try assumption.
  - lia.
  - rewrite skipn_all_nil. intros r [].
Qed.

Lemma probe_inv : forall st, PInv st ->
  PInv (mkPA (pa_next st + 1) (pa_reusable st) (pa_inuse st) (pa_flagged st) (pa_pending st)
             (pa_log st) (pa_durable st) (pa_fsize st)).
Proof.
  intros [nx re iu fl pe lg du fs] []. projs. constructor; projs; try assumption.
  all: intros q A; match goal with H : below _ _ |- _ => apply H in A; lia end.
Qed.

(** restart: Redo rebuilds the list from the durable part of the log, the allocator restarts from the file size *)
Lemma restart_inv : forall fx st kept surv order, PInv st ->
  (pa_durable st <= kept)%nat ->
  pa_image_owned_ok st kept surv = true ->
  (fx = true \/ pa_image_reusable_ok st kept = true) ->
  PInv (pa_restart fx st kept surv order)
  /\ (forall p, In p (pa_reusable (pa_restart fx st kept surv order)) <-> In p (pa_lset (pa_log st))).
Proof.
  intros fx [nx re iu fl pe lg du fs] kept surv order [] Hk Hown Hreu. projs.
  unfold pa_restart, pa_image_owned_ok, pa_image_reusable_ok in *. projs.
  assert (LS : pa_lset (firstn kept lg) = pa_lset lg) by (apply (lset_firstn lg du kept Hk i_tail0)).
  rewrite LS in *. set (S := pa_lset lg) in *.
  assert (HS : NoDup S) by apply lset_NoDup.
  set (reus := if pa_perm_b order S then order else S).
  assert (Hr : NoDup reus /\ forall p, In p reus <-> In p S).
  { unfold reus. destruct (pa_perm_b order S) eqn:E; [apply perm_b_spec; assumption|]. split; [assumption|tauto]. }
  destruct Hr as [Hr1 Hr2].
  destruct (pa_bump (firstn kept lg) fs) as [nx' fs'] eqn:EB. cbn [fst] in *.
  rewrite forallb_forall in Hown.
  assert (Hfs : fs' <= nx') by (pose proof (bump_ok (firstn kept lg) fs) as B; rewrite EB in B; exact B).
  assert (Hbre : forall p, In p reus ->
            p < (if fx then (if pa_topb reus fs' =? 0 then nx' else N.max (nx' + 1) (pa_topb reus fs')) else nx')).
  { intros p A. destruct fx.
    - apply (now_next_ok reus nx' fs' p Hfs A).
    - destruct Hreu as [Hreu|Hreu]; [discriminate|]. rewrite forallb_forall in Hreu.
      apply Hr2 in A. apply Hreu in A. lia. }
  split; [|exact Hr2].
  constructor; projs.
  - apply NoDup_filter. assumption.
  - assumption.
  - constructor.
  - constructor.
  - intros q A B. apply filter_In in A. destruct A as [A _]. apply Hr2 in B. apply (i_ls_iu0 q B A).
  - intros q _ [].
  - intros q _ [].
  - intros q [].
  - intros q A B. rewrite lset_dealloc in A. apply filter_In in B. destruct B as [B _]. apply Hr2 in A. apply (i_ls_iu0 q A B).
  - intros q A. apply Hown in A. pose proof (now_next_ge reus nx' fs'). destruct fx; lia.
  - exact Hbre.
  - intros q [].
  - intros q [].
  - intros q A. rewrite lset_dealloc in A. apply Hbre. assumption.
  - rewrite map_length. lia.
  - rewrite <- (map_length RDealloc reus). rewrite skipn_all_nil. intros r [].
  - intros q A. right. apply lset_dealloc. assumption.
  - intros q [].
Qed.

(** * One step, any run *)

Lemma step_inv : forall fx st o, PInv st -> pa_guard_all fx st o = true -> PInv (fst (pa_step fx st o)).
Proof.
  intros fx st o H G. unfold pa_guard_all in G. apply andb_true_iff in G. destruct G as [Gc Gi].
  destruct o as [| |p m|p|p|p| | |order|kept surv order].
  - cbn [pa_step]. pose proof (new_inv st H Gc) as [A _]. destruct (pa_alloc st) as [p s1]. cbn [fst snd] in *. exact A.
  - cbn [pa_step]. pose proof (new_inv st H Gc) as [A _]. destruct (pa_alloc st) as [p s1]. cbn [fst snd] in *.
    apply (heap_append_inv _ p) in A. exact A.
  - apply release_inv; assumption.
  - apply logdealloc_inv; assumption.
  - apply evict_inv; assumption.
  - cbn [pa_step fst]. apply flush_inv. assumption.
  - cbn [pa_step fst]. apply flush_inv. assumption.
  - cbn [pa_step fst]. apply probe_inv. assumption.
  - cbn [pa_step fst]. cbn [pa_image_ok] in Gi. apply andb_true_iff in Gi. destruct Gi as [G1 G2].
    apply restart_inv; try assumption.
    + destruct H. assumption.
    + destruct fx; [left; reflexivity|right; exact G2].
  - cbn [pa_step fst]. cbn [pa_image_ok] in Gi. apply andb_true_iff in Gi. destruct Gi as [G1 G2].
    cbn [pa_client_ok] in Gc. apply andb_true_iff in Gc. destruct Gc as [Gc _].
    apply andb_true_iff in Gc. destruct Gc as [Gc _]. apply Nat.leb_le in Gc.
    apply restart_inv; try assumption.
    destruct fx; [left; reflexivity|right; exact G2].
Qed.

Definition pa_reach (fx : bool) (st : pa_state) : Prop :=
  exists ops outs, pa_run_g fx (pa_guard_all fx) pa_init ops = Some (st, outs).

Lemma run_inv : forall fx ops st st' outs, PInv st ->
  pa_run_g fx (pa_guard_all fx) st ops = Some (st', outs) -> PInv st'.
Proof.
  intros fx. induction ops as [|o ops IH]; intros st st' outs H R; cbn [pa_run_g] in R.
  - inversion R. subst. assumption.
  - destruct (pa_guard_all fx st o) eqn:G; [|discriminate].
    pose proof (step_inv fx st o H G) as H1. destruct (pa_step fx st o) as [s1 out]. cbn [fst] in H1.
    destruct (pa_run_g fx (pa_guard_all fx) s1 ops) as [[s2 outs2]|] eqn:R2; [|discriminate].
    inversion R. subst. apply (IH _ _ _ H1 R2).
Qed.

Lemma reach_inv : forall fx st, pa_reach fx st -> PInv st.
Proof. intros fx st (ops & outs & R). apply (run_inv fx ops pa_init st outs PInv_init R). Qed.

(** * Statements *)

(** (a) the id NewPage returns is nobody's *)
Lemma new_page_fresh_lemma : forall fx st o st' p, pa_reach fx st -> (o = ONew \/ o = ONewHeap) ->
  pa_client_ok st o = true -> pa_step fx st o = (st', PONew p) ->
  ~ In p (pa_inuse st) /\ ~ In p (pa_flagged st) /\ ~ In p (pa_pending st) /\ pa_inuse st' = p :: pa_inuse st.
Proof.
  intros fx st o st' p R Ho G S. apply reach_inv in R.
  assert (G' : pa_client_ok st ONew = true) by (destruct Ho; subst; exact G).
  pose proof (new_inv st R G') as (_ & A & B & C).
  assert (E : fst (pa_alloc st) = p /\ pa_inuse st' = p :: pa_inuse st).
  { destruct Ho; subst o; cbn [pa_step] in S; unfold pa_alloc in *; destruct (pa_reusable st);
      cbn [fst snd] in *; inversion S; subst; unfold pa_own; projs; auto. }
  destruct E as [<- E]. auto.
Qed.

(** (b), (c) *)
Lemma inuse_distinct_lemma : forall fx st, pa_reach fx st -> NoDup (pa_inuse st).
Proof. intros fx st R. apply reach_inv in R. destruct R. assumption. Qed.

Lemma reusable_ok_lemma : forall fx st, pa_reach fx st ->
  NoDup (pa_reusable st) /\ (forall p, In p (pa_reusable st) -> ~ In p (pa_inuse st))
  /\ (forall p, In p (pa_reusable st) -> ~ In p (pa_flagged st)).
Proof.
  intros fx st R. apply reach_inv in R. destruct R. split; [assumption|]. split; [|assumption].
  intros p A B. apply (i_iu_re0 p B A).
Qed.

(** the executable checkers agree *)
Lemma checkers_lemma : forall fx st, pa_reach fx st ->
  (match pa_reusable st with p :: _ => negb (memN p (pa_pending st)) | [] => true end = true -> pa_new_fresh st = true)
  /\ pa_inuse_nodup st = true /\ pa_reusable_ok st = true.
Proof.
  intros fx st R. pose proof (reach_inv fx st R) as H. split; [|split].
  - intro G. pose proof (new_inv st H G) as (_ & A & _). unfold pa_new_fresh.
    apply negb_true_iff. apply memN_false. assumption.
  - unfold pa_inuse_nodup. apply nodup_b_spec. destruct H. assumption.
  - unfold pa_reusable_ok. destruct H. apply andb_true_iff. split; [apply nodup_b_spec; assumption|].
    apply forallb_forall. intros p A. apply negb_true_iff. apply memN_false. intro B. apply (i_iu_re0 p B A).
Qed.

(** (d) restarts: a reachable state stays reachable — the statements above hold after it — and *)
Lemma reach_step : forall fx st o, pa_reach fx st -> pa_guard_all fx st o = true -> pa_reach fx (fst (pa_step fx st o)).
Proof.
  intros fx st o (ops & outs & R) G. exists (ops ++ [o]).
  assert (K : forall ops st0 st1 outs, pa_run_g fx (pa_guard_all fx) st0 ops = Some (st1, outs) ->
              pa_guard_all fx st1 o = true ->
              pa_run_g fx (pa_guard_all fx) st0 (ops ++ [o]) = Some (fst (pa_step fx st1 o), outs ++ [snd (pa_step fx st1 o)])).
  { clear. induction ops as [|a ops IH]; intros st0 st1 outs R G; cbn [pa_run_g app] in *.
    - inversion R. subst. rewrite G. destruct (pa_step fx st1 o). reflexivity.
    - destruct (pa_guard_all fx st0 a); [|discriminate]. destruct (pa_step fx st0 a) as [s1 out].
      destruct (pa_run_g fx (pa_guard_all fx) s1 ops) as [[s2 outs2]|] eqn:R2; [|discriminate].
      inversion R. subst. rewrite (IH _ _ _ R2 G). reflexivity. }
  eexists. apply (K _ _ _ _ R G).
Qed.

(** a clean restart keeps every owner and forgets no reusable id *)
Lemma clean_restart_lemma : forall fx st order st', pa_reach fx st ->
  pa_image_ok fx st (OCleanRestart order) = true ->
  st' = fst (pa_step fx st (OCleanRestart order)) ->
  pa_reach fx st' /\ pa_inuse st' = pa_inuse st /\
  (forall p, In p (pa_reusable st) -> In p (pa_pending st) \/ In p (pa_reusable st')) /\
  (forall p, In p (pa_reusable st') -> ~ In p (pa_inuse st')).
Proof.
  intros fx st order st' R G ->. pose proof (reach_inv fx st R) as H.
  assert (GA : pa_guard_all fx st (OCleanRestart order) = true) by (unfold pa_guard_all; rewrite G; reflexivity).
  pose proof (reach_step fx st _ R GA) as R'. split; [assumption|].
  cbn [pa_step fst] in *. cbn [pa_image_ok] in G. apply andb_true_iff in G. destruct G as [G1 G2].
  assert (Hd : (pa_durable st <= length (pa_log st))%nat) by (destruct H; assumption).
  assert (Hf : fx = true \/ pa_image_reusable_ok st (length (pa_log st)) = true)
    by (destruct fx; [left; reflexivity|right; exact G2]).
  pose proof (restart_inv fx st _ (pa_inuse st) order H Hd G1 Hf) as [H' Hset].
  split; [|split].
  - unfold pa_restart. destruct (pa_bump _ _). projs. apply filter_self.
  - intros p A. destruct H. destruct (i_re_src0 p A) as [B|B]; [left; assumption|right; apply Hset; assumption].
  - intros p A B. apply (i_iu_re _ H' p B A).
Qed.

(** a crash restart keeps every surviving owner *)
Lemma crash_restart_lemma : forall fx st kept surv order st', pa_reach fx st ->
  pa_client_ok st (OCrashRestart kept surv order) = true ->
  pa_image_ok fx st (OCrashRestart kept surv order) = true ->
  st' = fst (pa_step fx st (OCrashRestart kept surv order)) ->
  pa_reach fx st' /\ (forall p, In p (pa_inuse st') <-> In p (pa_inuse st) /\ In p surv) /\
  (forall p, In p (pa_reusable st') -> ~ In p (pa_inuse st')).
Proof.
  intros fx st kept surv order st' R Gc G ->.
  assert (GA : pa_guard_all fx st (OCrashRestart kept surv order) = true) by (unfold pa_guard_all; rewrite Gc, G; reflexivity).
  pose proof (reach_step fx st _ R GA) as R'. split; [assumption|]. split.
  - intro p. cbn [pa_step fst]. unfold pa_restart. destruct (pa_bump _ _). projs.
    rewrite filter_In. rewrite memN_In. tauto.
  - intros p A B. apply reach_inv in R'. destruct R'. apply (i_iu_re0 p B A).
Qed.

(** the owned half of the image hypothesis follows from what the engine does for owned pages *)
Lemma owned_image_lemma : forall st kept surv,
  (forall p, In p (pa_inuse st) -> In p surv ->
     p < pa_fsize st \/ In (RNewHeap p) (firstn kept (pa_log st))) ->
  pa_image_owned_ok st kept surv = true.
Proof.
  intros st kept surv H. unfold pa_image_owned_ok. apply forallb_forall. intros p A.
  apply filter_In in A. destruct A as [A1 A2]. apply memN_In in A2.
  destruct (H p A1 A2) as [B|B].
  - pose proof (written_below (firstn kept (pa_log st)) (pa_fsize st) p B). lia.
  - pose proof (heap_below (firstn kept (pa_log st)) (pa_fsize st) p B). lia.
Qed.

(** * What is false *)

(** Sequential callers that keep their contract, a clean shutdown, a restart: the engine hands out an id twice.
    (Two pages are given back that never reached the db file — the temporary pages of a hash join; the allocator
    restarts from the file size, below the ids of the rebuilt reusable list.) *)
Definition witness_beyond_file : list pa_op :=
  [ONew; ONew; OWrote 0; OWrote 1; ONew; ONew; ORelease 2 MNow; OLogDealloc 2; ORelease 3 MNow; OLogDealloc 3;
   OCleanRestart [2; 3]; ONew; ONew; ONew].

Lemma restart_reuse_refuted_lemma :
  exists ops st outs, pa_run_g false pa_client_ok pa_init ops = Some (st, outs) /\
    ~ NoDup (pa_inuse st) /\ pa_inuse_nodup st = false /\
    nth 11 outs POBad = PONew 2 /\ nth 12 outs POBad = PONew 3 /\ nth 13 outs POBad = PONew 3.
Proof.
  exists witness_beyond_file. vm_compute. do 2 eexists. split; [reflexivity|].
  split; [|repeat split; reflexivity].
  intro H. inversion H as [|x l Hx Hl]. apply Hx. left. reflexivity.
Qed.

(** the only step of that run that breaks a hypothesis is the restart: its image is ill formed in the reusable half *)
Lemma restart_reuse_witness_guard :
  forall st outs, pa_run_g false pa_client_ok pa_init (firstn 10 witness_beyond_file) = Some (st, outs) ->
  pa_image_owned_ok st (length (pa_log st)) (pa_inuse st) = true /\
  pa_image_reusable_ok st (length (pa_log st)) = false.
Proof. vm_compute. intros st outs H. inversion H. subst. vm_compute. split; reflexivity. Qed.

(** Two threads: one is between the two halves of a deallocation (SkipList.Remove: flag set and page unpinned,
    DEALLOCATE_PAGE record not yet appended), the other allocates.  Every other hypothesis holds, the restart image
    is well formed, the start-up is the repaired one — and an id is handed out twice after the restart. *)
Definition pa_client_ok_norace (st : pa_state) (o : pa_op) : bool :=
  match o with ONew | ONewHeap => true | _ => pa_client_ok st o end.

Definition witness_log_race : list pa_op :=
  [ONew; OWrote 0; ONew; OWrote 1; ORelease 1 MFlag; OEvict 1; ONew; OLogDealloc 1; OCleanRestart [1]; ONew].

Lemma log_race_refuted_lemma :
  exists ops st outs,
    pa_run_g true (fun st o => pa_client_ok_norace st o && pa_image_ok true st o) pa_init ops = Some (st, outs) /\
    pa_run_g false (fun st o => pa_client_ok_norace st o && pa_image_ok false st o) pa_init ops = Some (st, outs) /\
    ~ NoDup (pa_inuse st) /\ nth 6 outs POBad = PONew 1 /\ nth 9 outs POBad = PONew 1.
Proof.
  exists witness_log_race. vm_compute. do 2 eexists. split; [reflexivity|]. split; [reflexivity|].
  split; [|split; reflexivity].
  intro H. inversion H as [|x l Hx Hl]. apply Hx. left. reflexivity.
Qed.

(** an owner that gives a page back twice (outside the callers' contract) puts the id on the list twice *)
Lemma double_release_refuted_lemma :
  exists ops st outs, pa_run false pa_init ops = (st, outs) /\ ~ NoDup (pa_reusable st).
Proof.
  exists [ONew; ORelease 0 MNow; OLogDealloc 0; ORelease 0 MNow; OLogDealloc 0]. vm_compute.
  do 2 eexists. split; [reflexivity|].
  intro H. inversion H as [|x l Hx Hl]. apply Hx. left. reflexivity.
Qed.

(** * The catalog's first pages (C10) *)

Lemma inuse_grows : forall fx st o, (forall p m, o <> ORelease p m) -> (forall ord, o <> OCleanRestart ord) ->
  (forall k s ord, o <> OCrashRestart k s ord) -> incl (pa_inuse st) (pa_inuse (fst (pa_step fx st o))).
Proof.
  intros fx st o H1 H2 H3 q A. destruct o; cbn [pa_step].
  - destruct (pa_alloc st) as [p s1] eqn:E. cbn [fst]. unfold pa_own. projs. right.
    unfold pa_alloc in E. destruct (pa_reusable st); inversion E; subst; projs; assumption.
  - destruct (pa_alloc st) as [p s1] eqn:E. cbn [fst]. unfold pa_own. projs. right.
    unfold pa_alloc in E. destruct (pa_reusable st); inversion E; subst; projs; assumption.
  - exfalso. apply (H1 p m). reflexivity.
  - cbn [fst]. projs. assumption.
  - destruct (memN p (pa_flagged st)); cbn [fst]; projs; assumption.
  - cbn [fst]. projs. assumption.
  - cbn [fst]. projs. assumption.
  - cbn [fst]. projs. assumption.
  - exfalso. apply (H2 order). reflexivity.
  - exfalso. apply (H3 kept surv order). reflexivity.
Qed.

Lemma jrun_inv : forall fx ops st tp st' tp', PInv st -> pa_reach fx st -> NoDup tp -> incl tp (pa_inuse st) ->
  pa_jrun fx st tp ops = Some (st', tp') -> NoDup tp' /\ incl tp' (pa_inuse st') /\ pa_reach fx st'.
Proof.
  intros fx. induction ops as [|j ops IH]; intros st tp st' tp' H R Hn Hi J; cbn [pa_jrun] in J.
  - inversion J. subst. auto.
  - destruct j as [|o].
    + destruct (pa_client_ok st ONewHeap) eqn:G; [|discriminate].
      destruct (pa_step fx st ONewHeap) as [s1 out] eqn:S. destruct out as [p| |]; try discriminate.
      pose proof (new_page_fresh_lemma fx st ONewHeap s1 p R (or_intror eq_refl) G S) as (A & _ & _ & E).
      assert (GA : pa_guard_all fx st ONewHeap = true) by (unfold pa_guard_all; rewrite G; reflexivity).
      pose proof (reach_step fx st ONewHeap R GA) as R1. rewrite S in R1. cbn [fst] in R1.
      apply (IH s1 (tp ++ [p]) st' tp' (reach_inv fx s1 R1) R1); [| |exact J].
      * apply NoDup_snoc; [assumption|]. intro B. apply A. apply Hi. assumption.
      * rewrite E. intros q B. apply in_app_iff in B. destruct B as [B|[B|[]]]; [right; apply Hi; assumption|left; auto].
    + destruct (pa_guard_all fx st o && pa_keeps tp o) eqn:G; [|discriminate].
      apply andb_true_iff in G. destruct G as [G K].
      pose proof (reach_step fx st o R G) as R1.
      apply (IH _ tp st' tp' (reach_inv fx _ R1) R1 Hn); [|exact J].
      intros q B. specialize (Hi q B).
      destruct o as [| |p m|p|p|p| | |order|kept surv order];
        try (apply inuse_grows; [intros; discriminate|intros; discriminate|intros; discriminate|assumption]).
      * cbn [pa_step fst]. projs. cbn [pa_keeps] in K. apply negb_true_iff, memN_false in K.
        apply In_del. split; [assumption|]. intro; subst. contradiction.
      * cbn [pa_step fst]. unfold pa_restart. destruct (pa_bump _ _). projs. rewrite filter_self. assumption.
      * cbn [pa_step fst]. unfold pa_restart. destruct (pa_bump _ _). projs. cbn [pa_keeps] in K.
        rewrite forallb_forall in K. apply filter_In. split; [assumption|]. apply K. assumption.
Qed.

Lemma first_pages_distinct_lemma : forall fx ops st tp, pa_jrun fx pa_init [] ops = Some (st, tp) -> NoDup tp.
Proof.
  intros fx ops st tp J.
  assert (R : pa_reach fx pa_init) by (exists [], []; reflexivity).
  apply (jrun_inv fx ops pa_init [] st tp PInv_init R (NoDup_nil N)) in J; [tauto|]. intros q [].
Qed.

(** the hypothesis of C10's [storage_disjoint] holds for the first pages the allocator hands to CREATE TABLE *)
Lemma storage_disjoint_discharged_lemma : forall fx jops st fp cops,
  pa_jrun fx pa_init [] jops = Some (st, fp :: pages_of_ops cops) ->
  NoDup (map snd (tabs (crun1 reload cops (bootstrap fp)))).
Proof.
  intros fx jops st fp cops J. apply storage_disjoint_lemma. apply (first_pages_distinct_lemma fx jops st _ J).
Qed.

(** * The current engine ([pa_now]): the callers' contract and the owned half of the image condition suffice *)

Lemma guard_now_spec_lemma : forall st o, pa_guard_all pa_now st o = pa_guard_now st o.
Proof.
  intros st o. unfold pa_guard_all, pa_guard_now, pa_now. f_equal.
  destruct o; cbn [pa_image_ok pa_owned_ok orb]; try reflexivity; apply andb_true_r.
Qed.

Lemma run_g_ext : forall fx g1 g2, (forall st o, g1 st o = g2 st o) ->
  forall ops st, pa_run_g fx g1 st ops = pa_run_g fx g2 st ops.
Proof.
  intros fx g1 g2 E. induction ops as [|o ops IH]; intro st; cbn [pa_run_g]; [reflexivity|].
  rewrite E. destruct (g2 st o); [|reflexivity]. destruct (pa_step fx st o) as [s1 out]. rewrite IH. reflexivity.
Qed.

Definition pa_reach_now (st : pa_state) : Prop :=
  exists ops outs, pa_run_g pa_now pa_guard_now pa_init ops = Some (st, outs).

Lemma reach_now_iff : forall st, pa_reach_now st <-> pa_reach pa_now st.
Proof.
  intro st. unfold pa_reach_now, pa_reach. split; intros (ops & outs & R); exists ops, outs.
  - rewrite (run_g_ext pa_now _ _ guard_now_spec_lemma). exact R.
  - rewrite <- (run_g_ext pa_now _ _ guard_now_spec_lemma). exact R.
Qed.

Lemma new_page_fresh_now_lemma : forall st o st' p, pa_reach_now st -> (o = ONew \/ o = ONewHeap) ->
  pa_client_ok st o = true -> pa_step pa_now st o = (st', PONew p) ->
  ~ In p (pa_inuse st) /\ ~ In p (pa_flagged st) /\ ~ In p (pa_pending st) /\ pa_inuse st' = p :: pa_inuse st.
Proof. intros st o st' p R. apply reach_now_iff in R. apply new_page_fresh_lemma. exact R. Qed.

Lemma inuse_distinct_now_lemma : forall st, pa_reach_now st -> NoDup (pa_inuse st).
Proof. intros st R. apply reach_now_iff in R. apply (inuse_distinct_lemma _ _ R). Qed.

Lemma reusable_ok_now_lemma : forall st, pa_reach_now st ->
  NoDup (pa_reusable st) /\ (forall p, In p (pa_reusable st) -> ~ In p (pa_inuse st))
  /\ (forall p, In p (pa_reusable st) -> ~ In p (pa_flagged st))
  /\ (forall p, In p (pa_reusable st) -> p < pa_next st)
  /\ (forall p, In p (pa_inuse st) -> p < pa_next st).
Proof.
  intros st R. apply reach_now_iff in R. pose proof (reusable_ok_lemma _ _ R) as (A & B & C).
  apply reach_inv in R. destruct R. auto 10.
Qed.

Lemma checkers_now_lemma : forall st, pa_reach_now st ->
  (match pa_reusable st with p :: _ => negb (memN p (pa_pending st)) | [] => true end = true -> pa_new_fresh st = true)
  /\ pa_inuse_nodup st = true /\ pa_reusable_ok st = true.
Proof. intros st R. apply reach_now_iff in R. apply (checkers_lemma _ _ R). Qed.

(** what the start-up establishes by itself, from ANY state, with ANY inputs: every id of the rebuilt reusable list is
    below the allocator's next id, and the list has no duplicates *)
Lemma restart_reusable_below_next_lemma : forall st kept surv order p,
  In p (pa_reusable (pa_restart pa_now st kept surv order)) -> p < pa_next (pa_restart pa_now st kept surv order).
Proof.
  intros st kept surv order p. unfold pa_restart, pa_now.
  pose proof (bump_ok (firstn kept (pa_log st)) (pa_fsize st)) as B.
  destruct (pa_bump (firstn kept (pa_log st)) (pa_fsize st)) as [nx fs]. cbn [fst snd] in B. projs.
  intro A. apply (now_next_ok _ nx fs p B A).
Qed.

Lemma restart_reusable_nodup_lemma : forall fx st kept surv order,
  NoDup (pa_reusable (pa_restart fx st kept surv order)).
Proof.
  intros fx st kept surv order. unfold pa_restart. destruct (pa_bump _ _). projs.
  destruct (pa_perm_b order (pa_lset (firstn kept (pa_log st)))) eqn:E.
  - apply (perm_b_spec _ _ (lset_NoDup _) E).
  - apply lset_NoDup.
Qed.

Lemma owned_ok_guard : forall st o, pa_client_ok st o = true -> pa_owned_ok st o = true -> pa_guard_all pa_now st o = true.
Proof. intros st o A B. rewrite guard_now_spec_lemma. unfold pa_guard_now. rewrite A, B. reflexivity. Qed.

Lemma clean_restart_now_lemma : forall st order st', pa_reach_now st ->
  pa_owned_ok st (OCleanRestart order) = true ->
  st' = fst (pa_step pa_now st (OCleanRestart order)) ->
  pa_reach_now st' /\ pa_inuse st' = pa_inuse st /\
  (forall p, In p (pa_reusable st) -> In p (pa_pending st) \/ In p (pa_reusable st')) /\
  (forall p, In p (pa_reusable st') -> ~ In p (pa_inuse st')) /\
  (forall p, In p (pa_reusable st') -> p < pa_next st').
Proof.
  intros st order st' R G E. apply reach_now_iff in R.
  assert (GI : pa_image_ok pa_now st (OCleanRestart order) = true).
  { cbn [pa_owned_ok] in G. cbn [pa_image_ok pa_now orb]. rewrite G. reflexivity. }
  pose proof (clean_restart_lemma pa_now st order st' R GI E) as (A & B & C & D).
  split; [apply reach_now_iff; exact A|]. split; [exact B|]. split; [exact C|]. split; [exact D|].
  subst st'. cbn [pa_step fst]. apply restart_reusable_below_next_lemma.
Qed.

Lemma crash_restart_now_lemma : forall st kept surv order st', pa_reach_now st ->
  pa_client_ok st (OCrashRestart kept surv order) = true ->
  pa_owned_ok st (OCrashRestart kept surv order) = true ->
  st' = fst (pa_step pa_now st (OCrashRestart kept surv order)) ->
  pa_reach_now st' /\ (forall p, In p (pa_inuse st') <-> In p (pa_inuse st) /\ In p surv) /\
  (forall p, In p (pa_reusable st') -> ~ In p (pa_inuse st')) /\
  (forall p, In p (pa_reusable st') -> p < pa_next st').
Proof.
  intros st kept surv order st' R Gc G E. apply reach_now_iff in R.
  assert (GI : pa_image_ok pa_now st (OCrashRestart kept surv order) = true).
  { cbn [pa_owned_ok] in G. cbn [pa_image_ok pa_now orb]. rewrite G. reflexivity. }
  pose proof (crash_restart_lemma pa_now st kept surv order st' R Gc GI E) as (A & B & C).
  split; [apply reach_now_iff; exact A|]. split; [exact B|]. split; [exact C|].
  subst st'. cbn [pa_step fst]. apply restart_reusable_below_next_lemma.
Qed.

(** the repair on the witness of the defect: the restart that was ill formed before is inside the hypotheses now, and
    NewPage returns 2, 3, 4 *)
Lemma witness_now_lemma :
  exists st outs, pa_run_g pa_now pa_guard_now pa_init witness_beyond_file = Some (st, outs) /\
    nth 11 outs POBad = PONew 2 /\ nth 12 outs POBad = PONew 3 /\ nth 13 outs POBad = PONew 4 /\
    pa_inuse st = [4; 3; 2; 1; 0].
Proof. vm_compute. do 2 eexists. repeat split. Qed.

(** the log race, in the terms of the current engine's hypotheses (and, same run, of the pre-fix start-up) *)
Lemma log_race_now_lemma :
  exists ops st outs,
    pa_run_g pa_now (fun st o => pa_client_ok_norace st o && pa_owned_ok st o) pa_init ops = Some (st, outs) /\
    pa_run_g pa_prefix (fun st o => pa_client_ok_norace st o && pa_image_ok pa_prefix st o) pa_init ops = Some (st, outs) /\
    ~ NoDup (pa_inuse st) /\ nth 6 outs POBad = PONew 1 /\ nth 9 outs POBad = PONew 1.
Proof.
  exists witness_log_race. vm_compute. do 2 eexists. split; [reflexivity|]. split; [reflexivity|].
  split; [|split; reflexivity].
  intro H. inversion H as [|x l Hx Hl]. apply Hx. left. reflexivity.
Qed.

(** the pre-fix start-up under the full image hypothesis ([_partial] form of the refuted statement) *)
Lemma prefix_partial_lemma : forall st, pa_reach pa_prefix st ->
  NoDup (pa_inuse st) /\ NoDup (pa_reusable st) /\ (forall p, In p (pa_reusable st) -> ~ In p (pa_inuse st)).
Proof.
  intros st R. pose proof (reusable_ok_lemma _ _ R) as (A & B & _). split; [apply (inuse_distinct_lemma _ _ R)|auto].
Qed.

Lemma first_pages_now_lemma : forall ops st tp, pa_jrun pa_now pa_init [] ops = Some (st, tp) -> NoDup tp.
Proof. intros ops st tp. apply first_pages_distinct_lemma. Qed.

Lemma storage_disjoint_now_lemma : forall jops st fp cops,
  pa_jrun pa_now pa_init [] jops = Some (st, fp :: pages_of_ops cops) ->
  NoDup (map snd (tabs (crun1 reload cops (bootstrap fp)))).
Proof. intros jops st fp cops. apply storage_disjoint_discharged_lemma. Qed.
