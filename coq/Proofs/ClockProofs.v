(** Proofs about the clock replacer model [Model/Clock.v] (lib/storage/buffer/clock_replacer.go over
    circular_list.go), for ALL operation sequences.

    Main result ([clock_step_sim]): on every reachable state the replacer behaves exactly like a FIFO queue of frame
    ids ([q_step]): Unpin of an absent frame appends it, Unpin of a present frame does nothing, Pin removes the
    frame wherever it is, Victim returns and removes the OLDEST member.  The hand is always on the head node, it never
    refers to a node that left the ring ([AUndef] is never answered), the reference bits are all set in every
    reachable state and therefore carry no information.  From the queue view: membership refinement of the set
    abstraction used by [Model/Pool.v] (field [repl]: [memN]/[++]/[remove1]), victim ∈ members, "none" iff empty,
    no duplicates, Size = cardinality, and the bound of the wait of a member: a frame at position i of the queue is
    returned by the (i+1)-th Victim call at the latest, whatever Unpin / Pin (of other frames) / Size calls come in
    between — Unpin calls cannot starve it, because insertion is at the tail.
    Last part: composition with [Model/Pool.v] — the pool model run with the victim PREDICTED by this model in
    place of the victim oracle is a legal run of the pool model (the oracle value is always a member), its [repl]
    field equals the replacer's queue after every operation, and the next victim is a frame with pin count 0.
    What is false of the code is recorded as [_refuted] + [_partial]: Unpin can panic (frame ids are not
    range-checked against the capacity), and there is no second chance. *)
From Coq Require Import List NArith ZArith Bool Arith FinFun Lia ZifyN ZifyNat ZifyBool.
From SDB Require Import Base.Assoc Model.Clock.
Import ListNotations.
Open Scope N_scope.

(* ------------------------------------------------------------------ association lists *)
Lemma ck_aget_aset : forall {A} (m : list (N * A)) k v k',
  aget (aset m k v) k' = if k =? k' then Some v else aget m k'.
Proof.
  induction m as [|[a b] m IH]; intros k v k'; cbn [aset aget].
  - reflexivity.
  - destruct (a =? k) eqn:E; cbn [aget].
    + apply N.eqb_eq in E; subst a. destruct (k =? k'); reflexivity.
    + rewrite IH. destruct (a =? k') eqn:E2; destruct (k =? k') eqn:E3; try reflexivity.
      apply N.eqb_eq in E2; apply N.eqb_eq in E3; apply N.eqb_neq in E; congruence.
Qed.

Lemma ck_aget_adel : forall {A} (m : list (N * A)) k k',
  aget (adel m k) k' = if k =? k' then None else aget m k'.
Proof.
  induction m as [|[a b] m IH]; intros k k'; cbn [adel aget].
  - destruct (k =? k'); reflexivity.
  - destruct (a =? k) eqn:E; cbn [aget].
    + rewrite IH. apply N.eqb_eq in E; subst a. destruct (k =? k'); reflexivity.
    + rewrite IH. destruct (a =? k') eqn:E2; destruct (k =? k') eqn:E3; try reflexivity.
      apply N.eqb_eq in E2; apply N.eqb_eq in E3; apply N.eqb_neq in E; congruence.
Qed.

Lemma ck_memN_In : forall x l, memN x l = true <-> In x l.
Proof.
  induction l as [|y l IH]; cbn [memN In].
  - split; [discriminate | tauto].
  - rewrite orb_true_iff, IH, N.eqb_eq. tauto.
Qed.

Lemma ck_memN_false : forall x l, memN x l = false <-> ~ In x l.
Proof.
  intros x l. rewrite <- ck_memN_In. destruct (memN x l); split; congruence.
Qed.

Lemma ck_remove1_notin : forall x l, ~ In x l -> remove1 x l = l.
Proof.
  induction l as [|y l IH]; cbn [remove1 In]; intros H; [reflexivity|].
  destruct (y =? x) eqn:E.
  - apply N.eqb_eq in E. tauto.
  - f_equal. apply IH. tauto.
Qed.

Lemma ck_remove1_In : forall x y l, In x (remove1 y l) -> In x l.
Proof.
  induction l as [|z l IH]; cbn [remove1 In]; [tauto|].
  destruct (z =? y); cbn [In]; tauto.
Qed.

Lemma ck_NoDup_snoc : forall {A} (l : list A) x, NoDup l -> ~ In x l -> NoDup (l ++ [x]).
Proof.
  induction l as [|y l IH]; intros x Hnd Hx; cbn [app].
  - constructor; [tauto | constructor].
  - inversion Hnd; subst. constructor.
    + rewrite in_app_iff. cbn [In]. intros [H | [H | []]]; [tauto|]. subst. apply Hx. left; reflexivity.
    + apply IH; [assumption|]. intros H; apply Hx; right; exact H.
Qed.

(* ------------------------------------------------------------------ ring helpers *)
(** the node the supportMap should hold for a key *)
Fixpoint key_id (k : N) (l : list cnode) : option N :=
  match l with
  | [] => None
  | x :: r => if cn_key x =? k then Some (cn_id x) else key_id k r
  end.

Lemma key_id_none : forall k l, key_id k l = None <-> ~ In k (map cn_key l).
Proof.
  induction l as [|x r IH]; cbn [key_id map In]; [tauto|].
  destruct (cn_key x =? k) eqn:E.
  - apply N.eqb_eq in E. split; [discriminate | tauto].
  - apply N.eqb_neq in E. rewrite IH. tauto.
Qed.

Lemma key_id_some : forall k l id, key_id k l = Some id -> In id (map cn_id l) /\ In k (map cn_key l).
Proof.
  induction l as [|x r IH]; cbn [key_id map In]; intros id H; [discriminate|].
  destruct (cn_key x =? k) eqn:E.
  - apply N.eqb_eq in E. inversion H; subst. tauto.
  - destruct (IH _ H). tauto.
Qed.

Lemma key_id_memN : forall k l, memN k (map cn_key l) = match key_id k l with Some _ => true | None => false end.
Proof.
  intros k l. destruct (key_id k l) eqn:K.
  - apply ck_memN_In. eapply key_id_some; eauto.
  - apply ck_memN_false. apply key_id_none; assumption.
Qed.

Lemma key_id_app : forall k l x,
  key_id k (l ++ [x]) = match key_id k l with
                        | Some i => Some i
                        | None => if cn_key x =? k then Some (cn_id x) else None
                        end.
Proof.
  induction l as [|y r IH]; intros x; cbn [app key_id]; [reflexivity|].
  destruct (cn_key y =? k); [reflexivity | apply IH].
Qed.

Lemma drop_id_in : forall id l x, In x (drop_id id l) -> In x l.
Proof.
  induction l as [|y r IH]; cbn [drop_id In]; [tauto|]. intros x.
  destruct (cn_id y =? id); cbn [In]; [tauto|]. intros [H | H]; [tauto | right; apply IH; exact H].
Qed.

Lemma drop_id_NoDup : forall (g : cnode -> N) id l, NoDup (map g l) -> NoDup (map g (drop_id id l)).
Proof.
  induction l as [|y r IH]; cbn [drop_id map]; intros H; [constructor|].
  inversion H; subst. destruct (cn_id y =? id); [assumption|].
  cbn [map]. constructor; [|apply IH; assumption].
  intros Hin. apply in_map_iff in Hin. destruct Hin as [z [Hz Hin]].
  apply drop_id_in in Hin. apply H2. rewrite <- Hz. apply in_map. exact Hin.
Qed.

Lemma drop_id_length : forall id l, In id (map cn_id l) -> S (length (drop_id id l)) = length l.
Proof.
  induction l as [|y r IH]; cbn [drop_id map In length]; [tauto|]. intros H.
  destruct (cn_id y =? id) eqn:E; [reflexivity|].
  apply N.eqb_neq in E. cbn [length]. f_equal. apply IH. tauto.
Qed.

Lemma drop_id_keys : forall f id l, NoDup (map cn_id l) -> key_id f l = Some id ->
  map cn_key (drop_id id l) = remove1 f (map cn_key l).
Proof.
  induction l as [|x r IH]; cbn [key_id drop_id map remove1]; intros Hnd K; [discriminate|].
  inversion Hnd; subst.
  destruct (cn_key x =? f) eqn:E.
  - inversion K; subst. rewrite N.eqb_refl. reflexivity.
  - destruct (key_id_some _ _ _ K) as [Hin _].
    assert (cn_id x =? id = false) as ->.
    { apply N.eqb_neq. intros Heq. subst. tauto. }
    cbn [map]. f_equal. apply IH; assumption.
Qed.

Lemma drop_id_key_id : forall f id l k, NoDup (map cn_id l) -> NoDup (map cn_key l) -> key_id f l = Some id ->
  key_id k (drop_id id l) = if f =? k then None else key_id k l.
Proof.
  induction l as [|x r IH]; cbn [key_id drop_id map]; intros k Hi Hk K; [discriminate|].
  inversion Hi; subst. inversion Hk; subst.
  destruct (cn_key x =? f) eqn:E.
  - inversion K; subst. rewrite N.eqb_refl. apply N.eqb_eq in E. subst f.
    destruct (cn_key x =? k) eqn:E2.
    + apply N.eqb_eq in E2. subst k. apply key_id_none. assumption.
    + reflexivity.
  - destruct (key_id_some _ _ _ K) as [Hin _].
    assert (cn_id x =? id = false) as ->.
    { apply N.eqb_neq. intros Heq. subst. tauto. }
    cbn [key_id]. rewrite IH by assumption.
    destruct (cn_key x =? k) eqn:E2; destruct (f =? k) eqn:E3; try reflexivity.
    apply N.eqb_eq in E2; apply N.eqb_eq in E3; apply N.eqb_neq in E; congruence.
Qed.

(* ------------------------------------------------------------------ the invariant *)
(** shape of the list, the counter and the map *)
Definition cinv0 (st : clock) : Prop :=
  NoDup (map cn_id (c_nodes st)) /\
  NoDup (map cn_key (c_nodes st)) /\
  (forall x, In x (c_nodes st) -> cn_id x < c_fresh st) /\
  c_size st = N.of_nat (length (c_nodes st)) /\
  c_size st <= c_cap st /\
  (forall k, aget (c_map st) k = key_id k (c_nodes st)).

(** the hand is on the head node *)
Definition hand_ok (st : clock) : Prop :=
  c_nodes st <> [] -> hand_target st = head_id (c_nodes st).

(** every reference bit is set *)
Definition refs_ok (st : clock) : Prop :=
  forall x, In x (c_nodes st) -> cn_ref x = true.

Definition cinv (st : clock) : Prop := cinv0 st /\ hand_ok st /\ refs_ok st.

Lemma cinv_init : forall cap, cinv (clock_init cap).
Proof.
  intros cap. unfold cinv, cinv0, hand_ok, refs_ok, clock_init; cbn.
  repeat split; try constructor; try tauto; try lia.
Qed.

(* ------------------------------------------------------------------ the queue the replacer implements *)
Definition q_step (cap : N) (q : list N) (o : clk_op) : list N * clk_ans :=
  match o with
  | CVictim => match q with [] => (q, ANone) | v :: r => (r, AVictim v) end
  | CPin f => (remove1 f q, AOk)
  | CUnpin f =>
      if memN f q then (q, AOk)
      else if N.of_nat (length q) =? cap then (q, AFull)
      else (q ++ [f], AOk)
  | CSize => (q, ASize (N.of_nat (length q)))
  end.

Fixpoint q_run (cap : N) (q : list N) (ops : list clk_op) : list N * list clk_ans :=
  match ops with
  | [] => (q, [])
  | o :: r =>
    let '(q1, a) := q_step cap q o in
    let '(q2, outs) := q_run cap q1 r in
    (q2, a :: outs)
  end.

(* ------------------------------------------------------------------ remove *)
Lemma cl_remove_spec : forall st f, cinv0 st ->
  cinv0 (cl_remove st f) /\
  c_hand (cl_remove st f) = c_hand st /\
  c_cap (cl_remove st f) = c_cap st /\
  c_nodes (cl_remove st f) =
    match key_id f (c_nodes st) with Some id => drop_id id (c_nodes st) | None => c_nodes st end.
Proof.
  intros st f (Hi & Hk & Hf & Hs & Hc & Hm).
  unfold cl_remove. rewrite Hm. destruct (key_id f (c_nodes st)) as [id|] eqn:K.
  2:{ repeat split; assumption. }
  destruct (key_id_some _ _ _ K) as [Hin _].
  pose proof (drop_id_length _ _ Hin) as Hlen.
  assert (Hnodes : (if c_size st =? 1 then [] else drop_id id (c_nodes st)) = drop_id id (c_nodes st)).
  { destruct (c_size st =? 1) eqn:E; [|reflexivity].
    apply N.eqb_eq in E. rewrite Hs in E.
    destruct (c_nodes st) as [|x [|y r]]; cbn [length] in E; try lia.
    cbn [key_id] in K. cbn [drop_id].
    destruct (cn_key x =? f); [|discriminate]. inversion K; subst. rewrite N.eqb_refl. reflexivity. }
  assert (Hst : (if c_size st =? 1
          then mkClock [] (c_size st - 1) (c_cap st) (adel (c_map st) f) (c_hand st) (c_fresh st)
          else mkClock (drop_id id (c_nodes st)) (c_size st - 1) (c_cap st) (adel (c_map st) f) (c_hand st) (c_fresh st))
          = mkClock (drop_id id (c_nodes st)) (c_size st - 1) (c_cap st) (adel (c_map st) f) (c_hand st) (c_fresh st)).
  { destruct (c_size st =? 1); [rewrite <- Hnodes|]; reflexivity. }
  rewrite Hst. unfold cinv0. cbn [c_nodes c_size c_cap c_map c_hand c_fresh].
  repeat split.
  - apply drop_id_NoDup; assumption.
  - apply drop_id_NoDup; assumption.
  - intros x Hx. apply Hf. eapply drop_id_in; eassumption.
  - lia.
  - lia.
  - intros k. rewrite ck_aget_adel, Hm. symmetry. apply drop_id_key_id; assumption.
Qed.

Lemma cinv0_nonempty : forall st, cinv0 st -> (c_size st =? 0) = false -> c_nodes st <> [].
Proof.
  intros st (_ & _ & _ & Hs & _) E. apply N.eqb_neq in E. intros Hn. rewrite Hn in Hs. cbn in Hs. lia.
Qed.

(* ------------------------------------------------------------------ the three calls *)
Lemma c_unpin_sim : forall st f st' a, cinv st -> c_unpin st f = (st', a) ->
  cinv st' /\ c_cap st' = c_cap st /\ q_step (c_cap st) (keys st) (CUnpin f) = (keys st', a).
Proof.
  intros st f st' a (H0 & Hh & Hr) Hstep.
  pose proof H0 as (Hi & Hk & Hf & Hs & Hc & Hm).
  unfold c_unpin in Hstep. cbn [q_step]. unfold keys. rewrite key_id_memN. rewrite Hm in Hstep.
  destruct (key_id f (c_nodes st)) eqn:K.
  - inversion Hstep; subst. split; [|split]; [repeat split; assumption | reflexivity | reflexivity].
  - unfold cl_insert in Hstep. rewrite map_length. rewrite <- Hs.
    destruct (c_size st =? c_cap st) eqn:Ecap.
    + inversion Hstep; subst. split; [|split]; [repeat split; assumption | reflexivity | reflexivity].
    + apply N.eqb_neq in Ecap. destruct (c_size st =? 0) eqn:E0.
      * apply N.eqb_eq in E0.
        assert (Hn : c_nodes st = []).
        { destruct (c_nodes st); [reflexivity|]. cbn [length] in Hs. lia. }
        cbn [c_size] in Hstep.
        assert (E1 : (c_size st + 1 =? 1) = true) by (apply N.eqb_eq; lia).
        rewrite E1 in Hstep. inversion Hstep; subst st' a. clear Hstep.
        unfold set_hand. cbn [c_nodes c_size c_cap c_map c_hand c_fresh].
        rewrite Hn. cbn [map app].
        split; [|split]; [|reflexivity|reflexivity].
        unfold cinv, cinv0, hand_ok, refs_ok, hand_target. cbn [c_nodes c_size c_cap c_map c_hand c_fresh map length In head_id].
        repeat split.
        -- constructor; [cbn; tauto | constructor].
        -- constructor; [cbn; tauto | constructor].
        -- intros x [Hx | []]. subst x. cbn [cn_id]. lia.
        -- lia.
        -- lia.
        -- intros k. rewrite ck_aget_aset, Hm, Hn. cbn [key_id cn_key cn_id]. reflexivity.
        -- intros x [Hx | []]. subst x. reflexivity.
      * apply N.eqb_neq in E0. rewrite Hm, K in Hstep. cbn [c_size] in Hstep.
        assert (E1 : (c_size st + 1 =? 1) = false) by (apply N.eqb_neq; lia).
        rewrite E1 in Hstep. inversion Hstep; subst st' a. clear Hstep.
        cbn [c_nodes c_size c_cap c_map c_hand c_fresh].
        rewrite map_app. cbn [map cn_key].
        split; [|split]; [|reflexivity|reflexivity].
        assert (Hne : c_nodes st <> []).
        { intros Hn. rewrite Hn in Hs. cbn in Hs. lia. }
        unfold cinv, cinv0, hand_ok, refs_ok, hand_target. cbn [c_nodes c_size c_cap c_map c_hand c_fresh].
        repeat split.
        -- rewrite map_app. cbn [map cn_id]. apply ck_NoDup_snoc; [assumption|].
           intros Hin. apply in_map_iff in Hin. destruct Hin as [x [Hx Hin]]. apply Hf in Hin. lia.
        -- rewrite map_app. cbn [map cn_key]. apply ck_NoDup_snoc; [assumption|]. apply key_id_none; assumption.
        -- intros x Hx. apply in_app_iff in Hx. destruct Hx as [Hx | [Hx | []]].
           ++ apply Hf in Hx. lia.
           ++ subst x. cbn [cn_id]. lia.
        -- rewrite app_length. cbn [length]. lia.
        -- lia.
        -- intros k. rewrite ck_aget_aset, key_id_app, Hm. cbn [cn_key cn_id].
           destruct (f =? k) eqn:E; [|destruct (key_id k (c_nodes st)); reflexivity].
           apply N.eqb_eq in E. subst k. rewrite K. reflexivity.
        -- intros _. specialize (Hh Hne). unfold hand_target in Hh.
           destruct (c_nodes st) as [|h r]; [congruence|]. cbn [app head_id] in *.
           destruct (c_hand st); exact Hh.
        -- intros x Hx. apply in_app_iff in Hx. destruct Hx as [Hx | [Hx | []]]; [apply Hr; assumption | subst x; reflexivity].
Qed.

Lemma remove_sim : forall st f id, cinv0 st -> key_id f (c_nodes st) = Some id ->
  (forall x, In x (drop_id id (c_nodes st)) -> cn_ref x = true) ->
  (drop_id id (c_nodes st) <> [] ->
     match c_hand st with HHead => head_id (drop_id id (c_nodes st)) | HNextOf t => Some t end
     = head_id (drop_id id (c_nodes st))) ->
  cinv (cl_remove st f) /\ c_cap (cl_remove st f) = c_cap st /\ keys (cl_remove st f) = remove1 f (keys st).
Proof.
  intros st f id H0 K Hr Hh.
  pose proof (cl_remove_spec st f H0) as (A & B & C & D).
  rewrite K in D.
  split; [|split].
  - split; [exact A|split].
    + unfold hand_ok, hand_target. rewrite B, D. exact Hh.
    + unfold refs_ok. rewrite D. exact Hr.
  - exact C.
  - unfold keys. rewrite D. apply drop_id_keys; [apply H0 | exact K].
Qed.

Lemma c_pin_sim : forall st f st' a, cinv st -> c_pin st f = (st', a) ->
  cinv st' /\ c_cap st' = c_cap st /\ q_step (c_cap st) (keys st) (CPin f) = (keys st', a).
Proof.
  intros st f st' a (H0 & Hh & Hr) Hstep.
  pose proof H0 as (Hi & Hk & Hf & Hs & Hc & Hm).
  unfold c_pin in Hstep. cbn [q_step]. rewrite Hm in Hstep.
  destruct (key_id f (c_nodes st)) as [id|] eqn:K.
  2:{ inversion Hstep; subst. unfold keys. rewrite ck_remove1_notin by (apply key_id_none; assumption).
      split; [|split]; [repeat split; assumption | reflexivity | reflexivity]. }
  assert (Hex : exists h r, c_nodes st = h :: r).
  { destruct (c_nodes st) as [|h r]; [discriminate | eauto]. }
  destruct Hex as (h & r & Hn).
  assert (Hne : c_nodes st <> []) by (rewrite Hn; discriminate).
  specialize (Hh Hne). rewrite Hh, Hn in Hstep. cbn [head_id] in Hstep.
  destruct (cn_id h =? id) eqn:E.
  - unfold ring_next in Hstep. cbn [next_from] in Hstep. rewrite E in Hstep.
    inversion Hstep; subst st' a; clear Hstep.
    set (hd := HNextOf (match r with y :: _ => cn_id y | [] => cn_id h end)).
    pose proof (remove_sim (set_hand st hd) f id H0) as R.
    change (c_nodes (set_hand st hd)) with (c_nodes st) in R.
    change (c_hand (set_hand st hd)) with hd in R.
    change (c_cap (set_hand st hd)) with (c_cap st) in R.
    change (keys (set_hand st hd)) with (keys st) in R.
    rewrite Hn in R. cbn [drop_id] in R. rewrite E in R.
    destruct R as (R1 & R2 & R3).
    + rewrite <- Hn. exact K.
    + intros x Hx. apply Hr. rewrite Hn. right. exact Hx.
    + intros Hr0. subst hd. destruct r; [congruence | reflexivity].
    + split; [exact R1 | split; [exact R2 | rewrite R3; reflexivity]].
  - inversion Hstep; subst st' a; clear Hstep.
    pose proof (remove_sim st f id H0) as R.
    rewrite Hn in R. cbn [drop_id] in R. rewrite E in R.
    destruct R as (R1 & R2 & R3).
    + rewrite <- Hn. exact K.
    + intros x Hx. apply Hr. rewrite Hn. destruct Hx as [Hx | Hx]; [left; exact Hx | right; eapply drop_id_in; exact Hx].
    + intros _. cbn [head_id]. unfold hand_target in Hh. rewrite Hn in Hh. cbn [head_id] in Hh. exact Hh.
    + split; [exact R1 | split; [exact R2 | rewrite R3; reflexivity]].
Qed.

Lemma c_victim_sim : forall st st' a, cinv st -> c_victim st = (st', a) ->
  cinv st' /\ c_cap st' = c_cap st /\ q_step (c_cap st) (keys st) CVictim = (keys st', a).
Proof.
  intros st st' a (H0 & Hh & Hr) Hstep.
  pose proof H0 as (Hi & Hk & Hf & Hs & Hc & Hm).
  unfold c_victim in Hstep. cbn [q_step].
  destruct (c_size st =? 0) eqn:E0.
  - inversion Hstep; subst st' a. apply N.eqb_eq in E0.
    assert (Hn : c_nodes st = []).
    { destruct (c_nodes st); [reflexivity|]. cbn [length] in Hs. lia. }
    unfold keys. rewrite Hn. cbn [map].
    split; [|split]; [repeat split; assumption | reflexivity | reflexivity].
  - pose proof (cinv0_nonempty _ H0 E0) as Hne. specialize (Hh Hne). rewrite Hh in Hstep.
    assert (Hex : exists h r, c_nodes st = h :: r).
    { destruct (c_nodes st) as [|h r]; [congruence | eauto]. }
    destruct Hex as (h & r & Hn).
    rewrite Hn in Hstep. cbn [head_id] in Hstep.
    set (nx := match r with y :: _ => cn_id y | [] => cn_id h end).
    set (h' := mkCNode (cn_id h) (cn_key h) false).
    set (st1 := set_hand (set_bit st (cn_id h) false) (HNextOf nx)).
    assert (Hn1 : c_nodes st1 = h' :: r).
    { unfold st1. cbn [set_hand set_bit c_nodes]. rewrite Hn. cbn [set_ref]. rewrite N.eqb_refl. reflexivity. }
    assert (Href : cn_ref h = true) by (apply Hr; rewrite Hn; left; reflexivity).
    assert (Hround1 : victim_loop 2 st (cn_id h) = victim_loop 1 st1 (cn_id h)).
    { cbn [victim_loop]. rewrite Hn. cbn [find_id]. rewrite N.eqb_refl.
      unfold ring_next. cbn [next_from]. rewrite N.eqb_refl. rewrite Href. fold nx. fold st1. reflexivity. }
    assert (Hround2 : victim_loop 1 st1 (cn_id h) = (cl_remove (set_hand st1 (HNextOf nx)) (cn_key h), AVictim (cn_key h))).
    { cbn [victim_loop]. rewrite Hn1. cbn [find_id]. change (cn_id h') with (cn_id h). rewrite N.eqb_refl.
      unfold ring_next. cbn [next_from]. change (cn_id h') with (cn_id h). rewrite N.eqb_refl.
      change (cn_ref h') with false. cbn iota. fold nx. reflexivity. }
    rewrite Hround1, Hround2 in Hstep. inversion Hstep; subst st' a; clear Hstep.
    assert (H01 : cinv0 (set_hand st1 (HNextOf nx))).
    { unfold cinv0. change (c_nodes (set_hand st1 (HNextOf nx))) with (c_nodes st1). rewrite Hn1.
      unfold st1. cbn [set_hand set_bit c_size c_cap c_map c_fresh].
      rewrite Hn in Hi, Hk, Hf, Hs, Hm.
      repeat split; try assumption.
      - intros x [Hx | Hx]; [subst x; apply (Hf h); left; reflexivity | apply Hf; right; exact Hx]. }
    pose proof (remove_sim (set_hand st1 (HNextOf nx)) (cn_key h) (cn_id h) H01) as R.
    change (c_nodes (set_hand st1 (HNextOf nx))) with (c_nodes st1) in R.
    change (c_hand (set_hand st1 (HNextOf nx))) with (HNextOf nx) in R.
    change (c_cap (set_hand st1 (HNextOf nx))) with (c_cap st) in R.
    change (keys (set_hand st1 (HNextOf nx))) with (map cn_key (c_nodes st1)) in R.
    rewrite Hn1 in R. cbn [drop_id key_id map remove1] in R. change (cn_id h') with (cn_id h) in R.
    change (cn_key h') with (cn_key h) in R. rewrite !N.eqb_refl in R.
    destruct R as (R1 & R2 & R3).
    + reflexivity.
    + intros x Hx. apply Hr. rewrite Hn. right. exact Hx.
    + intros Hr0. subst nx. destruct r; [congruence | reflexivity].
    + unfold keys at 1. rewrite Hn. cbn [map]. rewrite R3.
      split; [exact R1 | split; [exact R2 | reflexivity]].
Qed.

(* ------------------------------------------------------------------ one step, runs, reachability *)
Lemma clock_step_sim : forall st o st' a, cinv st -> clock_step st o = (st', a) ->
  cinv st' /\ c_cap st' = c_cap st /\ q_step (c_cap st) (keys st) o = (keys st', a).
Proof.
  intros st o st' a H Hstep. destruct o as [| f | f |]; cbn [clock_step] in Hstep.
  - apply c_victim_sim; assumption.
  - apply c_pin_sim; assumption.
  - apply c_unpin_sim; assumption.
  - inversion Hstep; subst st' a. split; [exact H | split; [reflexivity|]].
    cbn [q_step]. unfold keys. rewrite map_length.
    destruct H as ((_ & _ & _ & Hs & _) & _). rewrite Hs. reflexivity.
Qed.

Lemma clock_run_sim : forall ops st st' outs, cinv st -> clock_run st ops = (st', outs) ->
  cinv st' /\ c_cap st' = c_cap st /\ q_run (c_cap st) (keys st) ops = (keys st', outs).
Proof.
  induction ops as [|o r IH]; intros st st' outs H Hrun; cbn [clock_run q_run] in *.
  - inversion Hrun; subst. split; [exact H | split; reflexivity].
  - destruct (clock_step st o) as [st1 a] eqn:S1.
    destruct (clock_run st1 r) as [st2 outs2] eqn:R2.
    inversion Hrun; subst st' outs; clear Hrun.
    destruct (clock_step_sim _ _ _ _ H S1) as (H1 & C1 & Q1).
    destruct (IH _ _ _ H1 R2) as (H2 & C2 & Q2).
    rewrite Q1. rewrite C1 in Q2. rewrite Q2.
    split; [exact H2 | split; [congruence | reflexivity]].
Qed.

(** states any sequence of calls can reach from NewClockReplacer(cap) *)
Inductive creach : clock -> Prop :=
| creach_init : forall cap, creach (clock_init cap)
| creach_step : forall st o, creach st -> creach (fst (clock_step st o)).

Lemma creach_cinv : forall st, creach st -> cinv st.
Proof.
  induction 1 as [cap | st o _ IH].
  - apply cinv_init.
  - destruct (clock_step st o) as [st' a] eqn:S1. cbn [fst].
    apply (clock_step_sim _ _ _ _ IH S1).
Qed.

Lemma creach_run : forall ops st, creach st -> creach (fst (clock_run st ops)).
Proof.
  induction ops as [|o r IH]; intros st H; cbn [clock_run].
  - exact H.
  - pose proof (creach_step st o H) as H1.
    destruct (clock_step st o) as [st1 a]. cbn [fst] in H1.
    specialize (IH st1 H1). destruct (clock_run st1 r) as [st2 outs]. exact IH.
Qed.

Lemma creach_iff_run : forall st, creach st <-> exists cap ops, st = fst (clock_run (clock_init cap) ops).
Proof.
  intros st. split.
  - induction 1 as [cap | st o _ (cap & ops & IH)].
    + exists cap, []. reflexivity.
    + exists cap, (ops ++ [o]). subst st.
      assert (Happ : forall l s, fst (clock_run s (l ++ [o])) = fst (clock_step (fst (clock_run s l)) o)).
      { induction l as [|x l IHl]; intros s; cbn [app clock_run fst].
        - destruct (clock_step s o) as [s1 a1]. reflexivity.
        - destruct (clock_step s x) as [s1 a1]. specialize (IHl s1).
          destruct (clock_run s1 (l ++ [o])) as [s2 o2]. destruct (clock_run s1 l) as [s3 o3].
          cbn [fst] in *. exact IHl. }
      rewrite Happ. reflexivity.
  - intros (cap & ops & ->). apply creach_run. constructor.
Qed.

(* ------------------------------------------------------------------ results on reachable states *)
(** The replacer is a FIFO queue. *)
Lemma clock_step_refines_queue_lemma : forall st o st' a, creach st -> clock_step st o = (st', a) ->
  q_step (c_cap st) (keys st) o = (keys st', a).
Proof. intros st o st' a H S1. apply (clock_step_sim _ _ _ _ (creach_cinv _ H) S1). Qed.

Lemma clock_run_refines_queue_lemma : forall cap ops st outs, clock_run (clock_init cap) ops = (st, outs) ->
  q_run cap [] ops = (keys st, outs).
Proof.
  intros cap ops st outs Hrun.
  destruct (clock_run_sim _ _ _ _ (cinv_init cap) Hrun) as (_ & _ & Q). exact Q.
Qed.

Lemma clock_run_from_refines_queue_lemma : forall st ops st' outs, creach st -> clock_run st ops = (st', outs) ->
  q_run (c_cap st) (keys st) ops = (keys st', outs).
Proof.
  intros st ops st' outs H Hrun.
  destruct (clock_run_sim _ _ _ _ (creach_cinv _ H) Hrun) as (_ & _ & Q). exact Q.
Qed.

(** (a) membership refinement, in the vocabulary of Model/Pool.v's [repl] field *)
Definition repl_after (l : list N) (o : clk_op) (a : clk_ans) : list N :=
  match o, a with
  | CUnpin f, AOk => if memN f l then l else l ++ [f]
  | CPin f, _ => remove1 f l
  | CVictim, AVictim v => remove1 v l
  | _, _ => l
  end.

Lemma membership_refinement_lemma : forall st o st' a, creach st -> clock_step st o = (st', a) ->
  keys st' = repl_after (keys st) o a.
Proof.
  intros st o st' a H S1. pose proof (clock_step_refines_queue_lemma _ _ _ _ H S1) as Q.
  destruct o as [| f | f |]; cbn [q_step] in Q.
  - destruct (keys st) as [|v r]; inversion Q; subst; cbn [repl_after remove1]; [reflexivity|].
    rewrite N.eqb_refl. reflexivity.
  - inversion Q; subst. reflexivity.
  - cbn [repl_after]. destruct (memN f (keys st)) eqn:M.
    + inversion Q; subst. reflexivity.
    + destruct (N.of_nat (length (keys st)) =? c_cap st); inversion Q; subst; reflexivity.
  - inversion Q; subst. reflexivity.
Qed.

(** (b) *)
Lemma victim_is_member_lemma : forall st st' v, creach st -> clock_step st CVictim = (st', AVictim v) ->
  In v (keys st) /\ keys st = v :: keys st' /\ ~ In v (keys st').
Proof.
  intros st st' v H S1. pose proof (clock_step_refines_queue_lemma _ _ _ _ H S1) as Q.
  cbn [q_step] in Q. destruct (keys st) as [|w r] eqn:Hk; inversion Q; subst.
  split; [left; reflexivity | split; [reflexivity|]].
  destruct (creach_cinv _ H) as ((_ & Hnd & _) & _). fold (keys st) in Hnd. rewrite Hk in Hnd.
  inversion Hnd; assumption.
Qed.

(** (c) *)
Lemma victim_none_iff_empty_lemma : forall st st' a, creach st -> clock_step st CVictim = (st', a) ->
  (a = ANone <-> keys st = []) /\ (a = ANone -> st' = st) /\ (keys st <> [] -> exists v, a = AVictim v).
Proof.
  intros st st' a H S1. pose proof (clock_step_refines_queue_lemma _ _ _ _ H S1) as Q.
  cbn [q_step] in Q. split; [|split].
  - destruct (keys st) as [|w r]; inversion Q; subst; split; intros; congruence.
  - intros ->. cbn [clock_step] in S1. unfold c_victim in S1.
    destruct (c_size st =? 0) eqn:E0; [inversion S1; reflexivity|].
    exfalso. pose proof (cinv0_nonempty _ (proj1 (creach_cinv _ H)) E0) as Hne.
    unfold keys in Q. destruct (c_nodes st); [congruence|]. cbn [map] in Q. inversion Q.
  - intros Hne. destruct (keys st) as [|w r]; [congruence|]. inversion Q; subst. eauto.
Qed.

(** (d) *)
Lemma size_is_cardinality_lemma : forall st, creach st ->
  NoDup (keys st) /\ c_size st = N.of_nat (length (keys st)) /\
  clock_step st CSize = (st, ASize (N.of_nat (length (keys st)))) /\
  c_size st <= c_cap st.
Proof.
  intros st H. destruct (creach_cinv _ H) as ((Hi & Hk & Hf & Hs & Hc & Hm) & _).
  unfold keys. rewrite map_length. repeat split; try assumption.
  cbn [clock_step]. rewrite Hs. reflexivity.
Qed.

(** the model never leaves the Go code's defined behaviour; the hand is on the head; all bits are set *)
Lemma never_undef_lemma : forall st o st' a, creach st -> clock_step st o = (st', a) -> a <> AUndef.
Proof.
  intros st o st' a H S1. pose proof (clock_step_refines_queue_lemma _ _ _ _ H S1) as Q.
  destruct o as [| f | f |]; cbn [q_step] in Q.
  - destruct (keys st); inversion Q; discriminate.
  - inversion Q; discriminate.
  - destruct (memN f (keys st)); [inversion Q; discriminate|].
    destruct (N.of_nat (length (keys st)) =? c_cap st); inversion Q; discriminate.
  - inversion Q; discriminate.
Qed.

Lemma hand_on_head_lemma : forall st, creach st -> c_nodes st <> [] ->
  hand_target st = head_id (c_nodes st) /\
  snd (clock_dump st) = Some (option_map cn_key (hd_error (c_nodes st))).
Proof.
  intros st H Hne. destruct (creach_cinv _ H) as (_ & Hh & _). specialize (Hh Hne).
  split; [exact Hh|]. unfold clock_dump. cbn [snd]. rewrite Hh.
  destruct (c_nodes st) as [|h r]; [congruence|]. cbn [head_id find_id hd_error option_map].
  rewrite N.eqb_refl. reflexivity.
Qed.

Lemma ref_bits_always_set_lemma : forall st x, creach st -> In x (c_nodes st) -> cn_ref x = true.
Proof. intros st x H. destruct (creach_cinv _ H) as (_ & _ & Hr). apply Hr. Qed.

(* ------------------------------------------------------------------ (e) how long a member waits *)
Fixpoint index_of (f : N) (l : list N) : option nat :=
  match l with
  | [] => None
  | x :: r => if x =? f then Some O else option_map S (index_of f r)
  end.

Fixpoint nvictims (ops : list clk_op) : nat :=
  match ops with
  | [] => O
  | CVictim :: r => S (nvictims r)
  | _ :: r => nvictims r
  end.

Lemma index_of_In : forall f l, In f l -> exists i, index_of f l = Some i /\ (i < length l)%nat.
Proof.
  induction l as [|x r IH]; cbn [In index_of length]; [tauto|]. intros H.
  destruct (x =? f) eqn:E.
  - exists O. split; [reflexivity | lia].
  - apply N.eqb_neq in E. destruct H as [H | H]; [congruence|].
    destruct (IH H) as (i & Hi & Hl). exists (S i). rewrite Hi. split; [reflexivity | lia].
Qed.

Lemma index_of_Some_In : forall f l i, index_of f l = Some i -> In f l.
Proof.
  induction l as [|x r IH]; cbn [In index_of]; intros i H; [discriminate|].
  destruct (x =? f) eqn:E.
  - apply N.eqb_eq in E. tauto.
  - destruct (index_of f r) eqn:I; [|discriminate]. right. eapply IH. reflexivity.
Qed.

Lemma index_of_app : forall f l g i, index_of f l = Some i -> index_of f (l ++ [g]) = Some i.
Proof.
  induction l as [|x r IH]; cbn [app index_of]; intros g i H; [discriminate|].
  destruct (x =? f); [exact H|].
  destruct (index_of f r) eqn:I; [|discriminate]. rewrite (IH g n eq_refl). exact H.
Qed.

Lemma index_of_remove1 : forall f g l i, g <> f -> index_of f l = Some i ->
  exists j, index_of f (remove1 g l) = Some j /\ (j <= i)%nat.
Proof.
  induction l as [|x r IH]; cbn [remove1 index_of]; intros i Hg H; [discriminate|].
  destruct (x =? f) eqn:E.
  - inversion H; subst. apply N.eqb_eq in E. subst x.
    assert (f =? g = false) as -> by (apply N.eqb_neq; congruence).
    cbn [index_of]. rewrite N.eqb_refl. exists O. split; [reflexivity | lia].
  - destruct (index_of f r) as [i'|] eqn:I; [|discriminate]. cbn [option_map] in H. inversion H; subst i.
    destruct (x =? g).
    + exists i'. split; [exact I | lia].
    + cbn [index_of]. rewrite E. destruct (IH i' Hg eq_refl) as (j & Hj & Hle).
      rewrite Hj. exists (S j). split; [reflexivity | lia].
Qed.

(** one step of the queue: the member is returned by this very call (it was first), or it moves towards the
    front — by one position when the call is a Victim *)
Lemma q_wait_step : forall cap q o q' a f i, index_of f q = Some i -> o <> CPin f -> q_step cap q o = (q', a) ->
  (o = CVictim /\ i = O /\ a = AVictim f) \/
  (a <> AVictim f /\ exists j, index_of f q' = Some j /\ (j <= i)%nat /\ (o = CVictim -> S j = i)).
Proof.
  intros cap q o q' a f i Hi Ho Hs. destruct o as [| g | g |]; cbn [q_step] in Hs.
  - destruct q as [|v r]; [discriminate|]. inversion Hs; subst q' a. cbn [index_of] in Hi.
    destruct (v =? f) eqn:E.
    + apply N.eqb_eq in E. subst v. inversion Hi; subst. left. auto.
    + right. apply N.eqb_neq in E. split; [congruence|].
      destruct (index_of f r) as [j|]; [|discriminate]. inversion Hi; subst.
      exists j. split; [reflexivity | split; [lia | reflexivity]].
  - inversion Hs; subst q' a. right. split; [discriminate|].
    assert (Hg : g <> f) by congruence.
    destruct (index_of_remove1 f g q i Hg Hi) as (j & Hj & Hle).
    exists j. split; [exact Hj | split; [exact Hle | discriminate]].
  - right. destruct (memN g q).
    + inversion Hs; subst. split; [discriminate|]. exists i. split; [exact Hi | split; [lia | discriminate]].
    + destruct (N.of_nat (length q) =? cap); inversion Hs; subst; (split; [discriminate|]); exists i.
      * split; [exact Hi | split; [lia | discriminate]].
      * split; [apply index_of_app; exact Hi | split; [lia | discriminate]].
  - inversion Hs; subst. right. split; [discriminate|]. exists i. split; [exact Hi | split; [lia | discriminate]].
Qed.

Lemma q_wait : forall ops cap q q' outs f i, index_of f q = Some i -> ~ In (CPin f) ops ->
  q_run cap q ops = (q', outs) ->
  In (AVictim f) outs \/ (exists j, index_of f q' = Some j /\ (j + nvictims ops <= i)%nat).
Proof.
  induction ops as [|o r IH]; intros cap q q' outs f i Hi Hp Hrun; cbn [q_run] in Hrun.
  - inversion Hrun; subst. right. exists i. cbn [nvictims]. split; [exact Hi | lia].
  - destruct (q_step cap q o) as [q1 a] eqn:S1. destruct (q_run cap q1 r) as [q2 outs2] eqn:R2.
    inversion Hrun; subst q' outs; clear Hrun.
    assert (Ho : o <> CPin f) by (intros ->; apply Hp; left; reflexivity).
    assert (Hr : ~ In (CPin f) r) by (intros X; apply Hp; right; exact X).
    destruct (q_wait_step _ _ _ _ _ _ _ Hi Ho S1) as [(-> & -> & ->) | (Hna & j & Hj & Hle & Hv)].
    + left. left. reflexivity.
    + destruct (IH _ _ _ _ _ _ Hj Hr R2) as [Hin | (j2 & Hj2 & Hle2)].
      * left. right. exact Hin.
      * right. exists j2. split; [exact Hj2|].
        destruct o; cbn [nvictims]; try lia; specialize (Hv eq_refl); lia.
Qed.

(** A member at position i of the queue that is not pinned is returned once i+1 Victim calls have been made,
    whatever other calls are interleaved. *)
Lemma victim_within_position_lemma : forall st ops st' outs f i, creach st ->
  index_of f (keys st) = Some i -> ~ In (CPin f) ops -> clock_run st ops = (st', outs) ->
  (i < nvictims ops)%nat -> In (AVictim f) outs.
Proof.
  intros st ops st' outs f i H Hi Hp Hrun Hn.
  pose proof (clock_run_from_refines_queue_lemma _ _ _ _ H Hrun) as Q.
  destruct (q_wait _ _ _ _ _ _ _ Hi Hp Q) as [Hin | (j & _ & Hle)]; [exact Hin | lia].
Qed.

(** ... hence after at most Size Victim calls (not 2 * Size: there is no second chance) *)
Lemma victim_within_size_lemma : forall st ops st' outs f, creach st ->
  In f (keys st) -> ~ In (CPin f) ops -> clock_run st ops = (st', outs) ->
  c_size st <= N.of_nat (nvictims ops) -> In (AVictim f) outs.
Proof.
  intros st ops st' outs f H Hin Hp Hrun Hn.
  destruct (index_of_In _ _ Hin) as (i & Hi & Hl).
  destruct (size_is_cardinality_lemma _ H) as (_ & Hs & _).
  eapply victim_within_position_lemma; eauto. lia.
Qed.

(** while it waits it stays a member and only moves towards the front *)
Lemma waiting_member_advances_lemma : forall st ops st' outs f i, creach st ->
  index_of f (keys st) = Some i -> ~ In (CPin f) ops -> clock_run st ops = (st', outs) ->
  ~ In (AVictim f) outs -> exists j, index_of f (keys st') = Some j /\ (j + nvictims ops <= i)%nat.
Proof.
  intros st ops st' outs f i H Hi Hp Hrun Hn.
  pose proof (clock_run_from_refines_queue_lemma _ _ _ _ H Hrun) as Q.
  destruct (q_wait _ _ _ _ _ _ _ Hi Hp Q) as [Hin | R]; [tauto | exact R].
Qed.

(** the victim SEQUENCE: n Victim calls in a row return the first n members in queue order, then "none" *)
Lemma q_victims : forall n cap q,
  q_run cap q (repeat CVictim n) = (skipn n q, map AVictim (firstn n q) ++ repeat ANone (n - length q)).
Proof.
  induction n as [|n IH]; intros cap q; cbn [repeat q_run].
  - reflexivity.
  - destruct q as [|v r]; cbn [q_step].
    + rewrite IH. destruct n; reflexivity.
    + rewrite IH. reflexivity.
Qed.

Lemma victim_run_lemma : forall st n, creach st ->
  snd (clock_run st (repeat CVictim n)) =
    map AVictim (firstn n (keys st)) ++ repeat ANone (n - length (keys st)) /\
  keys (fst (clock_run st (repeat CVictim n))) = skipn n (keys st).
Proof.
  intros st n H. destruct (clock_run st (repeat CVictim n)) as [st' outs] eqn:R.
  pose proof (clock_run_from_refines_queue_lemma _ _ _ _ H R) as Q.
  rewrite q_victims in Q. inversion Q. cbn [fst snd]. split; congruence.
Qed.

(* ------------------------------------------------------------------ (f) what is false of the code *)
(** pigeonhole: distinct numbers below [cap] *)
Lemma nodup_bounded_length : forall (l : list N) cap, NoDup l -> (forall x, In x l -> x < cap) ->
  N.of_nat (length l) <= cap.
Proof.
  intros l cap Hnd Hb.
  assert (Hincl : incl (map N.to_nat l) (seq 0 (N.to_nat cap))).
  { intros y Hy. apply in_map_iff in Hy. destruct Hy as (x & <- & Hx). apply in_seq. specialize (Hb _ Hx). lia. }
  assert (Hnd' : NoDup (map N.to_nat l)).
  { apply FinFun.Injective_map_NoDup; [|exact Hnd]. intros a b. apply N2Nat.inj. }
  pose proof (NoDup_incl_length Hnd' Hincl) as Hlen. rewrite map_length, seq_length in Hlen. lia.
Qed.

Definition q_inv (cap : N) (q : list N) : Prop := NoDup q /\ forall x, In x q -> x < cap.

Lemma remove1_NoDup : forall x l, NoDup l -> NoDup (remove1 x l).
Proof.
  induction l as [|y l IH]; cbn [remove1]; intros H; [constructor|]. inversion H; subst.
  destruct (y =? x); [assumption|]. constructor; [|apply IH; assumption].
  intros Hin. apply ck_remove1_In in Hin. tauto.
Qed.

Lemma q_inv_step : forall cap q o q' a, q_inv cap q -> (forall f, o = CUnpin f -> f < cap) ->
  q_step cap q o = (q', a) -> q_inv cap q' /\ a <> AFull.
Proof.
  intros cap q o q' a (Hnd & Hb) Ho Hs. destruct o as [| f | f |]; cbn [q_step] in Hs.
  - destruct q as [|v r]; inversion Hs; subst; (split; [|discriminate]).
    + split; assumption.
    + inversion Hnd; subst. split; [assumption|]. intros x Hx. apply Hb. right. exact Hx.
  - inversion Hs; subst. split; [|discriminate]. split; [apply remove1_NoDup; assumption|].
    intros x Hx. apply Hb. eapply ck_remove1_In. exact Hx.
  - specialize (Ho f eq_refl). destruct (memN f q) eqn:M.
    + inversion Hs; subst. split; [split; assumption | discriminate].
    + apply ck_memN_false in M.
      assert (Hlen : N.of_nat (length (f :: q)) <= cap).
      { apply nodup_bounded_length; [constructor; assumption|]. intros x [<- | Hx]; [exact Ho | apply Hb; exact Hx]. }
      cbn [length] in Hlen.
      destruct (N.of_nat (length q) =? cap) eqn:E; [apply N.eqb_eq in E; lia|].
      inversion Hs; subst. split; [|discriminate]. split.
      * apply ck_NoDup_snoc; assumption.
      * intros x Hx. apply in_app_iff in Hx. destruct Hx as [Hx | [<- | []]]; [apply Hb; exact Hx | exact Ho].
  - inversion Hs; subst. split; [split; assumption | discriminate].
Qed.

Lemma q_run_never_full : forall ops cap q q' outs, q_inv cap q -> (forall f, In (CUnpin f) ops -> f < cap) ->
  q_run cap q ops = (q', outs) -> ~ In AFull outs.
Proof.
  induction ops as [|o r IH]; intros cap q q' outs Hq Ho Hrun; cbn [q_run] in Hrun.
  - inversion Hrun; subst. intros [].
  - destruct (q_step cap q o) as [q1 a] eqn:S1. destruct (q_run cap q1 r) as [q2 outs2] eqn:R2.
    inversion Hrun; subst q' outs; clear Hrun.
    assert (Ho1 : forall f, o = CUnpin f -> f < cap) by (intros f ->; apply Ho; left; reflexivity).
    destruct (q_inv_step _ _ _ _ _ Hq Ho1 S1) as (Hq1 & Hna).
    intros [Hin | Hin]; [congruence|].
    eapply IH; [exact Hq1 | | exact R2 | exact Hin]. intros f Hf. apply Ho. right. exact Hf.
Qed.

(** "Unpin never panics" is FALSE without a bound on the frame ids: the list has [capacity] slots, the frame id is
    not range-checked *)
Definition unpin_never_panics_stmt : Prop :=
  forall cap ops, ~ In AFull (snd (clock_run (clock_init cap) ops)).

Lemma unpin_never_panics_refuted_lemma : ~ unpin_never_panics_stmt.
Proof.
  intros H. apply (H 1 [CUnpin 0; CUnpin 1]). vm_compute. right. left. reflexivity.
Qed.

(** ... and true when the frame ids are below the pool size (what BufferPoolManager passes) *)
Lemma unpin_never_panics_partial_lemma : forall cap ops, (forall f, In (CUnpin f) ops -> f < cap) ->
  ~ In AFull (snd (clock_run (clock_init cap) ops)).
Proof.
  intros cap ops Ho. destruct (clock_run (clock_init cap) ops) as [st outs] eqn:R. cbn [snd].
  pose proof (clock_run_refines_queue_lemma _ _ _ _ R) as Q.
  eapply q_run_never_full; [|exact Ho|exact Q]. split; [constructor | intros x []].
Qed.

(** The textbook clock gives a SECOND CHANCE: a frame whose reference bit is set is passed over (its bit cleared)
    while some other member has a clear bit.  Stated over a class [P] of states: *)
Definition second_chance_stmt (P : clock -> Prop) : Prop :=
  forall st st' v x y, P st -> clock_step st CVictim = (st', AVictim v) ->
    In x (c_nodes st) -> cn_key x = v -> cn_ref x = true ->
    In y (c_nodes st) -> cn_ref y = false -> False.

(** a well-formed ring (frames 7 and 8, hand on 7) in which 7 has its bit set and 8 has it clear *)
Definition sc_state : clock :=
  mkClock [mkCNode 0 7 true; mkCNode 1 8 false] 2 2 [(7, 0); (8, 1)] HHead 2.

Lemma sc_state_wf : cinv0 sc_state /\ hand_ok sc_state.
Proof.
  unfold cinv0, hand_ok, sc_state. cbn [c_nodes c_size c_cap c_map c_hand c_fresh map cn_id cn_key length].
  repeat split.
  - repeat constructor; cbn; intuition discriminate.
  - repeat constructor; cbn; intuition discriminate.
  - intros x [<- | [<- | []]]; cbn; lia.
  - lia.
Qed.

(** FALSE for the code on well-formed rings: the loop of Victim never advances [currentNode], the node under the
    hand is returned whatever the bits say *)
Lemma second_chance_refuted_lemma : ~ second_chance_stmt (fun st => cinv0 st /\ hand_ok st).
Proof.
  intros H.
  apply (H sc_state (fst (clock_step sc_state CVictim)) 7 (mkCNode 0 7 true) (mkCNode 1 8 false) sc_state_wf).
  - vm_compute. reflexivity.
  - left. reflexivity.
  - reflexivity.
  - reflexivity.
  - right. left. reflexivity.
  - reflexivity.
Qed.

(** ... and (vacuously) true on the states the replacer can reach: no reachable state has a clear bit *)
Lemma second_chance_partial_lemma : second_chance_stmt creach.
Proof.
  intros st st' v x y H _ _ _ _ Hy Hf. rewrite (ref_bits_always_set_lemma _ _ H Hy) in Hf. discriminate.
Qed.

(* ------------------------------------------------------------------ composition with Model/Pool.v *)
From SDB Require Import Model.Pool Model.PoolClient Proofs.PoolLemmas Proofs.PoolProofs.

(** The calls BufferPoolManager makes on its replacer while it executes [o] in state [b]
    (buffer_pool_manager.go: getFrameID -> Victim when the free list is empty; FetchPage of a resident page -> Pin;
    UnpinPage -> Unpin when the pin count reaches 0; DeallocatePage(noWait) of an unpinned resident page -> Pin). *)
Definition victim_calls (b : pool) : list clk_op :=
  match freel b with [] => [CVictim] | _ => [] end.

Definition pool_replacer_calls (b : pool) (o : bop) : list clk_op :=
  match o with
  | BNew _ => victim_calls b
  | BFetch p _ =>
      match aget (ptable b) p with
      | Some f => match fr_at b f with Some _ => [CPin f] | None => [] end
      | None => victim_calls b
      end
  | BUnpin p _ =>
      match aget (ptable b) p with
      | Some f =>
          match fr_at b f with
          | Some fr => if (f_pin fr - 1 <? 0)%Z then [] else if (f_pin fr - 1 <=? 0)%Z then [CUnpin f] else []
          | None => []
          end
      | None => []
      end
  | BDealloc p true =>
      match aget (ptable b) p with
      | Some f => match fr_at b f with Some fr => if (f_pin fr =? 0)%Z then [CPin f] else [] | None => [] end
      | None => []
      end
  | _ => []
  end.

(** Pool.v takes the victim as an input; here it is the one the replacer model predicts *)
Definition predicted_victim (q : list N) : N := hd 0 q.

Definition with_victim (o : bop) (v : N) : bop :=
  match o with
  | BNew _ => BNew v
  | BFetch p _ => BFetch p v
  | _ => o
  end.

Lemma take_frame_sync : forall n b, SInv n b None ->
  match take_frame b (predicted_victim (repl b)) with
  | inl (Some (f, b1)) => repl b1 = fst (q_run (N.of_nat n) (repl b) (victim_calls b))
  | inl None => repl b = fst (q_run (N.of_nat n) (repl b) (victim_calls b))
  | inr _ => False
  end.
Proof.
  intros n b S. unfold take_frame, victim_calls, predicted_victim. destruct (freel b) as [|f rest].
  2:{ cbn. reflexivity. }
  destruct (repl b) as [|v r] eqn:R.
  - cbn. reflexivity.
  - cbn [hd memN]. rewrite N.eqb_refl. cbn [orb negb remove1]. rewrite N.eqb_refl.
    assert (Hin : In v (repl b)) by (rewrite R; left; reflexivity).
    apply (s_repl _ _ _ S) in Hin. destruct Hin as (fr & Hfr & Hpin).
    rewrite fr_at_fat, Hfr, Hpin. cbn [Z.eqb negb].
    unfold disk_write. destruct (negb (f_dealloc fr) && f_dirty fr); cbn; reflexivity.
Qed.

Lemma b_flush_repl : forall b p, repl (fst (b_flush b p)) = repl b.
Proof.
  intros b p. unfold b_flush. destruct (aget (ptable b) p); [|reflexivity].
  destruct (fr_at b n); [|reflexivity]. unfold disk_write. reflexivity.
Qed.

Lemma flush_fold_repl : forall l b, repl (fold_left (fun b p => fst (b_flush b p)) l b) = repl b.
Proof.
  induction l as [|p l IH]; intros b; cbn [fold_left]; [reflexivity|]. rewrite IH. apply b_flush_repl.
Qed.

(** One pool operation against the queue: with the predicted victim the oracle value is always legal, the pool's
    [repl] field after the operation is the queue after the replacer calls, and no Unpin finds the list full. *)
Lemma pool_queue_step : forall n b o b' out q' outs, SInv n b None ->
  bstep b (with_victim o (predicted_victim (repl b))) = (b', out) ->
  q_run (N.of_nat n) (repl b) (pool_replacer_calls b o) = (q', outs) ->
  repl b' = q' /\ ~ In AFull outs /\ take_frame b (predicted_victim (repl b)) <> inr tt.
Proof.
  intros n b o b' out q' outs S Hb Hq.
  pose proof (take_frame_sync n b S) as HTF.
  assert (Hleg : take_frame b (predicted_victim (repl b)) <> inr tt).
  { intros E. rewrite E in HTF. exact HTF. }
  assert (Hvc : forall q1 o1, q_run (N.of_nat n) (repl b) (victim_calls b) = (q1, o1) -> ~ In AFull o1).
  { unfold victim_calls. intros q1 o1. destruct (freel b); cbn [q_run q_step].
    - destruct (repl b); intros E; inversion E; subst; cbn; intuition discriminate.
    - intros E; inversion E; subst. intros []. }
  unfold bstep in Hb. rewrite (s_lock _ _ _ S) in Hb.
  destruct o as [v | p v | p v | p d | p | | p nw | p]; cbn [with_victim pool_replacer_calls] in *.
  - (* NewPage *)
    unfold b_new in Hb. split; [|split; [eapply Hvc; exact Hq | exact Hleg]].
    destruct (take_frame b (predicted_victim (repl b))) as [[[f b1]|]|[]]; [| |tauto].
    + rewrite Hq in HTF. cbn [fst] in HTF.
      destruct (reusable b1); inversion Hb; subst b' out; cbn [repl]; exact HTF.
    + rewrite Hq in HTF. inversion Hb; subst b' out. cbn [lock repl]. exact HTF.
  - (* FetchPage *)
    unfold b_fetch in Hb. destruct (aget (ptable b) p) as [f|].
    + destruct (fr_at b f) as [fr|]; cbn [q_run q_step] in Hq; inversion Hq; subst; inversion Hb; subst; cbn [repl].
      * split; [reflexivity | split; [cbn; intuition discriminate | exact Hleg]].
      * split; [reflexivity | split; [intros [] | exact Hleg]].
    + split; [|split; [eapply Hvc; exact Hq | exact Hleg]].
      destruct (take_frame b (predicted_victim (repl b))) as [[[f b1]|]|[]]; [| |tauto].
      * rewrite Hq in HTF. cbn [fst] in HTF.
        destruct (disk_read b1 p); inversion Hb; subst b' out; cbn [repl]; exact HTF.
      * rewrite Hq in HTF. inversion Hb; subst b' out. cbn [lock repl]. exact HTF.
  - (* write *)
    cbn [q_run] in Hq. inversion Hq; subst. split; [|split; [intros [] | exact Hleg]].
    unfold b_write in Hb. destruct (aget (ptable b) p) as [f|]; [|inversion Hb; reflexivity].
    destruct (fr_at b f); inversion Hb; reflexivity.
  - (* UnpinPage *)
    unfold b_unpin in Hb. destruct (aget (ptable b) p) as [f|].
    2:{ cbn [q_run] in Hq. inversion Hq; inversion Hb; subst. split; [reflexivity | split; [intros [] | exact Hleg]]. }
    destruct (fr_at b f) as [fr|] eqn:Hfr.
    2:{ cbn [q_run] in Hq. inversion Hq; inversion Hb; subst. split; [reflexivity | split; [intros [] | exact Hleg]]. }
    destruct (f_pin fr - 1 <? 0)%Z.
    { cbn [q_run] in Hq. inversion Hq; inversion Hb; subst. cbn [lock upd_frame repl].
      split; [reflexivity | split; [intros [] | exact Hleg]]. }
    destruct (f_pin fr - 1 <=? 0)%Z.
    2:{ cbn [q_run] in Hq. inversion Hq; inversion Hb; subst. cbn [upd_frame repl].
      split; [reflexivity | split; [intros [] | exact Hleg]]. }
    inversion Hb; subst b' out; clear Hb. cbn [upd_frame repl].
    cbn [q_run q_step] in Hq. destruct (memN f (repl b)) eqn:M.
    { inversion Hq; subst. split; [reflexivity | split; [cbn; intuition discriminate | exact Hleg]]. }
    assert (Hlen : N.of_nat (length (f :: repl b)) <= N.of_nat n).
    { apply nodup_bounded_length.
      - constructor; [apply ck_memN_false; exact M | apply (s_repl_nd _ _ _ S)].
      - assert (Hlt : forall g fr', fat (frames b) g = Some fr' -> g < N.of_nat n).
        { intros g fr' Hg. apply fat_lt in Hg. rewrite (s_len _ _ _ S) in Hg. lia. }
        intros x [<- | Hx].
        + rewrite fr_at_fat in Hfr. eapply Hlt; exact Hfr.
        + apply (s_repl _ _ _ S) in Hx. destruct Hx as (fr' & Hx & _). eapply Hlt; exact Hx. }
    cbn [length] in Hlen.
    destruct (N.of_nat (length (repl b)) =? N.of_nat n) eqn:E; [apply N.eqb_eq in E; lia|].
    inversion Hq; subst. split; [reflexivity | split; [cbn; intuition discriminate | exact Hleg]].
  - (* FlushPage *)
    cbn [q_run] in Hq. inversion Hq; subst. split; [|split; [intros [] | exact Hleg]].
    replace b' with (fst (b_flush b p)) by (rewrite Hb; reflexivity). apply b_flush_repl.
  - (* FlushAllPages *)
    cbn [q_run] in Hq. inversion Hq; subst. split; [|split; [intros [] | exact Hleg]].
    unfold b_flush_all in Hb. inversion Hb; subst. apply flush_fold_repl.
  - (* DeallocatePage *)
    unfold b_dealloc in Hb. destruct nw; cbn [negb] in Hb.
    2:{ cbn [q_run] in Hq. inversion Hq; inversion Hb; subst. split; [reflexivity | split; [intros [] | exact Hleg]]. }
    destruct (aget (ptable b) p) as [f|].
    2:{ cbn [q_run] in Hq. inversion Hq; inversion Hb; subst. split; [reflexivity | split; [intros [] | exact Hleg]]. }
    destruct (fr_at b f) as [fr|].
    2:{ cbn [q_run] in Hq. inversion Hq; inversion Hb; subst. split; [reflexivity | split; [intros [] | exact Hleg]]. }
    destruct (f_pin fr =? 0)%Z; cbn [q_run q_step] in Hq; inversion Hq; inversion Hb; subst; cbn [upd_frame repl].
    + split; [reflexivity | split; [cbn; intuition discriminate | exact Hleg]].
    + split; [reflexivity | split; [intros [] | exact Hleg]].
  - (* SetIsDeallocated *)
    cbn [q_run] in Hq. inversion Hq; subst. split; [|split; [intros [] | exact Hleg]].
    unfold b_mark_dealloc in Hb. destruct (aget (ptable b) p) as [f|]; [|inversion Hb; reflexivity].
    destruct (fr_at b f); inversion Hb; reflexivity.
Qed.

(** The same against the replacer model: pool state [b] and replacer state [ck] in step *)
Lemma pool_clock_step_lemma : forall n b o b' out ck ck' outs,
  SInv n b None -> creach ck -> c_cap ck = N.of_nat n -> repl b = keys ck ->
  bstep b (with_victim o (predicted_victim (keys ck))) = (b', out) ->
  clock_run ck (pool_replacer_calls b o) = (ck', outs) ->
  repl b' = keys ck' /\ creach ck' /\ c_cap ck' = N.of_nat n /\
  ~ In AFull outs /\ ~ In AUndef outs /\
  take_frame b (predicted_victim (keys ck)) <> inr tt.
Proof.
  intros n b o b' out ck ck' outs S H Hcap Hsync Hb Hrun.
  destruct (clock_run_sim _ _ _ _ (creach_cinv _ H) Hrun) as (_ & Hcap' & Q).
  rewrite Hcap, <- Hsync in Q. rewrite <- Hsync in Hb.
  destruct (pool_queue_step _ _ _ _ _ _ _ S Hb Q) as (A & B & C).
  split; [exact A|]. split; [|split; [congruence|split; [exact B|split; [|rewrite <- Hsync; exact C]]]].
  - replace ck' with (fst (clock_run ck (pool_replacer_calls b o))) by (rewrite Hrun; reflexivity).
    apply creach_run. exact H.
  - clear - Q. revert Q. generalize (pool_replacer_calls b o) (repl b) (keys ck') outs. clear.
    induction l as [|x r IH]; intros q q' outs Q; cbn [q_run] in Q.
    + inversion Q; subst. intros [].
    + destruct (q_step (N.of_nat n) q x) as [q1 a] eqn:S1.
      destruct (q_run (N.of_nat n) q1 r) as [q2 o2] eqn:R2. inversion Q; subst.
      intros [Hin | Hin]; [|eapply IH; eauto].
      subst a. destruct x as [| f | f |]; cbn [q_step] in S1.
      * destruct q; inversion S1.
      * inversion S1.
      * destruct (memN f q); [inversion S1|]. destruct (N.of_nat (length q) =? N.of_nat n); inversion S1.
      * inversion S1.
Qed.

(** The whole pool, run with the replacer model in place of the victim oracle, under the client contract of
    Model/PoolClient.v. *)
Definition pcc_step (n : nat) (s : pool * client * clock) (o : bop) : option (pool * client * clock * bout) :=
  let '(b, cl, ck) := s in
  match cstep n (b, cl) (with_victim o (predicted_victim (keys ck))) with
  | None => None
  | Some (b', cl', out) => Some (b', cl', fst (clock_run ck (pool_replacer_calls b o)), out)
  end.

Fixpoint pcc_run (n : nat) (s : pool * client * clock) (ops : list bop) : option (pool * client * clock * list bout) :=
  match ops with
  | [] => Some (s, [])
  | o :: rest =>
      match pcc_step n s o with
      | None => None
      | Some (b', cl', ck', out) =>
          match pcc_run n (b', cl', ck') rest with
          | None => None
          | Some (s'', outs) => Some (s'', out :: outs)
          end
      end
  end.

Lemma cstep_bstep : forall n b cl o b1 cl1 out, cstep n (b, cl) o = Some (b1, cl1, out) -> bstep b o = (b1, out).
Proof.
  intros n b cl o b1 cl1 out H. unfold cstep in H. destruct (bstep b o) as [b2 out2].
  destruct out2; try discriminate; destruct o;
    repeat match type of H with context [if ?c then _ else _] => destruct c end;
    try discriminate; inversion H; reflexivity.
Qed.

Lemma pool_replacer_calls_victim : forall b o v, pool_replacer_calls b (with_victim o v) = pool_replacer_calls b o.
Proof. intros b o v. destruct o; reflexivity. Qed.

Lemma pool_with_clock_run_from : forall n ops b cl ck b' cl' ck' outs,
  PInv n b cl -> creach ck -> c_cap ck = N.of_nat n -> repl b = keys ck ->
  pcc_run n (b, cl, ck) ops = Some (b', cl', ck', outs) ->
  PInv n b' cl' /\ creach ck' /\ c_cap ck' = N.of_nat n /\ repl b' = keys ck' /\
  exists ops', length ops' = length ops /\ crun n (b, cl) ops' = Some (b', cl', outs).
Proof.
  induction ops as [|o rest IH]; intros b cl ck b' cl' ck' outs HP Hr Hcap Hsync Hrun; cbn [pcc_run] in Hrun.
  - inversion Hrun; subst. split; [assumption|]. split; [assumption|]. split; [assumption|]. split; [assumption|].
    exists []. split; reflexivity.
  - destruct (pcc_step n (b, cl, ck) o) as [[[[b1 cl1] ck1] out]|] eqn:S1; [|discriminate].
    destruct (pcc_run n (b1, cl1, ck1) rest) as [[[[b2 cl2] ck2] outs2]|] eqn:R2; [|discriminate].
    inversion Hrun; subst b2 cl2 ck2 outs; clear Hrun.
    unfold pcc_step in S1.
    destruct (cstep n (b, cl) (with_victim o (predicted_victim (keys ck)))) as [[[b3 cl3] out3]|] eqn:C1; [|discriminate].
    inversion S1; subst b3 cl3 out3; clear S1.
    pose proof (step_ok _ _ _ _ _ _ _ HP C1) as (HP1 & _).
    pose proof (cstep_bstep _ _ _ _ _ _ _ C1) as B1.
    destruct (clock_run ck (pool_replacer_calls b o)) as [ckx outsx] eqn:K1. cbn [fst] in H2. subst ckx.
    destruct HP as [S R].
    destruct (pool_clock_step_lemma _ _ _ _ _ _ _ _ S Hr Hcap Hsync B1 K1) as (A1 & A2 & A3 & _).
    destruct (IH _ _ _ _ _ _ _ HP1 A2 A3 A1 R2) as (I1 & I2 & I3 & I4 & ops' & Hl & I5).
    split; [assumption|]. split; [assumption|]. split; [assumption|]. split; [assumption|].
    exists (with_victim o (predicted_victim (keys ck)) :: ops'). split; [cbn [length]; congruence|].
    cbn [crun]. rewrite C1, I5. reflexivity.
Qed.


Lemma pool_with_clock_lemma : forall n ops b cl ck outs,
  pcc_run n (binit n, cinit, clock_init (N.of_nat n)) ops = Some (b, cl, ck, outs) ->
  repl b = keys ck /\ creach ck /\ c_cap ck = N.of_nat n /\
  exists ops', length ops' = length ops /\ crun n (binit n, cinit) ops' = Some (b, cl, outs).
Proof.
  intros n ops b cl ck outs Hrun.
  destruct (pool_with_clock_run_from n ops _ _ _ _ _ _ _ (PInv_init n) (creach_init _) eq_refl eq_refl Hrun)
    as (_ & A & B & C & D).
  split; [exact C | split; [exact A | split; [exact B | exact D]]].
Qed.

(** C13: the frame the replacer hands out next holds a page nobody has pinned *)
Lemma predicted_victim_unpinned_lemma : forall n ops b cl ck outs,
  pcc_run n (binit n, cinit, clock_init (N.of_nat n)) ops = Some (b, cl, ck, outs) ->
  forall ck' v, clock_step ck CVictim = (ck', AVictim v) ->
  v = predicted_victim (keys ck) /\
  exists fr, fr_at b v = Some fr /\ f_pin fr = 0%Z /\ pins_of cl (f_pid fr) = 0.
Proof.
  intros n ops b cl ck outs Hrun ck' v Hv.
  destruct (pool_with_clock_run_from n ops _ _ _ _ _ _ _ (PInv_init n) (creach_init _) eq_refl eq_refl Hrun)
    as ((S & R) & A & _ & C & _).
  destruct (victim_is_member_lemma _ _ _ A Hv) as (Hin & Hk & _).
  split; [rewrite Hk; reflexivity|].
  rewrite <- C in Hin. apply (s_repl _ _ _ S) in Hin. destruct Hin as (fr & Hfr & Hpin).
  exists fr. rewrite fr_at_fat. split; [exact Hfr | split; [exact Hpin|]].
  pose proof (r_pin _ _ R _ _ Hfr) as Hp. rewrite Hpin in Hp. lia.
Qed.
