(** C07 — whenever no transaction is in progress every index agrees with its
    table.  Objects: Model/Engine.v; [ereachable], [IdxInv], [quiescent],
    [row_entries] in Proofs/EngineProofs.v.  Statements only. *)
From Coq Require Import List NArith ZArith Bool Permutation.
From SDB Require Import Base.Assoc Model.Lock Model.SqlRef Model.Engine Proofs.EngineProofs.
Import ListNotations.
Open Scope N_scope.

(** The inductive invariant, valid in EVERY reachable state (transactions in
    progress included): for every index (column c) and every pair (k, rid) the
    number of entries (k, rid) is
      0                               if rid is the old location of a pending
                                      relocating update (entry already moved),
      [column c of the row = k]       if rid is in the heap - delete-marked rows
                                      included: their entries stay until commit,
      0                               if rid is free.
    Pending inserts and updates already have their entries. *)
Theorem idx_inv_reachable : forall s, ereachable s ->
  forall c es, In (c, es) (idx s) -> forall k r,
    (MovedW (agetl (wsets s)) r -> cnt (k, r) es = 0%nat) /\
    (~ MovedW (agetl (wsets s)) r ->
     cnt (k, r) es = match aget (rows s) r with
                     | Some (tp, _) => if veqb (ecol c tp) k then 1%nat else 0%nat
                     | None => 0%nat
                     end).
Proof. exact idx_inv_reachable_lemma. Qed.
Print Assumptions idx_inv_reachable.

(** No transaction in progress (every write set empty), after any mix of
    committed and aborted work: each index is, as a multiset, exactly the list
    of (column value, rid) of the rows of the table. *)
Theorem index_agrees_when_quiescent : forall s, ereachable s -> quiescent s ->
  forall c es, In (c, es) (idx s) ->
    Permutation es (map (fun e => (ecol c (fst (snd e)), fst e)) (rows s)).
Proof. exact index_agrees_when_quiescent_lemma. Qed.
Print Assumptions index_agrees_when_quiescent.

(** Hence a lookup returns exactly the rids of the rows whose column holds the
    key: the same multiset of rids as a scan of the heap ... *)
Theorem quiescent_lookup_is_heap_scan : forall s c k, ereachable s -> quiescent s ->
  In c (icols s) -> Permutation (ilookup s c k) (heap_rids s c k).
Proof. exact quiescent_lookup_lemma. Qed.
Print Assumptions quiescent_lookup_is_heap_scan.

(** ... i.e. rid is returned iff it holds a row with that key. *)
Theorem quiescent_lookup_exact : forall s c k rid, ereachable s -> quiescent s ->
  In c (icols s) ->
  (In rid (ilookup s c k) <->
   exists tp mk, aget (rows s) rid = Some (tp, mk) /\ ecol c tp = k).
Proof. exact quiescent_lookup_exact_lemma. Qed.
Print Assumptions quiescent_lookup_exact.

(** The heap list never holds a rid twice. *)
Theorem heap_rids_unique : forall s, ereachable s -> NoDup (map fst (rows s)).
Proof. exact rows_nodup_reach. Qed.
Print Assumptions heap_rids_unique.

(** Non-vacuity: interleaved committed and aborted work of three transactions
    (insert, key-changing update, relocation, delete, a conflict abort), then
    nobody in progress; equal keys in several rows. *)
Definition c07_state : estate :=
  erun [OpInsert 1 10 [VInt 5; VInt 1]; OpInsert 1 11 [VInt 5; VInt 2];
        OpInsert 2 12 [VInt 6; VInt 2]; OpCommit 1;
        OpUpdate 3 10 [VInt 6; VInt 1]; OpUpdateMove 2 12 13 [VInt 5; VInt 3];
        OpDelete 3 11; OpRead 2 10; OpCommit 3;
        OpInsert 1 14 [VInt 9; VInt 9]; OpUpdateMove 1 10 15 [VInt 5; VInt 4];
        OpAbort 1; OpInsert 2 16 [VInt 6; VInt 2]; OpCommit 2]
       (einit [0%nat; 1%nat]).

Example c07_nonvacuous :
  wsets c07_state = [] /\
  map fst (rows c07_state) = [10; 16] /\
  ilookup c07_state 0 (VInt 6) = [10; 16] /\ heap_rids c07_state 0 (VInt 6) = [10; 16] /\
  ilookup c07_state 0 (VInt 5) = [] /\ ilookup c07_state 1 (VInt 2) = [16] /\
  nth 7 (eouts [OpInsert 1 10 [VInt 5; VInt 1]; OpInsert 1 11 [VInt 5; VInt 2];
        OpInsert 2 12 [VInt 6; VInt 2]; OpCommit 1;
        OpUpdate 3 10 [VInt 6; VInt 1]; OpUpdateMove 2 12 13 [VInt 5; VInt 3];
        OpDelete 3 11; OpRead 2 10] (einit [0%nat; 1%nat])) EOk = EAborted.
Proof. vm_compute. repeat split. Qed.
