(** C10 — tables keep their identity across restarts; two tables never share
    identifiers or storage; tables created after a restart do not disturb
    earlier ones.  For ALL sequences of CREATE TABLE and restarts.
    Schema and row contents of each table are compared on the real engine by
    the correspondence run (and are C01/C09's subject for crash/clean restarts).
    Statements only. *)
From Coq Require Import List NArith Bool.
From SDB Require Import Model.Catalog Proofs.CatalogProofs.
Import ListNotations.
Open Scope N_scope.

Theorem oids_unique : forall fp ops, NoDup (map fst (tabs (crun1 reload ops (bootstrap fp)))).
Proof. exact oids_unique_lemma. Qed.
Print Assumptions oids_unique.

Theorem create_after_reload_fresh : forall fp ops fp',
  let c := crun1 reload ops (bootstrap fp) in
  ~ In (next_id c) (map fst (tabs c)) /\
  tabs (cstep1 reload c (Create fp')) = tabs c ++ [(next_id c, fp')].
Proof. exact create_fresh_lemma. Qed.
Print Assumptions create_after_reload_fresh.

(** No step ever removes or changes an existing table entry. *)
Theorem existing_tables_undisturbed : forall ops c, exists ext, tabs (crun1 reload ops c) = tabs c ++ ext.
Proof. exact tabs_monotone. Qed.
Print Assumptions existing_tables_undisturbed.

(** Two tables never share their first page, given that the pool hands out
    page ids that are not in use (C13 new_id_fresh). *)
Theorem storage_disjoint : forall fp ops, NoDup (fp :: pages_of_ops ops) ->
  NoDup (map snd (tabs (crun1 reload ops (bootstrap fp)))).
Proof. exact storage_disjoint_lemma. Qed.
Print Assumptions storage_disjoint.

(** The reload of the pinned tree before the fix (numbering restarted at 1) violated it:
    machine-checked witness, replayed on the implementation as corpus case F-CAT-OID. *)
Theorem reload_hardcoded_refuted :
  exists ops, ~ NoDup (map fst (tabs (crun1 reload_hardcoded ops (bootstrap 0)))).
Proof. exact reload_hardcoded_refuted_lemma. Qed.
Print Assumptions reload_hardcoded_refuted.

Example c10_nonvacuous :
  map fst (tabs (crun1 reload [Create 2; Create 3; Restart; Create 4; Restart; Restart; Create 9] (bootstrap 0)))
  = [0; 1; 2; 3; 4].
Proof. vm_compute. reflexivity. Qed.
