(** C05 — the committed transactions of any concurrent execution are
    equivalent, on the rows they read and wrote, to a serial order.

    Model: Model/Sched.v — strict two-phase row locking over the lock manager of
    Model/Lock.v (C16), no-wait conflict handling (a denied request aborts the
    requester), in-place updates with before-image rollback.  Every statement
    below is about EVERY schedule: any number of transactions, rows and
    operations, any interleaving, any initial store [st0].

      trace st0 ops : the event trace  (EvRead t x v | EvWrite t x v |
                      EvCommit t | EvAbort t), positions = [nth_error]
      final st0 ops : the engine state after the schedule
      committed tr  : committed transactions in the order of their EvCommit
      progs tr      : for each of them, in that order, its own events
      sout / sstore : trace / final store of running those programs one after
                      the other on [st0] (reads are re-read from the store)

    The serial witness is the COMMIT ORDER.  Items are row ids: a row that
    newly starts to match a predicate (a phantom) is not an item of this model,
    so the documented phantom exception is outside the statements by
    construction.  Stores are compared row by row ([sget]); rows still locked by
    an unfinished writer are excluded from the final-store comparison (their
    transaction is neither committed nor rolled back yet).
    Statements only; the proofs are in Proofs/SchedProofs.v. *)
From Coq Require Import List NArith Bool.
From SDB Require Import Base.Assoc Model.Lock Model.Sched Proofs.SchedProofs.
Import ListNotations.
Open Scope N_scope.

(** (a) Every read/write happens under the transaction's lock (S or X for a
    read, X for a write: [locked_for]) and the lock is kept until the
    transaction's EvCommit/EvAbort.  Position form: the access is at position
    [i]; for every later trace position [k] before which the transaction has
    not ended there is a point of the schedule whose trace is the first [k]
    events, and at EVERY such point the lock is held. *)
Theorem access_under_lock : forall st0 ops i k e,
  nth_error (trace st0 ops) i = Some e -> (i < k <= length (trace st0 ops))%nat ->
  (forall m f, (m < k)%nat -> nth_error (trace st0 ops) m = Some f ->
               ~ is_finish f (ev_txn e)) ->
  (exists opsA opsB, ops = opsA ++ opsB /\ trace st0 opsA = firstn k (trace st0 ops)) /\
  (forall opsA opsB, ops = opsA ++ opsB -> trace st0 opsA = firstn k (trace st0 ops) ->
     locked_for (locks (final st0 opsA)) e).
Proof. exact access_under_lock_lemma. Qed.
Print Assumptions access_under_lock.

(** State form of (a), at every prefix [ops1] of every schedule: the trace only
    grows; an event of a transaction that has not ended is covered by its lock;
    a transaction that has ended holds nothing. *)
Theorem access_under_lock_at_every_point : forall st0 ops1 ops2 e,
  In e (trace st0 ops1) ->
  (exists tl, trace st0 (ops1 ++ ops2) = trace st0 ops1 ++ tl) /\
  (~ finished (trace st0 ops1) (ev_txn e) -> locked_for (locks (final st0 ops1)) e) /\
  (finished (trace st0 ops1) (ev_txn e) ->
     forall x, ~ holds (locks (final st0 ops1)) (ev_txn e) x).
Proof. exact access_under_lock_state. Qed.
Print Assumptions access_under_lock_at_every_point.

(** A transaction that has ended emits nothing more (so it has exactly one
    end event, and every event of it precedes that). *)
Theorem nothing_after_the_end : forall st0 ops k j f e,
  nth_error (trace st0 ops) k = Some f -> is_finish f (ev_txn e) ->
  nth_error (trace st0 ops) j = Some e -> (j <= k)%nat.
Proof. exact no_event_after_finish. Qed.
Print Assumptions nothing_after_the_end.

(** (b) Two conflicting events (same row, at least one a write) of different
    transactions: the first transaction has ended strictly between them. *)
Theorem conflicts_follow_commit_order : forall st0 ops i j e1 e2,
  nth_error (trace st0 ops) i = Some e1 -> nth_error (trace st0 ops) j = Some e2 ->
  (i < j)%nat -> ev_txn e1 <> ev_txn e2 -> conflict e1 e2 ->
  exists k f, (i < k < j)%nat /\ nth_error (trace st0 ops) k = Some f /\
              is_finish f (ev_txn e1).
Proof. exact conflicts_lemma. Qed.
Print Assumptions conflicts_follow_commit_order.

(** ... hence, if both commit, the first one's commit lies between the two
    events and before the second one's commit. *)
Theorem conflicting_commits_in_order : forall st0 ops i j c1 c2 e1 e2,
  nth_error (trace st0 ops) i = Some e1 -> nth_error (trace st0 ops) j = Some e2 ->
  (i < j)%nat -> ev_txn e1 <> ev_txn e2 -> conflict e1 e2 ->
  nth_error (trace st0 ops) c1 = Some (EvCommit (ev_txn e1)) ->
  nth_error (trace st0 ops) c2 = Some (EvCommit (ev_txn e2)) ->
  (i < c1 < j)%nat /\ (j < c2)%nat.
Proof. exact commit_order_lemma. Qed.
Print Assumptions conflicting_commits_in_order.

(** (c) Serial execution in commit order.  Running the committed
    transactions' programs one after the other on the initial store (aborted
    transactions skipped entirely) reproduces, transaction by transaction, the
    very events of the real trace — in particular every value read by a
    committed transaction — and ends in the real final store on every row that
    is not still being written by an unfinished transaction. *)
Theorem serial_in_commit_order : forall st0 ops,
  sout st0 (progs (trace st0 ops)) = concat (progs (trace st0 ops)) /\
  (forall t x v, In (EvRead t x v) (trace st0 ops) -> In t (committed (trace st0 ops)) ->
     In (EvRead t x v) (sout st0 (progs (trace st0 ops)))) /\
  (forall x, (forall t v, In (EvWrite t x v) (trace st0 ops) -> finished (trace st0 ops) t) ->
     sget (store (final st0 ops)) x = sget (sstore st0 (progs (trace st0 ops))) x).
Proof. exact serial_lemma. Qed.
Print Assumptions serial_in_commit_order.

(** The replayed programs are the schedule's own operations: the events of a
    committed transaction are, in order, its operations in the schedule up to
    and including its commit request ([ev_op] forgets the value a read
    returned); it has no abort event. *)
Theorem committed_program : forall st0 ops t, In t (committed (trace st0 ops)) ->
  map ev_op (proj t (trace st0 ops)) = upto_end (oproj t ops) /\
  ~ In (EvAbort t) (trace st0 ops).
Proof. exact committed_program_lemma. Qed.
Print Assumptions committed_program.

(** At every point of every execution, a transaction that has not ended has
    seen exactly what it would have seen running alone on the serial store of
    the transactions committed so far. *)
Theorem own_view : forall st0 ops t, ~ finished (trace st0 ops) t ->
  rout (sstore st0 (progs (trace st0 ops))) (proj t (trace st0 ops)) =
  proj t (trace st0 ops).
Proof. exact own_view_lemma. Qed.
Print Assumptions own_view.

(** (d) The property's own words. *)

(** No lost update: [t1] and [t2] both read [x], both write [x], both commit —
    then they did not both read the old version: one of the two reads comes
    after the other transaction's commit. *)
Theorem no_lost_update : forall st0 ops t1 t2 x a1 b1 a2 b2 r1 w1 r2 w2 c1 c2,
  t1 <> t2 ->
  nth_error (trace st0 ops) r1 = Some (EvRead t1 x a1) ->
  nth_error (trace st0 ops) w1 = Some (EvWrite t1 x b1) ->
  nth_error (trace st0 ops) r2 = Some (EvRead t2 x a2) ->
  nth_error (trace st0 ops) w2 = Some (EvWrite t2 x b2) ->
  nth_error (trace st0 ops) c1 = Some (EvCommit t1) ->
  nth_error (trace st0 ops) c2 = Some (EvCommit t2) ->
  (c2 < r1)%nat \/ (c1 < r2)%nat.
Proof. exact no_lost_update_lemma. Qed.
Print Assumptions no_lost_update.

(** Repeatable read (any transaction, committed or not): two reads of the same
    row with no own write of it in between return the same value. *)
Theorem repeatable_read : forall st0 ops i j t x v1 v2,
  nth_error (trace st0 ops) i = Some (EvRead t x v1) ->
  nth_error (trace st0 ops) j = Some (EvRead t x v2) -> (i < j)%nat ->
  (forall k w, (i < k < j)%nat -> nth_error (trace st0 ops) k <> Some (EvWrite t x w)) ->
  v1 = v2.
Proof. exact repeatable_read_lemma. Qed.
Print Assumptions repeatable_read.

(** No dirty read (any transaction): a value read is the initial value, or the
    reader's own earlier write, or was written by a transaction that committed
    before the read. *)
Theorem no_dirty_read : forall st0 ops j t x v,
  nth_error (trace st0 ops) j = Some (EvRead t x v) ->
  v = sget st0 x \/
  (exists i, (i < j)%nat /\ nth_error (trace st0 ops) i = Some (EvWrite t x v)) \/
  (exists t' i c, (i < c < j)%nat /\
     nth_error (trace st0 ops) i = Some (EvWrite t' x v) /\
     nth_error (trace st0 ops) c = Some (EvCommit t')).
Proof. exact no_dirty_read_lemma. Qed.
Print Assumptions no_dirty_read.

(** No write skew between rows both transactions read: [t1] reads [x] and
    writes [y], [t2] reads [y] and writes [x], both commit — then they did not
    both read the old versions: one of the two reads comes after the other
    transaction's commit. *)
Theorem no_write_skew_on_read_rows :
  forall st0 ops t1 t2 x y a1 b1 a2 b2 r1 w1 r2 w2 c1 c2,
  t1 <> t2 ->
  nth_error (trace st0 ops) r1 = Some (EvRead t1 x a1) ->
  nth_error (trace st0 ops) w1 = Some (EvWrite t1 y b1) ->
  nth_error (trace st0 ops) r2 = Some (EvRead t2 y a2) ->
  nth_error (trace st0 ops) w2 = Some (EvWrite t2 x b2) ->
  nth_error (trace st0 ops) c1 = Some (EvCommit t1) ->
  nth_error (trace st0 ops) c2 = Some (EvCommit t2) ->
  (c2 < r1)%nat \/ (c1 < r2)%nat.
Proof. exact no_write_skew_lemma. Qed.
Print Assumptions no_write_skew_on_read_rows.

(** Non-vacuity.  Transactions 1 and 2 both read row 10 and both try to write
    it: the upgrade of 1 is denied (2 also holds S) and 1 is aborted; 2 is then
    the sole holder, its upgrade is granted and its read-modify-write commits.
    Transaction 3 reads row 10 twice (same value, the one 2 committed), writes
    row 11 and commits.  The late write of the aborted 1 is ignored.  Row 12 is
    written by 4, which aborts: the before-image is restored. *)
Example c05_nonvacuous :
  let st0 := [(10, 1); (12, 3)] in
  let ops := [SRead 1 10; SRead 2 10; SWrite 1 10 5; SWrite 2 10 7; SWrite 4 12 8;
              SCommit 2; SRead 3 10; SRead 3 11; SWrite 4 12 6; SRead 3 10;
              SWrite 3 11 9; SAbort 4; SCommit 3; SWrite 1 10 99] in
  trace st0 ops =
    [EvRead 1 10 1; EvRead 2 10 1; EvAbort 1; EvWrite 2 10 7; EvWrite 4 12 8;
     EvCommit 2; EvRead 3 10 7; EvRead 3 11 0; EvWrite 4 12 6; EvRead 3 10 7;
     EvWrite 3 11 9; EvAbort 4; EvCommit 3] /\
  committed (trace st0 ops) = [2; 3] /\
  sout st0 (progs (trace st0 ops)) =
    [EvRead 2 10 1; EvWrite 2 10 7; EvCommit 2;
     EvRead 3 10 7; EvRead 3 11 0; EvRead 3 10 7; EvWrite 3 11 9; EvCommit 3] /\
  map (sget (store (final st0 ops))) [10; 11; 12] = [7; 9; 3] /\
  map (sget (sstore st0 (progs (trace st0 ops)))) [10; 11; 12] = [7; 9; 3].
Proof. vm_compute. repeat split. Qed.
