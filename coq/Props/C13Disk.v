(** C13 at the lowest layer -- "reading a page yields the bytes most recently written" for the file layer
    lib/storage/disk/disk_manager_impl.go (DiskManagerImpl), and the facts other models assume about it
    (Model/PageAlloc.v: file size in pages, the allocator restarts at pages+1; Model/WalTrace.v: the log file is the
    concatenation of the WriteLog payloads since the last GCLogFile).

    [Model/DiskFile.v]: db file = whole pages [dm_pages] + a trailing partial part [dm_tail] (only a file this code did
    not make has one), the fields d.size [dm_sz] and d.nextPageID [dm_next], log file [dm_log] + the position of its
    descriptor [dm_lpos].  Correspondence: lib/diskcorr.py (`verifharness diskfile` against build/diskfile_driver),
    every answer of random sequences of WritePage / ReadPage / Size / AllocatePage / close+reopen / WriteLog /
    ReadLog / GetLogFileSize / GCLogFile.  All theorems are about [dm_run d ops] for ALL ops (and all d).

    As proved: ReadPage returns the last bytes written, holes read as zero pages, offset = size gives
    "I/O error while reading", offset > size "I/O error past end of file"; Size() = 4096 * (1 + largest page id
    written) for a file that started at a page multiple, and only then equals the real file size
    ([size_is_file_size_refuted]: Size() is a field that a write INTO a partial last page does not update);
    AllocatePage hands out consecutive ids that, after an open, are above every page of the file and skip the id
    `pages` itself ([allocate_fresh]); NOT fresh across close + reopen when an allocated page was never written
    ([allocate_increasing_refuted]: 0, 1, reopen, 0); the log file is the concatenation of the payloads as long as no
    ReadLog came between ([log_is_concat_partial]) -- ReadLog seeks the descriptor WriteLog uses, so
    write [1;2;3]; ReadLog(off 0, len 1); write [9] leaves [1;9;3] ([log_is_concat_refuted]; the engine reads the
    log only in recovery and calls GCLogFile before it writes again).
    Statements only. *)
From Coq Require Import List NArith Arith Bool.
From SDB Require Import Model.DiskFile Proofs.DiskFileProofs.
Import ListNotations.

(** (a) after any sequence of operations, from any file, page p reads as the LAST write to p *)
Theorem read_after_write : forall ops d p data, dm_last_write ops p = Some data ->
  dm_read_page (fst (dm_run d ops)) p = DmABytes data.
Proof. exact dm_read_after_write_lemma. Qed.
Print Assumptions read_after_write.

(** pages of the file the sequence does not write keep their answer *)
Theorem unwritten_kept : forall ops d p, dm_last_write ops p = None -> p < length (dm_pages d) ->
  dm_read_page (fst (dm_run d ops)) p = dm_read_page d p.
Proof. exact dm_unwritten_kept_lemma. Qed.
Print Assumptions unwritten_kept.

(** (b) holes: pages beyond the old end, below the new end, never written: 4096 zero bytes *)
Theorem holes_read_zero : forall ops d p, dm_tail d = [] -> dm_last_write ops p = None ->
  length (dm_pages d) <= p -> p < length (dm_pages (fst (dm_run d ops))) ->
  dm_read_page (fst (dm_run d ops)) p = DmABytes dm_zero_page.
Proof. exact dm_holes_read_zero_lemma. Qed.
Print Assumptions holes_read_zero.

Theorem read_at_end : forall d, dm_tail d = [] -> dm_read_page d (length (dm_pages d)) = DmAErrRead.
Proof. exact dm_read_at_end_lemma. Qed.
Print Assumptions read_at_end.

Theorem read_past_end : forall d p, length (dm_pages d) < p -> dm_read_page d p = DmAErrPast.
Proof. exact dm_read_past_end_lemma. Qed.
Print Assumptions read_past_end.

(** the case split of [dm_read_page] on page counts is the Go code's comparison of byte offsets *)
Theorem read_page_offsets : forall d p, length (dm_tail d) < dm_ps ->
  ((dm_file_size d <? dm_psN * N.of_nat p)%N = (length (dm_pages d) <? p)) /\
  ((dm_file_size d =? dm_psN * N.of_nat p)%N = ((p =? length (dm_pages d)) && (length (dm_tail d) =? 0))).
Proof. exact dm_read_page_offsets_lemma. Qed.
Print Assumptions read_page_offsets.

(** (c) [dm_wf]: no partial part and d.size = 4096 * pages; holds after open of such a file, kept by every step *)
Theorem open_wf : forall d, dm_tail d = [] -> dm_wf (dm_open d).
Proof. exact dm_open_wf. Qed.
Print Assumptions open_wf.

Theorem run_wf : forall ops d, dm_wf d -> dm_wf (fst (dm_run d ops)).
Proof. exact dm_run_wf. Qed.
Print Assumptions run_wf.

Theorem size_is_max_written : forall ops d, dm_wf d ->
  dm_size (fst (dm_run d ops)) = (dm_psN * N.of_nat (Nat.max (length (dm_pages d)) (dm_extent ops)))%N.
Proof. exact dm_size_is_max_written_lemma. Qed.
Print Assumptions size_is_max_written.

Theorem pages_is_max_written : forall ops d, dm_tail d = [] ->
  length (dm_pages (fst (dm_run d ops))) = Nat.max (length (dm_pages d)) (dm_extent ops).
Proof. exact dm_run_pages_length. Qed.
Print Assumptions pages_is_max_written.

Theorem size_never_decreases : forall d o, dm_wf d -> (dm_size d <= dm_size (fst (dm_step d o)))%N.
Proof. exact dm_size_monotone_lemma. Qed.
Print Assumptions size_never_decreases.

Theorem size_is_file_size_refuted :
  ~ (forall d ops, dm_size (fst (dm_run (dm_open d) ops)) = dm_file_size (fst (dm_run (dm_open d) ops))).
Proof. exact dm_size_is_file_size_refuted_lemma. Qed.
Print Assumptions size_is_file_size_refuted.

Theorem size_is_file_size_partial : forall d ops, dm_tail d = [] ->
  dm_size (fst (dm_run (dm_open d) ops)) = dm_file_size (fst (dm_run (dm_open d) ops)).
Proof. exact dm_size_is_file_size_partial_lemma. Qed.
Print Assumptions size_is_file_size_partial.

(** (d) without a reopen in between, the ids handed out are consecutive from d.nextPageID *)
Theorem allocate_consecutive : forall ops d, dm_no_reopen ops ->
  dm_alloc_ids (snd (dm_run d ops)) = seq (dm_next d) (length (dm_alloc_ids (snd (dm_run d ops)))) /\
  dm_next (fst (dm_run d ops)) = dm_next d + length (dm_alloc_ids (snd (dm_run d ops))).
Proof. exact dm_alloc_consecutive_lemma. Qed.
Print Assumptions allocate_consecutive.

Theorem allocate_increasing_partial : forall d ops i j a b, dm_no_reopen ops -> i < j ->
  nth_error (dm_alloc_ids (snd (dm_run d ops))) i = Some a ->
  nth_error (dm_alloc_ids (snd (dm_run d ops))) j = Some b -> a < b.
Proof. exact dm_allocate_increasing_lemma. Qed.
Print Assumptions allocate_increasing_partial.

Theorem allocate_increasing_refuted :
  ~ (forall d ops i j a b, i < j ->
       nth_error (dm_alloc_ids (snd (dm_run d ops))) i = Some a ->
       nth_error (dm_alloc_ids (snd (dm_run d ops))) j = Some b -> a < b).
Proof. exact dm_allocate_increasing_refuted_lemma. Qed.
Print Assumptions allocate_increasing_refuted.

(** after an open: every id handed out is above every page of the file as it was at the open (the fact
    Model/PageAlloc.v assumes), and the id `pages` itself is skipped (next = pages + 1, not pages) *)
Theorem allocate_fresh : forall d ops id, dm_no_reopen ops ->
  In id (dm_alloc_ids (snd (dm_run (dm_open d) ops))) ->
  (forall p, p < length (dm_pages d) -> p < id) /\ (0 < length (dm_pages d) -> id <> length (dm_pages d)).
Proof. exact dm_allocate_fresh_lemma. Qed.
Print Assumptions allocate_fresh.

Theorem open_next : forall d, dm_next (dm_open d) = match length (dm_pages d) with O => O | S n => S (S n) end.
Proof. exact dm_open_next. Qed.
Print Assumptions open_next.

(** (e) log file *)
Theorem log_is_concat_partial : forall ops d, dm_no_log_read ops -> dm_lpos d = length (dm_log d) ->
  dm_log (fst (dm_run d ops)) = dm_log_spec (dm_log d) ops /\
  dm_lpos (fst (dm_run d ops)) = length (dm_log (fst (dm_run d ops))).
Proof. exact dm_log_is_concat_lemma. Qed.
Print Assumptions log_is_concat_partial.

Theorem log_is_concat_refuted :
  ~ (forall ops d, dm_lpos d = length (dm_log d) -> dm_log (fst (dm_run d ops)) = dm_log_spec (dm_log d) ops).
Proof. exact dm_log_is_concat_refuted_lemma. Qed.
Print Assumptions log_is_concat_refuted.

Theorem read_log_whole : forall d len, dm_log d <> [] -> length (dm_log d) <= len ->
  snd (dm_read_log d 0 len) = DmALog true (dm_log d).
Proof. exact dm_read_log_whole_lemma. Qed.
Print Assumptions read_log_whole.

Theorem read_log_past_end : forall d off len, length (dm_log d) <= off ->
  dm_read_log d off len = (d, DmALog false []).
Proof. exact dm_read_log_past_end_lemma. Qed.
Print Assumptions read_log_past_end.

Theorem read_log_inside : forall d off len, off < length (dm_log d) ->
  snd (dm_read_log d off len) = DmALog true (firstn len (skipn off (dm_log d))) /\
  dm_lpos (fst (dm_read_log d off len)) = off + Nat.min len (length (dm_log d) - off).
Proof. exact dm_read_log_inside_lemma. Qed.
Print Assumptions read_log_inside.

(** examples *)
(* first write to a new file at page 0, reopen: the next id is 2, page id 1 is never handed out *)
Example skipped_id : dm_alloc_ids (snd (dm_run (dm_open dm_empty) [DmWrite 0 (dm_pg 1%N); DmReopen; DmAlloc; DmAlloc])) = [2; 3].
Proof. vm_compute. reflexivity. Qed.
(* allocated but never written: handed out again after a reopen *)
Example realloc_after_reopen : dm_alloc_ids (snd (dm_run (dm_open dm_empty) [DmAlloc; DmAlloc; DmReopen; DmAlloc])) = [0; 1; 0].
Proof. vm_compute. reflexivity. Qed.
(* the partial part of a foreign file reads as zeros (short read), not as its bytes *)
Example short_read_zeroed : dm_read_page (dm_open (dm_mk [] [7%N; 7%N] [])) 0 = DmABytes dm_zero_page.
Proof. vm_compute. reflexivity. Qed.
(* Size() stale: file of 4097 bytes, write of page 1: the file has 8192 bytes, Size() says 4097 *)
Example stale_size : let d := fst (dm_run (dm_open (dm_mk [dm_pg 1%N] [7%N] [])) [DmWrite 1 (dm_pg 2%N)]) in
  (dm_size d, dm_file_size d) = (4097%N, 8192%N).
Proof. vm_compute. reflexivity. Qed.
Example log_overwritten_after_read :
  dm_log (fst (dm_run (dm_open dm_empty) [DmWriteLog [1;2;3]%N; DmReadLog 0 1; DmWriteLog [9%N]])) = [1;9;3]%N.
Proof. vm_compute. reflexivity. Qed.
