(* placeholder *)
