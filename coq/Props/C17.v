(** C17 — each index container behaves as a sorted multimap.

    "Each index structure behaves like a map from key to row ids: after any
    sequence of entry insertions, deletions and updates a lookup returns exactly
    the row ids currently stored under the key, and (for the ordered kinds) a
    scan returns the current entries within the bounds in key order, each once."

    Model: Model/IndexWrap.v.  [omap] is the specification of the ordered
    unique-key container (skip list / B-link tree); the wrapper stores every
    (key, rid) pair under ONE composite key [enc key ++ suffix rid]; [mmap] is
    the abstract multimap (duplicate-free unordered list of pairs).
    Statements are quantified over ALL operation sequences; hypotheses: integer
    keys in the int32 range, float keys non-NaN, string keys NUL-free, row ids
    [rid_ok] (0 <= page < 2^31, slot < 2^32).  Proofs: Proofs/IndexWrapProofs.v. *)
From Coq Require Import List NArith ZArith Sorted.
From SDB Require Import Base.Bytes Params Model.Codec Model.IndexWrap
  Proofs.BytesProofs Proofs.CodecProofs Proofs.IndexWrapProofs.
Import ListNotations.
Open Scope N_scope.

(** * Statement shapes, shared by the three key types

    [kok] = validity of keys, [kcmp] = value order, [enck] / [deck] = composite
    key encoder / decoder.  [op_okp K kok o]: the keys of [o] satisfy [kok] and
    its row ids [rid_ok]. *)

(** The wrapper refines the multimap: after any operation sequence the decoded
    container holds exactly the pairs of the multimap, each once, and ScanKey
    returns exactly the row ids stored under the key, each once, in row-id
    suffix order. *)
Definition refines_multimap_stmt (K : Type) (kok : K -> Prop) (kcmp : K -> K -> comparison)
    (enck : K -> Z -> N -> list N) (deck : list N -> K) : Prop :=
  forall ops, Forall (op_okp K kok) ops ->
    let m := ix_run K enck ops in
    let s := mm_run K kcmp ops in
    (forall p, In p (ix_abs K deck m) <-> In p s) /\
    NoDup (ix_abs K deck m) /\ NoDup s /\
    forall k, kok k ->
      (forall r, In r (ix_scan_key K enck k m) <-> In (k, r) s) /\
      (forall r, In r (ix_scan_key K enck k m) <-> In r (mm_lookup K kcmp k s)) /\
      NoDup (ix_scan_key K enck k m) /\
      ix_scan_key K enck k m = mm_lookup_sorted K kcmp k s.

(** Every single wrapper operation commutes with the multimap operation through
    the abstraction function (equality of duplicate-free sets of pairs). *)
Definition ops_commute_stmt (K : Type) (kok : K -> Prop) (kcmp : K -> K -> comparison)
    (enck : K -> Z -> N -> list N) (deck : list N -> K) : Prop :=
  forall ops o, Forall (op_okp K kok) ops -> op_okp K kok o ->
    let m := ix_run K enck ops in
    (forall p, In p (ix_abs K deck (ix_apply K enck m o)) <->
               In p (mm_apply K kcmp (ix_abs K deck m) o)) /\
    NoDup (ix_abs K deck (ix_apply K enck m o)) /\
    NoDup (mm_apply K kcmp (ix_abs K deck m) o).

(** A range scan returns exactly the stored pairs with lo <= key <= hi in the
    value order, strictly sorted by (key, then row-id suffix), each once; it is
    the list the multimap specification computes. *)
Definition range_stmt (K : Type) (kok : K -> Prop) (kcmp : K -> K -> comparison)
    (enck : K -> Z -> N -> list N) (deck : list N -> K) : Prop :=
  forall ops lo hi, Forall (op_okp K kok) ops -> bound_ok K kok lo -> bound_ok K kok hi ->
    let m := ix_run K enck ops in
    let s := mm_run K kcmp ops in
    ix_range K enck deck lo hi m = mm_range K kcmp lo hi s /\
    StronglySorted (pair_lt K kcmp) (ix_range K enck deck lo hi m) /\
    NoDup (ix_range K enck deck lo hi m) /\
    (forall k r, In (k, r) (ix_range K enck deck lo hi m) <->
       In (k, r) s /\
       (match lo with None => True | Some l => kcmp l k <> Gt end) /\
       (match hi with None => True | Some h => kcmp k h <> Gt end)).

(** UpdateEntry is delete-then-insert, on the container and on the multimap. *)
Definition update_stmt (K : Type) (kok : K -> Prop) (kcmp : K -> K -> comparison)
    (enck : K -> Z -> N -> list N) (deck : list N -> K) : Prop :=
  forall ops k r k' r', Forall (op_okp K kok) ops -> pok K kok (k, r) -> pok K kok (k', r') ->
    let m := ix_run K enck ops in
    let s := mm_run K kcmp ops in
    ix_update K enck k r k' r' m = ix_insert K enck k' r' (ix_delete K enck k r m) /\
    refines K kok enck deck (ix_update K enck k r k' r' m)
            (mm_insert K kcmp k' r' (mm_delete K kcmp k r s)).

(** * The container invariant: strictly sorted, hence no duplicate composite
    key — for every key type, every encoder and every operation sequence (no
    hypothesis on the keys is needed). *)
Theorem omap_sorted_invariant : forall (K : Type) (enck : K -> Z -> N -> list N) (ops : list (ix_op K)),
  let m := ix_run K enck ops in
  om_sorted m /\ NoDup (map fst m) /\ om_sortedb m = true.
Proof.
  intros K enck ops m. pose proof (ix_run_sorted K enck ops) as H. fold m in H.
  split; [exact H|]. split; [now apply om_sorted_nodup_keys | now apply om_sortedb_complete].
Qed.
Print Assumptions omap_sorted_invariant.

(** * Integer keys *)

Theorem int_wrapper_refines_multimap :
  refines_multimap_stmt Z int_ok Z.compare enc_int_key dec_int_key.
Proof.
  exact (wrapper_refines_generic Z int_ok Z.compare enc_int_key dec_int_key
           int_enck_order int_deck_enck int_decr_enck int_bracket).
Qed.
Print Assumptions int_wrapper_refines_multimap.

Theorem int_ops_commute : ops_commute_stmt Z int_ok Z.compare enc_int_key dec_int_key.
Proof.
  exact (ops_commute_generic Z int_ok Z.compare enc_int_key dec_int_key
           int_enck_order int_deck_enck int_decr_enck).
Qed.
Print Assumptions int_ops_commute.

Theorem int_range_scan_in_key_order : range_stmt Z int_ok Z.compare enc_int_key dec_int_key.
Proof.
  exact (range_generic Z int_ok Z.compare enc_int_key dec_int_key
           int_enck_order int_deck_enck int_decr_enck).
Qed.
Print Assumptions int_range_scan_in_key_order.

Theorem int_update_is_delete_insert : update_stmt Z int_ok Z.compare enc_int_key dec_int_key.
Proof.
  exact (update_generic Z int_ok Z.compare enc_int_key dec_int_key
           int_enck_order int_deck_enck int_decr_enck).
Qed.
Print Assumptions int_update_is_delete_insert.

(** * String keys *)

Theorem str_wrapper_refines_multimap :
  refines_multimap_stmt (list N) nul_free lex_cmp enc_str_key dec_str_key.
Proof.
  exact (wrapper_refines_generic (list N) nul_free lex_cmp enc_str_key dec_str_key
           str_enck_order str_deck_enck str_decr_enck str_bracket).
Qed.
Print Assumptions str_wrapper_refines_multimap.

Theorem str_ops_commute : ops_commute_stmt (list N) nul_free lex_cmp enc_str_key dec_str_key.
Proof.
  exact (ops_commute_generic (list N) nul_free lex_cmp enc_str_key dec_str_key
           str_enck_order str_deck_enck str_decr_enck).
Qed.
Print Assumptions str_ops_commute.

Theorem str_range_scan_in_key_order :
  range_stmt (list N) nul_free lex_cmp enc_str_key dec_str_key.
Proof.
  exact (range_generic (list N) nul_free lex_cmp enc_str_key dec_str_key
           str_enck_order str_deck_enck str_decr_enck).
Qed.
Print Assumptions str_range_scan_in_key_order.

Theorem str_update_is_delete_insert :
  update_stmt (list N) nul_free lex_cmp enc_str_key dec_str_key.
Proof.
  exact (update_generic (list N) nul_free lex_cmp enc_str_key dec_str_key
           str_enck_order str_deck_enck str_decr_enck).
Qed.
Print Assumptions str_update_is_delete_insert.

(** * Float keys

    [f_cmp] identifies -0.0 and +0.0 and both encode to the same bytes; the
    decoder returns +0.0.  On canonical patterns ([f_okc]: non-NaN and not the
    -0.0 pattern) the four generic statements hold verbatim; for arbitrary
    non-NaN keys the multimap is fed the canonicalised operations
    ([f_canon_op] maps -0.0 to +0.0 and changes nothing else). *)

Theorem float_canonical_wrapper_refines_multimap :
  refines_multimap_stmt N f_okc f_cmp enc_f32_key dec_f32_key.
Proof.
  exact (wrapper_refines_generic N f_okc f_cmp enc_f32_key dec_f32_key
           f32_enck_order f32_deck_enck f32_decr_enck f32_bracket).
Qed.
Print Assumptions float_canonical_wrapper_refines_multimap.

Theorem float_canonical_ops_commute : ops_commute_stmt N f_okc f_cmp enc_f32_key dec_f32_key.
Proof.
  exact (ops_commute_generic N f_okc f_cmp enc_f32_key dec_f32_key
           f32_enck_order f32_deck_enck f32_decr_enck).
Qed.
Print Assumptions float_canonical_ops_commute.

Theorem float_canonical_range_scan_in_key_order :
  range_stmt N f_okc f_cmp enc_f32_key dec_f32_key.
Proof.
  exact (range_generic N f_okc f_cmp enc_f32_key dec_f32_key
           f32_enck_order f32_deck_enck f32_decr_enck).
Qed.
Print Assumptions float_canonical_range_scan_in_key_order.

Theorem float_update_is_delete_insert : update_stmt N f_okc f_cmp enc_f32_key dec_f32_key.
Proof.
  exact (update_generic N f_okc f_cmp enc_f32_key dec_f32_key
           f32_enck_order f32_deck_enck f32_decr_enck).
Qed.
Print Assumptions float_update_is_delete_insert.

(** The wrapper cannot tell the two zeros apart. *)
Theorem float_zero_ops_coincide : forall ops, ixf_run (map f_canon_op ops) = ixf_run ops.
Proof. exact ixf_run_canon. Qed.
Print Assumptions float_zero_ops_coincide.

Theorem float_wrapper_refines_multimap : forall ops, Forall (op_okp N f_ok) ops ->
  let m := ixf_run ops in
  let s := mmf_run (map f_canon_op ops) in
  (forall p, In p (ixf_abs m) <-> In p s) /\
  NoDup (ixf_abs m) /\ NoDup s /\
  forall k, f_ok k ->
    (forall r, In r (ixf_scan_key k m) <-> In (f_canon k, r) s) /\
    (forall r, In r (ixf_scan_key k m) <-> In r (mmf_lookup k s)) /\
    NoDup (ixf_scan_key k m) /\
    ixf_scan_key k m = mmf_lookup_sorted k s.
Proof. exact f32_wrapper_refines. Qed.
Print Assumptions float_wrapper_refines_multimap.

Theorem float_range_scan_in_key_order : forall ops lo hi, Forall (op_okp N f_ok) ops ->
  bound_ok N f_ok lo -> bound_ok N f_ok hi ->
  let m := ixf_run ops in
  let s := mmf_run (map f_canon_op ops) in
  ixf_range lo hi m = mmf_range lo hi s /\
  StronglySorted (pair_lt N f_cmp) (ixf_range lo hi m) /\
  NoDup (ixf_range lo hi m) /\
  (forall k r, In (k, r) (ixf_range lo hi m) <->
     In (k, r) s /\
     (match lo with None => True | Some l => f_cmp l k <> Gt end) /\
     (match hi with None => True | Some h => f_cmp k h <> Gt end)).
Proof. exact f32_range. Qed.
Print Assumptions float_range_scan_in_key_order.

(** * Non-vacuity: concrete operation sequences meeting the hypotheses, with
    duplicate keys, adjacent values, negative numbers, a repeated pair, a
    delete, an update and a row id whose page needs two suffix bytes. *)

Definition ex_int_ops : list (ix_op Z) :=
  [ IxIns (-5)%Z (1%Z, 0); IxIns 7%Z (2%Z, 3); IxIns 7%Z (1%Z, 9); IxIns 8%Z (0%Z, 0);
    IxIns (-6)%Z (3%Z, 1); IxIns 7%Z (2%Z, 3); IxIns 7%Z (256%Z, 0);
    IxIns (-2147483648)%Z (5%Z, 5); IxIns 2147483647%Z (6%Z, 6);
    IxDel 8%Z (0%Z, 0); IxDel 9%Z (0%Z, 0);
    IxUpd (-5)%Z (1%Z, 0) 6%Z (1%Z, 0) ].

Example c17_int_ops_ok : Forall (op_okp Z int_ok) ex_int_ops.
Proof.
  unfold ex_int_ops, op_okp, pok, int_ok, rid_okp, rid_ok, two32; cbn [fst snd].
  repeat constructor; try reflexivity; discriminate.
Qed.

(** ScanKey 7 returns the three row ids stored under 7, each once, in suffix
    order: the suffix is little-endian, so page 256 (bytes 00 01 ..) sorts
    before page 1 (bytes 01 00 ..). *)
Example c17_int_scan :
  ixi_scan_key 7%Z (ixi_run ex_int_ops) = [(256%Z, 0); (1%Z, 9); (2%Z, 3)] /\
  mmi_lookup_sorted 7%Z (mmi_run ex_int_ops) = [(256%Z, 0); (1%Z, 9); (2%Z, 3)] /\
  ixi_scan_key 8%Z (ixi_run ex_int_ops) = [] /\
  ixi_scan_key (-5)%Z (ixi_run ex_int_ops) = [] /\
  ixi_scan_key 6%Z (ixi_run ex_int_ops) = [(1%Z, 0)].
Proof. vm_compute. repeat split. Qed.

Example c17_int_range :
  ixi_range (Some (-6)%Z) (Some 7%Z) (ixi_run ex_int_ops) =
    [ ((-6)%Z, (3%Z, 1)); (6%Z, (1%Z, 0)); (7%Z, (256%Z, 0)); (7%Z, (1%Z, 9)); (7%Z, (2%Z, 3)) ] /\
  mmi_range (Some (-6)%Z) (Some 7%Z) (mmi_run ex_int_ops) =
    [ ((-6)%Z, (3%Z, 1)); (6%Z, (1%Z, 0)); (7%Z, (256%Z, 0)); (7%Z, (1%Z, 9)); (7%Z, (2%Z, 3)) ] /\
  ixi_range None (Some (-6)%Z) (ixi_run ex_int_ops) =
    [ ((-2147483648)%Z, (5%Z, 5)); ((-6)%Z, (3%Z, 1)) ] /\
  ixi_range (Some 8%Z) None (ixi_run ex_int_ops) = [ (2147483647%Z, (6%Z, 6)) ] /\
  length (ixi_range None None (ixi_run ex_int_ops)) = 7%nat /\
  om_sortedb (ixi_run ex_int_ops) = true.
Proof. vm_compute. repeat split. Qed.

(** Floats: -1.5 (0xBFC00000), -0.0 (0x80000000), +0.0, 1.0 (0x3F800000), +Inf. *)
Definition ex_f32_ops : list (ix_op N) :=
  [ IxIns 1065353216 (1%Z, 1); IxIns 2147483648 (2%Z, 2); IxIns 0 (3%Z, 3);
    IxIns 3217031168 (4%Z, 4); IxIns 2139095040 (5%Z, 5); IxIns 0 (2%Z, 2);
    IxDel 2147483648 (3%Z, 3) ].

Example c17_f32_ops_ok : Forall (op_okp N f_ok) ex_f32_ops.
Proof.
  unfold ex_f32_ops, op_okp, pok, f_ok, rid_okp, rid_ok, two32; cbn [fst snd].
  repeat constructor; try reflexivity; discriminate.
Qed.

Example c17_f32_scan_range :
  ixf_scan_key 2147483648 (ixf_run ex_f32_ops) = [(2%Z, 2)] /\
  ixf_scan_key 0 (ixf_run ex_f32_ops) = [(2%Z, 2)] /\
  ixf_range (Some 3217031168) (Some 1065353216) (ixf_run ex_f32_ops) =
    [ (3217031168, (4%Z, 4)); (0, (2%Z, 2)); (1065353216, (1%Z, 1)) ] /\
  mmf_range (Some 3217031168) (Some 1065353216) (mmf_run (map f_canon_op ex_f32_ops)) =
    [ (3217031168, (4%Z, 4)); (0, (2%Z, 2)); (1065353216, (1%Z, 1)) ].
Proof. vm_compute. repeat split. Qed.

(** Strings: "a", "ab", "b" and the empty string. *)
Definition ex_str_ops : list (ix_op (list N)) :=
  [ IxIns [97; 98] (1%Z, 0); IxIns [97] (2%Z, 0); IxIns [98] (3%Z, 0); IxIns [97] (1%Z, 7);
    IxIns [] (4%Z, 4); IxDel [98] (3%Z, 0) ].

Example c17_str_ops_ok : Forall (op_okp (list N) nul_free) ex_str_ops.
Proof.
  unfold ex_str_ops, op_okp, pok, nul_free, rid_okp, rid_ok, two32; cbn [fst snd].
  repeat constructor; try reflexivity; discriminate.
Qed.

Example c17_str_scan_range :
  ixs_scan_key [97] (ixs_run ex_str_ops) = [(1%Z, 7); (2%Z, 0)] /\
  ixs_range (Some [97]) (Some [98]) (ixs_run ex_str_ops) =
    [ ([97], (1%Z, 7)); ([97], (2%Z, 0)); ([97; 98], (1%Z, 0)) ] /\
  mms_range (Some [97]) (Some [98]) (mms_run ex_str_ops) =
    [ ([97], (1%Z, 7)); ([97], (2%Z, 0)); ([97; 98], (1%Z, 0)) ] /\
  ixs_range None None (ixs_run ex_str_ops) =
    [ ([], (4%Z, 4)); ([97], (1%Z, 7)); ([97], (2%Z, 0)); ([97; 98], (1%Z, 0)) ].
Proof. vm_compute. repeat split. Qed.
