(** C08 (supplement) — write-ahead discipline for the successor link of a table page.

    The LSN comparison of Props/C08.v ([wal_ok]) cannot see the one change of a table page
    that carries no LSN of its own: lib/storage/access/table_heap.go InsertTuple sets
    [currentPage.next = newPage] without stamping currentPage's LSN; the change is described
    only by the successor's NewTablePage record (prevPageID, pageID), which redo uses to
    restore the link.  The rule checked here, on the I/O trace of the storage boundary from
    the creation of the database: whenever a table page (a page named by a record that has
    been in the log file) is written with successor link [q], a NewTablePage record of [q]
    has been in the log file before.

    [link_ok] (Model/WalLink.v) walks the trace once with an incremental parse of the log
    file; it accepts exactly the traces that keep the discipline. *)
From Coq Require Import List NArith ZArith.
From SDB Require Import Base.Bytes Params Model.Wal Model.LogCodec Model.WalLink Proofs.WalLinkProofs.
Import ListNotations.
Open Scope N_scope.

Theorem link_ok_sound : forall tr, link_ok tr = true -> link_disciplined tr.
Proof. exact WalLinkProofs.link_ok_sound. Qed.
Print Assumptions link_ok_sound.

Theorem link_ok_exact : forall tr, link_disciplined tr -> link_ok tr = true.
Proof. exact WalLinkProofs.link_ok_exact. Qed.
Print Assumptions link_ok_exact.

(** the reported event is the first page write that breaks the rule *)
Theorem link_first_violation_is_first : forall tr i pid q,
  link_first_violation tr = Some (i, pid, q) ->
  exists pre post, tr = pre ++ LPage pid (Some q) :: post /\ length pre = i /\
    link_disciplined pre /\ table_pages_ever pre pid /\ ~ created_ever pre q.
Proof. exact WalLinkProofs.link_first_violation_spec. Qed.
Print Assumptions link_first_violation_is_first.

Theorem link_first_violation_none_iff : forall tr,
  link_first_violation tr = None <-> link_disciplined tr.
Proof. exact WalLinkProofs.link_first_violation_none. Qed.
Print Assumptions link_first_violation_none_iff.

(** * Non-vacuity: concrete traces *)

Definition k_begin (lsn txn : Z) : lrec_full := mkF 20 lsn txn (-1) lr_begin FNone [].
(** NewTablePage: [prevpage] is the unsigned word in the file (4294967295 = -1: first page of a table) *)
Definition k_newpage (lsn txn prev : Z) (prevpage pid : N) : lrec_full :=
  mkF 28 lsn txn prev lr_new_table_page (FNewPage prevpage pid) [].
Definition k_insert (lsn txn prev : Z) (pid slot : N) (t : list N) : lrec_full :=
  mkF (32 + lenN t) lsn txn prev lr_insert (FTuple pid slot t) [].
Definition k_commit (lsn txn prev : Z) : lrec_full := mkF 20 lsn txn prev lr_commit FNone [].

Example c08link_records_wf :
  Forall wf_rec [k_begin 0 1; k_newpage 1 1 0 4294967295 5; k_insert 2 1 1 5 0 [7; 8; 9];
                 k_newpage 3 1 2 5 6; k_commit 4 1 3].
Proof. repeat constructor; vm_compute; try reflexivity; try discriminate. Qed.

(** transaction 1 creates page 5 and fills it; page 6 is appended to the chain; page 5 goes
    out with its link to 6 only after the NewTablePage record of 6 is in the log file;
    what the log has shown is remembered across a truncation; page 9 is not a table page
    (an index page keeps something else at offset 12) *)
Definition good_link_trace : list lev :=
  [ LLog (ser_rec (k_begin 0 1) ++ ser_rec (k_newpage 1 1 0 4294967295 5) ++ ser_rec (k_insert 2 1 1 5 0 [7; 8; 9]));
    LPage 5 None;
    LPage 9 (Some 77);
    LLog (ser_rec (k_newpage 3 1 2 5 6));
    LPage 5 (Some 6);
    LPage 6 None;
    LTrunc;
    LPage 5 (Some 6);
    LLog (ser_rec (k_commit 4 1 3)) ].

Example c08link_good_trace_accepted : link_ok good_link_trace = true.
Proof. vm_compute. reflexivity. Qed.

Example c08link_good_trace_checked : link_checked good_link_trace = 2.
Proof. vm_compute. reflexivity. Qed.

Example c08link_good_trace_log :
  log_kinds (firstn 4 good_link_trace) =
  [ KBegin; KNewPage 4294967295 5; KInsert 5 0 [7; 8; 9]; KNewPage 5 6 ].
Proof. vm_compute. reflexivity. Qed.

(** the seeded regression: page 5 is full, page 6 is linked behind it, and page 5 reaches the
    database file while the NewTablePage record of 6 is still in the log buffer (it is
    written later) *)
Definition bad_link_trace : list lev :=
  [ LLog (ser_rec (k_begin 0 1) ++ ser_rec (k_newpage 1 1 0 4294967295 5) ++ ser_rec (k_insert 2 1 1 5 0 [7; 8; 9]));
    LPage 5 (Some 6);
    LLog (ser_rec (k_newpage 3 1 2 5 6) ++ ser_rec (k_commit 4 1 3)) ].

Example c08link_link_ahead_of_log_rejected : link_ok bad_link_trace = false.
Proof. vm_compute. reflexivity. Qed.

Example c08link_link_ahead_of_log_reported : link_first_violation bad_link_trace = Some (1%nat, 5, 6).
Proof. vm_compute. reflexivity. Qed.

(** a NewTablePage record that is only partly in the log file does not count: the log write
    ends inside the record of page 6, page 5 is written, the rest of the record follows *)
Example c08link_torn_record_does_not_count :
  let first := ser_rec (k_begin 0 1) ++ ser_rec (k_newpage 1 1 0 4294967295 5) ++ ser_rec (k_insert 2 1 1 5 0 [7; 8; 9]) in
  let rec6 := ser_rec (k_newpage 3 1 2 5 6) in
  link_first_violation [ LLog first; LLog (firstn 25 rec6); LPage 5 (Some 6); LLog (skipn 25 rec6) ] = Some (2%nat, 5, 6) /\
  link_ok [ LLog first; LLog (firstn 25 rec6); LLog (skipn 25 rec6); LPage 5 (Some 6) ] = true.
Proof. vm_compute. split; reflexivity. Qed.

(** the previous page of a NewTablePage record is a table page even if no other record of it
    is in the log file (the log was truncated after page 5 was filled) *)
Example c08link_prev_page_is_table_page :
  link_first_violation [ LLog (ser_rec (k_newpage 3 1 2 5 6)); LPage 5 (Some 7) ] = Some (1%nat, 5, 7) /\
  link_ok [ LLog (ser_rec (k_newpage 3 1 2 5 6)); LPage 5 (Some 6) ] = true.
Proof. vm_compute. split; reflexivity. Qed.
