(** C13 / C10 / C09 (page-id allocation) — a page id handed out by NewPage is never an id that is still in
    use, the ids in use are pairwise different, the reusable list has no duplicates, holds no id in use and only
    ids below the allocator's next id — in every state any sequence of operations can reach, clean and crash
    restarts included.

    The model ([Model/PageAlloc.v]) follows BufferPoolManager.NewPage / DeallocatePage, the cache-out of flagged
    pages, DiskManagerImpl.AllocatePage and its initialisation from the file size, the DEALLOCATE_PAGE / REUSE_PAGE
    / NewTablePage records, Redo's rebuilding of the list — including, for [pa_now], the repair d99b876 at the end
    of Redo ([for AllocatePage() < largest rebuilt id at or beyond the end of the file {}]) — and the start-up
    sequence of NewSamehadaDB.  Page deallocation is not transactional in the engine (no undo, same treatment for
    committed and aborted callers), so transactions do not appear.

    [pa_reach_now st]: [st] is reached from the empty database by operations of the CURRENT engine ([pa_now]) that
    each satisfy [pa_guard_now] =
      [pa_client_ok]  the callers' contract and legal inputs (an owner gives back a page it owns; the log half of
                      a deallocation follows its memory half; no allocation takes an id whose DEALLOCATE_PAGE
                      record is still to be appended),
      [pa_owned_ok]   at a restart: every id OWNED after it lies below the point the allocator restarts from
                      (file size + 1, raised by the NewTablePage redo) — what FlushAllDirtyPages, FlushPage at
                      creation and the NewTablePage redo provide ([owned_image_established]).
    Nothing is assumed about the ids of the rebuilt REUSABLE list any more: the start-up puts them below the
    allocator's next id itself ([restart_establishes_reusable_below_next]).

    PRE-FIX code ([pa_prefix], the start-up before d99b876): [restart_reuse_beyond_file_refuted] is the
    machine-checked witness of the defect that was repaired (hash-join temporary pages, clean shutdown, restart:
    NewPage returned 2, 3, 3; reproduced on the pre-fix engine); [prefix_invariants_partial] is what held for it
    under the additional hypothesis.
    STILL FALSE for the current engine without the "no overtaking" clause of [pa_client_ok]
    ([dealloc_log_race_refuted]: two threads; reproduced on the engine with goroutines looping NewPage / UnpinPage /
    DeallocatePage(id,true): after a crash restart the rebuilt list holds ids the threads still own; finding
    F-ALLOC-LOG-RACE).  Statements only. *)
From Coq Require Import List NArith Bool.
From SDB Require Import Base.Assoc Model.PageAlloc Model.Catalog Proofs.PageAllocProofs.
Import ListNotations.
Open Scope N_scope.

(** The hypotheses of the current engine are exactly the callers' contract and the owned half of the image
    condition ([pa_guard_all pa_now] is the guard [pa_jrun] uses). *)
Theorem guard_now_spec : forall st o, pa_guard_all pa_now st o = pa_guard_now st o.
Proof. exact guard_now_spec_lemma. Qed.
Print Assumptions guard_now_spec.

(** (a) The id NewPage returns (for a plain page or for a new heap page) is not in use by any owner, is not a
    released page still resident with the deallocation flag, and is not in the middle of a deallocation; after the
    call it is in use. *)
Theorem new_page_fresh : forall st o st' p, pa_reach_now st -> (o = ONew \/ o = ONewHeap) ->
  pa_client_ok st o = true -> pa_step pa_now st o = (st', PONew p) ->
  ~ In p (pa_inuse st) /\ ~ In p (pa_flagged st) /\ ~ In p (pa_pending st) /\ pa_inuse st' = p :: pa_inuse st.
Proof. exact new_page_fresh_now_lemma. Qed.
Print Assumptions new_page_fresh.

(** (b) The ids in use are pairwise different. *)
Theorem inuse_ids_distinct : forall st, pa_reach_now st -> NoDup (pa_inuse st).
Proof. exact inuse_distinct_now_lemma. Qed.
Print Assumptions inuse_ids_distinct.

(** (c) The reusable list has no duplicates, holds no id in use and no id of a flagged resident page; every id of
    the list and every id in use is below the allocator's next id. *)
Theorem reusable_list_well_formed : forall st, pa_reach_now st ->
  NoDup (pa_reusable st) /\ (forall p, In p (pa_reusable st) -> ~ In p (pa_inuse st))
  /\ (forall p, In p (pa_reusable st) -> ~ In p (pa_flagged st))
  /\ (forall p, In p (pa_reusable st) -> p < pa_next st)
  /\ (forall p, In p (pa_inuse st) -> p < pa_next st).
Proof. exact reusable_ok_now_lemma. Qed.
Print Assumptions reusable_list_well_formed.

(** The executable checkers the correspondence run evaluates say the same. *)
Theorem allocation_checkers_hold : forall st, pa_reach_now st ->
  (match pa_reusable st with p :: _ => negb (memN p (pa_pending st)) | [] => true end = true -> pa_new_fresh st = true)
  /\ pa_inuse_nodup st = true /\ pa_reusable_ok st = true.
Proof. exact checkers_now_lemma. Qed.
Print Assumptions allocation_checkers_hold.

(** (d) What used to be a hypothesis is established by the start-up itself — from ANY state, with ANY durable
    prefix of the log, survivors and list order: every id of the rebuilt reusable list is below the allocator's
    next id, and the list has no duplicates. *)
Theorem restart_establishes_reusable_below_next : forall st kept surv order p,
  In p (pa_reusable (pa_restart pa_now st kept surv order)) -> p < pa_next (pa_restart pa_now st kept surv order).
Proof. exact restart_reusable_below_next_lemma. Qed.
Print Assumptions restart_establishes_reusable_below_next.

Theorem restart_rebuilds_duplicate_free_list : forall fx st kept surv order,
  NoDup (pa_reusable (pa_restart fx st kept surv order)).
Proof. exact restart_reusable_nodup_lemma. Qed.
Print Assumptions restart_rebuilds_duplicate_free_list.

(** Restarts are operations of [pa_reach_now]: (a)-(c) hold after any number of them.  In addition a clean
    shutdown and restart changes nothing for the owners (C09) and forgets no reusable id ... *)
Theorem clean_restart_keeps_owners_and_reusable_ids : forall st order st', pa_reach_now st ->
  pa_owned_ok st (OCleanRestart order) = true ->
  st' = fst (pa_step pa_now st (OCleanRestart order)) ->
  pa_reach_now st' /\ pa_inuse st' = pa_inuse st /\
  (forall p, In p (pa_reusable st) -> In p (pa_pending st) \/ In p (pa_reusable st')) /\
  (forall p, In p (pa_reusable st') -> ~ In p (pa_inuse st')) /\
  (forall p, In p (pa_reusable st') -> p < pa_next st').
Proof. exact clean_restart_now_lemma. Qed.
Print Assumptions clean_restart_keeps_owners_and_reusable_ids.

(** ... and after a crash exactly the surviving owners own their ids, none of which is reusable. *)
Theorem crash_restart_keeps_survivors : forall st kept surv order st', pa_reach_now st ->
  pa_client_ok st (OCrashRestart kept surv order) = true ->
  pa_owned_ok st (OCrashRestart kept surv order) = true ->
  st' = fst (pa_step pa_now st (OCrashRestart kept surv order)) ->
  pa_reach_now st' /\ (forall p, In p (pa_inuse st') <-> In p (pa_inuse st) /\ In p surv) /\
  (forall p, In p (pa_reusable st') -> ~ In p (pa_inuse st')) /\
  (forall p, In p (pa_reusable st') -> p < pa_next st').
Proof. exact crash_restart_now_lemma. Qed.
Print Assumptions crash_restart_keeps_survivors.

(** The owned half of the image condition is what the engine provides for owned pages: the page is in the db
    file (FlushAllDirtyPages at shutdown; FlushPage in NewTableHeap and the catalog) or its NewTablePage record is
    in the durable part of the log (Redo takes the id from the allocator). *)
Theorem owned_image_established : forall st kept surv,
  (forall p, In p (pa_inuse st) -> In p surv ->
     p < pa_fsize st \/ In (RNewHeap p) (firstn kept (pa_log st))) ->
  pa_image_owned_ok st kept surv = true.
Proof. exact owned_image_lemma. Qed.
Print Assumptions owned_image_established.

(** PRE-FIX code (start-up before d99b876, [pa_prefix]).  Callers that keep their contract, one thread, a clean
    shutdown and restart — NewPage returns 2, 3, 3: (a) and (b) were false. *)
Theorem restart_reuse_beyond_file_refuted :
  exists ops st outs, pa_run_g pa_prefix pa_client_ok pa_init ops = Some (st, outs) /\
    ~ NoDup (pa_inuse st) /\ pa_inuse_nodup st = false /\
    nth 11 outs POBad = PONew 2 /\ nth 12 outs POBad = PONew 3 /\ nth 13 outs POBad = PONew 3.
Proof. exact restart_reuse_refuted_lemma. Qed.
Print Assumptions restart_reuse_beyond_file_refuted.

(** PRE-FIX: in that run the restart is the only step outside the (then) hypotheses, and only in the reusable half. *)
Theorem restart_reuse_witness_breaks_only_the_reusable_half :
  forall st outs, pa_run_g pa_prefix pa_client_ok pa_init (firstn 10 witness_beyond_file) = Some (st, outs) ->
  pa_image_owned_ok st (length (pa_log st)) (pa_inuse st) = true /\
  pa_image_reusable_ok st (length (pa_log st)) = false.
Proof. exact restart_reuse_witness_guard. Qed.
Print Assumptions restart_reuse_witness_breaks_only_the_reusable_half.

(** PRE-FIX, [_partial] form: with the reusable half of the image condition as an additional hypothesis
    ([pa_reach pa_prefix] carries [pa_image_ok pa_prefix]) the statements held. *)
Theorem prefix_invariants_partial : forall st, pa_reach pa_prefix st ->
  NoDup (pa_inuse st) /\ NoDup (pa_reusable st) /\ (forall p, In p (pa_reusable st) -> ~ In p (pa_inuse st)).
Proof. exact prefix_partial_lemma. Qed.
Print Assumptions prefix_invariants_partial.

(** CURRENT engine on the same run: every step is inside [pa_guard_now] and NewPage returns 2, 3, 4. *)
Theorem restart_reuse_witness_repaired :
  exists st outs, pa_run_g pa_now pa_guard_now pa_init witness_beyond_file = Some (st, outs) /\
    nth 11 outs POBad = PONew 2 /\ nth 12 outs POBad = PONew 3 /\ nth 13 outs POBad = PONew 4 /\
    pa_inuse st = [4; 3; 2; 1; 0].
Proof. exact witness_now_lemma. Qed.
Print Assumptions restart_reuse_witness_repaired.

(** CURRENT engine (and pre-fix alike): an allocation that overtakes the log half of a deallocation (two threads)
    breaks (b) after the next restart, with every other hypothesis in place.  Finding F-ALLOC-LOG-RACE. *)
Theorem dealloc_log_race_refuted :
  exists ops st outs,
    pa_run_g pa_now (fun st o => pa_client_ok_norace st o && pa_owned_ok st o) pa_init ops = Some (st, outs) /\
    pa_run_g pa_prefix (fun st o => pa_client_ok_norace st o && pa_image_ok pa_prefix st o) pa_init ops = Some (st, outs) /\
    ~ NoDup (pa_inuse st) /\ nth 6 outs POBad = PONew 1 /\ nth 9 outs POBad = PONew 1.
Proof. exact log_race_now_lemma. Qed.
Print Assumptions dealloc_log_race_refuted.

(** Outside the callers' contract: a page given back twice is on the list twice. *)
Theorem double_release_refuted :
  exists ops st outs, pa_run false pa_init ops = (st, outs) /\ ~ NoDup (pa_reusable st).
Proof. exact double_release_refuted_lemma. Qed.
Print Assumptions double_release_refuted.

(** C10: the first pages CREATE TABLE obtains from the allocator of the current engine — with any other operations
    inside [pa_guard_now] in between, none of which gives such a page back — are pairwise different ... *)
Theorem table_first_pages_distinct : forall ops st tp, pa_jrun pa_now pa_init [] ops = Some (st, tp) -> NoDup tp.
Proof. exact first_pages_now_lemma. Qed.
Print Assumptions table_first_pages_distinct.

(** ... which is the hypothesis of [storage_disjoint] (Props/C10.v): two tables never share their first page. *)
Theorem storage_disjoint_discharged : forall jops st fp cops,
  pa_jrun pa_now pa_init [] jops = Some (st, fp :: pages_of_ops cops) ->
  NoDup (map snd (tabs (crun1 reload cops (bootstrap fp)))).
Proof. exact storage_disjoint_now_lemma. Qed.
Print Assumptions storage_disjoint_discharged.

(** Non-vacuity (current engine): hash-join style and skip-list style deallocations, a cache-out of the flagged
    page, reuse, temporary pages given back above the end of the file, a heap page whose record is durable but whose
    page is not in the file, a crash restart (the NewTablePage redo puts the allocator at 5, the repair moves it past
    the beyond-file id 5 of the rebuilt list), allocation afterwards; every step inside [pa_guard_now]. *)
Example c13alloc_nonvacuous :
  exists st outs,
    pa_run_g pa_now pa_guard_now pa_init
      [ONew; OWrote 0; ONew; OWrote 1; ONew; OWrote 2; ORelease 1 MNow; OLogDealloc 1; ORelease 2 MFlag; OLogDealloc 2;
       OEvict 2; ONew; ONewHeap; ONewHeap; OFlushLog; ONew; ONew; ORelease 5 MNow; OLogDealloc 5;
       OCrashRestart 7 [0; 1; 3] [5]; ONew; ONew; OProbe] = Some (st, outs) /\
    nth 11 outs POBad = PONew 1 /\ nth 12 outs POBad = PONew 2 /\ nth 13 outs POBad = PONew 3 /\
    nth 20 outs POBad = PONew 5 /\ nth 21 outs POBad = PONew 6 /\ nth 22 outs POBad = PONew 7 /\
    pa_inuse st = [6; 5; 3; 1; 0] /\ pa_reusable st = [].
Proof. vm_compute. do 2 eexists. repeat split. Qed.

(** C10: three tables created around a restart. *)
Example c13alloc_tables :
  exists st, pa_jrun pa_now pa_init []
    [JCreate; JOther (OWrote 0); JCreate; JOther (OWrote 1); JOther ONew; JOther (ORelease 2 MNow);
     JOther (OLogDealloc 2); JOther (OCleanRestart [2]); JCreate] = Some (st, [0; 1; 2]).
Proof. vm_compute. eexists. reflexivity. Qed.
