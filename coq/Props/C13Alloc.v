(** C13 / C10 / C09 (page-id allocation) — a page id handed out by NewPage is never an id that is still in
    use, the ids in use are pairwise different, the reusable list has no duplicates and holds no id in use — in
    every state any sequence of operations can reach, clean and crash restarts included.

    The model ([Model/PageAlloc.v]) follows BufferPoolManager.NewPage / DeallocatePage, the cache-out of flagged
    pages, DiskManagerImpl.AllocatePage and its initialisation from the file size, the DEALLOCATE_PAGE / REUSE_PAGE
    / NewTablePage records, Redo's rebuilding of the list and the start-up sequence of NewSamehadaDB.  Page
    deallocation is not transactional in the engine (no undo, same treatment for committed and aborted callers),
    so transactions do not appear.  [pa_reach fx st]: [st] is reached from the empty database by operations that
    each satisfy
      [pa_client_ok]  the callers' contract and legal inputs (an owner gives back a page it owns; the log half of
                      a deallocation follows its memory half; no allocation takes an id whose DEALLOCATE_PAGE
                      record is still to be appended),
      [pa_image_ok]   at a restart: every id owned after it, and every id of the rebuilt reusable list, lies below
                      the point the allocator restarts from (file size + 1, raised by NewTablePage redo).
    [fx = false] is the engine as it is; [fx = true] a start-up that also raises the allocator above the rebuilt
    list (a repair the engine does not have), for which the second half of [pa_image_ok] is not needed.

    FALSE for the engine without [pa_image_ok] ([restart_reuse_beyond_file_refuted]; reproduced on the engine:
    hash-join temporary pages, clean shutdown, restart) and without the "no overtaking" clause of [pa_client_ok]
    ([dealloc_log_race_refuted]; needs two threads; reproduced on the engine with goroutines looping NewPage /
    UnpinPage / DeallocatePage(id,true): after a crash restart the rebuilt list holds ids the threads still own).
    Statements only. *)
From Coq Require Import List NArith Bool.
From SDB Require Import Base.Assoc Model.PageAlloc Model.Catalog Proofs.PageAllocProofs.
Import ListNotations.
Open Scope N_scope.

(** (a) The id NewPage returns (for a plain page or for a new heap page) is not in use by any owner, is not a
    released page still resident with the deallocation flag, and is not in the middle of a deallocation; after the
    call it is in use. *)
Theorem new_page_fresh : forall fx st o st' p, pa_reach fx st -> (o = ONew \/ o = ONewHeap) ->
  pa_client_ok st o = true -> pa_step fx st o = (st', PONew p) ->
  ~ In p (pa_inuse st) /\ ~ In p (pa_flagged st) /\ ~ In p (pa_pending st) /\ pa_inuse st' = p :: pa_inuse st.
Proof. exact new_page_fresh_lemma. Qed.
Print Assumptions new_page_fresh.

(** (b) The ids in use are pairwise different. *)
Theorem inuse_ids_distinct : forall fx st, pa_reach fx st -> NoDup (pa_inuse st).
Proof. exact inuse_distinct_lemma. Qed.
Print Assumptions inuse_ids_distinct.

(** (c) The reusable list has no duplicates, holds no id in use and no id of a flagged resident page. *)
Theorem reusable_list_well_formed : forall fx st, pa_reach fx st ->
  NoDup (pa_reusable st) /\ (forall p, In p (pa_reusable st) -> ~ In p (pa_inuse st))
  /\ (forall p, In p (pa_reusable st) -> ~ In p (pa_flagged st)).
Proof. exact reusable_ok_lemma. Qed.
Print Assumptions reusable_list_well_formed.

(** The executable checkers the correspondence run evaluates say the same. *)
Theorem allocation_checkers_hold : forall fx st, pa_reach fx st ->
  (match pa_reusable st with p :: _ => negb (memN p (pa_pending st)) | [] => true end = true -> pa_new_fresh st = true)
  /\ pa_inuse_nodup st = true /\ pa_reusable_ok st = true.
Proof. exact checkers_lemma. Qed.
Print Assumptions allocation_checkers_hold.

(** (d) Restarts are operations of [pa_reach]: (a)-(c) hold after any number of them.  In addition a clean
    shutdown and restart changes nothing for the owners (C09) and forgets no reusable id ... *)
Theorem clean_restart_keeps_owners_and_reusable_ids : forall fx st order st', pa_reach fx st ->
  pa_image_ok fx st (OCleanRestart order) = true ->
  st' = fst (pa_step fx st (OCleanRestart order)) ->
  pa_reach fx st' /\ pa_inuse st' = pa_inuse st /\
  (forall p, In p (pa_reusable st) -> In p (pa_pending st) \/ In p (pa_reusable st')) /\
  (forall p, In p (pa_reusable st') -> ~ In p (pa_inuse st')).
Proof. exact clean_restart_lemma. Qed.
Print Assumptions clean_restart_keeps_owners_and_reusable_ids.

(** ... and after a crash exactly the surviving owners own their ids, none of which is reusable. *)
Theorem crash_restart_keeps_survivors : forall fx st kept surv order st', pa_reach fx st ->
  pa_client_ok st (OCrashRestart kept surv order) = true ->
  pa_image_ok fx st (OCrashRestart kept surv order) = true ->
  st' = fst (pa_step fx st (OCrashRestart kept surv order)) ->
  pa_reach fx st' /\ (forall p, In p (pa_inuse st') <-> In p (pa_inuse st) /\ In p surv) /\
  (forall p, In p (pa_reusable st') -> ~ In p (pa_inuse st')).
Proof. exact crash_restart_lemma. Qed.
Print Assumptions crash_restart_keeps_survivors.

(** The owned half of the image hypothesis is what the engine provides for owned pages: the page is in the db
    file (FlushAllDirtyPages at shutdown; FlushPage in NewTableHeap and the catalog) or its NewTablePage record is
    in the durable part of the log (Redo takes the id from the allocator). *)
Theorem owned_image_established : forall st kept surv,
  (forall p, In p (pa_inuse st) -> In p surv ->
     p < pa_fsize st \/ In (RNewHeap p) (firstn kept (pa_log st))) ->
  pa_image_owned_ok st kept surv = true.
Proof. exact owned_image_lemma. Qed.
Print Assumptions owned_image_established.

(** For the ids of the rebuilt REUSABLE list the engine provides nothing, and without it (a)-(c) are false:
    callers that keep their contract, one thread, a clean shutdown and restart — NewPage returns 2, 3, 3. *)
Theorem restart_reuse_beyond_file_refuted :
  exists ops st outs, pa_run_g false pa_client_ok pa_init ops = Some (st, outs) /\
    ~ NoDup (pa_inuse st) /\ pa_inuse_nodup st = false /\
    nth 11 outs POBad = PONew 2 /\ nth 12 outs POBad = PONew 3 /\ nth 13 outs POBad = PONew 3.
Proof. exact restart_reuse_refuted_lemma. Qed.
Print Assumptions restart_reuse_beyond_file_refuted.

(** In that run the restart is the only step outside the hypotheses, and only in the reusable half. *)
Theorem restart_reuse_witness_breaks_only_the_reusable_half :
  forall st outs, pa_run_g false pa_client_ok pa_init (firstn 10 witness_beyond_file) = Some (st, outs) ->
  pa_image_owned_ok st (length (pa_log st)) (pa_inuse st) = true /\
  pa_image_reusable_ok st (length (pa_log st)) = false.
Proof. exact restart_reuse_witness_guard. Qed.
Print Assumptions restart_reuse_witness_breaks_only_the_reusable_half.

(** An allocation that overtakes the log half of a deallocation (two threads) breaks (b) after the next restart,
    with every other hypothesis in place, for the engine as it is and for the repaired start-up alike. *)
Theorem dealloc_log_race_refuted :
  exists ops st outs,
    pa_run_g true (fun st o => pa_client_ok_norace st o && pa_image_ok true st o) pa_init ops = Some (st, outs) /\
    pa_run_g false (fun st o => pa_client_ok_norace st o && pa_image_ok false st o) pa_init ops = Some (st, outs) /\
    ~ NoDup (pa_inuse st) /\ nth 6 outs POBad = PONew 1 /\ nth 9 outs POBad = PONew 1.
Proof. exact log_race_refuted_lemma. Qed.
Print Assumptions dealloc_log_race_refuted.

(** Outside the callers' contract: a page given back twice is on the list twice. *)
Theorem double_release_refuted :
  exists ops st outs, pa_run false pa_init ops = (st, outs) /\ ~ NoDup (pa_reusable st).
Proof. exact double_release_refuted_lemma. Qed.
Print Assumptions double_release_refuted.

(** C10: the first pages CREATE TABLE obtains from the allocator — with any other guarded operations in between,
    none of which gives such a page back — are pairwise different ... *)
Theorem table_first_pages_distinct : forall fx ops st tp, pa_jrun fx pa_init [] ops = Some (st, tp) -> NoDup tp.
Proof. exact first_pages_distinct_lemma. Qed.
Print Assumptions table_first_pages_distinct.

(** ... which is the hypothesis of [storage_disjoint] (Props/C10.v): two tables never share their first page. *)
Theorem storage_disjoint_discharged : forall fx jops st fp cops,
  pa_jrun fx pa_init [] jops = Some (st, fp :: pages_of_ops cops) ->
  NoDup (map snd (tabs (crun1 reload cops (bootstrap fp)))).
Proof. exact storage_disjoint_discharged_lemma. Qed.
Print Assumptions storage_disjoint_discharged.

(** Non-vacuity: hash-join style and skip-list style deallocations, a cache-out of the flagged page, reuse, a heap
    page whose record is durable but whose page is not in the file, a crash restart; every step guarded. *)
Example c13alloc_nonvacuous :
  exists st outs,
    pa_run_g false (pa_guard_all false) pa_init
      [ONew; OWrote 0; ONew; OWrote 1; ONew; OWrote 2; ORelease 1 MNow; OLogDealloc 1; ORelease 2 MFlag; OLogDealloc 2;
       OEvict 2; ONew; ONewHeap; ONewHeap; OFlushLog; OCrashRestart 6 [0; 1; 3] []; ONew; OProbe] = Some (st, outs) /\
    nth 11 outs POBad = PONew 1 /\ nth 12 outs POBad = PONew 2 /\ nth 13 outs POBad = PONew 3 /\
    nth 16 outs POBad = PONew 5 /\ pa_inuse st = [5; 3; 1; 0] /\ pa_reusable st = [].
Proof. vm_compute. do 2 eexists. repeat split. Qed.

(** The repaired start-up on the witness: no id is handed out twice. *)
Example c13alloc_repaired_startup :
  exists st outs, pa_run_g true (pa_guard_all true) pa_init witness_beyond_file = Some (st, outs) /\
    pa_inuse st = [4; 3; 2; 1; 0].
Proof. vm_compute. do 2 eexists. split; reflexivity. Qed.

(** C10: three tables created around a restart. *)
Example c13alloc_tables :
  exists st, pa_jrun false pa_init []
    [JCreate; JOther (OWrote 0); JCreate; JOther (OWrote 1); JOther ONew; JOther (ORelease 2 MNow);
     JOther (OLogDealloc 2); JOther (OWrote 2); JOther (OCleanRestart [2]); JCreate] = Some (st, [0; 1; 2]).
Proof. vm_compute. eexists. reflexivity. Qed.
