(** C14 — statements release every buffer pin they take; consequently a
    workload of any length runs in a fixed-size pool.
    The lifting step is proved here for ALL traces and ALL workloads; that each
    statement kind / plan shape of the engine is balanced is OBSERVED on the
    implementation by the correspondence run (pin vector before = after), which
    by [balance_is_what_is_observed] is exactly the hypothesis used.
    Statements only. *)
From Coq Require Import List ZArith NArith Bool.
From SDB Require Import Model.Pins Proofs.PinsProofs.
Import ListNotations.
Open Scope Z_scope.

Theorem balance_is_what_is_observed : forall tr v,
  (forall q, apply_trace v tr q = v q) <-> balanced tr.
Proof. exact observed_balance. Qed.
Print Assumptions balance_is_what_is_observed.

Theorem balanced_preserves_pins : forall tr v, balanced tr -> forall q, apply_trace v tr q = v q.
Proof. exact balanced_preserves. Qed.
Print Assumptions balanced_preserves_pins.

(** Any number of balanced statements, repeated any number of times. *)
Theorem workload_of_any_length_preserves_pins : forall (stmts : list (list pev)) v,
  Forall balanced stmts -> forall q, apply_trace v (concat stmts) q = v q.
Proof. exact workload_preserves. Qed.
Print Assumptions workload_of_any_length_preserves_pins.

(** At no point of a workload of any length are more extra pins held than the
    largest single-statement peak: a pool with [permanent + bound] frames is
    never exhausted. *)
Theorem balanced_forever : forall (stmts : list (list pev)) (bound : Z), 0 <= bound ->
  Forall (fun s => held s = 0 /\ peak s <= bound) stmts ->
  forall pre suf, concat stmts = pre ++ suf -> held pre <= bound.
Proof. exact workload_prefix_bound. Qed.
Print Assumptions balanced_forever.

Theorem balance_check_sound : forall tr, balancedb tr = true -> balanced tr.
Proof. exact balancedb_sound. Qed.
Print Assumptions balance_check_sound.

Example c14_nonvacuous :
  let s1 := [Pin 3; Pin 4; Unpin 3; Pin 5; Unpin 5; Unpin 4] in
  balancedb s1 = true /\ held s1 = 0 /\ peak s1 = 2 /\
  balancedb [Pin 3; Pin 4; Unpin 3] = false.
Proof. vm_compute. repeat split. Qed.
