(** C01 — committed transactions survive any crash; restart always succeeds.
    C02's statement (unfinished work leaves no trace) is the other half of the
    same theorem and lives in Props/C02.v.

    Objects (Model/Wal.v): [l] is the durable log of the crash image (the
    records of pages whose creation is in the log: [scope]), [disk] the table
    pages found in the data file, [order] the order in which the restart
    undoes the unfinished transactions (the code iterates a Go map: any order).
    [image_wf l disk] collects the checkable facts the engine is expected to
    establish (and the correspondence run evaluates on every real crash
    image): the log replays ([log_ok]), prevLSN chains are intact
    ([chains_ok]), strict two-phase locking kept unfinished transactions'
    slots to themselves ([strict_ok]), table pages are not re-created
    ([fresh_pages_ok]), every page in the file is the state of that page after
    SOME prefix of the log — pages are written whole and only after their log
    records (write-ahead logging, C08) — ([disk_ok]), and the crash did not hit
    the middle of a commit that applies deletes ([no_loser_apply]).
    The theorems hold for EVERY such log, disk image and undo order: every
    history, every eviction pattern, every crash point.  Statements only. *)
From Coq Require Import List NArith Bool Permutation.
From SDB Require Import Base.Assoc Model.Page Model.Wal Proofs.WalProofs.
Import ListNotations.
Open Scope N_scope.

(** Redo repeats history: whatever subset of pages had reached the file, and
    in whatever state, after redo every page is exactly as it was in memory
    when the last durable record was written. *)
Theorem redo_repeats_history : forall l disk, log_ok l = true -> fresh_pages_ok l [] = true -> disk_ok l disk = true ->
  forall p, get_page (redo l disk) p = get_page (replay l []) p.
Proof. exact redo_repeats. Qed.
Print Assumptions redo_repeats_history.

(** After restart every slot of every table page holds exactly what the finished
    (committed, or completely rolled back) transactions left there. *)
Theorem recovery_restores_committed_state : forall l disk order, image_wf l disk = true ->
  Permutation order (losers l) ->
  forall p s, page_val (recover l order disk) p s = committed_val l p s.
Proof. exact recover_committed. Qed.
Print Assumptions recovery_restores_committed_state.

(** In particular the last change a committed transaction made to a row is there:
    if record [r] of a committed transaction is the last record on its slot not written by an
    unfinished transaction, the slot holds the result of [r]. *)
Theorem committed_effects_survive : forall l disk order p s pre r post,
  image_wf l disk = true -> Permutation order (losers l) ->
  l = pre ++ r :: post -> on_slot p s r = true ->
  existsb (fun r' => (l_txn r' =? l_txn r) && match l_kind r' with KCommit => true | _ => false end) l = true ->
  forallb (fun r' => negb (on_slot p s r') || memN (l_txn r') (losers l)) post = true ->
  forallb (fun r' => match l_kind r' with KNewPage _ p' => negb (p' =? p) | _ => true end) post = true ->
  page_val (recover l order disk) p s =
    slot_step (slot_val (filter (fun r' => negb (memN (l_txn r') (losers l))) pre) p s) (l_kind r).
Proof. exact committed_survive. Qed.
Print Assumptions committed_effects_survive.

(** Restart itself always succeeds: no page operation of redo or undo panics,
    runs out of space or fails. *)
Theorem restart_succeeds : forall l disk order, image_wf l disk = true ->
  Permutation order (losers l) ->
  forallb out_ok (recover_outs l order disk) = true.
Proof. exact restart_ok. Qed.
Print Assumptions restart_succeeds.

(** Non-vacuity: a crash image with a committed insert+update, a committed
    delete, an unfinished insert on the same page, one page already on disk in
    an intermediate state and one never written. *)
Example c01_nonvacuous :
  let l := [ mkR 0 1 None KBegin; mkR 1 1 (Some 0) (KNewPage 0 5); mkR 2 1 (Some 1) (KInsert 5 0 [1;2;3]);
             mkR 3 1 (Some 2) KCommit;
             mkR 4 2 None KBegin; mkR 5 2 (Some 4) (KUpdate 5 0 [1;2;3] [9;9;9;9]); mkR 6 2 (Some 5) (KInsert 5 1 [7]);
             mkR 7 2 (Some 6) KCommit;
             mkR 8 3 None KBegin; mkR 9 3 (Some 8) (KInsert 5 2 [8;8]);
             mkR 10 4 None KBegin; mkR 11 4 (Some 10) (KMark 5 1); mkR 12 4 (Some 11) (KApply 5 1 [7]); mkR 13 4 (Some 12) KCommit ] in
  let disk := [ (5, mkAP 5 [Some ([9;9;9;9], false)]) ] in
  image_wf l disk = true /\ losers l = [3] /\
  map (page_val (recover l [3] disk) 5) [0; 1; 2] = [Some ([9;9;9;9], false); None; None].
Proof. vm_compute. repeat split. Qed.
