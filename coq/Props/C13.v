(** C13 — the buffer pool always returns the latest bytes of a page.
    Every statement quantifies over ALL pool sizes >= 1 and ALL histories of
    new / fetch / write / unpin (dirty or clean) / flush / flush-all /
    deallocate (noWait or not) / mark-deallocated calls that obey the client
    contract of Model/PoolClient.v, with ANY legal choice of victim frames.
    Statements only. *)
From Coq Require Import List NArith ZArith Bool.
From SDB Require Import Base.Assoc Model.Pool Model.PoolClient Proofs.PoolProofs.
Import ListNotations.
Open Scope N_scope.

Definition reachable (n : nat) (b : pool) (c : client) : Prop :=
  exists ops outs, crun n (binit n, cinit) ops = Some (b, c, outs).

(** Reading a page yields the bytes most recently written to it, whatever
    evictions, flushes, deallocations and page-id reuse happened in between. *)
Theorem fetch_returns_latest : forall n b c p vic v, (0 < n)%nat -> reachable n b c ->
  aget (c_spec c) p = Some v ->
  forall b' c' out, cstep n (b, c) (BFetch p vic) = Some (b', c', out) -> out = BOFetched v.
Proof. exact fetch_latest. Qed.
Print Assumptions fetch_returns_latest.

(** No call of a contract-abiding history panics, hangs or fails to find a frame. *)
Theorem no_panic_no_hang : forall n b c o b' c' out, (0 < n)%nat -> reachable n b c ->
  cstep n (b, c) o = Some (b', c', out) ->
  out <> BOPanic /\ out <> BOHang /\
  (forall v, o = BNew v -> exists p, out = BONew p).
Proof. exact no_panic. Qed.
Print Assumptions no_panic_no_hang.

(** A page that is in use is never evicted or handed to another page id: every
    pinned page is resident in exactly one frame, with the users' pin count and
    (if it was ever written) the latest written bytes. *)
Theorem pinned_never_evicted : forall n b c p, (0 < n)%nat -> reachable n b c ->
  0 < pins_of c p ->
  exists f fr, aget (ptable b) p = Some f /\ fr_at b f = Some fr /\ f_pid fr = p /\
               f_pin fr = Z.of_N (pins_of c p) /\
               (forall v, aget (c_spec c) p = Some v -> f_val fr = v) /\
               (forall g fr', fr_at b g = Some fr' -> f_pid fr' = p -> g = f).
Proof. exact pinned_resident. Qed.
Print Assumptions pinned_never_evicted.

(** A newly allocated page id is never one that is still in use: nobody holds a
    pin on it, it holds no written content, and it is not resident — except as
    the unpinned, deallocation-flagged page that this very call caches out (its
    id goes to the reusable list and may be handed out at once; the theorem
    [new_id_may_be_the_evicted_one] shows this case is real). *)
Theorem new_id_fresh : forall n b c vic b' c' p, (0 < n)%nat -> reachable n b c ->
  cstep n (b, c) (BNew vic) = Some (b', c', BONew p) ->
  pins_of c p = 0 /\ aget (c_spec c) p = None /\
  (aget (ptable b) p = None \/
   (freel b = [] /\ aget (ptable b) p = Some vic /\
    exists fr, fr_at b vic = Some fr /\ f_pin fr = 0%Z /\ f_dealloc fr = true)).
Proof. exact new_fresh_partial. Qed.
Print Assumptions new_id_fresh.

Theorem new_id_may_be_the_evicted_one :
  exists n b c vic b' c' p, (0 < n)%nat /\ reachable n b c /\
    cstep n (b, c) (BNew vic) = Some (b', c', BONew p) /\ aget (ptable b) p <> None.
Proof. exact new_fresh_refuted. Qed.
Print Assumptions new_id_may_be_the_evicted_one.

(** One frame per page; the replacer only ever contains unpinned resident frames,
    so a legal victim is never a page in use. *)
Theorem one_frame_per_page : forall n b c, (0 < n)%nat -> reachable n b c ->
  (forall f g fr fr', fr_at b f = Some fr -> fr_at b g = Some fr' -> f_pid fr = f_pid fr' -> f = g) /\
  (forall f, In f (repl b) -> exists fr, fr_at b f = Some fr /\ f_pin fr = 0%Z) /\
  locked b = false.
Proof. exact frames_unique. Qed.
Print Assumptions one_frame_per_page.

(** Non-vacuity: a contract-abiding history with eviction of a dirty page,
    deallocation of a resident page, id reuse and a re-fetch. *)
Example c13_nonvacuous :
  exists b c outs,
    crun 2 (binit 2, cinit)
      [BNew 0; BWrite 0 11; BUnpin 0 true; BNew 0; BWrite 1 5; BUnpin 1 true; BNew 0; BUnpin 2 false;
       BFetch 0 1; BUnpin 0 false; BDealloc 2 true; BNew 0; BFetch 0 0] = Some (b, c, outs) /\
    nth 8 outs BOBad = BOFetched 11 /\ nth 11 outs BOBad = BONew 2 /\ nth 12 outs BOBad = BOFetched 11.
Proof. vm_compute. do 3 eexists. repeat split. Qed.
