(** C10 (catalog persistence) — tables keep their identity and their schema across
    restarts: how a table is written to the two catalog heaps, how it is read
    back, and what the two maps of the catalog answer afterwards.  For ALL
    sequences of CREATE TABLE (through SQL or straight through the catalog API)
    and clean restarts.

    The objects ([Model/CatalogRows.v], following lib/catalog/table_catalog.go):
      [cr_tab]   a table of the in-memory catalog: oid, name, first heap page, and
                 per column ([cr_col]) name, type, lengths, offset, has-index,
                 index kind, index header page;
      [cr_state] nextTableID, the tables in the order the two Go maps were assigned
                 (a lookup returns the LAST match), the heap of the table catalog
                 (rows oid / name / first_page) and of the columns catalog (one
                 row per column, nine fields), each a chain of 4096-byte pages
                 with the remembered insertion page of TableHeap.InsertTuple;
      [cr_step]  [CrCreate sql name specs first]: Catalog.CreateTable ([sql]: after
                 the planner's "already exists" test); [CrRestart]: clean shutdown
                 and RecoveryCatalogFromCatalogPage ([cr_reload]: for every row
                 of the table catalog in heap order, the rows of the columns
                 catalog with that table oid in heap order);
      [cr_run]   a history from BootstrapCatalog ([cr_boot]: table 0
                 "columns_catalog" on page 1);
      [cr_lookup_oid], [cr_lookup_name] GetTableByOID / GetTableByName.
    Inputs decided by the engine (first heap page, header pages reported by hash
    and B-tree index constructors) are arguments of [CrCreate]; the extracted
    model is run against the real catalog by lib/catcorr.py.
    Statements only. *)
From Coq Require Import List NArith ZArith Bool Permutation.
From SDB Require Import Params Model.CatalogRows Proofs.CatalogRowsProofs.
Import ListNotations.
Open Scope N_scope.

(** * Reload gives back what was written *)

(** (a) For any list of tables with pairwise distinct oids, lower-case column names and offsets
    that are the running sums of the fixed lengths ([cr_tabs_wf], a boolean), reloading the rows
    written for them gives back exactly these tables: oid, name, first page, and per column name,
    type, lengths, offset, has-index, index kind, header page, in order.  Tables without columns,
    names with '.', names that are prefixes of each other need nothing special. *)
Theorem reload_of_persisted_rows : forall tabs,
  cr_tabs_wf tabs = true -> cr_reload (cr_persist_t tabs) (cr_persist_c tabs) = tabs.
Proof. exact cr_reload_persist_lemma. Qed.
Print Assumptions reload_of_persisted_rows.

(** both halves of the guard are needed: two tables under one oid each get the columns of both;
    a column name that is not lower case comes back lower case *)
Theorem reload_guard_needed :
  (exists tabs, forallb cr_tab_wf tabs = true /\ cr_reload (cr_persist_t tabs) (cr_persist_c tabs) <> tabs) /\
  (exists tabs, cr_nodup_n (map ct_oid tabs) = true /\ cr_reload (cr_persist_t tabs) (cr_persist_c tabs) <> tabs).
Proof. exact cr_reload_guard_needed_lemma. Qed.
Print Assumptions reload_guard_needed.

(** every table CreateTable builds satisfies the guard *)
Theorem created_table_well_formed : forall oid name specs first,
  cr_tab_wf (cr_mk_tab oid name specs first) = true.
Proof. exact cr_mk_tab_wf. Qed.
Print Assumptions created_table_well_formed.

(** * What a create registers *)

(** an accepted create with legal index kinds registers one table, under the next oid *)
Theorem create_registers : forall st sql name specs first,
  cr_refused st sql name = false -> forallb cr_idx_legal specs = true ->
  let t := cr_mk_tab (cr_next st) name specs first in
  cr_mem (cr_step st (CrCreate sql name specs first)) = cr_mem st ++ [t] /\
  cr_next (cr_step st (CrCreate sql name specs first)) = cr_next st + 1.
Proof. exact cr_create_registers_lemma. Qed.
Print Assumptions create_registers.

(** and that table is the table asked for *)
Theorem created_table_schema : forall oid name specs first,
  let t := cr_mk_tab oid name specs first in
  ct_oid t = oid /\ ct_name t = cr_lower name /\ ct_first t = first /\
  map cc_name (ct_cols t) = map (fun s => cr_attach (cr_lower name) (cr_lower (cs_name s))) specs /\
  map cc_type (ct_cols t) = map cs_type specs /\
  map cc_hasidx (ct_cols t) = map cs_hasidx specs /\
  map cc_kind (ct_cols t) = map cs_kind specs /\
  map cc_hdr (ct_cols t) = map cr_col_hdr specs.
Proof. exact cr_mk_tab_schema_lemma. Qed.
Print Assumptions created_table_schema.

(** * Tables are found again *)

(** (b) by oid, no guard: a table that is in the catalog after [ops1] is found under its oid,
    with every field unchanged, after any further creates and restarts [ops2] *)
Theorem table_found_by_oid : forall ops1 ops2 t,
  In t (cr_mem (cr_run ops1)) -> cr_lookup_oid (cr_run (ops1 ++ ops2)) (ct_oid t) = Some t.
Proof. exact cr_found_by_oid_lemma. Qed.
Print Assumptions table_found_by_oid.

(** (b) by name, SQL path, no guard: under its name in any letter case *)
Theorem table_found_by_name_sql : forall ops1 ops2 t n,
  forallb cr_op_sql (ops1 ++ ops2) = true ->
  In t (cr_mem (cr_run ops1)) -> cr_lower n = ct_name t ->
  cr_lookup_name (cr_run (ops1 ++ ops2)) n = Some t.
Proof. exact cr_found_by_name_sql_lemma. Qed.
Print Assumptions table_found_by_name_sql.

(** the SQL path never puts two tables under one name *)
Theorem sql_names_distinct : forall ops,
  forallb cr_op_sql ops = true -> cr_names_distinct (cr_run ops) = true.
Proof. exact cr_sql_names_distinct_lemma. Qed.
Print Assumptions sql_names_distinct.

(** (b) by name, any mix of SQL and API creates — FALSE as it stands: Catalog.CreateTable registers
    a second table under a taken name and the first is no longer found by name (it still is by oid) *)
Theorem table_found_by_name_refuted :
  exists ops1 ops2 t n,
    In t (cr_mem (cr_run ops1)) /\ cr_lower n = ct_name t /\
    cr_lookup_name (cr_run (ops1 ++ ops2)) n <> Some t.
Proof. exact cr_found_by_name_refuted_lemma. Qed.
Print Assumptions table_found_by_name_refuted.

(** ... and true under the guard: no two tables under one name at the end of the history *)
Theorem table_found_by_name_partial : forall ops1 ops2 t n,
  In t (cr_mem (cr_run ops1)) -> cr_names_distinct (cr_run (ops1 ++ ops2)) = true ->
  cr_lower n = ct_name t -> cr_lookup_name (cr_run (ops1 ++ ops2)) n = Some t.
Proof. exact cr_found_by_name_partial_lemma. Qed.
Print Assumptions table_found_by_name_partial.

(** * A restart is not observable through the maps *)

Theorem restart_keeps_oid_map : forall ops o,
  cr_lookup_oid (cr_restart (cr_run ops)) o = cr_lookup_oid (cr_run ops) o.
Proof. exact cr_restart_oid_lemma. Qed.
Print Assumptions restart_keeps_oid_map.

(** what is loaded: the same tables, in the heap order of the table catalog *)
Theorem restart_loads_the_catalog : forall ops,
  Permutation (cr_mem (cr_restart (cr_run ops))) (cr_mem (cr_run ops)) /\
  map cr_trow_of (cr_mem (cr_restart (cr_run ops))) = cr_flat (cr_theap (cr_run ops)).
Proof. exact cr_restart_loads_lemma. Qed.
Print Assumptions restart_loads_the_catalog.

(** the name map — FALSE as it stands.  InsertTuple starts at the first page again after a restart,
    so a later row can land before earlier ones; with two tables under one name the one found
    changes at the NEXT restart.  Witness [cr_w_flip]: 18 tables with 200-byte names (the 18th opens
    page 2 of the table catalog), table "ab" (oid 19, page 2), restart, table "AB" through the API
    (oid 20: fits into the rest of page 1): "ab" is table 20 now and table 19 after a restart.
    Replayed on the engine (lib/catcorr.py, probe F-CAT-NAME-FLIP). *)
Theorem restart_keeps_name_map_refuted :
  exists ops n, cr_lookup_name (cr_restart (cr_run ops)) n <> cr_lookup_name (cr_run ops) n.
Proof. exact cr_restart_name_refuted_lemma. Qed.
Print Assumptions restart_keeps_name_map_refuted.

Theorem restart_keeps_name_map_partial : forall ops n,
  cr_names_distinct (cr_run ops) = true ->
  cr_lookup_name (cr_restart (cr_run ops)) n = cr_lookup_name (cr_run ops) n.
Proof. exact cr_restart_name_partial_lemma. Qed.
Print Assumptions restart_keeps_name_map_partial.

(** * Identifiers and storage *)

(** (c) oids are pairwise distinct and the next oid is above all of them (a create that panics
    on an illegal index kind consumes an oid and registers nothing) *)
Theorem catalog_oids_distinct : forall ops,
  NoDup (map ct_oid (cr_mem (cr_run ops))) /\
  (forall t, In t (cr_mem (cr_run ops)) -> ct_oid t < cr_next (cr_run ops)) /\
  1 <= cr_next (cr_run ops).
Proof. exact cr_oids_distinct_lemma. Qed.
Print Assumptions catalog_oids_distinct.

(** first pages and hash / B-tree header pages of all tables are pairwise different, given that the
    pool hands out page ids that are not in use (C13 new_id_fresh) *)
Theorem catalog_storage_disjoint : forall ops,
  NoDup (1%Z :: cr_ops_pages cr_boot ops) -> NoDup (cr_state_pages (cr_run ops)).
Proof. exact cr_storage_disjoint_lemma. Qed.
Print Assumptions catalog_storage_disjoint.

(** * What the two heaps hold *)

(** after any history: one row of the table catalog per table; for every table its column rows,
    in column order, are what the reload loop selects; no other rows *)
Theorem catalog_heaps_hold_the_tables : forall ops,
  let st := cr_run ops in
  Permutation (cr_flat (cr_theap st)) (map cr_trow_of (cr_mem st)) /\
  (forall t, In t (cr_mem st) -> cr_rows_for (Z.of_N (ct_oid t)) (cr_flat (cr_cheap st)) = cr_crows_of t) /\
  (forall w, In w (cr_flat (cr_cheap st)) -> exists t, In t (cr_mem st) /\ In w (cr_crows_of t)).
Proof. exact cr_catalog_rows_lemma. Qed.
Print Assumptions catalog_heaps_hold_the_tables.

(** * Examples *)

(** "Foo" (SQL: a int, B varchar) then a table without columns through the API, a restart, one more table *)
Definition ex_specs : list cr_colspec :=
  [mkCrSpec [97] 4%Z true 2%Z (-1)%Z (-1)%Z; mkCrSpec [66] 8%Z true 2%Z (-1)%Z (-1)%Z].
Definition ex_ops : list cr_op :=
  [CrCreate true [70; 111; 111] ex_specs 2%Z; CrCreate false [101] [] 9%Z; CrRestart;
   CrCreate true [102; 79; 79] ex_specs 20%Z;                                   (* refused: "foo" exists *)
   CrCreate false [120] [mkCrSpec [107] 4%Z true 3%Z (-1)%Z 31%Z] 30%Z].

Example ex_foo :
  cr_lookup_name (cr_run ex_ops) [70; 79; 79] =
  Some (mkCrTab 1 [102; 111; 111] 2%Z
         [mkCrCol [102; 111; 111; 46; 97] 4%Z 5 0 0 true 2%Z (-1)%Z;
          mkCrCol [102; 111; 111; 46; 98] 8%Z 4 255 5 true 2%Z (-1)%Z]).
Proof. vm_compute. reflexivity. Qed.

Example ex_oids : map ct_oid (cr_mem (cr_run ex_ops)) = [0; 1; 2; 3] /\ cr_next (cr_run ex_ops) = 4.
Proof. vm_compute. split; reflexivity. Qed.

Example ex_hash_header :
  option_map (fun t => map cc_hdr (ct_cols t)) (cr_lookup_oid (cr_restart (cr_run ex_ops)) 3) = Some [31%Z].
Proof. vm_compute. reflexivity. Qed.

(** an indexed column with an illegal index kind: the create panics, the oid is gone *)
Example ex_panic :
  let st := cr_run [CrCreate false [112] [mkCrSpec [107] 4%Z true 0%Z (-1)%Z (-1)%Z] 2%Z; CrCreate false [113] [] 3%Z] in
  map ct_oid (cr_mem st) = [0; 2].
Proof. vm_compute. reflexivity. Qed.

(** the name-flip witness, step by step *)
Example ex_flip_rows :
  map (fun e => (fst (fst e), snd (fst e), tr_oid (snd e))) (skipn 18 (cr_dump (cr_theap (cr_run cr_w_flip))))
  = [(0, 18, 20%Z); (1, 0, 18%Z); (1, 1, 19%Z)].
Proof. vm_compute. reflexivity. Qed.
Example ex_flip_before : option_map ct_oid (cr_lookup_name (cr_run cr_w_flip) [97; 98]) = Some 20.
Proof. vm_compute. reflexivity. Qed.
Example ex_flip_after : option_map ct_oid (cr_lookup_name (cr_restart (cr_run cr_w_flip)) [97; 98]) = Some 19.
Proof. vm_compute. reflexivity. Qed.

(** the longest table name whose catalog row fits into an empty page has 4047 bytes; CREATE TABLE with a
    longer one never returns on the engine (F-ROW-TOO-LARGE; checked: 4047 returns, 4048 hangs) *)
Example ex_name_fits : cr_create_fits (repeat 97 4047) [] = true /\ cr_create_fits (repeat 97 4048) [] = false.
Proof. vm_compute. split; reflexivity. Qed.
