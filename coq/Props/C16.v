(** C16 — row locks follow the shared/exclusive compatibility rules until
    transaction end.  All statements are about every state reachable from the
    empty lock manager by ANY sequence of requests by any number of
    transactions on any set of rows.  Statements only. *)
From Coq Require Import List NArith Bool.
From SDB Require Import Base.Assoc Model.Lock Proofs.LockProofs.
Import ListNotations.
Open Scope N_scope.

Definition reachable (s : lstate) : Prop := exists ops, s = lrun ops linit.

(** Reachable-state invariants. *)
Theorem x_holder_excludes_other_s : forall s, reachable s ->
  forall r t u, holdsX s t r -> holdsS s u r -> u = t.
Proof. exact inv_x_excludes_s. Qed.
Print Assumptions x_holder_excludes_other_s.

Theorem no_duplicate_holder : forall s, reachable s -> forall r, NoDup (agetl (sh s) r).
Proof. exact inv_nodup. Qed.
Print Assumptions no_duplicate_holder.

(** The transaction's own lock sets agree with the tables. *)
Theorem lockset_views_agree : forall s, reachable s -> forall t r,
  (holdsS s t r <-> In r (agetl (sset s) t)) /\
  (holdsX s t r <-> In r (agetl (xset s) t)).
Proof. exact inv_views. Qed.
Print Assumptions lockset_views_agree.

(** Granting rules. *)
Theorem shared_granted_iff : forall s t r, reachable s ->
  (snd (lstep s (LockS t r)) = Granted <-> (forall o, o <> t -> ~ holdsX s o r)) /\
  (snd (lstep s (LockS t r)) = Granted \/ snd (lstep s (LockS t r)) = Denied).
Proof. exact lockS_granted_iff. Qed.
Print Assumptions shared_granted_iff.

Theorem excl_granted_iff : forall s t r, reachable s ->
  (snd (lstep s (LockX t r)) = Granted <-> (forall o, o <> t -> ~ holds s o r)) /\
  (snd (lstep s (LockX t r)) = Granted \/ snd (lstep s (LockX t r)) = Denied).
Proof. exact lockX_granted_iff. Qed.
Print Assumptions excl_granted_iff.

Theorem upgrade_granted_iff : forall s t r, reachable s -> holdsS s t r ->
  (snd (lstep s (Upgrade t r)) = Granted <-> (forall o, o <> t -> ~ holds s o r)) /\
  (snd (lstep s (Upgrade t r)) = Granted \/ snd (lstep s (Upgrade t r)) = Denied).
Proof. exact upgrade_granted_iff_lemma. Qed.
Print Assumptions upgrade_granted_iff.

(** A granted request is held afterwards. *)
Theorem granted_is_held : forall s t r, reachable s ->
  (snd (lstep s (LockS t r)) = Granted -> holds (fst (lstep s (LockS t r))) t r) /\
  (snd (lstep s (LockX t r)) = Granted -> holdsX (fst (lstep s (LockX t r))) t r) /\
  (snd (lstep s (Upgrade t r)) = Granted -> holdsX (fst (lstep s (Upgrade t r))) t r).
Proof. exact granted_held. Qed.
Print Assumptions granted_is_held.

(** Requests for locks already held succeed. *)
Theorem reacquire_succeeds : forall s t r, reachable s ->
  (holds s t r -> snd (lstep s (LockS t r)) = Granted) /\
  (holdsX s t r -> snd (lstep s (LockX t r)) = Granted) /\
  (holdsX s t r -> holdsS s t r -> snd (lstep s (Upgrade t r)) = Granted).
Proof. exact reacquire. Qed.
Print Assumptions reacquire_succeeds.

(** A denied request (and a panicking upgrade) leaves every lock unchanged:
    the state is equal, not merely equivalent. *)
Theorem denied_changes_nothing : forall s o,
  snd (lstep s o) = Denied \/ snd (lstep s o) = LPanic -> fst (lstep s o) = s.
Proof. exact denied_same. Qed.
Print Assumptions denied_changes_nothing.

(** Locks disappear only when their transaction ends... *)
Theorem locks_persist : forall s o t r, reachable s -> o <> UnlockAll t ->
  (holdsS s t r -> holdsS (fst (lstep s o)) t r) /\
  (holdsX s t r -> holdsX (fst (lstep s o)) t r).
Proof. exact persist. Qed.
Print Assumptions locks_persist.

(** ... no request creates or upgrades a lock for anybody but the requester ... *)
Theorem others_unchanged : forall s o t r u, reachable s ->
  match o with LockS t' _ | LockX t' _ | Upgrade t' _ | UnlockAll t' => t' = t end ->
  u <> t ->
  (holdsS (fst (lstep s o)) u r <-> holdsS s u r) /\
  (holdsX (fst (lstep s o)) u r <-> holdsX s u r).
Proof. exact others_same. Qed.
Print Assumptions others_unchanged.

(** ... and release-all removes exactly the requester's locks. *)
Theorem unlock_removes_all_own : forall s t r, reachable s ->
  ~ holds (fst (lstep s (UnlockAll t))) t r.
Proof. exact unlock_own. Qed.
Print Assumptions unlock_removes_all_own.

(** Non-vacuity: a reachable state with an S lock shared by two transactions
    and an X lock, on which the interesting cases occur. *)
Example c16_nonvacuous :
  let s := lrun [LockS 1 10; LockS 2 10; LockX 3 11; LockS 1 12] linit in
  snd (lstep s (LockX 1 10)) = Denied /\ snd (lstep s (Upgrade 1 10)) = Denied /\
  snd (lstep s (Upgrade 1 12)) = Granted /\ snd (lstep s (LockS 2 11)) = Denied /\
  snd (lstep s (Upgrade 2 12)) = LPanic.
Proof. vm_compute. repeat split. Qed.
