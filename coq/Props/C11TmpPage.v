(** C11 (temporary tuple page) — every build-side row of a hash join is read
    back exactly as it was stored, however many rows follow it and whatever
    their sizes.

    The model ([Model/TmpPage.v]) is byte level: a page is its 4096 bytes;
    Insert / Get / Init / Get/SetFreeSpacePointer of
    lib/materialization/tmp_tuple_page.go and tuple.DeserializeFrom are followed
    statement by statement, the uint32 arithmetic with its wrap-around, the
    truncating [copy] and the slice-bound panics included; [tp_insert_all] is the
    spill loop of HashJoinExecutor.Init.  [tp_nowrap d] is
    [4 + len d + 20 < 2^32] (a row below 4 GB); [tp_fits d] is
    [4 + len d + 20 <= 4096] (the row fits an empty tmp page: len <= 4072).
    Statements only. *)
From Coq Require Import List NArith ZArith Bool.
From SDB Require Import Params Base.Bytes Model.TmpPage Proofs.TmpPageProofs.
Import ListNotations.
Open Scope N_scope.

(** * One page *)

(** The invariant: page length 4096; 20 <= free <= 4096; header bytes 0..15
    unchanged; bytes 16..19 = le 4 free; every record inserted so far lies inside
    [free, 4096) with size field and data intact; records pairwise disjoint.
    It holds initially ... *)
Theorem tp_inv_init : forall pid,
  tp_inv (le 4 pid ++ zeros 12) (tp_init pid) [] /\ tp_free (tp_init pid) = 4096.
Proof. exact tp_inv_init_proved. Qed.
Print Assumptions tp_inv_init.

(** ... every accepted insert keeps it, adds its own record, and moves the
    pointer down by exactly 4 + len ... *)
Theorem tp_inv_insert : forall hdr p recs d p' o,
  tp_inv hdr p recs -> tp_nowrap d -> tp_insert p d = Some (p', o) ->
  tp_inv hdr p' ((o, d) :: recs) /\ tp_free p' = o /\ o + 4 + N.of_nat (length d) = tp_free p.
Proof. exact tp_inv_insert_proved. Qed.
Print Assumptions tp_inv_insert.

(** ... hence after ANY sequence of inserts (any number, any sizes, refused ones
    included) it holds for the list of all records stored by the run. *)
Theorem tp_inv_inserts : forall pid ds pf os, Forall tp_nowrap ds ->
  tp_inserts (tp_init pid) ds = (pf, os) ->
  tp_inv (le 4 pid ++ zeros 12) pf (tp_recs ds os []).
Proof. exact tp_inv_inserts_proved. Qed.
Print Assumptions tp_inv_inserts.

(** Main theorem.  After any sequence of inserts on a well-formed page, every
    insert that succeeded with offset [o] and data [d] is read back as [d] by a
    later Get at [o], and that Get does not panic: later inserts damage neither
    earlier records nor the free-space pointer. *)
Theorem tp_get_after_inserts : forall p ds pf os, tp_wf p -> Forall tp_nowrap ds ->
  tp_inserts p ds = (pf, os) ->
  forall i d o, nth_error ds i = Some d -> nth_error os i = Some (Some o) ->
    tp_get pf o = d /\ tp_get_go pf o = Some d.
Proof. exact tp_get_after_inserts_proved. Qed.
Print Assumptions tp_get_after_inserts.

(** Records already on the page before the run, and the header, are kept too. *)
Theorem tp_inserts_keep : forall p ds pf os, tp_wf p -> Forall tp_nowrap ds ->
  tp_inserts p ds = (pf, os) ->
  tp_wf pf /\ tp_slice pf 0 16 = tp_slice p 0 16 /\
  forall o d, tp_has p o d -> N.of_nat (length d) < tp_w32 -> tp_get pf o = d.
Proof. exact tp_inserts_keep_proved. Qed.
Print Assumptions tp_inserts_keep.

(** The room check is exact: Insert refuses exactly when the record would reach
    below byte 20, the first byte after the free-space pointer. *)
Theorem tp_insert_none_iff : forall p d, tp_wf p -> tp_nowrap d ->
  (tp_insert p d = None <-> tp_free p < 4 + N.of_nat (length d) + 20).
Proof. exact tp_insert_none_iff_proved. Qed.
Print Assumptions tp_insert_none_iff.

(** ... and a refusal is a [false], never a slice-bound panic. *)
Theorem tp_insert_no_panic : forall p d, tp_wf p -> tp_nowrap d -> tp_insert_go p d <> TpPanic.
Proof. exact tp_insert_no_panic_proved. Qed.
Print Assumptions tp_insert_no_panic.

(** * The executor's spill loop *)

(** If every build-side row fits an empty page, every row is stored and is read
    back from its (page, offset) after the whole loop. *)
Theorem tp_insert_all_retrievable : forall ds pgs locs, Forall tp_fits ds ->
  tp_insert_all ds = (pgs, locs) ->
  length locs = length ds /\
  forall i d, nth_error ds i = Some d ->
    exists k o pg, nth_error locs i = Some (TpLoc k o) /\
      nth_error pgs k = Some pg /\ tp_get pg o = d /\ tp_get_go pg o = Some d.
Proof. exact tp_insert_all_retrievable_proved. Qed.
Print Assumptions tp_insert_all_retrievable.

(** The exact behaviour otherwise: the rows that fit are stored and retrievable
    as above; a row that does not fit an empty page (len > 4072) is NOT stored —
    the executor ignores the result of the second Insert and registers the stale
    TmpTuple: the location of the last row stored before it, or the zero value. *)
Theorem tp_insert_all_exact : forall ds pgs locs, Forall tp_nowrap ds ->
  tp_insert_all ds = (pgs, locs) ->
  length locs = length ds /\
  forall i d, nth_error ds i = Some d ->
    (tp_fits d -> exists k o pg, nth_error locs i = Some (TpLoc k o) /\
        nth_error pgs k = Some pg /\ tp_get pg o = d /\ tp_get_go pg o = Some d) /\
    (~ tp_fits d -> nth_error locs i = Some (TpStale (tp_last_loc None (firstn i locs)))).
Proof. exact tp_insert_all_exact_proved. Qed.
Print Assumptions tp_insert_all_exact.

(** * Tightness *)

(** The "+4" of the room check is necessary: with [freeOffset < needSize + 16]
    there is a run of three accepted inserts of rows that fit a page after which
    the first row is no longer read back (the second record's size field lands on
    bytes 17..20, i.e. on the free-space pointer). *)
Theorem tp_weak_check_refuted :
  exists ds pf os i d o,
    Forall tp_fits ds /\
    tp_inserts_with tp_insert_weak (tp_init 0) ds = (pf, os) /\
    nth_error ds i = Some d /\ nth_error os i = Some (Some o) /\
    tp_get pf o <> d.
Proof. exact tp_weak_check_refuted_proved. Qed.
Print Assumptions tp_weak_check_refuted.

(** The side condition [tp_nowrap] is exact too: a tuple size of 2^32 - 4 makes
    [needSize] wrap to 0, the check passes on any page holding a record, and the
    newest record's size field is overwritten (a 4 GB row; not reachable by SQL). *)
Theorem tp_wrap_damages : forall p d, tp_wf p -> tp_free p + 4 <= 4096 ->
  N.of_nat (length d) = tp_w32 - 4 ->
  exists p', tp_insert_go p d = TpOk p' (tp_free p) /\
    tp_slice p' (N.to_nat (tp_free p)) 4 = le 4 (tp_w32 - 4).
Proof. exact tp_wrap_damages_proved. Qed.
Print Assumptions tp_wrap_damages.

(** * Examples (evaluated) *)

(** boundary of the room check on an empty page: 4072 bytes fit (record at 20),
    4073 do not *)
Example tp_ex_boundary :
  (match tp_insert (tp_init 3) (repeat 5 4072) with Some (_, o) => Some o | None => None end,
   tp_insert (tp_init 3) (repeat 5 4073)) = (Some 20, None).
Proof. vm_compute. reflexivity. Qed.

(** three rows, read back after the last insert *)
Example tp_ex_roundtrip :
  let '(pf, os) := tp_inserts (tp_init 1) [[1; 2; 3]; []; [255; 0]] in
  (os, tp_get pf 4089, tp_get pf 4085, tp_get pf 4079, tp_free pf)
  = ([Some 4089; Some 4085; Some 4079], [1; 2; 3], [], [255; 0], 4079).
Proof. vm_compute. reflexivity. Qed.

(** the spill loop: a 4073-byte row between small ones gets a fresh page but is
    not stored; its location is the previous row's *)
Example tp_ex_spill :
  snd (tp_insert_all [[1; 2]; [3]; repeat 9 4073; [5]])
  = [TpLoc 0 4090; TpLoc 0 4085; TpStale (Some (0%nat, 4085)); TpLoc 1 4091].
Proof. vm_compute. reflexivity. Qed.

(** ... and as the very first row it is registered with the zero-valued TmpTuple *)
Example tp_ex_spill_first :
  snd (tp_insert_all [repeat 9 5000; [5]]) = [TpStale None; TpLoc 0 4091].
Proof. vm_compute. reflexivity. Qed.

(** a free-space pointer above the page (not reachable from Init) makes Insert panic *)
Example tp_ex_panic : tp_insert_go (tp_set_free (tp_init 0) 5000) [1] = TpPanic.
Proof. vm_compute. reflexivity. Qed.
