(** C12 — the request queue behind the SQL entry point.
    "When many callers issue SQL statements concurrently, every call returns
    exactly one result that belongs to its own statement; each statement
    takes effect exactly once even if it was internally aborted and retried;
    no call blocks forever."

    All statements are about every state reachable in the model
    Model/ReqMgr.v (request_manager.go + ExecuteSQL/ExecuteSQLForTxnTh) by ANY
    schedule — any interleaving of any number of callers, worker goroutines
    and the run loop, with any pattern of concurrency-control aborts.  The
    request-channel capacity [c], the worker limit [m] and the capacity [rc]
    of the per-request reply channels are parameters; the real system is
    [rinit_real]: [c = req_chan_capacity = 100], [m = max_txn_thread_num = 24],
    [rc = reply_chan_capacity = 1], all three generated into Params.v from the
    Go sources.

    F-REQ-DEADLOCK (FIXED defect; predicted by this model, reproduced on the
    engine, fixed in the repository by giving the reply channel capacity 1).
    With UNBUFFERED reply channels ([rc = 0], the code before the fix) the run
    loop hands a result to its caller by rendezvous while the caller may not
    yet have sent its wake-up token into the 100-slot channel that the loop
    itself drains; if that channel fills up in this window, loop and caller
    block on each other and, with them, every other caller and worker.  The
    unbuffered variant stays refuted by machine-checked witnesses:
    [no_deadlock_unbuffered_refuted] (real capacities, 102 callers) and
    [deadlock_at_capacity_refuted] (capacity 2, 4 callers).
    For the code as it is now, "no call blocks forever" is PROVED:
    [no_deadlock_buffered], and [no_deadlock_real] whose side conditions —
    including [1 <= reply_chan_capacity] — are discharged by computation from
    Params.v, so reverting the fix (which regenerates that constant as 0)
    breaks the proof; [all_answered_if_finite_aborts] is the liveness part.
    Statements only. *)
From Coq Require Import List NArith Bool.
From SDB Require Import Params Base.Assoc Model.ReqMgr Proofs.ReqMgrProofs.
Import ListNotations.
Open Scope nat_scope.

Definition reachable (c m rc : N) (s : rstate) : Prop :=
  exists schedule, rrun schedule (rinit c m rc) = Some s.

(** The real parameters satisfy the side conditions used below. *)
Example real_parameters :
  N.leb 1 req_chan_capacity = true /\ N.leb 2 max_txn_thread_num = true /\
  N.leb 1 reply_chan_capacity = true /\ rinit_real = rinit 100 24 1.
Proof. vm_compute. repeat split. Qed.

(** * Every call gets at most one reply, and it is the reply to its own statement *)

(** One table entry per caller; the number of replies received by caller [id]
    is at most one, and it is one exactly when the caller is done. *)
Theorem reply_at_most_once : forall c m rc s, reachable c m rc s ->
  NoDup (map fst (callers s)) /\
  forall id, occ id (replied s) <= 1 /\
    (occ id (replied s) = 1 <-> exists r o, aget (callers s) id = Some (CDone r o)).
Proof. exact reply_at_most_once_l. Qed.
Print Assumptions reply_at_most_once.

(** A caller that is done stays done with the same answer, whatever happens
    next; a reply waiting in a caller's (buffered) channel stays there until it
    becomes the caller's answer, unchanged. *)
Theorem reply_is_final : forall s l s' id r o,
  rstep s l = Some s' ->
  (aget (callers s) id = Some (CDone r o) -> aget (callers s') id = Some (CDone r o)) /\
  (aget (callers s) id = Some (Replied_not_signalled r o) ->
   aget (callers s') id = Some (Replied_not_signalled r o) \/
   aget (callers s') id = Some (CDone r o)).
Proof. exact done_stable_l. Qed.
Print Assumptions reply_is_final.

(** What a caller received is the result message of ITS request, with a final
    outcome; that request committed exactly once and was answered exactly once. *)
Theorem reply_is_own_result : forall c m rc s, reachable c m rc s ->
  forall id r o, In (id, CDone r o) (callers s) ->
    r = id /\ o = Ok /\ occ id (effects s) = 1 /\ occ id (replied s) = 1.
Proof. exact reply_is_own_result_l. Qed.
Print Assumptions reply_is_own_result.

(** The same for a reply still sitting in the caller's channel (this state
    exists only with buffered reply channels). *)
Theorem pending_reply_is_own_result : forall c m rc s, reachable c m rc s ->
  forall id r o, In (id, Replied_not_signalled r o) (callers s) ->
    r = id /\ o = Ok /\ occ id (effects s) = 1 /\ occ id (replied s) = 0 /\ (1 <= rc)%N.
Proof. exact pending_reply_is_own_result_l. Qed.
Print Assumptions pending_reply_is_own_result.

(** The aborted marker never reaches a caller: the loop never holds one for
    delivery, no caller has one and none waits in a reply channel. *)
Theorem aborted_never_delivered : forall c m rc s, reachable c m rc s ->
  (forall id o, loop s = Delivering id o -> o = Ok) /\
  (forall id r, ~ In (id, CDone r Aborted) (callers s)) /\
  (forall id r, ~ In (id, Replied_not_signalled r Aborted) (callers s)).
Proof. exact aborted_never_delivered_l. Qed.
Print Assumptions aborted_never_delivered.

(** * Each statement takes effect at most once, however often it is retried *)

(** A request commits at most once, and once it has committed it is neither
    queued nor running any more (it cannot be executed again). *)
Theorem effect_at_most_once : forall c m rc s, reachable c m rc s -> forall id,
  occ id (effects s) <= 1 /\
  (occ id (effects s) = 1 -> occ id (queue s) = 0 /\ occ id (workers s) = 0).
Proof. exact effect_at_most_once_l. Qed.
Print Assumptions effect_at_most_once.

(** * Accounting *)

(** curExectingReqNum = running workers + results not yet received; it never
    exceeds MaxTxnThreadNum (so the uint64 decrement never wraps) and the
    channel never holds more than its capacity. *)
Theorem accounting_invariant : forall c m rc s, reachable c m rc s ->
  cap s = c /\ maxw s = m /\ rcap s = rc /\
  N.to_nat (inflight s) = length (workers s) + count is_result (chan s) /\
  (inflight s <= maxw s)%N /\ length (chan s) <= N.to_nat (cap s).
Proof. exact accounting_l. Qed.
Print Assumptions accounting_invariant.

(** Every request is in exactly one place — the queue, a worker, a result
    message in the channel, the loop's hands, or answered (received, or in the
    caller's reply channel) — no duplication, no loss, per request ([places],
    see Model/ReqMgr.v) and in total. *)
Theorem each_request_exactly_one_place : forall c m rc s, reachable c m rc s ->
  (forall id, places s id = known (callers s) id) /\
  length (queue s) + length (workers s) + count is_result (chan s)
    + delivering (loop s) + count is_answered (callers s) = length (callers s).
Proof. exact one_place_l. Qed.
Print Assumptions each_request_exactly_one_place.

Theorem each_request_exactly_one_place_cases : forall c m rc s, reachable c m rc s ->
  forall id,
  (In id (queue s) \/ In id (workers s) -> aget (callers s) id <> None) /\
  (aget (callers s) id <> None -> places s id = 1) /\
  (aget (callers s) id = None -> places s id = 0).
Proof. exact one_place_cases_l. Qed.
Print Assumptions each_request_exactly_one_place_cases.

(** * No stranded request *)

(** The inductive invariant: the queue is longer than the number of pending
    wake-ups (tokens in the channel, callers that still owe their token, the
    loop's own pending dispatch) only while all [m] worker slots are taken. *)
Theorem backlog_only_when_saturated : forall c m rc s, reachable c m rc s ->
  length (queue s) <= count is_token (chan s) + count is_owing (callers s) + busy (loop s)
  \/ N.to_nat m <= N.to_nat (inflight s) + busy (loop s).
Proof. exact backlog_l. Qed.
Print Assumptions backlog_only_when_saturated.

(** A queued request with nothing left that would ever make the loop look at
    the queue again. *)
Definition stranded (s : rstate) : Prop :=
  queue s <> [] /\ chan s = [] /\ workers s = [] /\ loop s = Idle /\
  (forall id st, aget (callers s) id = Some st -> owes st = false).

Theorem no_stranding : forall c m rc s, (1 <= m)%N -> reachable c m rc s -> ~ stranded s.
Proof. exact no_stranding_l. Qed.
Print Assumptions no_stranding.

(** Positive form: a non-empty queue always comes with a pending message, a
    caller about to send one, a loop iteration in progress, or a worker. *)
Theorem queued_request_has_pending_wakeup : forall c m rc s, (1 <= m)%N ->
  reachable c m rc s -> queue s <> [] ->
  0 < count is_token (chan s) + count is_owing (callers s) + busy (loop s)
      + length (workers s) + count is_result (chan s).
Proof. exact pending_work_l. Qed.
Print Assumptions queued_request_has_pending_wakeup.

(** With at least two worker slots (the real value is 24): when nothing is in
    flight, every queued request still has its own wake-up pending. *)
Theorem idle_backlog_bound : forall c m rc s, (2 <= m)%N -> reachable c m rc s ->
  inflight s = 0%N ->
  length (queue s) <= count is_token (chan s) + count is_owing (callers s) + busy (loop s).
Proof. exact backlog_idle_l. Qed.
Print Assumptions idle_backlog_bound.

(** * No call blocks forever *)

(** [enabled] lists exactly the labels (other than new callers) that can fire. *)
Theorem enabled_is_sound : forall s l, In l (enabled s) -> exists s', rstep s l = Some s'.
Proof. exact enabled_sound. Qed.
Print Assumptions enabled_is_sound.

Theorem enabled_is_complete : forall s l s',
  rstep s l = Some s' -> is_enqueue l = false -> In l (enabled s).
Proof. exact enabled_complete. Qed.
Print Assumptions enabled_is_complete.

(** Everything has been answered and nothing is left to do. *)
Definition quiescent (s : rstate) : Prop :=
  queue s = [] /\ workers s = [] /\ chan s = [] /\ loop s = Idle /\
  forall id st, In (id, st) (callers s) -> exists r o, st = CDone r o.

(** In every reachable state something can happen unless every caller has
    received its answer and queue, workers, channel and loop are idle. *)
Definition no_deadlock (c m rc : N) : Prop :=
  forall s, reachable c m rc s -> enabled s <> [] \/ quiescent s.

(** PROVED for buffered reply channels ... *)
Theorem no_deadlock_buffered : forall c m rc, (1 <= c)%N -> (1 <= m)%N -> (1 <= rc)%N ->
  no_deadlock c m rc.
Proof. exact no_deadlock_buffered_l. Qed.
Print Assumptions no_deadlock_buffered.

(** ... hence for the code as it is: the three side conditions are computed
    from the generated constants ([1 <= reply_chan_capacity] fails to compute
    if the reply channel is made unbuffered again). *)
Theorem no_deadlock_real :
  no_deadlock req_chan_capacity max_txn_thread_num reply_chan_capacity.
Proof. exact no_deadlock_real_l. Qed.
Print Assumptions no_deadlock_real.

(** ** The unbuffered variant (the code before the fix of F-REQ-DEADLOCK) *)

(** The run loop is blocked handing a result to a caller that is itself
    blocked sending its wake-up token into the full channel. *)
Definition loop_caller_deadlock (s : rstate) : Prop :=
  rcap s = 0%N /\ exists id o, loop s = Delivering id o /\
    aget (callers s) id = Some Enqueued_not_signalled /\ chan_full s = true.

(** REFUTED with the real capacities and unbuffered reply channels: 102
    callers; caller 1 is descheduled between the unlock and the token send of
    AppendRequest, its request is dispatched (by caller 2's token), finishes and
    is received by the loop, 100 further callers fill the channel
    ([deadlock_schedule], Model/ReqMgr.v). *)
Theorem no_deadlock_unbuffered_refuted :
  ~ no_deadlock req_chan_capacity max_txn_thread_num 0.
Proof. exact no_deadlock_unbuffered_refuted_l. Qed.
Print Assumptions no_deadlock_unbuffered_refuted.

Theorem deadlock_at_real_capacity_unbuffered : exists s,
  rrun (deadlock_schedule 100) (rinit req_chan_capacity max_txn_thread_num 0) = Some s /\
  loop s = Delivering 1%N Ok /\ aget (callers s) 1%N = Some Enqueued_not_signalled /\
  count is_token (chan s) = 100 /\ chan_full s = true /\ enabled s = [] /\
  length (callers s) = 102.
Proof. exact deadlock_unbuffered_l. Qed.
Print Assumptions deadlock_at_real_capacity_unbuffered.

(** The same with capacity 2 and 4 callers (the shape used by the harness). *)
Theorem deadlock_at_capacity_refuted : exists s,
  rrun (deadlock_schedule 2) (rinit 2 24 0) = Some s /\
  loop s = Delivering 1%N Ok /\ aget (callers s) 1%N = Some Enqueued_not_signalled /\
  chan s = [Token; Token] /\ chan_full s = true /\ enabled s = [] /\
  length (callers s) = 4.
Proof. exact deadlock_small_l. Qed.
Print Assumptions deadlock_at_capacity_refuted.

(** On the code as it is now the very same schedule does not block: the loop
    puts the reply into caller 1's channel and goes on. *)
Theorem deadlock_schedule_harmless_now : exists s,
  rrun (deadlock_schedule 100) rinit_real = Some s /\
  loop s = Delivering 1%N Ok /\ aget (callers s) 1%N = Some Enqueued_not_signalled /\
  chan_full s = true /\ enabled s = [Deliver 1%N] /\
  exists s', rstep s (Deliver 1%N) = Some s' /\
    aget (callers s') 1%N = Some (Replied_not_signalled 1%N Ok) /\ loop s' = Dispatching.
Proof. exact fixed_schedule_proceeds_l. Qed.
Print Assumptions deadlock_schedule_harmless_now.

(** Partial results that hold for EVERY reply-channel capacity, 0 included.
    (1) The loop/caller embrace is the only way to get stuck. *)
Theorem deadlock_characterisation : forall c m rc s, (1 <= c)%N -> (1 <= m)%N ->
  reachable c m rc s -> enabled s = [] -> quiescent s \/ loop_caller_deadlock s.
Proof. exact deadlock_characterisation_l. Qed.
Print Assumptions deadlock_characterisation.

Theorem no_deadlock_partial : forall c m rc s, (1 <= c)%N -> (1 <= m)%N ->
  reachable c m rc s -> enabled s <> [] \/ quiescent s \/ loop_caller_deadlock s.
Proof. exact no_deadlock_partial_l. Qed.
Print Assumptions no_deadlock_partial.

(** (2) While the channel has a free slot, something can happen unless every
    caller is done and the queue, the workers and the channel are empty. *)
Theorem no_deadlock_below_capacity : forall c m rc s, (1 <= c)%N -> (1 <= m)%N ->
  reachable c m rc s -> chan_full s = false -> enabled s <> [] \/ quiescent s.
Proof. exact no_deadlock_below_capacity_l. Qed.
Print Assumptions no_deadlock_below_capacity.

(** (3) The deadlock needs unbuffered reply channels and at least [c - m]
    tokens in the channel, each sent by a different caller other than the
    victim ... *)
Theorem deadlock_needs_capacity : forall c m rc s, reachable c m rc s ->
  loop_caller_deadlock s ->
  rc = 0%N /\ N.to_nat c <= count is_token (chan s) + N.to_nat m /\
  count is_token (chan s) + 1 <= length (callers s).
Proof. exact deadlock_needs_l. Qed.
Print Assumptions deadlock_needs_capacity.

(** ... so it could not happen while at most [c - m] (= 76) calls had been made. *)
Theorem no_deadlock_few_callers : forall c m rc s, (1 <= c)%N -> (1 <= m)%N ->
  reachable c m rc s -> length (callers s) + N.to_nat m <= N.to_nat c ->
  enabled s <> [] \/ quiescent s.
Proof. exact no_deadlock_few_callers_l. Qed.
Print Assumptions no_deadlock_few_callers.

(** * Every call is answered if aborts are finite *)

(** From any reachable state, once no new callers arrive, EVERY schedule is
    short: at most [potential s] steps plus 4 per concurrency-control abort.
    So with finitely many aborts the system cannot run forever without
    answering, under any scheduler (no fairness assumption is needed: every
    step other than an abort makes progress); and with buffered reply channels
    every maximal such run — one that stops because nothing is enabled — ends
    with every caller holding its answer. *)
Theorem all_answered_if_finite_aborts : forall c m rc s ls s',
  (1 <= c)%N -> (1 <= m)%N -> (1 <= rc)%N ->
  reachable c m rc s -> rrun ls s = Some s' -> no_enqueue ls = true ->
  length ls <= potential s + 4 * count is_abort_finish ls /\
  (enabled s' = [] ->
   forall id st, In (id, st) (callers s') -> exists r o, st = CDone r o).
Proof. exact all_answered_l. Qed.
Print Assumptions all_answered_if_finite_aborts.

Theorem all_answered_if_finite_aborts_real : forall s ls s',
  reachable req_chan_capacity max_txn_thread_num reply_chan_capacity s ->
  rrun ls s = Some s' -> no_enqueue ls = true ->
  length ls <= potential s + 4 * count is_abort_finish ls /\
  (enabled s' = [] ->
   forall id st, In (id, st) (callers s') -> exists r o, st = CDone r o).
Proof. exact all_answered_real_l. Qed.
Print Assumptions all_answered_if_finite_aborts_real.

(** For any reply-channel capacity (the unbuffered variant included) the same
    holds for runs that stop with a free channel slot; a run that stops with
    a full channel is in the loop/caller deadlock ([deadlock_characterisation]). *)
Theorem all_answered_if_finite_aborts_partial : forall c m rc s ls s',
  (1 <= c)%N -> (1 <= m)%N ->
  reachable c m rc s -> rrun ls s = Some s' -> no_enqueue ls = true ->
  length ls <= potential s + 4 * count is_abort_finish ls /\
  (enabled s' = [] -> chan_full s' = false ->
   forall id st, In (id, st) (callers s') -> exists r o, st = CDone r o).
Proof. exact all_answered_partial_l. Qed.
Print Assumptions all_answered_if_finite_aborts_partial.

(** * Non-vacuity *)

(** Three callers, two worker slots, request 1 aborted once and retried: all
    three are answered with their own result, each statement committed once,
    and the system is quiescent. *)
Example c12_nonvacuous_retry :
  let sched := [Enqueue 1; Enqueue 2; Enqueue 3; SendToken 1; SendToken 2; SendToken 3;
                LoopRecv; Dispatch; LoopRecv; Dispatch; LoopRecv; Dispatch;
                WorkerFinish 1 Aborted; WorkerFinish 2 Ok;
                LoopRecv; Dispatch; LoopRecv; Deliver 2; Dispatch;
                WorkerFinish 1 Ok; WorkerFinish 3 Ok;
                LoopRecv; Deliver 1; Dispatch; LoopRecv; Deliver 3; Dispatch]%N in
  match rrun sched (rinit 100 2 1) with
  | Some s =>
      callers s = [(3, CDone 3 Ok); (2, CDone 2 Ok); (1, CDone 1 Ok)]%N /\
      replied s = [3; 1; 2]%N /\ effects s = [3; 1; 2]%N /\
      queue s = [] /\ workers s = [] /\ chan s = [] /\ inflight s = 0%N /\
      enabled s = [] /\ count is_abort_finish sched = 1
  | None => False
  end.
Proof. vm_compute. repeat split. Qed.

(** After the abort the request is back at the HEAD of the queue, and the third
    request (which found both slots taken) is dispatched by the iteration that
    received the second result: one dispatch per received message. *)
Example c12_nonvacuous_requeue_at_head :
  match rrun [Enqueue 1; Enqueue 2; Enqueue 3; SendToken 1; SendToken 2; SendToken 3;
              LoopRecv; Dispatch; LoopRecv; Dispatch; LoopRecv; Dispatch;
              WorkerFinish 1 Aborted; LoopRecv]%N (rinit 100 2 1) with
  | Some s => queue s = [1; 3]%N /\ workers s = [2]%N /\ inflight s = 1%N /\
              loop s = Dispatching /\
              enabled s = [Dispatch; WorkerFinish 2 Ok; WorkerFinish 2 Aborted]%N
  | None => False
  end.
Proof. vm_compute. repeat split. Qed.

(** The reply overtakes the token (buffered reply channel): request 1 is
    dispatched by caller 2's token and answered while caller 1 has not sent its
    token yet; the reply waits in caller 1's channel ([replied] still empty),
    and the late token send completes the call. *)
Example c12_nonvacuous_reply_before_token :
  let pre := [Enqueue 1; Enqueue 2; SendToken 2; LoopRecv; Dispatch; WorkerFinish 1 Ok;
              LoopRecv; Deliver 1]%N in
  match rrun pre rinit_real, rrun (pre ++ [SendToken 1%N]) rinit_real with
  | Some s, Some s' =>
      aget (callers s) 1%N = Some (Replied_not_signalled 1%N Ok) /\ replied s = [] /\
      effects s = [1%N] /\ loop s = Dispatching /\
      aget (callers s') 1%N = Some (CDone 1%N Ok) /\ replied s' = [1%N] /\ chan s' = [Token]
  | _, _ => False
  end.
Proof. vm_compute. repeat split. Qed.

(** Labels that are not enabled are rejected: a second token from the same
    caller, a second call on the same reply channel, delivery by rendezvous to a
    caller that has not sent its token yet (unbuffered variant only), a second
    reply, a worker that does not exist. *)
Example c12_nonvacuous_rejections :
  rrun [Enqueue 1; SendToken 1; SendToken 1]%N rinit_real = None /\
  rrun [Enqueue 1; Enqueue 1]%N rinit_real = None /\
  rrun [Enqueue 1; Enqueue 2; SendToken 2; LoopRecv; Dispatch; WorkerFinish 1 Ok; LoopRecv;
        Deliver 1]%N (rinit 100 24 0) = None /\
  rrun [Enqueue 1; SendToken 1; LoopRecv; Dispatch; WorkerFinish 1 Ok; LoopRecv; Deliver 1;
        Deliver 1]%N rinit_real = None /\
  rrun [Enqueue 1; Enqueue 2; SendToken 2; LoopRecv; Dispatch; WorkerFinish 1 Ok; LoopRecv;
        Deliver 1; Deliver 1]%N rinit_real = None /\
  rrun [Enqueue 1; SendToken 1; WorkerFinish 1 Ok]%N rinit_real = None.
Proof. vm_compute. repeat split. Qed.

(** The side condition [2 <= m] of [idle_backlog_bound] is needed: with one
    worker slot the bound fails. *)
Example c12_idle_backlog_needs_two_slots : exists s,
  reachable 100 1 1 s /\ inflight s = 0%N /\ length (queue s) = 2 /\
  count is_token (chan s) + count is_owing (callers s) + busy (loop s) = 1.
Proof. exact backlog_idle_needs_two_l. Qed.
