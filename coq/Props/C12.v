(** C12 — the request queue behind the SQL entry point.
    "When many callers issue SQL statements concurrently, every call returns
    exactly one result that belongs to its own statement; each statement
    takes effect exactly once even if it was internally aborted and retried;
    no call blocks forever."

    All statements are about every state reachable in the model
    Model/ReqMgr.v (request_manager.go + ExecuteSQL/ExecuteSQLForTxnTh) by ANY
    schedule — any interleaving of any number of callers, worker goroutines
    and the run loop, with any pattern of concurrency-control aborts.  The
    channel capacity [c] and the worker limit [m] are parameters; the real
    system is [c = chan_capacity = 100], [m = max_txn_thread_num = 24].

    MODEL-PREDICTED FINDING F-REQ-DEADLOCK ("no call blocks forever" is false
    at capacity).  The run loop hands a result to its caller over an
    unbuffered channel while the caller may not yet have sent its wake-up
    token into the 100-slot channel that the loop itself drains.  If the
    channel fills up in that window (>= capacity pending senders: tokens of
    other callers and results of workers), the loop and the caller block on
    each other and, with them, every other caller and worker:
    [no_deadlock_refuted] (witness with the real parameters, 102 callers) and
    [deadlock_at_capacity_refuted] (capacity 2, 4 callers).  This is the only
    way to get stuck ([deadlock_characterisation]); it needs at least
    [c - m] = 76 tokens in the channel, hence more than 76 callers
    ([deadlock_needs_capacity], [no_deadlock_few_callers]).
    Statements only. *)
From Coq Require Import List NArith Bool.
From SDB Require Import Params Base.Assoc Model.ReqMgr Proofs.ReqMgrProofs.
Import ListNotations.
Open Scope nat_scope.

Definition reachable (c m : N) (s : rstate) : Prop :=
  exists schedule, rrun schedule (rinit c m) = Some s.

(** The real parameters satisfy the side conditions used below. *)
Example real_parameters :
  N.leb 1 chan_capacity = true /\ N.leb 2 max_txn_thread_num = true /\
  rinit_real = rinit 100 24.
Proof. vm_compute. repeat split. Qed.

(** * Every call gets at most one reply, and it is the reply to its own statement *)

(** One table entry per caller; the number of replies handed to caller [id]
    is at most one, and it is one exactly when the caller is done. *)
Theorem reply_at_most_once : forall c m s, reachable c m s ->
  NoDup (map fst (callers s)) /\
  forall id, occ id (replied s) <= 1 /\
    (occ id (replied s) = 1 <-> exists r o, aget (callers s) id = Some (CDone r o)).
Proof. exact reply_at_most_once_l. Qed.
Print Assumptions reply_at_most_once.

(** A caller that is done stays done with the same answer, whatever happens next. *)
Theorem reply_is_final : forall s l s' id r o,
  rstep s l = Some s' -> aget (callers s) id = Some (CDone r o) ->
  aget (callers s') id = Some (CDone r o).
Proof. exact done_stable_l. Qed.
Print Assumptions reply_is_final.

(** What a caller received is the result message of ITS request, with a final
    outcome; that request committed exactly once and was answered exactly once. *)
Theorem reply_is_own_result : forall c m s, reachable c m s ->
  forall id r o, In (id, CDone r o) (callers s) ->
    r = id /\ o = Ok /\ occ id (effects s) = 1 /\ occ id (replied s) = 1.
Proof. exact reply_is_own_result_l. Qed.
Print Assumptions reply_is_own_result.

(** The aborted marker never reaches a caller: the loop never holds one for
    delivery and no caller has one. *)
Theorem aborted_never_delivered : forall c m s, reachable c m s ->
  (forall id o, loop s = Delivering id o -> o = Ok) /\
  (forall id r, ~ In (id, CDone r Aborted) (callers s)).
Proof. exact aborted_never_delivered_l. Qed.
Print Assumptions aborted_never_delivered.

(** * Each statement takes effect at most once, however often it is retried *)

(** A request commits at most once, and once it has committed it is neither
    queued nor running any more (it cannot be executed again). *)
Theorem effect_at_most_once : forall c m s, reachable c m s -> forall id,
  occ id (effects s) <= 1 /\
  (occ id (effects s) = 1 -> occ id (queue s) = 0 /\ occ id (workers s) = 0).
Proof. exact effect_at_most_once_l. Qed.
Print Assumptions effect_at_most_once.

(** * Accounting *)

(** curExectingReqNum = running workers + results not yet received; it never
    exceeds MaxTxnThreadNum (so the uint64 decrement never wraps) and the
    channel never holds more than its capacity. *)
Theorem accounting_invariant : forall c m s, reachable c m s ->
  cap s = c /\ maxw s = m /\
  N.to_nat (inflight s) = length (workers s) + count is_result (chan s) /\
  (inflight s <= maxw s)%N /\ length (chan s) <= N.to_nat (cap s).
Proof. exact accounting_l. Qed.
Print Assumptions accounting_invariant.

(** Every request is in exactly one place — the queue, a worker, a result
    message in the channel, the loop's hands, or answered — no duplication,
    no loss, per request ([places], see Model/ReqMgr.v) and in total. *)
Theorem each_request_exactly_one_place : forall c m s, reachable c m s ->
  (forall id, places s id = known (callers s) id) /\
  length (queue s) + length (workers s) + count is_result (chan s)
    + delivering (loop s) + count is_done (callers s) = length (callers s).
Proof. exact one_place_l. Qed.
Print Assumptions each_request_exactly_one_place.

Theorem each_request_exactly_one_place_cases : forall c m s, reachable c m s -> forall id,
  (In id (queue s) \/ In id (workers s) -> aget (callers s) id <> None) /\
  (aget (callers s) id <> None -> places s id = 1) /\
  (aget (callers s) id = None -> places s id = 0).
Proof. exact one_place_cases_l. Qed.
Print Assumptions each_request_exactly_one_place_cases.

(** * No stranded request *)

(** The inductive invariant: the queue is longer than the number of pending
    wake-ups (tokens in the channel, callers about to send one, the loop's
    own pending dispatch) only while all [m] worker slots are taken. *)
Theorem backlog_only_when_saturated : forall c m s, reachable c m s ->
  length (queue s) <= count is_token (chan s) + count is_ens (callers s) + busy (loop s)
  \/ N.to_nat m <= N.to_nat (inflight s) + busy (loop s).
Proof. exact backlog_l. Qed.
Print Assumptions backlog_only_when_saturated.

(** A queued request with nothing left that would ever make the loop look at
    the queue again. *)
Definition stranded (s : rstate) : Prop :=
  queue s <> [] /\ chan s = [] /\ workers s = [] /\ loop s = Idle /\
  (forall id, aget (callers s) id <> Some Enqueued_not_signalled).

Theorem no_stranding : forall c m s, (1 <= m)%N -> reachable c m s -> ~ stranded s.
Proof. exact no_stranding_l. Qed.
Print Assumptions no_stranding.

(** Positive form: a non-empty queue always comes with a pending message, a
    caller about to send one, a loop iteration in progress, or a worker. *)
Theorem queued_request_has_pending_wakeup : forall c m s, (1 <= m)%N -> reachable c m s ->
  queue s <> [] ->
  0 < count is_token (chan s) + count is_ens (callers s) + busy (loop s)
      + length (workers s) + count is_result (chan s).
Proof. exact pending_work_l. Qed.
Print Assumptions queued_request_has_pending_wakeup.

(** With at least two worker slots (the real value is 24): when nothing is in
    flight, every queued request still has its own wake-up pending. *)
Theorem idle_backlog_bound : forall c m s, (2 <= m)%N -> reachable c m s ->
  inflight s = 0%N ->
  length (queue s) <= count is_token (chan s) + count is_ens (callers s) + busy (loop s).
Proof. exact backlog_idle_l. Qed.
Print Assumptions idle_backlog_bound.

(** * Deadlock analysis *)

(** [enabled] lists exactly the labels (other than new callers) that can fire. *)
Theorem enabled_is_sound : forall s l, In l (enabled s) -> exists s', rstep s l = Some s'.
Proof. exact enabled_sound. Qed.
Print Assumptions enabled_is_sound.

Theorem enabled_is_complete : forall s l s',
  rstep s l = Some s' -> is_enqueue l = false -> In l (enabled s).
Proof. exact enabled_complete. Qed.
Print Assumptions enabled_is_complete.

(** Everything has been answered and nothing is left to do. *)
Definition quiescent (s : rstate) : Prop :=
  queue s = [] /\ workers s = [] /\ chan s = [] /\ loop s = Idle /\
  forall id st, In (id, st) (callers s) -> exists r o, st = CDone r o.

(** F-REQ-DEADLOCK: the run loop is blocked handing a result to a caller that
    is itself blocked sending its wake-up token into the full channel. *)
Definition loop_caller_deadlock (s : rstate) : Prop :=
  exists id o, loop s = Delivering id o /\
    aget (callers s) id = Some Enqueued_not_signalled /\ chan_full s = true.

(** Wanted: in every reachable state something can happen unless all callers
    have their answer.  FALSE for the faithful model, see [no_deadlock_refuted]. *)
Definition no_deadlock (c m : N) : Prop :=
  forall s, reachable c m s -> enabled s <> [] \/ quiescent s.

(** Refutation with the real parameters: 102 callers; caller 1 is descheduled
    between the unlock and the token send of AppendRequest, its request is
    dispatched (by caller 2's token), finishes and is received by the loop,
    100 further callers fill the channel ([deadlock_schedule], Model/ReqMgr.v). *)
Theorem no_deadlock_refuted : ~ no_deadlock chan_capacity max_txn_thread_num.
Proof. exact no_deadlock_refuted_l. Qed.
Print Assumptions no_deadlock_refuted.

Theorem deadlock_at_real_capacity : exists s,
  rrun (deadlock_schedule 100) rinit_real = Some s /\
  loop s = Delivering 1%N Ok /\ aget (callers s) 1%N = Some Enqueued_not_signalled /\
  count is_token (chan s) = 100 /\ chan_full s = true /\ enabled s = [] /\
  length (callers s) = 102.
Proof. exact deadlock_real_l. Qed.
Print Assumptions deadlock_at_real_capacity.

(** The same with capacity 2 and 4 callers (the shape used by the harness). *)
Theorem deadlock_at_capacity_refuted : exists s,
  rrun (deadlock_schedule 2) (rinit 2 24) = Some s /\
  loop s = Delivering 1%N Ok /\ aget (callers s) 1%N = Some Enqueued_not_signalled /\
  chan s = [Token; Token] /\ chan_full s = true /\ enabled s = [] /\
  length (callers s) = 4.
Proof. exact deadlock_small_l. Qed.
Print Assumptions deadlock_at_capacity_refuted.

(** Partial results.  (1) The loop/caller embrace is the ONLY way to get stuck. *)
Theorem deadlock_characterisation : forall c m s, (1 <= c)%N -> (1 <= m)%N ->
  reachable c m s -> enabled s = [] -> quiescent s \/ loop_caller_deadlock s.
Proof. exact deadlock_characterisation_l. Qed.
Print Assumptions deadlock_characterisation.

Theorem no_deadlock_partial : forall c m s, (1 <= c)%N -> (1 <= m)%N ->
  reachable c m s -> enabled s <> [] \/ quiescent s \/ loop_caller_deadlock s.
Proof. exact no_deadlock_partial_l. Qed.
Print Assumptions no_deadlock_partial.

(** (2) While the channel has a free slot, something can happen unless every
    caller is done and the queue, the workers and the channel are empty. *)
Theorem no_deadlock_below_capacity : forall c m s, (1 <= c)%N -> (1 <= m)%N ->
  reachable c m s -> chan_full s = false -> enabled s <> [] \/ quiescent s.
Proof. exact no_deadlock_below_capacity_l. Qed.
Print Assumptions no_deadlock_below_capacity.

(** (3) The deadlock needs at least [c - m] tokens in the channel, each sent by
    a different caller other than the victim ... *)
Theorem deadlock_needs_capacity : forall c m s, reachable c m s -> loop_caller_deadlock s ->
  N.to_nat c <= count is_token (chan s) + N.to_nat m /\
  count is_token (chan s) + 1 <= length (callers s).
Proof. exact deadlock_needs_l. Qed.
Print Assumptions deadlock_needs_capacity.

(** ... so it cannot happen while at most [c - m] (= 76) calls have been made. *)
Theorem no_deadlock_few_callers : forall c m s, (1 <= c)%N -> (1 <= m)%N ->
  reachable c m s -> length (callers s) + N.to_nat m <= N.to_nat c ->
  enabled s <> [] \/ quiescent s.
Proof. exact no_deadlock_few_callers_l. Qed.
Print Assumptions no_deadlock_few_callers.

(** * Every call is answered if aborts are finite (and the channel does not fill up) *)

(** From any reachable state, once no new callers arrive, EVERY schedule is
    short: at most [potential s] steps plus 4 per concurrency-control abort.
    So with finitely many aborts the system cannot run forever without
    answering, under any scheduler (no fairness assumption is needed: every
    step other than an abort makes progress); and when it stops with a free
    channel slot, every caller has its answer.  (When it stops with a full
    channel it is in F-REQ-DEADLOCK, by [deadlock_characterisation].) *)
Theorem all_answered_if_finite_aborts : forall c m s ls s', (1 <= c)%N -> (1 <= m)%N ->
  reachable c m s -> rrun ls s = Some s' -> no_enqueue ls = true ->
  length ls <= potential s + 4 * count is_abort_finish ls /\
  (enabled s' = [] -> chan_full s' = false ->
   forall id st, In (id, st) (callers s') -> exists r o, st = CDone r o).
Proof. exact all_answered_l. Qed.
Print Assumptions all_answered_if_finite_aborts.

(** * Non-vacuity *)

(** Three callers, two worker slots, request 1 aborted once and retried: all
    three are answered with their own result, each statement committed once,
    and the system is quiescent. *)
Example c12_nonvacuous_retry :
  let sched := [Enqueue 1; Enqueue 2; Enqueue 3; SendToken 1; SendToken 2; SendToken 3;
                LoopRecv; Dispatch; LoopRecv; Dispatch; LoopRecv; Dispatch;
                WorkerFinish 1 Aborted; WorkerFinish 2 Ok;
                LoopRecv; Dispatch; LoopRecv; Deliver 2; Dispatch;
                WorkerFinish 1 Ok; WorkerFinish 3 Ok;
                LoopRecv; Deliver 1; Dispatch; LoopRecv; Deliver 3; Dispatch]%N in
  match rrun sched (rinit 100 2) with
  | Some s =>
      callers s = [(3, CDone 3 Ok); (2, CDone 2 Ok); (1, CDone 1 Ok)]%N /\
      replied s = [3; 1; 2]%N /\ effects s = [3; 1; 2]%N /\
      queue s = [] /\ workers s = [] /\ chan s = [] /\ inflight s = 0%N /\
      enabled s = [] /\ count is_abort_finish sched = 1
  | None => False
  end.
Proof. vm_compute. repeat split. Qed.

(** After the abort the request is back at the HEAD of the queue, and the third
    request (which found both slots taken) is dispatched by the iteration that
    received the second result: one dispatch per received message. *)
Example c12_nonvacuous_requeue_at_head :
  match rrun [Enqueue 1; Enqueue 2; Enqueue 3; SendToken 1; SendToken 2; SendToken 3;
              LoopRecv; Dispatch; LoopRecv; Dispatch; LoopRecv; Dispatch;
              WorkerFinish 1 Aborted; LoopRecv]%N (rinit 100 2) with
  | Some s => queue s = [1; 3]%N /\ workers s = [2]%N /\ inflight s = 1%N /\
              loop s = Dispatching /\ enabled s = [Dispatch; WorkerFinish 2 Ok; WorkerFinish 2 Aborted]%N
  | None => False
  end.
Proof. vm_compute. repeat split. Qed.

(** Labels that are not enabled are rejected: a second reply, a token from a
    caller that already sent one, delivery to a caller that has not sent its
    token yet, a worker that does not exist. *)
Example c12_nonvacuous_rejections :
  rrun [Enqueue 1; SendToken 1; SendToken 1]%N (rinit 100 24) = None /\
  rrun [Enqueue 1; Enqueue 1]%N (rinit 100 24) = None /\
  rrun [Enqueue 1; Enqueue 2; SendToken 2; LoopRecv; Dispatch; WorkerFinish 1 Ok; LoopRecv;
        Deliver 1]%N (rinit 100 24) = None /\
  rrun [Enqueue 1; SendToken 1; LoopRecv; Dispatch; WorkerFinish 1 Ok; LoopRecv; Deliver 1;
        Deliver 1]%N (rinit 100 24) = None /\
  rrun [Enqueue 1; SendToken 1; WorkerFinish 1 Ok]%N (rinit 100 24) = None.
Proof. vm_compute. repeat split. Qed.

(** The side condition [2 <= m] of [idle_backlog_bound] is needed: with one
    worker slot the bound fails. *)
Example c12_idle_backlog_needs_two_slots : exists s,
  reachable 100 1 s /\ inflight s = 0%N /\ length (queue s) = 2 /\
  count is_token (chan s) + count is_ens (callers s) + busy (loop s) = 1.
Proof. exact backlog_idle_needs_two_l. Qed.
