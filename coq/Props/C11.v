(** C11 — for every supported multi-table query the rows returned are exactly the
    matching combinations of the base rows, projected on the select list, whatever
    join order and join algorithm the optimizer picks and whatever statistics it
    holds.  Statements only; every proof is [exact <lemma>] (Proofs/JoinProofs.v).

    Model: Model/Join.v (findBestScans / findBestJoinInner / findBestJoin of
    selinger_optimizer.go, the hash / index / nested-loop join, selection and
    projection executors), with the single-table sub-plans of Model/Query.v (C06)
    at the leaves.  Reference: Model/SqlRef.v ([join_sel]: cross product of the
    tables in FROM order, filter, project).

    The cost model is not modelled.  [join_candidates schs w sl] is every plan the
    dynamic programme can return for SOME statistics: at every level each pair of
    plans of two disjoint table sets (both orders, bushy splits included) with every
    candidate findBestJoinInner builds for it, over every sub-plan findBestScan can
    return for each table.  The theorems hold for every element of that list.
    The murmur hash of the hash join is an input [h] of [run_join]: the theorems
    hold for every hash function.

    Quantifiers.  Two and three tables ([join_candidates] is [None] otherwise);
    arbitrary schemas (integer / float / varchar columns, indexed or not) and
    contents, including duplicate and missing join keys, empty tables, float -0.0 /
    +0.0 keys, NULLs outside equality and indexed columns; WHERE = any AND-tree [w]
    of equalities [column = column] — between two tables (join conditions: chains,
    stars, triangles, several between one pair, none at all = cross product) or
    inside one table (a filter of that table's scan, /repo e79176f) — and of
    filters [column op literal]; any select list [sl] (any order, repetitions allowed).
    Not expressible in the reference language (SqlRef.jpred) and therefore outside
    the model: [column op column] with an operator other than [=].  (Inside one
    table the engine applies it as a filter, like the equality; between two tables
    findBestJoinInner only looks at [=] and the conjunct is silently dropped.)

    Side conditions of [every_candidate_equiv] ([join_hyps_ok] decides all of them):
    - [tables_wf], [query_scoped]: well-formed input;
    - [conds_ok]: an equality compares two columns of one type;
    - [filters_ok], [indexed_cols_nonnull]: the C06 side conditions of the per-table
      sub-plans (no comparison of a filter hits a sentinel value; no NULL in an
      indexed column);
    - [no_null_keys]: no NULL in a column of an equality [column = column] — without
      it the statement is FALSE (known finding F-NULL-JOIN,
      [null_key_plan_dependent_refuted]).
    Fixed since the first version of this file: float32 -0.0 against +0.0 as hash
    join keys (F-NEGZERO-JOIN, /repo 47a18be; [neg_zero_unfixed_refuted] keeps the
    statement about the engine before the fix, [run_join_gen false]) and the dropped
    same-table equality (/repo e79176f; [c11_same_table_equality]). *)
From Coq Require Import List NArith ZArith Bool Permutation.
From SDB Require Import Base.Bytes Model.Codec Model.SqlRef Model.Query Model.Join
  Proofs.QueryProofs Proofs.JoinProofs.
Import ListNotations.
Local Open Scope nat_scope.

(** * Every candidate plan returns the reference answer *)

Theorem every_candidate_equiv : forall h schs ts w sl l p,
  tables_wf schs ts -> query_scoped schs w sl -> conds_ok schs w -> filters_ok schs ts w ->
  indexed_cols_nonnull schs ts -> no_null_keys schs ts w ->
  join_candidates schs w sl = Some l -> In p l ->
  exists out, run_join h schs ts p = Some out /\ Permutation out (join_sel sl w ts).
Proof. exact every_candidate_equiv_lemma. Qed.
Print Assumptions every_candidate_equiv.

(** The same, spelled out for two and for three tables. *)
Theorem every_candidate_equiv_2 : forall h s0 s1 t0 t1 w sl l p,
  tables_wf [s0; s1] [t0; t1] -> query_scoped [s0; s1] w sl -> conds_ok [s0; s1] w ->
  filters_ok [s0; s1] [t0; t1] w -> indexed_cols_nonnull [s0; s1] [t0; t1] ->
  no_null_keys [s0; s1] [t0; t1] w ->
  join_candidates [s0; s1] w sl = Some l -> In p l ->
  exists out, run_join h [s0; s1] [t0; t1] p = Some out /\ Permutation out (join_sel sl w [t0; t1]).
Proof. exact every_candidate_equiv_2_lemma. Qed.
Print Assumptions every_candidate_equiv_2.

Theorem every_candidate_equiv_3 : forall h s0 s1 s2 t0 t1 t2 w sl l p,
  tables_wf [s0; s1; s2] [t0; t1; t2] -> query_scoped [s0; s1; s2] w sl -> conds_ok [s0; s1; s2] w ->
  filters_ok [s0; s1; s2] [t0; t1; t2] w -> indexed_cols_nonnull [s0; s1; s2] [t0; t1; t2] ->
  no_null_keys [s0; s1; s2] [t0; t1; t2] w ->
  join_candidates [s0; s1; s2] w sl = Some l -> In p l ->
  exists out, run_join h [s0; s1; s2] [t0; t1; t2] p = Some out /\
              Permutation out (join_sel sl w [t0; t1; t2]).
Proof. exact every_candidate_equiv_3_lemma. Qed.
Print Assumptions every_candidate_equiv_3.

(** The dynamic programme always has a plan for two and for three tables. *)
Theorem candidates_exist : forall schs w sl, (length schs = 2 \/ length schs = 3) ->
  exists l, join_candidates schs w sl = Some l /\ l <> [].
Proof. exact join_candidates_some. Qed.
Print Assumptions candidates_exist.

(** Whatever the cost model picks ([k]: its pick among the candidates). *)
Theorem chosen_join_plan_equiv : forall h schs ts w sl k p l,
  tables_wf schs ts -> query_scoped schs w sl -> conds_ok schs w -> filters_ok schs ts w ->
  indexed_cols_nonnull schs ts -> no_null_keys schs ts w ->
  join_candidates schs w sl = Some l -> nth_error l k = Some p ->
  exists out, run_join_select h schs w sl k ts = Some out /\ Permutation out (join_sel sl w ts).
Proof. exact run_join_select_equiv_lemma. Qed.
Print Assumptions chosen_join_plan_equiv.

(** * Corollaries: the answer does not depend on the join order or algorithm *)

(** Two candidates that join the tables in different orders ([leaf_order]: the
    tables from left to right in the plan tree) return the same rows. *)
Theorem join_order_irrelevant : forall h schs ts w sl l p1 p2,
  tables_wf schs ts -> query_scoped schs w sl -> conds_ok schs w -> filters_ok schs ts w ->
  indexed_cols_nonnull schs ts -> no_null_keys schs ts w ->
  join_candidates schs w sl = Some l -> In p1 l -> In p2 l ->
  (* whatever [leaf_order p1] and [leaf_order p2] are *)
  exists o1 o2, run_join h schs ts p1 = Some o1 /\ run_join h schs ts p2 = Some o2 /\ Permutation o1 o2.
Proof. exact candidates_agree_lemma. Qed.
Print Assumptions join_order_irrelevant.

(** Two candidates that use different join algorithms ([algs]: hash / index /
    nested loop at every join node, with or without the attached Selection)
    return the same rows. *)
Theorem join_algorithm_irrelevant : forall h schs ts w sl l p1 p2,
  tables_wf schs ts -> query_scoped schs w sl -> conds_ok schs w -> filters_ok schs ts w ->
  indexed_cols_nonnull schs ts -> no_null_keys schs ts w ->
  join_candidates schs w sl = Some l -> In p1 l -> In p2 l ->
  (* whatever [algs p1] and [algs p2] are *)
  exists o1 o2, run_join h schs ts p1 = Some o1 /\ run_join h schs ts p2 = Some o2 /\ Permutation o1 o2.
Proof. exact candidates_agree_lemma. Qed.
Print Assumptions join_algorithm_irrelevant.

(** * The side conditions are decidable on the statement and the tables *)

Theorem join_hyps_decidable : forall schs ts w sl, join_hyps_ok schs ts w sl = true ->
  tables_wf schs ts /\ query_scoped schs w sl /\ conds_ok schs w /\ filters_ok schs ts w /\
  indexed_cols_nonnull schs ts /\ no_null_keys schs ts w.
Proof. exact join_hyps_sound. Qed.
Print Assumptions join_hyps_decidable.

Theorem every_candidate_equiv_checked : forall h schs ts w sl l p,
  join_hyps_ok schs ts w sl = true -> join_candidates schs w sl = Some l -> In p l ->
  exists out, run_join h schs ts p = Some out /\ Permutation out (join_sel sl w ts).
Proof. exact every_candidate_equiv_checked_lemma. Qed.
Print Assumptions every_candidate_equiv_checked.

(** [has_null_key] (Model/Join.v) is the signature of F-NULL-JOIN on a concrete statement;
    [has_neg_zero_key] was the signature of F-NEGZERO-JOIN (fixed). *)
Theorem no_null_keys_decidable : forall schs ts w, has_null_key schs ts w = false -> no_null_keys schs ts w.
Proof. exact has_null_key_false. Qed.
Print Assumptions no_null_keys_decidable.

Theorem no_neg_zero_keys_decidable : forall schs ts w,
  has_neg_zero_key schs ts w = false -> no_neg_zero_keys schs ts w.
Proof. exact has_neg_zero_key_false. Qed.
Print Assumptions no_neg_zero_keys_decidable.

(** * F-NULL-JOIN: with NULL join keys the answer depends on the plan *)

(** Full statements (false): the theorems without [no_null_keys]. *)
Definition every_candidate_equiv_with_null_keys : Prop := forall h schs ts w sl l p,
  tables_wf schs ts -> query_scoped schs w sl -> conds_ok schs w -> filters_ok schs ts w ->
  indexed_cols_nonnull schs ts ->
  join_candidates schs w sl = Some l -> In p l ->
  exists out, run_join h schs ts p = Some out /\ Permutation out (join_sel sl w ts).

Definition candidates_agree_with_null_keys : Prop := forall h schs ts w sl l p1 p2,
  tables_wf schs ts -> query_scoped schs w sl -> conds_ok schs w -> filters_ok schs ts w ->
  indexed_cols_nonnull schs ts ->
  join_candidates schs w sl = Some l -> In p1 l -> In p2 l ->
  exists o1 o2, run_join h schs ts p1 = Some o1 /\ run_join h schs ts p2 = Some o2 /\ Permutation o1 o2.

Theorem every_candidate_equiv_with_null_keys_refuted : ~ every_candidate_equiv_with_null_keys.
Proof. exact every_candidate_equiv_null_keys_refuted_lemma. Qed.
Print Assumptions every_candidate_equiv_with_null_keys_refuted.

Theorem candidates_agree_with_null_keys_refuted : ~ candidates_agree_with_null_keys.
Proof. exact candidates_agree_null_keys_refuted_lemma. Qed.
Print Assumptions candidates_agree_with_null_keys_refuted.

(** The witness, every other hypothesis in place.  One three-table query
      ta(a0,a1) = (1,10)   tb(b0,b1) = (1,NULL)   tc(c0,c1) = (NULL,7)
      SELECT ta.a1, tc.c1 FROM ta, tb, tc WHERE ta.a0 = tb.b0 AND tb.b1 = tc.c0
    and two candidates of the dynamic programme: two hash joins (NULL keys are
    skipped: no row, the reference answer) and two nested loop joins with the
    Selection [ta.a0 = tb.b0 AND tb.b1 = tc.c0] on top (CompareEquals(NULL, NULL) is
    true: the row (10,7)). *)
Theorem null_key_plan_dependent_refuted :
  let schs := [i2; i2; i2] in let ts := [null_ta; null_tb; null_tc] in let sl := [1; 5]%nat in
  tables_wf schs ts /\ query_scoped schs null_w3 sl /\ conds_ok schs null_w3 /\ filters_ok schs ts null_w3 /\
  indexed_cols_nonnull schs ts /\
  has_null_key schs ts null_w3 = true /\
  exists l pH pN, join_candidates schs null_w3 sl = Some l /\ In pH l /\ In pN l /\
    algs pH = [AHash; AHash] /\ algs pN = [ANest; ANest] /\
    run_join wit_hash schs ts pH = Some [] /\
    run_join wit_hash schs ts pN = Some [[VInt 10; VInt 7]] /\
    join_sel sl null_w3 ts = [].
Proof. exact null_key_plan_dependent_refuted_lemma. Qed.
Print Assumptions null_key_plan_dependent_refuted.

(** Two tables (the replay of the known finding):
      na(a0,a1) = (NULL,1),(3,4)   nb(b0,b1) = (NULL,2),(3,5)
      ... WHERE na.a0 = nb.b0 AND na.a0 = nb.b0   two linking equalities: both candidates are
          nested loop + Selection and also return (1,2) — the reference does not;
      ... WHERE na.a0 = nb.b0                      one equality: hash (index) joins, (4,5) only. *)
Theorem null_key_two_tables_refuted :
  let schs := [i2; i2] in let ts := [null_na; null_nb] in let sl := [1; 3]%nat in
  tables_wf schs ts /\ query_scoped schs null_w2 sl /\ conds_ok schs null_w2 /\ filters_ok schs ts null_w2 /\
  indexed_cols_nonnull schs ts /\
  has_null_key schs ts null_w2 = true /\
  map algs (cands schs null_w2 sl) = [[ANest]; [ANest]] /\
  map (run_join wit_hash schs ts) (cands schs null_w2 sl) =
    [Some [[VInt 1; VInt 2]; [VInt 4; VInt 5]]; Some [[VInt 1; VInt 2]; [VInt 4; VInt 5]]] /\
  join_sel sl null_w2 ts = [[VInt 4; VInt 5]] /\
  nth_error (cands schs null_w1 sl) 0 =
    Some (JProject (JHash (JScan 0 (PProjection PSeqScan [0; 1]%nat)) (JScan 1 (PProjection PSeqScan [0; 1]%nat)) 0 2)
                   [1; 3]%nat) /\
  forallb (fun p => match run_join wit_hash schs ts p with Some [[VInt 4; VInt 5]] => true | _ => false end)
          (cands schs null_w1 sl) = true /\
  join_sel sl null_w1 ts = [[VInt 4; VInt 5]].
Proof. exact null_key_two_tables_lemma. Qed.
Print Assumptions null_key_two_tables_refuted.

(** * F-NEGZERO-JOIN (fixed): float32 -0.0 against +0.0 as hash join keys *)

(** Full statement about the engine BEFORE /repo 47a18be (false): [run_join_gen false]
    hashes the key as serialised. *)
Definition every_candidate_equiv_neg_zero_unfixed : Prop := forall h schs ts w sl l p,
  tables_wf schs ts -> query_scoped schs w sl -> conds_ok schs w -> filters_ok schs ts w ->
  indexed_cols_nonnull schs ts -> no_null_keys schs ts w ->
  join_candidates schs w sl = Some l -> In p l ->
  exists out, run_join_gen false h schs ts p = Some out /\ Permutation out (join_sel sl w ts).

Theorem every_candidate_equiv_neg_zero_unfixed_refuted : ~ every_candidate_equiv_neg_zero_unfixed.
Proof. exact every_candidate_equiv_neg_zero_unfixed_refuted_lemma. Qed.
Print Assumptions every_candidate_equiv_neg_zero_unfixed_refuted.

(** ga(x float, y int) = (-0.0, 1)   gb(u float indexed, v int) = (+0.0, 10)
    SELECT ga.y, gb.v FROM ga, gb WHERE ga.x = gb.u
    for a hash that separates the two serialisations ([wit_hash]; murmur does):
    before the fix the hash join returned no row and the index join (1,10), the
    reference answer; with the fix the hash join returns (1,10) too (and
    [every_candidate_equiv] covers the case for every hash). *)
Theorem neg_zero_unfixed_refuted :
  let schs := [nz_s0; nz_s1] in let ts := [nz_ga; nz_gb] in let w := JColEq 0 2 in let sl := [1; 3]%nat in
  tables_wf schs ts /\ query_scoped schs w sl /\ conds_ok schs w /\ filters_ok schs ts w /\
  indexed_cols_nonnull schs ts /\ no_null_keys schs ts w /\
  has_neg_zero_key schs ts w = true /\
  exists l pH pI, join_candidates schs w sl = Some l /\ In pH l /\ In pI l /\
    algs pH = [AHash] /\ algs pI = [AIndex] /\
    run_join_gen false wit_hash schs ts pH = Some [] /\
    run_join_gen false wit_hash schs ts pI = Some [[VInt 1; VInt 10]] /\
    run_join wit_hash schs ts pH = Some [[VInt 1; VInt 10]] /\
    join_sel sl w ts = [[VInt 1; VInt 10]].
Proof. exact neg_zero_unfixed_refuted_lemma. Qed.
Print Assumptions neg_zero_unfixed_refuted.

(** * Non-vacuity *)

(** Tables (Proofs/JoinProofs.v), every column indexed as after CREATE TABLE:
      ta = (1,10) (2,20) (2,21) (5,50) (7,3)       key 2 twice, keys 5 and 7 without partner
      tb = (2,3) (2,1) (1,7) (9,9) (1,10)          keys 1 and 2 twice, key 9 without partner
      tc = (1,1) (2,7) (2,5) (3,3)
    (the WHERE trees ex_w2, ex_w3, ex_wn, ex_wx, ex_ws, ex_wt and the table ex_td are defined there too);
    [cands]: the candidate list, [results]: what each candidate returns with the
    hash [wit_hash], [all_return .. ref]: every candidate runs and returns the rows
    [ref] in some order. *)

(** SELECT ta.a1, tb.b1 FROM ta, tb WHERE ta.a0 = tb.b0 AND tb.b1 > 2
    duplicate keys on both sides, missing keys, a filter pushed below the join:
    20 candidates, hash joins in both orientations and an index join into ta
    (tb is filtered, so no index join into tb), with and without Selection. *)
Example c11_nonvacuous_two_tables :
  join_hyps_ok [ix2; ix2] [ex_ta; ex_tb] ex_w2 [1; 3]%nat = true /\
  length (cands [ix2; ix2] ex_w2 [1; 3]%nat) = 20%nat /\
  dedup_algs (map algs (cands [ix2; ix2] ex_w2 [1; 3]%nat)) = [[AHash]; [AIndex]] /\
  dedup_nat_lists (map leaf_order (cands [ix2; ix2] ex_w2 [1; 3]%nat)) = [[0; 1]; [1; 0]]%nat /\
  join_sel [1; 3]%nat ex_w2 [ex_ta; ex_tb] =
    [[VInt 10; VInt 7]; [VInt 10; VInt 10]; [VInt 20; VInt 3]; [VInt 21; VInt 3]] /\
  nth 0 (results [ix2; ix2] [ex_ta; ex_tb] ex_w2 [1; 3]%nat) None =
    Some [[VInt 20; VInt 3]; [VInt 21; VInt 3]; [VInt 10; VInt 7]; [VInt 10; VInt 10]] /\
  all_return [ix2; ix2] [ex_ta; ex_tb] ex_w2 [1; 3]%nat (join_sel [1; 3]%nat ex_w2 [ex_ta; ex_tb]) = true.
Proof. vm_compute. repeat split; reflexivity. Qed.

(** the same query against an empty tb *)
Example c11_nonvacuous_empty_table :
  join_hyps_ok [ix2; ix2] [ex_ta; []] ex_w2 [1; 3]%nat = true /\
  length (cands [ix2; ix2] ex_w2 [1; 3]%nat) = 20%nat /\
  join_sel [1; 3]%nat ex_w2 [ex_ta; []] = [] /\
  all_return [ix2; ix2] [ex_ta; []] ex_w2 [1; 3]%nat [] = true.
Proof. vm_compute. repeat split; reflexivity. Qed.

(** SELECT td.d1, ta.a0, ta.a0 FROM ta, td WHERE ta.a0 = td.d0 AND ta.a1 = td.d1
    td = (2,20) (2,21) (2,20) (4,4): two linking equalities, so nested loop join +
    Selection (in both orders); a select list with a repeated column. *)
Example c11_nonvacuous_nested_loop :
  join_hyps_ok [ix2; ix2] [ex_ta; ex_td] ex_wn [3; 0; 0]%nat = true /\
  map jshape_of (cands [ix2; ix2] ex_wn [3; 0; 0]%nat) =
    [ShProject (ShSelect (ShNest ShScan ShScan)); ShProject (ShSelect (ShNest ShScan ShScan))] /\
  join_sel [3; 0; 0]%nat ex_wn [ex_ta; ex_td] =
    [[VInt 20; VInt 2; VInt 2]; [VInt 20; VInt 2; VInt 2]; [VInt 21; VInt 2; VInt 2]] /\
  all_return [ix2; ix2] [ex_ta; ex_td] ex_wn [3; 0; 0]%nat (join_sel [3; 0; 0]%nat ex_wn [ex_ta; ex_td]) = true.
Proof. vm_compute. repeat split; reflexivity. Qed.

(** SELECT tc.c0, ta.a1 FROM ta, tc WHERE ta.a1 >= 50: no join condition, a cross
    product; joined as (tc, ta) the columns already are the select list and no final
    Projection is added. *)
Example c11_nonvacuous_cross_product :
  join_hyps_ok [ix2; ix2] [ex_ta; ex_tc] ex_wx [2; 1]%nat = true /\
  map jshape_of (cands [ix2; ix2] ex_wx [2; 1]%nat) =
    [ShProject (ShNest ShScan ShScan); ShNest ShScan ShScan; ShProject (ShNest ShScan ShScan); ShNest ShScan ShScan] /\
  join_sel [2; 1]%nat ex_wx [ex_ta; ex_tc] = [[VInt 1; VInt 50]; [VInt 2; VInt 50]; [VInt 2; VInt 50]; [VInt 3; VInt 50]] /\
  all_return [ix2; ix2] [ex_ta; ex_tc] ex_wx [2; 1]%nat (join_sel [2; 1]%nat ex_wx [ex_ta; ex_tc]) = true.
Proof. vm_compute. repeat split; reflexivity. Qed.

(** An equality inside one table is a filter of that table's scan (/repo e79176f):
      ta(a0,a1) = (1,1),(2,20)   tb(b0,b1) = (2,3),(1,3)      (no index)
      SELECT ta.a1, tb.b1 FROM ta, tb WHERE ta.a0 = tb.b0 AND ta.a0 = ta.a1
    all 8 candidates return (1,3) (before the fix: (20,3),(1,3)); the leaf of ta carries
    the Selection [a0 = a1]. *)
Example c11_same_table_equality :
  join_hyps_ok [i2; i2] [st_ta; st_tb] st_w [1; 3] = true /\
  length (cands [i2; i2] st_w [1; 3]) = 8 /\
  nth 0 (cands [i2; i2] st_w [1; 3]) dummy_plan =
    JProject (JHash (JSelect (JScan 0 (PProjection PSeqScan [0; 1])) (JColEq 0 1))
                    (JScan 1 (PProjection PSeqScan [0; 1])) 0 2) [1; 3] /\
  join_sel [1; 3] st_w [st_ta; st_tb] = [[VInt 1; VInt 3]] /\
  all_return [i2; i2] [st_ta; st_tb] st_w [1; 3] [[VInt 1; VInt 3]] = true.
Proof. vm_compute. repeat split; reflexivity. Qed.

(** The same with every column indexed: the filtered ta is never the inner side of an
    index join (tb is); with [AND ta.a0 = 1] the leaf of ta is an index range scan
    under that Selection.  A three-table chain with [tc.c0 = tc.c1]. *)
Example c11_same_table_equality_indexed :
  join_hyps_ok [ix2; ix2] [st_ta; st_tb] st_w [1; 3] = true /\
  map (fun p => (algs p, leaf_order p)) (filter (fun p => match algs p with [AIndex] => true | _ => false end)
                                                (cands [ix2; ix2] st_w [1; 3])) =
    [([AIndex], [0; 1]); ([AIndex], [0; 1])] /\
  all_return [ix2; ix2] [st_ta; st_tb] st_w [1; 3] [[VInt 1; VInt 3]] = true /\
  join_hyps_ok [ix2; ix2] [st_ta; st_tb] st_w2 [1; 3] = true /\
  nth 0 (cands [ix2; ix2] st_w2 [1; 3]) dummy_plan =
    JProject (JHash (JSelect (JScan 0 (PProjection (PIndexRange 0 TInt (VInt 1) (VInt 1)) [0; 1])) (JColEq 0 1))
                    (JScan 1 (PProjection PSeqScan [0; 1])) 0 2) [1; 3] /\
  all_return [ix2; ix2] [st_ta; st_tb] st_w2 [1; 3] [[VInt 1; VInt 3]] = true /\
  join_hyps_ok [ix2; ix2; ix2] [ex_ta; ex_tb; ex_tc] st_w3 [5; 1] = true /\
  length (cands [ix2; ix2; ix2] st_w3 [5; 1]) = 200 /\
  join_sel [5; 1] st_w3 [ex_ta; ex_tb; ex_tc] = [[VInt 3; VInt 20]; [VInt 1; VInt 20]; [VInt 3; VInt 21]; [VInt 1; VInt 21]] /\
  all_return [ix2; ix2; ix2] [ex_ta; ex_tb; ex_tc] st_w3 [5; 1]
             (join_sel [5; 1] st_w3 [ex_ta; ex_tb; ex_tc]) = true.
Proof. vm_compute. repeat split; reflexivity. Qed.

(** A three-table chain:
    SELECT tc.c1, ta.a1 FROM ta, tb, tc WHERE ta.a0 = tb.b0 AND tb.b1 = tc.c1 AND tc.c0 > 0
    400 candidates: all six join orders, left-deep and bushy-side splits, hash /
    index / nested-loop joins in every combination the programme can build. *)
Example c11_nonvacuous_three_table_chain :
  join_hyps_ok [ix2; ix2; ix2] [ex_ta; ex_tb; ex_tc] ex_w3 [5; 1]%nat = true /\
  length (cands [ix2; ix2; ix2] ex_w3 [5; 1]%nat) = 400%nat /\
  dedup_nat_lists (map leaf_order (cands [ix2; ix2; ix2] ex_w3 [5; 1]%nat)) =
    [[1; 0; 2]; [2; 0; 1]; [0; 1; 2]; [1; 2; 0]; [0; 2; 1]; [2; 1; 0]]%nat /\
  dedup_algs (map algs (cands [ix2; ix2; ix2] ex_w3 [5; 1]%nat)) =
    [[ANest; ANest]; [AIndex; AHash]; [AHash; AHash]; [AIndex; AIndex]; [AHash; AIndex]] /\
  join_sel [5; 1]%nat ex_w3 [ex_ta; ex_tb; ex_tc] =
    [[VInt 7; VInt 10]; [VInt 3; VInt 20]; [VInt 1; VInt 20]; [VInt 3; VInt 21]; [VInt 1; VInt 21]] /\
  all_return [ix2; ix2; ix2] [ex_ta; ex_tb; ex_tc] ex_w3 [5; 1]%nat
             (join_sel [5; 1]%nat ex_w3 [ex_ta; ex_tb; ex_tc]) = true.
Proof. vm_compute. repeat split; reflexivity. Qed.

(** A star (ta in the middle) and a triangle over the same tables. *)
Example c11_nonvacuous_star_and_triangle :
  join_hyps_ok [ix2; ix2; ix2] [ex_ta; ex_tb; ex_tc] ex_ws [5; 3; 1]%nat = true /\
  length (cands [ix2; ix2; ix2] ex_ws [5; 3; 1]%nat) = 244%nat /\
  length (join_sel [5; 3; 1]%nat ex_ws [ex_ta; ex_tb; ex_tc]) = 10%nat /\
  all_return [ix2; ix2; ix2] [ex_ta; ex_tb; ex_tc] ex_ws [5; 3; 1]%nat
             (join_sel [5; 3; 1]%nat ex_ws [ex_ta; ex_tb; ex_tc]) = true /\
  join_hyps_ok [ix2; ix2; ix2] [ex_ta; ex_tb; ex_tc] ex_wt [5; 3; 1]%nat = true /\
  length (cands [ix2; ix2; ix2] ex_wt [5; 3; 1]%nat) = 72%nat /\
  dedup_algs (map algs (cands [ix2; ix2; ix2] ex_wt [5; 3; 1]%nat)) = [[ANest; AHash]; [ANest; AIndex]] /\
  all_return [ix2; ix2; ix2] [ex_ta; ex_tb; ex_tc] ex_wt [5; 3; 1]%nat
             (join_sel [5; 3; 1]%nat ex_wt [ex_ta; ex_tb; ex_tc]) = true.
Proof. vm_compute. repeat split; reflexivity. Qed.

(** The theorem applied to the chain: all 400 candidates, any hash function. *)
Example c11_chain_by_theorem : forall h p, In p (cands [ix2; ix2; ix2] ex_w3 [5; 1]%nat) ->
  exists out, run_join h [ix2; ix2; ix2] [ex_ta; ex_tb; ex_tc] p = Some out /\
              Permutation out [[VInt 7; VInt 10]; [VInt 3; VInt 20]; [VInt 1; VInt 20]; [VInt 3; VInt 21]; [VInt 1; VInt 21]].
Proof. exact chain_by_theorem_lemma. Qed.
