(** C17 (B-tree index) — the wrapper's keys versus the B-link tree's stopper key.

    lib/storage/index/btree_index.go hands the B-link-tree library the key bytes
    [enc_int_key z page slot] / [enc_f32_key u page slot] / [enc_str_key s page slot]
    (Model/Codec.v).  The library reserves the 2-byte key FF FF as its stopper
    (the infinite fence key of the rightmost page on each level) and compares keys
    byte-wise, a proper prefix being smaller ([lex_cmp]).  Its search invariant
    needs every stored key to be strictly below the stopper.

    PROVED (Proofs/BTreeStopper.v):
    - an int32 key z is below the stopper iff z < 0x7FFF0000 = 2147418112, and
      above it (never equal: the key is 12 bytes long) iff z >= 0x7FFF0000;
    - every non-NaN float32 key is below the stopper (+Inf encodes as FF 80 ..);
      in fact every float32 key is: a NaN is encoded as its complement;
    - every string key without a byte 255 is below the stopper.
    REFUTED (faithful to the Go code):
    - "every key the wrapper stores is below the stopper" -> false for the 65536
      int keys 0x7FFF0000 .. 0x7FFFFFFF.  Engine scenario: rows with such keys in a
      B-tree-indexed int column; after a leaf split the entries are no longer
      found. *)
From Coq Require Import List NArith ZArith.
From SDB Require Import Base.Bytes Params Model.Codec Model.IndexWrap
  Proofs.CodecProofs Proofs.BTreeStopper.
Import ListNotations.
Local Open Scope N_scope.

(** * Theorems *)

Theorem btree_int_key_below_stopper :
  forall z page slot,
    int32_range z -> (z < bt_int_limit)%Z -> lex_cmp (enc_int_key z page slot) bt_stopper = Lt.
Proof. exact int_key_below_stopper. Qed.
Print Assumptions btree_int_key_below_stopper.

Theorem btree_int_key_above_stopper :
  forall z page slot,
    int32_range z -> (bt_int_limit <= z)%Z -> lex_cmp (enc_int_key z page slot) bt_stopper = Gt.
Proof. exact int_key_above_stopper. Qed.
Print Assumptions btree_int_key_above_stopper.

Theorem btree_int_key_below_stopper_iff :
  forall z page slot,
    int32_range z -> (lex_cmp (enc_int_key z page slot) bt_stopper = Lt <-> (z < bt_int_limit)%Z).
Proof. exact int_key_below_stopper_iff. Qed.
Print Assumptions btree_int_key_below_stopper_iff.

Theorem btree_int_key_above_stopper_iff :
  forall z page slot,
    int32_range z -> (lex_cmp (enc_int_key z page slot) bt_stopper = Gt <-> (bt_int_limit <= z)%Z).
Proof. exact int_key_above_stopper_iff. Qed.
Print Assumptions btree_int_key_above_stopper_iff.

Theorem btree_f32_key_below_stopper :
  forall u page slot,
    u < two32 -> f_is_nan u = false -> lex_cmp (enc_f32_key u page slot) bt_stopper = Lt.
Proof. exact f32_key_below_stopper. Qed.
Print Assumptions btree_f32_key_below_stopper.

(** Stronger: the NaN hypothesis is not needed (a NaN is encoded as [^u]). *)
Theorem btree_f32_key_below_stopper_any :
  forall u page slot,
    u < two32 -> lex_cmp (enc_f32_key u page slot) bt_stopper = Lt.
Proof. exact f32_key_below_stopper_any. Qed.
Print Assumptions btree_f32_key_below_stopper_any.

Theorem btree_str_key_below_stopper :
  forall s page slot,
    Forall (fun b => b < 255) s -> lex_cmp (enc_str_key s page slot) bt_stopper = Lt.
Proof. exact str_key_below_stopper. Qed.
Print Assumptions btree_str_key_below_stopper.

(** * Refuted *)

(** The B-link tree's precondition "every stored key is below the stopper" does
    not hold of the keys the wrapper produces. *)
Theorem btree_keys_below_stopper_refuted :
  exists z page slot, int32_range z /\ lex_cmp (enc_int_key z page slot) bt_stopper <> Lt.
Proof. exact Proofs.BTreeStopper.btree_keys_below_stopper_refuted. Qed.
Print Assumptions btree_keys_below_stopper_refuted.

(** * Examples *)

(** The constants. *)
Example ex_stopper_constants :
  bt_stopper = [255; 255] /\ bt_int_limit = 2147418112%Z /\ bt_int_limit = (32767 * 65536)%Z.
Proof. vm_compute. repeat split. Qed.

(** MaxInt32 at page 2, slot 94: FF FF FF FF + suffix, above the stopper. *)
Example ex_stopper_maxint :
  enc_int_key 2147483647 2 94 = [255; 255; 255; 255; 2; 0; 0; 0; 94; 0; 0; 0] /\
  lex_cmp (enc_int_key 2147483647 2 94) bt_stopper = Gt.
Proof. vm_compute. repeat split. Qed.

(** The boundary: 0x7FFF0000 is the first key above, 0x7FFEFFFF the last below. *)
Example ex_stopper_boundary :
  enc_int_key 2147418112 2 94 = [255; 255; 0; 0; 2; 0; 0; 0; 94; 0; 0; 0] /\
  lex_cmp (enc_int_key 2147418112 2 94) bt_stopper = Gt /\
  enc_int_key 2147418111 2 94 = [255; 254; 255; 255; 2; 0; 0; 0; 94; 0; 0; 0] /\
  lex_cmp (enc_int_key 2147418111 2 94) bt_stopper = Lt /\
  lex_cmp (enc_int_key 0 2 94) bt_stopper = Lt /\
  lex_cmp (enc_int_key (-2147483648) 2 94) bt_stopper = Lt.
Proof. vm_compute. repeat split. Qed.

(** Floats: +Inf (0x7F800000) and the largest finite value (0x7F7FFFFF) are
    below.  A NaN takes the "negative" branch of the encoder ([f >= 0] is false),
    so even the quiet NaN 0x7FFF0000 is encoded as 80 00 FF FF, below the stopper. *)
Example ex_stopper_floats :
  enc_f32_key 2139095040 2 94 = [255; 128; 0; 0; 2; 0; 0; 0; 94; 0; 0; 0] /\
  lex_cmp (enc_f32_key 2139095040 2 94) bt_stopper = Lt /\
  enc_f32_key 2139095039 2 94 = [255; 127; 255; 255; 2; 0; 0; 0; 94; 0; 0; 0] /\
  lex_cmp (enc_f32_key 2139095039 2 94) bt_stopper = Lt /\
  f_is_nan 2147418112 = true /\
  enc_f32_key 2147418112 2 94 = [128; 0; 255; 255; 2; 0; 0; 0; 94; 0; 0; 0] /\
  lex_cmp (enc_f32_key 2147418112 2 94) bt_stopper = Lt.
Proof. vm_compute. repeat split. Qed.

(** Strings: the empty string is below; a string starting with two 255 bytes —
    excluded by the theorem — is above. *)
Example ex_stopper_strings :
  lex_cmp (enc_str_key [] 2 94) bt_stopper = Lt /\
  lex_cmp (enc_str_key [254; 254] 2 94) bt_stopper = Lt /\
  lex_cmp (enc_str_key [255; 255] 2 94) bt_stopper = Gt.
Proof. vm_compute. repeat split. Qed.
