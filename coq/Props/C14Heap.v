(** C14 (table heap) — every operation of the table heap gives back every
    buffer pin it takes, on every path it can return by; and the heap is the
    finite map rid -> (row, delete-marked) its callers take it for.

    The model ([Model/Heap.v]) follows lib/storage/access/table_heap.go and
    table_heap_iterator.go action by action (FetchPage / NewPage / UnpinPage /
    row lock request / TablePage call), with the page contents of C15's
    abstract page.  Lock answers, "deleted by myself" and new page ids are
    inputs; every statement below quantifies over all of them.
    Statements only. *)
From Coq Require Import List NArith ZArith Bool.
From SDB Require Import Params Model.Page Model.Pins Model.Heap Proofs.HeapProofs.
Import ListNotations.
Open Scope N_scope.

(** * Pins *)

(** For EVERY heap state (reachable or not), EVERY operation, EVERY lock answer
    and EVERY outcome the Go function returns with — success, not enough space
    (walk to the next page / allocate a page / delete + re-insert), lock denied
    before or after the page is fetched, row absent, row delete-marked by the
    caller or by somebody else, scan aborted half way — the pool never sees an
    unpin of an unpinned page, every page has the pin count it had before, and
    the pin/unpin events form a balanced statement in the sense of C14.
    ([HR_Panic]: the Go code panics; [HR_NoNewPage]: InsertTuple is still
    looping; both are characterised below.) *)
Theorem heap_ops_pin_balanced : forall lk mine st o st' r tr,
  hp_exec hp_go lk mine st o = (st', r, tr) ->
  r <> HR_Panic -> r <> HR_NoNewPage ->
  hp_pin_safe (hp_pins st) tr = true /\
  (forall q, hp_pget (hp_pins st') q = hp_pget (hp_pins st) q) /\
  balanced (hp_pevs tr).
Proof. exact hp_ops_pin_balanced. Qed.
Print Assumptions heap_ops_pin_balanced.

(** A statement built from any number of heap operations is a balanced
    statement of [Props/C14.v]: it leaves every pin vector as it found it, so
    [workload_of_any_length_preserves_pins] and [balanced_forever] apply to it. *)
Theorem heap_statement_balanced : forall calls st, hp_stmt_returns calls st ->
  balanced (hp_pevs (hp_stmt_trace calls st)) /\
  forall v q, apply_trace v (hp_pevs (hp_stmt_trace calls st)) q = v q.
Proof. exact hp_statement_balanced. Qed.
Print Assumptions heap_statement_balanced.

(** Reachable heaps are well formed: a non-empty chain of distinct pages, the
    insertion hint on the chain, bytes used <= page capacity on every page. *)
Theorem reachable_heap_well_formed : forall st, hp_reachable st -> hp_wf (hp_heap_of st).
Proof. exact hp_reachable_wf. Qed.
Print Assumptions reachable_heap_well_formed.

(** The only panics on a reachable heap with legal inputs: ApplyDelete /
    RollbackDelete of a rid that holds no row, GetTuple / Next on a page that
    is not part of the heap (caller contract violations). *)
Theorem heap_panics_only_on_contract_violation : forall lk mine st o h' tr,
  hp_reachable st -> hp_op_ok (hp_heap_of st) o = true ->
  hp_step hp_go lk mine (hp_heap_of st) o = (h', HR_Panic, tr) ->
  match o with
  | HApplyDelete p s | HRollbackDelete p s => hp_lookup (hp_chain (hp_heap_of st)) p s = None
  | HGetTuple p s | HNext p s => ~ In p (hp_ids (hp_chain (hp_heap_of st)))
  | _ => False
  end.
Proof. exact hp_panic_reachable. Qed.
Print Assumptions heap_panics_only_on_contract_violation.

(** InsertTuple returns as soon as it is given one new page whose first slot
    it can lock, provided the row fits on an empty page ... *)
Theorem insert_returns : forall lk st row n ids,
  hp_reachable st -> blen row <> 0 -> blen row + size_tuple <= page_size - size_table_page_header ->
  lk n 0 = true -> exists p s, snd (fst (hp_insert lk (hp_heap_of st) row (n :: ids))) = HR_Inserted p s.
Proof. exact hp_insert_returns_reachable. Qed.
Print Assumptions insert_returns.

(** ... and FINDING: a row that does not fit on an empty page (more than
    4064 bytes) is never placed and never refused: the loop links every new
    page it is handed into the chain and asks for the next one. *)
Theorem insert_oversize_never_returns : forall lk st row ids,
  hp_reachable st -> blen row <> 0 -> page_size - size_table_page_header < blen row + size_tuple ->
  snd (fst (hp_insert lk (hp_heap_of st) row ids)) = HR_NoNewPage /\
  length (hp_chain (fst (fst (hp_insert lk (hp_heap_of st) row ids)))) =
  (length (hp_chain (hp_heap_of st)) + length ids)%nat.
Proof. exact hp_insert_oversize_reachable. Qed.
Print Assumptions insert_oversize_never_returns.

(** * The scan *)

(** Iterating from GetFirstTuple with Next until End returns exactly what
    [hp_scan_spec] says of [hp_flat]: the rows of the heap in (chain position,
    slot) order — whatever number of empty pages lie at the front, in the
    middle or at the end —, each rid once, skipping the rows delete-marked by
    the reader itself, stopping (transaction aborted) at the first row whose
    lock is denied or that somebody else has delete-marked.  [hp_flat] lists
    exactly the entries of the map, without repetition.  The scan terminates
    within the fuel "number of slots of all pages + 1", and never ends in
    [HE_Fuel] / [HE_Panic].  With all locks granted and all marks the reader's
    own, the result is all rows that are not delete-marked. *)
Theorem scan_returns_exactly_live_rows : forall lk mine st, hp_reachable st ->
  let c := hp_chain (hp_heap_of st) in
  fst (hp_scan hp_go lk mine (hp_heap_of st)) =
    (let '(rows, e) := hp_scan_spec lk mine (hp_flat c) in HR_Scan rows e) /\
  (snd (hp_scan_spec lk mine (hp_flat c)) = HE_End \/ snd (hp_scan_spec lk mine (hp_flat c)) = HE_Abort) /\
  (forall p s e, In (p, s, e) (hp_flat c) <-> hp_lookup c p s = Some e) /\
  NoDup (map fst (hp_flat c)) /\
  ((forall p s b mk, hp_lookup c p s = Some (b, mk) -> lk p s = true /\ (mk = true -> mine p s = true)) ->
   hp_scan_spec lk mine (hp_flat c) =
   (map (fun x => (fst (fst x), snd (fst x), fst (snd x))) (filter (fun x => negb (snd (snd x))) (hp_flat c)),
    HE_End)).
Proof. exact hp_scan_exact. Qed.
Print Assumptions scan_returns_exactly_live_rows.

(** * The heap as a map *)

(** Each operation (any variant: the two switches only touch reads) updates
    the map rid -> (row, marked) as the corresponding map operation
    [hp_mstep], and returns what the map dictates ([hp_res_ok]). *)
Theorem heap_refines_map : forall V lk mine st o h' r tr,
  hp_reachable st -> hp_op_ok (hp_heap_of st) o = true ->
  hp_step V lk mine (hp_heap_of st) o = (h', r, tr) ->
  r <> HR_Panic -> r <> HR_NoNewPage ->
  (forall q t, hp_lookup (hp_chain h') q t = hp_mstep (hp_lookup (hp_chain (hp_heap_of st))) o r q t) /\
  hp_res_ok lk mine (hp_lookup (hp_chain (hp_heap_of st))) o r.
Proof. exact hp_refines_map_reachable. Qed.
Print Assumptions heap_refines_map.

(** The rid an insert chooses: the first page, from the hint page on in chain
    order and then through the new pages, that takes the row ([hp_accepts]:
    room for the row plus a slot entry, and the lock of its first free slot). *)
Theorem insert_placement : forall lk st row ids,
  hp_reachable st -> blen row <> 0 ->
  exists pre cur rest,
    hp_split (hp_chain (hp_heap_of st)) (hp_hint (hp_heap_of st)) = Some (pre, cur, rest) /\
    snd (fst (hp_insert lk (hp_heap_of st) row ids)) =
    match hp_place lk row (cur :: rest ++ map hp_fresh ids) with
    | Some (p, s) => HR_Inserted p s
    | None => HR_NoNewPage
    end.
Proof. exact hp_insert_placement_reachable. Qed.
Print Assumptions insert_placement.

(** After ApplyDelete the hint is the first page, the page of the deleted row
    has gained exactly the bytes of that row, and an insert this page can take
    lands on it or on an earlier page — no new page is allocated. *)
Theorem insert_finds_room_after_delete : forall lk st p s b mk,
  hp_reachable st -> hp_lookup (hp_chain (hp_heap_of st)) p s = Some (b, mk) ->
  exists h1 tr1 pg pg1 A B,
    hp_apply_delete (hp_heap_of st) p s = (h1, HR_Done, tr1) /\
    hp_hint h1 = hp_first (hp_heap_of st) /\ hp_wf h1 /\
    hp_find (hp_chain (hp_heap_of st)) p = Some pg /\ hp_chain h1 = A ++ pg1 :: B /\ hp_pid pg1 = p /\
    a_free (hp_rows pg1) = a_free (hp_rows pg) + blen b /\
    forall row ids s' a' h2 r2 tr2,
      blen row <> 0 -> hp_accepts lk row pg1 = Some (s', a') ->
      hp_insert lk h1 row ids = (h2, r2, tr2) ->
      exists p2 s2, r2 = HR_Inserted p2 s2 /\ In p2 (hp_ids (A ++ [pg1])) /\
                    hp_ids (hp_chain h2) = hp_ids (hp_chain h1).
Proof. exact hp_insert_after_apply_delete_reachable. Qed.
Print Assumptions insert_finds_room_after_delete.

(** * The two regressions, as refuted variants *)

(** [gft_unpins_skipped = false]: on a reachable heap whose first two pages
    are empty, one scan leaves a pin on each of them. *)
Theorem gft_unpins_skipped_false_refuted :
  exists st, hp_reachable st /\
    let '(st', r, tr) := hp_exec_l (mkHpV false true) [] [] st HScan in
    hp_pin_vector st [1; 2; 3] = [0; 0; 0]%nat /\
    hp_pin_vector st' [1; 2; 3] = [1; 1; 0]%nat /\
    hp_rids r = [(3, 0)] /\
    ~ balanced (hp_pevs tr).
Proof. exact hp_gft_leak_refuted. Qed.
Print Assumptions gft_unpins_skipped_false_refuted.

(** [iter_skips_all_empty = false]: on a reachable heap with two consecutive
    empty pages behind a row, the row after them is not returned. *)
Theorem iter_skips_all_empty_false_refuted :
  exists st, hp_reachable st /\
    let '(st', r, tr) := hp_exec_l (mkHpV true false) [] [] st HScan in
    hp_rids r = [(1, 0); (1, 1)] /\
    map (fun x => (fst (fst x), snd (fst x))) (fst (hp_scan_expected [] [] st)) = [(1, 0); (1, 1); (4, 0)] /\
    hp_pin_vector st' [1; 2; 3; 4] = [0; 0; 0; 0]%nat.
Proof. exact hp_iter_if_refuted. Qed.
Print Assumptions iter_skips_all_empty_false_refuted.

(** * Non-vacuity *)

Definition c14h_fill3 : list hp_call :=
  [([], [], HInsert (hp_big 1) [2]); ([], [], HInsert (hp_big 2) [2]);
   ([], [], HInsert (hp_big 3) [2]); ([], [], HInsert (hp_big 4) [3]);
   ([], [], HInsert (hp_big 5) [3]); ([], [], HInsert (hp_big 6) [4])].

(** three pages, the middle one emptied, a row of page 1 delete-marked by the
    reader: the scan returns the other three rows and leaves no pin *)
Example c14heap_scan_nonvacuous :
  let st := hp_run_l hp_go (c14h_fill3 ++ hp_del 2 0 ++ hp_del 2 1 ++ [([], [], HMarkDelete 1 1)]) (hp_init 1) in
  let '(st', r, tr) := hp_exec_l hp_go [] [(1, 1)] st HScan in
  hp_run_ok (c14h_fill3 ++ hp_del 2 0 ++ hp_del 2 1 ++ [([], [], HMarkDelete 1 1)]) (hp_init 1) = true /\
  r = HR_Scan [(1, 0, hp_big 1); (3, 0, hp_big 5); (3, 1, hp_big 6)] HE_End /\
  hp_pin_vector st' [1; 2; 3] = [0; 0; 0]%nat /\
  hp_pevs tr = [Pin 1; Unpin 1; Pin 1; Unpin 1;               (* GetFirstTuple, GetTuple *)
                Pin 1; Unpin 1; Pin 1; Pin 2; Unpin 1; Pin 3; Unpin 2; Unpin 3;  (* Next: own-deleted (1,1), empty page 2 *)
                Pin 3; Unpin 3;                               (* Next: (3,1) *)
                Pin 3; Unpin 3].                              (* Next: end *)
Proof. vm_compute. repeat split. Qed.

(** the same scan by somebody who does not hold the mark's lock: denied at (1,1), aborted *)
Example c14heap_scan_denied :
  let st := hp_run_l hp_go (c14h_fill3 ++ [([], [], HMarkDelete 1 1)]) (hp_init 1) in
  let '(st', r, tr) := hp_exec_l hp_go [(1, 1)] [] st HScan in
  r = HR_Scan [(1, 0, hp_big 1)] HE_Abort /\ hp_pin_vector st' [1; 2; 3] = [0; 0; 0]%nat.
Proof. vm_compute. repeat split. Qed.

(** an insert that has to allocate a page, and one whose lock is denied on
    the hint page and that therefore moves on *)
Example c14heap_insert_nonvacuous :
  let st := hp_run_l hp_go [([], [], HInsert (hp_big 1) [2]); ([], [], HInsert (hp_big 2) [2])] (hp_init 1) in
  (let '(st', r, tr) := hp_exec_l hp_go [] [] st (HInsert (hp_big 3) [2]) in
   r = HR_Inserted 2 0 /\ hp_pevs tr = [Pin 1; Pin 2; Unpin 1; Unpin 2] /\
   hp_hint (hp_heap_of st') = 2 /\ hp_pin_vector st' [1; 2] = [0; 0]%nat) /\
  (let '(st', r, tr) := hp_exec_l hp_go [(1, 2)] [] st (HInsert [9] [2]) in
   r = HR_Inserted 2 0 /\ hp_pevs tr = [Pin 1; Pin 2; Unpin 1; Unpin 2]) /\
  (let '(st', r, tr) := hp_exec_l hp_go [] [] st (HInsert [9] [2]) in
   r = HR_Inserted 1 2 /\ hp_pevs tr = [Pin 1; Unpin 1]).
Proof. vm_compute. repeat split. Qed.

(** the hint: with the hint on page 3 a small row goes to page 3; after an
    ApplyDelete on page 1 it goes to page 1 *)
Example c14heap_hint_nonvacuous :
  let st := hp_run_l hp_go c14h_fill3 (hp_init 1) in
  let st1 := hp_run_l hp_go (hp_del 1 0) st in
  hp_hint (hp_heap_of st) = 3 /\ hp_hint (hp_heap_of st1) = 1 /\
  snd (fst (hp_exec_l hp_go [] [] st (HInsert (hp_big 7) [4]))) = HR_Inserted 4 0 /\
  snd (fst (hp_exec_l hp_go [] [] st1 (HInsert (hp_big 7) [4]))) = HR_Inserted 1 0.
Proof. vm_compute. repeat split. Qed.

(** updates: in place; moved (delete-mark + insert) when the row grows beyond
    the page; moved as well when it shrinks (ErrRollbackDifficult); refused
    when the lock is denied — all without a pin left *)
Example c14heap_update_nonvacuous :
  let st := hp_run_l hp_go c14h_fill3 (hp_init 1) in
  (let '(st', r, tr) := hp_exec_l hp_go [] [] st (HUpdate 1 0 (hp_big 8) false [4]) in
   r = HR_Updated true 1 0 /\ hp_pevs tr = [Pin 1; Unpin 1]) /\
  (let '(st', r, tr) := hp_exec_l hp_go [] [] st (HUpdate 1 0 (hp_big 8 ++ hp_big 8) false [4]) in
   r = HR_Updated false 4 0 /\ hp_pin_vector st' [1; 2; 3; 4] = [0; 0; 0; 0]%nat /\
   hp_pevs tr = [Pin 1; Unpin 1; Pin 1; Unpin 1; Pin 3; Pin 4; Unpin 3; Unpin 4] /\
   hp_lookup (hp_chain (hp_heap_of st')) 1 0 = Some (hp_big 1, true)) /\
  (let '(st', r, tr) := hp_exec_l hp_go [] [] st (HUpdate 1 0 [8] false [4]) in
   r = HR_Updated false 3 2) /\
  (let '(st', r, tr) := hp_exec_l hp_go [(1, 0)] [] st (HUpdate 1 0 (hp_big 8) false [4]) in
   r = HR_Fail /\ hp_pevs tr = [Pin 1; Unpin 1]).
Proof. vm_compute. repeat split. Qed.
