(** C13 (victim selection) — "a page that is in use is never evicted": the victims come only from the replacer, and
    the replacer holds only frames whose pin count is 0.

    [Model/Clock.v] follows lib/storage/buffer/clock_replacer.go over circular_list.go node by node (ring order,
    reference bits, the hand as a pointer to a pointer field, the size counter, the supportMap); the correspondence
    check (lib/clockcorr.py: `verifharness clock` against build/clock_driver) compares every answer AND the whole ring /
    hand / counters after the operations.  Statements are about [creach st]: every state any sequence of
    Victim / Pin / Unpin / Size calls reaches from NewClockReplacer(cap), for every cap.

    What the code is, as proved here: a FIFO queue of frame ids ([q_step]).  Unpin of an absent frame appends it at
    the tail, Unpin of a present frame and Pin of an absent one do nothing, Pin removes the frame from wherever it is,
    Victim returns the OLDEST member (the hand is always on the head of the ring).  The reference bits are all set in
    every reachable state and never influence the choice: Victim's loop does not advance [currentNode], so there is no
    second chance ([second_chance_refuted] on a well-formed ring with mixed bits; vacuously true on reachable states,
    [second_chance_partial]).  Not a C13 defect: the victim is a member either way.
    Bound of the wait (e): a member at position i of the queue that is not pinned is returned once i+1 Victim calls
    were made, hence after at most Size (not 2*Size) Victim calls; interleaved Unpin calls cannot starve it.
    Unpin CAN panic ("circularList::insert capacity is full") when more distinct frame ids are unpinned than the
    capacity ([unpin_never_panics_refuted]); never when the ids are below the capacity, which is what
    BufferPoolManager passes ([unpin_never_panics_partial], and [pool_clock_step] for the pool model).
    Composition with [Model/Pool.v]: [pool_clock_step], [pool_with_clock], [predicted_victim_unpinned].
    Statements only. *)
From Coq Require Import List NArith ZArith Bool.
From SDB Require Import Base.Assoc Model.Clock Model.Pool Model.PoolClient Proofs.PoolProofs Proofs.ClockProofs.
Import ListNotations.
Open Scope N_scope.

(** [creach] is "reached by a run from a new replacer". *)
Theorem reachable_iff_run : forall st, creach st <-> exists cap ops, st = fst (clock_run (clock_init cap) ops).
Proof. exact creach_iff_run. Qed.
Print Assumptions reachable_iff_run.

(** The replacer refines the FIFO queue [q_step]: same answer, and the frames in the ring (head first) are the queue. *)
Theorem clock_step_refines_queue : forall st o st' a, creach st -> clock_step st o = (st', a) ->
  q_step (c_cap st) (keys st) o = (keys st', a).
Proof. exact clock_step_refines_queue_lemma. Qed.
Print Assumptions clock_step_refines_queue.

Theorem clock_run_refines_queue : forall cap ops st outs, clock_run (clock_init cap) ops = (st, outs) ->
  q_run cap [] ops = (keys st, outs).
Proof. exact clock_run_refines_queue_lemma. Qed.
Print Assumptions clock_run_refines_queue.

(** (a) Membership refinement, in the vocabulary of Pool.v's [repl] field: Unpin adds (at the end, if absent), Pin
    removes, Victim removes the frame it returns; nothing else changes the membership. *)
Theorem membership_refinement : forall st o st' a, creach st -> clock_step st o = (st', a) ->
  keys st' = repl_after (keys st) o a.
Proof. exact membership_refinement_lemma. Qed.
Print Assumptions membership_refinement.

(** (b) A returned victim was a member — the first one — and is not a member afterwards. *)
Theorem victim_is_member : forall st st' v, creach st -> clock_step st CVictim = (st', AVictim v) ->
  In v (keys st) /\ keys st = v :: keys st' /\ ~ In v (keys st').
Proof. exact victim_is_member_lemma. Qed.
Print Assumptions victim_is_member.

(** (c) Victim answers "none" (the Go code panics) exactly when the replacer is empty, and then changes nothing. *)
Theorem victim_none_iff_empty : forall st st' a, creach st -> clock_step st CVictim = (st', a) ->
  (a = ANone <-> keys st = []) /\ (a = ANone -> st' = st) /\ (keys st <> [] -> exists v, a = AVictim v).
Proof. exact victim_none_iff_empty_lemma. Qed.
Print Assumptions victim_none_iff_empty.

(** (d) No frame is in the ring twice; the size counter, and the answer of Size(), is the number of members; it
    never exceeds the capacity. *)
Theorem size_is_cardinality : forall st, creach st ->
  NoDup (keys st) /\ c_size st = N.of_nat (length (keys st)) /\
  clock_step st CSize = (st, ASize (N.of_nat (length (keys st)))) /\
  c_size st <= c_cap st.
Proof. exact size_is_cardinality_lemma. Qed.
Print Assumptions size_is_cardinality.

(** The hand never refers to a node that left the ring (the model never gives up on the Go code) ... *)
Theorem hand_never_stale : forall st o st' a, creach st -> clock_step st o = (st', a) -> a <> AUndef.
Proof. exact never_undef_lemma. Qed.
Print Assumptions hand_never_stale.

(** ... it is always on the head node (the oldest member) ... *)
Theorem hand_on_head : forall st, creach st -> c_nodes st <> [] ->
  hand_target st = head_id (c_nodes st) /\
  snd (clock_dump st) = Some (option_map cn_key (hd_error (c_nodes st))).
Proof. exact hand_on_head_lemma. Qed.
Print Assumptions hand_on_head.

(** ... and every reference bit is set. *)
Theorem ref_bits_always_set : forall st x, creach st -> In x (c_nodes st) -> cn_ref x = true.
Proof. exact ref_bits_always_set_lemma. Qed.
Print Assumptions ref_bits_always_set.

(** (e) A member at position [i] that is not pinned is returned once more than [i] Victim calls were made,
    whatever Unpin / Pin (of other frames) / Size calls are interleaved. *)
Theorem victim_within_position : forall st ops st' outs f i, creach st ->
  index_of f (keys st) = Some i -> ~ In (CPin f) ops -> clock_run st ops = (st', outs) ->
  (i < nvictims ops)%nat -> In (AVictim f) outs.
Proof. exact victim_within_position_lemma. Qed.
Print Assumptions victim_within_position.

Theorem victim_within_size : forall st ops st' outs f, creach st ->
  In f (keys st) -> ~ In (CPin f) ops -> clock_run st ops = (st', outs) ->
  c_size st <= N.of_nat (nvictims ops) -> In (AVictim f) outs.
Proof. exact victim_within_size_lemma. Qed.
Print Assumptions victim_within_size.

(** Until then it stays a member and moves towards the front by one position per Victim call (at least). *)
Theorem waiting_member_advances : forall st ops st' outs f i, creach st ->
  index_of f (keys st) = Some i -> ~ In (CPin f) ops -> clock_run st ops = (st', outs) ->
  ~ In (AVictim f) outs -> exists j, index_of f (keys st') = Some j /\ (j + nvictims ops <= i)%nat.
Proof. exact waiting_member_advances_lemma. Qed.
Print Assumptions waiting_member_advances.

(** The victim sequence: [n] Victim calls in a row return the first [n] members in queue order, then "none". *)
Theorem victim_run_is_queue_prefix : forall st n, creach st ->
  snd (clock_run st (repeat CVictim n)) =
    map AVictim (firstn n (keys st)) ++ repeat ANone (n - length (keys st)) /\
  keys (fst (clock_run st (repeat CVictim n))) = skipn n (keys st).
Proof. exact victim_run_lemma. Qed.
Print Assumptions victim_run_is_queue_prefix.

(** (f) FALSE: "Unpin never panics" — the capacity is the pool size, the frame id is not checked against it. *)
Theorem unpin_never_panics_refuted : ~ unpin_never_panics_stmt.
Proof. exact unpin_never_panics_refuted_lemma. Qed.
Print Assumptions unpin_never_panics_refuted.

Theorem unpin_never_panics_partial : forall cap ops, (forall f, In (CUnpin f) ops -> f < cap) ->
  ~ In AFull (snd (clock_run (clock_init cap) ops)).
Proof. exact unpin_never_panics_partial_lemma. Qed.
Print Assumptions unpin_never_panics_partial.

(** (f) FALSE on well-formed rings: the second chance of the textbook clock. *)
Theorem second_chance_refuted : ~ second_chance_stmt (fun st => cinv0 st /\ hand_ok st).
Proof. exact second_chance_refuted_lemma. Qed.
Print Assumptions second_chance_refuted.

Theorem second_chance_partial : second_chance_stmt creach.
Proof. exact second_chance_partial_lemma. Qed.
Print Assumptions second_chance_partial.

(** Composition with Model/Pool.v, one pool operation: pool state [b] (invariant [SInv], which PoolProofs
    establishes for every reachable pool state) and replacer state [ck] with [repl b = keys ck].  Running the pool
    model with the victim the replacer model predicts, and the replacer model on the calls the pool manager makes
    ([pool_replacer_calls]), keeps them equal; no Unpin panics; the oracle value is legal. *)
Theorem pool_clock_step : forall n b o b' out ck ck' outs,
  SInv n b None -> creach ck -> c_cap ck = N.of_nat n -> repl b = keys ck ->
  bstep b (with_victim o (predicted_victim (keys ck))) = (b', out) ->
  clock_run ck (pool_replacer_calls b o) = (ck', outs) ->
  repl b' = keys ck' /\ creach ck' /\ c_cap ck' = N.of_nat n /\
  ~ In AFull outs /\ ~ In AUndef outs /\
  take_frame b (predicted_victim (keys ck)) <> inr tt.
Proof. exact pool_clock_step_lemma. Qed.
Print Assumptions pool_clock_step.

(** Whole histories under the client contract of Model/PoolClient.v ([pcc_run] = pool + client + replacer model,
    no victim oracle): every such run IS a run of the pool model with legal victims (so every theorem of Props/C13.v
    applies to it), and [repl] is the replacer's queue throughout. *)
Theorem pool_with_clock : forall n ops b cl ck outs,
  pcc_run n (binit n, cinit, clock_init (N.of_nat n)) ops = Some (b, cl, ck, outs) ->
  repl b = keys ck /\ creach ck /\ c_cap ck = N.of_nat n /\
  exists ops', length ops' = length ops /\ crun n (binit n, cinit) ops' = Some (b, cl, outs).
Proof. exact pool_with_clock_lemma. Qed.
Print Assumptions pool_with_clock.

(** C13: in any such history the frame the replacer hands out next is the predicted one and holds a page with pin
    count 0 that no user has pinned. *)
Theorem predicted_victim_unpinned : forall n ops b cl ck outs,
  pcc_run n (binit n, cinit, clock_init (N.of_nat n)) ops = Some (b, cl, ck, outs) ->
  forall ck' v, clock_step ck CVictim = (ck', AVictim v) ->
  v = predicted_victim (keys ck) /\
  exists fr, fr_at b v = Some fr /\ f_pin fr = 0%Z /\ pins_of cl (f_pid fr) = 0.
Proof. exact predicted_victim_unpinned_lemma. Qed.
Print Assumptions predicted_victim_unpinned.

(** Non-vacuity.  A replacer of 3 frames (the first lines of the smoke test of harness/clock.go): Victim on empty,
    Unpin of a present frame, Unpin beyond the capacity, the oldest member returned, Pin of a member and of a
    non-member, drained to empty. *)
Example c13clock_answers :
  snd (clock_run (clock_init 3)
        [CVictim; CUnpin 1; CUnpin 2; CUnpin 2; CUnpin 3; CUnpin 4; CSize; CVictim; CPin 3; CPin 9; CVictim; CVictim; CSize])
  = [ANone; AOk; AOk; AOk; AOk; AFull; ASize 3; AVictim 1; AOk; AOk; AVictim 2; ANone; ASize 0].
Proof. vm_compute. reflexivity. Qed.

(** The ring and the hand: frame 1 leaves and re-enters (a new node at the tail); the hand stays on the oldest. *)
Example c13clock_ring :
  clock_dump (fst (clock_run (clock_init 4) [CUnpin 1; CUnpin 2; CUnpin 3; CPin 1; CUnpin 1; CVictim; CUnpin 0]))
  = ([(3, true); (1, true); (0, true)], Some (Some 3)).
Proof. vm_compute. reflexivity. Qed.

(** Interleaved Unpin calls do not postpone a waiting member: 7 is second in line and is the second victim. *)
Example c13clock_no_starvation :
  snd (clock_run (clock_init 8) [CUnpin 5; CUnpin 7; CVictim; CUnpin 1; CUnpin 2; CUnpin 3; CVictim; CVictim])
  = [AOk; AOk; AVictim 5; AOk; AOk; AOk; AVictim 7; AVictim 1].
Proof. vm_compute. reflexivity. Qed.

(** The pool of Props/C13.v's example history, run with the replacer model instead of the victim inputs (the
    victim arguments written here are ignored): same answers, [repl] = the replacer's queue at the end. *)
Example c13clock_pool_history :
  exists b cl ck outs,
    pcc_run 2 (binit 2, cinit, clock_init 2)
      [BNew 9; BWrite 0 11; BUnpin 0 true; BNew 9; BWrite 1 5; BUnpin 1 true; BNew 9; BUnpin 2 false;
       BFetch 0 9; BUnpin 0 false; BDealloc 2 true; BNew 9; BFetch 0 9] = Some (b, cl, ck, outs) /\
    nth 8 outs BOBad = BOFetched 11 /\ nth 11 outs BOBad = BONew 2 /\ nth 12 outs BOBad = BOFetched 11 /\
    repl b = keys ck.
Proof. vm_compute. do 4 eexists. repeat split. Qed.
