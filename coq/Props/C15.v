(** C15 — slotted pages never corrupt or lose a stored row.
    Every statement quantifies over ALL operation sequences (any length, any
    row sizes from 1 byte up to what fits) starting from an initialised page.
    Statements only. *)
From Coq Require Import List NArith Bool.
From SDB Require Import Params Model.Page Proofs.PageProofs.
Import ListNotations.
Open Scope N_scope.

Definition reachable (s : pstate) : Prop :=
  exists ops, forallb op_ok ops = true /\ s = prun ops pinit.

(** Refinement: the page behaves exactly like a map from slot number to
    (bytes, delete-marked) with exact space accounting — every operation returns
    what the map returns and the stored contents read from the concrete page are
    the map's. *)
Theorem page_refines_map : forall ops, forallb op_ok ops = true ->
  abs (prun ops pinit) = arun ops [] /\
  forall o, op_ok o = true ->
    snd (pstep (prun ops pinit) o) = snd (astep (arun ops []) o).
Proof. exact refinement. Qed.
Print Assumptions page_refines_map.

(** Rows do not overlap each other or the page header / slot array, and lie
    inside the page. *)
Theorem no_overlap_with_header_or_rows : forall s, reachable s ->
  size_table_page_header + size_tuple * count s <= fsp s /\ fsp s <= page_size /\
  N.of_nat (length (data s)) = page_size - fsp s /\
  (forall i off szf, slot_at s i = Some (off, szf) -> szf <> 0 ->
     fsp s <= off /\ off + unset_deleted szf <= page_size /\ 0 < unset_deleted szf) /\
  (forall i j oi si oj sj, i <> j ->
     slot_at s i = Some (oi, si) -> slot_at s j = Some (oj, sj) -> si <> 0 -> sj <> 0 ->
     oi + unset_deleted si <= oj \/ oj + unset_deleted sj <= oi) /\
  (forall i off szf, slot_at s i = Some (off, szf) -> szf = 0 -> off = 0).
Proof. exact geometry. Qed.
Print Assumptions no_overlap_with_header_or_rows.

(** The free space reported is exactly the space not occupied. *)
Theorem free_space_exact : forall s, reachable s ->
  free_remaining s = page_size - size_table_page_header - size_tuple * count s - a_used (abs s) /\
  size_table_page_header + size_tuple * count s + a_used (abs s) <= page_size.
Proof. exact free_exact. Qed.
Print Assumptions free_space_exact.

(** Specification-level consequences (with [page_refines_map] they hold of the page). *)

(** The slot an operation is aimed at. *)
Definition target (a : astate) (o : pop) : N :=
  match o with
  | PInsert _ => a_first_free a 0
  | PInsertAt i _ => if a_available a i then i else a_first_free a 0
  | PUpdate i _ _ | PMark i | PApply i | PRollback i | PGet i => i
  end.

(** An operation on one row never changes another. *)
Theorem frame : forall a o j, j <> target a o -> a_at (fst (astep a o)) j = a_at a j
  \/ (a_at a j = None /\ a_at (fst (astep a o)) j = Some None).
Proof. exact a_frame. Qed.
Print Assumptions frame.

(** Every live row reads back byte-identical to what was last stored. *)
Theorem read_back_identical : forall a b,
  (forall i, snd (astep a (PInsert b)) = OInserted i ->
     snd (astep (fst (astep a (PInsert b))) (PGet i)) = OTuple b) /\
  (forall i r old, snd (astep a (PUpdate i b r)) = OUpdated old ->
     snd (astep (fst (astep a (PUpdate i b r))) (PGet i)) = OTuple b) /\
  (forall i, snd (astep a (PGet i)) = OTuple b -> a_at a i = Some (Some (b, false))).
Proof. exact a_read_back. Qed.
Print Assumptions read_back_identical.

(** The same for the insert used by redo / undo, which asks for the slot recorded in the log. *)
Theorem read_back_identical_at : forall a b i0 i, snd (astep a (PInsertAt i0 b)) = OInserted i ->
  snd (astep (fst (astep a (PInsertAt i0 b))) (PGet i)) = OTuple b /\
  (a_at a i = None \/ a_at a i = Some None) /\
  (a_available a i0 = true -> i = i0).
Proof. exact a_read_back_at. Qed.
Print Assumptions read_back_identical_at.

(** Slot reuse: an insert only ever takes a slot that holds no row (empty after
    an applied delete, or one past the end) — never a live or delete-marked row. *)
Theorem slot_reuse_sound : forall a b i, snd (astep a (PInsert b)) = OInserted i ->
  a_at a i = None \/ a_at a i = Some None.
Proof. exact a_slot_reuse. Qed.
Print Assumptions slot_reuse_sound.

(** A forward update never shrinks a row, so restoring the before-image with a
    rollback update cannot fail for lack of space. *)
Theorem rollback_update_always_fits : forall a i b old,
  snd (astep a (PUpdate i b false)) = OUpdated old -> blen old <> 0 ->
  snd (astep (fst (astep a (PUpdate i b false))) (PUpdate i old true)) = OUpdated b /\
  fst (astep (fst (astep a (PUpdate i b false))) (PUpdate i old true)) = a.
Proof. exact a_rollback_fits. Qed.
Print Assumptions rollback_update_always_fits.

(** Non-vacuity: a reachable full page with a hole in the middle. *)
Example c15_nonvacuous :
  let ops := [PInsert [1;2;3]; PInsert [4;5]; PInsert [6]; PUpdate 1 [7;8;9;10] false; PMark 0; PApply 0; PInsertAt 0 [11]] in
  forallb op_ok ops = true /\
  snd (pstep (prun ops pinit) (PGet 1)) = OTuple [7;8;9;10] /\
  snd (pstep (prun ops pinit) (PGet 0)) = OTuple [11] /\
  snd (pstep (prun ops pinit) (PGet 2)) = OTuple [6].
Proof. vm_compute. repeat split. Qed.
