(** C17 (hash index) — the linear-probe hash table and the index on top of it.

    Props/C17.v and Props/C17SkipList.v cover the skip-list and B-tree indexes.
    This file covers the third container: lib/container/hash/linear_probe_hash_table.go
    behind lib/storage/index/linear_probe_hash_table_index.go (Model/HashTable.v;
    proofs in Proofs/HashTableProofs.v).

    WHAT THE TABLE CAN DISTINGUISH.  A slot stores (uint64 hash of the key bytes,
    uint64 value) — never the key.  The table is therefore a container indexed by
    HASH VALUES; all statements below are about [hv : N], for every home-slot
    layout (number of blocks, block size) and, at the index level, for every
    hash function [h].

    PROVED, for every operation sequence (no capacity condition):
    - no loop runs out of fuel; the invariant [ht_inv] holds (every live entry is
      reachable from the home slot of its stored hash through occupied slots;
      readable implies occupied);
    - GetValue of [hv] = [ht_abs t hv]: the values of ALL live slots whose stored
      hash is [hv], each slot once, in probe order — tombstones hide nothing;
    - Remove clears every live copy of the pair and nothing else; Remove of an
      absent pair leaves the table unchanged;
    - Insert: exact characterisation of the three outcomes (written into the
      first slot of the probe sequence that is not live / refused because a live
      slot with the same VALUE was met first / dropped without error because
      every slot is live).
    PROVED, for sequences that insert a value only while no live entry holds it
    and only while fewer than nslots entries are live ([ht_ops_ok]): every Insert
    is stored and GetValue = the bag of (hash, value) pairs inserted and not
    removed, each once.  The capacity condition is LIVE entries < nslots — not
    occupied-ever slots: tombstones are reused and a table whose slots have all
    been used still answers correctly (it only scans a full turn).
    REFUTED (faithful to the Go code; engine scenarios in the comments):
    - Insert of a present pair is refused            -> false behind a tombstone;
    - GetValue returns each value once               -> false, same scenario;
    - Insert of an absent pair is accepted           -> false, the refusal test
                                                        ignores the key;
    - Insert returns an error when nothing is stored -> false on a full table;
    - the capacity condition can be dropped          -> false;
    - the index is a multimap key -> row ids         -> false as soon as two
      keys in use have the same 64-bit hash (ScanKey does not filter; on the real
      engine the point-scan executor then ABORTS the transaction).
    Not modelled: latches, page pins, the murmur3 function itself (a parameter),
    UpdateEntry (panics "not implemented yet" in the Go code). *)
From Coq Require Import List NArith ZArith Permutation.
From SDB Require Import Base.Bytes Params Model.Codec Model.IndexWrap Model.HashTable
  Proofs.CodecProofs Proofs.HashTableProofs.
Import ListNotations.
Local Open Scope nat_scope.

(** * Statements *)

(** The (block, offset) iterator of the Go code is the successor on flat slot
    indices, and stays in range. *)
Definition hash_iterator_is_flat_successor_stmt : Prop :=
  forall nb bsz b o, b < nb -> o < bsz ->
    ht_flat bsz (ht_it_next nb bsz (b, o)) = ht_next (nb * bsz) (ht_flat bsz (b, o)) /\
    fst (ht_it_next nb bsz (b, o)) < nb /\ snd (ht_it_next nb bsz (b, o)) < bsz.

Definition hash_home_in_range_stmt : Prop :=
  forall nb bsz hv, 0 < nb -> 0 < bsz -> ht_home nb bsz hv < nb * bsz.

(** Every operation sequence runs to completion (no loop out of fuel), reaches a
    table satisfying the invariant, on which GetValue is the abstraction. *)
Definition hash_invariant_reachable_stmt : Prop :=
  forall nb bsz ops, 0 < nb -> 0 < bsz ->
    exists t, ht_run nb bsz ops = Some t /\ ht_inv t /\
      forall hv, ht_get hv t = Some (ht_abs t hv).

Definition hash_get_is_abstraction_stmt : Prop :=
  forall t hv, ht_inv t -> ht_get hv t = Some (ht_abs t hv).

(** Tombstones never hide a live entry: the abstraction contains the value of
    EVERY live slot with that stored hash, wherever it is. *)
Definition hash_get_sees_every_live_slot_stmt : Prop :=
  forall t hv v, ht_inv t ->
    (In v (ht_abs t hv) <->
     exists p, p < ht_size t /\ ht_match hv (ht_at (ht_slots t) p) = true /\
               hs_val (ht_at (ht_slots t) p) = v).

Definition hash_insert_step_stmt : Prop :=
  forall t hv v, ht_inv t ->
    match ht_insert hv v t with
    | (t', HtInserted p) =>
        ht_same_shape t' t /\ ht_inv t' /\ p < ht_size t /\
        ht_live (ht_at (ht_slots t) p) = false /\
        ht_slots t' = ht_upd p (fun _ => ht_new_slot hv v) (ht_slots t) /\
        (exists l1 l2, ht_abs t hv = l1 ++ l2 /\ ht_abs t' hv = l1 ++ v :: l2 /\
                       (hs_occ (ht_at (ht_slots t) p) = false -> l2 = [])) /\
        (forall hv', hv' <> hv -> ht_abs t' hv' = ht_abs t hv')
    | (t', HtDuplicate p) =>
        t' = t /\ p < ht_size t /\ ht_live (ht_at (ht_slots t) p) = true /\
        hs_val (ht_at (ht_slots t) p) = v
    | (t', HtFull) =>
        t' = t /\ forall p, p < ht_size t ->
                    ht_live (ht_at (ht_slots t) p) = true /\ hs_val (ht_at (ht_slots t) p) <> v
    | (_, HtInsFuel) => False
    end.

Definition hash_remove_step_stmt : Prop :=
  forall t hv v, ht_inv t ->
    exists t', ht_remove hv v t = Some t' /\ ht_same_shape t' t /\ ht_inv t' /\
      ht_slots t' = map (ht_clr hv v) (ht_slots t) /\
      forall hv', ht_abs t' hv' =
        if (hv' =? hv)%N then filter (fun x => negb (x =? v)%N) (ht_abs t hv) else ht_abs t hv'.

Definition hash_remove_absent_noop_stmt : Prop :=
  forall t hv v, ht_inv t -> ~ In v (ht_abs t hv) -> ht_remove hv v t = Some t.

Definition hash_remove_keeps_others_stmt : Prop :=
  forall t hv v hv' v', ht_inv t -> In v' (ht_abs t hv') -> (hv', v') <> (hv, v) ->
    exists t' l, ht_remove hv v t = Some t' /\ ht_get hv' t' = Some l /\ In v' l.

Definition hash_insert_present_refused_partial_stmt : Prop :=
  forall t hv v, ht_inv t ->
    (forall p, p < ht_size t -> ht_tomb (ht_at (ht_slots t) p) = false) ->
    In v (ht_abs t hv) ->
    exists q, ht_insert hv v t = (t, HtDuplicate q).

Definition hash_insert_full_iff_stmt : Prop :=
  forall t hv v, ht_inv t ->
    (snd (ht_insert hv v t) = HtFull <->
     forall p, p < ht_size t ->
       ht_live (ht_at (ht_slots t) p) = true /\ hs_val (ht_at (ht_slots t) p) <> v).

Definition hash_insert_not_full_stmt : Prop :=
  forall t hv v, ht_inv t -> ht_live_count t < ht_size t -> snd (ht_insert hv v t) <> HtFull.

Definition hash_insert_accepts_fresh_value_stmt : Prop :=
  forall t hv v, ht_inv t -> ht_live_count t < ht_size t ->
    (forall p, p < ht_size t -> ht_live (ht_at (ht_slots t) p) = true ->
               hs_val (ht_at (ht_slots t) p) <> v) ->
    exists p, snd (ht_insert hv v t) = HtInserted p.

(** The refinement: after a well-formed sequence GetValue returns exactly the
    values inserted under that hash and not removed, each once. *)
Definition hash_table_refines_bag_stmt : Prop :=
  forall nb bsz ops, 0 < nb -> 0 < bsz -> ht_ops_ok (nb * bsz) [] ops ->
    exists t, ht_run nb bsz ops = Some t /\ ht_inv t /\ ht_size t = nb * bsz /\
      forall hv, exists l,
        ht_get hv t = Some l /\ Permutation l (ht_ref_get hv (ht_ref_run ops)) /\ NoDup l.

(** The index: a multimap modulo the hash function ... *)
Definition hash_index_refines_mod_hash_stmt : Prop :=
  forall (K : Type) (h : K -> N) nb bsz ops k,
    0 < nb -> 0 < bsz -> ht_ix_ops_ok K (ht_same_hash h) (nb * bsz) [] ops ->
    exists t l,
      ht_ix_run K h nb bsz ops = Some t /\ ht_inv t /\ ht_ix_scan K h k t = Some l /\
      Permutation l (ht_ixm_lookup K (ht_same_hash h) k (ht_ixm_run K (ht_same_hash h) ops)) /\
      NoDup l.

(** ... hence the multimap key -> row ids when the hash function is injective on
    the keys in use. *)
Definition hash_index_multimap_if_injective_stmt : Prop :=
  forall (K : Type) (h : K -> N) (keqb : K -> K -> bool) nb bsz ops k,
    (forall a b, keqb a b = true <-> a = b) ->
    0 < nb -> 0 < bsz ->
    (forall a b, In a (k :: ht_ix_keys K ops) -> In b (k :: ht_ix_keys K ops) ->
                 h a = h b -> a = b) ->
    ht_ix_ops_ok K keqb (nb * bsz) [] ops ->
    exists t l,
      ht_ix_run K h nb bsz ops = Some t /\ ht_ix_scan K h k t = Some l /\
      Permutation l (ht_ixm_lookup K keqb k (ht_ixm_run K keqb ops)) /\ NoDup l.

(** * Theorems *)

Theorem hash_iterator_is_flat_successor : hash_iterator_is_flat_successor_stmt.
Proof. exact ht_it_next_flat. Qed.
Print Assumptions hash_iterator_is_flat_successor.

Theorem hash_home_in_range : hash_home_in_range_stmt.
Proof. exact ht_home_lt. Qed.
Print Assumptions hash_home_in_range.

Theorem hash_invariant_reachable : hash_invariant_reachable_stmt.
Proof. exact ht_run_inv. Qed.
Print Assumptions hash_invariant_reachable.

Theorem hash_get_is_abstraction : hash_get_is_abstraction_stmt.
Proof. exact ht_get_correct. Qed.
Print Assumptions hash_get_is_abstraction.

Theorem hash_get_sees_every_live_slot : hash_get_sees_every_live_slot_stmt.
Proof. exact ht_abs_in. Qed.
Print Assumptions hash_get_sees_every_live_slot.

Theorem hash_insert_step : hash_insert_step_stmt.
Proof. exact ht_insert_spec. Qed.
Print Assumptions hash_insert_step.

Theorem hash_remove_step : hash_remove_step_stmt.
Proof. exact ht_remove_spec. Qed.
Print Assumptions hash_remove_step.

Theorem hash_remove_absent_noop : hash_remove_absent_noop_stmt.
Proof. exact ht_remove_absent_noop. Qed.
Print Assumptions hash_remove_absent_noop.

Theorem hash_remove_keeps_others : hash_remove_keeps_others_stmt.
Proof. exact ht_remove_keeps_others. Qed.
Print Assumptions hash_remove_keeps_others.

Theorem hash_insert_present_refused_partial : hash_insert_present_refused_partial_stmt.
Proof. exact ht_insert_present_refused_no_tombstone. Qed.
Print Assumptions hash_insert_present_refused_partial.

Theorem hash_insert_full_iff : hash_insert_full_iff_stmt.
Proof. exact ht_insert_full_iff. Qed.
Print Assumptions hash_insert_full_iff.

Theorem hash_insert_not_full : hash_insert_not_full_stmt.
Proof. exact ht_insert_not_full. Qed.
Print Assumptions hash_insert_not_full.

Theorem hash_insert_accepts_fresh_value : hash_insert_accepts_fresh_value_stmt.
Proof. exact ht_insert_accepts. Qed.
Print Assumptions hash_insert_accepts_fresh_value.

Theorem hash_table_refines_bag : hash_table_refines_bag_stmt.
Proof. exact ht_run_refines. Qed.
Print Assumptions hash_table_refines_bag.

Theorem hash_index_refines_mod_hash : hash_index_refines_mod_hash_stmt.
Proof. exact ht_index_refines_mod_hash. Qed.
Print Assumptions hash_index_refines_mod_hash.

Theorem hash_index_multimap_if_injective : hash_index_multimap_if_injective_stmt.
Proof. exact ht_index_multimap_if_injective. Qed.
Print Assumptions hash_index_multimap_if_injective.

(** * Refuted *)

(** Engine scenario: rows r1 (key a) and r2 (key b), a and b probing from the same
    home slot; r1 deleted; a second InsertEntry(b, r2) is accepted and ScanKey(b)
    returns r2 twice.  Reproduced on the Go table: Get(k) = [200 200]. *)
Theorem hash_insert_present_refused_refuted : ~ ht_insert_present_refused_stmt.
Proof. exact ht_insert_present_refused_refuted_lemma. Qed.
Print Assumptions hash_insert_present_refused_refuted.

Theorem hash_get_nodup_refuted : ~ ht_get_nodup_stmt.
Proof. exact ht_get_nodup_refuted_lemma. Qed.
Print Assumptions hash_get_nodup_refuted.

(** Engine scenario: InsertEntry(k2, rid) while an entry (k1, rid) with the same
    packed row id lies on the probe path of k2 (k1 and k2 share a home slot, or a
    cluster): refused ("duplicated values on the same key are not allowed"), the
    error is discarded by InsertEntry, ScanKey(k2) misses the row. *)
Theorem hash_insert_absent_accepted_refuted : ~ ht_insert_absent_accepted_stmt.
Proof. exact ht_insert_absent_accepted_refuted_lemma. Qed.
Print Assumptions hash_insert_absent_accepted_refuted.

(** Engine scenario: the 2521st row of a table with a hash index
    (BucketSizeOfHashIndex = 10 blocks of 252 slots): Insert returns nil, the
    entry is not stored, every later point scan misses the row. *)
Theorem hash_insert_no_error_stored_refuted : ~ ht_insert_no_error_stored_stmt.
Proof. exact ht_insert_no_error_stored_refuted_lemma. Qed.
Print Assumptions hash_insert_no_error_stored_refuted.

Theorem hash_run_refines_without_capacity_refuted : ~ ht_run_refines_without_capacity_stmt.
Proof. exact ht_run_refines_without_capacity_refuted_lemma. Qed.
Print Assumptions hash_run_refines_without_capacity_refuted.

(** Engine scenario: two varchar keys with equal murmur3 digests (constructed for
    the Go experiment): ScanKey of either returns both row ids; the point-scan
    executor compares the fetched tuple with the key and aborts the transaction. *)
Theorem hash_index_scan_collision_refuted : ~ ht_index_is_multimap_stmt.
Proof. exact ht_index_scan_collision_refuted_lemma. Qed.
Print Assumptions hash_index_scan_collision_refuted.

Theorem hash_index_delete_collision_refuted : ~ ht_index_is_multimap_stmt.
Proof. exact ht_index_delete_collision_refuted_lemma. Qed.
Print Assumptions hash_index_delete_collision_refuted.

(** * Examples *)

Definition xh_shape (o : option htable) : list (nat * N * N) :=
  match o with Some t => ht_shape t | None => [] end.
Definition xh_get (o : option htable) (hv : N) : option (list N) :=
  match o with Some t => ht_get hv t | None => None end.
Definition xh_ins (o : option htable) (hv v : N) : option ht_ins_outcome :=
  match o with Some t => Some (snd (ht_insert hv v t)) | None => None end.
Definition xh_counts (o : option htable) : nat * nat :=
  match o with Some t => (ht_occ_count t, ht_live_count t) | None => (0, 0) end.

(** The engine's constants. *)
Example ex_hash_constants :
  ht_block_array_size = 252 /\ ht_max_blocks = 1020 /\ ht_engine_blocks = 10 /\
  ht_size ht_engine_empty = 2520 /\
  ht_home_it 10 252 12345 = (5, 249) /\ ht_home 10 252 12345 = 1509.
Proof. vm_compute. repeat split. Qed.

(** The iterator: within a block, to the next block, from the last block to the first. *)
Example ex_hash_iterator :
  ht_it_next 2 3 (0, 1) = (0, 2) /\ ht_it_next 2 3 (0, 2) = (1, 0) /\
  ht_it_next 2 3 (1, 2) = (0, 0).
Proof. vm_compute. repeat split. Qed.

(** One block of four slots; hashes 3, 7, 11, 15 all have home slot 3.  The probe
    wraps around: 3 -> slot 3, 7 -> slot 0, 11 -> slot 1. *)
Definition xh_w : list ht_op := [HtIns 3 30; HtIns 7 70; HtIns 11 110].

Example ex_hash_wrap_shape :
  xh_shape (ht_run 1 4 xh_w) =
  [(2, 7%N, 70%N); (2, 11%N, 110%N); (0, 0%N, 0%N); (2, 3%N, 30%N)].
Proof. vm_compute. reflexivity. Qed.

Example ex_hash_wrap_get :
  xh_get (ht_run 1 4 xh_w) 3 = Some [30%N] /\ xh_get (ht_run 1 4 xh_w) 7 = Some [70%N] /\
  xh_get (ht_run 1 4 xh_w) 11 = Some [110%N] /\ xh_get (ht_run 1 4 xh_w) 15 = Some [].
Proof. vm_compute. repeat split. Qed.

(** Removing (7,70) leaves a tombstone in slot 0; (11,110) behind it is still
    found; the next insert with that home reuses the tombstone. *)
Example ex_hash_tombstone :
  xh_shape (ht_run 1 4 (xh_w ++ [HtRem 7 70])) =
    [(1, 7%N, 70%N); (2, 11%N, 110%N); (0, 0%N, 0%N); (2, 3%N, 30%N)] /\
  xh_get (ht_run 1 4 (xh_w ++ [HtRem 7 70])) 7 = Some [] /\
  xh_get (ht_run 1 4 (xh_w ++ [HtRem 7 70])) 11 = Some [110%N] /\
  xh_shape (ht_run 1 4 (xh_w ++ [HtRem 7 70; HtIns 15 150])) =
    [(2, 15%N, 150%N); (2, 11%N, 110%N); (0, 0%N, 0%N); (2, 3%N, 30%N)] /\
  xh_get (ht_run 1 4 (xh_w ++ [HtRem 7 70; HtIns 15 150])) 15 = Some [150%N] /\
  xh_get (ht_run 1 4 (xh_w ++ [HtRem 7 70; HtIns 15 150])) 11 = Some [110%N].
Proof. vm_compute. repeat split. Qed.

(** Full table: the fifth insert is dropped, reports no error, and the lookup of
    an absent hash terminates after one turn. *)
Definition xh_f : list ht_op := xh_w ++ [HtIns 2 20].

Example ex_hash_full :
  xh_counts (ht_run 1 4 xh_f) = (4, 4) /\
  xh_ins (ht_run 1 4 xh_f) 6 60 = Some HtFull /\
  ht_ins_err HtFull = false /\
  xh_get (ht_run 1 4 (xh_f ++ [HtIns 6 60])) 6 = Some [] /\
  xh_get (ht_run 1 4 xh_f) 2 = Some [20%N].
Proof. vm_compute. repeat split. Qed.

(** Freeing any slot makes room: (6,60) has home 2, probes 2, 3, 0 and lands in
    slot 1 freed by (11,110). *)
Example ex_hash_full_reuse :
  xh_shape (ht_run 1 4 (xh_f ++ [HtRem 11 110; HtIns 6 60])) =
    [(2, 7%N, 70%N); (2, 6%N, 60%N); (2, 2%N, 20%N); (2, 3%N, 30%N)] /\
  xh_get (ht_run 1 4 (xh_f ++ [HtRem 11 110; HtIns 6 60])) 6 = Some [60%N] /\
  xh_get (ht_run 1 4 (xh_f ++ [HtRem 11 110; HtIns 6 60])) 11 = Some [].
Proof. vm_compute. repeat split. Qed.

(** Every slot used at least once, one live entry: lookups and inserts still
    work — the capacity condition is about live entries. *)
Example ex_hash_all_occupied :
  xh_counts (ht_run 1 4 (xh_f ++ [HtRem 3 30; HtRem 7 70; HtRem 11 110])) = (4, 1) /\
  xh_get (ht_run 1 4 (xh_f ++ [HtRem 3 30; HtRem 7 70; HtRem 11 110])) 2 = Some [20%N] /\
  xh_get (ht_run 1 4 (xh_f ++ [HtRem 3 30; HtRem 7 70; HtRem 11 110])) 3 = Some [] /\
  xh_ins (ht_run 1 4 (xh_f ++ [HtRem 3 30; HtRem 7 70; HtRem 11 110])) 3 31 = Some (HtInserted 3).
Proof. vm_compute. repeat split. Qed.

(** Two blocks of three slots: hash 5 and hash 11 have home (1, 2) = slot 5, the
    last slot; the probe continues in block 0.  Two values under one hash come
    back in probe order. *)
Example ex_hash_two_blocks :
  ht_home 2 3 5 = 5 /\ ht_home 2 3 11 = 5 /\
  xh_shape (ht_run 2 3 [HtIns 5 50; HtIns 11 111; HtIns 5 51]) =
    [(2, 11%N, 111%N); (2, 5%N, 51%N); (0, 0%N, 0%N); (0, 0%N, 0%N); (0, 0%N, 0%N);
     (2, 5%N, 50%N)] /\
  xh_get (ht_run 2 3 [HtIns 5 50; HtIns 11 111; HtIns 5 51]) 5 = Some [50%N; 51%N] /\
  xh_get (ht_run 2 3 [HtIns 5 50; HtIns 11 111; HtIns 5 51]) 11 = Some [111%N].
Proof. vm_compute. repeat split. Qed.

(** The refused / accepted-again / dropped inserts of the refuted statements. *)
Example ex_hash_insert_outcomes :
  xh_ins (ht_run 1 4 [HtIns 0 7]) 4 7 = Some (HtDuplicate 0) /\
  xh_ins (ht_run 1 4 [HtIns 0 7]) 0 7 = Some (HtDuplicate 0) /\
  xh_ins (ht_run 1 4 ht_w1_ops) 4 200 = Some (HtInserted 0) /\
  xh_get (ht_run 1 4 (ht_w1_ops ++ [HtIns 4 200])) 4 = Some [200%N; 200%N] /\
  xh_get (ht_run 1 4 (ht_w1_ops ++ [HtIns 4 200; HtRem 4 200])) 4 = Some [].
Proof. vm_compute. repeat split. Qed.

(** A table of the engine's size (10 x 252): 12345 and 14865 share home slot
    1509; 2519 and 5039 share the last slot 2519 and wrap to slot 0. *)
Definition xh_e : list ht_op :=
  [HtIns 12345 1; HtIns 12345 2; HtIns 14865 3; HtRem 12345 1; HtIns 2519 9; HtIns 5039 8].

Example ex_hash_engine_size :
  ht_home 10 252 14865 = 1509 /\ ht_home 10 252 2519 = 2519 /\ ht_home 10 252 5039 = 2519 /\
  xh_get (ht_run 10 252 xh_e) 12345 = Some [2%N] /\
  xh_get (ht_run 10 252 xh_e) 14865 = Some [3%N] /\
  xh_get (ht_run 10 252 xh_e) 2519 = Some [9%N] /\
  xh_get (ht_run 10 252 xh_e) 5039 = Some [8%N] /\
  xh_counts (ht_run 10 252 xh_e) = (5, 4).
Proof. vm_compute. repeat split. Qed.

(** The index with [h k = k mod 8]: keys 1 and 9 collide. *)
Definition xh_ix : list (ht_ix_op N) :=
  [HtIxIns 1%N (5%Z, 1%N); HtIxIns 9%N (5%Z, 2%N); HtIxIns 2%N (6%Z, 0%N)].

Example ex_hash_index_collision :
  match ht_ix_run N ht_w5_h 1 4 xh_ix with
  | Some t => (ht_ix_scan N ht_w5_h 1%N t, ht_ix_scan N ht_w5_h 9%N t, ht_ix_scan N ht_w5_h 2%N t)
  | None => (None, None, None)
  end =
  (Some [(5%Z, 1%N); (5%Z, 2%N)], Some [(5%Z, 1%N); (5%Z, 2%N)], Some [(6%Z, 0%N)]).
Proof. vm_compute. reflexivity. Qed.

(** The well-formedness predicate of the refinement theorem is satisfiable: the
    engine-size sequence is well-formed and the theorem's conclusion holds of it. *)
Example ex_hash_ops_ok : ht_ops_ok (10 * 252) [] xh_e.
Proof.
  cbn. repeat split; try (apply PeanoNat.Nat.ltb_lt; vm_compute; reflexivity);
    intros Hc; repeat destruct Hc as [Hc|Hc]; try discriminate; auto.
Qed.
