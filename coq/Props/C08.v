(** C08 — write-ahead discipline at the storage boundary.
    "No user-table page is written to the database file carrying a change whose log
    record is not yet on stable storage, and a writing transaction's commit does not
    return before its commit record is on stable storage; the log file is at all times
    a sequence of complete, parsable records in increasing sequence-number order per
    transaction."

    The property is a property of the I/O trace at the disk manager (hook H1).  Here:
    - the byte layout of the log (Model/LogCodec.v) reads back exactly what the writer
      writes, for ALL lists of well-formed records, and a parsed log stays parsed when
      more is appended;
    - the executable checker [wal_ok] (Model/WalTrace.v), which is run on the traces of
      the real engine, accepts a trace IF AND ONLY IF the declarative discipline holds at
      every point of the trace;
    - the log manager's buffer swap never splits or reorders records, for ALL
      interleavings of appends and flushes.
    Statements only. *)
From Coq Require Import List NArith ZArith Bool.
From SDB Require Import Base.Bytes Base.Assoc Params Model.Wal Model.LogCodec Model.WalTrace
                        Proofs.LogCodecProofs Proofs.WalTraceProofs.
Import ListNotations.
Open Scope N_scope.

(** * The log codec *)

(** Reading back what AppendLogRecord wrote: any list of well-formed records (field
    ranges of int32 / uint32, body of the shape the record type demands, size field =
    the length of the record and < 2^32, hence every tuple length < 2^32). *)
Theorem log_codec_roundtrip : forall rs, Forall wf_rec rs ->
  parse_all (concat (map ser_rec rs)) = (rs, []).
Proof. exact roundtrip. Qed.
Print Assumptions log_codec_roundtrip.

(** The other direction: whatever the reader accepts from a byte string is a list of
    well-formed records whose serialisation, followed by the unparsable leftover, is
    the input (so the reader neither invents nor loses a byte). *)
Theorem log_codec_reads_only_what_was_written : forall inp rs left,
  parse_all inp = (rs, left) -> bytes_ok inp = true ->
  inp = concat (map ser_rec rs) ++ left /\ Forall wf_rec rs.
Proof. exact parse_all_back. Qed.
Print Assumptions log_codec_reads_only_what_was_written.

(** "At all times": a completely parsed log file stays parsed, record for record,
    whatever is appended to it ... *)
Theorem parse_all_prefix_stable : forall x y rs,
  parse_all x = (rs, []) ->
  parse_all (x ++ y) = (rs ++ fst (parse_all y), snd (parse_all y)).
Proof. exact parse_all_app. Qed.
Print Assumptions parse_all_prefix_stable.

(** ... in particular when complete records are appended. *)
Theorem parse_all_prefix_stable_records : forall x rs more,
  parse_all x = (rs, []) -> Forall wf_rec more ->
  parse_all (x ++ concat (map ser_rec more)) = (rs ++ more, []).
Proof. exact prefix_stable. Qed.
Print Assumptions parse_all_prefix_stable_records.

(** * The checker *)

(** If the checker accepts a trace then, at every point of it:
    the log file (the log writes since the last truncation) parses completely into
    records with strictly increasing LSNs and intact per-transaction prevLSN chains;
    every write of a user-table page (a page introduced by a NewTablePage record of
    the durable log) carries a page LSN not above the largest durable LSN;
    and when the commit of a writing transaction returns, its COMMIT record is durable. *)
Theorem wal_ok_sound : forall tr, wal_ok tr = true ->
  (forall pre post, tr = pre ++ post -> log_wellformed pre) /\
  (forall pre pid plsn post, tr = pre ++ TPage pid plsn :: post ->
     In pid (tracked (durable_log pre)) -> plsn <= max_lsn (durable_log pre)) /\
  (forall pre t post, tr = pre ++ TCommitRet t :: post ->
     exists r, In r (durable_log pre) /\ l_txn r = t /\ l_kind r = KCommit).
Proof. exact wal_ok_sound_lemma. Qed.
Print Assumptions wal_ok_sound.

(** The checker is exact: it rejects a trace only if the discipline is violated somewhere. *)
Theorem wal_ok_exact : forall tr,
  wal_ok tr = true <->
  (forall p q, tr = p ++ q -> log_wellformed p /\ (forall e q', q = e :: q' -> event_ok p e)).
Proof. exact wal_ok_iff_lemma. Qed.
Print Assumptions wal_ok_exact.

(** * The log manager's buffer swap *)

(** For ANY interleaving of AppendLogRecord and Flush calls, the bytes handed to WriteLog
    so far followed by the content of the current buffer are the serialised records in
    append order: the swap never splits, drops, duplicates or reorders a record. *)
Theorem flush_keeps_records_contiguous : forall ss,
  payloads (snd (lm_run [] ss)) ++ fst (lm_run [] ss) = concat (map ser_rec (appended ss)).
Proof. exact flush_contiguous. Qed.
Print Assumptions flush_keeps_records_contiguous.

(** Every WriteLog call ends at a record boundary: the log file is the serialisation of a
    prefix of the appended records, and (for well-formed records) parses completely. *)
Theorem flush_ends_at_record_boundaries : forall ss, Forall wf_rec (appended ss) ->
  exists done pend, appended ss = done ++ pend /\
    parse_all (payloads (snd (lm_run [] ss))) = (done, []).
Proof. exact flush_log_parses. Qed.
Print Assumptions flush_ends_at_record_boundaries.

(** * Non-vacuity: concrete traces *)

Definition r_begin (lsn txn : Z) : lrec_full := mkF 20 lsn txn (-1) lr_begin FNone [].
Definition r_commit (lsn txn prev : Z) : lrec_full := mkF 20 lsn txn prev lr_commit FNone [].
Definition r_newpage (lsn txn prev : Z) (pid : N) : lrec_full :=
  mkF 28 lsn txn prev lr_new_table_page (FNewPage 4294967295 pid) [].
Definition r_insert (lsn txn prev : Z) (pid slot : N) (t : list N) : lrec_full :=
  mkF (32 + lenN t) lsn txn prev lr_insert (FTuple pid slot t) [].
Definition r_mark (lsn txn prev : Z) (pid slot : N) : lrec_full :=
  mkF 32 lsn txn prev lr_markdelete (FTuple pid slot []) [].
Definition r_dealloc (pid : N) : lrec_full :=
  mkF 24 (-1) 2147483647 (-1) lr_deallocate_page (FPage pid) [].

Example c08_records_wf :
  Forall wf_rec [r_begin 0 1; r_newpage 1 1 0 5; r_insert 2 1 1 5 0 [7; 8; 9]; r_mark 3 1 2 5 0; r_dealloc 6; r_commit 4 1 3].
Proof. repeat constructor; vm_compute; try reflexivity; try discriminate. Qed.

(** transaction 1 creates page 5 and inserts; the page goes out only after its records, the
    commit returns only after the COMMIT record; after a truncation nothing is tracked *)
Definition good_trace : list tev :=
  [ TLog (ser_rec (r_begin 0 1) ++ ser_rec (r_newpage 1 1 0 5));
    TPage 5 1;
    TLog (ser_rec (r_insert 2 1 1 5 0 [7; 8; 9]) ++ ser_rec (r_dealloc 6));
    TPage 5 2;
    TPage 9 77;                                  (* not a table page: index pages keep a counter there *)
    TLog [];
    TLog (ser_rec (r_begin 3 2) ++ ser_rec (r_commit 4 1 2) ++ ser_rec (r_mark 5 2 3 5 0));
    TCommitRet 1;
    TPage 5 5;
    TTrunc;
    TPage 5 6;
    TLog (ser_rec (r_commit 7 3 (-1))) ].

Example c08_good_trace_accepted : wal_ok good_trace = true.
Proof. vm_compute. reflexivity. Qed.

Example c08_good_trace_log :
  durable_log (firstn 8 good_trace) =
  [ mkR 0 1 None KBegin; mkR 1 1 (Some 0) (KNewPage 4294967295 5); mkR 2 1 (Some 1) (KInsert 5 0 [7; 8; 9]);
    mkR 0 2147483647 None KOther; mkR 3 2 None KBegin; mkR 4 1 (Some 2) KCommit; mkR 5 2 (Some 3) (KMark 5 0) ].
Proof. vm_compute. reflexivity. Qed.

(** (i) a log write that ends inside a record *)
Example c08_torn_record_rejected :
  wal_violation [ TLog (ser_rec (r_begin 0 1)); TLog (firstn 25 (ser_rec (r_newpage 1 1 0 5))) ] = Some (1, VUnparsable).
Proof. vm_compute. reflexivity. Qed.

(** (i) a record with a smaller LSN after a larger one (across two log writes) *)
Example c08_lsn_order_rejected :
  wal_violation [ TLog (ser_rec (r_begin 5 1)); TLog (ser_rec (r_begin 4 2)) ] = Some (1, VLsnOrder).
Proof. vm_compute. reflexivity. Qed.

(** (i) a record that does not point to the previous record of its transaction *)
Example c08_broken_chain_rejected :
  wal_violation [ TLog (ser_rec (r_begin 0 1) ++ ser_rec (r_begin 1 2) ++ ser_rec (r_newpage 2 1 1 5)) ] = Some (0, VChain).
Proof. vm_compute. reflexivity. Qed.

(** (ii) a table page written with the LSN of a record that is still in the log buffer *)
Example c08_page_ahead_rejected :
  wal_violation [ TLog (ser_rec (r_begin 0 1) ++ ser_rec (r_newpage 1 1 0 5)); TPage 5 2;
                  TLog (ser_rec (r_insert 2 1 1 5 0 [7; 8; 9])) ] = Some (1, VPageAhead).
Proof. vm_compute. reflexivity. Qed.

(** (iii) a commit that returns before its COMMIT record is written (here: only another
    transaction's COMMIT record is durable) *)
Example c08_early_commit_return_rejected :
  wal_violation [ TLog (ser_rec (r_begin 0 1) ++ ser_rec (r_begin 1 2) ++ ser_rec (r_commit 2 2 1));
                  TCommitRet 1; TLog (ser_rec (r_commit 3 1 0)) ] = Some (1, VCommitNotDurable).
Proof. vm_compute. reflexivity. Qed.

(** the buffer swap on a small run: a flush in the middle and at the end *)
Example c08_flush_example :
  lm_run [] [LAppend (r_begin 0 1); LFlush; LAppend (r_commit 1 1 0); LAppend (r_begin 2 2); LFlush; LAppend (r_commit 3 2 2)] =
  (ser_rec (r_commit 3 2 2),
   [TLog (ser_rec (r_begin 0 1)); TLog (ser_rec (r_commit 1 1 0) ++ ser_rec (r_begin 2 2))]).
Proof. vm_compute. reflexivity. Qed.
