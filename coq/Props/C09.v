(** C09 — a clean shutdown and reopen changes nothing observable.
    On the recovery model (Model/Wal.v): a clean shutdown flushes every page
    (the data file holds the full-replay state of every table page) and leaves
    no unfinished transaction; restart then changes no table page, whatever the
    log contains.  Index contents after a reopen (skip lists are rebuilt from
    the table, B-trees re-attached) and the catalog are compared on the real
    engine by the correspondence run.  Statements only. *)
From Coq Require Import List NArith Bool.
From SDB Require Import Base.Assoc Model.Page Model.Wal Proofs.WalProofs Proofs.CleanRestart.
Import ListNotations.
Open Scope N_scope.

Theorem clean_restart_changes_nothing : forall l disk,
  log_ok l = true -> fresh_pages_ok l [] = true -> disk_ok l disk = true ->
  losers l = [] ->
  (forall p, get_page disk p = get_page (replay l []) p) ->
  forall p, get_page (recover l (losers l) disk) p = get_page disk p.
Proof. exact clean_restart. Qed.
Print Assumptions clean_restart_changes_nothing.

(** ... and any number of further clean cycles (log truncated at start-up) neither. *)
Theorem clean_cycles_change_nothing : forall ps n, Nat.iter n (recover [] []) ps = ps.
Proof. exact recover_empty_iter. Qed.
Print Assumptions clean_cycles_change_nothing.

Example c09_nonvacuous :
  let l := [ mkR 0 1 None KBegin; mkR 1 1 (Some 0) (KNewPage 0 5); mkR 2 1 (Some 1) (KInsert 5 0 [1;2;3]);
             mkR 3 1 (Some 2) KCommit; mkR 4 2 None KBegin; mkR 5 2 (Some 4) (KMark 5 0); mkR 6 2 (Some 5) (KRollback 5 0);
             mkR 7 2 (Some 6) KAbort ] in
  let disk := [ (5, mkAP 6 [Some ([1;2;3], false)]) ] in
  log_ok l = true /\ fresh_pages_ok l [] = true /\ disk_ok l disk = true /\ losers l = [] /\
  get_page disk 5 = get_page (replay l []) 5.
Proof. vm_compute. repeat split. Qed.
