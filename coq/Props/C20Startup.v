(** C20 (start-up sequence) — LSNs never go backwards across restarts, so the
    LSN guard of the redo pass never skips a committed record whose effect is
    missing from the disk page.

    Objects (Model/Startup.v).  A state has a durable part — [st_dlog] the log
    file (records: LSN, page id, ghost id), [st_dpages] the db file (page LSN,
    ghost image = ids of the records whose effect the page image holds) — and a
    volatile part ([st_vnext] = nextLSN, [st_vpages] the current page images,
    [st_vbuf] the records not yet written, the phase).  [st_step cfg] is one
    event: the I/O events of the start-up sequence one by one ([StEvRestart] =
    redo / greatest LSN / undo, which only read; each [StEvWritePage] of
    FlushAllPages; [StEvRedoWrite] an eviction during the redo pass;
    [StEvTruncate]; [StEvStartupLog]), normal operation ([StEvAppend], [StEvFlushLog],
    [StEvCommit], [StEvWritePage] under the write-ahead rule C08), and [StEvCrash],
    allowed everywhere.  [cfg_now] is the current code; [floor_record] = fix
    a7abb31, [empty_log_scan] = fix 44ca03e.  [st_redo_applies s r] is the
    guard [page LSN on disk < record LSN] of log_recovery.go; together with
    Props/C01.v ([redo_rec] applies a record iff that guard holds) the
    theorems below read: redo never skips a record whose effect is missing
    from the disk page.

    The theorems quantify over EVERY event sequence from a fresh database: any
    number of crashes, at any I/O boundary, also inside restarts.
    Statements only. *)
From Coq Require Import List NArith Bool.
From SDB Require Import Base.Assoc Model.Startup Proofs.StartupProofs.
Import ListNotations.
Open Scope N_scope.

(** In normal operation nextLSN is above every page LSN in the db file and in
    memory (except in a fresh database before its first record, where all are
    0) and above every LSN in the log file and the log buffer; the log is
    strictly increasing ([su_incr]). *)
Theorem lsn_floor : forall es s, st_run cfg_now st_init es = Some s -> st_is_normal s = true ->
  (forall p, st_disk_lsn s p < st_next_lsn s \/ (st_disk_lsn s p = 0 /\ st_next_lsn s = 0)) /\
  (forall p, st_mem_lsn s p < st_next_lsn s \/ (st_mem_lsn s p = 0 /\ st_next_lsn s = 0)) /\
  (forall r, In r (st_dlog s ++ st_vbuf s) -> st_rlsn r < st_next_lsn s) /\
  su_incr (map st_rlsn (st_dlog s ++ st_vbuf s)).
Proof. exact su_lsn_floor_now. Qed.
Print Assumptions lsn_floor.

Theorem durable_log_increasing : forall es s, st_run cfg_now st_init es = Some s ->
  su_incr (map st_rlsn (st_dlog s)).
Proof. exact su_log_increasing_now. Qed.
Print Assumptions durable_log_increasing.

(** In every reachable state — that is, at the moment of any later restart —
    every record of the log file either passes redo's guard or its effect is
    already in the disk page. *)
Theorem committed_records_are_redoable : forall es s, st_run cfg_now st_init es = Some s ->
  forall r, In r (st_dlog s) -> st_rpage r <> st_nopage ->
    st_redo_applies s r = true \/ In (st_rid r) (st_disk_img s (st_rpage r)).
Proof. exact su_redoable_now. Qed.
Print Assumptions committed_records_are_redoable.

(** the same as an executable check on a replayed trace *)
Theorem no_lost_records : forall es s, st_run cfg_now st_init es = Some s -> st_lost_records s = [].
Proof. exact su_no_lost_records_now. Qed.
Print Assumptions no_lost_records.

(** Every record that EVER reached the log file is, at every later moment,
    in the disk page or still in the log and accepted by the guard: the
    truncation of the log (step 5) never discards a record that is still needed. *)
Theorem durable_records_never_lost : forall es s, st_run cfg_now st_init es = Some s ->
  forall r, In r (st_ghist s) -> st_rpage r <> st_nopage ->
    In (st_rid r) (st_disk_img s (st_rpage r)) \/ (In r (st_dlog s) /\ st_redo_applies s r = true).
Proof. exact su_never_lost_now. Qed.
Print Assumptions durable_records_never_lost.

(** After the redo pass of any restart every record of the log file is in the recovered page. *)
Theorem redo_restores_every_durable_record : forall es s s', st_run cfg_now st_init es = Some s ->
  st_step cfg_now s StEvRestart = Some s' ->
  forall r, In r (st_dlog s') -> st_rpage r <> st_nopage -> In (st_rid r) (st_mem_img s' (st_rpage r)).
Proof. exact su_restart_restores_now. Qed.
Print Assumptions redo_restores_every_durable_record.

(** The ghost ids mean what they should (every configuration): distinct records have distinct ids, and an
    id is in an image only after its record exists. *)
Theorem ghost_ids_unique : forall cfg es s, st_run cfg st_init es = Some s ->
  NoDup (map st_rid (st_ghist s ++ st_vbuf s)) /\
  (forall r, In r (st_ghist s ++ st_vbuf s) -> st_rid r < st_gseq s) /\
  (forall r, In r (st_dlog s) -> In r (st_ghist s)) /\
  (forall p i, In i (st_disk_img s p) \/ In i (st_mem_img s p) -> i < st_gseq s).
Proof. exact su_ids_unique. Qed.
Print Assumptions ghost_ids_unique.

(** The two repaired defects.  In both configurations normal operation is reached with nextLSN not above a
    disk page LSN ([st_floor_broken]); a transaction then changes that page and commits, the process is
    killed, and the committed record [r] is skipped by redo's guard although its effect is not in the disk
    page ([st_lost_records]); after the next restart's redo pass the page does not hold it
    ([st_missing_after_redo]). *)

(** (a) before fix a7abb31 (no floor record, no page scan): restart, kill before anything is logged, restart. *)
Theorem historical_defect_no_floor_record_refuted :
  exists es1 es2 s1 s2 s3 r,
    st_run (st_mkcfg false false) st_init es1 = Some s1 /\ st_floor_broken s1 = true /\
    st_run (st_mkcfg false false) s1 (es2 ++ [StEvCommit; StEvCrash]) = Some s2 /\
    st_lost_records s2 = [r] /\
    st_step (st_mkcfg false false) s2 StEvRestart = Some s3 /\ st_missing_after_redo s3 = [r].
Proof. exact su_defect_no_floor. Qed.
Print Assumptions historical_defect_no_floor_record_refuted.

(** (b) before fix 44ca03e (floor record, no page scan): kill between the truncation and the log write of step 6. *)
Theorem historical_defect_gc_window_refuted :
  exists es1 es2 s1 s2 s3 r,
    st_run (st_mkcfg true false) st_init es1 = Some s1 /\ st_floor_broken s1 = true /\
    st_run (st_mkcfg true false) s1 (es2 ++ [StEvCommit; StEvCrash]) = Some s2 /\
    st_lost_records s2 = [r] /\
    st_step (st_mkcfg true false) s2 StEvRestart = Some s3 /\ st_missing_after_redo s3 = [r].
Proof. exact su_defect_gc_window. Qed.
Print Assumptions historical_defect_gc_window_refuted.

(** Finding: the configuration (no floor record, page scan) is NOT defective — the page scan of fix 44ca03e
    alone gives the floor, the floor record of fix a7abb31 is redundant once the scan is there. *)
Theorem page_scan_alone_is_safe : forall es s, st_run (st_mkcfg false true) st_init es = Some s ->
  (st_is_normal s = true ->
     (forall p, st_disk_lsn s p < st_next_lsn s \/ (st_disk_lsn s p = 0 /\ st_next_lsn s = 0)) /\
     (forall p, st_mem_lsn s p < st_next_lsn s \/ (st_mem_lsn s p = 0 /\ st_next_lsn s = 0)) /\
     (forall r, In r (st_dlog s ++ st_vbuf s) -> st_rlsn r < st_next_lsn s) /\
     su_incr (map st_rlsn (st_dlog s ++ st_vbuf s))) /\
  st_lost_records s = [] /\
  (forall r, In r (st_ghist s) -> st_rpage r <> st_nopage ->
     In (st_rid r) (st_disk_img s (st_rpage r)) \/ (In r (st_dlog s) /\ st_redo_applies s r = true)).
Proof. exact su_scan_alone_safe. Qed.
Print Assumptions page_scan_alone_is_safe.

(** Non-vacuity, current code.  Observation = (phase 0 down / 1 flushing / 2 truncated / 3 normal, nextLSN,
    log file (LSN, page), db file (page, LSN), memory (page, LSN)); page 4294967295 = no page.
    Fresh database, a transaction on pages 5, 6, 7 (LSNs 0..5), page 5 written, killed: *)
Example c20s_after_first_kill : su_obs (st_run cfg_now st_init su_demo_a) =
  Some (0, 0, [(0, 4294967295); (1, 5); (2, 6); (3, 7); (4, 5); (5, 4294967295)], [(5, 4)], []).
Proof. vm_compute. reflexivity. Qed.

(** restart killed after two page writes of step 4: *)
Example c20s_restart_killed_in_flush : su_obs (st_run cfg_now st_init su_demo_b) =
  Some (0, 0, [(0, 4294967295); (1, 5); (2, 6); (3, 7); (4, 5); (5, 4294967295)], [(5, 4); (6, 2); (7, 3)], []).
Proof. vm_compute. reflexivity. Qed.

(** restart killed right after the truncation — the log is empty, the window of fix 44ca03e: *)
Example c20s_restart_killed_after_truncation : su_obs (st_run cfg_now st_init su_demo_c) =
  Some (0, 0, [], [(5, 4); (6, 2); (7, 3)], []).
Proof. vm_compute. reflexivity. Qed.

(** complete restart: greatest page LSN 4, floor record 5, nextLSN 6: *)
Example c20s_restart_complete : su_obs (st_run cfg_now st_init su_demo_d) =
  Some (3, 6, [(5, 4294967295)], [(5, 4); (6, 2); (7, 3)], [(5, 4); (6, 2); (7, 3)]).
Proof. vm_compute. reflexivity. Qed.

(** a committed change of page 6 (LSN 7), an unfinished one of page 7 (never flushed), killed, redo: *)
Example c20s_more_work_then_redo : su_obs (st_run cfg_now st_init su_demo_e) =
  Some (1, 0, [(5, 4294967295); (6, 4294967295); (7, 6); (8, 4294967295)],
        [(5, 4); (6, 2); (7, 3)], [(5, 4); (6, 7); (7, 3)]).
Proof. vm_compute. reflexivity. Qed.

(** ... completed: nextLSN 10: *)
Example c20s_second_restart_complete : su_obs (st_run cfg_now st_init su_demo_f) =
  Some (3, 10, [(9, 4294967295)], [(5, 4); (6, 7); (7, 3)], [(5, 4); (6, 7); (7, 3)]).
Proof. vm_compute. reflexivity. Qed.

(** the same history as a recorded I/O trace replays line by line (24 lines) to the same state; replayed
    against the configuration without the page scan, line 16 (the log write of step 6 after the restart that
    found an empty log) is reported: the model expects floor LSN 1, the trace carries 5. *)
Example c20s_trace_replay :
  (match st_feed_all cfg_now true st_init su_demo_trace 0 with
   | (StOk s, n) => Some (su_obs (Some s), n) | _ => None end) =
  Some (su_obs (st_run cfg_now st_init su_demo_f), 24) /\
  (match st_feed_all (st_mkcfg true false) true st_init su_demo_trace 0 with
   | (StBad c e a, n) => Some (c, e, a, n) | _ => None end) = Some (2, 1, 5, 16).
Proof. vm_compute. split; reflexivity. Qed.

(** the witnesses' histories under the current code: no broken floor, nextLSN 8 and 6 *)
Example c20s_defect_histories_now :
  option_map (fun s => (st_next_lsn s, st_floor_broken s)) (st_run cfg_now st_init su_defect_a_es) = Some (8, false) /\
  option_map (fun s => (st_next_lsn s, st_floor_broken s)) (st_run cfg_now st_init su_defect_b_es) = Some (6, false).
Proof. vm_compute. split; reflexivity. Qed.
