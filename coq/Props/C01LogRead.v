(** C01 (supplement) — recovery reads from the log file exactly the records the codec defines.

    lib/recovery/log_recovery/log_recovery.go Redo does not parse the log file as a whole:
    it reads it in chunks of common.LogBufferSize bytes (ReadLog), deserialises records from
    a chunk until one is incomplete, advances the file offset by the bytes consumed and reads
    the next chunk from there; it stops at the end of the file or when a chunk yields no
    complete record (torn tail).  Undo reads one record at a time at the file offset Redo
    remembered for its LSN.  The objects (Model/LogRead.v):

    - [lr_read_log file off len]        DiskManagerImpl.ReadLog
    - [lr_chunk_records chunk]          the inner loop of Redo: records and bufferOffset
    - [lr_redo_scan bufsize fuel file]  the records Redo processes with their file offsets
                                        (lsnMapping), following the chunk loop
    - [lr_undo_read bufsize file off]   Undo's read of one record
    - [lr_with_offsets base rs]         records with running byte offsets (size fields)
    - [lr_strip_leftover file]          the file without its unparsable leftover
    - [parse_all] (Model/LogCodec.v)    the codec: complete records, leftover

    The theorems hold for ALL files (any list of numbers) and every buffer size [bufsize]
    with [fits bufsize file]: no parsed record of the file is longer than the buffer.  The
    engine satisfies it: LogBufferSize = 528384 (129 pages); a record is at most two tuple
    images of < 4096 bytes each plus a header of 20-44 bytes.  Without it the statements are
    false ([small_buffer_refuted]: the seeded regression that let Undo read 4096 bytes).

    Model limits (see Model/LogRead.v): a record whose body overruns its own size field is
    unparsable for the codec and for this model, while Go's DeserializeLogRecord hands it
    out with out-of-record fields; file offsets are unbounded here, uint32/int32 in Go. *)
From Coq Require Import List NArith ZArith.
From SDB Require Import Base.Bytes Params Model.Wal Model.LogCodec Model.LogRead
  Proofs.LogCodecProofs Proofs.LogReadProofs.
Import ListNotations.
Local Open Scope nat_scope.

(** (a) chunking is invisible: a record that straddles a chunk boundary is read once, whole *)
Theorem redo_scan_is_parse_all : forall bufsize file, fits bufsize file ->
  map snd (lr_redo_scan bufsize (S (length file)) file) = fst (parse_all file).
Proof. exact LogReadProofs.redo_scan_is_parse_all. Qed.
Print Assumptions redo_scan_is_parse_all.

(** (b) the offsets given to Undo are the byte offsets of the records in the file *)
Theorem redo_scan_offsets : forall bufsize file, fits bufsize file ->
  lr_redo_scan bufsize (S (length file)) file = lr_with_offsets 0 (fst (parse_all file)).
Proof. exact LogReadProofs.redo_scan_offsets. Qed.
Print Assumptions redo_scan_offsets.

(** record [i] is at the total size of the records before it *)
Theorem redo_scan_nth : forall bufsize file i, fits bufsize file ->
  nth_error (lr_redo_scan bufsize (S (length file)) file) i =
  option_map (fun r => (lr_total (firstn i (fst (parse_all file))), r))
             (nth_error (fst (parse_all file)) i).
Proof. exact LogReadProofs.redo_scan_nth. Qed.
Print Assumptions redo_scan_nth.

(** (c) termination: the loop ends within [length file + 1] rounds (more fuel changes nothing) *)
Theorem redo_scan_fuel_enough : forall bufsize file fuel, fits bufsize file ->
  S (length file) <= fuel ->
  lr_redo_scan bufsize fuel file = lr_redo_scan bufsize (S (length file)) file.
Proof. exact LogReadProofs.redo_scan_fuel_enough. Qed.
Print Assumptions redo_scan_fuel_enough.

(** (c) torn tail: the bytes after the last complete record are ignored *)
Theorem redo_scan_ignores_torn_tail : forall bufsize file, fits bufsize file ->
  lr_redo_scan bufsize (S (length file)) file =
  lr_redo_scan bufsize (S (length (lr_strip_leftover file))) (lr_strip_leftover file).
Proof. exact LogReadProofs.redo_scan_ignores_torn_tail. Qed.
Print Assumptions redo_scan_ignores_torn_tail.

Theorem strip_leftover_parse : forall file,
  parse_all (lr_strip_leftover file) = (fst (parse_all file), []) /\
  file = lr_strip_leftover file ++ snd (parse_all file).
Proof. exact LogReadProofs.strip_leftover_parse. Qed.
Print Assumptions strip_leftover_parse.

(** (d) Undo's read at an offset recorded by Redo returns the record Redo saw there *)
Theorem undo_read_at_offset : forall bufsize file o r, fits bufsize file ->
  In (o, r) (lr_redo_scan bufsize (S (length file)) file) ->
  lr_undo_read bufsize file o = Some r.
Proof. exact LogReadProofs.undo_read_at_offset. Qed.
Print Assumptions undo_read_at_offset.

(** (e) a buffer smaller than a record: BEGIN, UPDATE (two images of 2,500 bytes: 5,036 bytes),
    COMMIT.  With 4,096 bytes Undo gets no record at the UPDATE's offset and Redo stops
    after BEGIN; with 5,036 bytes everything is read. *)
Theorem small_buffer_refuted :
  fst (parse_all ex_big_log) = [ex_begin 0 7; ex_big; ex_commit 2 7 1] /\
  lr_rec_len ex_big = 5036 /\
  lr_redo_scan 5036 (S (length ex_big_log)) ex_big_log =
    [(0, ex_begin 0 7); (20, ex_big); (5056, ex_commit 2 7 1)] /\
  lr_undo_read 5036 ex_big_log 20 = Some ex_big /\
  lr_undo_read 4096 ex_big_log 20 = None /\
  lr_redo_scan 4096 (S (length ex_big_log)) ex_big_log = [(0, ex_begin 0 7)].
Proof. exact LogReadProofs.small_buffer_refuted. Qed.
Print Assumptions small_buffer_refuted.

(** * Non-vacuity: concrete logs *)

Definition k_insert (lsn txn prev : Z) (pid slot : N) (t : list N) : lrec_full :=
  mkF (32 + lenN t) lsn txn prev lr_insert (FTuple pid slot t) [].
Definition k_recs : list lrec_full :=
  [ex_begin 0 7; k_insert 1 7 0 3 0 [1;2;3;4;5;6;7;8;9;10]%N; ex_commit 2 7 1].
Definition k_log : list N := concat (map ser_rec k_recs).

(** BEGIN (20 bytes), INSERT (42 bytes), COMMIT (20 bytes) read with a buffer of 42 bytes:
    the first chunk ends in the middle of the INSERT record (22 of its 42 bytes); the
    second chunk starts at offset 20 and holds it whole *)
Example c01lr_first_chunk_cuts_insert :
  lr_read_log k_log 0 42 = Some (firstn 42 k_log) /\
  lr_chunk_records (firstn 42 k_log) = ([ex_begin 0 7], 20) /\
  fits 42 k_log.
Proof. vm_compute. repeat constructor. Qed.

Example c01lr_straddling_record_read_once :
  lr_redo_scan 42 (S (length k_log)) k_log =
  [(0, ex_begin 0 7); (20, k_insert 1 7 0 3 0 [1;2;3;4;5;6;7;8;9;10]%N); (62, ex_commit 2 7 1)] /\
  lr_undo_read 42 k_log 20 = Some (k_insert 1 7 0 3 0 [1;2;3;4;5;6;7;8;9;10]%N) /\
  lr_undo_read 42 k_log 62 = Some (ex_commit 2 7 1).
Proof. vm_compute. repeat split; reflexivity. Qed.

(** torn tail: the file ends with the first 30 bytes of a further INSERT record; the scan
    reads the three complete records and stops (also with much more fuel), the leftover
    is those 30 bytes *)
Definition k_torn : list N := k_log ++ firstn 30 (ser_rec (k_insert 3 8 (-1) 3 1 [9;9;9;9;9;9;9;9]%N)).

Example c01lr_torn_tail :
  lr_redo_scan 42 (S (length k_torn)) k_torn = lr_redo_scan 42 (S (length k_log)) k_log /\
  lr_redo_scan 42 1000 k_torn = lr_redo_scan 42 (S (length k_log)) k_log /\
  lr_strip_leftover k_torn = k_log /\
  length (snd (parse_all k_torn)) = 30 /\
  lr_read_log k_torn (length k_torn) 42 = None.
Proof. vm_compute. repeat split; reflexivity. Qed.
