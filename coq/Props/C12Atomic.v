(** C12 (atomicity and serial order) — the request manager composed with the
    row-level scheduler.
    "When many callers issue SQL statements concurrently, every call returns
    exactly one result that belongs to its own statement; each statement takes
    effect exactly once and atomically (all of its row changes or none),
    aborted attempts leave no trace, and the results are those of some serial
    order of the statements that is consistent with real time (if call A
    returned before call B was issued, A comes before B)."

    Model: Model/ReqSched.v — the product of Model/ReqMgr.v (request_manager.go,
    ExecuteSQL, ExecuteSQLForTxnTh; Props/C12.v) and Model/Sched.v (strict 2PL,
    no-wait denials, before-image rollback; Props/C05.v) with the glue of
    ExecuteSQLRetValues: one fresh transaction per ATTEMPT of a request
    (transaction ids from the global counter, as TransactionManager.Begin),
    the statement's row operations through the scheduler one at a time, commit
    before [WorkerFinish id Ok], QueryAbortedErr = [WorkerFinish id Aborted]
    after a denied lock request.  A composed step is [RsReq l] (a
    request-manager label) or [RsExec id] (the worker of request [id] does its
    next row operation or commits).

    Every statement is about EVERY composed schedule: any number of callers,
    statements and rows, any interleaving of callers, run loop and workers, any
    capacities [c m rc] (no side condition on them is needed for the safety
    statements below; the real ones are [rs_init_real]) and any initial store.

      rs_trace s      the scheduler's event trace so far (EvRead t x v | ...)
      rs_atts s       (transaction id, request id) for every attempt started
      rs_order s      the COMMIT ORDER as request ids:
                      [map (rs_own s) (committed (rs_trace s))]
      rs_answer s id  what caller [id] received (the committed attempt's reads)
      rs_serial       the statements executed one after the other on a store

    Refuted (unconditional forms kept as [Definition ... : Prop]):
      [store_serial_everywhere_refuted]       a row written by a still-running
          attempt holds the dirty value (in-place update before commit);
      [linearizable_among_answered_refuted]   the serial order must contain the
          committed-but-not-yet-answered requests.
    Statements only; the proofs are in Proofs/ReqSchedProofs.v. *)
From Coq Require Import List NArith Bool.
From SDB Require Import Params Base.Assoc Model.Lock Model.Sched Model.ReqMgr Model.ReqSched.
From SDB Require Import Proofs.SchedProofs Proofs.ReqSchedProofs.
Import ListNotations.
Open Scope N_scope.

Definition rs_reachable (c m rc : N) (st0 : list (N * N)) (stmts : list (N * list rwop))
    (s : rs_state) : Prop :=
  exists schedule, rs_run schedule (rs_init c m rc st0 stmts) = Some s.

(** * The composition is a product: the two projections *)

(** The [RsReq] labels of a composed run, in order, are a run of the request
    manager of Model/ReqMgr.v, ending in the composed state's [rs_req].  Hence
    every theorem of Props/C12.v applies to [rs_req s]. *)
Theorem projection_reqmgr : forall c m rc st0 stmts ls s,
  rs_run ls (rs_init c m rc st0 stmts) = Some s ->
  rrun (rs_rlabels ls) (rinit c m rc) = Some (rs_req s).
Proof. exact projection_reqmgr_l. Qed.
Print Assumptions projection_reqmgr.

(** The scheduler operations performed by the [RsExec] labels ([rs_sops], also
    recorded in the ghost field [rs_ops]) form a run of the scheduler of
    Model/Sched.v from the initial store, ending in the composed state's
    [rs_db] with the recorded trace.  Hence every theorem of Props/C05.v
    applies to [rs_db s] and [rs_trace s]. *)
Theorem projection_sched : forall c m rc st0 stmts ls s,
  rs_run ls (rs_init c m rc st0 stmts) = Some s ->
  rs_ops s = rs_sops ls (rs_init c m rc st0 stmts) /\
  srun st0 (rs_ops s) = (rs_db s, rs_trace s).
Proof. exact projection_sched_l. Qed.
Print Assumptions projection_sched.

(** One scheduler operation per [RsExec], none for the other labels. *)
Theorem projection_sched_one_operation_per_exec : forall s l s',
  rs_step s l = Some s' ->
  length (rs_label_ops s l) = match l with RsExec _ => 1%nat | RsReq _ => 0%nat end.
Proof. exact rs_label_ops_count. Qed.
Print Assumptions projection_sched_one_operation_per_exec.

(** * Each statement takes effect at most once *)

(** No transaction commits twice; two committed attempts of the same request
    are the same attempt; so the commit order lists each request at most once. *)
Theorem each_request_commits_at_most_once : forall c m rc st0 stmts s,
  rs_reachable c m rc st0 stmts s ->
  NoDup (committed (rs_trace s)) /\
  (forall id t1 t2, In (t1, id) (rs_atts s) -> In (t2, id) (rs_atts s) ->
     In t1 (committed (rs_trace s)) -> In t2 (committed (rs_trace s)) -> t1 = t2) /\
  NoDup (rs_order s).
Proof. exact each_request_commits_at_most_once_l. Qed.
Print Assumptions each_request_commits_at_most_once.

(** * An answered call: exactly once, atomically, its own result *)

(** Caller [id] holds an answer.  Then the answer is the reqResult of its own
    request with a final outcome; exactly one attempt [t] of the request
    committed; the events of [t] are the WHOLE statement, in order, followed by
    the commit (all of its row changes); every other attempt of the request
    was aborted by the scheduler and is not committed (none of theirs); and the
    values the caller received are the values [t] read. *)
Theorem answered_request_committed_exactly_once : forall c m rc st0 stmts s id r o,
  rs_reachable c m rc st0 stmts s ->
  aget (callers (rs_req s)) id = Some (CDone r o) ->
  r = id /\ o = Ok /\
  exists t vals, In (t, id) (rs_atts s) /\ In t (committed (rs_trace s)) /\
    (forall t', In (t', id) (rs_atts s) -> In t' (committed (rs_trace s)) -> t' = t) /\
    (forall t', In (t', id) (rs_atts s) -> t' <> t ->
       In (EvAbort t') (rs_trace s) /\ ~ In t' (committed (rs_trace s))) /\
    map ev_op (proj t (rs_trace s)) = map (rs_op t) (agetl stmts id) ++ [SCommit t] /\
    vals = rs_reads_of (proj t (rs_trace s)) /\
    rs_answer s id = Some vals.
Proof. exact answered_request_committed_exactly_once_l. Qed.
Print Assumptions answered_request_committed_exactly_once.

(** The same for a reply still waiting in the caller's buffered reply channel. *)
Theorem pending_answer_committed_exactly_once : forall c m rc st0 stmts s id r o,
  rs_reachable c m rc st0 stmts s ->
  aget (callers (rs_req s)) id = Some (Replied_not_signalled r o) ->
  r = id /\ o = Ok /\
  exists t, In (t, id) (rs_atts s) /\ In t (committed (rs_trace s)) /\
    (forall t', In (t', id) (rs_atts s) -> In t' (committed (rs_trace s)) -> t' = t) /\
    aget (rs_results s) id = Some (rs_reads_of (proj t (rs_trace s))).
Proof. exact pending_answer_committed_exactly_once_l. Qed.
Print Assumptions pending_answer_committed_exactly_once.

(** As soon as the worker has reported [Ok] (before the reply travels). *)
Theorem reported_request_committed_exactly_once : forall c m rc st0 stmts s id,
  rs_reachable c m rc st0 stmts s ->
  (1 <= occ id (effects (rs_req s)))%nat ->
  exists t, In (t, id) (rs_atts s) /\ In t (committed (rs_trace s)) /\
    (forall t', In (t', id) (rs_atts s) -> In t' (committed (rs_trace s)) -> t' = t) /\
    (forall t', In (t', id) (rs_atts s) -> t' <> t ->
       In (EvAbort t') (rs_trace s) /\ ~ In t' (committed (rs_trace s))) /\
    map ev_op (proj t (rs_trace s)) = map (rs_op t) (agetl stmts id) ++ [SCommit t] /\
    aget (rs_results s) id = Some (rs_reads_of (proj t (rs_trace s))).
Proof. exact rs_finished_request. Qed.
Print Assumptions reported_request_committed_exactly_once.

(** * Aborted attempts leave no trace *)

(** A worker can send the QueryAbortedErr marker only for its request's
    newest attempt, which the scheduler has aborted: the attempt is not
    committed, its before-images have been restored (its undo list is empty),
    it holds no lock, and the report itself changes neither the store nor the
    trace nor any result. *)
Theorem aborted_finish_rolled_back : forall c m rc st0 stmts s id s',
  rs_reachable c m rc st0 stmts s ->
  rs_step s (RsReq (WorkerFinish id Aborted)) = Some s' ->
  exists t, In (t, id) (rs_atts s) /\ (forall t', In (t', id) (rs_atts s) -> t' <= t) /\
    In (EvAbort t) (rs_trace s) /\ ~ In t (committed (rs_trace s)) /\
    (forall x, ~ holds (locks (rs_db s)) t x) /\ agetl (undo (rs_db s)) t = [] /\
    rs_db s' = rs_db s /\ rs_trace s' = rs_trace s /\ rs_results s' = rs_results s.
Proof. exact aborted_finish_rolled_back_l. Qed.
Print Assumptions aborted_finish_rolled_back.

(** A row that only aborted attempts have written holds its initial value.
    (More generally the serial execution of
    [statements_serializable_in_commit_order] skips aborted attempts
    entirely.) *)
Theorem aborted_attempts_leave_no_trace : forall c m rc st0 stmts s x,
  rs_reachable c m rc st0 stmts s ->
  (forall t v, In (EvWrite t x v) (rs_trace s) -> In (EvAbort t) (rs_trace s)) ->
  sget (store (rs_db s)) x = sget st0 x.
Proof. exact aborted_attempts_leave_no_trace_l. Qed.
Print Assumptions aborted_attempts_leave_no_trace.

(** * Serial execution in commit order *)

(** Executing the STATEMENTS of the committed attempts one after the other,
    in commit order, on the initial store ([rs_serial]) is the replay of
    Props/C05.v ([serial_in_commit_order], through [projection_sched]): every
    committed attempt gets exactly the values it read in the concurrent run,
    every recorded result is the serial one, and the serial final store is the
    real one on every row that no still-running attempt has written. *)
Theorem statements_serializable_in_commit_order : forall c m rc st0 stmts s,
  rs_reachable c m rc st0 stmts s ->
  rs_serial stmts st0 (rs_order s) =
    (sstore st0 (progs (rs_trace s)),
     map (fun t => (rs_own s t, rs_reads_of (proj t (rs_trace s)))) (committed (rs_trace s))) /\
  (forall t, In t (committed (rs_trace s)) ->
     aget (snd (rs_serial stmts st0 (rs_order s))) (rs_own s t) =
       Some (rs_reads_of (proj t (rs_trace s)))) /\
  (forall id vals, aget (rs_results s) id = Some vals ->
     aget (snd (rs_serial stmts st0 (rs_order s))) id = Some vals) /\
  (forall x,
     (forall id w, aget (rs_wk s) id = Some w -> rq_st w = RqRunning ->
        ~ wrote (proj (rq_tid w) (rs_trace s)) x) ->
     sget (store (rs_db s)) x = sget (fst (rs_serial stmts st0 (rs_order s))) x).
Proof. exact statements_serializable_in_commit_order_l. Qed.
Print Assumptions statements_serializable_in_commit_order.

(** With no worker running the exclusion is empty: the whole store is serial. *)
Theorem quiescent_store_is_serial : forall c m rc st0 stmts s,
  rs_reachable c m rc st0 stmts s -> workers (rs_req s) = [] ->
  forall x, sget (store (rs_db s)) x = sget (fst (rs_serial stmts st0 (rs_order s))) x.
Proof. exact quiescent_store_is_serial_l. Qed.
Print Assumptions quiescent_store_is_serial.

(** * The commit order respects real time *)

(** If the run loop handed caller [a] its answer ([Deliver a]; the caller's
    own receive comes at that moment or later) before caller [b] issued its
    call ([Enqueue b]), then [a] precedes [b] in the commit order — whenever
    [b] is in it at all. *)
Theorem commit_order_respects_real_time : forall c m rc st0 stmts ls1 a ls2 b ls3 s,
  rs_run (ls1 ++ RsReq (Deliver a) :: ls2 ++ RsReq (Enqueue b) :: ls3)
         (rs_init c m rc st0 stmts) = Some s ->
  In b (rs_order s) -> rs_before (rs_order s) a b.
Proof. exact commit_order_respects_real_time_l. Qed.
Print Assumptions commit_order_respects_real_time.

(** The general form: [a]'s worker has reported its commit, [b] has not
    started any attempt yet (in particular: has not been issued, is queued, or
    its wake-up token is still on its way). *)
Theorem commit_reported_before_first_attempt : forall c m rc st0 stmts s1 ls s a b,
  rs_reachable c m rc st0 stmts s1 -> rs_run ls s1 = Some s ->
  (1 <= occ a (effects (rs_req s1)))%nat ->
  (forall t, ~ In (t, b) (rs_atts s1)) ->
  In b (rs_order s) -> rs_before (rs_order s) a b.
Proof. exact commit_reported_before_first_attempt_l. Qed.
Print Assumptions commit_reported_before_first_attempt.

(** [rs_before] on a duplicate-free list is a strict total order. *)
Theorem commit_order_is_asymmetric : forall l a b,
  NoDup l -> rs_before l a b -> ~ rs_before l b a.
Proof. exact rs_before_asym. Qed.
Print Assumptions commit_order_is_asymmetric.

Theorem commit_order_is_total : forall l a b, In a l -> In b l -> a <> b ->
  rs_before l a b \/ rs_before l b a.
Proof. exact rs_before_total. Qed.
Print Assumptions commit_order_is_total.

(** * The headline: linearizability *)

(** For every composed schedule [ls] ending in [s], the commit order
    [rs_order s] is a linearization ([rs_linearization], spelled out below):
      - it lists each request at most once, only issued requests, and every
        answered one;
      - it contains the real-time order of the schedule;
      - executing the statements one after the other in that order from the
        initial store gives every caller exactly the result it received
        (which is the result of its own request, with a final outcome) ...
      - ... and the real store, on every row that no still-running attempt has
        written. *)
Theorem statements_linearizable : forall c m rc st0 stmts ls s,
  rs_run ls (rs_init c m rc st0 stmts) = Some s ->
  rs_linearization st0 stmts ls s (rs_order s).
Proof. exact statements_linearizable_l. Qed.
Print Assumptions statements_linearizable.

(** [rs_linearization] unfolded (checked by [reflexivity]: this IS the
    definition used above). *)
Example rs_linearization_unfolded : forall st0 stmts ls s order,
  rs_linearization st0 stmts ls s order =
  (NoDup order /\
   (forall id, In id order -> aget (callers (rs_req s)) id <> None) /\
   (forall id r o, aget (callers (rs_req s)) id = Some (CDone r o) -> In id order) /\
   (forall l1 a l2 b l3,
      ls = l1 ++ RsReq (Deliver a) :: l2 ++ RsReq (Enqueue b) :: l3 ->
      In b order -> rs_before order a b) /\
   (forall id r o, aget (callers (rs_req s)) id = Some (CDone r o) ->
      r = id /\ o = Ok /\
      exists vals, rs_answer s id = Some vals /\
                   aget (snd (rs_serial stmts st0 order)) id = Some vals) /\
   (forall x,
      (forall id w, aget (rs_wk s) id = Some w -> rq_st w = RqRunning ->
         ~ wrote (proj (rq_tid w) (rs_trace s)) x) ->
      sget (store (rs_db s)) x = sget (fst (rs_serial stmts st0 order)) x)).
Proof. reflexivity. Qed.

(** When every caller has its answer, the linearization consists exactly of
    the answered calls. *)
Theorem quiescent_order_is_answered : forall c m rc st0 stmts ls s,
  rs_run ls (rs_init c m rc st0 stmts) = Some s ->
  (forall id st, aget (callers (rs_req s)) id = Some st -> exists r o, st = CDone r o) ->
  forall id, In id (rs_order s) <-> exists r o, aget (callers (rs_req s)) id = Some (CDone r o).
Proof. exact quiescent_order_is_answered_l. Qed.
Print Assumptions quiescent_order_is_answered.

(** * What holds only under a side condition *)

(** "The store is the serial store on every row at every moment" — REFUTED:
    rows are updated in place before the commit (executors over
    table_heap.go / table_page.go: UpdateTuple, InsertTuple, MarkDelete under
    the X lock, before-image in the write set), so a row written by a
    still-running attempt holds the dirty value ([rs_dirty_schedule]: request
    1 has written row 10 := 5 and not committed; the store says 5, the serial
    store 1).  Other statements never see it (no-wait denial); the side
    condition of [statements_serializable_in_commit_order] excludes exactly
    these rows. *)
Definition store_serial_everywhere : Prop :=
  forall c m rc st0 stmts ls s x, rs_run ls (rs_init c m rc st0 stmts) = Some s ->
    sget (store (rs_db s)) x = sget (fst (rs_serial stmts st0 (rs_order s))) x.

Theorem store_serial_everywhere_refuted : ~ store_serial_everywhere.
Proof. exact store_serial_everywhere_refuted_l. Qed.
Print Assumptions store_serial_everywhere_refuted.

(** "Some serial order of the ANSWERED calls alone explains every answer" —
    REFUTED in the middle of a run: between TransactionManager.Commit in
    ExecuteSQLRetValues and [*recvVal.callerCh <- recvVal] in
    RequestManager.Run a statement's effects are visible while its caller is
    still waiting ([rs_pending_schedule]: request 1 = "write 10 := 5" has
    committed, its worker has not reported; request 2 = "read 10" returned 5
    to its caller; no order made of answered calls only gives 5).  The
    linearization must contain the committed-but-unanswered requests, as
    [rs_order] does; once every caller has its answer the two coincide
    ([quiescent_order_is_answered]). *)
Definition linearizable_among_answered : Prop :=
  forall c m rc st0 stmts ls s, rs_run ls (rs_init c m rc st0 stmts) = Some s ->
    exists order,
      (forall id, In id order -> exists r o, aget (callers (rs_req s)) id = Some (CDone r o)) /\
      (forall id r o, aget (callers (rs_req s)) id = Some (CDone r o) ->
         exists vals, rs_answer s id = Some vals /\
                      aget (snd (rs_serial stmts st0 order)) id = Some vals).

Theorem linearizable_among_answered_refuted : ~ linearizable_among_answered.
Proof. exact linearizable_among_answered_refuted_l. Qed.
Print Assumptions linearizable_among_answered_refuted.

(** * Non-vacuity *)

(** Three callers over rows 10 and 11 on the real capacities
    ([rs_demo_schedule], Model/ReqSched.v).  Request 1 = "read 10; write
    10 := 5", request 2 = "read 10; write 11 := 7", request 3 = "read 11; read
    10".  Attempt 1 (request 1) is denied the upgrade on row 10 because attempt
    2 also holds S: it is aborted and retried as attempt 3.  Caller 3 calls
    after caller 2 got its answer (the only real-time pair: (2, 3)).  Attempt 4
    (request 3) reads row 11 and is denied S on row 10 (attempt 3 holds X): it
    is aborted — its read of 11 leaves no trace — and retried as attempt 5.
    Commit order of attempts: 2, 3, 5 = requests 2, 1, 3.  The serial execution
    of the three statements in that order gives the three callers' results
    and the final store. *)
Example c12_atomic_nonvacuous :
  match rs_run rs_demo_schedule (rs_init_real rs_demo_st0 rs_demo_stmts) with
  | Some s =>
      rs_ops s = [SRead 1 10; SRead 2 10; SWrite 1 10 5; SWrite 2 11 7; SCommit 2;
                  SRead 3 10; SWrite 3 10 5; SRead 4 11; SRead 4 10; SCommit 3;
                  SRead 5 11; SRead 5 10; SCommit 5] /\
      rs_trace s = [EvRead 1 10 1; EvRead 2 10 1; EvAbort 1; EvWrite 2 11 7; EvCommit 2;
                    EvRead 3 10 1; EvWrite 3 10 5; EvRead 4 11 7; EvAbort 4; EvCommit 3;
                    EvRead 5 11 7; EvRead 5 10 5; EvCommit 5] /\
      rs_atts s = [(5, 3); (4, 3); (3, 1); (2, 2); (1, 1)] /\
      committed (rs_trace s) = [2; 3; 5] /\
      rs_order s = [2; 1; 3] /\
      callers (rs_req s) = [(3, CDone 3 Ok); (2, CDone 2 Ok); (1, CDone 1 Ok)] /\
      map (rs_answer s) [1; 2; 3] = [Some [1]; Some [1]; Some [7; 5]] /\
      rs_serial rs_demo_stmts rs_demo_st0 (rs_order s) =
        ([(10, 5); (11, 7)], [(2, [1]); (1, [1]); (3, [7; 5])]) /\
      store (rs_db s) = [(10, 5); (11, 7)] /\
      rs_realtime rs_demo_schedule [] = [(2, 3)] /\
      rs_lin_check rs_demo_schedule s = true /\
      rs_wk s = [] /\ rs_enabled s = [] /\
      count is_abort_finish (rs_rlabels rs_demo_schedule) = 2%nat
  | None => False
  end.
Proof. vm_compute. repeat split. Qed.

(** The glue rejects what the engine cannot do: a worker cannot report [Ok]
    before its commit, nor [Aborted] without a denied lock request; nothing
    executes for a request that has not been dispatched; a denied worker
    executes nothing more and cannot report [Ok]. *)
Example c12_atomic_rejections :
  let pre := [RsReq (Enqueue 1); RsReq (SendToken 1); RsReq LoopRecv; RsReq Dispatch] in
  let init := rs_init_real rs_demo_st0 rs_demo_stmts in
  rs_run (pre ++ [RsReq (WorkerFinish 1 Ok)]) init = None /\
  rs_run (pre ++ [RsReq (WorkerFinish 1 Aborted)]) init = None /\
  rs_run [RsReq (Enqueue 1); RsReq (SendToken 1); RsExec 1] init = None /\
  rs_run (firstn 11 rs_demo_schedule ++ [RsExec 1]) init = None /\
  rs_run (firstn 11 rs_demo_schedule ++ [RsReq (WorkerFinish 1 Ok)]) init = None /\
  (exists s, rs_run (firstn 11 rs_demo_schedule ++ [RsReq (WorkerFinish 1 Aborted)]) init = Some s).
Proof. vm_compute. repeat split. eexists. reflexivity. Qed.

(** The two refutation witnesses, evaluated. *)
Example c12_atomic_dirty_row : exists s,
  rs_run rs_dirty_schedule (rs_init_real rs_demo_st0 rs_dirty_stmts) = Some s /\
  rs_order s = [] /\ sget (store (rs_db s)) 10 = 5 /\
  sget (fst (rs_serial rs_dirty_stmts rs_demo_st0 (rs_order s))) 10 = 1 /\
  rs_trace s = [EvWrite 1 10 5] /\ rs_enabled s = [RsExec 1].
Proof. exact rs_dirty_facts. Qed.

Example c12_atomic_committed_but_unanswered : exists s,
  rs_run rs_pending_schedule (rs_init_real rs_demo_st0 rs_pending_stmts) = Some s /\
  callers (rs_req s) = [(2, CDone 2 Ok); (1, Waiting)] /\
  rs_answer s 2 = Some [5] /\ rs_order s = [1; 2] /\ rs_order_answered s = [2] /\
  snd (rs_serial rs_pending_stmts rs_demo_st0 (rs_order s)) = [(1, []); (2, [5])] /\
  snd (rs_serial rs_pending_stmts rs_demo_st0 (rs_order_answered s)) = [(2, [1])] /\
  workers (rs_req s) = [1] /\ rs_enabled s = [RsReq Dispatch; RsReq (WorkerFinish 1 Ok)].
Proof. exact rs_pending_facts. Qed.

(** Liveness needs its hypothesis.  Props/C12.v proves that every call is
    answered IF concurrency-control aborts are finite
    ([all_answered_if_finite_aborts]).  In the composed model the aborts come
    from the scheduler, and an unfair interleaving can produce them for ever:
    request 1 = "write 10; write 11" and request 2 = "write 11; write 10"
    abort each other in turn ([rs_livelock_schedule], no-wait denial +
    immediate re-dispatch from the head of the queue).  After 25 rounds: 50
    aborted attempts, nothing committed, both callers still waiting, and the
    same round is enabled again.  (Bounded witness; the engine has no back-off
    in handleAbortedByCCTxn either — the retried request goes to the head of
    the queue and is re-dispatched by the same loop iteration.) *)
Example c12_atomic_mutual_aborts :
  match rs_run (rs_livelock_schedule 25) (rs_init_real rs_demo_st0 rs_livelock_stmts) with
  | Some s =>
      committed (rs_trace s) = [] /\
      count is_abort_finish (rs_rlabels (rs_livelock_schedule 25)) = 50%nat /\
      callers (rs_req s) = [(2, Waiting); (1, Waiting)] /\ rs_results s = [] /\
      rs_next s = 53 /\
      (exists s', rs_run rs_livelock_round s = Some s')
  | None => False
  end.
Proof. vm_compute. repeat split. eexists. reflexivity. Qed.
