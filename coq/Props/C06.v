(** C06 — every supported single-table statement returns the reference answer,
    whichever access path the optimizer picks.  Statements only; every proof is
    [exact <lemma>] (Proofs/QueryProofs.v).

    Model: Model/Query.v (Compare*, Range, findBestScan's conjunct walk, the
    candidate plans and their execution).  Reference: Model/SqlRef.v ([sel]).
    The index range scan is taken to return the entries with lo <= key <= hi in
    the reference order [vcmp]: that rests on C18 (int_order, float_order,
    str_order: the encoded keys order like the values) and C17 (the container).

    The index range scan treats a bound that IsInfMin()/IsInfMax() as "no bound"
    (RangeScanWithIndexExecutor.Init), which [scan_in] models.

    Two statements are FALSE for the faithful model and are kept as
    [Definition ... : Prop] with a [_refuted] witness and a [_partial] theorem:
    [compare_matches_reference] (the sentinel tests inside the Compare methods) and
    [scan_plan_equiv] (through those methods, and through NULL in an indexed column). *)
From Coq Require Import List NArith ZArith Bool Permutation.
From SDB Require Import Base.Bytes Model.Codec Model.SqlRef Model.Query Proofs.QueryProofs.
Import ListNotations.

(** * Value.Compare* against the reference order *)

(** Full statement (false): on every stored value and non-NULL literal of the
    same type the engine's comparison is the reference comparison. *)
Definition compare_matches_reference : Prop :=
  forall ty o v r, val_ok ty v -> val_ok ty r -> r <> VNull -> cv_cmp o v r = eval_cmp o v r.

Theorem compare_matches_reference_refuted : ~ compare_matches_reference.
Proof. exact compare_matches_reference_refuted_lemma. Qed.
Print Assumptions compare_matches_reference_refuted.

(** Exact characterisation: [=] and [<>] are always right; [<], [<=], [>], [>=]
    are right exactly outside [cv_bad] (one operand is a sentinel of the type and
    the other lies beyond it). *)
Theorem compare_matches_reference_partial : forall ty o v r,
  val_ok ty v -> val_ok ty r -> r <> VNull ->
  (cv_cmp o v r = eval_cmp o v r <-> ordered o = false \/ cv_bad v r = false).
Proof. exact compare_matches_reference_partial_lemma. Qed.
Print Assumptions compare_matches_reference_partial.

(** Integers: MaxInt32 / MinInt32 are the true extremes, nothing goes wrong. *)
Theorem compare_matches_reference_int : forall o v r,
  val_ok TInt v -> val_ok TInt r -> r <> VNull -> cv_cmp o v r = eval_cmp o v r.
Proof. exact compare_matches_reference_int_lemma. Qed.
Print Assumptions compare_matches_reference_int.

(** Any type: a wrong answer needs an operand equal to a sentinel. *)
Theorem compare_wrong_needs_sentinel : forall v r,
  cv_is_inf_max v = false -> cv_is_inf_min v = false ->
  cv_is_inf_max r = false -> cv_is_inf_min r = false -> cv_bad v r = false.
Proof. exact bad_needs_sentinel. Qed.
Print Assumptions compare_wrong_needs_sentinel.

(** Floats: +Inf < MaxFloat32 is true in the engine. *)
Theorem compare_float_inf_refuted :
  val_ok TFloat (VFloat 2139095040%N) /\ val_ok TFloat (VFloat max_f32) /\
  cv_cmp OLt (VFloat 2139095040%N) (VFloat max_f32) = true /\
  eval_cmp OLt (VFloat 2139095040%N) (VFloat max_f32) = false.
Proof. exact compare_float_inf_refuted_lemma. Qed.
Print Assumptions compare_float_inf_refuted.

(** * The conjunct walk *)

(** OR makes the walk panic, and only OR. *)
Theorem walk_panics_iff_or : forall sch p, walk sch p = None <-> has_or p = true.
Proof. exact walk_none_iff. Qed.
Print Assumptions walk_panics_iff_or.

(** The stack machine visits the comparisons in the order [cmps] (right operand
    of every AND first), whatever the shape of the tree. *)
Theorem walk_order : forall sch p st, walk sch p = Some st ->
  has_or p = false /\ ws_related st = cmps p /\ st = fold_left (visit sch) (cmps p) (winit sch).
Proof. exact walk_order_lemma. Qed.
Print Assumptions walk_order.

(** * Ranges *)

(** Every value satisfying the comparisons on an indexed column is covered by the
    scan of the derived range — all three types, any AND-tree. *)
Theorem range_superset : forall sch p st c v,
  has_or p = false -> lits_ok sch p -> walk sch p = Some st -> col_indexed sch c = true ->
  v <> VNull -> conj_on c p v ->
  scan_in (rmin (ws_rng st c)) (rmax (ws_rng st c)) v = true.
Proof. exact range_superset_lemma. Qed.
Print Assumptions range_superset.

(** When findBestScan attaches no Selection (no bound set inclusively to a
    sentinel, range exact, both bounds inclusive, touchOnly) the scanned interval
    is exactly the predicate. *)
Theorem range_exact_when_not_rechecked : forall sch p st c e,
  has_or p = false -> lits_ok sch p -> walk sch p = Some st -> col_indexed sch c = true ->
  range_empty (ws_rng st c) = false ->
  cv_is_inf_min (rmin (ws_rng st c)) && rmin_inc (ws_rng st c) = false ->
  cv_is_inf_max (rmax (ws_rng st c)) && rmax_inc (ws_rng st c) = false ->
  ws_inexact st c = false -> rmin_inc (ws_rng st c) = true -> rmax_inc (ws_rng st c) = true ->
  scan_exp (ws_related st) = Some e -> touch_only e c = true ->
  forall r, nth c r VNull <> VNull ->
    scan_in (rmin (ws_rng st c)) (rmax (ws_rng st c)) (nth c r VNull) = eval_pred r p.
Proof. exact range_exact_lemma. Qed.
Print Assumptions range_exact_when_not_rechecked.

(** * Plans *)

(** Full statement (false): every candidate plan returns the reference answer. *)
Definition scan_plan_equiv : Prop := forall sch p cols t l pl,
  has_or p = false -> lits_ok sch p -> table_ok sch t ->
  candidates sch p cols = Some l -> In pl l ->
  exists out, run_plan pl t = Some out /\ Permutation out (sel cols p t).

Theorem scan_plan_equiv_refuted : ~ scan_plan_equiv.
Proof. exact scan_plan_equiv_refuted_lemma. Qed.
Print Assumptions scan_plan_equiv_refuted.

(** For AND-trees of any shape, every candidate, all tables: with [sel_safe] (no
    stored value / literal pair in [cv_bad]) and [plan_ok] (the scanned column
    holds no NULL). *)
Theorem scan_plan_equiv_partial : forall sch p cols t l pl,
  has_or p = false -> lits_ok sch p -> table_ok sch t -> sel_safe p t ->
  candidates sch p cols = Some l -> In pl l -> plan_ok pl t ->
  exists out, run_plan pl t = Some out /\ Permutation out (sel cols p t).
Proof. exact scan_plan_equiv_partial_lemma. Qed.
Print Assumptions scan_plan_equiv_partial.

(** The sequential candidate exists and returns the rows in table order. *)
Theorem candidates_exist : forall sch p cols, has_or p = false ->
  exists st l, walk sch p = Some st /\ candidates sch p cols = Some l /\ In (seq_candidate st cols) l.
Proof. exact candidates_exist_lemma. Qed.
Print Assumptions candidates_exist.

Theorem seq_plan_equiv : forall sch p cols t st,
  has_or p = false -> lits_ok sch p -> table_ok sch t -> sel_safe p t ->
  walk sch p = Some st ->
  run_plan (seq_candidate st cols) t = Some (sel cols p t).
Proof. exact seq_plan_equiv_lemma. Qed.
Print Assumptions seq_plan_equiv.

(** Whatever the cost model picks. *)
Theorem chosen_plan_equiv : forall sch p cols t k pl,
  has_or p = false -> lits_ok sch p -> table_ok sch t -> sel_safe p t ->
  chosen sch p cols k = Some pl -> plan_ok pl t ->
  exists out, run_plan pl t = Some out /\ Permutation out (sel cols p t).
Proof. exact chosen_plan_equiv_lemma. Qed.
Print Assumptions chosen_plan_equiv.

(** The same with the NULL condition stated on the table. *)
Theorem scan_plan_equiv_nonnull : forall sch p cols t l pl,
  has_or p = false -> lits_ok sch p -> table_ok sch t -> sel_safe p t -> indexed_nonnull sch t ->
  candidates sch p cols = Some l -> In pl l ->
  exists out, run_plan pl t = Some out /\ Permutation out (sel cols p t).
Proof. exact scan_plan_equiv_nonnull_lemma. Qed.
Print Assumptions scan_plan_equiv_nonnull.

(** Integer-only tables: the only side condition left is "no NULL in an indexed column". *)
Theorem scan_plan_equiv_int : forall sch p cols t l pl,
  all_int sch -> has_or p = false -> lits_ok sch p -> table_ok sch t -> indexed_nonnull sch t ->
  candidates sch p cols = Some l -> In pl l ->
  exists out, run_plan pl t = Some out /\ Permutation out (sel cols p t).
Proof. exact scan_plan_equiv_int_lemma. Qed.
Print Assumptions scan_plan_equiv_int.

(** Both side conditions can be decided on the statement and the table; a plan
    aborts exactly when its index scan meets a NULL entry. *)
Theorem indexed_nonnull_decidable : forall sch t,
  has_null_in_indexed_col sch t = false -> indexed_nonnull sch t.
Proof. exact has_null_false. Qed.
Print Assumptions indexed_nonnull_decidable.

Theorem abort_iff_null_hit : forall pl t, run_plan pl t = None <-> plan_hits_null pl t = true.
Proof. exact run_plan_none_iff. Qed.
Print Assumptions abort_iff_null_hit.

Theorem sel_safe_decidable : forall p t, stmt_hits_bad p t = false -> sel_safe p t.
Proof. exact stmt_hits_bad_false. Qed.
Print Assumptions sel_safe_decidable.

(** Predicates containing OR: sequential scan with the whole predicate. *)
Theorem or_plan_equiv : forall sch p cols t,
  lits_ok sch p -> table_ok sch t -> sel_safe p t ->
  run_plan (or_plan p cols) t = Some (sel cols p t).
Proof. exact or_plan_equiv_lemma. Qed.
Print Assumptions or_plan_equiv.

(** * The two ways [scan_plan_equiv] fails, each with every other hypothesis in place *)

(** WHERE s < 'SamehadaDBInfMaxValue' returns 'T' ([sel_safe] fails). *)
Theorem sentinel_literal_refuted :
  let sch := [(TStr, true)] : schema in
  let p := PCmp 0 OLt (VStr inf_max_str) in
  let t := [[VStr str_T]] : table in
  let pl := PProjection (PSelection PSeqScan p) [O] in
  has_or p = false /\ lits_ok sch p /\ table_ok sch t /\
  candidates sch p [O] = Some [pl] /\ plan_ok pl t /\
  stmt_hits_bad p t = true /\
  run_plan pl t = Some [[VStr str_T]] /\ sel [O] p t = [].
Proof. exact sentinel_literal_refuted_lemma. Qed.
Print Assumptions sentinel_literal_refuted.

(** WHERE a = 0 through the index aborts when some row has a IS NULL ([plan_ok] fails). *)
Theorem null_in_index_refuted :
  let sch := [(TInt, true)] : schema in
  let p := PCmp 0 OEq (VInt 0) in
  let t := [[VNull]; [VInt 0]] : table in
  let pl := PProjection (PIndexRange 0 TInt (VInt 0) (VInt 0)) [O] in
  all_int sch /\ has_or p = false /\ lits_ok sch p /\ table_ok sch t /\
  (exists l, candidates sch p [O] = Some l /\ In pl l) /\
  run_plan pl t = None /\ sel [O] p t = [[VInt 0]] /\
  has_null_in_indexed_col sch t = true /\ plan_hits_null pl t = true.
Proof. exact null_in_index_refuted_lemma. Qed.
Print Assumptions null_in_index_refuted.

(** * Non-vacuity: a concrete table, redundant / contradictory bounds *)

(** The table and predicates [ex_*] are defined in Proofs/QueryProofs.v:
    a>=3 AND a>=5 AND a<=10 ;  a=5 AND a=7 ;  a>=1 AND a<=5 AND a<>3 ;  a=5
    on rows (a,b) = (7,70) (3,30) (5,50) (12,120) (4,40) (10,100) (1,10) (5,51) (9,90),
    index on a only. *)
Definition runs (p : pred) (cols : list nat) : option (list (option table)) :=
  match candidates ex_sch p cols with
  | Some l => Some (map (fun pl => run_plan pl ex_t) l)
  | None => None
  end.

(** p1: the walk sees a<=10, a>=5, a>=3 and hands [3,10] to the index (the last
    '>=' wins); the Selection restores the answer.  Both candidates agree with the
    reference up to order. *)
Example c06_nonvacuous_redundant :
  candidates ex_sch ex_p1 [1; 0]%nat =
    Some [PProjection (PSelection (PIndexRange 0 TInt (VInt 3) (VInt 10))
                         (PAnd (PAnd (ex_a OLe 10) (ex_a OGe 5)) (ex_a OGe 3))) [1; 0]%nat;
          PProjection (PSelection PSeqScan
                         (PAnd (PAnd (ex_a OLe 10) (ex_a OGe 5)) (ex_a OGe 3))) [1; 0]%nat] /\
  runs ex_p1 [1; 0]%nat =
    Some [Some [[VInt 50; VInt 5]; [VInt 51; VInt 5]; [VInt 70; VInt 7]; [VInt 90; VInt 9]; [VInt 100; VInt 10]];
          Some [[VInt 70; VInt 7]; [VInt 50; VInt 5]; [VInt 100; VInt 10]; [VInt 51; VInt 5]; [VInt 90; VInt 9]]] /\
  sel [1; 0]%nat ex_p1 ex_t =
    [[VInt 70; VInt 7]; [VInt 50; VInt 5]; [VInt 100; VInt 10]; [VInt 51; VInt 5]; [VInt 90; VInt 9]].
Proof. vm_compute. repeat split; reflexivity. Qed.

Example c06_nonvacuous_contradictory :
  runs ex_p2 [1%nat] = Some [Some []; Some []] /\ sel [1%nat] ex_p2 ex_t = [].
Proof. vm_compute. split; reflexivity. Qed.

Example c06_nonvacuous_not_equal :
  runs ex_p3 [1%nat] =
    Some [Some [[VInt 10]; [VInt 40]; [VInt 50]; [VInt 51]];
          Some [[VInt 50]; [VInt 40]; [VInt 10]; [VInt 51]]] /\
  sel [1%nat] ex_p3 ex_t = [[VInt 50]; [VInt 40]; [VInt 10]; [VInt 51]].
Proof. vm_compute. split; reflexivity. Qed.

(** p4: the one shape for which no Selection is attached (bare index scan). *)
Example c06_nonvacuous_bare_scan :
  candidates ex_sch ex_p4 [1%nat] =
    Some [PProjection (PIndexRange 0 TInt (VInt 5) (VInt 5)) [1%nat];
          PProjection (PSelection PSeqScan (ex_a OEq 5)) [1%nat]] /\
  runs ex_p4 [1%nat] = Some [Some [[VInt 50]; [VInt 51]]; Some [[VInt 50]; [VInt 51]]].
Proof. vm_compute. split; reflexivity. Qed.

(** The hypotheses of [scan_plan_equiv_int] hold for this table and these predicates. *)
Example c06_nonvacuous_hyps :
  all_int ex_sch /\ table_ok ex_sch ex_t /\ indexed_nonnull ex_sch ex_t /\
  lits_ok ex_sch ex_p1 /\ lits_ok ex_sch ex_p2 /\ lits_ok ex_sch ex_p3 /\ lits_ok ex_sch ex_p4 /\
  has_or ex_p1 = false /\ has_or ex_p2 = false /\ has_or ex_p3 = false /\ has_or ex_p4 = false.
Proof. exact ex_hyps_lemma. Qed.
