(* placeholder until the C06 theorems are in place *)
From SDB Require Import Model.SqlRef.
