(** C18, float32 part, over IEEE-754 semantics.  [Props/C18.v] states the
    order theorems against the model's reference order [f_cmp] on bit
    patterns; here [f_cmp] is shown to be the IEEE-754 binary32 comparison of
    the Flocq library ([Bcompare], [Rcompare] of the real values), and the
    order theorems are restated over it.  [to_b32 u] is the binary32 value whose
    interchange encoding is the 32-bit pattern [u].
    Statements only; every proof is [exact <lemma>]. *)
From Coq Require Import List NArith ZArith Reals SpecFloat.
From Flocq Require Import Core.Raux IEEE754.Binary IEEE754.Bits.
From SDB Require Import Base.Bytes Params Model.Codec Proofs.BytesProofs Proofs.CodecProofs
  Proofs.FloatBridge.
Import ListNotations.
Open Scope N_scope.

(** The value attached to a pattern is the one IEEE-754 attaches to it:
    re-encoding [to_b32 u] gives [u] back. *)
Theorem float_pattern_faithful : forall u, u < two32 -> bits_of_b32 (to_b32 u) = Z.of_N u.
Proof. exact bits_of_to_b32. Qed.
Print Assumptions float_pattern_faithful.

(** The model's NaN test is the IEEE one, so [f_ok] means "32-bit, not a NaN". *)
Theorem float_nan_is_ieee_nan : forall u, f_is_nan u = is_nan 24 128 (to_b32 u).
Proof. exact f_is_nan_spec. Qed.
Print Assumptions float_nan_is_ieee_nan.

(** The reference order of C18 is the IEEE-754 comparison. *)
Theorem float_cmp_is_ieee_compare : forall u v, f_ok u -> f_ok v ->
  Bcompare 24 128 (to_b32 u) (to_b32 v) = Some (f_cmp u v).
Proof. exact f_cmp_is_Bcompare_ok. Qed.
Print Assumptions float_cmp_is_ieee_compare.

(** The same free of axioms: [to_sf u] is Flocq's decoder read as a
    [spec_float] ([B2SF (to_b32 u) = to_sf u], lemma [to_sf_spec]) and
    [SFcompare], by which [Bcompare] is defined, involves no real number. *)
Theorem float_cmp_is_spec_float_compare : forall u v, f_ok u -> f_ok v ->
  SFcompare (to_sf u) (to_sf v) = Some (f_cmp u v).
Proof. exact f_cmp_is_SFcompare_ok. Qed.
Print Assumptions float_cmp_is_spec_float_compare.

(** ... that is, the order of the real numbers denoted, with -inf below and
    +inf above every finite value (see [ieee_order_spec]). *)
Theorem float_cmp_is_real_order : forall u v, f_ok u -> f_ok v ->
  ieee_order_spec (to_b32 u) (to_b32 v) (f_cmp u v).
Proof. exact f_cmp_order_spec. Qed.
Print Assumptions float_cmp_is_real_order.

(** [float_order] of C18 over IEEE semantics: encoded non-NaN floats compare
    byte-wise exactly as the values compare. *)
Theorem float_key_order_ieee : forall u v, f_ok u -> f_ok v ->
  Bcompare 24 128 (to_b32 u) (to_b32 v) = Some (lex_cmp (enc_f32 u) (enc_f32 v)).
Proof. exact enc_f32_order_ieee. Qed.
Print Assumptions float_key_order_ieee.

Theorem float_key_order_spec_float : forall u v, f_ok u -> f_ok v ->
  SFcompare (to_sf u) (to_sf v) = Some (lex_cmp (enc_f32 u) (enc_f32 v)).
Proof. exact enc_f32_order_spec_float. Qed.
Print Assumptions float_key_order_spec_float.

Theorem float_key_order_real : forall u v, f_ok u -> f_ok v ->
  is_finite 24 128 (to_b32 u) = true -> is_finite 24 128 (to_b32 v) = true ->
  lex_cmp (enc_f32 u) (enc_f32 v) = Rcompare (B2R 24 128 (to_b32 u)) (B2R 24 128 (to_b32 v)).
Proof. exact enc_f32_order_Rcompare. Qed.
Print Assumptions float_key_order_real.

(** [float_same_key_adjacent] and [float_scankey] of C18 over IEEE semantics. *)
Theorem float_same_key_adjacent_ieee : forall u v p s p' s', f_ok u -> f_ok v ->
  Bcompare 24 128 (to_b32 u) (to_b32 v) = Some Lt ->
  lex_cmp (enc_f32_key u p s) (enc_f32_key v p' s') = Lt.
Proof. exact f32_key_adjacent_ieee. Qed.
Print Assumptions float_same_key_adjacent_ieee.

Theorem float_scankey_ieee : forall u v p s, f_ok u -> f_ok v -> rid_ok p s ->
  between (enc_f32_key u 0 0) (enc_f32_key v p s) (enc_f32_key u 2147483647 4294967295)
  <-> Bcompare 24 128 (to_b32 v) (to_b32 u) = Some Eq.
Proof. exact f32_scankey_bracket_ieee. Qed.
Print Assumptions float_scankey_ieee.
