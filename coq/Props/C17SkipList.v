(** C17 (skip list) — the block skip list implements the ordered container.

    Props/C17.v proves that the index wrapper refines a sorted multimap GIVEN the
    ordered unique-key container [omap] (Model/IndexWrap.v).  This file closes
    the gap below it for the container the engine really uses: the block skip
    list of lib/container/skip_list (Model/SkipList.v) — pages holding a sorted
    array of entries plus a tower of forward pointers, top-down search with
    corner nodes, node split on a full page, unlinking of an emptied node at
    every level — observably IS [omap]:

    for ALL operation sequences, ALL node capacities >= 2, ALL levels chosen for
    new nodes (the level is an input of every insert, clamped to
    [1, max_level] as GetNodeLevel does), ALL maximal levels >= 1 and ALL split
    policies (the split index is clamped so that both halves are non-empty; the
    engine's cnt / 2 is [sl_half]), the run succeeds (no search or scan runs out
    of fuel, no dangling pointer) and

    - [sl_to_list] (the level-0 walk) = the [omap] after the same operations,
    - [sl_get k] = the lookup of [k] in that list,
    - [sl_range lo hi] = [om_range lo hi] of that list,
    - the structural invariant [sl_inv] holds.

    Proofs: Proofs/SkipListProofs.v.  Not modelled: latches, pins, update
    counters and retries (the model is sequential), page-id reuse, byte-level
    page capacity (a capacity is a number of entries), the binary search inside
    a page (a page is a sorted list). *)
From Coq Require Import List NArith ZArith Sorted.
From SDB Require Import Base.Bytes Base.Assoc Model.IndexWrap Model.SkipList
  Proofs.IndexWrapProofs Proofs.SkipListProofs.
Import ListNotations.
Local Open Scope nat_scope.

(** * Statements *)

(** After any operation sequence every observation of the skip list equals the
    observation of the specification, and so does the result of any further
    operation. *)
Definition skiplist_refines_container_stmt : Prop :=
  forall (spf : split_policy) (cap maxl : nat) (ops : list sl_op),
    2 <= cap -> 1 <= maxl ->
    exists s, sl_run spf cap maxl ops = Ok s /\
      sl_to_list s = Ok (om_run ops) /\
      (forall k, sl_get k s = Ok (om_find k (om_run ops))) /\
      (forall lo hi, sl_range lo hi s = Ok (om_range lo hi (om_run ops))) /\
      (forall o, exists s', sl_apply spf s o = Ok s' /\
                 sl_to_list s' = Ok (om_apply (om_run ops) o)).

(** Every reachable state satisfies the structural invariant. *)
Definition skiplist_invariant_reachable_stmt : Prop :=
  forall (spf : split_policy) (cap maxl : nat) (ops : list sl_op),
    2 <= cap -> 1 <= maxl ->
    exists s, sl_run spf cap maxl ops = Ok s /\ sl_inv s.

(** Single steps from ANY state satisfying the invariant. *)
Definition skiplist_insert_step_stmt : Prop :=
  forall (spf : split_policy) s k v lvl, sl_inv s ->
    exists m s', sl_to_list s = Ok m /\ sl_insert_with spf k v lvl s = Ok s' /\
      sl_inv s' /\ sl_to_list s' = Ok (om_insert k v m).

Definition skiplist_remove_step_stmt : Prop :=
  forall s k, sl_inv s ->
    exists m s', sl_to_list s = Ok m /\ sl_remove k s = Ok s' /\
      sl_inv s' /\ sl_to_list s' = Ok (om_remove k m).

Definition skiplist_observe_stmt : Prop :=
  forall s, sl_inv s ->
    exists m, sl_to_list s = Ok m /\ om_sorted m /\
      (forall k, sl_get k s = Ok (om_find k m)) /\
      (forall lo hi, sl_range lo hi s = Ok (om_range lo hi m)) /\
      (forall rm k, exists r, sl_find rm k s = Ok r).

(** No search (FindNode for Get/Insert/Remove) and no scan ever returns an
    error — in particular never [SlOutOfFuel] — on a reachable state. *)
Definition skiplist_search_never_runs_out_of_fuel_stmt : Prop :=
  forall (spf : split_policy) (cap maxl : nat) (ops : list sl_op),
    2 <= cap -> 1 <= maxl ->
    exists s, sl_run spf cap maxl ops = Ok s /\
      (forall rm k, exists r, sl_find rm k s = Ok r) /\
      (exists l, sl_to_list s = Ok l) /\
      (forall lo hi, exists l, sl_range lo hi s = Ok l).

(** A full scan is strictly sorted by key (each key once); a range scan is
    strictly sorted and returns exactly the stored entries within the bounds. *)
Definition skiplist_scan_sorted_stmt : Prop :=
  forall (spf : split_policy) (cap maxl : nat) (ops : list sl_op),
    2 <= cap -> 1 <= maxl ->
    exists s l, sl_run spf cap maxl ops = Ok s /\ sl_to_list s = Ok l /\
      om_sorted l /\ om_sortedb l = true /\ NoDup (map fst l) /\
      forall lo hi, exists r, sl_range lo hi s = Ok r /\ om_sorted r /\
        forall e, In e r <-> In e l /\ in_bounds lo hi (fst e) = true.

(** * Theorems *)

Theorem skiplist_refines_container : skiplist_refines_container_stmt.
Proof. exact skiplist_refines. Qed.
Print Assumptions skiplist_refines_container.

Theorem skiplist_invariant_reachable : skiplist_invariant_reachable_stmt.
Proof. exact skiplist_inv_reachable. Qed.
Print Assumptions skiplist_invariant_reachable.

Theorem skiplist_insert_step : skiplist_insert_step_stmt.
Proof. exact insert_refines. Qed.
Print Assumptions skiplist_insert_step.

Theorem skiplist_remove_step : skiplist_remove_step_stmt.
Proof. exact remove_refines. Qed.
Print Assumptions skiplist_remove_step.

Theorem skiplist_observe : skiplist_observe_stmt.
Proof. exact observe_refines. Qed.
Print Assumptions skiplist_observe.

Theorem skiplist_search_never_runs_out_of_fuel : skiplist_search_never_runs_out_of_fuel_stmt.
Proof. exact skiplist_no_fuel_error. Qed.
Print Assumptions skiplist_search_never_runs_out_of_fuel.

Theorem skiplist_scan_sorted : skiplist_scan_sorted_stmt.
Proof. exact skiplist_scan_sorted_run. Qed.
Print Assumptions skiplist_scan_sorted.

(** * Examples (capacity 3, three levels)

    Twelve inserts with levels 1..3 split the start node and four other nodes;
    six removals then empty the start node and make two nodes disappear: the
    node right after the start node and the last node of the list. *)

Definition xk (n : N) : list N := [n].
Definition xv (n : N) : rid := (0%Z, n).
Definition xi (n : N) (lvl : nat) : sl_op := SlIns (xk n) (xv n) lvl.
Definition xd (n : N) : sl_op := SlDel (xk n).

Definition x_shape (r : res slist) : list (N * list N * nat * list N) :=
  match r with
  | Ok s => map (fun p => (fst p, map (fun e => hd 0%N (fst e)) (n_entries (snd p)),
                          n_level (snd p), n_fwd (snd p))) (sl_nodes s)
  | Err _ => []
  end.

Definition x_keys (r : res slist) : option (list N) :=
  match r with
  | Ok s => match sl_to_list s with
            | Ok l => Some (map (fun e => hd 0%N (fst e)) l)
            | Err _ => None
            end
  | Err _ => None
  end.

Definition x_get (r : res slist) (n : N) : option (option rid) :=
  match r with
  | Ok s => match sl_get (xk n) s with Ok o => Some o | Err _ => None end
  | Err _ => None
  end.

Definition x_check (r : res slist) : bool :=
  match r with Ok s => sl_checkb s | Err _ => false end.

Definition x_ins : list sl_op :=
  [xi 10 1; xi 20 2; xi 30 3; xi 40 1; xi 50 2; xi 25 3;
   xi 5 1; xi 15 2; xi 35 3; xi 45 1; xi 22 2; xi 27 3].

Definition x_del : list sl_op := [xd 5; xd 10; xd 15; xd 50; xd 45; xd 40].

(** Six nodes after the inserts: id, keys, level, forward pointers (1 = sentinel). *)
Example ex_split_shape :
  x_shape (sl_run sl_half 3 3 x_ins) =
  [(0%N, [5%N], 3, [4%N; 4%N; 2%N]);
   (2%N, [20%N; 22%N], 3, [6%N; 6%N; 6%N]);
   (3%N, [40%N; 45%N; 50%N], 2, [1%N; 1%N]);
   (4%N, [10%N; 15%N], 2, [2%N; 2%N]);
   (5%N, [30%N; 35%N], 3, [3%N; 3%N; 1%N]);
   (6%N, [25%N; 27%N], 3, [5%N; 5%N; 5%N])].
Proof. vm_compute. reflexivity. Qed.

Example ex_split_scan :
  x_keys (sl_run sl_half 3 3 x_ins) =
  Some [5%N; 10%N; 15%N; 20%N; 22%N; 25%N; 27%N; 30%N; 35%N; 40%N; 45%N; 50%N].
Proof. vm_compute. reflexivity. Qed.

Example ex_split_check : x_check (sl_run sl_half 3 3 x_ins) = true.
Proof. vm_compute. reflexivity. Qed.

Example ex_split_get :
  x_get (sl_run sl_half 3 3 x_ins) 27 = Some (Some (xv 27)) /\
  x_get (sl_run sl_half 3 3 x_ins) 5 = Some (Some (xv 5)) /\
  x_get (sl_run sl_half 3 3 x_ins) 50 = Some (Some (xv 50)) /\
  x_get (sl_run sl_half 3 3 x_ins) 26 = Some None.
Proof. vm_compute. repeat split. Qed.

(** After the removals node 4 (right after the start node) and node 3 (the last
    node) are gone, the start node is empty and points past node 4. *)
Example ex_remove_shape :
  x_shape (sl_run sl_half 3 3 (x_ins ++ x_del)) =
  [(0%N, [], 3, [2%N; 2%N; 2%N]);
   (2%N, [20%N; 22%N], 3, [6%N; 6%N; 6%N]);
   (5%N, [30%N; 35%N], 3, [1%N; 1%N; 1%N]);
   (6%N, [25%N; 27%N], 3, [5%N; 5%N; 5%N])].
Proof. vm_compute. reflexivity. Qed.

Example ex_remove_scan :
  x_keys (sl_run sl_half 3 3 (x_ins ++ x_del)) =
  Some [20%N; 22%N; 25%N; 27%N; 30%N; 35%N].
Proof. vm_compute. reflexivity. Qed.

Example ex_remove_check : x_check (sl_run sl_half 3 3 (x_ins ++ x_del)) = true.
Proof. vm_compute. reflexivity. Qed.

Example ex_remove_get :
  x_get (sl_run sl_half 3 3 (x_ins ++ x_del)) 10 = Some None /\
  x_get (sl_run sl_half 3 3 (x_ins ++ x_del)) 50 = Some None /\
  x_get (sl_run sl_half 3 3 (x_ins ++ x_del)) 35 = Some (Some (xv 35)) /\
  x_get (sl_run sl_half 3 3 (x_ins ++ x_del)) 20 = Some (Some (xv 20)).
Proof. vm_compute. repeat split. Qed.

(** Overwriting an existing key keeps one entry and replaces the value. *)
Example ex_overwrite :
  x_get (sl_run sl_half 3 3 (x_ins ++ [SlIns (xk 27) (xv 99) 2])) 27 = Some (Some (xv 99)) /\
  x_keys (sl_run sl_half 3 3 (x_ins ++ [SlIns (xk 27) (xv 99) 2])) =
  x_keys (sl_run sl_half 3 3 x_ins).
Proof. vm_compute. split; reflexivity. Qed.

(** Capacity 2: every second insert splits; removing everything leaves only the
    start node; the scan and the specification agree at every prefix. *)
Fixpoint x_prefixes_ok (cap maxl : nat) (done todo : list sl_op) : bool :=
  match todo with
  | [] => true
  | o :: r =>
      let ops := done ++ [o] in
      match sl_run sl_half cap maxl ops with
      | Ok s =>
          sl_checkb s &&
          match sl_to_list s with
          | Ok l => list_N_eqb (map (fun e => hd 0%N (fst e)) l)
                               (map (fun e => hd 0%N (fst e)) (om_run ops))
          | Err _ => false
          end && x_prefixes_ok cap maxl ops r
      | Err _ => false
      end
  end.

Example ex_cap2_prefixes :
  x_prefixes_ok 2 3 [] (x_ins ++ x_del ++ [xd 20; xd 22; xd 25; xd 27; xd 30; xd 35]) = true.
Proof. vm_compute. reflexivity. Qed.

Example ex_cap2_all_removed :
  x_shape (sl_run sl_half 2 3 (x_ins ++ x_del ++ [xd 20; xd 22; xd 25; xd 27; xd 30; xd 35])) =
  [(0%N, [], 3, [1%N; 1%N; 1%N])].
Proof. vm_compute. reflexivity. Qed.

(** Range scan on the split list. *)
Example ex_range :
  match sl_run sl_half 3 3 x_ins with
  | Ok s => match sl_range (Some (xk 15)) (Some (xk 30)) s with
            | Ok l => Some (map (fun e => hd 0%N (fst e)) l)
            | Err _ => None
            end
  | Err _ => None
  end = Some [15%N; 20%N; 22%N; 25%N; 27%N; 30%N].
Proof. vm_compute. reflexivity. Qed.
