(** C06 (row codec) — "all values read back identical to what was stored", at the level of the
    bytes of a row.

    Props/C06.v covers query planning.  This file covers the step below every table access:
    lib/storage/tuple/tuple.go (NewTupleFromSchema, GetValue, GetValueInBytes, Size, Data),
    lib/types/column_value.go (Value.Serialize, Value.Size, NewValueFromBytes),
    lib/storage/table/schema/schema.go and lib/storage/table/column/column.go (offsets, inlined and
    un-inlined columns).  Model: Model/TupleCodec.v; proofs: Proofs/TupleCodecProofs.v; the model is
    compared with the Go code on random schemas, rows and damaged tuples by lib/tuplecorr.py
    (`verifharness tuplecodec`, build/tuple_driver).

    OBJECTS.  [tschema] = list of column types [TcInt | TcFloat | TcBool | TcStr] (Integer int32,
    Float float32, Boolean, Varchar).  [tval]: [TvInt z], [TvFloat bits] (the float32 BIT PATTERN),
    [TvBool b], [TvStr bytes], [TvNull ty] (the NULL Value whose valueType is [ty]; types.NewNull()
    is [TvNull TcInt]).  [tc_encode_row sch row] = bytes of NewTupleFromSchema(row, sch)
    ([None] = panic); [tc_tuple_size] = Size(); [tc_decode_col sch data i] = GetValue(sch, i) on a
    tuple with these bytes ([None] = panic); [tc_decode_row] = every column; [tc_get_value_in_bytes]
    = GetValueInBytes; [tc_flat] = the layout in closed form: one field per column (flag byte +
    payload for Integer/Float/Boolean, a uint32 little-endian pointer for a Varchar) followed by
    the Varchar images (flag byte, uint16 little-endian length, bytes) in column order.
    [tc_row_wf sch row]: one value per column, of the column's type (NULLs included), int32 /
    float32 / byte ranges, total size below 2^32.  [tc_row_ok] = [tc_row_wf] and every string has at
    most 65532 bytes ([tc_str_fits]).  [tc_row_wf_gen] also admits the Integer-typed NULL of
    types.NewNull() in Float and Varchar columns; [tc_as_col c v] = [v] with a NULL retyped to [c].
    [tc_readback v] = what GetValue returns for a stored [v]: [v] itself, except that a string is cut
    to ((len mod 2^16 + 3) mod 2^16) - 3 bytes, or GetValue panics when that is negative.

    PROVED for ALL schemas and rows (unbounded):
    - the bytes are the closed-form layout, Size() = number of bytes = sum of the fixed lengths
      (5, 5, 2, 4) + sum of (len + 3) over the Varchar values (3 for a NULL Varchar);
    - GetValue of column i = [tc_readback] of the value stored there, whatever the other columns hold
      (columns do not interfere);
    - round trip under [tc_row_ok]: every value reads back identical — NULLs as NULLs of their type
      (a NULL Varchar is 01 00 00 and is NOT the empty string 00 00 00), float32 bit for bit
      (-0.0, every NaN payload, denormals), boundary integers, empty strings;
    - the guard is exact: a well-formed row reads back identical IF AND ONLY IF all strings fit;
    - GetValueInBytes = Serialize for strings shorter than 32768 bytes.
    REFUTED (faithful to the Go code):
    - round trip for every well-formed row: a Varchar of 65533..65535 bytes is stored but GetValue
      PANICS (the end of the string is computed in uint16: length + 3 wraps below 3); one of 65536
      bytes and more reads back silently TRUNCATED (uint16(len) wraps; 65536 bytes read back as "");
    - GetValueInBytes for strings of 32768 bytes and more: panics (length read as int16).
    Both are out of reach of SQL on the pinned tree only because a row must fit one 4096-byte page.
    Outside the domain (Examples): values are never type-checked against their column; the
    Integer-typed NULL of types.NewNull() in a BOOLEAN column overflows its 2-byte field and
    corrupts a neighbouring Varchar.
    Not modelled: rows of 4 GiB and more (uint32 size arithmetic is modelled with wrap-around, the
    theorems assume no wrap), Tinyint/Smallint/BigInt/Decimal/Timestamp (TypeID.Size() = 0, no
    Value constructor exists). *)
From Coq Require Import List NArith ZArith Bool.
From SDB Require Import Base.Bytes Model.Codec Model.TupleCodec Proofs.TupleCodecProofs.
Import ListNotations.
Local Open Scope N_scope.

(** (b) layout and size *)
Theorem tuple_layout_and_size : forall sch row,
  tc_row_wf_gen sch row = true ->
  tc_encode_row sch row = Some (tc_flat sch row) /\
  tc_tuple_size sch row = Some (tc_size_nowrap sch row) /\
  tc_len (tc_flat sch row) = tc_size_nowrap sch row.
Proof. exact tc_encode_layout. Qed.
Print Assumptions tuple_layout_and_size.

(** exact read-back of one column *)
Theorem tuple_getvalue_exact : forall sch row data i v c,
  tc_row_wf_gen sch row = true -> tc_encode_row sch row = Some data ->
  nth_error row i = Some v -> nth_error sch i = Some c ->
  tc_decode_col sch data i = tc_readback (tc_as_col c v).
Proof. exact tc_getvalue_exact. Qed.
Print Assumptions tuple_getvalue_exact.

(** (a) per column: a value that fits reads back identical whatever the other columns hold
    (also next to strings that do not fit) *)
Theorem tuple_column_roundtrip : forall sch row data i v,
  tc_row_wf sch row = true -> tc_encode_row sch row = Some data ->
  nth_error row i = Some v -> tc_str_fits v = true ->
  tc_decode_col sch data i = Some v.
Proof. exact tc_col_roundtrip. Qed.
Print Assumptions tuple_column_roundtrip.

(** (a) the row round trip, under the guard the code really has *)
Theorem tuple_roundtrip_partial : forall sch row,
  tc_row_ok sch row = true ->
  exists data, tc_encode_row sch row = Some data /\
               tc_len data = tc_size_nowrap sch row /\
               tc_tuple_size sch row = Some (tc_len data) /\
               tc_decode_row sch data = Some row.
Proof. exact tc_row_roundtrip. Qed.
Print Assumptions tuple_roundtrip_partial.

(** the guard is exact *)
Theorem tuple_roundtrip_iff_strings_fit : forall sch row data,
  tc_row_wf sch row = true -> tc_encode_row sch row = Some data ->
  (tc_decode_row sch data = Some row <-> forallb tc_str_fits row = true).
Proof. exact tc_row_roundtrip_iff. Qed.
Print Assumptions tuple_roundtrip_iff_strings_fit.

(** (d) the unguarded statement is false: a stored row whose read-back panics, and a stored row
    that reads back as a different row *)
Theorem tuple_roundtrip_refuted :
  (exists sch row data, tc_row_wf sch row = true /\ tc_encode_row sch row = Some data /\
                        tc_decode_row sch data = None) /\
  (exists sch row data row', tc_row_wf sch row = true /\ tc_encode_row sch row = Some data /\
                        tc_decode_row sch data = Some row' /\ row' <> row).
Proof. exact tc_row_roundtrip_refuted. Qed.
Print Assumptions tuple_roundtrip_refuted.

Theorem tuple_roundtrip_full_false :
  ~ (forall sch row data, tc_row_wf sch row = true -> tc_encode_row sch row = Some data ->
                          tc_decode_row sch data = Some row).
Proof. exact tc_row_roundtrip_full_false. Qed.
Print Assumptions tuple_roundtrip_full_false.

(** (c) columns do not interfere: two rows that agree on column i read back the same there *)
Theorem tuple_columns_independent : forall sch row row' data data' i,
  tc_row_wf_gen sch row = true -> tc_row_wf_gen sch row' = true ->
  tc_encode_row sch row = Some data -> tc_encode_row sch row' = Some data' ->
  nth_error row i = nth_error row' i ->
  tc_decode_col sch data i = tc_decode_col sch data' i.
Proof. exact tc_columns_independent. Qed.
Print Assumptions tuple_columns_independent.

(** NULLs and floats *)
Theorem tuple_null_roundtrip : forall sch row data i ty,
  tc_row_wf sch row = true -> tc_encode_row sch row = Some data ->
  nth_error row i = Some (TvNull ty) ->
  tc_decode_col sch data i = Some (TvNull ty).
Proof. exact tc_null_roundtrip. Qed.
Print Assumptions tuple_null_roundtrip.

Theorem tuple_float_bits_roundtrip : forall sch row data i bits,
  tc_row_wf sch row = true -> tc_encode_row sch row = Some data ->
  nth_error row i = Some (TvFloat bits) ->
  tc_decode_col sch data i = Some (TvFloat bits).
Proof. exact tc_float_bits_roundtrip. Qed.
Print Assumptions tuple_float_bits_roundtrip.

Theorem tuple_generic_null_roundtrip : forall sch row data i c,
  tc_row_wf_gen sch row = true -> tc_encode_row sch row = Some data ->
  nth_error row i = Some (TvNull TcInt) -> nth_error sch i = Some c ->
  tc_decode_col sch data i = Some (TvNull c).
Proof. exact tc_generic_null_roundtrip. Qed.
Print Assumptions tuple_generic_null_roundtrip.

Theorem tuple_roundtrip_generic_nulls : forall sch row,
  tc_row_wf_gen sch row = true -> forallb tc_str_fits row = true ->
  exists data, tc_encode_row sch row = Some data /\
               tc_decode_row sch data = Some (tc_as_cols sch row).
Proof. exact tc_row_roundtrip_gen. Qed.
Print Assumptions tuple_roundtrip_generic_nulls.

(** GetValueInBytes (the key bytes of the hash index) *)
Theorem tuple_get_value_in_bytes_partial : forall sch row data i v,
  tc_row_wf sch row = true -> tc_encode_row sch row = Some data ->
  nth_error row i = Some v -> tc_gvb_fits v = true ->
  tc_get_value_in_bytes sch data i = Some (tc_ser_val v).
Proof. exact tc_get_value_in_bytes_ser. Qed.
Print Assumptions tuple_get_value_in_bytes_partial.

Theorem tuple_get_value_in_bytes_refuted :
  exists sch row data v, tc_row_ok sch row = true /\ tc_encode_row sch row = Some data /\
    nth_error row 0 = Some v /\ tc_decode_col sch data 0 = Some v /\
    tc_get_value_in_bytes sch data 0 = None.
Proof. exact tc_get_value_in_bytes_refuted. Qed.
Print Assumptions tuple_get_value_in_bytes_refuted.

(** * Non-vacuity and behaviour outside the domain (vm_compute) *)

(** the bytes `verifharness tuplecodec` prints for  E ifbs i:-1 f:2147483648 b:1 s:616263 *)
Example c06tuple_bytes :
  tc_encode_row [TcInt; TcFloat; TcBool; TcStr]
                [TvInt (-1); TvFloat 2147483648; TvBool true; TvStr [97; 98; 99]]
  = Some [0; 255; 255; 255; 255;  0; 0; 0; 0; 128;  0; 1;  16; 0; 0; 0;  0; 3; 0; 97; 98; 99].
Proof. vm_compute. reflexivity. Qed.

(** a row with every type, NULLs of three types, -0.0, a signalling NaN, the least int32, an empty
    string and a string with bytes 00 and FF satisfies the guard and reads back identical *)
Example c06tuple_roundtrip_nonvacuous :
  let sch := [TcStr; TcInt; TcFloat; TcBool; TcStr; TcStr; TcFloat; TcInt; TcBool] in
  let row := [TvStr [0; 255; 10]; TvInt (-2147483648); TvFloat 2147483648; TvNull TcBool;
              TvNull TcStr; TvStr []; TvFloat 2139095041; TvNull TcInt; TvBool false] in
  tc_row_ok sch row = true /\
  option_map (tc_decode_row sch) (tc_encode_row sch row) = Some (Some row) /\
  option_map tc_len (tc_encode_row sch row) = Some 48 /\
  tc_tuple_size sch row = Some 48.
Proof. vm_compute. repeat split; reflexivity. Qed.

(** a NULL Varchar is 01 00 00 and reads back as NULL; the empty string is 00 00 00 *)
Example c06tuple_null_varchar :
  tc_encode_row [TcStr; TcStr] [TvNull TcStr; TvStr []] = Some [8;0;0;0; 11;0;0;0; 1;0;0; 0;0;0] /\
  tc_decode_row [TcStr; TcStr] [8;0;0;0; 11;0;0;0; 1;0;0; 0;0;0] = Some [TvNull TcStr; TvStr []].
Proof. vm_compute. split; reflexivity. Qed.

(** the limits: 65532 bytes read back, 65533 panic, 65536 read back as "" , 65540 as 4 bytes *)
Example c06tuple_limits :
  let back n := option_map (fun d => option_map
                   (fun v => match v with TvStr s => tc_len s | _ => 0 end) (tc_decode_col [TcStr] d 0))
                   (tc_encode_row [TcStr] [TvStr (tc_a_string n)]) in
  back 65532 = Some (Some 65532) /\ back 65533 = Some None /\ back 65535 = Some None /\
  back 65536 = Some (Some 0) /\ back 65540 = Some (Some 4).
Proof. vm_compute. repeat split; reflexivity. Qed.

(** outside the domain: types.NewNull() (Integer-typed NULL) in a BOOLEAN column writes 5 bytes
    into a 2-byte field and destroys the header of the Varchar payload written before it *)
Example c06tuple_generic_null_in_bool :
  option_map (tc_decode_row [TcStr; TcBool]) (tc_encode_row [TcStr; TcBool] [TvStr [97; 98; 99]; TvNull TcInt])
  = Some (Some [TvStr []; TvNull TcBool]).
Proof. vm_compute. reflexivity. Qed.

(** outside the domain: a value of another type than its column is stored without any check *)
Example c06tuple_mistyped :
  option_map (tc_decode_row [TcInt]) (tc_encode_row [TcInt] [TvStr [97; 98; 99; 100; 101; 102; 103; 104]])
  = Some (Some [TvInt 1650524168]) /\
  option_map (tc_decode_row [TcStr]) (tc_encode_row [TcStr] [TvInt 7]) = Some None.
Proof. vm_compute. split; reflexivity. Qed.

(** fewer values than columns: index out of range *)
Example c06tuple_short_row : tc_encode_row [TcInt; TcStr] [TvInt 5] = None.
Proof. reflexivity. Qed.
