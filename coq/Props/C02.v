(** C02 — unfinished or aborted transactions leave no trace after recovery.
    See Props/C01.v for the objects.  Statements only. *)
From Coq Require Import List NArith Bool Permutation.
From SDB Require Import Base.Assoc Model.Page Model.Wal Proofs.WalProofs.
Import ListNotations.
Open Scope N_scope.

(** The same core theorem, read from the other side: nothing but the finished
    transactions' work is in the tables (a transaction whose commit was in
    progress is either finished — its COMMIT record is in the durable log — or
    unfinished: fully present or fully absent). *)
Theorem atomicity : forall l disk order, image_wf l disk = true ->
  Permutation order (losers l) ->
  forall p s, page_val (recover l order disk) p s = committed_val l p s.
Proof. exact recover_committed. Qed.
Print Assumptions atomicity.

(** A slot that only unfinished transactions ever wrote is empty after restart:
    their inserted rows are absent. *)
Theorem unfinished_inserts_absent : forall l disk order p s, image_wf l disk = true ->
  Permutation order (losers l) ->
  forallb (fun r => negb (on_slot p s r) || memN (l_txn r) (losers l)) l = true ->
  page_val (recover l order disk) p s = None.
Proof. exact losers_only_none. Qed.
Print Assumptions unfinished_inserts_absent.

(** A row an unfinished transaction updated or delete-marked holds the value the
    finished transactions gave it last. *)
Theorem unfinished_changes_reverted : forall l disk order p s pre post, image_wf l disk = true ->
  Permutation order (losers l) ->
  l = pre ++ post ->
  forallb (fun r => negb (on_slot p s r) || memN (l_txn r) (losers l)) post = true ->
  forallb (fun r => match l_kind r with KNewPage _ p' => negb (p' =? p) | _ => true end) post = true ->
  page_val (recover l order disk) p s =
    slot_val (filter (fun r => negb (memN (l_txn r) (losers l))) pre) p s.
Proof. exact loser_suffix_reverted. Qed.
Print Assumptions unfinished_changes_reverted.

(** A completed rollback cancels itself: a transaction that was aborted before
    the crash wrote, for each forward record, the inverse record in reverse
    order, and the slot ends where it started. *)
Theorem rollback_cancels : forall v ks, pre_ok_seq v ks = true ->
  fold_left slot_step (map inv_kind (rev ks)) (fold_left slot_step ks v) = v.
Proof. exact rollback_cancel. Qed.
Print Assumptions rollback_cancels.

Example c02_nonvacuous :
  let l := [ mkR 0 1 None KBegin; mkR 1 1 (Some 0) (KNewPage 0 5); mkR 2 1 (Some 1) (KInsert 5 0 [1;2;3]);
             mkR 3 1 (Some 2) KCommit;
             mkR 4 2 None KBegin; mkR 5 2 (Some 4) (KUpdate 5 0 [1;2;3] [4;4;4;4]); mkR 6 2 (Some 5) (KInsert 5 1 [7]);
             mkR 7 2 (Some 6) (KApply 5 1 [7]); mkR 8 2 (Some 7) (KUpdate 5 0 [4;4;4;4] [1;2;3]); mkR 9 2 (Some 8) KAbort;
             mkR 10 3 None KBegin; mkR 11 3 (Some 10) (KMark 5 0) ] in
  let disk := [ (5, mkAP 11 [Some ([1;2;3], true); None]) ] in
  image_wf l disk = true /\ losers l = [3] /\
  map (page_val (recover l [3] disk) 5) [0; 1] = [Some ([1;2;3], false); None].
Proof. vm_compute. repeat split. Qed.
