(** C18 — index key encoding preserves order and round-trips; row ids pack
    losslessly.  Statements only; every proof is [exact <lemma>]. *)
From Coq Require Import List NArith ZArith.
From SDB Require Import Base.Bytes Params Model.Codec Proofs.BytesProofs Proofs.CodecProofs.
Import ListNotations.
Open Scope N_scope.

(** Integers: all 2^32 values. *)
Theorem int_order : forall x y, int_ok x -> int_ok y ->
  lex_cmp (enc_int x) (enc_int y) = (x ?= y)%Z.
Proof. exact enc_int_order. Qed.
Print Assumptions int_order.

Theorem int_roundtrip : forall z, int_ok z -> dec_int (enc_int z) = z.
Proof. exact dec_enc_int. Qed.
Print Assumptions int_roundtrip.

(** Floats: all non-NaN bit patterns, including -0.0, denormals, infinities.
    [f_cmp] is the IEEE-754 order on bit patterns (sign/magnitude, -0 = +0);
    the correspondence run validates it against Go's native float32 [<]/[==]. *)
Theorem float_order : forall u v, f_ok u -> f_ok v ->
  lex_cmp (enc_f32 u) (enc_f32 v) = f_cmp u v.
Proof. exact enc_f32_order. Qed.
Print Assumptions float_order.

Theorem float_roundtrip_bits : forall u, f_ok u ->
  dec_f32 (enc_f32 u) = if u =? two31 then 0 else u.
Proof. exact dec_enc_f32. Qed.
Print Assumptions float_roundtrip_bits.

Theorem float_roundtrip_value : forall u, f_ok u -> f_cmp (dec_f32 (enc_f32 u)) u = Eq.
Proof. exact dec_enc_f32_same_value. Qed.
Print Assumptions float_roundtrip_value.

(** Strings: all NUL-free byte strings, any length, any two row ids. *)
Theorem str_order : forall s t p1 s1 p2 s2, nul_free s -> nul_free t -> s <> t ->
  lex_cmp (enc_str_key s p1 s1) (enc_str_key t p2 s2) = lex_cmp s t.
Proof. exact enc_str_order. Qed.
Print Assumptions str_order.

Theorem str_roundtrip : forall s p sl, dec_str_key (enc_str_key s p sl) = s.
Proof. exact dec_enc_str. Qed.
Print Assumptions str_roundtrip.

(** Entries of the same key stay adjacent: a smaller key sorts before a larger
    one whatever the two row ids are. *)
Theorem int_same_key_adjacent : forall k k' p s p' s', int_ok k -> int_ok k' -> (k < k')%Z ->
  lex_cmp (enc_int_key k p s) (enc_int_key k' p' s') = Lt.
Proof. exact int_key_adjacent. Qed.
Print Assumptions int_same_key_adjacent.

Theorem float_same_key_adjacent : forall u v p s p' s', f_ok u -> f_ok v -> f_cmp u v = Lt ->
  lex_cmp (enc_f32_key u p s) (enc_f32_key v p' s') = Lt.
Proof. exact f32_key_adjacent. Qed.
Print Assumptions float_same_key_adjacent.

Theorem str_same_key_adjacent : forall s t p1 s1 p2 s2, nul_free s -> nul_free t -> lex_cmp s t = Lt ->
  lex_cmp (enc_str_key s p1 s1) (enc_str_key t p2 s2) = Lt.
Proof. exact str_key_adjacent. Qed.
Print Assumptions str_same_key_adjacent.

(** What ScanKey relies on: the entries between [enc k (0,0)] and
    [enc k (MaxInt32, MaxUint32)] are exactly the entries of key [k]. *)
Theorem int_scankey : forall k k' p s, int_ok k -> int_ok k' -> rid_ok p s ->
  between (enc_int_key k 0 0) (enc_int_key k' p s) (enc_int_key k 2147483647 4294967295)
  <-> k' = k.
Proof. exact int_scankey_bracket. Qed.
Print Assumptions int_scankey.

Theorem float_scankey : forall u v p s, f_ok u -> f_ok v -> rid_ok p s ->
  between (enc_f32_key u 0 0) (enc_f32_key v p s) (enc_f32_key u 2147483647 4294967295)
  <-> f_cmp v u = Eq.
Proof. exact f32_scankey_bracket. Qed.
Print Assumptions float_scankey.

Theorem str_scankey : forall s t p sl, nul_free s -> nul_free t -> rid_ok p sl ->
  between (enc_str_key s 0 0) (enc_str_key t p sl) (enc_str_key s 2147483647 4294967295)
  <-> t = s.
Proof. exact str_scankey_bracket. Qed.
Print Assumptions str_scankey.

(** Row ids: page in [0, 2^31), slot in the range each packing supports. *)
Theorem rid_pack64_roundtrip : forall p s, rid_ok p s -> unpack64 (pack64 p s) = (p, s).
Proof. exact unpack_pack64. Qed.
Print Assumptions rid_pack64_roundtrip.

Theorem rid_pack8_roundtrip : forall p s, rid_ok p s -> unpack8 (pack8 p s) = (p, s).
Proof. exact unpack_pack8. Qed.
Print Assumptions rid_pack8_roundtrip.

Theorem rid_pack6_roundtrip : forall p s, rid_ok p s -> s < 65536 -> unpack6 (pack6 p s) = (p, s).
Proof. exact unpack_pack6. Qed.
Print Assumptions rid_pack6_roundtrip.

Theorem rid_pack32_roundtrip : forall p s, (0 <= p < 65536)%Z -> s < 65536 ->
  unpack32 (pack32 p s) = (p, s).
Proof. exact unpack_pack32. Qed.
Print Assumptions rid_pack32_roundtrip.

(** B-tree key padding (keys up to [maxlen - 14] bytes). *)
Theorem btree_pad_roundtrip : forall key maxlen k', (14 <= maxlen)%nat -> N.of_nat maxlen < 65536 ->
  fill_zero key maxlen = Some k' -> elim_zero k' = key /\ length k' = maxlen.
Proof. exact elim_fill_zero. Qed.
Print Assumptions btree_pad_roundtrip.

Theorem btree_pad_order : forall s t p1 s1 p2 s2 maxlen a b, nul_free s -> nul_free t ->
  fill_zero (enc_str_key s p1 s1) maxlen = Some a ->
  fill_zero (enc_str_key t p2 s2) maxlen = Some b ->
  lex_cmp a b = lex_cmp (enc_str_key s p1 s1) (enc_str_key t p2 s2).
Proof. exact fill_zero_order. Qed.
Print Assumptions btree_pad_order.

(** Non-vacuity: concrete values meeting the hypotheses. *)
Example c18_nonvacuous :
  int_ok (-2147483648)%Z /\ int_ok 2147483647%Z /\ f_ok 2147483648 (* -0.0 *) /\
  f_ok 4286578688 (* -Inf *) /\ f_ok 1 (* smallest denormal *) /\
  nul_free [1; 255] /\ rid_ok 2147483647 4294967295 /\
  fill_zero (enc_str_key [97; 98] 3 4) 50 <> None.
Proof.
  unfold int_ok, f_ok, rid_ok, nul_free, two32.
  repeat split; try reflexivity; try discriminate; repeat constructor.
Qed.
