(** C04 — a statement sees the latest committed data plus its own transaction's
    earlier writes, or its transaction is aborted.  Row-level part, on
    Model/Engine.v: what the lock protocol guarantees for every row a statement
    actually reads, and - as a machine-checked witness - what it does NOT
    guarantee for rows reached through an index (finding F-IDX-DIRTY).
    Statements only. *)
From Coq Require Import List NArith ZArith Bool Permutation.
From SDB Require Import Base.Assoc Model.Lock Model.SqlRef Model.Engine Proofs.EngineProofs.
Import ListNotations.
Open Scope N_scope.

(** Every rid that occurs in a transaction's write set (inserted, updated,
    deleted, old or new location of a relocation) is X-locked by that
    transaction, in every reachable state. *)
Theorem dirty_rows_x_locked : forall s, ereachable s -> forall t r,
  In r (rids_of (agetl (wsets s) t)) -> holdsX (lk s) t r.
Proof. exact dirty_rows_x_locked_lemma. Qed.
Print Assumptions dirty_rows_x_locked.

(** A read that returns a row returns the current, not delete-marked heap
    content of that rid, and no OTHER transaction has that rid in its write set:
    the row is committed data or the reader's own write. *)
Theorem read_sees_committed_or_own : forall s t rid tp, ereachable s ->
  snd (estep s (OpRead t rid)) = ERow tp ->
  aget (rows s) rid = Some (tp, false) /\
  forall u, u <> t -> ~ In rid (rids_of (agetl (wsets s) u)).
Proof. exact read_sees_committed_or_own_lemma. Qed.
Print Assumptions read_sees_committed_or_own.

(** "When this cannot be ensured the statement's transaction is aborted": a
    read of a rid another transaction has written aborts the reader. *)
Theorem foreign_dirty_read_aborts : forall s t u rid, ereachable s ->
  u <> t -> In rid (rids_of (agetl (wsets s) u)) ->
  snd (estep s (OpRead t rid)) = EAborted.
Proof. exact foreign_dirty_read_aborts_lemma. Qed.
Print Assumptions foreign_dirty_read_aborts.

(** An uncommitted DELETE never hides the row from an index scan: the row is
    still in the heap (delete-marked) and every index still returns its rid for
    its key, so another transaction's scan reaches it and is aborted by
    [foreign_dirty_read_aborts]. *)
Theorem pending_delete_still_indexed : forall s u rid tp c, ereachable s ->
  In (WDel rid tp) (agetl (wsets s) u) -> In c (icols s) ->
  aget (rows s) rid = Some (tp, true) /\ In rid (ilookup s c (ecol c tp)).
Proof. exact pending_delete_still_indexed_lemma. Qed.
Print Assumptions pending_delete_still_indexed.

(** The wanted statement for index scans,
      [index_scan_visits_committed_row]:
      in every reachable state, if transaction u's only pending write is an
      in-place update of rid from [old] to [new], then for every indexed column c
      the lookup of the COMMITTED key [ecol c old] still returns rid
    (so that a reader either sees the committed row or runs into u's X lock),
    is FALSE: the update executor moves the entry to the new key at execution
    time.  Finding F-IDX-DIRTY. *)
Theorem index_scan_misses_committed_row_refuted : ~ index_scan_visits_committed_row.
Proof. exact index_scan_misses_committed_row_refuted_lemma. Qed.
Print Assumptions index_scan_misses_committed_row_refuted.

(** The witness in detail: row 10 is committed with key 5 in column 0;
    transaction 2 updates the key to 7 and has not committed (write set =
    that single update, before-image key 5).  The index on column 0 has no
    entry (5, 10) any more: a lookup of key 5 by transaction 3 visits no rid at
    all - no lock request, no conflict, no abort - and returns nothing, although
    the latest committed data holds a row with key 5; reading rid 10 directly
    would have been refused. *)
Example f_idx_dirty_witness :
  ereachable dirty_witness /\
  agetl (wsets dirty_witness) 2 = [WUpd 10 10 [VInt 5; VInt 1] [VInt 7; VInt 1]] /\
  (let committed := erun [OpInsert 1 10 [VInt 5; VInt 1]; OpCommit 1] (einit [0%nat; 1%nat]) in
   wsets committed = [] /\ ilookup committed 0 (VInt 5) = [10] /\
   heap_rids committed 0 (VInt 5) = [10]) /\
  ilookup dirty_witness 0 (VInt 5) = [] /\
  cnt (VInt 5, 10) (iget (idx dirty_witness) 0) = 0%nat /\
  eouts (map (OpRead 3) (ilookup dirty_witness 0 (VInt 5))) dirty_witness = [] /\
  snd (estep dirty_witness (OpRead 3 10)) = EAborted /\
  (* the non-indexed-key column is unaffected *)
  ilookup dirty_witness 1 (VInt 1) = [10].
Proof.
  split; [exists [0%nat; 1%nat]; eexists; reflexivity|]. vm_compute. repeat split.
Qed.

(** What does hold for index scans: the row is visited when the pending update
    did not change the key of that column. *)
Theorem index_scan_visits_committed_row_partial :
  forall s, ereachable s -> forall u rid old new c,
    agetl (wsets s) u = [WUpd rid rid old new] -> In c (icols s) ->
    ecol c old = ecol c new ->
    In rid (ilookup s c (ecol c old)).
Proof. exact index_scan_visits_committed_row_partial_lemma. Qed.
Print Assumptions index_scan_visits_committed_row_partial.

(** Non-vacuity of the positive statements: 2 has written rows 10 (update) and
    12 (insert); 3 can read the untouched committed row 11 and is aborted on 10;
    2 reads its own writes. *)
Example c04_nonvacuous :
  let s := erun [OpInsert 1 10 [VInt 5]; OpInsert 1 11 [VInt 6]; OpCommit 1;
                 OpUpdate 2 10 [VInt 7]; OpInsert 2 12 [VInt 8]] (einit [0%nat]) in
  rids_of (agetl (wsets s) 2) = [10; 10; 12] /\
  snd (estep s (OpRead 3 11)) = ERow [VInt 6] /\
  snd (estep s (OpRead 3 10)) = EAborted /\
  snd (estep s (OpRead 3 12)) = EAborted /\
  snd (estep s (OpRead 2 10)) = ERow [VInt 7] /\
  snd (estep s (OpRead 2 12)) = ERow [VInt 8].
Proof. vm_compute. repeat split. Qed.
