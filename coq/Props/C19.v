(** C19 — the lockset discipline implies data-race freedom.

    "When several goroutines use the database concurrently, no two of them
    access the same storage-engine memory without synchronisation."

    A data race itself cannot be exhibited by a Gallina model.  What is logic is
    the discipline: if, in a trace of lock and access events that respects the
    sync.RWMutex semantics, every write happens while its goroutine holds the
    location's guard lock exclusively and every read while it holds it at least
    shared, then any two conflicting accesses are ordered by happens-before.
    The correspondence run feeds the recorded event traces (hook H4) to the
    executable checkers [well_formed] and [disciplined].

    Model: Model/Trace.v.  Proofs: Proofs/TraceProofs.v.  Statements hold for
    every guard map, every trace, any number of goroutines, locks and locations. *)
From Coq Require Import List NArith Bool.
From SDB Require Import Model.Trace Proofs.TraceProofs.
Import ListNotations.
Open Scope N_scope.

(** In a well-formed trace accepted by the discipline checker, two accesses to
    the same location by different goroutines, at least one a write, are ordered
    by happens-before (in trace order). *)
Theorem discipline_implies_drf : forall guard tr i j g1 g2 loc a1 a2,
  well_formed tr = true -> disciplined guard tr = true ->
  nth_error tr i = Some (Acc g1 loc a1) -> nth_error tr j = Some (Acc g2 loc a2) ->
  (i < j)%nat -> g1 <> g2 -> (a1 = Write \/ a2 = Write) ->
  hb tr i j.
Proof.
  intros guard tr i j g1 g2 loc a1 a2 Hwf Hd.
  apply (discipline_drf_ordered guard);
    [now apply well_formed_iff | now apply disciplined_iff].
Qed.
Print Assumptions discipline_implies_drf.

(** Hence such a trace has no data race. *)
Theorem discipline_implies_no_data_race : forall guard tr,
  well_formed tr = true -> disciplined guard tr = true ->
  forall i j, ~ data_race tr i j.
Proof.
  intros guard tr Hwf Hd i j.
  apply (discipline_no_race guard); [now apply well_formed_iff | now apply disciplined_iff].
Qed.
Print Assumptions discipline_implies_no_data_race.

(** The boolean checker implies (and is implied by) the Prop-level discipline:
    at every write the goroutine holds the guard exclusively, at every read it
    holds it in some mode. *)
Theorem discipline_checker_sound : forall guard tr,
  disciplined guard tr = true -> disciplinedP guard tr.
Proof. intros guard tr. apply disciplined_iff. Qed.
Print Assumptions discipline_checker_sound.

Theorem discipline_checker_complete : forall guard tr,
  disciplinedP guard tr -> disciplined guard tr = true.
Proof. intros guard tr. apply disciplined_iff. Qed.
Print Assumptions discipline_checker_complete.

(** The same for the lock-semantics checker: every event is legal in the lock
    state it occurs in. *)
Theorem well_formed_checker_sound : forall tr, well_formed tr = true <-> well_formedP tr.
Proof. exact well_formed_iff. Qed.
Print Assumptions well_formed_checker_sound.

(** Happens-before is consistent with the trace order, hence irreflexive and acyclic. *)
Theorem hb_respects_trace_order : forall tr i j, hb tr i j -> (i < j)%nat.
Proof. exact hb_lt. Qed.
Print Assumptions hb_respects_trace_order.

(** In a well-formed trace an exclusive holder excludes every other holder, at
    every position. *)
Theorem exclusive_holder_is_alone : forall tr k g1 g2 l m, well_formed tr = true ->
  In (g1, l, Exclusive) (state_at tr k) -> In (g2, l, m) (state_at tr k) -> g1 = g2.
Proof.
  intros tr k g1 g2 l m Hwf. apply (x_excl_at tr); now apply well_formed_iff.
Qed.
Print Assumptions exclusive_holder_is_alone.

(** * Non-vacuity *)

(** Locations 10..19 are guarded by lock 1, everything else by lock 0. *)
Definition ex_guard (loc : N) : N := if (10 <=? loc) && (loc <? 20) then 1 else 0.

(** Goroutines 1 and 2 read location 10 under shared holds of lock 1 (held at
    the same time), then goroutine 3 writes it under the exclusive hold;
    goroutine 2 meanwhile writes location 5 under lock 0. *)
Definition ex_good : list tevent :=
  [ Acq 1 1 Shared; Acq 2 1 Shared; Acc 1 10 Read; Acc 2 10 Read;
    Acq 2 0 Exclusive; Acc 2 5 Write; Rel 2 0;
    Rel 1 1; Rel 2 1;
    Acq 3 1 Exclusive; Acc 3 10 Write; Acc 3 10 Read; Rel 3 1;
    Acq 1 1 Shared; Acc 1 10 Read; Rel 1 1 ].

Example c19_good_accepted :
  well_formed ex_good = true /\ disciplined ex_guard ex_good = true.
Proof. vm_compute. split; reflexivity. Qed.

(** The theorem applies: the read at position 2 (goroutine 1) and the write at
    position 10 (goroutine 3) are ordered, and so are that write and the later
    read at position 14. *)
Ltac c19_side :=
  solve [ assumption | reflexivity | discriminate | repeat constructor
        | left; reflexivity | right; reflexivity ].

Example c19_good_ordered : hb ex_good 2 10 /\ hb ex_good 3 10 /\ hb ex_good 10 14.
Proof.
  destruct c19_good_accepted as [Hwf Hd].
  repeat split.
  - apply (discipline_implies_drf ex_guard ex_good 2 10 1 3 10 Read Write); c19_side.
  - apply (discipline_implies_drf ex_guard ex_good 3 10 2 3 10 Read Write); c19_side.
  - apply (discipline_implies_drf ex_guard ex_good 10 14 3 1 10 Write Read); c19_side.
Qed.

(** An unguarded write, a write under a shared hold only, and a write under the
    wrong lock are rejected. *)
Example c19_unguarded_write_rejected :
  disciplined ex_guard [ Acq 1 1 Shared; Acc 1 10 Read; Rel 1 1; Acc 2 10 Write ] = false /\
  disciplined ex_guard [ Acq 1 1 Shared; Acc 1 10 Write; Rel 1 1 ] = false /\
  disciplined ex_guard [ Acq 1 0 Exclusive; Acc 1 10 Write; Rel 1 0 ] = false /\
  disciplined ex_guard [ Acq 1 1 Exclusive; Rel 1 1; Acc 1 10 Read ] = false /\
  well_formed [ Acq 1 1 Shared; Acc 1 10 Read; Rel 1 1; Acc 2 10 Write ] = true.
Proof. vm_compute. repeat split; reflexivity. Qed.

(** Traces violating the RWMutex semantics are not well formed: exclusive
    acquire while a reader holds the lock, shared acquire while a writer holds
    it, release by a non-holder. *)
Example c19_ill_formed_rejected :
  well_formed [ Acq 1 1 Shared; Acq 2 1 Exclusive ] = false /\
  well_formed [ Acq 1 1 Exclusive; Acq 2 1 Shared ] = false /\
  well_formed [ Acq 1 1 Exclusive; Rel 2 1 ] = false /\
  well_formed [ Acq 1 1 Shared; Acq 2 1 Shared; Rel 1 1; Rel 2 1; Acq 3 1 Exclusive ] = true.
Proof. vm_compute. repeat split; reflexivity. Qed.
