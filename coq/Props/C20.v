(** C20 — recovery can be interrupted and repeated.  See Props/C01.v for the
    objects.  The full statement (every crash point inside a recovery run, any
    depth) is REFUTED for the faithful model — the undo pass writes no log
    records and does not stamp pages, so a second run undoes again — and the
    witness reproduces on the engine (known finding F-REC-NOCLR).  What is
    proved: any interruption that leaves on disk only pages that are prefix
    states of the log (i.e. any crash before the undo pass has written a page:
    during redo, with any evictions, at any nesting depth) is harmless; redo
    alone is idempotent; a completed start-up (pages flushed, log truncated)
    can be repeated any number of times.  Statements only. *)
From Coq Require Import List NArith Bool Permutation.
From SDB Require Import Base.Assoc Model.Page Model.Wal Proofs.WalProofs.
Import ListNotations.
Open Scope N_scope.

(** Any two crash images of the same durable log — in particular the image left
    by an interrupted recovery whose written pages are all redo results — recover
    to the same tables.  [disk_ok] is preserved by the writes of the redo pass
    ([redo_writes_keep_disk_ok]), so this applies at every nesting depth. *)
Theorem recover_interruptible_partial : forall l disk disk' order order',
  image_wf l disk = true -> disk_ok l disk' = true ->
  Permutation order (losers l) -> Permutation order' (losers l) ->
  forall p s, page_val (recover l order' disk') p s = page_val (recover l order disk) p s.
Proof. exact recover_any_image. Qed.
Print Assumptions recover_interruptible_partial.

Theorem redo_writes_keep_disk_ok : forall l disk written, log_ok l = true -> fresh_pages_ok l [] = true -> disk_ok l disk = true ->
  (forall p pg, In (p, pg) written -> exists k, (k <= length l)%nat /\ pg = get_page (redo (firstn k l) disk) p) ->
  disk_ok l (written ++ disk) = true.
Proof. exact redo_writes_ok. Qed.
Print Assumptions redo_writes_keep_disk_ok.

Theorem redo_idempotent : forall l disk,
  forall p, get_page (redo l (redo l disk)) p = get_page (redo l disk) p.
Proof. exact redo_twice. Qed.
Print Assumptions redo_idempotent.

(** A completed start-up has flushed every page and truncated the log: running
    it again, any number of times, changes nothing. *)
Theorem completed_recovery_repeatable : forall ps n, Nat.iter n (recover [] []) ps = ps.
Proof. exact recover_empty_iter. Qed.
Print Assumptions completed_recovery_repeatable.

(** The full statement fails: recovering the output of a recovery with the same
    log (the state after an interruption between the flush of the undone pages
    and the truncation of the log) applies the undo a second time; the page
    operation fails where the engine panics. *)
Theorem recover_twice_refuted : exists l disk order,
  image_wf l disk = true /\ Permutation order (losers l) /\
  forallb out_ok (recover_outs l order (recover l order disk)) = false.
Proof. exact recover_twice_fails. Qed.
Print Assumptions recover_twice_refuted.

Example c20_nonvacuous :
  let l := [ mkR 0 1 None KBegin; mkR 1 1 (Some 0) (KNewPage 0 5); mkR 2 1 (Some 1) (KInsert 5 0 [1;2;3]);
             mkR 3 1 (Some 2) KCommit; mkR 4 3 None KBegin; mkR 5 3 (Some 4) (KInsert 5 1 [8;8]) ] in
  image_wf l [] = true /\ disk_ok l [(5, mkAP 2 [Some ([1;2;3], false)])] = true /\
  page_val (recover l [3] [(5, mkAP 2 [Some ([1;2;3], false)])]) 5 1 = None.
Proof. vm_compute. repeat split. Qed.
