(** C03 — abort restores the exact pre-transaction state.
    Objects: Model/Engine.v (row-level engine: heap rows, write sets, index
    maintenance timing, commit / abort processing, row locks through
    Model/Lock.v).  [ereachable s]: s is the result of ANY sequence of operations
    of any number of transactions from the empty table with any indexed columns.
    [tx_ops t ops]: every operation of [ops] is a data operation (insert, delete,
    in-place update, relocating update, read) of transaction [t] - the row ids
    are inputs checked for legality by the model.  Statements only. *)
From Coq Require Import List NArith ZArith Bool Permutation.
From SDB Require Import Base.Assoc Model.Lock Model.SqlRef Model.Engine Proofs.EngineProofs.
Import ListNotations.
Open Scope N_scope.

(** After ANY statement sequence of [t] followed by the abort, the heap is the
    same finite map as when [t] began: same rids, same rows, same delete marks.
    This covers the case in which an operation of [ops] was denied a lock (or
    found its row gone) and aborted [t] half-way: the rest of [ops] then runs as
    a fresh incarnation of [t] and is rolled back by the final abort. *)
Theorem abort_restores_rows : forall s t ops, ereachable s ->
  agetl (wsets s) t = [] -> tx_ops t ops ->
  forall r, aget (rows (erun (ops ++ [OpAbort t]) s)) r = aget (rows s) r.
Proof. exact abort_restores_rows_lemma. Qed.
Print Assumptions abort_restores_rows.

(** Every index holds the same multiset of (key, rid) entries as before, so every
    point lookup and range scan gives the same answer. *)
Theorem abort_restores_indexes : forall s t ops, ereachable s ->
  agetl (wsets s) t = [] -> tx_ops t ops ->
  Forall2 (fun a b => fst a = fst b /\ Permutation (snd a) (snd b))
          (idx (erun (ops ++ [OpAbort t]) s)) (idx s).
Proof. exact abort_restores_indexes_lemma. Qed.
Print Assumptions abort_restores_indexes.

(** The abort triggered by a lock conflict (or by a vanished / delete-marked
    row) inside operation [o] restores exactly the same state as the explicit
    abort, and leaves [t] with an empty write set. *)
Theorem conflict_abort_same : forall s t ops o, ereachable s ->
  agetl (wsets s) t = [] -> tx_ops t ops -> eop_txn o = t ->
  snd (estep (erun ops s) o) = EAborted ->
  (forall r, aget (rows (fst (estep (erun ops s) o))) r = aget (rows s) r) /\
  Forall2 (fun a b => fst a = fst b /\ Permutation (snd a) (snd b))
          (idx (fst (estep (erun ops s) o))) (idx s) /\
  agetl (wsets (fst (estep (erun ops s) o))) t = [].
Proof. exact conflict_abort_same_lemma. Qed.
Print Assumptions conflict_abort_same.

(** Throughout any run of [t] (data operations, commit, abort - hence every
    prefix of it) a rid on which [t] never holds an X lock keeps its row and, in
    every index, all its entries. *)
Theorem abort_leaves_others : forall s t ops r, ereachable s ->
  Forall (fun o => eop_txn o = t) ops ->
  (forall n, ~ holdsX (lk (erun (firstn n ops) s)) t r) ->
  aget (rows (erun ops s)) r = aget (rows s) r /\
  Forall2 (fun a b => fst a = fst b /\ forall k, cnt (k, r) (snd a) = cnt (k, r) (snd b))
          (idx (erun ops s)) (idx s).
Proof. exact abort_leaves_others_lemma. Qed.
Print Assumptions abort_leaves_others.

(** Non-vacuity.  Committed rows 10, 11, 12 (columns 0 and 2 indexed); 3 holds an
    S lock on row 12.  Transaction 2: insert, in-place update of an indexed and
    of a non-indexed column, relocating update, second change of the relocated
    row, delete, delete of its own insert. *)
Definition c03_base : estate :=
  erun [OpInsert 1 10 [VInt 5; VInt 1; VStr [97]]; OpInsert 1 11 [VInt 6; VInt 1; VStr [98]];
        OpInsert 1 12 [VInt 7; VInt 2; VStr [99]]; OpCommit 1; OpRead 3 12]
       (einit [0%nat; 2%nat]).

Definition c03_ops : list eop :=
  [OpInsert 2 13 [VInt 8; VInt 8; VStr [100]];
   OpUpdate 2 10 [VInt 50; VInt 1; VStr [97]];
   OpUpdate 2 10 [VInt 50; VInt 9; VStr [97]];
   OpUpdateMove 2 11 14 [VInt 6; VInt 1; VStr [98; 98; 98]];
   OpUpdate 2 14 [VInt 60; VInt 1; VStr [98; 98; 98]];
   OpDelete 2 14; OpDelete 2 13; OpRead 2 13].

Example c03_nonvacuous :
  eouts c03_ops c03_base = [EOk; EOk; EOk; EOk; EOk; EOk; EOk; ESkipped] /\
  length (agetl (wsets (erun c03_ops c03_base)) 2) = 7%nat /\
  ilookup (erun c03_ops c03_base) 0 (VInt 5) = [] /\
  ilookup (erun c03_ops c03_base) 0 (VInt 60) = [14] /\
  rows (erun (c03_ops ++ [OpAbort 2]) c03_base) = rows c03_base /\
  ilookup (erun (c03_ops ++ [OpAbort 2]) c03_base) 0 (VInt 5) = [10] /\
  ilookup (erun (c03_ops ++ [OpAbort 2]) c03_base) 0 (VInt 60) = [] /\
  ilookup (erun (c03_ops ++ [OpAbort 2]) c03_base) 2 (VStr [98]) = [11].
Proof. vm_compute. repeat split. Qed.

(** ... and the conflict case: the delete of row 12 (S-locked by 3) is denied,
    which aborts 2 and restores the same state. *)
Example c03_conflict_nonvacuous :
  snd (estep (erun c03_ops c03_base) (OpDelete 2 12)) = EAborted /\
  rows (fst (estep (erun c03_ops c03_base) (OpDelete 2 12))) = rows c03_base /\
  ilookup (fst (estep (erun c03_ops c03_base) (OpDelete 2 12))) 0 (VInt 5) = [10].
Proof. vm_compute. repeat split. Qed.
