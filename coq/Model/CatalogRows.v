(** M11r — catalog persistence: how a table's identity and schema are written to
    the two catalog heaps and read back at a restart.
    Mirrors lib/catalog/table_catalog.go (BootstrapCatalog, CreateTable,
    insertTable, RecoveryCatalogFromCatalogPage, GetTableByName, GetTableByOID),
    lib/catalog/table_metadata.go (NewTableMetadata: which index kinds get their
    header page id from the index constructor), lib/catalog/schemas.go,
    lib/storage/table/column/column.go (NewColumn: lower-casing, lengths by
    type), lib/storage/table/schema/schema.go (NewSchema: column offsets),
    lib/planner/simple_planner.go (MakeCreateTablePlan: the "already exists"
    test of the SQL path) and the row placement of
    lib/storage/access/table_heap.go InsertTuple / table_page.go InsertTuple.

    The catalog is TWO heaps:
      table catalog   (first page 0): one row (oid, name, first_page) per table;
      columns catalog (first page 1): one row per column
        (table_oid, type, name, fixed_length, variable_length, offset,
         has_index, index_kind, index_header_page_id).
    A heap is its chain of pages; a page is the list of its rows in slot order
    (catalog rows are never deleted or updated, so slots are filled in order).
    [InsertTuple] starts at the page remembered in [lastPageID] (NOT persisted:
    it is the first page again after a restart), walks the chain to the first
    page with [size + 8] free bytes and appends a page when there is none.  So
    the heap order of the rows is NOT the creation order once a heap has more
    than one page and a restart has happened.  A heap is kept here as the pages
    before the remembered page and the pages from it on.

    Reload: for every row of the table catalog, in heap order, ALL rows of the
    columns catalog are scanned in heap order and those with the same table oid
    become the columns, in that order; offsets are recomputed by NewSchema;
    column names go through NewColumn's lower-casing again.  Both maps
    (oid -> table, name -> table) are filled in that order: the LAST row wins.
    The in-memory catalog is the list of tables in the order the maps were
    assigned; a lookup returns the last match.

    Names are byte strings; [cr_lower] is strings.ToLower on ASCII (names with
    bytes >= 128 are outside the model).  Integers of a row are int32 values
    (Z); table oids, lengths and offsets are uint32 (N) and are assumed below
    2^31 (int32(uint32) conversions are the identity there).
    Inputs that the engine decides: the first page of the new table's heap and,
    for hash and B-tree indexes, the header page the index constructor reports
    ([cs_newhdr]); skip-list indexes leave the header page id that was passed to
    NewColumn ([cs_hdr], -1 on the SQL path).  On a clean restart the hash and
    B-tree constructors are given the stored header page and report it back
    (checked by the correspondence run), so reload keeps [cc_hdr].
    A row larger than an empty page (names of about 4000 bytes) makes the real
    InsertTuple allocate pages forever; the model places it on the new page.
    Model only: no proofs in this file. *)
From Coq Require Import List NArith ZArith Bool.
From SDB Require Import Params.
Import ListNotations.
Open Scope N_scope.

(** * Names *)

Definition cr_lower_byte (b : N) : N := if (65 <=? b) && (b <=? 90) then b + 32 else b.
Definition cr_lower (s : list N) : list N := map cr_lower_byte s.
Definition cr_dot : N := 46.
Definition cr_has_dot (s : list N) : bool := existsb (N.eqb cr_dot) s.

Fixpoint cr_bytes_eqb (a b : list N) : bool :=
  match a, b with
  | [], [] => true
  | x :: a', y :: b' => (x =? y) && cr_bytes_eqb a' b'
  | _, _ => false
  end.

(** attachTableNameToColumnsName: a column name without '.' gets "<table>." in front *)
Definition cr_attach (tname cname : list N) : list N :=
  if cr_has_dot cname then cname else tname ++ cr_dot :: cname.

(** * Columns and tables *)

(** types.TypeID: 1 Boolean, 4 Integer, 7 Float, 8 Varchar.  NewColumn: fixed / variable length *)
Definition cr_fixed_len (ty : Z) : N :=
  match ty with
  | 4%Z | 7%Z => 5
  | 1%Z => 2
  | 8%Z => 4
  | _ => 0
  end.
Definition cr_var_len (ty : Z) : N := match ty with 8%Z => 255 | _ => 0 end.

(** what the caller of CreateTable passes for a column (NewColumn's arguments), plus the
    header page the hash / B-tree index constructor reports (engine input) *)
Record cr_colspec := mkCrSpec {
  cs_name : list N; cs_type : Z; cs_hasidx : bool; cs_kind : Z; cs_hdr : Z; cs_newhdr : Z }.

Record cr_col := mkCrCol {
  cc_name : list N; cc_type : Z; cc_fixed : N; cc_var : N; cc_off : N;
  cc_hasidx : bool; cc_kind : Z; cc_hdr : Z }.

Record cr_tab := mkCrTab { ct_oid : N; ct_name : list N; ct_first : Z; ct_cols : list cr_col }.

(** index kinds: 0 invalid, 1 unique skip list, 2 skip list, 3 hash, 4 B-tree.
    NewTableMetadata panics ("illegal index kind!") on an indexed column of another kind. *)
Definition cr_idx_legal (s : cr_colspec) : bool :=
  negb (cs_hasidx s) || ((1 <=? cs_kind s)%Z && (cs_kind s <=? 4)%Z).

(** header page id of the column after NewTableMetadata *)
Definition cr_col_hdr (s : cr_colspec) : Z :=
  if cs_hasidx s && ((cs_kind s =? 3)%Z || (cs_kind s =? 4)%Z) then cs_newhdr s else cs_hdr s.

(** NewColumn + NewSchema (offsets) + attachTableNameToColumnsName + NewTableMetadata *)
Fixpoint cr_mk_cols (tname : list N) (off : N) (specs : list cr_colspec) : list cr_col :=
  match specs with
  | [] => []
  | s :: r =>
      mkCrCol (cr_attach tname (cr_lower (cs_name s))) (cs_type s)
              (cr_fixed_len (cs_type s)) (cr_var_len (cs_type s)) off
              (cs_hasidx s) (cs_kind s) (cr_col_hdr s)
      :: cr_mk_cols tname (off + cr_fixed_len (cs_type s)) r
  end.

Definition cr_mk_tab (oid : N) (name : list N) (specs : list cr_colspec) (first : Z) : cr_tab :=
  mkCrTab oid (cr_lower name) first (cr_mk_cols (cr_lower name) 0 specs).

(** * Catalog rows *)

Record cr_trow := mkCrTRow { tr_oid : Z; tr_name : list N; tr_first : Z }.
Record cr_crow := mkCrCRow {
  cw_oid : Z; cw_type : Z; cw_name : list N; cw_fixed : Z; cw_var : Z; cw_off : Z;
  cw_hasidx : Z; cw_kind : Z; cw_hdr : Z }.

(** tuple.Size(): 5 bytes per integer, 4 + (1 + 2 + length) per varchar *)
Definition cr_trow_size (r : cr_trow) : N := 17 + N.of_nat (length (tr_name r)).
Definition cr_crow_size (r : cr_crow) : N := 47 + N.of_nat (length (cw_name r)).

(** insertTable *)
Definition cr_trow_of (t : cr_tab) : cr_trow := mkCrTRow (Z.of_N (ct_oid t)) (ct_name t) (ct_first t).
Definition cr_crow_of (oid : N) (c : cr_col) : cr_crow :=
  mkCrCRow (Z.of_N oid) (cc_type c) (cc_name c) (Z.of_N (cc_fixed c)) (Z.of_N (cc_var c))
           (Z.of_N (cc_off c)) (if cc_hasidx c then 1%Z else 0%Z) (cc_kind c) (cc_hdr c).
Definition cr_crows_of (t : cr_tab) : list cr_crow := map (cr_crow_of (ct_oid t)) (ct_cols t).

(** the rows written for a list of tables when nothing reorders them (one-page heaps, or no restart) *)
Definition cr_persist_t (tabs : list cr_tab) : list cr_trow := map cr_trow_of tabs.
Definition cr_persist_c (tabs : list cr_tab) : list cr_crow := flat_map cr_crows_of tabs.

(** * Reload (RecoveryCatalogFromCatalogPage) *)

(** Int32toBool: only 1 is true *)
Definition cr_col_of_row (w : cr_crow) (off : N) : cr_col :=
  mkCrCol (cr_lower (cw_name w)) (cw_type w) (Z.to_N (cw_fixed w)) (Z.to_N (cw_var w)) off
          (cw_hasidx w =? 1)%Z (cw_kind w) (cw_hdr w).

(** schema.NewSchema: offsets are the running sums of the fixed lengths *)
Fixpoint cr_cols_of_rows (off : N) (ws : list cr_crow) : list cr_col :=
  match ws with
  | [] => []
  | w :: r => cr_col_of_row w off :: cr_cols_of_rows (off + Z.to_N (cw_fixed w)) r
  end.

(** the inner loop: every row of the columns catalog with this table oid, in heap order *)
Definition cr_rows_for (oid : Z) (crows : list cr_crow) : list cr_crow :=
  filter (fun w => (cw_oid w =? oid)%Z) crows.

Definition cr_tab_of_row (crows : list cr_crow) (tr : cr_trow) : cr_tab :=
  mkCrTab (Z.to_N (tr_oid tr)) (tr_name tr) (tr_first tr)
          (cr_cols_of_rows 0 (cr_rows_for (tr_oid tr) crows)).

(** the outer loop: one table per row of the table catalog, in heap order *)
Definition cr_reload (trows : list cr_trow) (crows : list cr_crow) : list cr_tab :=
  map (cr_tab_of_row crows) trows.

(** numbering continues after the largest oid loaded (at least 1) *)
Definition cr_next_of (tabs : list cr_tab) : N :=
  fold_right (fun t m => N.max (ct_oid t + 1) m) 1 tabs.

(** * Heaps: row placement *)

Record cr_heap (A : Type) := mkCrHeap {
  ch_before : list (list A);   (* pages before the remembered page *)
  ch_after : list (list A)     (* the remembered page (lastPageID) and the pages after it *)
}.
Arguments mkCrHeap {A}.
Arguments ch_before {A}.
Arguments ch_after {A}.

Definition cr_pages {A} (h : cr_heap A) : list (list A) := ch_before h ++ ch_after h.
(** heap order: what an iterator from the first page sees *)
Definition cr_flat {A} (h : cr_heap A) : list A := concat (cr_pages h).

(** bytes in use on a page: header, and per row its bytes and an 8-byte slot *)
Definition cr_page_used {A} (sz : A -> N) (p : list A) : N :=
  fold_right (fun r acc => sz r + size_tuple + acc) size_table_page_header p.
(** TablePage.InsertTuple accepts iff getFreeSpaceRemaining() >= tuple.Size() + sizeTuple *)
Definition cr_fits {A} (sz : A -> N) (p : list A) (r : A) : bool :=
  sz r + size_tuple <=? page_size - cr_page_used sz p.

(** the loop of TableHeap.InsertTuple from the remembered page: (pages walked over, pages from the chosen one on) *)
Fixpoint cr_walk {A} (sz : A -> N) (r : A) (after : list (list A)) : list (list A) * list (list A) :=
  match after with
  | [] => ([], [[r]])
  | p :: rest =>
      if cr_fits sz p r then ([], (p ++ [r]) :: rest)
      else let '(b, a) := cr_walk sz r rest in (p :: b, a)
  end.

Definition cr_hinsert {A} (sz : A -> N) (h : cr_heap A) (r : A) : cr_heap A :=
  let '(b, a) := cr_walk sz r (ch_after h) in mkCrHeap (ch_before h ++ b) a.

(** InitTableHeap at a restart: lastPageID = firstPageID *)
Definition cr_hrestart {A} (h : cr_heap A) : cr_heap A := mkCrHeap [] (cr_pages h).
(** NewTableHeap: one empty page *)
Definition cr_hnew {A} : cr_heap A := mkCrHeap [] [[]].

(** * The catalog *)

Record cr_state := mkCrState {
  cr_next : N;                  (* nextTableID *)
  cr_mem : list cr_tab;         (* tableIDs / tableNames, in assignment order *)
  cr_theap : cr_heap cr_trow;   (* heap of page 0 *)
  cr_cheap : cr_heap cr_crow    (* heap of page 1 *)
}.

(** Go map semantics: the last assignment under a key is the one found *)
Fixpoint cr_find_last {A} (f : A -> bool) (l : list A) : option A :=
  match l with
  | [] => None
  | x :: r =>
      match cr_find_last f r with
      | Some y => Some y
      | None => if f x then Some x else None
      end
  end.

(** GetTableByOID *)
Definition cr_lookup_oid (st : cr_state) (o : N) : option cr_tab :=
  cr_find_last (fun t => ct_oid t =? o) (cr_mem st).
(** GetTableByName: the argument is lower-cased first *)
Definition cr_lookup_name (st : cr_state) (n : list N) : option cr_tab :=
  cr_find_last (fun t => cr_bytes_eqb (ct_name t) (cr_lower n)) (cr_mem st).

(** Catalog.CreateTable.  An illegal index kind panics inside NewTableMetadata: the oid is
    consumed (and a heap page allocated), nothing is registered or written. *)
Definition cr_create (st : cr_state) (name : list N) (specs : list cr_colspec) (first : Z) : cr_state :=
  let oid := cr_next st in
  if forallb cr_idx_legal specs then
    let t := cr_mk_tab oid name specs first in
    mkCrState (oid + 1) (cr_mem st ++ [t])
              (cr_hinsert cr_trow_size (cr_theap st) (cr_trow_of t))
              (fold_left (cr_hinsert cr_crow_size) (cr_crows_of t) (cr_cheap st))
  else mkCrState (oid + 1) (cr_mem st) (cr_theap st) (cr_cheap st).

(** clean Shutdown + NewSamehadaDB on the existing files *)
Definition cr_restart (st : cr_state) : cr_state :=
  let tabs := cr_reload (cr_flat (cr_theap st)) (cr_flat (cr_cheap st)) in
  mkCrState (cr_next_of tabs) tabs (cr_hrestart (cr_theap st)) (cr_hrestart (cr_cheap st)).

(** [CrCreate true ..]: CREATE TABLE through SQL (refused when GetTableByName finds the name);
    [CrCreate false ..]: Catalog.CreateTable called directly (no such test). *)
Inductive cr_op :=
| CrCreate (sql : bool) (name : list N) (specs : list cr_colspec) (first : Z)
| CrRestart.

Definition cr_is_some {A} (o : option A) : bool := match o with Some _ => true | None => false end.

Definition cr_refused (st : cr_state) (sql : bool) (name : list N) : bool :=
  sql && cr_is_some (cr_lookup_name st name).

Definition cr_step (st : cr_state) (o : cr_op) : cr_state :=
  match o with
  | CrCreate sql name specs first =>
      if cr_refused st sql name then st else cr_create st name specs first
  | CrRestart => cr_restart st
  end.

(** BootstrapCatalog: table 0 "columns_catalog" (ColumnsCatalogSchema) on page 1 *)
Definition cr_n_columns_catalog : list N := [99; 111; 108; 117; 109; 110; 115; 95; 99; 97; 116; 97; 108; 111; 103].
Definition cr_boot_specs : list cr_colspec :=
  map (fun p => mkCrSpec (fst p) (snd p) false 0%Z (-1)%Z (-1)%Z)
    [ ([116; 97; 98; 108; 101; 95; 111; 105; 100], 4%Z);                                   (* table_oid *)
      ([116; 121; 112; 101], 4%Z);                                                          (* type *)
      ([110; 97; 109; 101], 8%Z);                                                           (* name *)
      ([102; 105; 120; 101; 100; 95; 108; 101; 110; 103; 116; 104], 4%Z);                   (* fixed_length *)
      ([118; 97; 114; 105; 97; 98; 108; 101; 95; 108; 101; 110; 103; 116; 104], 4%Z);       (* variable_length *)
      ([111; 102; 102; 115; 101; 116], 4%Z);                                                (* offset *)
      ([104; 97; 115; 95; 105; 110; 100; 101; 120], 4%Z);                                   (* has_index *)
      ([105; 110; 100; 101; 120; 95; 107; 105; 110; 100], 4%Z);                             (* index_kind *)
      ([105; 110; 100; 101; 120; 95; 104; 101; 97; 100; 101; 114; 95; 112; 97; 103; 101; 95; 105; 100], 4%Z) ].  (* index_header_page_id *)

Definition cr_boot : cr_state :=
  cr_create (mkCrState 0 [] cr_hnew cr_hnew) cr_n_columns_catalog cr_boot_specs 1%Z.

Definition cr_run_from (st : cr_state) (ops : list cr_op) : cr_state := fold_left cr_step ops st.
Definition cr_run (ops : list cr_op) : cr_state := cr_run_from cr_boot ops.

(** SQL only: every create goes through the planner's test *)
Definition cr_op_sql (o : cr_op) : bool := match o with CrCreate sql _ _ _ => sql | CrRestart => true end.

(** * Guards (boolean) *)

Fixpoint cr_nodup_n (l : list N) : bool :=
  match l with [] => true | x :: r => negb (existsb (N.eqb x) r) && cr_nodup_n r end.
Fixpoint cr_nodup_names (l : list (list N)) : bool :=
  match l with [] => true | x :: r => negb (existsb (cr_bytes_eqb x) r) && cr_nodup_names r end.

(** offsets are the running sums of the fixed lengths *)
Fixpoint cr_offsets_ok (off : N) (cs : list cr_col) : bool :=
  match cs with
  | [] => true
  | c :: r => (cc_off c =? off) && cr_offsets_ok (off + cc_fixed c) r
  end.
(** what [cr_reload] needs of one table to give it back unchanged *)
Definition cr_tab_wf (t : cr_tab) : bool :=
  forallb (fun c => cr_bytes_eqb (cr_lower (cc_name c)) (cc_name c)) (ct_cols t)
  && cr_offsets_ok 0 (ct_cols t).
(** what [cr_reload] needs of a list of tables: distinct oids, well-formed tables *)
Definition cr_tabs_wf (tabs : list cr_tab) : bool :=
  cr_nodup_n (map ct_oid tabs) && forallb cr_tab_wf tabs.

(** no two tables under one name *)
Definition cr_names_distinct (st : cr_state) : bool := cr_nodup_names (map ct_name (cr_mem st)).

(** every row of a create fits into an empty page.  When this is false the real InsertTuple never
    returns (it allocates and links pages forever: finding F-ROW-TOO-LARGE, here reached by
    CREATE TABLE with a table name of 4048 bytes or more, or table + column name of 4017 or more);
    the model places the row on the new page. *)
Definition cr_row_fits_empty {A} (sz : A -> N) (r : A) : bool :=
  sz r + size_tuple <=? page_size - size_table_page_header.
Definition cr_create_fits (name : list N) (specs : list cr_colspec) : bool :=
  let t := cr_mk_tab 0 name specs 0%Z in
  cr_row_fits_empty cr_trow_size (cr_trow_of t) && forallb (cr_row_fits_empty cr_crow_size) (cr_crows_of t).

(** * What the engine is given as inputs, for the storage statement *)

(** pages a table occupies by itself: its first heap page and the header pages of its hash / B-tree indexes *)
Definition cr_col_pages (c : cr_col) : list Z :=
  if cc_hasidx c && ((cc_kind c =? 3)%Z || (cc_kind c =? 4)%Z) then [cc_hdr c] else [].
Definition cr_tab_pages (t : cr_tab) : list Z := ct_first t :: flat_map cr_col_pages (ct_cols t).
Definition cr_state_pages (st : cr_state) : list Z := flat_map cr_tab_pages (cr_mem st).

Definition cr_spec_pages (s : cr_colspec) : list Z :=
  if cs_hasidx s && ((cs_kind s =? 3)%Z || (cs_kind s =? 4)%Z) then [cs_newhdr s] else [].
(** pages the pool handed out to the creates of a history (refused and panicking creates register none) *)
Fixpoint cr_ops_pages (st : cr_state) (ops : list cr_op) : list Z :=
  match ops with
  | [] => []
  | o :: r =>
      match o with
      | CrCreate sql name specs first =>
          if cr_refused st sql name || negb (forallb cr_idx_legal specs) then cr_ops_pages (cr_step st o) r
          else (first :: flat_map cr_spec_pages specs) ++ cr_ops_pages (cr_step st o) r
      | CrRestart => cr_ops_pages (cr_step st o) r
      end
  end.

(** * Dump helpers for the driver *)

(** rows with their position "<page index>.<slot>" *)
Fixpoint cr_number_slots {A} (pg : N) (sl : N) (p : list A) : list (N * N * A) :=
  match p with [] => [] | r :: p' => (pg, sl, r) :: cr_number_slots pg (sl + 1) p' end.
Fixpoint cr_number_pages {A} (pg : N) (ps : list (list A)) : list (N * N * A) :=
  match ps with [] => [] | p :: ps' => cr_number_slots pg 0 p ++ cr_number_pages (pg + 1) ps' end.
Definition cr_dump {A} (h : cr_heap A) : list (N * N * A) := cr_number_pages 0 (cr_pages h).

(** the keys of the two maps *)
Fixpoint cr_dedup_n (l : list N) : list N :=
  match l with [] => [] | x :: r => if existsb (N.eqb x) r then cr_dedup_n r else x :: cr_dedup_n r end.
Fixpoint cr_dedup_names (l : list (list N)) : list (list N) :=
  match l with [] => [] | x :: r => if existsb (cr_bytes_eqb x) r then cr_dedup_names r else x :: cr_dedup_names r end.
Definition cr_oids (st : cr_state) : list N := cr_dedup_n (map ct_oid (cr_mem st)).
Definition cr_names (st : cr_state) : list (list N) := cr_dedup_names (map ct_name (cr_mem st)).
