(** M12 — executable model of the request queue behind the SQL entry point.
    Mirrors lib/samehada/request_manager.go (AppendRequest, Run,
    executeQuedTxns, handleAbortedByCCTxn) together with the two ends in
    lib/samehada/samehada.go: ExecuteSQL (the caller: AppendRequest, then
    [<-*ch]) and ExecuteSQLForTxnTh (the worker goroutine: runs the statement
    and sends the result, or the QueryAbortedErr marker, into [inCh]).

    Identities.  AppendRequest creates, under the mutex, a queryRequest with a
    fresh reqID and a fresh unbuffered reply channel; the worker copies both
    from the queryRequest into the reqResult and the run loop replies on
    [recvVal.callerCh].  One number therefore identifies the request, its
    caller and its reply channel.

    Granularity.  One label = one atomic action of one goroutine:
      Enqueue id        AppendRequest from Lock to Unlock (queue append);
      SendToken id      AppendRequest's [*inCh <- nil] (blocks when the
                        buffered channel holds [cap] messages), after which
                        the caller sits in [<-*ch];
      LoopRecv          Run: [recvVal := <-*inCh] and, for a result, the
                        critical section that decrements curExectingReqNum
                        and (QueryAbortedErr) puts the request back at the
                        HEAD of the queue.  Receive and decrement are one
                        step: nobody but the loop reads the counter;
      Deliver id        Run: [*recvVal.callerCh <- recvVal].  The reply channel
                        is created by AppendRequest with capacity [rcap]
                        (Params.reply_chan_capacity; 1 since the fix of
                        F-REQ-DEADLOCK, 0 = unbuffered before it).  With
                        [rcap = 0] this is a rendezvous and needs the caller
                        in [<-*ch]; with [rcap >= 1] the send never blocks
                        (one reply per request): a waiting caller receives
                        at once (its local receive is merged into this
                        step), a caller that has not yet sent its token
                        finds the reply in its channel afterwards;
      Dispatch          Run: the final critical section of the iteration: at
                        most ONE request leaves the queue per received
                        message, and only if fewer than [maxw] are in flight;
      WorkerFinish id o ExecuteSQLForTxnTh's [*ch <- &reqResult{..}] (blocks
                        when the channel is full).  [Ok] stands for every
                        final answer (rows or a non-retryable error),
                        [Aborted] for QueryAbortedErr.
    StopTh/isExecutionActive (shutdown) is not modelled.
    The capacity of [inCh] (100), MaxTxnThreadNum (24) and the capacity of the
    reply channels (1) are fields of the state so that small instances and the
    pre-fix behaviour can be evaluated; [rinit_real] uses the real values, all
    three generated from the Go sources into Params.v.
    Model only: no proofs here. *)
From Coq Require Import List NArith Bool.
From SDB Require Import Params Base.Assoc.
Import ListNotations.
Open Scope N_scope.

Inductive outcome := Ok | Aborted.

(** Contents of [inCh]: nil wake-up tokens and worker results share it. *)
Inductive msg := Token | Result (id : N) (o : outcome).

(** A caller of ExecuteSQL.  [CDone r o]: it received the reqResult of
    request [r] carrying outcome [o].  (Named CDone because the lock model
    already owns the constructor name Done in the extracted module.) *)
Inductive cstate :=
| Enqueued_not_signalled            (* between Unlock and [*inCh <- nil] *)
| Waiting                           (* blocked in [<-*ch]                *)
| Replied_not_signalled (r : N) (o : outcome)
                                    (* still before the token send, the reply
                                       already sits in its buffered channel *)
| CDone (r : N) (o : outcome).

(** The run loop. *)
Inductive loopst :=
| Idle                              (* at [<-*inCh]                      *)
| Delivering (id : N) (o : outcome) (* blocked in [*callerCh <- recvVal] *)
| Dispatching.                      (* before the final critical section *)

Record rstate := mkR {
  cap      : N;                     (* capacity of inCh                  *)
  maxw     : N;                     (* common.MaxTxnThreadNum            *)
  rcap     : N;                     (* capacity of each reply channel    *)
  queue    : list N;                (* execQue                           *)
  inflight : N;                     (* curExectingReqNum                 *)
  chan     : list msg;              (* inCh, head = next to be received  *)
  callers  : list (N * cstate);
  loop     : loopst;
  workers  : list N;                (* running ExecuteSQLForTxnTh        *)
  replied  : list N;                (* ghost: one entry per received reply *)
  effects  : list N                 (* ghost: one entry per committed run*)
}.

Definition rinit (c m r : N) : rstate := mkR c m r [] 0 [] [] Idle [] [] [].
Definition chan_capacity : N := req_chan_capacity.
Definition rinit_real : rstate :=
  rinit req_chan_capacity max_txn_thread_num reply_chan_capacity.

Inductive label :=
| Enqueue (id : N)
| SendToken (id : N)
| LoopRecv
| Deliver (id : N)
| Dispatch
| WorkerFinish (id : N) (o : outcome).

Definition chan_full (s : rstate) : bool := cap s <=? N.of_nat (length (chan s)).

(** Go's [curExectingReqNum--] on a uint64; the accounting invariant shows it
    is never applied to 0, so the saturation of [N.pred] is never observed. *)
Definition dec (n : N) : N := N.pred n.

Definition rstep (s : rstate) (l : label) : option rstate :=
  match l with
  | Enqueue id =>
      match aget (callers s) id with
      | Some _ => None              (* the reply channel is fresh *)
      | None =>
          Some (mkR (cap s) (maxw s) (rcap s) (queue s ++ [id]) (inflight s) (chan s)
                    ((id, Enqueued_not_signalled) :: callers s) (loop s) (workers s)
                    (replied s) (effects s))
      end
  | SendToken id =>
      match aget (callers s) id with
      | Some Enqueued_not_signalled =>
          if chan_full s then None
          else Some (mkR (cap s) (maxw s) (rcap s) (queue s) (inflight s) (chan s ++ [Token])
                         (aset (callers s) id Waiting) (loop s) (workers s)
                         (replied s) (effects s))
      | Some (Replied_not_signalled r o) =>
          (* token sent, then [<-*ch] finds the buffered reply *)
          if chan_full s then None
          else Some (mkR (cap s) (maxw s) (rcap s) (queue s) (inflight s) (chan s ++ [Token])
                         (aset (callers s) id (CDone r o)) (loop s) (workers s)
                         (id :: replied s) (effects s))
      | _ => None
      end
  | LoopRecv =>
      match loop s, chan s with
      | Idle, Token :: rest =>
          Some (mkR (cap s) (maxw s) (rcap s) (queue s) (inflight s) rest
                    (callers s) Dispatching (workers s) (replied s) (effects s))
      | Idle, Result id Aborted :: rest =>
          Some (mkR (cap s) (maxw s) (rcap s) (id :: queue s) (dec (inflight s)) rest
                    (callers s) Dispatching (workers s) (replied s) (effects s))
      | Idle, Result id Ok :: rest =>
          Some (mkR (cap s) (maxw s) (rcap s) (queue s) (dec (inflight s)) rest
                    (callers s) (Delivering id Ok) (workers s) (replied s) (effects s))
      | _, _ => None
      end
  | Deliver id =>
      match loop s with
      | Delivering id' o =>
          if id' =? id then
            match aget (callers s) id with
            | Some Waiting =>
                Some (mkR (cap s) (maxw s) (rcap s) (queue s) (inflight s) (chan s)
                          (aset (callers s) id (CDone id' o)) Dispatching (workers s)
                          (id :: replied s) (effects s))
            | Some Enqueued_not_signalled =>
                if rcap s =? 0 then None   (* unbuffered: the loop blocks *)
                else
                  Some (mkR (cap s) (maxw s) (rcap s) (queue s) (inflight s) (chan s)
                            (aset (callers s) id (Replied_not_signalled id' o)) Dispatching
                            (workers s) (replied s) (effects s))
            | _ => None
            end
          else None
      | _ => None
      end
  | Dispatch =>
      match loop s with
      | Dispatching =>
          match queue s with
          | h :: t =>
              if inflight s <? maxw s then
                Some (mkR (cap s) (maxw s) (rcap s) t (inflight s + 1) (chan s)
                          (callers s) Idle (h :: workers s) (replied s) (effects s))
              else
                Some (mkR (cap s) (maxw s) (rcap s) (queue s) (inflight s) (chan s)
                          (callers s) Idle (workers s) (replied s) (effects s))
          | [] =>
              Some (mkR (cap s) (maxw s) (rcap s) (queue s) (inflight s) (chan s)
                        (callers s) Idle (workers s) (replied s) (effects s))
          end
      | _ => None
      end
  | WorkerFinish id o =>
      if memN id (workers s) then
        if chan_full s then None
        else Some (mkR (cap s) (maxw s) (rcap s) (queue s) (inflight s) (chan s ++ [Result id o])
                       (callers s) (loop s) (remove1 id (workers s)) (replied s)
                       (match o with Ok => id :: effects s | Aborted => effects s end))
      else None
  end.

Fixpoint rrun (ls : list label) (s : rstate) : option rstate :=
  match ls with
  | [] => Some s
  | l :: r => match rstep s l with Some s' => rrun r s' | None => None end
  end.

(** A caller that still has to send its wake-up token. *)
Definition owes (c : cstate) : bool :=
  match c with Enqueued_not_signalled | Replied_not_signalled _ _ => true | _ => false end.

(** Callers that are between the unlock and the token send. *)
Definition ens_ids (cs : list (N * cstate)) : list N :=
  filter (fun id => match aget cs id with Some c => owes c | None => false end)
         (map fst cs).

(** Every enabled label except the [Enqueue]s (new callers come from the
    environment). *)
Definition enabled (s : rstate) : list label :=
  (if chan_full s then [] else map SendToken (ens_ids (callers s)))
  ++ match loop s, chan s with Idle, _ :: _ => [LoopRecv] | _, _ => [] end
  ++ match loop s with
     | Delivering id _ =>
         match aget (callers s) id with
         | Some Waiting => [Deliver id]
         | Some Enqueued_not_signalled => if rcap s =? 0 then [] else [Deliver id]
         | _ => []
         end
     | _ => []
     end
  ++ match loop s with Dispatching => [Dispatch] | _ => [] end
  ++ (if chan_full s then []
      else flat_map (fun id => [WorkerFinish id Ok; WorkerFinish id Aborted]) (workers s)).

(** Potential used for the termination argument (C12 liveness): every label
    other than [Enqueue] and [WorkerFinish _ Aborted] lowers it. *)
Definition msg_weight (m : msg) : nat :=
  match m with Token => 2 | Result _ Ok => 3 | Result _ Aborted => 7 end.
Definition caller_weight (c : cstate) : nat :=
  match c with Enqueued_not_signalled | Replied_not_signalled _ _ => 3 | _ => 0 end.
Definition loop_weight (l : loopst) : nat :=
  match l with Idle => 0 | Dispatching => 1 | Delivering _ _ => 2 end.
Definition potential (s : rstate) : nat :=
  5 * length (queue s) + 4 * length (workers s)
  + list_sum (map msg_weight (chan s))
  + list_sum (map (fun p => caller_weight (snd p)) (callers s))
  + loop_weight (loop s).

(** Observation functions used in the statements of C12. *)
Fixpoint count {A : Type} (p : A -> bool) (l : list A) : nat :=
  match l with
  | [] => O
  | x :: r => ((if p x then 1 else 0) + count p r)%nat
  end.

Definition is_token (m : msg) : bool := match m with Token => true | _ => false end.
Definition is_result (m : msg) : bool := match m with Result _ _ => true | _ => false end.
Definition is_result_of (id : N) (m : msg) : bool :=
  match m with Result i _ => i =? id | Token => false end.
Definition is_ok_result_of (id : N) (m : msg) : bool :=
  match m with Result i Ok => i =? id | _ => false end.
Definition occ (id : N) (l : list N) : nat := count (fun x => x =? id) l.
(** The answer a caller has been given (received, or waiting in its channel). *)
Definition answer_of (c : cstate) : option (N * outcome) :=
  match c with CDone r o | Replied_not_signalled r o => Some (r, o) | _ => None end.
Definition is_owing (p : N * cstate) : bool := owes (snd p).
Definition is_answered (p : N * cstate) : bool :=
  match answer_of (snd p) with Some _ => true | None => false end.
Definition is_done (p : N * cstate) : bool :=
  match snd p with CDone _ _ => true | _ => false end.
Definition delivering_to (l : loopst) (id : N) : nat :=
  match l with Delivering i _ => if i =? id then 1%nat else O | _ => O end.
Definition delivering (l : loopst) : nat :=
  match l with Delivering _ _ => 1%nat | _ => O end.
Definition busy (l : loopst) : nat := match l with Idle => O | _ => 1%nat end.
Definition done_at (cs : list (N * cstate)) (id : N) : nat :=
  match aget cs id with Some (CDone _ _) => 1%nat | _ => O end.
Definition answered_at (cs : list (N * cstate)) (id : N) : nat :=
  match aget cs id with
  | Some c => match answer_of c with Some _ => 1%nat | None => O end
  | None => O
  end.
Definition known (cs : list (N * cstate)) (id : N) : nat :=
  match aget cs id with Some _ => 1%nat | None => O end.

(** In how many places request [id] currently is: the queue, a worker, a
    result message in the channel, the loop's hands, or answered (reply
    received by the caller or sitting in its reply channel). *)
Definition places (s : rstate) (id : N) : nat :=
  (occ id (queue s) + occ id (workers s) + count (is_result_of id) (chan s)
   + delivering_to (loop s) id + answered_at (callers s) id)%nat.

(** Label classes used by the bounded-work statement. *)
Definition is_enqueue (l : label) : bool := match l with Enqueue _ => true | _ => false end.
Definition is_abort_finish (l : label) : bool :=
  match l with WorkerFinish _ Aborted => true | _ => false end.
Definition no_enqueue (ls : list label) : bool := forallb (fun l => negb (is_enqueue l)) ls.

(** F-REQ-DEADLOCK schedule (n = capacity of the channel, n + 2 callers): it
    ends in a deadlock when the reply channels are unbuffered ([rcap = 0]).
    Caller 1 enqueues and is descheduled before its token send; caller 2's
    token makes the loop dispatch request 1, which finishes; the loop
    receives the result and blocks on caller 1's reply channel; [n] further
    callers fill the channel with tokens; caller 1 can no longer send.
    With [rcap >= 1] the loop is not blocked: [Deliver 1] is enabled. *)
Definition deadlock_schedule (n : nat) : list label :=
  [Enqueue 1%N; Enqueue 2%N; SendToken 2%N; LoopRecv; Dispatch; WorkerFinish 1%N Ok; LoopRecv]
  ++ map (fun i => Enqueue (N.of_nat i + 3)%N) (seq 0 n)
  ++ map (fun i => SendToken (N.of_nat i + 3)%N) (seq 0 n).

