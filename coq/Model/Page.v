(** M2 — executable model of the slotted table page.
    Mirrors lib/storage/access/table_page.go: InsertTuple, UpdateTuple (whole
    tuple form), MarkDelete, ApplyDelete, RollbackDelete, GetTuple, Init and
    the free-space arithmetic, for a transaction in recovery-phase mode (no
    row locking) with logging off.

    State: the free-space pointer, the slot array exactly as stored (offset and
    size field, the size field carrying the delete mark in bit 31), and the
    bytes of the tuple area [fsp, PageSize) as a list (free-space garbage below
    fsp is not part of the state).  All header arithmetic is uint32 arithmetic,
    written out with explicit wrap-around.  Model only: no proofs here. *)
From Coq Require Import List NArith Bool.
From SDB Require Import Params.
Import ListNotations.
Open Scope N_scope.

Definition w32 : N := 4294967296.
Definition add32 (a b : N) : N := (a + b) mod w32.
Definition sub32 (a b : N) : N := (a + w32 - b mod w32) mod w32.
Definition mul32 (a b : N) : N := (a * b) mod w32.

Record pstate := mkP {
  fsp   : N;                (* free space pointer *)
  slots : list (N * N);     (* per slot: (offset, size field) *)
  data  : list N            (* bytes of [fsp, PageSize) *)
}.

Definition pinit : pstate := mkP page_size [] [].

Inductive pop :=
| PInsert (b : list N)
| PInsertAt (slot : N) (b : list N)   (* InsertTuple by redo/undo: the tuple carries the RID of the log record *)
| PUpdate (slot : N) (b : list N) (rollback : bool)
| PMark (slot : N)
| PApply (slot : N)
| PRollback (slot : N)
| PGet (slot : N).

Inductive pout :=
| OInserted (slot : N)
| ONoSpace                 (* ErrNotEnoughSpace *)
| OUpdated (old : list N)
| ORollbackDifficult       (* ErrRollbackDifficult *)
| OFail                    (* false / nil *)
| OMarked (t : list N)
| ODone
| OPanic                   (* an SHAssert / panic the Go code reaches *)
| OTuple (t : list N)
| OSelfDeleted             (* ErrSelfDeletedCase *)
| OErr.                    (* ErrGeneral *)

Definition is_deleted (szf : N) : bool :=
  (N.land szf delete_mask =? delete_mask) || (szf =? 0).
Definition set_deleted (szf : N) : N := N.lor szf delete_mask.
Definition unset_deleted (szf : N) : N := N.land szf (w32 - 1 - delete_mask).

Definition count (s : pstate) : N := N.of_nat (length (slots s)).

(** getFreeSpaceRemaining *)
Definition free_remaining (s : pstate) : N :=
  sub32 (sub32 (fsp s) size_table_page_header) (mul32 size_tuple (count s)).

Definition slot_at (s : pstate) (i : N) : option (N * N) := nth_error (slots s) (N.to_nat i).

(** bytes [off, off+sz) of the page *)
Definition sub_data (s : pstate) (off sz : N) : list N :=
  firstn (N.to_nat sz) (skipn (N.to_nat (off - fsp s)) (data s)).

Fixpoint first_free (l : list (N * N)) (i : N) : N :=
  match l with
  | [] => i
  | (_, szf) :: l' => if szf =? 0 then i else first_free l' (i + 1)
  end.

Fixpoint set_nth {A} (l : list A) (n : nat) (x : A) : list A :=
  match l, n with
  | [], _ => [x]            (* n = length l: append *)
  | _ :: l', O => x :: l'
  | y :: l', S n' => y :: set_nth l' n' x
  end.

Definition blen (b : list N) : N := N.of_nat (length b).

Definition p_insert (s : pstate) (b : list N) : pstate * pout :=
  let size := blen b in
  if size =? 0 then (s, OPanic)
  else if free_remaining s <? add32 size size_tuple then (s, ONoSpace)
  else
    let slot := first_free (slots s) 0 in
    let fsp' := sub32 (fsp s) size in
    (mkP fsp' (set_nth (slots s) (N.to_nat slot) (fsp', size)) (b ++ data s), OInserted slot).

(** redo / undo: the logged slot is used when it is available (one past the end, or an empty slot) *)
Definition slot_available (l : list (N * N)) (slot : N) : bool :=
  (slot =? N.of_nat (length l)) ||
  match nth_error l (N.to_nat slot) with Some (_, szf) => szf =? 0 | None => false end.

Definition p_insert_at (s : pstate) (slot0 : N) (b : list N) : pstate * pout :=
  let size := blen b in
  if size =? 0 then (s, OPanic)
  else if free_remaining s <? add32 size size_tuple then (s, ONoSpace)
  else
    let slot := if slot_available (slots s) slot0 then slot0 else first_free (slots s) 0 in
    let fsp' := sub32 (fsp s) size in
    (mkP fsp' (set_nth (slots s) (N.to_nat slot) (fsp', size)) (b ++ data s), OInserted slot).

(** the offset fix-up loop of UpdateTuple *)
Definition fix_update (off sz newsize : N) (e : N * N) : N * N :=
  let '(o, szf) := e in
  if (0 <? szf) && (o <? add32 off sz) then (sub32 (add32 o sz) newsize, szf) else e.

(** the offset fix-up loop of ApplyDelete *)
Definition fix_delete (off sz : N) (e : N * N) : N * N :=
  let '(o, szf) := e in
  if negb (szf =? 0) && (o <? off) then (add32 o sz, szf) else e.

Definition p_update (s : pstate) (slot : N) (b : list N) (rollback : bool) : pstate * pout :=
  let newsize := blen b in
  if newsize =? 0 then (s, OPanic)
  else match slot_at s slot with
  | None => (s, OFail)
  | Some (off, szf) =>
    if is_deleted szf then (s, OFail)
    else
      let old := sub_data s off szf in
      if add32 (free_remaining s) szf <? newsize then (s, ONoSpace)
      else if (newsize <? szf) && negb rollback then (s, ORollbackDifficult)
      else if off <? fsp s then (s, OPanic)
      else
        let k := N.to_nat (off - fsp s) in
        let data' := firstn k (data s) ++ b ++ skipn (k + N.to_nat szf) (data s) in
        let slots1 := set_nth (slots s) (N.to_nat slot) (off, newsize) in
        (mkP (sub32 (add32 (fsp s) szf) newsize) (map (fix_update off szf newsize) slots1) data',
         OUpdated old)
  end.

Definition p_mark (s : pstate) (slot : N) : pstate * pout :=
  match slot_at s slot with
  | None => (s, OFail)
  | Some (off, szf) =>
    if is_deleted szf then (s, OFail)
    else (mkP (fsp s) (set_nth (slots s) (N.to_nat slot) (off, set_deleted szf)) (data s),
          OMarked (sub_data s off szf))
  end.

Definition p_apply (s : pstate) (slot : N) : pstate * pout :=
  match slot_at s slot with
  | None => (s, OPanic)
  | Some (off, szf) =>
    let sz := if is_deleted szf then unset_deleted szf else szf in
    if off <? fsp s then (s, OPanic)
    else
      let k := N.to_nat (off - fsp s) in
      let data' := firstn k (data s) ++ skipn (k + N.to_nat sz) (data s) in
      let slots1 := set_nth (slots s) (N.to_nat slot) (0, 0) in
      (mkP (add32 (fsp s) sz) (map (fix_delete off sz) slots1) data', ODone)
  end.

Definition p_rollback (s : pstate) (slot : N) : pstate * pout :=
  match slot_at s slot with
  | None => (s, OPanic)
  | Some (off, szf) =>
    if szf =? 0 then (s, OPanic)
    else if is_deleted szf
      then (mkP (fsp s) (set_nth (slots s) (N.to_nat slot) (off, unset_deleted szf)) (data s), ODone)
      else (s, ODone)
  end.

Definition p_get (s : pstate) (slot : N) : pstate * pout :=
  match slot_at s slot with
  | None => (s, OErr)
  | Some (off, szf) =>
    if is_deleted szf then (s, OSelfDeleted)
    else (s, OTuple (sub_data s off szf))
  end.

Definition pstep (s : pstate) (o : pop) : pstate * pout :=
  match o with
  | PInsert b => p_insert s b
  | PInsertAt i b => p_insert_at s i b
  | PUpdate i b r => p_update s i b r
  | PMark i => p_mark s i
  | PApply i => p_apply s i
  | PRollback i => p_rollback s i
  | PGet i => p_get s i
  end.

Definition prun (ops : list pop) (s : pstate) : pstate :=
  fold_left (fun s o => fst (pstep s o)) ops s.

(** * The specification: a map from slot number to (bytes, delete-marked). *)

Definition aentry := option (list N * bool).
Definition astate := list aentry.

Definition a_used (a : astate) : N :=
  fold_right (fun e acc => match e with Some (b, _) => blen b + acc | None => acc end) 0 a.
Definition a_free (a : astate) : N :=
  page_size - size_table_page_header - size_tuple * N.of_nat (length a) - a_used a.

Fixpoint a_first_free (a : astate) (i : N) : N :=
  match a with
  | [] => i
  | None :: _ => i
  | Some _ :: a' => a_first_free a' (i + 1)
  end.

Definition a_at (a : astate) (i : N) : option aentry := nth_error a (N.to_nat i).

Definition a_available (a : astate) (i : N) : bool :=
  (i =? N.of_nat (length a)) ||
  match nth_error a (N.to_nat i) with Some None => true | _ => false end.

Definition astep (a : astate) (o : pop) : astate * pout :=
  match o with
  | PInsert b =>
      if blen b =? 0 then (a, OPanic)
      else if a_free a <? blen b + size_tuple then (a, ONoSpace)
      else let i := a_first_free a 0 in (set_nth a (N.to_nat i) (Some (b, false)), OInserted i)
  | PInsertAt i0 b =>
      if blen b =? 0 then (a, OPanic)
      else if a_free a <? blen b + size_tuple then (a, ONoSpace)
      else let i := if a_available a i0 then i0 else a_first_free a 0 in
           (set_nth a (N.to_nat i) (Some (b, false)), OInserted i)
  | PUpdate i b r =>
      if blen b =? 0 then (a, OPanic)
      else match a_at a i with
      | Some (Some (old, false)) =>
          if a_free a + blen old <? blen b then (a, ONoSpace)
          else if (blen b <? blen old) && negb r then (a, ORollbackDifficult)
          else (set_nth a (N.to_nat i) (Some (b, false)), OUpdated old)
      | _ => (a, OFail)
      end
  | PMark i =>
      match a_at a i with
      | Some (Some (b, false)) => (set_nth a (N.to_nat i) (Some (b, true)), OMarked b)
      | _ => (a, OFail)
      end
  | PApply i =>
      match a_at a i with
      | Some (Some _) => (set_nth a (N.to_nat i) None, ODone)
      | _ => (a, OPanic)
      end
  | PRollback i =>
      match a_at a i with
      | Some (Some (b, _)) => (set_nth a (N.to_nat i) (Some (b, false)), ODone)
      | _ => (a, OPanic)
      end
  | PGet i =>
      match a_at a i with
      | None => (a, OErr)
      | Some None => (a, OSelfDeleted)
      | Some (Some (_, true)) => (a, OSelfDeleted)
      | Some (Some (b, false)) => (a, OTuple b)
      end
  end.

Definition arun (ops : list pop) (a : astate) : astate :=
  fold_left (fun a o => fst (astep a o)) ops a.

(** Abstraction function: what the concrete page says is stored under each slot. *)
Definition abs_entry (s : pstate) (e : N * N) : aentry :=
  let '(off, szf) := e in
  if szf =? 0 then None
  else
    let marked := N.land szf delete_mask =? delete_mask in
    Some (sub_data s off (unset_deleted szf), marked).
Definition abs (s : pstate) : astate := map (abs_entry s) (slots s).

(** Operations are well formed when the rows are shorter than 2^31 bytes (bit 31
    of the size field is the delete mark). *)
Definition op_ok (o : pop) : bool :=
  match o with
  | PInsert b | PInsertAt _ b | PUpdate _ b _ => (blen b <? delete_mask) && forallb (fun x => x <? 256) b
  | _ => true
  end.
