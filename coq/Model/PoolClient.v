(** The client side of the buffer-pool contract and the abstract specification
    (a map page id -> latest written value), run in lock step with the pool
    model.  [cstep] returns [None] when the client breaks the contract C:
      - write a page / mark it deallocated only while holding a pin on it;
      - unpin only what is pinned; a writer unpins with dirty = true;
      - no fetch of a page id after it was deallocated (until NewPage hands it out again);
      - a frame is requested (NewPage, or FetchPage of a page the client holds no pin on)
        only while the client has fewer distinct pages pinned than the pool has frames;
      - the victim supplied for the replacer is legal (the model did not answer BOBad).
    Model only: no proofs here. *)
From Coq Require Import List NArith ZArith Bool.
From SDB Require Import Base.Assoc Model.Pool.
Import ListNotations.
Open Scope N_scope.

Record client := mkC {
  c_pins  : list (N * N);    (* page id -> number of pins the users hold *)
  c_wrote : list N;          (* pages written since their writer's last dirty unpin *)
  c_spec  : list (N * N);    (* SPECIFICATION: page id -> latest written value (written pages only) *)
  c_dead  : list N           (* page ids deallocated and not handed out again *)
}.

Definition cinit : client := mkC [] [] [] [].

Definition pins_of (c : client) (p : N) : N := match aget (c_pins c) p with Some k => k | None => 0 end.
Definition npinned (c : client) : nat := length (filter (fun e => 0 <? snd e) (c_pins c)).

Definition cstep (nframes : nat) (bc : pool * client) (o : bop) : option (pool * client * bout) :=
  let '(b, c) := bc in
  let '(b', out) := bstep b o in
  match out with
  | BOBad => None
  | _ =>
    match o with
    | BNew _ =>
        if Nat.ltb (npinned c) nframes then
          match out with
          | BONew p =>
              Some (b', mkC (aset (c_pins c) p 1) (remove1 p (c_wrote c)) (adel (c_spec c) p) (remove1 p (c_dead c)), out)
          | _ => Some (b', c, out)
          end
        else None
    | BFetch p _ =>
        if memN p (c_dead c) && (pins_of c p =? 0) then None
        else if (pins_of c p =? 0) && negb (Nat.ltb (npinned c) nframes) then None
        else
          match out with
          | BOFetched _ => Some (b', mkC (aset (c_pins c) p (pins_of c p + 1)) (c_wrote c) (c_spec c) (c_dead c), out)
          | _ => Some (b', c, out)
          end
    | BWrite p v =>
        if pins_of c p =? 0 then None
        else Some (b', mkC (c_pins c) (if memN p (c_wrote c) then c_wrote c else p :: c_wrote c)
                       (aset (c_spec c) p v) (c_dead c), out)
    | BUnpin p d =>
        if pins_of c p =? 0 then None
        else if memN p (c_wrote c) && negb d then None
        else
          let k := pins_of c p - 1 in
          Some (b', mkC (aset (c_pins c) p k) (remove1 p (c_wrote c))
                    (if (k =? 0) && memN p (c_dead c) then adel (c_spec c) p else c_spec c) (c_dead c), out)
    | BFlush _ | BFlushAll => Some (b', c, out)
    | BDealloc p nw =>
        if negb nw then Some (b', c, out)
        else Some (b', mkC (c_pins c) (c_wrote c)
                      (if pins_of c p =? 0 then adel (c_spec c) p else c_spec c)
                      (if memN p (c_dead c) then c_dead c else p :: c_dead c), out)
    | BMarkDealloc p =>
        if pins_of c p =? 0 then None
        else Some (b', mkC (c_pins c) (c_wrote c) (c_spec c)
                      (if memN p (c_dead c) then c_dead c else p :: c_dead c), out)
    end
  end.

(** Run a whole history; [None] as soon as the contract is broken. Outputs are collected. *)
Fixpoint crun (nframes : nat) (bc : pool * client) (ops : list bop) : option (pool * client * list bout) :=
  match ops with
  | [] => Some (fst bc, snd bc, [])
  | o :: rest =>
      match cstep nframes bc o with
      | None => None
      | Some (b', c', out) =>
          match crun nframes (b', c') rest with
          | None => None
          | Some (b'', c'', outs) => Some (b'', c'', out :: outs)
          end
      end
  end.
