(** M6c — the write-ahead discipline checked on the I/O trace of the storage boundary
    (hook H1: every WritePage / WriteLog / GCLogFile call of the disk manager, in order,
    plus the harness marker "the commit of a writing transaction returned").
    Model only: no proofs here. *)
From Coq Require Import List NArith ZArith Bool.
From SDB Require Import Base.Bytes Base.Assoc Params Model.Wal Model.LogCodec.
Import ListNotations.
Open Scope N_scope.

Inductive tev :=
| TLog (bytes : list N)          (* one WriteLog call: the bytes appended to the log file *)
| TPage (pid : N) (plsn : N)     (* one WritePage call: page id and the page LSN (bytes 4..8 of the image) *)
| TTrunc                         (* GCLogFile: the log file is emptied *)
| TCommitRet (txn : N).          (* Commit of a writing transaction returned to its caller *)

(** * What is durable after a trace prefix (specification level) *)

(** the bytes of the log file: everything written since the last truncation *)
Definition durable_bytes (pre : list tev) : list N :=
  fold_left (fun acc e => match e with TLog b => acc ++ b | TTrunc => [] | _ => acc end) pre [].

Definition durable_recs (pre : list tev) : list lrec_full := fst (parse_all (durable_bytes pre)).
Definition durable_left (pre : list tev) : list N := snd (parse_all (durable_bytes pre)).
Definition durable_log (pre : list tev) : list lrec := map to_lrec (durable_recs pre).

(** the largest LSN of the records that carry one (0 for none) *)
Definition max_lsn (l : list lrec) : N :=
  fold_left (fun m r => if has_lsn (l_kind r) then N.max m (l_lsn r) else m) l 0.

(** the LSN of the last record of transaction [t] that carries one *)
Definition prev_of (l : list lrec) (t : N) : option N :=
  fold_left (fun o r => if has_lsn (l_kind r) && (l_txn r =? t) then Some (l_lsn r) else o) l None.

Definition is_commit_of (t : N) (r : lrec) : bool :=
  (l_txn r =? t) && match l_kind r with KCommit => true | _ => false end.

(** * Executable checks on lists of records *)

(** LSNs strictly increase in file order (records without LSN are skipped) *)
Fixpoint lsns_ok_from (last : option N) (l : list lrec) : bool :=
  match l with
  | [] => true
  | r :: rest =>
      if has_lsn (l_kind r) then
        (match last with Some n => n <? l_lsn r | None => true end) && lsns_ok_from (Some (l_lsn r)) rest
      else lsns_ok_from last rest
  end.

Definition last_after (last : option N) (l : list lrec) : option N :=
  fold_left (fun o r => if has_lsn (l_kind r) then Some (l_lsn r) else o) l last.

(** the per-transaction "last LSN" table of Wal.chains_ok_from after the records [l] *)
Definition lastof_after (l : list lrec) (lo : list (N * N)) : list (N * N) :=
  fold_left (fun lo r => if has_lsn (l_kind r) then aset lo (l_txn r) (l_lsn r) else lo) l lo.

Definition commits_of (l : list lrec) : list N :=
  flat_map (fun r => match l_kind r with KCommit => [l_txn r] | _ => [] end) l.

(** * The checker *)

Inductive viol := VUnparsable | VLsnOrder | VChain | VPageAhead | VCommitNotDurable.

(** summary of the durable log kept while walking the trace *)
Record wst := mkW {
  w_last : option N;            (* LSN of the last record that carries one = the largest (they increase) *)
  w_lastof : list (N * N);      (* transaction -> LSN of its last record *)
  w_tracked : list N;           (* pages introduced by a NewTablePage record *)
  w_commits : list N;           (* transactions with a COMMIT record *)
  w_nrecs : N                   (* number of records (statistics only) *)
}.

Definition w0 : wst := mkW None [] [] [] 0.

Definition w_max (s : wst) : N := match w_last s with Some n => n | None => 0 end.

Definition wstep (s : wst) (e : tev) : wst + viol :=
  match e with
  | TLog b =>
      let (rs, left) := parse_all b in
      match left with
      | _ :: _ => inr VUnparsable
      | [] =>
          let l := map to_lrec rs in
          if negb (lsns_ok_from (w_last s) l) then inr VLsnOrder
          else if negb (chains_ok_from l (w_lastof s)) then inr VChain
          else inl (mkW (last_after (w_last s) l) (lastof_after l (w_lastof s))
                        (w_tracked s ++ tracked l) (w_commits s ++ commits_of l)
                        (w_nrecs s + N.of_nat (length l)))
      end
  | TPage pid plsn =>
      if memN pid (w_tracked s) && negb (plsn <=? w_max s) then inr VPageAhead else inl s
  | TTrunc => inl w0
  | TCommitRet t =>
      if memN t (w_commits s) then inl s else inr VCommitNotDurable
  end.

(** index and kind of the first violation *)
Fixpoint wrun (s : wst) (tr : list tev) (idx : N) : option (N * viol) :=
  match tr with
  | [] => None
  | e :: rest =>
      match wstep s e with
      | inl s' => wrun s' rest (idx + 1)
      | inr v => Some (idx, v)
      end
  end.

Definition wal_violation (tr : list tev) : option (N * viol) := wrun w0 tr 0.

Definition wal_ok (tr : list tev) : bool :=
  match wal_violation tr with None => true | Some _ => false end.

(** statistics for the report line of the driver: (records written to the log over the whole
    trace, page writes of tracked pages); meaningful on traces that pass *)
Fixpoint wstats (s : wst) (tr : list tev) (nrec ntp : N) : N * N :=
  match tr with
  | [] => (nrec, ntp)
  | e :: rest =>
      let ntp' := match e with TPage pid _ => if memN pid (w_tracked s) then ntp + 1 else ntp | _ => ntp end in
      let nrec' := match e with TLog b => nrec + N.of_nat (length (fst (parse_all b))) | _ => nrec end in
      match wstep s e with
      | inl s' => wstats s' rest nrec' ntp'
      | inr _ => (nrec', ntp')
      end
  end.
Definition wal_stats (tr : list tev) : N * N := wstats w0 tr 0 0.

(** * The log manager's buffer swap (lib/recovery/log_manager.go AppendLogRecord / Flush) *)

Inductive lmstep := LAppend (r : lrec_full) | LFlush.

(** state: the bytes in the current log buffer ([logBuffer[:offset]]);
    result: the new buffer and the WriteLog calls made *)
Definition lm_flush_if (c : bool) (buf : list N) : list N * list tev :=
  if c then ([], [TLog buf]) else (buf, []).

Definition lm_step (buf : list N) (s : lmstep) : list N * list tev :=
  match s with
  | LFlush => ([], [TLog buf])
  | LAppend r =>
      (* no room for a header: flush; then no room for the record: flush *)
      let (b1, e1) := lm_flush_if (log_buffer_size - lenN buf <? log_header_size) buf in
      let (b2, e2) := lm_flush_if (log_buffer_size - lenN b1 <? f_size r) b1 in
      (b2 ++ ser_rec r, e1 ++ e2)
  end.

Fixpoint lm_run (buf : list N) (ss : list lmstep) : list N * list tev :=
  match ss with
  | [] => (buf, [])
  | s :: rest =>
      let (b1, e1) := lm_step buf s in
      let (b2, e2) := lm_run b1 rest in
      (b2, e1 ++ e2)
  end.

Definition appended (ss : list lmstep) : list lrec_full :=
  flat_map (fun s => match s with LAppend r => [r] | LFlush => [] end) ss.

Definition payloads (es : list tev) : list N :=
  flat_map (fun e => match e with TLog b => b | _ => [] end) es.

(** * The discipline, declaratively (what [wal_ok] is proved to imply) *)

(** records that carry an LSN appear in strictly increasing LSN order *)
Definition lsns_increasing (l : list lrec) : Prop :=
  forall i j ri rj, (i < j)%nat -> nth_error l i = Some ri -> nth_error l j = Some rj ->
    has_lsn (l_kind ri) = true -> has_lsn (l_kind rj) = true -> l_lsn ri < l_lsn rj.

(** every record's prevLSN is the LSN of the previous record of the same transaction
    ([None], i.e. a negative prevLSN in the file, for the transaction's first record) *)
Definition chains_intact (l : list lrec) : Prop :=
  forall a r b, l = a ++ r :: b -> has_lsn (l_kind r) = true -> l_prev r = prev_of a (l_txn r).

(** the log file after the trace prefix [pre] is a sequence of complete records, in
    increasing LSN order, with intact per-transaction chains *)
Definition log_wellformed (pre : list tev) : Prop :=
  durable_left pre = [] /\ lsns_increasing (durable_log pre) /\ chains_intact (durable_log pre).

Definition commit_durable (pre : list tev) (t : N) : Prop :=
  exists r, In r (durable_log pre) /\ l_txn r = t /\ l_kind r = KCommit.

(** what must hold when event [e] happens after the events [pre] *)
Definition event_ok (pre : list tev) (e : tev) : Prop :=
  match e with
  | TPage pid plsn => In pid (tracked (durable_log pre)) -> plsn <= max_lsn (durable_log pre)
  | TCommitRet t => commit_durable pre t
  | _ => True
  end.
